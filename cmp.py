#!/usr/bin/env python3
"""dev helper: cmp.py ops.jsonl out.jsonl — print disagreements / failing oracles"""
import sys, json
def canon(x): return json.dumps(x, sort_keys=True, separators=(",", ":"))
bad = 0; fails = {}; n = 0
for la, lb in zip(open(sys.argv[1]), open(sys.argv[2])):
    n += 1
    a, b = json.loads(la), json.loads(lb)
    if "error" in b:
        bad += 1
        if bad <= 5: print("ERR", b["error"], canon(a)[:400])
        continue
    if b.get("model") is not None and canon(b["model"]) != canon(a["impl"]):
        bad += 1
        if bad <= int(sys.argv[3]) if len(sys.argv) > 3 else bad <= 5:
            print("DIS in=", canon(a["in"])[:500], "\n   impl=", canon(a["impl"])[:500], "\n  model=", canon(b["model"])[:500])
    for k, v in b.get("holds", {}).items():
        if not v:
            g = [t for t in b.get("tags", []) if t.startswith("guard:")]
            key = k + " " + ",".join(g)
            fails.setdefault(key, []).append(a)
print("lines", n, "disagreements", bad)
for k, v in fails.items():
    print("FAIL", k, len(v), canon(min(v, key=lambda x: len(canon(x))))[:700])
