package main

// Suite "isolation", second part: the BatchRelease call sites of the resource expectations, the
// dynamic watch registry, and the record of the -race runner.

import (
	"context"
	"encoding/json"
	"fmt"
	"os"
	"os/exec"
	"path/filepath"
	"strings"
	"sync"
	"time"

	"github.com/go-logr/logr"
	"github.com/openkruise/rollouts/api/v1beta1"
	"github.com/openkruise/rollouts/pkg/controller/batchrelease"
	brdeploy "github.com/openkruise/rollouts/pkg/controller/batchrelease/control/canarystyle/deployment"
	rolloutctl "github.com/openkruise/rollouts/pkg/controller/rollout"
	expectations "github.com/openkruise/rollouts/pkg/util/expectation"
	apps "k8s.io/api/apps/v1"
	corev1 "k8s.io/api/core/v1"
	metav1 "k8s.io/apimachinery/pkg/apis/meta/v1"
	"k8s.io/apimachinery/pkg/types"
	"k8s.io/apimachinery/pkg/util/intstr"
	ctrl "sigs.k8s.io/controller-runtime"
	"sigs.k8s.io/controller-runtime/pkg/client"
	"sigs.k8s.io/controller-runtime/pkg/handler"
	"sigs.k8s.io/controller-runtime/pkg/predicate"
	"sigs.k8s.io/controller-runtime/pkg/reconcile"
	"sigs.k8s.io/controller-runtime/pkg/source"
)

// ---- op brexp ----

type isoRelease struct {
	R           int    `json:"r"`
	Ns          string `json:"ns"`
	Name        string `json:"name"`
	UID         string `json:"uid"`
	Workload    string `json:"workload"`
	HasWorkload bool   `json:"hasWorkload"`
}

type isoBrIn struct {
	Timeout  int          `json:"timeout"` // expectations.ExpectationTimeout, seconds
	Releases []isoRelease `json:"releases"`
	Events   []isoEv      `json:"events"` // call: create|deliver|deliverForeign
}

// isoAPIClient behaves like an API server seen through an informer cache: Create assigns a UID
// (the fake client does not), and a created Deployment stays invisible to List until the
// informer delivers it.
type isoAPIClient struct {
	*LogClient
	hidden  map[string]bool
	pending map[string][]*apps.Deployment // by owner UID
	created map[string]int
}

func (a *isoAPIClient) Create(ctx context.Context, obj client.Object, opts ...client.CreateOption) error {
	d, isDep := obj.(*apps.Deployment)
	if isDep && d.UID == "" {
		owner := ""
		if o := metav1.GetControllerOf(d); o != nil {
			owner = string(o.UID)
		}
		a.created[owner]++
		d.UID = types.UID(fmt.Sprintf("canary-of-%s-%d", owner, a.created[owner]))
	}
	if err := a.LogClient.Create(ctx, obj, opts...); err != nil {
		if isDep {
			d.UID = ""
		}
		return err
	}
	if isDep {
		a.hidden[d.Namespace+"/"+d.Name] = true
		if o := metav1.GetControllerOf(d); o != nil {
			a.pending[string(o.UID)] = append(a.pending[string(o.UID)], d.DeepCopy())
		}
	}
	return nil
}

func (a *isoAPIClient) List(ctx context.Context, list client.ObjectList, opts ...client.ListOption) error {
	if err := a.LogClient.List(ctx, list, opts...); err != nil {
		return err
	}
	if dl, ok := list.(*apps.DeploymentList); ok {
		kept := dl.Items[:0]
		for _, d := range dl.Items {
			if !a.hidden[d.Namespace+"/"+d.Name] {
				kept = append(kept, d)
			}
		}
		dl.Items = kept
	}
	return nil
}

func isoRelObj(rel *isoRelease) *v1beta1.BatchRelease {
	br := &v1beta1.BatchRelease{}
	br.APIVersion, br.Kind = v1beta1.GroupVersion.String(), "BatchRelease"
	br.Namespace, br.Name, br.UID = rel.Ns, rel.Name, types.UID(rel.UID)
	br.Spec.WorkloadRef = v1beta1.ObjectRef{APIVersion: "apps/v1", Kind: "Deployment", Name: rel.Workload}
	br.Spec.ReleasePlan.Batches = []v1beta1.ReleaseBatch{{CanaryReplicas: intstr.FromInt(1)}}
	return br
}

func isoWorkload(ns, name string) *apps.Deployment {
	d := &apps.Deployment{ObjectMeta: metav1.ObjectMeta{Namespace: ns, Name: name, UID: types.UID("wl-uid-" + ns + "-" + name), Generation: 1}}
	d.Spec.Replicas = i32p(3)
	d.Spec.Selector = &metav1.LabelSelector{MatchLabels: map[string]string{"app": name}}
	d.Spec.Template.Labels = map[string]string{"app": name}
	d.Spec.Template.Spec.Containers = []corev1.Container{{Name: "main", Image: "img:v2"}}
	return d
}

func isoBrStep(api *isoAPIClient, rel *isoRelease, ev *isoEv) J {
	out := J{"r": rel.R, "call": ev.Call, "pre": isoExpDump()}
	switch ev.Call {
	case "create":
		br := isoRelObj(rel)
		ctl := brdeploy.NewController(api, types.NamespacedName{Namespace: rel.Ns, Name: rel.Workload})
		canary, berr := ctl.BuildCanaryController(br)
		known := berr == nil
		api.Log, api.sequence, api.FailAt = nil, 0, -1
		if ev.FailAt != nil {
			api.FailAt = *ev.FailAt
		}
		before := api.created[rel.UID]
		err := canary.Create(br)
		api.FailAt = -1
		res, uid := "", ""
		switch {
		case err == nil:
			res = "alreadyExists"
		case strings.Contains(err.Error(), "expectation is not satisfied"):
			res = "blocked"
		case strings.Contains(err.Error(), "created canary deployment"):
			res = "created"
		case !rel.HasWorkload:
			res = "stableErr"
		default:
			res = "createErr"
		}
		if api.created[rel.UID] > before && res == "created" {
			uid = fmt.Sprintf("canary-of-%s-%d", rel.UID, api.created[rel.UID])
		}
		out["known"], out["res"], out["uid"] = known, res, uid
	case "deliver":
		p := api.pending[rel.UID]
		if len(p) == 0 {
			out["obj"] = nil
			break
		}
		d := p[0]
		api.pending[rel.UID] = p[1:]
		delete(api.hidden, d.Namespace+"/"+d.Name)
		batchrelease.VerifExpectationObserved(d)
		o := metav1.GetControllerOf(d)
		out["obj"] = J{"ns": d.Namespace, "uid": string(d.UID), "ownerKind": o.Kind, "ownerName": o.Name}
	case "deliverForeign":
		// an object in the same namespace, with the UID of a pending canary if there is one, that is not
		// controlled by a BatchRelease
		uid := "foreign-uid"
		if p := api.pending[rel.UID]; len(p) > 0 {
			uid = string(p[0].UID)
		}
		d := isoWorkload(rel.Ns, "foreign")
		d.UID = types.UID(uid)
		kind := ""
		if ev.W != nil && *ev.W == 1 {
			tr := true
			d.OwnerReferences = []metav1.OwnerReference{{APIVersion: "rollouts.kruise.io/v1beta1", Kind: "Rollout", Name: rel.Name, UID: "x", Controller: &tr}}
			kind = "Rollout"
		}
		batchrelease.VerifExpectationObserved(d)
		if kind == "" {
			out["obj"] = J{"ns": d.Namespace, "uid": uid, "ownerKind": nil, "ownerName": nil}
		} else {
			out["obj"] = J{"ns": d.Namespace, "uid": uid, "ownerKind": kind, "ownerName": rel.Name}
		}
	default:
		panic("bad brexp call " + ev.Call)
	}
	out["store"] = isoExpDump()
	return out
}

func isoRunBr(in *isoBrIn, only int) J {
	objs := []client.Object{}
	seen := map[string]bool{}
	for _, rel := range in.Releases {
		if k := rel.Ns + "/" + rel.Workload; rel.HasWorkload && !seen[k] {
			seen[k] = true
			objs = append(objs, isoWorkload(rel.Ns, rel.Workload))
		}
	}
	api := &isoAPIClient{LogClient: NewLogClient(fakeClient(objs...)), hidden: map[string]bool{}, pending: map[string][]*apps.Deployment{}, created: map[string]int{}}
	expectations.VerifReset()
	oldT := expectations.ExpectationTimeout
	expectations.ExpectationTimeout = isoSec(in.Timeout)
	defer func() { expectations.ExpectationTimeout = oldT }()
	byR := map[int]*isoRelease{}
	for i := range in.Releases {
		byR[in.Releases[i].R] = &in.Releases[i]
	}
	steps := []interface{}{}
	for i := range in.Events {
		ev := &in.Events[i]
		switch ev.T {
		case "tick":
			expectations.VerifShift(isoSec(ev.D))
		case "op":
			if only != 0 && ev.R != only {
				continue
			}
			steps = append(steps, isoBrStep(api, byR[ev.R], ev))
		}
	}
	out := J{"steps": steps, "final": isoExpDump()}
	expectations.VerifReset()
	return out
}

func isoBrCase(c *Ctx, in isoBrIn) {
	impl := guard(func() interface{} {
		solo := []interface{}{}
		for i := range in.Releases {
			s := isoRunBr(&in, in.Releases[i].R)
			s["r"] = in.Releases[i].R
			solo = append(solo, s)
		}
		return J{"joint": isoRunBr(&in, 0), "solo": solo}
	})
	c.Emit("brexp", in, impl)
}

func genIsoBr(c *Ctx) isoBrIn {
	in := isoBrIn{Timeout: 300}
	n := 2 + c.Rng.Intn(2)
	nss := []string{"prod", "stage"}
	names := []string{"demo", "demo-2", "demo-20", "api"}
	same := c.Rng.Intn(12) == 0 // two BatchReleases with the same namespace/name cannot exist; used to exercise the shared-key path
	used := map[string]bool{}
	for r := 1; r <= n; r++ {
		rel := isoRelease{R: r, UID: fmt.Sprintf("br-uid-%d", r), HasWorkload: c.Rng.Intn(15) != 0}
		for {
			rel.Ns, rel.Name = nss[c.Rng.Intn(2)], names[c.Rng.Intn(len(names))]
			if !used[rel.Ns+"/"+rel.Name] {
				break
			}
		}
		if same && r == 2 {
			rel.Ns, rel.Name = in.Releases[0].Ns, in.Releases[0].Name
		}
		used[rel.Ns+"/"+rel.Name] = true
		rel.Workload = "wl-" + rel.Name
		if c.Rng.Intn(4) == 0 {
			rel.Workload = "wl" // the same workload name in two namespaces
		}
		in.Releases = append(in.Releases, rel)
	}
	// one Deployment per (namespace, workload name): it exists for all releases that name it, or for none
	for i := range in.Releases {
		for j := range in.Releases {
			if in.Releases[i].Ns == in.Releases[j].Ns && in.Releases[i].Workload == in.Releases[j].Workload && in.Releases[j].HasWorkload {
				in.Releases[i].HasWorkload = true
			}
		}
	}
	total := 5 + c.Rng.Intn(12)
	for i := 0; i < total; i++ {
		switch x := c.Rng.Intn(12); {
		case x < 2:
			in.Events = append(in.Events, isoEv{T: "tick", D: []int{100, 200, 300, 400}[c.Rng.Intn(4)]})
		case x < 8:
			ev := isoEv{T: "op", R: 1 + c.Rng.Intn(n), Call: "create"}
			if c.Rng.Intn(12) == 0 {
				f := 0
				ev.FailAt = &f
			}
			in.Events = append(in.Events, ev)
		case x < 11:
			in.Events = append(in.Events, isoEv{T: "op", R: 1 + c.Rng.Intn(n), Call: "deliver"})
		default:
			w := c.Rng.Intn(2)
			in.Events = append(in.Events, isoEv{T: "op", R: 1 + c.Rng.Intn(n), Call: "deliverForeign", W: &w})
		}
	}
	return in
}

// ---- op watch ----

type isoWatchRo struct {
	R          int    `json:"r"`
	Ns         string `json:"ns"`
	Name       string `json:"name"`
	APIVersion string `json:"apiVersion"`
	Kind       string `json:"kind"`
	// Fails[k]: this rollout's k-th own Watch call fails (calls beyond the list succeed). The schedule
	// belongs to the rollout, not to the shared controller, so that "alone" has a meaning.
	Fails []bool `json:"fails"`
}

type isoWatchIn struct {
	Ctl      string       `json:"ctl"` // rollout | batchrelease: whose Reconcile / watch registry
	Rollouts []isoWatchRo `json:"rollouts"`
	Events   []isoEv      `json:"events"` // call: reconcile | inflight (with nested)
}

type isoWatchCall struct {
	r   int
	gvk string
	ok  bool
}

// isoFakeController stands in for the manager's controller: it records the watches the reconciler adds
// dynamically, fails them according to the per-rollout schedule, and can hold one call in flight.
type isoFakeController struct {
	mu      sync.Mutex
	cur     int // rollout whose Reconcile the harness is calling
	ord     map[int]int
	fails   map[int][]bool
	calls   []isoWatchCall // in order of completion
	blockR  int            // the next Watch call of this rollout blocks until released
	entered chan struct{}
	release chan struct{}
}

func (f *isoFakeController) Reconcile(context.Context, reconcile.Request) (reconcile.Result, error) {
	return reconcile.Result{}, nil
}
func (f *isoFakeController) Watch(src source.Source, _ handler.EventHandler, _ ...predicate.Predicate) error {
	gvk := "?"
	if k, ok := src.(*source.Kind); ok {
		gvk = k.Type.GetObjectKind().GroupVersionKind().String()
	}
	f.mu.Lock()
	r := f.cur
	k := f.ord[r]
	f.ord[r]++
	ok := !(k < len(f.fails[r]) && f.fails[r][k])
	block := f.blockR == r
	if block {
		f.blockR = 0
	}
	f.mu.Unlock()
	if block {
		f.entered <- struct{}{}
		<-f.release
	}
	f.mu.Lock()
	f.calls = append(f.calls, isoWatchCall{r, gvk, ok})
	f.mu.Unlock()
	if !ok {
		return fmt.Errorf("watch %s failed", gvk)
	}
	return nil
}
func (f *isoFakeController) Start(context.Context) error { return nil }
func (f *isoFakeController) GetLogger() logr.Logger      { return logr.Discard() }

func isoWatchRollout(w isoWatchRo) *v1beta1.Rollout {
	ro := &v1beta1.Rollout{}
	ro.Namespace, ro.Name, ro.UID, ro.Generation = w.Ns, w.Name, types.UID(fmt.Sprintf("ro-uid-%d", w.R)), 1
	ro.Spec.WorkloadRef = v1beta1.ObjectRef{APIVersion: w.APIVersion, Kind: w.Kind, Name: "wl"}
	one := intstr.FromInt(1)
	ro.Spec.Strategy.Canary = &v1beta1.CanaryStrategy{Steps: []v1beta1.CanaryStep{{Replicas: &one}}}
	return ro
}

func isoWatchRelease(w isoWatchRo) *v1beta1.BatchRelease {
	br := &v1beta1.BatchRelease{}
	br.Namespace, br.Name, br.UID, br.Generation = w.Ns, w.Name, types.UID(fmt.Sprintf("br-uid-%d", w.R)), 1
	br.Spec.WorkloadRef = v1beta1.ObjectRef{APIVersion: w.APIVersion, Kind: w.Kind, Name: "wl"}
	br.Spec.ReleasePlan.Batches = []v1beta1.ReleaseBatch{{CanaryReplicas: intstr.FromInt(1)}}
	return br
}

func isoDynamic(all []string) []string {
	static := map[string]bool{}
	for _, k := range []string{"apps/v1, Kind=Deployment", "apps/v1, Kind=StatefulSet", "apps.kruise.io/v1alpha1, Kind=CloneSet",
		"apps.kruise.io/v1beta1, Kind=StatefulSet", "apps.kruise.io/v1alpha1, Kind=StatefulSet", "apps.kruise.io/v1alpha1, Kind=DaemonSet"} {
		static[k] = true
	}
	out := []string{}
	nStatic := 0
	for _, k := range all {
		if static[k] {
			nStatic++
		} else {
			out = append(out, k)
		}
	}
	if nStatic != len(static) {
		out = append(out, fmt.Sprintf("!static=%d", nStatic))
	}
	return out
}

func isoRunWatch(in *isoWatchIn, only int) J {
	objs := []client.Object{}
	for _, w := range in.Rollouts {
		if in.Ctl == "batchrelease" {
			objs = append(objs, isoWatchRelease(w))
		} else {
			objs = append(objs, isoWatchRollout(w))
		}
	}
	cli := NewLogClient(fakeClient(objs...))
	fc := &isoFakeController{ord: map[int]int{}, fails: map[int][]bool{}, entered: make(chan struct{}), release: make(chan struct{})}
	byR := map[int]isoWatchRo{}
	for _, w := range in.Rollouts {
		byR[w.R] = w
		fc.fails[w.R] = w.Fails
	}
	var reconcileOne func(key types.NamespacedName) error
	var kinds func() []string
	if in.Ctl == "batchrelease" {
		batchrelease.VerifResetWatched()
		oc, oh := batchrelease.VerifSetRuntimeController(fc, nil)
		defer func() {
			batchrelease.VerifSetRuntimeController(oc, oh)
			batchrelease.VerifResetWatched()
		}()
		rec := batchrelease.VerifNewReconciler(cli, theScheme)
		reconcileOne = func(key types.NamespacedName) error {
			_, err := rec.Reconcile(context.TODO(), ctrl.Request{NamespacedName: key})
			return err
		}
		kinds = batchrelease.VerifWatchedKinds
	} else {
		rolloutctl.VerifResetWatched()
		oc, oh := rolloutctl.VerifSetRuntimeController(fc, nil)
		defer func() {
			rolloutctl.VerifSetRuntimeController(oc, oh)
			rolloutctl.VerifResetWatched()
		}()
		rec := rolloutctl.VerifNewReconciler(cli, theScheme)
		reconcileOne = func(key types.NamespacedName) error {
			_, err := rec.Reconcile(context.TODO(), ctrl.Request{NamespacedName: key})
			return err
		}
		kinds = rolloutctl.VerifWatchedKinds
	}
	// run one reconcile (guarded); returns (error returned, panicked)
	run := func(r int) (bool, bool) {
		w := byR[r]
		panicked, failed := false, false
		func() {
			defer func() {
				if recover() != nil {
					panicked = true
				}
			}()
			failed = reconcileOne(types.NamespacedName{Namespace: w.Ns, Name: w.Name}) != nil
		}()
		return failed, panicked
	}
	attemptsOf := func(r, from int) []interface{} {
		fc.mu.Lock()
		defer fc.mu.Unlock()
		out := []interface{}{}
		for _, c := range fc.calls[from:] {
			if c.r == r {
				out = append(out, []interface{}{c.gvk, c.ok})
			}
		}
		return out
	}
	nCalls := func() int {
		fc.mu.Lock()
		defer fc.mu.Unlock()
		return len(fc.calls)
	}
	setCur := func(r int) {
		fc.mu.Lock()
		fc.cur = r
		fc.mu.Unlock()
	}
	steps := []interface{}{}
	atomic := func(r int) {
		from := nCalls()
		setCur(r)
		failed, panicked := run(r)
		steps = append(steps, J{"r": r, "attempts": attemptsOf(r, from), "registry": isoDynamic(kinds()), "err": failed, "panic": panicked, "during": 0})
	}
	for _, ev := range in.Events {
		if ev.T != "op" {
			continue
		}
		if ev.Call != "inflight" {
			if only == 0 || ev.R == only {
				atomic(ev.R)
			}
			continue
		}
		// rollout ev.R reconciles on its own goroutine; its Watch call (if it makes one) stays in flight
		// while the nested rollouts reconcile
		nested := []int{}
		for _, n := range ev.Nested {
			if only == 0 || n == only {
				nested = append(nested, n)
			}
		}
		if only != 0 && ev.R != only {
			for _, n := range nested {
				atomic(n)
			}
			continue
		}
		from := nCalls()
		fc.mu.Lock()
		fc.cur, fc.blockR = ev.R, ev.R
		fc.mu.Unlock()
		type res struct{ failed, panicked bool }
		done := make(chan res, 1)
		go func() {
			f, p := run(ev.R)
			done <- res{f, p}
		}()
		var out res
		during := 0
		select {
		case <-fc.entered:
			for _, n := range nested {
				atomic(n)
				during++
			}
			fc.release <- struct{}{}
			out = <-done
		case out = <-done:
			// the reconcile made no Watch call: nothing was in flight
			fc.mu.Lock()
			fc.blockR = 0
			fc.mu.Unlock()
			steps = append(steps, J{"r": ev.R, "attempts": attemptsOf(ev.R, from), "registry": isoDynamic(kinds()), "err": out.failed, "panic": out.panicked, "during": 0})
			for _, n := range nested {
				atomic(n)
			}
			continue
		}
		steps = append(steps, J{"r": ev.R, "attempts": attemptsOf(ev.R, from), "registry": isoDynamic(kinds()), "err": out.failed, "panic": out.panicked, "during": during})
	}
	return J{"steps": steps}
}

func isoWatchCase(c *Ctx, in isoWatchIn) {
	impl := guard(func() interface{} {
		solo := []interface{}{}
		for _, w := range in.Rollouts {
			s := isoRunWatch(&in, w.R)
			s["r"] = w.R
			solo = append(solo, s)
		}
		return J{"joint": isoRunWatch(&in, 0), "solo": solo}
	})
	c.Emit("watch", in, impl)
}

func genIsoWatch(c *Ctx) isoWatchIn {
	kinds := [][2]string{{"apps/v1", "Deployment"}, {"apps.kruise.io/v1alpha1", "CloneSet"},
		{"example.com/v1", "Foo"}, {"example.com/v1", "Foo"}, {"example.com/v1", "Bar"}, {"example.com/v2", "Foo"}, {"other.io/v1", "Foo"}}
	in := isoWatchIn{Ctl: []string{"rollout", "batchrelease"}[c.Rng.Intn(2)]}
	n := 2 + c.Rng.Intn(2)
	for r := 1; r <= n; r++ {
		k := kinds[c.Rng.Intn(len(kinds))]
		w := isoWatchRo{R: r, Ns: []string{"prod", "stage"}[c.Rng.Intn(2)], Name: fmt.Sprintf("demo-%d", r), APIVersion: k[0], Kind: k[1], Fails: []bool{}}
		for i, m := 0, c.Rng.Intn(3); i < m; i++ {
			w.Fails = append(w.Fails, c.Rng.Intn(2) == 0)
		}
		in.Rollouts = append(in.Rollouts, w)
	}
	total := 3 + c.Rng.Intn(7)
	for i := 0; i < total; i++ {
		ev := isoEv{T: "op", R: 1 + c.Rng.Intn(n), Call: "reconcile"}
		if c.Rng.Intn(4) == 0 {
			ev.Call = "inflight"
			for j, m := 0, 1+c.Rng.Intn(3); j < m; j++ {
				if o := 1 + c.Rng.Intn(n); o != ev.R { // the work queue never runs one key on two workers
					ev.Nested = append(ev.Nested, o)
				}
			}
		}
		in.Events = append(in.Events, ev)
	}
	return in
}

// ---- op race ----

// isoRaceCase records the result of tools/race_isolation.sh: the shared helpers and two reconcilers
// hammered from several goroutines under the Go race detector. Supporting evidence, not a proof.
// The runner is executed in the thorough tier and on replay; otherwise the last recorded result is reported.
func isoRaceCase(c *Ctx, force bool) {
	exe, err := os.Executable()
	if err != nil {
		return
	}
	root := filepath.Dir(filepath.Dir(exe))
	script := filepath.Join(root, "tools", "race_isolation.sh")
	resFile := filepath.Join(root, "build", "race_isolation.json")
	in := J{"ran": false}
	if (force || c.Thorough()) && os.Getenv("RV_NO_RACE") == "" {
		if _, err := os.Stat(script); err == nil {
			cmd := exec.Command(script)
			cmd.Env = append(os.Environ(), "RV_RACE_SEED="+fmt.Sprint(c.Seed))
			done := make(chan error, 1)
			if err := cmd.Start(); err == nil {
				go func() { done <- cmd.Wait() }()
				select {
				case <-done:
					in["ran"] = true
				case <-time.After(20 * time.Minute):
					_ = cmd.Process.Kill()
				}
			}
		}
	}
	var res interface{}
	if b, err := os.ReadFile(resFile); err == nil {
		_ = json.Unmarshal(b, &res)
	}
	in["result"] = res
	c.Emit("race", in, J{})
}
