package main

// Suite "isolation", second part: the BatchRelease call sites of the resource expectations, the
// dynamic watch registry, and the record of the -race runner.

import (
	"context"
	"encoding/json"
	"fmt"
	"os"
	"os/exec"
	"path/filepath"
	"strings"
	"time"

	"github.com/go-logr/logr"
	"github.com/openkruise/rollouts/api/v1beta1"
	"github.com/openkruise/rollouts/pkg/controller/batchrelease"
	brdeploy "github.com/openkruise/rollouts/pkg/controller/batchrelease/control/canarystyle/deployment"
	rolloutctl "github.com/openkruise/rollouts/pkg/controller/rollout"
	expectations "github.com/openkruise/rollouts/pkg/util/expectation"
	apps "k8s.io/api/apps/v1"
	corev1 "k8s.io/api/core/v1"
	metav1 "k8s.io/apimachinery/pkg/apis/meta/v1"
	"k8s.io/apimachinery/pkg/types"
	"k8s.io/apimachinery/pkg/util/intstr"
	ctrl "sigs.k8s.io/controller-runtime"
	"sigs.k8s.io/controller-runtime/pkg/client"
	"sigs.k8s.io/controller-runtime/pkg/handler"
	"sigs.k8s.io/controller-runtime/pkg/predicate"
	"sigs.k8s.io/controller-runtime/pkg/reconcile"
	"sigs.k8s.io/controller-runtime/pkg/source"
)

// ---- op brexp ----

type isoRelease struct {
	R           int    `json:"r"`
	Ns          string `json:"ns"`
	Name        string `json:"name"`
	UID         string `json:"uid"`
	Workload    string `json:"workload"`
	HasWorkload bool   `json:"hasWorkload"`
}

type isoBrIn struct {
	Timeout  int          `json:"timeout"` // expectations.ExpectationTimeout, seconds
	Releases []isoRelease `json:"releases"`
	Events   []isoEv      `json:"events"` // call: create|deliver|deliverForeign
}

// isoAPIClient behaves like an API server seen through an informer cache: Create assigns a UID
// (the fake client does not), and a created Deployment stays invisible to List until the
// informer delivers it.
type isoAPIClient struct {
	*LogClient
	hidden  map[string]bool
	pending map[string][]*apps.Deployment // by owner UID
	created map[string]int
}

func (a *isoAPIClient) Create(ctx context.Context, obj client.Object, opts ...client.CreateOption) error {
	d, isDep := obj.(*apps.Deployment)
	if isDep && d.UID == "" {
		owner := ""
		if o := metav1.GetControllerOf(d); o != nil {
			owner = string(o.UID)
		}
		a.created[owner]++
		d.UID = types.UID(fmt.Sprintf("canary-of-%s-%d", owner, a.created[owner]))
	}
	if err := a.LogClient.Create(ctx, obj, opts...); err != nil {
		if isDep {
			d.UID = ""
		}
		return err
	}
	if isDep {
		a.hidden[d.Namespace+"/"+d.Name] = true
		if o := metav1.GetControllerOf(d); o != nil {
			a.pending[string(o.UID)] = append(a.pending[string(o.UID)], d.DeepCopy())
		}
	}
	return nil
}

func (a *isoAPIClient) List(ctx context.Context, list client.ObjectList, opts ...client.ListOption) error {
	if err := a.LogClient.List(ctx, list, opts...); err != nil {
		return err
	}
	if dl, ok := list.(*apps.DeploymentList); ok {
		kept := dl.Items[:0]
		for _, d := range dl.Items {
			if !a.hidden[d.Namespace+"/"+d.Name] {
				kept = append(kept, d)
			}
		}
		dl.Items = kept
	}
	return nil
}

func isoRelObj(rel *isoRelease) *v1beta1.BatchRelease {
	br := &v1beta1.BatchRelease{}
	br.APIVersion, br.Kind = v1beta1.GroupVersion.String(), "BatchRelease"
	br.Namespace, br.Name, br.UID = rel.Ns, rel.Name, types.UID(rel.UID)
	br.Spec.WorkloadRef = v1beta1.ObjectRef{APIVersion: "apps/v1", Kind: "Deployment", Name: rel.Workload}
	br.Spec.ReleasePlan.Batches = []v1beta1.ReleaseBatch{{CanaryReplicas: intstr.FromInt(1)}}
	return br
}

func isoWorkload(ns, name string) *apps.Deployment {
	d := &apps.Deployment{ObjectMeta: metav1.ObjectMeta{Namespace: ns, Name: name, UID: types.UID("wl-uid-" + ns + "-" + name), Generation: 1}}
	d.Spec.Replicas = i32p(3)
	d.Spec.Selector = &metav1.LabelSelector{MatchLabels: map[string]string{"app": name}}
	d.Spec.Template.Labels = map[string]string{"app": name}
	d.Spec.Template.Spec.Containers = []corev1.Container{{Name: "main", Image: "img:v2"}}
	return d
}

func isoBrStep(api *isoAPIClient, rel *isoRelease, ev *isoEv) J {
	out := J{"r": rel.R, "call": ev.Call, "pre": isoExpDump()}
	switch ev.Call {
	case "create":
		br := isoRelObj(rel)
		ctl := brdeploy.NewController(api, types.NamespacedName{Namespace: rel.Ns, Name: rel.Workload})
		canary, berr := ctl.BuildCanaryController(br)
		known := berr == nil
		api.Log, api.sequence, api.FailAt = nil, 0, -1
		if ev.FailAt != nil {
			api.FailAt = *ev.FailAt
		}
		before := api.created[rel.UID]
		err := canary.Create(br)
		api.FailAt = -1
		res, uid := "", ""
		switch {
		case err == nil:
			res = "alreadyExists"
		case strings.Contains(err.Error(), "expectation is not satisfied"):
			res = "blocked"
		case strings.Contains(err.Error(), "created canary deployment"):
			res = "created"
		case !rel.HasWorkload:
			res = "stableErr"
		default:
			res = "createErr"
		}
		if api.created[rel.UID] > before && res == "created" {
			uid = fmt.Sprintf("canary-of-%s-%d", rel.UID, api.created[rel.UID])
		}
		out["known"], out["res"], out["uid"] = known, res, uid
	case "deliver":
		p := api.pending[rel.UID]
		if len(p) == 0 {
			out["obj"] = nil
			break
		}
		d := p[0]
		api.pending[rel.UID] = p[1:]
		delete(api.hidden, d.Namespace+"/"+d.Name)
		batchrelease.VerifExpectationObserved(d)
		o := metav1.GetControllerOf(d)
		out["obj"] = J{"ns": d.Namespace, "uid": string(d.UID), "ownerKind": o.Kind, "ownerName": o.Name}
	case "deliverForeign":
		// an object in the same namespace, with the UID of a pending canary if there is one, that is not
		// controlled by a BatchRelease
		uid := "foreign-uid"
		if p := api.pending[rel.UID]; len(p) > 0 {
			uid = string(p[0].UID)
		}
		d := isoWorkload(rel.Ns, "foreign")
		d.UID = types.UID(uid)
		kind := ""
		if ev.W != nil && *ev.W == 1 {
			tr := true
			d.OwnerReferences = []metav1.OwnerReference{{APIVersion: "rollouts.kruise.io/v1beta1", Kind: "Rollout", Name: rel.Name, UID: "x", Controller: &tr}}
			kind = "Rollout"
		}
		batchrelease.VerifExpectationObserved(d)
		if kind == "" {
			out["obj"] = J{"ns": d.Namespace, "uid": uid, "ownerKind": nil, "ownerName": nil}
		} else {
			out["obj"] = J{"ns": d.Namespace, "uid": uid, "ownerKind": kind, "ownerName": rel.Name}
		}
	default:
		panic("bad brexp call " + ev.Call)
	}
	out["store"] = isoExpDump()
	return out
}

func isoRunBr(in *isoBrIn, only int) J {
	objs := []client.Object{}
	seen := map[string]bool{}
	for _, rel := range in.Releases {
		if k := rel.Ns + "/" + rel.Workload; rel.HasWorkload && !seen[k] {
			seen[k] = true
			objs = append(objs, isoWorkload(rel.Ns, rel.Workload))
		}
	}
	api := &isoAPIClient{LogClient: NewLogClient(fakeClient(objs...)), hidden: map[string]bool{}, pending: map[string][]*apps.Deployment{}, created: map[string]int{}}
	expectations.VerifReset()
	oldT := expectations.ExpectationTimeout
	expectations.ExpectationTimeout = isoSec(in.Timeout)
	defer func() { expectations.ExpectationTimeout = oldT }()
	byR := map[int]*isoRelease{}
	for i := range in.Releases {
		byR[in.Releases[i].R] = &in.Releases[i]
	}
	steps := []interface{}{}
	for i := range in.Events {
		ev := &in.Events[i]
		switch ev.T {
		case "tick":
			expectations.VerifShift(isoSec(ev.D))
		case "op":
			if only != 0 && ev.R != only {
				continue
			}
			steps = append(steps, isoBrStep(api, byR[ev.R], ev))
		}
	}
	out := J{"steps": steps, "final": isoExpDump()}
	expectations.VerifReset()
	return out
}

func isoBrCase(c *Ctx, in isoBrIn) {
	impl := guard(func() interface{} {
		solo := []interface{}{}
		for i := range in.Releases {
			s := isoRunBr(&in, in.Releases[i].R)
			s["r"] = in.Releases[i].R
			solo = append(solo, s)
		}
		return J{"joint": isoRunBr(&in, 0), "solo": solo}
	})
	c.Emit("brexp", in, impl)
}

func genIsoBr(c *Ctx) isoBrIn {
	in := isoBrIn{Timeout: 300}
	n := 2 + c.Rng.Intn(2)
	nss := []string{"prod", "stage"}
	names := []string{"demo", "demo-2", "demo-20", "api"}
	same := c.Rng.Intn(12) == 0 // two BatchReleases with the same namespace/name cannot exist; used to exercise the shared-key path
	used := map[string]bool{}
	for r := 1; r <= n; r++ {
		rel := isoRelease{R: r, UID: fmt.Sprintf("br-uid-%d", r), HasWorkload: c.Rng.Intn(15) != 0}
		for {
			rel.Ns, rel.Name = nss[c.Rng.Intn(2)], names[c.Rng.Intn(len(names))]
			if !used[rel.Ns+"/"+rel.Name] {
				break
			}
		}
		if same && r == 2 {
			rel.Ns, rel.Name = in.Releases[0].Ns, in.Releases[0].Name
		}
		used[rel.Ns+"/"+rel.Name] = true
		rel.Workload = "wl-" + rel.Name
		if c.Rng.Intn(4) == 0 {
			rel.Workload = "wl" // the same workload name in two namespaces
		}
		in.Releases = append(in.Releases, rel)
	}
	// one Deployment per (namespace, workload name): it exists for all releases that name it, or for none
	for i := range in.Releases {
		for j := range in.Releases {
			if in.Releases[i].Ns == in.Releases[j].Ns && in.Releases[i].Workload == in.Releases[j].Workload && in.Releases[j].HasWorkload {
				in.Releases[i].HasWorkload = true
			}
		}
	}
	total := 5 + c.Rng.Intn(12)
	for i := 0; i < total; i++ {
		switch x := c.Rng.Intn(12); {
		case x < 2:
			in.Events = append(in.Events, isoEv{T: "tick", D: []int{100, 200, 300, 400}[c.Rng.Intn(4)]})
		case x < 8:
			ev := isoEv{T: "op", R: 1 + c.Rng.Intn(n), Call: "create"}
			if c.Rng.Intn(12) == 0 {
				f := 0
				ev.FailAt = &f
			}
			in.Events = append(in.Events, ev)
		case x < 11:
			in.Events = append(in.Events, isoEv{T: "op", R: 1 + c.Rng.Intn(n), Call: "deliver"})
		default:
			w := c.Rng.Intn(2)
			in.Events = append(in.Events, isoEv{T: "op", R: 1 + c.Rng.Intn(n), Call: "deliverForeign", W: &w})
		}
	}
	return in
}

// ---- op watch ----

type isoWatchRo struct {
	R          int    `json:"r"`
	Ns         string `json:"ns"`
	Name       string `json:"name"`
	APIVersion string `json:"apiVersion"`
	Kind       string `json:"kind"`
}

type isoWatchIn struct {
	Rollouts []isoWatchRo `json:"rollouts"`
	Events   []isoEv      `json:"events"`
}

// isoFakeController records the watches the reconciler adds dynamically.
type isoFakeController struct{ watched []string }

func (f *isoFakeController) Reconcile(context.Context, reconcile.Request) (reconcile.Result, error) {
	return reconcile.Result{}, nil
}
func (f *isoFakeController) Watch(src source.Source, _ handler.EventHandler, _ ...predicate.Predicate) error {
	if k, ok := src.(*source.Kind); ok {
		f.watched = append(f.watched, k.Type.GetObjectKind().GroupVersionKind().String())
	}
	return nil
}
func (f *isoFakeController) Start(context.Context) error { return nil }
func (f *isoFakeController) GetLogger() logr.Logger      { return logr.Discard() }

func isoWatchRollout(w isoWatchRo) *v1beta1.Rollout {
	ro := &v1beta1.Rollout{}
	ro.Namespace, ro.Name, ro.UID, ro.Generation = w.Ns, w.Name, types.UID(fmt.Sprintf("ro-uid-%d", w.R)), 1
	ro.Spec.WorkloadRef = v1beta1.ObjectRef{APIVersion: w.APIVersion, Kind: w.Kind, Name: "wl"}
	one := intstr.FromInt(1)
	ro.Spec.Strategy.Canary = &v1beta1.CanaryStrategy{Steps: []v1beta1.CanaryStep{{Replicas: &one}}}
	return ro
}

func isoDynamic(all []string) []string {
	static := map[string]bool{}
	for _, k := range []string{"apps/v1, Kind=Deployment", "apps/v1, Kind=StatefulSet", "apps.kruise.io/v1alpha1, Kind=CloneSet",
		"apps.kruise.io/v1beta1, Kind=StatefulSet", "apps.kruise.io/v1alpha1, Kind=StatefulSet", "apps.kruise.io/v1alpha1, Kind=DaemonSet"} {
		static[k] = true
	}
	out := []string{}
	nStatic := 0
	for _, k := range all {
		if static[k] {
			nStatic++
		} else {
			out = append(out, k)
		}
	}
	if nStatic != len(static) {
		out = append(out, fmt.Sprintf("!static=%d", nStatic))
	}
	return out
}

func isoRunWatch(in *isoWatchIn, only int) J {
	objs := []client.Object{}
	for _, w := range in.Rollouts {
		objs = append(objs, isoWatchRollout(w))
	}
	cli := NewLogClient(fakeClient(objs...))
	rolloutctl.VerifResetWatched()
	fc := &isoFakeController{}
	oc, oh := rolloutctl.VerifSetRuntimeController(fc, nil)
	defer func() {
		rolloutctl.VerifSetRuntimeController(oc, oh)
		rolloutctl.VerifResetWatched()
	}()
	rec := rolloutctl.VerifNewReconciler(cli, theScheme)
	byR := map[int]isoWatchRo{}
	for _, w := range in.Rollouts {
		byR[w.R] = w
	}
	steps := []interface{}{}
	for _, ev := range in.Events {
		if ev.T != "op" || (only != 0 && ev.R != only) {
			continue
		}
		w := byR[ev.R]
		before := len(fc.watched)
		panicked := false
		func() {
			defer func() {
				if recover() != nil {
					panicked = true
				}
			}()
			_, _ = rec.Reconcile(context.TODO(), ctrl.Request{NamespacedName: types.NamespacedName{Namespace: w.Ns, Name: w.Name}})
		}()
		added := append([]string{}, fc.watched[before:]...)
		steps = append(steps, J{"r": ev.R, "added": added, "registry": isoDynamic(rolloutctl.VerifWatchedKinds()), "panic": panicked})
	}
	return J{"steps": steps}
}

func isoWatchCase(c *Ctx, in isoWatchIn) {
	impl := guard(func() interface{} {
		solo := []interface{}{}
		for _, w := range in.Rollouts {
			s := isoRunWatch(&in, w.R)
			s["r"] = w.R
			solo = append(solo, s)
		}
		return J{"joint": isoRunWatch(&in, 0), "solo": solo}
	})
	c.Emit("watch", in, impl)
}

func genIsoWatch(c *Ctx) isoWatchIn {
	kinds := [][2]string{{"apps/v1", "Deployment"}, {"apps.kruise.io/v1alpha1", "CloneSet"}, {"apps/v1", "StatefulSet"},
		{"example.com/v1", "Foo"}, {"example.com/v1", "Bar"}, {"example.com/v2", "Foo"}, {"other.io/v1", "Foo"}}
	in := isoWatchIn{}
	n := 2 + c.Rng.Intn(2)
	for r := 1; r <= n; r++ {
		k := kinds[c.Rng.Intn(len(kinds))]
		in.Rollouts = append(in.Rollouts, isoWatchRo{R: r, Ns: []string{"prod", "stage"}[c.Rng.Intn(2)], Name: fmt.Sprintf("demo-%d", r), APIVersion: k[0], Kind: k[1]})
	}
	total := 3 + c.Rng.Intn(6)
	for i := 0; i < total; i++ {
		in.Events = append(in.Events, isoEv{T: "op", R: 1 + c.Rng.Intn(n), Call: "reconcile"})
	}
	return in
}

// ---- op race ----

// isoRaceCase records the result of tools/race_isolation.sh: the shared helpers and two reconcilers
// hammered from several goroutines under the Go race detector. Supporting evidence, not a proof.
// The runner is executed in the thorough tier and on replay; otherwise the last recorded result is reported.
func isoRaceCase(c *Ctx, force bool) {
	exe, err := os.Executable()
	if err != nil {
		return
	}
	root := filepath.Dir(filepath.Dir(exe))
	script := filepath.Join(root, "tools", "race_isolation.sh")
	resFile := filepath.Join(root, "build", "race_isolation.json")
	in := J{"ran": false}
	if (force || c.Thorough()) && os.Getenv("RV_NO_RACE") == "" {
		if _, err := os.Stat(script); err == nil {
			cmd := exec.Command(script)
			cmd.Env = append(os.Environ(), "RV_RACE_SEED="+fmt.Sprint(c.Seed))
			done := make(chan error, 1)
			if err := cmd.Start(); err == nil {
				go func() { done <- cmd.Wait() }()
				select {
				case <-done:
					in["ran"] = true
				case <-time.After(20 * time.Minute):
					_ = cmd.Process.Kill()
				}
			}
		}
	}
	var res interface{}
	if b, err := os.ReadFile(resFile); err == nil {
		_ = json.Unmarshal(b, &res)
	}
	in["result"] = res
	c.Emit("race", in, J{})
}
