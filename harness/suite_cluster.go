package main

// cluster — closed-loop walks: the real Rollout and BatchRelease reconcilers drive a simulated
// cluster (fake API server + a simulated CloneSet controller + user actions + crashes + API
// faults).  Every reconcile is emitted in the one-step format of the `rolloutsm` / `executor`
// suites (so each step of each trace is validated against the Lean models), every state is
// emitted as a `snapshot` (state invariants), and every run ends with a `final` line comparing
// the faulty run with the undisturbed baseline.

import (
	"context"
	"encoding/json"
	"fmt"
	"strconv"
	"strings"
	"time"

	kruisev1alpha1 "github.com/openkruise/kruise-api/apps/v1alpha1"
	"github.com/openkruise/rollouts/api/v1beta1"
	"github.com/openkruise/rollouts/pkg/controller/batchrelease"
	rolloutctl "github.com/openkruise/rollouts/pkg/controller/rollout"
	"github.com/openkruise/rollouts/pkg/util"
	"github.com/openkruise/rollouts/pkg/util/grace"
	corev1 "k8s.io/api/core/v1"
	apierrors "k8s.io/apimachinery/pkg/api/errors"
	metav1 "k8s.io/apimachinery/pkg/apis/meta/v1"
	"k8s.io/apimachinery/pkg/types"
	"k8s.io/apimachinery/pkg/util/intstr"
	ctrl "sigs.k8s.io/controller-runtime"
	"sigs.k8s.io/controller-runtime/pkg/client"
)

func init() { register("cluster", runCluster, nil) }

type clScenario struct {
	Name       string   `json:"name"`
	Replicas   int      `json:"replicas"`
	Steps      []rsStep `json:"steps"`
	HasTraffic bool     `json:"hasTraffic"`
	// DisableGenerateCanaryService (only set by the traffic scenarios of suite closedloop)
	DisableGen bool `json:"disableGen,omitempty"`
}

type clSim struct {
	c        *Ctx
	sc       clScenario
	cli      *LogClient
	ro       *rolloutctl.RolloutReconciler
	br       *batchrelease.BatchReleaseReconciler
	hash     string
	recs     int // reconciles so far
	writes   int // successful API writes so far
	pending  []WriteRec
	trace    []string
	panicked bool
	earlyExit   bool // the rollout was deleted after the webhook held the workload back but before a BatchRelease existed (known finding exitBeforeBatchRelease)
	lateRelease bool // a new revision was admitted while the clean-up was running (known finding releaseWhileFinalising)
	eventAt  J // rollout phase / reason / cursor at the moment the user event was injected
}

var clRoKey = types.NamespacedName{Namespace: trNS, Name: "r"}
var clWlKey = types.NamespacedName{Namespace: trNS, Name: "wl"}

func clNewSim(c *Ctx, sc clScenario) *clSim {
	ro, hash := rsBuildRollout(rsRollout{Style: "canary", Steps: sc.Steps, HasTraffic: sc.HasTraffic, DisableGen: sc.DisableGen, Grace: trLongGrace, Reason: "none", Term: "none", RealPartition: true})
	ro.Status = v1beta1.RolloutStatus{}
	cs := rsBuildCloneSet(&rsWL{Consistent: true, CanaryRev: "v1", StableRev: "v1", Replicas: sc.Replicas, Generation: 1})
	cs.Status.UpdatedReadyReplicas = int32(sc.Replicas)
	cs.Status.ReadyReplicas = int32(sc.Replicas)
	cli := trBuildWith(trNet{StableExists: true, StableIngress: true}, ro, cs)
	s := &clSim{c: c, sc: sc, cli: cli, hash: hash}
	s.restart()
	grace.ResetExpectations()
	return s
}

// restart models a controller crash/restart: new reconciler objects, all in-memory state lost.
func (s *clSim) restart() {
	s.ro = rolloutctl.VerifNewReconciler(s.cli, theScheme)
	s.br = batchrelease.VerifNewReconciler(s.cli, theScheme)
	grace.ResetExpectations()
}

// ---- abstraction of the live cluster ----

func clSpecOf(ro *v1beta1.Rollout) rsRollout {
	r := rsRollout{Style: "canary", Paused: ro.Spec.Strategy.Paused, Disabled: ro.Spec.Disabled, Reason: "none", Term: "none", RealPartition: true}
	var steps []v1beta1.CanaryStep
	if ro.Spec.Strategy.Canary != nil {
		steps = ro.Spec.Strategy.Canary.Steps
		r.DisableGen = ro.Spec.Strategy.Canary.DisableGenerateCanaryService
		if len(ro.Spec.Strategy.Canary.TrafficRoutings) > 0 {
			r.HasTraffic = true
			r.Grace = int(ro.Spec.Strategy.Canary.TrafficRoutings[0].GracePeriodSeconds)
		}
	}
	for _, st := range steps {
		x := rsStep{Replicas: ios(*st.Replicas), Pause: "manual"}
		if st.Traffic != nil {
			w, _ := strconv.Atoi(strings.TrimSuffix(*st.Traffic, "%"))
			x.Weight = &w
		}
		if st.Pause.Duration != nil {
			if *st.Pause.Duration >= rsPauseLong {
				x.Pause = "long"
			} else {
				x.Pause = "short"
			}
		}
		r.Steps = append(r.Steps, x)
	}
	return r
}

func (s *clSim) world() (rsWorld, bool) {
	ctx := context.TODO()
	w := rsWorld{}
	ro := &v1beta1.Rollout{}
	found := s.cli.Get(ctx, clRoKey, ro) == nil
	if found {
		spec := clSpecOf(ro)
		if !spec.HasTraffic {
			spec.Grace = trLongGrace
		}
		w.Ro = rsAbstractRollout(ro, spec, s.hash)
		// the in-memory next-index normalisation is an output canonicalisation; keep the raw value for inputs
		if cs := ro.Status.GetSubStatus(); cs != nil && w.Ro.Sub != nil {
			w.Ro.Sub.NextIdx = int(cs.NextStepIndex)
		}
		if c := util.GetRolloutCondition(ro.Status, v1beta1.RolloutConditionProgressing); c != nil {
			w.Ro.CondAge = rsAgeOf(&c.LastUpdateTime)
		} else {
			w.Ro.CondAge = "none"
		}
	}
	cs := &kruisev1alpha1.CloneSet{}
	if err := s.cli.Get(ctx, clWlKey, cs); err == nil {
		wl := &rsWL{Consistent: cs.Generation == cs.Status.ObservedGeneration, Replicas: int(*cs.Spec.Replicas), Generation: int(cs.Generation)}
		_, wl.InProgressAnno = cs.Annotations[util.InRolloutProgressingAnnotation]
		wl.CanaryRev = cs.Status.UpdateRevision[strings.LastIndex(cs.Status.UpdateRevision, "-")+1:]
		wl.PodTemplateHash = wl.CanaryRev
		wl.StableRev = cs.Status.CurrentRevision[strings.LastIndex(cs.Status.CurrentRevision, "-")+1:]
		wl.InRollback = wl.InProgressAnno && cs.Status.CurrentRevision == cs.Status.UpdateRevision && cs.Status.UpdatedReplicas != cs.Status.Replicas
		w.WL = wl
	}
	br := &v1beta1.BatchRelease{}
	if err := s.cli.Get(ctx, clRoKey, br); err == nil {
		w.BR = cllSafeAbstractBR(br, ro)
	}
	w.Net = trAbstract(s.cli)
	w.Mem = trGetMem(trNS + "/" + trSvc + "-canary")
	return w, found
}

func (s *clSim) exWorld() (exIn, bool) {
	ctx := context.TODO()
	br := &v1beta1.BatchRelease{}
	if err := s.cli.Get(ctx, clRoKey, br); err != nil {
		return exIn{}, false
	}
	exOwnerUID = string(br.UID)
	b := exBR{Deleting: !br.DeletionTimestamp.IsZero(), RollbackAnno: br.Annotations["rollouts.kruise.io/rollback-in-batch"] != "", Status: exAbstractStatus(br)}
	for _, x := range br.Spec.ReleasePlan.Batches {
		b.Batches = append(b.Batches, ios(x.CanaryReplicas))
	}
	if br.Spec.ReleasePlan.BatchPartition != nil {
		p := int(*br.Spec.ReleasePlan.BatchPartition)
		b.Partition = &p
	}
	b.FailureThreshold = iosPtr(br.Spec.ReleasePlan.FailureThreshold)
	for _, f := range br.Finalizers {
		if f == batchrelease.ReleaseFinalizer {
			b.HasFinalizer = true
		}
	}
	in := exIn{BR: b}
	cs := &kruisev1alpha1.CloneSet{}
	if err := s.cli.Get(ctx, clWlKey, cs); err == nil {
		j := exAbstractWL(cs)
		raw, _ := json.Marshal(j)
		w := &exWL{}
		_ = json.Unmarshal(raw, w)
		in.WL = w
	}
	return in, true
}

// ---- reconciles ----

func (s *clSim) recRollout(failAt int) {
	before, ok := s.world()
	s.cli.Log, s.cli.FailAt, s.cli.sequence = nil, failAt, 0
	old := rolloutctl.VerifSetGracePeriodSeconds(trLongGrace)
	impl := guard(func() interface{} {
		res, err := s.ro.Reconcile(context.TODO(), ctrl.Request{NamespacedName: clRoKey})
		return J{"requeue": res.RequeueAfter > 0 || res.Requeue, "err": err != nil}
	})
	rolloutctl.VerifSetGracePeriodSeconds(old)
	s.cli.FailAt = -1
	s.recs++
	s.writes += s.cli.Writes()
	s.pending = append(s.pending, s.cli.Log...)
	out, isJ := impl.(J)
	if !isJ || out["panic"] != nil {
		s.panicked = true
		if ok {
			s.c.EmitAs("rolloutsm", "reconcile", before, impl)
		}
		return
	}
	after, ok2 := s.world()
	out["roGone"] = !ok2
	// the one-step suite reports the workload as it was given, with only the in-progress annotation read back (a derived
	// flag such as "in rollback" is an input of the reconcile, not something it writes)
	if before.WL != nil && after.WL != nil {
		after.WL.InRollback = before.WL.InRollback
	}
	wj := J{"wl": after.WL, "br": after.BR, "net": after.Net, "mem": after.Mem}
	if ok2 {
		// output canonicalisation of an illegal next-step index (see suite_rolloutsm)
		if sub := after.Ro.Sub; sub != nil {
			if n := len(after.Ro.Steps); sub.NextIdx <= 0 || sub.NextIdx > n {
				if sub.CurIdx >= n {
					sub.NextIdx = -1
				} else {
					sub.NextIdx = sub.CurIdx + 1
				}
			}
		}
		after.Ro.CondAge = "ignored"
		wj["ro"] = after.Ro
	} else {
		wj["ro"] = nil
	}
	out["w"] = wj
	// only fault-free reconciles are compared with the one-step model (the model has no fault parameter)
	if ok && failAt < 0 {
		s.c.EmitAs("rolloutsm", "reconcile", before, out)
	}
	s.trace = append(s.trace, "ro")
}

func (s *clSim) recBR(failAt int) {
	before, ok := s.exWorld()
	if !ok {
		return
	}
	s.cli.Log, s.cli.FailAt, s.cli.sequence = nil, failAt, 0
	impl := guard(func() interface{} {
		res, err := s.br.Reconcile(context.TODO(), ctrl.Request{NamespacedName: clRoKey})
		return J{"requeue": res.RequeueAfter > 0 || res.Requeue, "err": err != nil}
	})
	s.cli.FailAt = -1
	s.recs++
	s.writes += s.cli.Writes()
	s.pending = append(s.pending, s.cli.Log...)
	out, isJ := impl.(J)
	if !isJ || out["panic"] != nil {
		s.panicked = true
		s.c.EmitAs("executor", "reconcile", before, impl)
		return
	}
	after, ok2 := s.exWorld()
	if ok2 {
		out["br"] = J{"hasFinalizer": after.BR.HasFinalizer, "status": after.BR.Status}
	} else {
		out["br"] = nil
	}
	_ = after
	cs := &kruisev1alpha1.CloneSet{}
	if err := s.cli.Client.Get(context.TODO(), clWlKey, cs); err == nil {
		out["wl"] = exAbstractWL(cs)
	} else {
		out["wl"] = nil
	}
	if failAt < 0 {
		s.c.EmitAs("executor", "reconcile", before, out)
	}
	s.trace = append(s.trace, "br")
}

// apiServer applies what a real API server does after the writes of the last reconcile: bump
// metadata.generation of objects whose spec was written, collect objects whose owner is gone.
func (s *clSim) apiServer() {
	ctx := context.TODO()
	for _, r := range s.pending {
		if r.Err {
			continue
		}
		switch {
		case r.Kind == "BatchRelease" && (r.Verb == "update" || r.Verb == "patch"):
			br := &v1beta1.BatchRelease{}
			if err := s.cli.Client.Get(ctx, clRoKey, br); err == nil && br.DeletionTimestamp.IsZero() {
				br.Generation++
				_ = s.cli.Client.Update(ctx, br)
			}
		case r.Kind == "CloneSet" && r.Verb == "patch":
			cs := &kruisev1alpha1.CloneSet{}
			if err := s.cli.Client.Get(ctx, clWlKey, cs); err == nil {
				cs.Generation++
				_ = s.cli.Client.Update(ctx, cs)
			}
		}
	}
	s.pending = nil
}

// env is one round of the simulated CloneSet controller: observe the generation, move the updated
// pods toward what the partition allows (all healthy), promote the revision when everything is updated.
func (s *clSim) env() {
	ctx := context.TODO()
	cs := &kruisev1alpha1.CloneSet{}
	if err := s.cli.Client.Get(ctx, clWlKey, cs); err != nil {
		return
	}
	R := int(*cs.Spec.Replicas)
	cs.Status.ObservedGeneration = cs.Generation
	cs.Status.Replicas, cs.Status.ReadyReplicas = int32(R), int32(R)
	if cs.Status.UpdateRevision != cs.Status.CurrentRevision {
		allowed := R
		if cs.Spec.UpdateStrategy.Paused {
			allowed = int(cs.Status.UpdatedReplicas)
		} else if p := cs.Spec.UpdateStrategy.Partition; p != nil {
			kept, _ := intstr.GetScaledValueFromIntOrPercent(p, R, true)
			if kept > R {
				kept = R
			}
			allowed = R - kept
		}
		if int(cs.Status.UpdatedReplicas) < allowed {
			cs.Status.UpdatedReplicas = int32(allowed)
		}
		cs.Status.UpdatedReadyReplicas = cs.Status.UpdatedReplicas
		if int(cs.Status.UpdatedReplicas) >= R {
			cs.Status.CurrentRevision = cs.Status.UpdateRevision
		}
	} else {
		cs.Status.UpdatedReplicas, cs.Status.UpdatedReadyReplicas = int32(R), int32(R)
	}
	_ = s.cli.Client.Status().Update(ctx, cs)
	_ = s.cli.Client.Update(ctx, cs)
	s.trace = append(s.trace, "env")
}

// release is the user pushing a new revision through the workload webhook: the admitted object is
// held back (partition 100%, in-progress annotation) and the workload controller sees a new update revision.
func (s *clSim) release(rev string) {
	ctx := context.TODO()
	cs := &kruisev1alpha1.CloneSet{}
	if err := s.cli.Client.Get(ctx, clWlKey, cs); err != nil {
		return
	}
	cs.Generation++
	cs.Annotations[util.InRolloutProgressingAnnotation] = `{"rolloutName":"r"}`
	p := intstr.FromString("100%")
	cs.Spec.UpdateStrategy.Partition = &p
	cs.Spec.UpdateStrategy.Paused = false
	cs.Status.UpdateRevision = "wl-" + rev
	cs.Status.UpdatedReplicas, cs.Status.UpdatedReadyReplicas = 0, 0
	if cs.Status.UpdateRevision == cs.Status.CurrentRevision {
		// rollback to the stable revision: pods of the abandoned revision are no longer "updated"
		cs.Status.UpdatedReplicas = int32(int(*cs.Spec.Replicas) - 1)
		if cs.Status.UpdatedReplicas < 0 {
			cs.Status.UpdatedReplicas = 0
		}
		cs.Status.UpdatedReadyReplicas = cs.Status.UpdatedReplicas
	}
	_ = s.cli.Client.Update(ctx, cs)
	_ = s.cli.Client.Status().Update(ctx, cs)
	s.trace = append(s.trace, "release:"+rev)
}

// approve: the user confirms a manual pause (kubectl-kruise rollout approve)
func (s *clSim) approve() bool {
	ctx := context.TODO()
	ro := &v1beta1.Rollout{}
	if err := s.cli.Client.Get(ctx, clRoKey, ro); err != nil {
		return false
	}
	sub := ro.Status.GetSubStatus()
	if sub == nil || sub.CurrentStepState != v1beta1.CanaryStepStatePaused {
		return false
	}
	sub.CurrentStepState = v1beta1.CanaryStepStateReady
	ro.Status.CurrentStepState = v1beta1.CanaryStepStateReady
	_ = s.cli.Client.Status().Update(ctx, ro)
	s.trace = append(s.trace, "approve")
	return true
}

// tick lets the grace periods elapse: status timestamps and recorded expectations become old.
func (s *clSim) tick() {
	ctx := context.TODO()
	old := metav1.Time{Time: time.Now().Add(-3 * trLongGrace * time.Second)}
	ro := &v1beta1.Rollout{}
	if err := s.cli.Client.Get(ctx, clRoKey, ro); err == nil {
		if sub := ro.Status.GetSubStatus(); sub != nil && sub.LastUpdateTime != nil {
			sub.LastUpdateTime = &old
		}
		for i := range ro.Status.Conditions {
			ro.Status.Conditions[i].LastUpdateTime = old
		}
		_ = s.cli.Client.Status().Update(ctx, ro)
	}
	canaryKey := trNS + "/" + trSvc + "-canary"
	m := trGetMem(canaryKey)
	age := func(x string) string {
		if x == "fresh" {
			return "elapsed"
		}
		return x
	}
	trSetMem(trMem{age(m.PatchService), age(m.RestoreService), age(m.RestoreGateway), age(m.RemoveCanaryService), age(m.UpdateRoute)}, canaryKey)
	s.trace = append(s.trace, "tick")
}

func (s *clSim) deleteRollout() {
	ro := &v1beta1.Rollout{}
	if err := s.cli.Client.Get(context.TODO(), clRoKey, ro); err == nil {
		_ = s.cli.Client.Delete(context.TODO(), ro)
		s.trace = append(s.trace, "delete")
	}
}

// gc: the garbage collector removes a BatchRelease in deletion once its finalizer is gone (the fake
// client does that itself) and cascades owner deletion; nothing to do for the objects in this scenario.

func (s *clSim) snapshot(label string) {
	w, ok := s.world()
	cs := &kruisev1alpha1.CloneSet{}
	var wlx J
	if err := s.cli.Client.Get(context.TODO(), clWlKey, cs); err == nil {
		wlx = J{"partition": iosOutPtr(cs.Spec.UpdateStrategy.Partition), "paused": cs.Spec.UpdateStrategy.Paused,
			"controlled": cs.Annotations[util.BatchReleaseControlAnnotation] != "", "updated": int(cs.Status.UpdatedReplicas)}
	}
	s.c.EmitAs("cluster", "snapshot", J{"label": label, "exists": ok, "w": w, "wlx": wlx, "scenario": s.sc.Name, "lateRelease": s.lateRelease, "earlyExit": s.earlyExit}, nil)
}

func (s *clSim) terminal() bool {
	ro := &v1beta1.Rollout{}
	if err := s.cli.Client.Get(context.TODO(), clRoKey, ro); err != nil {
		return apierrors.IsNotFound(err)
	}
	if ro.Status.Phase != v1beta1.RolloutPhaseHealthy && ro.Status.Phase != v1beta1.RolloutPhaseDisabled {
		return false
	}
	cs := &kruisev1alpha1.CloneSet{}
	if err := s.cli.Client.Get(context.TODO(), clWlKey, cs); err != nil {
		return true
	}
	_, inProg := cs.Annotations[util.InRolloutProgressingAnnotation]
	return !inProg && cs.Status.UpdatedReplicas == *cs.Spec.Replicas && cs.Generation == cs.Status.ObservedGeneration
}

// round is one fair round of the healthy closed loop.
func (s *clSim) round(snap bool) {
	s.recRollout(-1)
	s.apiServer()
	if snap {
		s.snapshot("after-ro")
	}
	s.recBR(-1)
	s.apiServer()
	if snap {
		s.snapshot("after-br")
	}
	s.env()
	s.approve()
	s.tick()
}

func (s *clSim) finalState() J {
	w, ok := s.world()
	cs := &kruisev1alpha1.CloneSet{}
	var wlx J
	if err := s.cli.Client.Get(context.TODO(), clWlKey, cs); err == nil {
		wlx = J{"partition": iosOutPtr(cs.Spec.UpdateStrategy.Partition), "paused": cs.Spec.UpdateStrategy.Paused,
			"controlled": cs.Annotations[util.BatchReleaseControlAnnotation] != "", "updated": int(cs.Status.UpdatedReplicas),
			"revision": cs.Status.UpdateRevision}
	}
	if ok {
		w.Ro.CondAge = "ignored"
		if w.Ro.Sub != nil {
			w.Ro.Sub.LastUpdate = "ignored"
		}
	}
	w.Mem = trMem{}
	return J{"exists": ok, "w": w, "wlx": wlx}
}

type clPlan struct {
	kind  string // "none" | "crash" | "fault"
	at    int    // reconcile index at which it strikes
	k     int    // fault: fail from the k-th API call of that reconcile
	event string // user event injected at reconcile index evAt: "", "rollback", "delete", "release3"
	evAt  int
	// evWhen "finalising": the event strikes at the first round in which the clean-up is running and has
	// already removed the in-progress annotation (instead of at reconcile index evAt)
	evWhen string
}

// where reports the rollout's phase, Progressing reason, clean-up cursor and the workload's in-progress mark
func (s *clSim) where() J {
	ro := &v1beta1.Rollout{}
	if err := s.cli.Client.Get(context.TODO(), clRoKey, ro); err != nil {
		return J{"phase": "gone", "reason": "", "finStep": "", "inProgressAnno": false}
	}
	reason := ""
	if c := util.GetRolloutCondition(ro.Status, v1beta1.RolloutConditionProgressing); c != nil {
		reason = c.Reason
	}
	fin := ""
	if sub := ro.Status.GetSubStatus(); sub != nil {
		fin = string(sub.FinalisingStep)
	}
	cs := &kruisev1alpha1.CloneSet{}
	anno := false
	if err := s.cli.Client.Get(context.TODO(), clWlKey, cs); err == nil {
		_, anno = cs.Annotations[util.InRolloutProgressingAnnotation]
	}
	return J{"phase": string(ro.Status.Phase), "reason": reason, "finStep": fin, "inProgressAnno": anno}
}

// heldWithoutBR: the webhook has admitted a release (in-progress annotation, partition 100%) and no BatchRelease exists yet
func (s *clSim) heldWithoutBR() bool {
	w := s.where()
	if w["phase"] != "Progressing" || w["inProgressAnno"] != true || w["finStep"] != "" {
		return false
	}
	br := &v1beta1.BatchRelease{}
	return apierrors.IsNotFound(s.cli.Client.Get(context.TODO(), clRoKey, br))
}

// cleaningUp: doFinalising is running (cursor set, not END) and has already removed the in-progress annotation
func (s *clSim) cleaningUp(late bool) bool {
	w := s.where()
	if !(w["phase"] == "Progressing" && w["finStep"] != "" && w["finStep"] != "END" && w["inProgressAnno"] == false) {
		return false
	}
	if late {
		// the BatchRelease has already been resumed and deleted
		br := &v1beta1.BatchRelease{}
		return apierrors.IsNotFound(s.cli.Client.Get(context.TODO(), clRoKey, br))
	}
	return true
}

// run drives one scenario to its terminal state under a disturbance plan; returns the final state.
var clLastEarlyExit bool

func clRunX(c *Ctx, sc clScenario, plan clPlan, snap bool, budget int) (J, int, bool, []string, J, bool) {
	a, b, d, e, f := clRun(c, sc, plan, snap, budget)
	return a, b, d, e, f, clLastEarlyExit
}

func clRun(c *Ctx, sc clScenario, plan clPlan, snap bool, budget int) (J, int, bool, []string, J) {
	s := clNewSim(c, sc)
	s.round(false) // Initial -> Healthy, completed sub-status for the first deployment
	s.round(false)
	s.release("v2")
	done := false
	for i := 0; i < budget; i++ {
		if plan.event != "" && ((plan.evWhen == "" && s.recs >= plan.evAt) || (plan.evWhen == "finalising" && s.cleaningUp(false)) ||
			(plan.evWhen == "finalising-late" && s.cleaningUp(true)) || (plan.evWhen == "before-br" && s.heldWithoutBR())) {
			s.eventAt = s.where()
			s.lateRelease = plan.event != "delete" && s.cleaningUp(false)
			s.earlyExit = plan.event == "delete" && s.heldWithoutBR()
			switch plan.event {
			case "rollback":
				s.release("v1")
			case "delete":
				s.deleteRollout()
			case "release3":
				s.release("v3")
			}
			plan.event = ""
		}
		if plan.kind != "none" && s.recs >= plan.at {
			switch plan.kind {
			case "crash":
				s.restart()
				s.trace = append(s.trace, "crash")
			case "fault", "die":
				if (s.recs-plan.at)%2 == 0 {
					s.recRollout(plan.k)
				} else {
					s.recBR(plan.k)
				}
				s.apiServer()
				s.trace = append(s.trace, fmt.Sprintf("%s@%d", plan.kind, plan.k))
				if plan.kind == "die" {
					// the process died after its k-th write of that reconcile: all in-memory state is lost
					s.restart()
				}
			}
			plan.kind = "none"
		}
		s.round(snap)
		if s.panicked {
			break
		}
		if s.terminal() {
			// two more quiescent rounds: nothing may change any more
			s.round(snap)
			s.round(snap)
			done = true
			break
		}
	}
	clLastEarlyExit = s.earlyExit
	return s.finalState(), s.recs, done && !s.panicked, s.trace, s.eventAt
}

func clScenarios(c *Ctx, n int) []clScenario {
	w := func(x int) *int { return &x }
	base := []clScenario{
		{Name: "pct-traffic", Replicas: 10, HasTraffic: true, Steps: []rsStep{{Replicas: J{"p": 20}, Weight: w(20), Pause: "manual"}, {Replicas: J{"p": 50}, Weight: w(50), Pause: "short"}, {Replicas: J{"p": 100}, Weight: w(100), Pause: "short"}}},
		{Name: "int-notraffic", Replicas: 5, HasTraffic: false, Steps: []rsStep{{Replicas: J{"i": 1}, Pause: "short"}, {Replicas: J{"i": 3}, Pause: "manual"}, {Replicas: J{"i": 5}, Pause: "short"}}},
		{Name: "mixed-traffic-then-plain", Replicas: 7, HasTraffic: true, Steps: []rsStep{{Replicas: J{"p": 30}, Weight: w(10), Pause: "manual"}, {Replicas: J{"p": 60}, Pause: "short"}, {Replicas: J{"p": 100}, Pause: "short"}}},
	}
	base = append(base,
		clScenario{Name: "full-first-step", Replicas: 4, HasTraffic: true, Steps: []rsStep{{Replicas: J{"p": 100}, Weight: w(10), Pause: "manual"}}},
		clScenario{Name: "roundup-full-step", Replicas: 3, HasTraffic: true, Steps: []rsStep{{Replicas: J{"p": 30}, Weight: w(20), Pause: "short"}, {Replicas: J{"p": 70}, Weight: w(50), Pause: "manual"}, {Replicas: J{"p": 100}, Weight: w(100), Pause: "short"}}})
	out := base
	for i := 0; i < n; i++ {
		R := 2 + c.Rng.Intn(12)
		k := 1 + c.Rng.Intn(4)
		tr := c.Rng.Intn(2) == 0
		sc := clScenario{Name: fmt.Sprintf("gen-%d", i), Replicas: R, HasTraffic: tr}
		acc := 0
		pcts := c.Rng.Intn(2) == 0
		for j := 0; j < k; j++ {
			st := rsStep{Pause: pickS(c, "manual", "short", "short")}
			if pcts {
				acc += 10 + c.Rng.Intn(45)
				if acc > 100 || j == k-1 {
					acc = 100
				}
				st.Replicas = J{"p": acc}
			} else {
				acc += 1 + c.Rng.Intn(R)
				if j == k-1 && acc < R {
					acc = R
				}
				st.Replicas = J{"i": acc}
			}
			if tr && c.Rng.Intn(4) != 0 {
				st.Weight = w([]int{5, 20, 50, 100}[c.Rng.Intn(4)])
			}
			sc.Steps = append(sc.Steps, st)
		}
		out = append(out, sc)
	}
	return out
}

func runCluster(c *Ctx) {
	nScen := 2
	perScen := c.N / 40
	if c.Thorough() {
		nScen = 12
	}
	if perScen < 6 {
		perScen = 6
	}
	budget := 80
	for _, sc := range clScenarios(c, nScen) {
		base, recs, ok, trace, _ := clRun(c, sc, clPlan{kind: "none"}, true, budget)
		c.EmitAs("cluster", "final", J{"scenario": sc.Name, "plan": "baseline", "baseline": base, "run": base, "done": ok, "reconciles": recs,
			"steps": len(sc.Steps), "trace": trace, "sameOutcome": true}, nil)
		if !ok {
			continue
		}
		// disturbed runs: a crash or an API fault at a reconcile index; all must end in the baseline's final state
		for i := 0; i < perScen; i++ {
			plan := clPlan{kind: pickS(c, "crash", "fault", "die", "die"), at: 4 + c.Rng.Intn(recs), k: c.Rng.Intn(4)}
			if c.Thorough() && i < recs {
				plan.at = 4 + i
			}
			fin, r2, ok2, tr2, _ := clRun(c, sc, plan, i%3 == 0, budget+20)
			c.EmitAs("cluster", "final", J{"scenario": sc.Name, "plan": fmt.Sprintf("%s@%d/%d", plan.kind, plan.at, plan.k), "baseline": base, "run": fin,
				"done": ok2, "reconciles": r2, "steps": len(sc.Steps), "trace": tr2, "sameOutcome": true, "disturbed": true}, nil)
		}
		// user events at a reconcile index (different outcome than the baseline: only invariants and cleanliness are judged)
		for i := 0; i < perScen/2+3; i++ {
			ev := pickS(c, "rollback", "delete", "release3")
			plan := clPlan{kind: pickS(c, "none", "crash", "die"), at: 6 + c.Rng.Intn(recs), k: c.Rng.Intn(4), event: ev, evAt: 5 + c.Rng.Intn(recs)}
			name := fmt.Sprintf("%s@%d+%s", ev, plan.evAt, plan.kind)
			if i < 2 {
				// deterministic: a new revision admitted while the clean-up is running (before / after the BatchRelease is gone)
				plan = clPlan{kind: "none", event: pickS(c, "rollback", "release3"), evWhen: []string{"finalising", "finalising-late"}[i]}
				name = fmt.Sprintf("%s@%s+none", plan.event, plan.evWhen)
				ev = plan.event
			} else if i == 2 {
				// deterministic: the rollout deleted between admission of the release and the first BatchRelease
				plan = clPlan{kind: "crash", at: 8, event: "delete", evWhen: "before-br"}
				name, ev = "delete@before-br+crash", "delete"
			}
			fin, r2, ok2, tr2, evAt, early := clRunX(c, sc, plan, true, budget+40)
			c.EmitAs("cluster", "final", J{"scenario": sc.Name, "plan": name, "baseline": base, "run": fin,
				"done": ok2, "reconciles": r2, "steps": len(sc.Steps), "trace": tr2, "sameOutcome": false, "event": ev, "eventAt": evAt,
				"disturbed": plan.kind != "none", "earlyExit": early}, nil)
		}
	}
}

var _ = corev1.ServiceTypeClusterIP
var _ client.Client
