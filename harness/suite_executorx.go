package main

// executorx — the BatchRelease reconciler over EVERY control plane.
//
// One case = one real BatchReleaseReconciler.Reconcile (batchrelease.VerifNewReconciler) on a generated BatchRelease
// (any phase / batch state / plan / partition / deletion / rollback annotation / rolling style / workload reference) and a
// world of the workload family the reference names:
//
//	cs      apps.kruise.io/v1alpha1 CloneSet, partition style         (abstract state of suite executor)
//	pdep    apps/v1 Deployment, partition style                       (abstract Deployment of suite ctlpdeploy + status)
//	sts     apps/v1 StatefulSet, apps.kruise.io/v1beta1 StatefulSet, apps.kruise.io/v1alpha1 DaemonSet
//	                                                                  (abstract workload, status and pods of suite ctlsts)
//	bg      blue-green Deployment / CloneSet + ReplicaSets + HPAs     (abstract world of suite ctlbluegreen + status)
//	canary  canary-style Deployment: stable + canary Deployments      (abstract world of suite ctlcanary + expectation)
//	rs      apps/v1 ReplicaSet as workload reference (no control plane serves it: refused)
//	none    an unsupported group/kind
//
// Output: the BatchRelease afterwards (finalizer, abstract status), the world afterwards, requeue / error — or "panic".
// With k > 0 the k-th API call of any kind fails (LogClient.FailCallN); the model then predicts nothing, the oracles
// are still evaluated on what the implementation did.

import (
	"context"
	"encoding/json"
	"flag"
	"fmt"
	"sort"
	"strconv"
	"strings"
	"time"

	kruisev1alpha1 "github.com/openkruise/kruise-api/apps/v1alpha1"
	kruisev1beta1 "github.com/openkruise/kruise-api/apps/v1beta1"
	"github.com/openkruise/rollouts/api/v1alpha1"
	"github.com/openkruise/rollouts/api/v1beta1"
	"github.com/openkruise/rollouts/pkg/controller/batchrelease"
	"github.com/openkruise/rollouts/pkg/util"
	expectations "github.com/openkruise/rollouts/pkg/util/expectation"
	apps "k8s.io/api/apps/v1"
	corev1 "k8s.io/api/core/v1"
	apierrors "k8s.io/apimachinery/pkg/api/errors"
	metav1 "k8s.io/apimachinery/pkg/apis/meta/v1"
	"k8s.io/apimachinery/pkg/types"
	ctrl "sigs.k8s.io/controller-runtime"
	"sigs.k8s.io/controller-runtime/pkg/client"
	"sigs.k8s.io/controller-runtime/pkg/controller"
	"sigs.k8s.io/controller-runtime/pkg/handler"
	"sigs.k8s.io/controller-runtime/pkg/predicate"
	"sigs.k8s.io/controller-runtime/pkg/reconcile"
	"sigs.k8s.io/controller-runtime/pkg/source"

	"github.com/go-logr/logr"
)

func init() { register("executorx", runExecutorX, replayExecutorX) }

// ---- abstract state (mirrors RV.ExecutorX / RV.ExecutorXPlanes) ----

type exxObs struct {
	Generation         int    `json:"generation"`
	ObservedGeneration int    `json:"observedGeneration"`
	StatusReplicas     int    `json:"statusReplicas"`
	Updated            int    `json:"updated"`
	UpdatedReady       int    `json:"updatedReady"`
	UpdateRevision     string `json:"updateRevision"`
	StableRevision     string `json:"stableRevision"`
}

type exxWorld struct {
	Shape string `json:"shape"` // cs | pdep | sts | bg | canary | rs | none
	Obs   exxObs `json:"obs"`
	// cs
	WL *exWL `json:"wl"`
	// pdep
	Dep *pdDep `json:"dep"`
	// sts
	Sts    *ssWl    `json:"sts"`
	Status ssStatus `json:"status"`
	Pods   []ssPodA `json:"pods"`
	// bg
	BG *bgWorld `json:"bg"`
	// canary
	Deps       []ccDep  `json:"deps"`
	Exp        string   `json:"exp"`
	TimedOut   bool     `json:"timedOut"`
	WaitResume bool     `json:"waitResume"`
	Patch      *ccPatch `json:"patch"`
	// rs
	Exists bool `json:"exists"`
}

type exxIn struct {
	Kind        string   `json:"kind"`  // cloneSet | daemonSet | deployment | nativeSts | advancedSts | replicaSet | unsupported
	Style       string   `json:"style"` // "" | Partition | Canary | BlueGreen | Other
	EnableExtra bool     `json:"enableExtra"`
	BR          exBR     `json:"br"`
	World       exxWorld `json:"world"`
	K           int      `json:"k"` // 0: undisturbed; k>0: the k-th API call (reads included) fails
	// an outage: every List call of this reconcile fails ("list"), or every List of one kind ("list ReplicaSetList",
	// "list PodList") - an API server timing out on lists for a while
	Outage string `json:"outage,omitempty"`
}

// ---- names, references ----

func exxRef(kind string) (string, string, string) {
	switch kind {
	case "cloneSet":
		return "apps.kruise.io/v1alpha1", "CloneSet", "wl"
	case "daemonSet":
		return "apps.kruise.io/v1alpha1", "DaemonSet", "wl"
	case "deployment":
		return "apps/v1", "Deployment", "wl"
	case "nativeSts":
		return "apps/v1", "StatefulSet", "wl"
	case "advancedSts":
		return "apps.kruise.io/v1beta1", "StatefulSet", "wl"
	case "replicaSet":
		return "apps/v1", "ReplicaSet", "wl"
	}
	return "example.io/v1", "Foo", "wl"
}

func exxStyle(s string) v1beta1.RollingStyleType {
	if s == "Other" {
		return "Foo"
	}
	return v1beta1.RollingStyleType(s)
}

// exxBRUID: the blue-green abstraction names BatchReleases by number (this one is 0), the others by "br-uid"
func exxBRUID(shape string) string {
	if shape == "bg" {
		return bgBRUID(0)
	}
	return "br-uid"
}

// ---- revision tokens ----
//
// A Deployment's update revision is util.ComputeHash(&spec.template).  The abstract state names it by a token from which
// the template can be rebuilt: "t<n>" (pdep: pdTemplate(n)), "bgtpl" (bg Deployment: podTemplate()), or the rendering
// "r<rev>|k=v,..|k=v,.." of an abstract canary template.  Any other string stands for itself.

const exxBGTplToken = "bgtpl"

func exxKV(m map[string]string) string {
	ks := make([]string, 0, len(m))
	for k := range m {
		ks = append(ks, k)
	}
	sort.Strings(ks)
	ps := []string{}
	for _, k := range ks {
		ps = append(ps, k+"="+m[k])
	}
	return strings.Join(ps, ",")
}

func exxTplToken(t ccTemplate) string {
	return fmt.Sprintf("r%d|%s|%s", t.Rev, exxKV(t.Labels), exxKV(t.Annos))
}

func exxParseKV(s string) map[string]string {
	m := map[string]string{}
	if s == "" {
		return m
	}
	for _, p := range strings.Split(s, ",") {
		kv := strings.SplitN(p, "=", 2)
		if len(kv) == 2 {
			m[kv[0]] = kv[1]
		}
	}
	return m
}

func exxTplOfToken(tok string) (ccTemplate, bool) {
	ps := strings.Split(tok, "|")
	if len(ps) != 3 || !strings.HasPrefix(ps[0], "r") {
		return ccTemplate{}, false
	}
	n, err := strconv.Atoi(ps[0][1:])
	if err != nil {
		return ccTemplate{}, false
	}
	return ccTemplate{Rev: n, Labels: exxParseKV(ps[1]), Annos: exxParseKV(ps[2])}, true
}

func exxCanaryHash(t ccTemplate) string {
	d := ccBuildDep(ccDep{Name: 99, Template: t})
	return util.ComputeHash(&d.Spec.Template, nil)
}

// exxRevIn: abstract token -> the string the cluster holds
func exxRevIn(shape, kind, tok string) string {
	switch {
	case shape == "pdep":
		var n int
		if c, _ := fmt.Sscanf(tok, "t%d", &n); c == 1 && tok == fmt.Sprintf("t%d", n) {
			t := pdTemplate(n)
			return util.ComputeHash(&t, nil)
		}
	case shape == "bg" && kind == "deployment":
		if tok == exxBGTplToken {
			t := podTemplate()
			return util.ComputeHash(&t, nil)
		}
	case shape == "canary":
		if t, ok := exxTplOfToken(tok); ok {
			return exxCanaryHash(t)
		}
	}
	return tok
}

// exxRevOut: a string of the cluster -> abstract token; cands = the canary templates known in this case
func exxRevOut(shape, kind, raw string, cands []ccTemplate) string {
	switch {
	case shape == "pdep":
		for n := 0; n < 12; n++ {
			t := pdTemplate(n)
			if util.ComputeHash(&t, nil) == raw {
				return fmt.Sprintf("t%d", n)
			}
		}
	case shape == "bg" && kind == "deployment":
		t := podTemplate()
		if util.ComputeHash(&t, nil) == raw {
			return exxBGTplToken
		}
	case shape == "canary":
		for _, t := range cands {
			if exxCanaryHash(t) == raw {
				return exxTplToken(t)
			}
		}
	}
	return raw
}

// ---- the BatchRelease ----

func exxBuildRelease(in *exxIn) *v1beta1.BatchRelease {
	b := in.BR
	shape := in.World.Shape
	r := &v1beta1.BatchRelease{TypeMeta: metav1.TypeMeta{APIVersion: "rollouts.kruise.io/v1beta1", Kind: "BatchRelease"}}
	r.Namespace, r.Name, r.UID, r.Generation = "ns", "br", types.UID(exxBRUID(shape)), 1
	av, kd, nm := exxRef(in.Kind)
	if shape == "canary" {
		nm = ccStable
	}
	r.Spec.WorkloadRef = v1beta1.ObjectRef{APIVersion: av, Kind: kd, Name: nm}
	for _, e := range b.Batches {
		r.Spec.ReleasePlan.Batches = append(r.Spec.ReleasePlan.Batches, v1beta1.ReleaseBatch{CanaryReplicas: *iosFromAny(e)})
	}
	if b.Partition != nil {
		r.Spec.ReleasePlan.BatchPartition = i32p(int32(*b.Partition))
	}
	r.Spec.ReleasePlan.FailureThreshold = iosFromAny(b.FailureThreshold)
	r.Spec.ReleasePlan.RollingStyle = exxStyle(in.Style)
	r.Spec.ReleasePlan.EnableExtraWorkloadForCanary = in.EnableExtra
	if shape == "canary" {
		if in.World.WaitResume {
			r.Spec.ReleasePlan.FinalizingPolicy = v1beta1.WaitResumeFinalizingPolicyType
		}
		if p := in.World.Patch; p != nil {
			r.Spec.ReleasePlan.PatchPodTemplateMetadata = &v1beta1.PatchPodTemplateMetadata{Labels: p.Labels, Annotations: p.Annos}
		}
	}
	if b.HasFinalizer {
		r.Finalizers = []string{batchrelease.ReleaseFinalizer}
	}
	if b.Deleting {
		now := metav1.Now()
		r.DeletionTimestamp = &now
		if !b.HasFinalizer {
			r.Finalizers = []string{"verif/foreign"}
		}
	}
	if b.RollbackAnno {
		r.Annotations = map[string]string{v1alpha1.RollbackInBatchAnnotation: "true"}
	}
	s := b.Status
	st := &r.Status
	if s.Phase == "Weird" {
		st.Phase = "Weird"
	} else {
		st.Phase = v1beta1.RolloutPhase(s.Phase)
	}
	st.CanaryStatus.CurrentBatch = int32(s.CurrentBatch)
	st.CanaryStatus.CurrentBatchState = v1beta1.BatchReleaseBatchStateType(s.BatchState)
	if s.HasReadyTime {
		t := metav1.Now()
		st.CanaryStatus.BatchReadyTime = &t
	}
	switch s.Hash {
	case "same":
		st.ObservedReleasePlanHash = util.HashReleasePlanBatches(&r.Spec.ReleasePlan)
	case "differs":
		st.ObservedReleasePlanHash = exOtherHash
	}
	if !s.RolloutIDSame {
		st.ObservedRolloutID = "old-id"
	}
	st.ObservedWorkloadReplicas = int32(s.ObservedReplicas)
	bk := exxBGKind(in)
	st.UpdateRevision, st.StableRevision = exxRevIn(shape, bk, s.UpdateRevision), exxRevIn(shape, bk, s.StableRevision)
	if s.NoNeedUpdate != nil {
		st.CanaryStatus.NoNeedUpdateReplicas = i32p(int32(*s.NoNeedUpdate))
	}
	st.CanaryStatus.UpdatedReplicas, st.CanaryStatus.UpdatedReadyReplicas = int32(s.Updated), int32(s.UpdatedReady)
	st.ObservedGeneration = 1
	return r
}

// exxBGKind: "deployment" | "cloneSet" for the blue-green family (by the workload reference)
func exxBGKind(in *exxIn) string {
	if in.Kind == "deployment" {
		return "deployment"
	}
	return "cloneSet"
}

// ---- the world ----

func exxStsKind(kind string) string {
	switch kind {
	case "nativeSts":
		return "native"
	case "advancedSts":
		return "advanced"
	}
	return "daemonSet"
}

type exxBuilt struct {
	objs     []client.Object
	pdOrig   interface{}
	ssOrig   interface{}
	canaryTs []ccTemplate
}

func exxApplyObsDeployment(d *apps.Deployment, o exxObs) {
	d.Generation = int64(o.Generation)
	d.Status.ObservedGeneration = int64(o.ObservedGeneration)
}

func exxBuildWorld(in *exxIn) exxBuilt {
	w := in.World
	o := w.Obs
	out := exxBuilt{}
	switch w.Shape {
	case "cs":
		if w.WL != nil {
			out.objs = append(out.objs, exBuildCloneSet(w.WL))
		}
	case "pdep":
		if w.Dep != nil {
			d := pdBuild(w.Dep)
			exxApplyObsDeployment(d, o)
			d.Status.Replicas, d.Status.UpdatedReplicas = int32(o.StatusReplicas), int32(o.Updated)
			if w.Dep.ExtraStatus {
				d.Annotations[v1alpha1.DeploymentExtraStatusAnnotation] = fmt.Sprintf(`{"updatedReadyReplicas":%d,"expectedUpdatedReplicas":%d}`, o.UpdatedReady, o.Updated)
			}
			if w.Dep.StableRev != "" {
				d.Labels[v1alpha1.DeploymentStableRevisionLabel] = exxRevIn("pdep", "deployment", w.Dep.StableRev)
			}
			out.pdOrig = pdStripped(d)
			out.objs = append(out.objs, d)
		}
	case "sts":
		kind := exxStsKind(in.Kind)
		if w.Sts != nil {
			obj := ssBuildS(w.Sts, &w.Status)
			switch t := obj.(type) {
			case *apps.StatefulSet:
				t.Generation, t.Status.ObservedGeneration = int64(o.Generation), int64(o.ObservedGeneration)
				t.Status.Replicas, t.Status.CurrentRevision = int32(o.StatusReplicas), o.StableRevision
			case *kruisev1beta1.StatefulSet:
				t.Generation, t.Status.ObservedGeneration = int64(o.Generation), int64(o.ObservedGeneration)
				t.Status.Replicas, t.Status.CurrentRevision = int32(o.StatusReplicas), o.StableRevision
			case *kruisev1alpha1.DaemonSet:
				t.Generation, t.Status.ObservedGeneration = int64(o.Generation), int64(o.ObservedGeneration)
			}
			out.ssOrig = ssStripped(obj)
			out.objs = append(out.objs, obj)
		}
		out.objs = append(out.objs, ssMidObjects()...)
		for i, a := range w.Pods {
			out.objs = append(out.objs, ssPodConcrete(i, a, kind))
		}
	case "bg":
		kind := exxBGKind(in)
		if w.BG != nil {
			objs := bgObjects(kind, *w.BG)
			last := len(w.BG.RSS) - 1
			for _, ob := range objs {
				switch t := ob.(type) {
				case *apps.Deployment:
					exxApplyObsDeployment(t, o)
				case *kruisev1alpha1.CloneSet:
					t.Generation, t.Status.ObservedGeneration = int64(o.Generation), int64(o.ObservedGeneration)
					t.Status.UpdateRevision, t.Status.CurrentRevision = o.UpdateRevision, o.StableRevision
				case *apps.ReplicaSet:
					// the newest ReplicaSet is the one of the Deployment's current pod template
					if kind == "deployment" && t.Name == fmt.Sprintf("rs-%d", last) {
						t.Spec.Template = podTemplate()
						t.Status.ReadyReplicas = int32(o.UpdatedReady)
					}
				}
			}
			out.objs = append(out.objs, objs...)
		}
	case "canary":
		for _, d := range w.Deps {
			out.objs = append(out.objs, ccBuildDep(d))
			out.canaryTs = append(out.canaryTs, d.Template)
		}
		if t, ok := exxTplOfToken(in.BR.Status.UpdateRevision); ok {
			out.canaryTs = append(out.canaryTs, t)
		}
	case "rs":
		if w.Exists {
			rs := &apps.ReplicaSet{}
			rs.Namespace, rs.Name, rs.UID = "ns", "wl", "wl-uid"
			n := int32(3)
			rs.Spec.Replicas = &n
			rs.Spec.Selector = &metav1.LabelSelector{MatchLabels: selLabels}
			rs.Spec.Template = podTemplate()
			out.objs = append(out.objs, rs)
		}
	}
	return out
}

// exxAbstractWorld: the world after the reconcile, in the shape of the input (read-only parts are echoed)
func exxAbstractWorld(in *exxIn, base client.Client, b exxBuilt) (exxWorld, []ccTemplate) {
	ctx := context.TODO()
	w := in.World
	out := exxWorld{Shape: w.Shape, Obs: w.Obs, Status: w.Status, Pods: w.Pods, Exp: w.Exp, TimedOut: w.TimedOut, WaitResume: w.WaitResume, Patch: w.Patch}
	cands := b.canaryTs
	key := types.NamespacedName{Namespace: "ns", Name: "wl"}
	switch w.Shape {
	case "cs":
		cs := &kruisev1alpha1.CloneSet{}
		if base.Get(ctx, key, cs) == nil {
			var a exWL
			remarshal(exAbstractWL(cs), &a)
			out.WL = &a
		}
	case "pdep":
		d := &apps.Deployment{}
		if base.Get(ctx, key, d) == nil {
			a := pdAbstract(d, b.pdOrig)
			a.StableRev = exxRevOut("pdep", "deployment", a.StableRev, nil)
			out.Dep = a
			out.Obs.Generation, out.Obs.ObservedGeneration = int(d.Generation), int(d.Status.ObservedGeneration)
			out.Obs.StatusReplicas, out.Obs.Updated = int(d.Status.Replicas), int(d.Status.UpdatedReplicas)
		}
	case "sts":
		kind := exxStsKind(in.Kind)
		got := ssEmpty(kind)
		if base.Get(ctx, key, got) == nil {
			out.Sts = ssAbstract(kind, got, b.ssOrig)
			switch t := got.(type) {
			case *apps.StatefulSet:
				out.Obs.Generation, out.Obs.ObservedGeneration = int(t.Generation), int(t.Status.ObservedGeneration)
				out.Obs.StatusReplicas, out.Obs.StableRevision = int(t.Status.Replicas), t.Status.CurrentRevision
				out.Status = ssStatus{UpdateRevision: t.Status.UpdateRevision, Updated: int(t.Status.UpdatedReplicas), Ready: int(t.Status.ReadyReplicas)}
			case *kruisev1beta1.StatefulSet:
				out.Obs.Generation, out.Obs.ObservedGeneration = int(t.Generation), int(t.Status.ObservedGeneration)
				out.Obs.StatusReplicas, out.Obs.StableRevision = int(t.Status.Replicas), t.Status.CurrentRevision
				out.Status = ssStatus{UpdateRevision: t.Status.UpdateRevision, Updated: int(t.Status.UpdatedReplicas), Ready: int(t.Status.ReadyReplicas)}
			case *kruisev1alpha1.DaemonSet:
				out.Obs.Generation, out.Obs.ObservedGeneration = int(t.Generation), int(t.Status.ObservedGeneration)
				out.Status = ssStatus{UpdateRevision: t.Status.DaemonSetHash, Updated: int(t.Status.UpdatedNumberScheduled), Ready: int(t.Status.NumberReady)}
			}
		}
	case "bg":
		kind := exxBGKind(in)
		if w.BG != nil {
			a := bgAbstract(kind, base, *w.BG)
			out.BG = &a
		}
	case "canary":
		out.Deps = ccAbstractWorld(base)
		for _, d := range out.Deps {
			cands = append(cands, d.Template)
		}
		out.Exp = "none"
		if expectations.ResourceExpectations.GetExpectations(ccBRKey) != nil {
			out.Exp = "pending"
		}
	case "rs":
		rs := &apps.ReplicaSet{}
		out.Exists = base.Get(ctx, key, rs) == nil
	}
	return out, cands
}

func remarshal(from interface{}, to interface{}) {
	b, err := json.Marshal(from)
	must(err)
	must(json.Unmarshal(b, to))
}

// ---- the dynamic watch registry: Reconcile registers an unknown GVK and returns before doing anything; the harness
// lets it do that on a throw-away BatchRelease first, so that the reconcile under test is the one that acts ----

type exxFakeController struct{}

func (exxFakeController) Reconcile(context.Context, reconcile.Request) (reconcile.Result, error) {
	return reconcile.Result{}, nil
}
func (exxFakeController) Watch(source.Source, handler.EventHandler, ...predicate.Predicate) error {
	return nil
}
func (exxFakeController) Start(context.Context) error { return nil }
func (exxFakeController) GetLogger() logr.Logger      { return logr.Discard() }

var _ controller.Controller = exxFakeController{}

func exxPrimeWatch(in *exxIn) {
	av, kd, _ := exxRef(in.Kind)
	r := &v1beta1.BatchRelease{}
	r.Namespace, r.Name = "ns", "prime"
	r.Spec.WorkloadRef = v1beta1.ObjectRef{APIVersion: av, Kind: kd, Name: "none"}
	r.Finalizers = []string{batchrelease.ReleaseFinalizer}
	r.Status.Phase = v1beta1.RolloutPhaseCompleted
	cli := fakeClient(r)
	rec := batchrelease.VerifNewReconciler(cli, theScheme)
	_, _ = rec.Reconcile(context.TODO(), ctrl.Request{NamespacedName: types.NamespacedName{Namespace: "ns", Name: "prime"}})
}

// ---- one reconcile ----

func exxRunF(in *exxIn, failN int) (J, faultRun) {
	must(flag.Set("filter-workload-type", "true"))
	oc, oh := batchrelease.VerifSetRuntimeController(exxFakeController{}, nil)
	defer batchrelease.VerifSetRuntimeController(oc, oh)
	exxPrimeWatch(in)
	rel := exxBuildRelease(in)
	built := exxBuildWorld(in)
	objs := append([]client.Object{rel}, built.objs...)
	base := fakeClient(objs...)
	var inner client.Client = base
	if in.World.Shape == "canary" {
		inner = &ccAPI{Client: base, failAt: -1}
		expectations.ResourceExpectations.DeleteExpectations(ccBRKey)
		if in.World.Exp == "pending" {
			expectations.ResourceExpectations.Expect(ccBRKey, expectations.Create, "uid-seed")
		}
		if in.World.TimedOut {
			expectations.ExpectationTimeout = 0
		} else {
			expectations.ExpectationTimeout = 5 * time.Minute
		}
		defer func() {
			expectations.ResourceExpectations.DeleteExpectations(ccBRKey)
			expectations.ExpectationTimeout = 5 * time.Minute
		}()
	}
	cli := NewLogClient(inner)
	rec := batchrelease.VerifNewReconciler(cli, theScheme)
	cli.Calls, cli.FailCallN, cli.FaultHit = 0, failN, ""
	if in.Outage != "" {
		cli.FailAllPrefix = in.Outage + " " // "list": every List; "list ReplicaSetList" / "list PodList": the Lists of one kind
		if in.Outage != "list" {
			cli.FailAllPrefix = in.Outage
		}
	}
	res, err := rec.Reconcile(context.TODO(), ctrl.Request{NamespacedName: types.NamespacedName{Namespace: "ns", Name: "br"}})
	cli.FailCallN, cli.FailAllPrefix = 0, ""
	fr := faultRun{Err: err != nil, Requeue: res.RequeueAfter > 0 || res.Requeue, Calls: cli.Calls, Hit: cli.FaultHit, Writes: writesOf(cli)}
	out := J{"requeue": res.RequeueAfter > 0 || res.Requeue, "err": err != nil}
	world, cands := exxAbstractWorld(in, base, built)
	out["world"] = world
	got := &v1beta1.BatchRelease{}
	if e := base.Get(context.TODO(), types.NamespacedName{Namespace: "ns", Name: "br"}, got); e != nil {
		if apierrors.IsNotFound(e) {
			out["br"] = nil
		} else {
			out["br"] = "get-err"
		}
	} else {
		hasFin := false
		for _, f := range got.Finalizers {
			if f == batchrelease.ReleaseFinalizer {
				hasFin = true
			}
		}
		st := exAbstractStatus(got)
		bk := exxBGKind(in)
		st.UpdateRevision = exxRevOut(in.World.Shape, bk, st.UpdateRevision, cands)
		st.StableRevision = exxRevOut(in.World.Shape, bk, st.StableRevision, cands)
		out["br"] = J{"hasFinalizer": hasFin, "status": st}
	}
	if failN > 0 || in.Outage != "" {
		out["hit"] = cli.FaultHit
	}
	return out, fr
}

func exxCase(c *Ctx, in *exxIn) {
	impl := guard(func() interface{} { o, _ := exxRunF(in, in.K); return o })
	c.Emit("reconcile", in, impl)
}

// ---- generators ----

func exxGenBatches(c *Ctx, R int) ([]J, int) {
	nb := 1 + c.Rng.Intn(4)
	if c.Rng.Intn(30) == 0 {
		nb = 0
	}
	var batches []J
	pcts := c.Rng.Intn(2) == 0
	acc := 0
	for i := 0; i < nb; i++ {
		if pcts {
			acc += 1 + c.Rng.Intn(50)
			if acc > 100 || i == nb-1 && c.Rng.Intn(2) == 0 {
				acc = 100
			}
			batches = append(batches, J{"p": acc})
		} else {
			acc += 1 + c.Rng.Intn(R/2+1)
			batches = append(batches, J{"i": acc})
		}
	}
	return batches, nb
}

// exxTarget: what the current batch plans (CalculateBatchReplicas)
func exxTarget(br *exBR, R int) int {
	cb := br.Status.CurrentBatch
	if cb < 0 || cb >= len(br.Batches) {
		return R
	}
	e := br.Batches[cb]
	t := 0
	if v, ok := e["p"]; ok {
		t = (v.(int)*R + 99) / 100
	} else {
		t = e["i"].(int)
	}
	if t > R {
		t = R
	}
	if t < 0 {
		t = 0
	}
	return t
}

// exxGenBR: a BatchRelease in any phase / batch state; upd/stb = the revisions a healthy status has recorded
func exxGenBR(c *Ctx, R int, upd, stb string) exBR {
	batches, nb := exxGenBatches(c, R)
	br := exBR{Batches: batches, HasFinalizer: c.Rng.Intn(6) != 0, Deleting: c.Rng.Intn(9) == 0, RollbackAnno: c.Rng.Intn(12) == 0}
	if c.Rng.Intn(7) != 0 {
		p := c.Rng.Intn(nb + 1)
		if c.Rng.Intn(12) == 0 {
			p = nb + 2
		}
		br.Partition = &p
	}
	if c.Rng.Intn(4) == 0 {
		br.FailureThreshold = J{"i": c.Rng.Intn(3)}
	}
	st := exStatus{RolloutIDSame: c.Rng.Intn(10) != 0, ObservedReplicas: R}
	switch c.Rng.Intn(20) {
	case 0:
		st.Phase = ""
	case 1:
		st.Phase = "Weird"
	case 2, 3, 4:
		st.Phase = "Preparing"
	case 5, 6, 7:
		st.Phase = "Finalizing"
	case 8:
		st.Phase = "Completed"
	default:
		st.Phase = "Progressing"
	}
	st.BatchState = pickS(c, "Upgrading", "Upgrading", "Verifying", "Verifying", "Ready", "Ready", "Ready", "", "Weird")
	st.CurrentBatch = c.Rng.Intn(nb + 1)
	if c.Rng.Intn(15) == 0 {
		st.CurrentBatch = nb + c.Rng.Intn(2)
	}
	if c.Rng.Intn(40) == 0 {
		st.CurrentBatch = -1
	}
	if br.Partition != nil && c.Rng.Intn(2) == 0 && *br.Partition < nb {
		st.CurrentBatch = *br.Partition
	}
	st.HasReadyTime = st.BatchState == "Ready" && c.Rng.Intn(4) != 0
	st.Hash = pickS(c, "same", "same", "same", "same", "same", "same", "differs", "empty")
	if c.Rng.Intn(10) == 0 {
		st.ObservedReplicas = pickInt(c, -1, R+1, R-1)
	}
	st.UpdateRevision, st.StableRevision = upd, stb
	if c.Rng.Intn(12) == 0 {
		st.UpdateRevision = ""
	}
	if c.Rng.Intn(14) == 0 {
		n := c.Rng.Intn(R + 1)
		st.NoNeedUpdate = &n
	}
	if st.Phase == "" {
		st = exStatus{Phase: "", RolloutIDSame: st.RolloutIDSame, Hash: "empty"}
	}
	br.Status = st
	return br
}

// exxProgress: (updated, updatedReady) of a workload relative to what the current batch plans
func exxProgress(c *Ctx, br *exBR, R int) (int, int) {
	upd := c.Rng.Intn(R + 1)
	if c.Rng.Intn(3) != 0 {
		upd = exxTarget(br, R) - pickInt(c, 0, 0, 0, 1)
		if upd < 0 {
			upd = 0
		}
	}
	rdy := upd
	if c.Rng.Intn(4) == 0 {
		rdy = c.Rng.Intn(upd + 1)
	}
	return upd, rdy
}

func exxGenObs(c *Ctx, R, upd, rdy int) exxObs {
	o := exxObs{Generation: 2, ObservedGeneration: 2, StatusReplicas: R, Updated: upd, UpdatedReady: rdy, UpdateRevision: "v2", StableRevision: "v1"}
	if c.Rng.Intn(10) == 0 {
		o.ObservedGeneration = 1
	}
	if c.Rng.Intn(12) == 0 {
		o.UpdateRevision = "v3"
	}
	if c.Rng.Intn(14) == 0 {
		o.UpdateRevision, o.StableRevision = "v1", "v1"
	}
	return o
}

func exxSize(c *Ctx) int {
	R := c.Rng.Intn(12)
	if c.Rng.Intn(9) == 0 {
		R = 0
	}
	return R
}

func exxGenCS(c *Ctx) *exxIn {
	base := genExecutorCase(c)
	in := &exxIn{Kind: "cloneSet", Style: pickS(c, "", "Partition", "Partition", "Canary"), EnableExtra: c.Rng.Intn(4) == 0, BR: base.BR}
	in.World = exxWorld{Shape: "cs", WL: base.WL}
	return in
}

func exxGenPDep(c *Ctx) *exxIn {
	R := exxSize(c)
	tmpl := 2
	br := exxGenBR(c, R, "t2", "t1")
	upd, rdy := exxProgress(c, &br, R)
	br.Status.Updated, br.Status.UpdatedReady = upd, rdy
	if c.Rng.Intn(6) == 0 {
		br.Status.Updated = c.Rng.Intn(R + 1)
	}
	in := &exxIn{Kind: "deployment", Style: pickS(c, "", "Partition", "Partition"), BR: br}
	d := &pdDep{Replicas: &R, Tmpl: tmpl, StableRev: "t1"}
	ru := &pdRU{MU: J{"p": 25}, MS: J{"p": 25}}
	if c.Rng.Intn(5) != 0 {
		// under rollout control, as Initialize leaves it
		d.Control, d.Paused, d.StratType, d.CtrlLabel, d.ExtraStatus = "this", true, "Recreate", true, true
		part := interface{}(J{"i": 0})
		cb := br.Status.CurrentBatch
		switch c.Rng.Intn(4) {
		case 0:
			if cb >= 0 && cb < len(br.Batches) {
				part = br.Batches[cb]
			}
		case 1:
			if cb >= 1 && cb-1 < len(br.Batches) {
				part = br.Batches[cb-1]
			}
		case 2:
			part = J{"p": pickInt(c, 0, 10, 50, 100)}
		}
		d.Anno = pdAnno{Kind: "valid", S: &pdStrategy{RollingStyle: "Partition", RU: ru, Partition: part}}
		if c.Rng.Intn(10) == 0 {
			d.Control = "other"
		}
		if c.Rng.Intn(12) == 0 {
			d.Paused = false
		}
		if c.Rng.Intn(12) == 0 {
			d.ExtraStatus = false
		}
	} else {
		d.Control, d.StratType, d.StratRU = "none", "RollingUpdate", ru
		d.Anno = pdAnno{Kind: "absent"}
		if c.Rng.Intn(3) == 0 {
			d.Paused = true // the webhook paused it
		}
		if c.Rng.Intn(4) == 0 {
			d.StableRev = ""
		}
	}
	d.InProgress = c.Rng.Intn(3) != 0
	if c.Rng.Intn(12) == 0 {
		d.Tmpl = 3 // a newer revision than the one recorded
	}
	if c.Rng.Intn(14) == 0 {
		d.Tmpl, d.StableRev = 1, "t1" // rolled back
	}
	o := exxGenObs(c, R, upd, rdy)
	o.UpdateRevision, o.StableRevision = "", ""
	in.World = exxWorld{Shape: "pdep", Dep: d, Obs: o}
	if c.Rng.Intn(14) == 0 {
		in.World.Dep = nil
	}
	return in
}

func exxGenSts(c *Ctx) *exxIn {
	R := exxSize(c)
	kindRef := pickS(c, "nativeSts", "advancedSts", "daemonSet")
	kind := exxStsKind(kindRef)
	br := exxGenBR(c, R, "v2", "v1")
	if kind == "daemonSet" {
		br.Status.StableRevision = ""
	}
	upd, rdy := exxProgress(c, &br, R)
	br.Status.Updated, br.Status.UpdatedReady = upd, rdy
	in := &exxIn{Kind: kindRef, Style: pickS(c, "", "Partition", "Partition", "Canary"), EnableExtra: c.Rng.Intn(4) == 0, BR: br}
	if kindRef != "daemonSet" && c.Rng.Intn(6) == 0 {
		in.Style = pickS(c, "BlueGreen", "Other") // no arm for these kinds: the StatefulSet-like control anyway
	}
	w := &ssWl{Kind: kind, Replicas: &R, Tmpl: 2, TmplPresent: true, Control: pickS(c, "this", "this", "this", "none", "other"), InProgress: c.Rng.Intn(3) != 0}
	us := ssUS{K: "present", Type: "RollingUpdate"}
	switch c.Rng.Intn(6) {
	case 0:
		// no rollingUpdate block
	default:
		us.RU = ssRUB{K: "present"}
		switch c.Rng.Intn(5) {
		case 0:
			// no partition
		case 1:
			us.RU.Partition = ssPart{K: "int", N: 32767}
		case 2:
			us.RU.Partition = ssPart{K: "int", N: R}
		default:
			us.RU.Partition = ssPart{K: "int", N: R - exxTarget(&br, R) + pickInt(c, 0, 0, 1, -1)}
			if us.RU.Partition.N < 0 {
				us.RU.Partition.N = 0
			}
		}
		if kind == "advanced" && c.Rng.Intn(4) == 0 {
			us.RU.Unordered = true
		}
		if kind == "daemonSet" && c.Rng.Intn(3) == 0 {
			b := c.Rng.Intn(2) == 0
			us.RU.Paused = &b
		}
		if kind == "advanced" && c.Rng.Intn(6) == 0 {
			b := true
			us.RU.Paused = &b
		}
	}
	w.US = us
	o := exxGenObs(c, R, upd, rdy)
	st := ssStatus{UpdateRevision: o.UpdateRevision, Updated: upd, Ready: rdy}
	pods := []ssPodA{}
	for i := 0; i < upd; i++ {
		p := ssPodA{InNamespace: true, SelMatch: true, Phase: "Running", Owner: "this", RevLabel: st.UpdateRevision, Conds: [][2]string{{"Ready", "True"}}}
		if i >= rdy {
			p.Conds = [][2]string{{"Ready", "False"}}
		}
		if c.Rng.Intn(25) == 0 {
			p.Terminating = true
		}
		if c.Rng.Intn(30) == 0 {
			p.Owner, p.OwnerVariant = "other", c.Rng.Intn(3)
		}
		pods = append(pods, p)
	}
	for i := upd; i < R && i < upd+2; i++ {
		pods = append(pods, ssPodA{InNamespace: true, SelMatch: true, Phase: "Running", Owner: "this", RevLabel: "v1", Conds: [][2]string{{"Ready", "True"}}})
	}
	in.World = exxWorld{Shape: "sts", Sts: w, Status: st, Pods: pods, Obs: o}
	if kind == "daemonSet" {
		in.World.Obs.StatusReplicas, in.World.Obs.StableRevision = R, ""
	}
	if c.Rng.Intn(14) == 0 {
		in.World.Sts = nil
	}
	return in
}

func exxGenBG(c *Ctx) *exxIn {
	kind := pickS(c, "deployment", "cloneSet")
	g := bgGenAny(c, kind)
	world := g.World
	R := 0
	if world.WL != nil {
		if world.WL.Replicas == nil || *world.WL.Replicas > 30 {
			r := 1 + c.Rng.Intn(10)
			world.WL.Replicas = &r
		}
		world.WL.Deleting = false
		R = *world.WL.Replicas
	}
	upd, stb := "v2", "v1"
	if kind == "deployment" {
		upd, stb = exxBGTplToken, bgStableHash
	}
	br := exxGenBR(c, R, upd, stb)
	br.RollbackAnno = false
	u, r := exxProgress(c, &br, R)
	br.Status.Updated, br.Status.UpdatedReady = u, r
	o := exxGenObs(c, R, u, r)
	if world.WL != nil && c.Rng.Intn(2) == 0 {
		// counters of a release that is under way (the blue-green generator mostly produces finished or idle ones)
		world.WL.Status.Updated = u
		if kind == "cloneSet" {
			world.WL.Status.UpdatedReady = r
		}
		if world.WL.Status.Replicas < R {
			world.WL.Status.Replicas = R
		}
		if c.Rng.Intn(2) == 0 {
			world.WL.Status.Replicas = R + u // the surge pods
		}
	}
	if world.WL != nil && c.Rng.Intn(4) == 0 {
		// focused: the batch is being upgraded / verified, its new pods exist but are NOT ready, the old (blue) pods all are:
		// every counter of the workload's status except "updated AND ready" says "enough"
		br.Status.Phase, br.Status.BatchState = "Progressing", pickS(c, "Verifying", "Verifying", "Upgrading")
		t := exxTarget(&br, R)
		u, r = t, c.Rng.Intn(t+1)/2
		if r >= t {
			r = 0
		}
		br.Status.Updated, br.Status.UpdatedReady = u, r
		o = exxGenObs(c, R, u, r)
		o.ObservedGeneration = o.Generation
		world.WL.Status.Updated = u
		world.WL.Status.Replicas = R + u
		world.WL.Status.Ready, world.WL.Status.Available = R+r, R+r
		if kind == "cloneSet" {
			world.WL.Status.UpdatedReady = r
		}
	}
	if kind == "deployment" {
		o.UpdateRevision, o.StableRevision = "", ""
		if world.WL != nil && !world.WL.StableLabel && br.Status.StableRevision == bgStableHash {
			br.Status.StableRevision = ""
		}
	}
	kr := "cloneSet"
	if kind == "deployment" {
		kr = "deployment"
	}
	in := &exxIn{Kind: kr, Style: "BlueGreen", EnableExtra: c.Rng.Intn(4) == 0, BR: br}
	in.World = exxWorld{Shape: "bg", BG: &world, Obs: o}
	return in
}

const bgStableHash = "stable-hash"

func exxGenCanary(c *Ctx) *exxIn {
	R := exxSize(c)
	ccbr := ccGenBR(c, R)
	world := ccGenWorld(c, ccbr, R, c.Rng.Intn(3), c.Rng.Intn(5) != 0)
	// no nil replicas (the API server defaults them), no second stable owner shapes the model of one reconcile cannot see
	var stable *ccDep
	for i := range world {
		if world[i].Replicas == nil {
			r := R
			world[i].Replicas = &r
		}
		if world[i].Name == 0 {
			stable = &world[i]
		}
	}
	upd, stb := "", ""
	if stable != nil {
		upd = exxTplToken(stable.Template)
		// the revision Initialize recorded is the canary's template (it carries the patched metadata)
		for i := range world {
			if world[i].Name != 0 && world[i].Owner == "this" && !world[i].Deleting && c.Rng.Intn(2) == 0 {
				upd = exxTplToken(world[i].Template)
			}
		}
	}
	br := exxGenBR(c, R, upd, stb)
	br.FailureThreshold = ccbr.FailureThreshold
	if stable != nil {
		// a stable Deployment in the middle of a canary release: paused, none of its pods updated
		if c.Rng.Intn(4) != 0 {
			stable.UpdatedReplicas = 0
			if c.Rng.Intn(8) == 0 {
				stable.UpdatedReplicas = c.Rng.Intn(R + 1)
			}
		}
		// the canary Deployment's progress relative to the batch
		u, r := exxProgress(c, &br, R)
		br.Status.Updated, br.Status.UpdatedReady = u, r
		for i := range world {
			d := &world[i]
			if d.Name != 0 && c.Rng.Intn(2) == 0 {
				d.Replicas = &u
				d.StatusReplicas, d.UpdatedReplicas, d.AvailableReplicas = u, u, r
			}
		}
	}
	in := &exxIn{Kind: "deployment", Style: pickS(c, "Canary", "Canary", ""), BR: br}
	in.EnableExtra = in.Style == "" || c.Rng.Intn(3) == 0
	in.World = exxWorld{Shape: "canary", Deps: world, Exp: pickS(c, "none", "none", "none", "pending"), TimedOut: c.Rng.Intn(5) == 0,
		WaitResume: ccbr.WaitResume, Patch: ccbr.Patch}
	return in
}

func exxGenRS(c *Ctx) *exxIn {
	br := exxGenBR(c, 3, "v2", "v1")
	in := &exxIn{Kind: "replicaSet", Style: pickS(c, "", "Partition", "Canary", "BlueGreen"), BR: br}
	in.World = exxWorld{Shape: "rs", Exists: c.Rng.Intn(3) != 0}
	return in
}

func exxGenUnsupported(c *Ctx) *exxIn {
	br := exxGenBR(c, 3, "v2", "v1")
	in := &exxIn{Kind: "unsupported", Style: pickS(c, "", "Partition", "Canary", "BlueGreen", "Other"), EnableExtra: c.Rng.Intn(2) == 0, BR: br}
	in.World = exxWorld{Shape: "none"}
	return in
}

// exxGenForeign: a CloneSet / Deployment / DaemonSet under a style no arm of getReleaseController serves for it: refused like
// an unsupported workload (before the repair of finding stsPlaneForeignKind the StatefulSet-like control was built for it and panicked)
func exxGenForeign(c *Ctx) *exxIn {
	var in *exxIn
	switch c.Rng.Intn(3) {
	case 0:
		in = exxGenCS(c)
		in.Style = "Other"
	case 1:
		in = exxGenPDep(c)
		in.Style = "Other"
	default:
		for {
			in = exxGenSts(c)
			if in.Kind == "daemonSet" {
				break
			}
		}
		in.Style = pickS(c, "BlueGreen", "Other")
	}
	return in
}

func genExecutorXCase(c *Ctx) *exxIn {
	if c.Rng.Intn(60) == 0 {
		return exxGenForeign(c)
	}
	switch c.Rng.Intn(20) {
	case 0, 1, 2:
		return exxGenCS(c)
	case 3, 4, 5, 6:
		return exxGenPDep(c)
	case 7, 8, 9, 10:
		return exxGenSts(c)
	case 11, 12, 13, 14:
		return exxGenBG(c)
	case 15, 16, 17, 18:
		return exxGenCanary(c)
	}
	if c.Rng.Intn(2) == 0 {
		return exxGenRS(c)
	}
	return exxGenUnsupported(c)
}

// exxSuccessor: the case a following reconcile sees — the status and the world the implementation just left (nil: the
// BatchRelease is gone or the reconcile panicked).  For the canary family the Deployment controller may have caught up.
func exxSuccessor(c *Ctx, in *exxIn, impl interface{}) *exxIn {
	var o struct {
		Panic *string `json:"panic"`
		BR    *struct {
			HasFinalizer bool     `json:"hasFinalizer"`
			Status       exStatus `json:"status"`
		} `json:"br"`
		World exxWorld `json:"world"`
	}
	b, err := json.Marshal(impl)
	if err != nil || json.Unmarshal(b, &o) != nil || o.Panic != nil || o.BR == nil {
		return nil
	}
	n := *in
	n.K = 0
	n.BR.HasFinalizer, n.BR.Status = o.BR.HasFinalizer, o.BR.Status
	n.World = o.World
	if n.World.Shape == "canary" {
		// the order the API lists them in once the names are concretised again: "dNNNN" < "z" (a canary the reconcile just
		// created was listed after the stable Deployment under its generated name "z-NNNN")
		sort.SliceStable(n.World.Deps, func(i, j int) bool { return ccNameOf(n.World.Deps[i].Name) < ccNameOf(n.World.Deps[j].Name) })
	}
	if n.World.Shape == "canary" && c.Rng.Intn(2) == 0 {
		for i := range n.World.Deps {
			d := &n.World.Deps[i]
			if d.Name == 0 || d.Replicas == nil {
				continue
			}
			d.ObservedGeneration = d.Generation
			d.StatusReplicas, d.UpdatedReplicas, d.AvailableReplicas = *d.Replicas, *d.Replicas, *d.Replicas
		}
		if c.Rng.Intn(2) == 0 {
			n.World.Exp = "none" // the informer observed the creation
		}
	}
	return &n
}

func exxFaults(c *Ctx, in *exxIn, all bool) {
	var base faultRun
	if r := guard(func() interface{} { _, base = exxRunF(in, 0); return nil }); r != nil {
		return
	}
	ks := []int{}
	if base.Calls <= 4 || all {
		for k := 1; k <= base.Calls; k++ {
			ks = append(ks, k)
		}
	} else {
		ks = append(ks, 1+c.Rng.Intn(base.Calls), 1+c.Rng.Intn(base.Calls), base.Calls)
	}
	for _, k := range ks {
		f := *in
		f.K = k
		c.Begin("reconcile", &f)
		exxCase(c, &f)
	}
}

func runExecutorX(c *Ctx) {
	for i := 0; c.Count < c.N; i++ {
		in := genExecutorXCase(c)
		// a short walk: the reconcile, then the reconciles that follow from what it left
		for step := 0; in != nil && step < 4; step++ {
			c.Begin("reconcile", in)
			impl := guard(func() interface{} { o, _ := exxRunF(in, 0); return o })
			c.Emit("reconcile", in, impl)
			if in.K == 0 && in.Outage == "" && (in.World.Shape == "bg" || c.Rng.Intn(4) == 0) {
				// the same reconcile during a List outage (blue-green planes read their pods' readiness from Lists only)
				f := *in
				f.Outage = pickS(c, "list", "list ReplicaSetList", "list ReplicaSetList", "list PodList")
				// an outage lasts: the reconciles that follow run under it too
				for g, k := &f, 0; g != nil && k < 3; k++ {
					c.Begin("reconcile", g)
					fimpl := guard(func() interface{} { o, _ := exxRunF(g, g.K); return o })
					c.Emit("reconcile", g, fimpl)
					n := exxSuccessor(c, g, fimpl)
					if n != nil {
						n.Outage = f.Outage
					}
					g = n
				}
			}
			if (i+step)%6 == 0 {
				// the same reconcile with one API call failing: every index (thorough, sampled) or a few of them
				exxFaults(c, in, c.Thorough() && i%25 == 0)
			}
			if c.Rng.Intn(3) == 0 {
				break
			}
			in = exxSuccessor(c, in, impl)
		}
	}
	c.Done(0)
}

func replayExecutorX(c *Ctx, op string, raw json.RawMessage) {
	var in exxIn
	if err := json.Unmarshal(raw, &in); err != nil {
		panic(err)
	}
	exxCase(c, &in)
}

var _ = corev1.PodRunning
