package main

// Canary-style Deployment worlds of the rolloutsm suite (`v1beta1.IsRealPartition(rollout) == false`):
// workloadRef apps/v1 Deployment + canary.enableExtraWorkloadForCanary. The abstract WL is concretised as
// the Deployment "wl", its stable ReplicaSet and (optionally) the canary Deployment with its ReplicaSet, so
// that the real ControllerFinder.getDeployment reports exactly the generated WL.
//
// Revisions of a Deployment are hashes of pod templates: the templates v1/v2/v3 differ in the image, their
// hashes are computed with the repo's own util.ComputeHash, and the abstraction maps the hashes back to the
// names "v1"/"v2"/"v3" everywhere a revision is stored (rollout status, BatchRelease rollout-id, Service selectors).

import (
	"context"
	"encoding/json"
	"fmt"
	"strings"
	"sync"
	"time"

	kruisev1alpha1 "github.com/openkruise/kruise-api/apps/v1alpha1"
	"github.com/openkruise/rollouts/api/v1beta1"
	"github.com/openkruise/rollouts/pkg/util"
	appsv1 "k8s.io/api/apps/v1"
	corev1 "k8s.io/api/core/v1"
	metav1 "k8s.io/apimachinery/pkg/apis/meta/v1"
	"k8s.io/apimachinery/pkg/types"
	"sigs.k8s.io/controller-runtime/pkg/client"
)

const (
	rsdCanaryName = "wl-canary"
	rsdCanaryUID  = "wl-canary-uid"
)

var rsdRevNames = []string{"v1", "v2", "v3"}

// rsdCanaryStyle: the abstract rollout is a canary-style Deployment rollout
func rsdCanaryStyle(r rsRollout) bool { return r.Style != "blueGreen" && !r.RealPartition }

func rsdTemplate(rev string) corev1.PodTemplateSpec {
	return corev1.PodTemplateSpec{ObjectMeta: metav1.ObjectMeta{Labels: map[string]string{"app": "demo"}},
		Spec: corev1.PodSpec{Containers: []corev1.Container{{Name: "main", Image: "img:" + rev}}}}
}

var (
	rsdOnce   sync.Once
	rsdHashOf = map[string]string{} // "v1" -> hash
	rsdNameOf = map[string]string{} // hash -> "v1"
)

// the hash the finder computes for a Deployment carrying template `rev` (computed on the object as the
// client returns it, with the repo's own function)
func rsdInit() {
	rsdOnce.Do(func() {
		for _, rev := range rsdRevNames {
			d := &appsv1.Deployment{}
			d.Namespace, d.Name = trNS, "probe"
			d.Spec.Template = rsdTemplate(rev)
			cli := fakeClient(d)
			got := &appsv1.Deployment{}
			if err := cli.Get(context.TODO(), types.NamespacedName{Namespace: trNS, Name: "probe"}, got); err != nil {
				panic(err)
			}
			h := util.ComputeHash(&got.Spec.Template, nil)
			if _, dup := rsdNameOf[h]; dup {
				panic("rsd: pod template hash collision")
			}
			rsdHashOf[rev], rsdNameOf[h] = h, rev
		}
	})
}

// revision name -> hash ("rollback-v1" -> "rollback-<hash>"); anything else is left alone
func rsdToHash(s string) string {
	rsdInit()
	if strings.HasPrefix(s, "rollback-") {
		return "rollback-" + rsdToHash(strings.TrimPrefix(s, "rollback-"))
	}
	if h, ok := rsdHashOf[s]; ok {
		return h
	}
	return s
}

func rsdFromHash(s string) string {
	rsdInit()
	if strings.HasPrefix(s, "rollback-") {
		return "rollback-" + rsdFromHash(strings.TrimPrefix(s, "rollback-"))
	}
	if n, ok := rsdNameOf[s]; ok {
		return n
	}
	return s
}

func rsdMapP(p *string, f func(string) string) *string {
	if p == nil {
		return nil
	}
	v := f(*p)
	return &v
}

func rsdMapSub(s *rsSub, f func(string) string) *rsSub {
	if s == nil {
		return nil
	}
	c := *s
	c.CanaryRev, c.StableRev, c.PodHash, c.ObservedRolloutID = f(s.CanaryRev), f(s.StableRev), f(s.PodHash), f(s.ObservedRolloutID)
	return &c
}

func rsdMapBR(b *rsBR, f func(string) string) *rsBR {
	if b == nil {
		return nil
	}
	c := *b
	c.RolloutID = f(b.RolloutID)
	return &c
}

func rsdMapNet(n trNet, f func(string) string) trNet {
	n.StableSel, n.CanarySvc = rsdMapP(n.StableSel, f), rsdMapP(n.CanarySvc, f)
	return n
}

// rsdConcretise: in a canary-style world every stored revision name becomes the hash the finder reports
// (the WL itself stays abstract: rsdBuildDeployment maps it). Other worlds are returned unchanged.
func rsdConcretise(in rsWorld) rsWorld {
	if !rsdCanaryStyle(in.Ro) {
		return in
	}
	out := in
	out.Ro.Sub = rsdMapSub(in.Ro.Sub, rsdToHash)
	out.BR = rsdMapBR(in.BR, rsdToHash)
	out.Net = rsdMapNet(in.Net, rsdToHash)
	return out
}

// rsdAbstractWorld maps the hashes in the abstracted result world `w` (as built by rsRun) back to names.
func rsdAbstractWorld(in rsRollout, w J) {
	if !rsdCanaryStyle(in) {
		return
	}
	if ro, ok := w["ro"].(rsRollout); ok {
		ro.Sub = rsdMapSub(ro.Sub, rsdFromHash)
		w["ro"] = ro
	}
	if br, ok := w["br"].(*rsBR); ok {
		w["br"] = rsdMapBR(br, rsdFromHash)
	}
	if n, ok := w["net"].(trNet); ok {
		w["net"] = rsdMapNet(n, rsdFromHash)
	}
}

// rsdBuildDeployment: Deployment "wl", its stable ReplicaSet, and the canary Deployment / ReplicaSet that make
// ControllerFinder.getDeployment report `w`.
//
//	canaryRev       = ComputeHash(wl.spec.template)
//	stableRev       = pod-template-hash label of the oldest ReplicaSet owned by wl
//	inRollback      = in-progress annotation && stable ReplicaSet's template equals wl's template  (determined)
//	podTemplateHash = "" unless in progress and not in rollback and a canary Deployment with a ReplicaSet exists:
//	                  then that ReplicaSet's pod-template-hash label
func rsdBuildDeployment(w *rsWL, bareCanary bool) []client.Object {
	rsdInit()
	old := metav1.NewTime(time.Now().Add(-time.Hour))
	d := &appsv1.Deployment{}
	d.Namespace, d.Name, d.UID = trNS, "wl", "wl-uid"
	d.CreationTimestamp = old
	d.Generation = int64(w.Generation)
	d.Status.ObservedGeneration = int64(w.Generation)
	if !w.Consistent {
		d.Status.ObservedGeneration = int64(w.Generation) - 1
	}
	R := int32(w.Replicas)
	d.Spec.Replicas = &R
	d.Spec.Paused = true
	d.Spec.Selector = &metav1.LabelSelector{MatchLabels: map[string]string{"app": "demo"}}
	d.Spec.Template = rsdTemplate(w.CanaryRev)
	d.Annotations = map[string]string{util.WorkloadTypeLabel: string(util.DeploymentType)}
	if w.InProgressAnno {
		d.Annotations[util.InRolloutProgressingAnnotation] = `{"rolloutName":"r"}`
	}
	d.Status.Replicas, d.Status.UpdatedReplicas = R, 0
	objs := []client.Object{d, rsdReplicaSet("wl-stable", "wl-stable-uid", d, w.StableRev, R, old)}
	if w.PodTemplateHash != "" || (bareCanary && w.InProgressAnno) {
		cd := &appsv1.Deployment{}
		cd.Namespace, cd.Name, cd.UID = trNS, rsdCanaryName, rsdCanaryUID
		cd.CreationTimestamp = metav1.NewTime(time.Now().Add(-time.Minute))
		cd.Labels = map[string]string{util.CanaryDeploymentLabel: "wl"}
		cd.Generation, cd.Status.ObservedGeneration = 1, 1
		one := int32(1)
		cd.Spec.Replicas = &one
		cd.Spec.Selector = d.Spec.Selector.DeepCopy()
		cd.Spec.Template = rsdTemplate(w.PodTemplateHash)
		cd.OwnerReferences = []metav1.OwnerReference{*metav1.NewControllerRef(d, appsv1.SchemeGroupVersion.WithKind("Deployment"))}
		objs = append(objs, cd)
		if w.PodTemplateHash != "" {
			objs = append(objs, rsdReplicaSet("wl-canary-rs", "wl-canary-rs-uid", cd, w.PodTemplateHash, 1, cd.CreationTimestamp))
		}
	}
	return objs
}

func rsdReplicaSet(name string, uid types.UID, owner *appsv1.Deployment, rev string, replicas int32, created metav1.Time) *appsv1.ReplicaSet {
	rs := &appsv1.ReplicaSet{}
	rs.Namespace, rs.Name, rs.UID = trNS, name, uid
	rs.CreationTimestamp = created
	rs.Generation, rs.Status.ObservedGeneration = 1, 1
	h := rsdToHash(rev)
	rs.Labels = map[string]string{"app": "demo", appsv1.DefaultDeploymentUniqueLabelKey: h}
	rs.OwnerReferences = []metav1.OwnerReference{*metav1.NewControllerRef(owner, appsv1.SchemeGroupVersion.WithKind("Deployment"))}
	rs.Spec.Replicas = &replicas
	rs.Spec.Selector = &metav1.LabelSelector{MatchLabels: map[string]string{"app": "demo", appsv1.DefaultDeploymentUniqueLabelKey: h}}
	rs.Spec.Template = rsdTemplate(rev)
	rs.Spec.Template.Labels[appsv1.DefaultDeploymentUniqueLabelKey] = h
	rs.Status.Replicas = replicas
	return rs
}

// rsdBuildWorkload: the objects of the abstract workload, by kind of rollout
func rsdBuildWorkload(in rsWorld) []client.Object {
	r, w := in.Ro, in.WL
	if rsdCanaryStyle(r) {
		return rsdBuildDeployment(w, in.BareCanary)
	}
	return []client.Object{rsBuildCloneSet(w)}
}

// rsdWorkloadAnno: does the workload object still exist, and does it carry the in-progress annotation?
func rsdWorkloadAnno(cli client.Client, r rsRollout) (anno bool, found bool) {
	key := types.NamespacedName{Namespace: trNS, Name: "wl"}
	if rsdCanaryStyle(r) {
		d := &appsv1.Deployment{}
		if e := cli.Get(context.TODO(), key, d); e != nil {
			return false, false
		}
		_, anno = d.Annotations[util.InRolloutProgressingAnnotation]
		return anno, true
	}
	cs := &kruisev1alpha1.CloneSet{}
	if e := cli.Get(context.TODO(), key, cs); e != nil {
		return false, false
	}
	_, anno = cs.Annotations[util.InRolloutProgressingAnnotation]
	return anno, true
}

// rsdFinderCheck runs the real ControllerFinder on the concretised world and compares what it reports with the
// abstract WL the world was generated from; "" = they agree. A disagreement is put into the case's output, where
// it shows up as a model/implementation difference (the model never emits that key).
func rsdFinderCheck(cli client.Client, ro *v1beta1.Rollout, r rsRollout, w *rsWL) string {
	got, err := util.NewControllerFinder(cli).GetWorkloadForRef(ro)
	if err != nil {
		return "finder error: " + err.Error()
	}
	if w == nil {
		if got != nil {
			return "finder found a workload where none was generated"
		}
		return ""
	}
	if got == nil {
		return "finder found no workload"
	}
	if got.IsStatusConsistent != w.Consistent {
		return fmt.Sprintf("consistent: finder %v, generated %v", got.IsStatusConsistent, w.Consistent)
	}
	if !w.Consistent {
		return "" // the finder reports an empty Workload
	}
	back := func(s string) string { return s }
	if rsdCanaryStyle(r) {
		back = rsdFromHash
	}
	have := rsWL{Consistent: true, InProgressAnno: got.InRolloutProgressing, CanaryRev: back(got.CanaryRevision), StableRev: back(got.StableRevision),
		InRollback: got.IsInRollback, Replicas: int(got.Replicas), Generation: int(got.Generation), PodTemplateHash: back(got.PodTemplateHash)}
	want := *w
	if have != want {
		a, _ := json.Marshal(have)
		b, _ := json.Marshal(want)
		return "finder " + string(a) + " generated " + string(b)
	}
	if got.RevisionLabelKey != trRevKey {
		return "revision label key " + got.RevisionLabelKey
	}
	return ""
}

// ---- generator ----

// rsdGenCanaryStyle turns a generated canary (partition-style CloneSet) world into a canary-style Deployment
// world: same rollout, status, BatchRelease and network; the workload becomes what getDeployment can report.
func rsdGenCanaryStyle(c *Ctx, w *rsWorld) {
	w.Ro.RealPartition = false
	if wl := w.WL; wl != nil {
		// determined by the Deployment and its stable ReplicaSet
		wl.InRollback = wl.InProgressAnno && wl.CanaryRev == wl.StableRev
		wl.PodTemplateHash = ""
		if wl.InProgressAnno && !wl.InRollback {
			switch c.Rng.Intn(8) {
			case 0: // no canary Deployment yet
			case 1: // canary Deployment without a ReplicaSet yet
				w.BareCanary = true
			case 2: // the canary Deployment of an earlier revision is still around
				wl.PodTemplateHash = pickS(c, "v1", "v2", "v3")
			default:
				wl.PodTemplateHash = wl.CanaryRev
			}
		}
	}
	if c.Rng.Intn(3) == 0 {
		rsdFocusFirstStep(c, w)
	}
}

// rsdFocusFirstStep — focused stream: a rolling rollout at StepInit / StepUpgrade of a step with traffic whose
// replicas cover the whole workload ("100%", or an integer >= replicas): the shape on which the two uses of
// IsRealPartition in runCanary differ. Applied to canary-style worlds and (less often) to partition-style ones.
func rsdFocusFirstStep(c *Ctx, w *rsWorld) {
	if w.WL == nil || len(w.Ro.Steps) == 0 {
		return
	}
	ro, wl := &w.Ro, w.WL
	ro.HasTraffic, ro.Paused, ro.Disabled, ro.Deleting = true, false, false, false
	ro.Phase, ro.Reason, ro.Term = "Progressing", "inRolling", "none"
	if c.Rng.Intn(4) == 0 {
		ro.Grace = 0
	}
	idx := 1
	if c.Rng.Intn(4) == 0 {
		idx = 1 + c.Rng.Intn(len(ro.Steps))
	}
	st := &ro.Steps[idx-1]
	switch c.Rng.Intn(7) {
	case 0:
		st.Replicas = J{"i": wl.Replicas}
	case 1:
		st.Replicas = J{"i": wl.Replicas + 1 + c.Rng.Intn(3)}
	case 2: // a percentage that rounds up to the whole workload, or not
		st.Replicas = J{"p": 10 + c.Rng.Intn(90)}
	case 3: // less than the whole workload
		st.Replicas = J{"i": 1 + c.Rng.Intn(wl.Replicas)}
	default:
		st.Replicas = J{"p": 100}
	}
	for i := idx; i < len(ro.Steps); i++ { // keep the plan monotone
		ro.Steps[i].Replicas = st.Replicas
	}
	wt := []int{5, 20, 50, 100}[c.Rng.Intn(4)]
	st.Weight = &wt
	wl.Consistent, wl.InProgressAnno, wl.CanaryRev, wl.StableRev, wl.InRollback = true, true, "v2", "v1", false
	if ro.RealPartition {
		wl.PodTemplateHash = wl.CanaryRev
	} else if c.Rng.Intn(4) != 0 {
		wl.PodTemplateHash = wl.CanaryRev
	} else {
		wl.PodTemplateHash = ""
		w.BareCanary = c.Rng.Intn(2) == 0
	}
	s := &rsSub{CanaryRev: "v2", StableRev: "v1", PodHash: pickS(c, "v2", "v2", ""), Hash: "same", ObservedRolloutID: "v2", ObservedGen: wl.Generation,
		LastUpdate: pickS(c, "elapsed", "elapsed", "fresh"), FinStep: "empty", CurIdx: idx}
	s.NextIdx = idx + 1
	if idx >= len(ro.Steps) {
		s.NextIdx = -1
	}
	s.State = pickS(c, "init", "init", "init", "upgrade", "upgrade")
	ro.Sub = s
	// the BatchRelease: absent, or exactly as the controller wrote it for this step, mostly reporting the batch ready
	if c.Rng.Intn(5) == 0 {
		w.BR = nil
	} else {
		p := idx - 1
		b := &rsBR{RolloutID: "v2", SpecOther: true, Partition: &p, HashSame: true, GenObserved: true, BatchReady: c.Rng.Intn(5) != 0, CurrentBatch: p}
		if c.Rng.Intn(8) == 0 && p > 0 {
			b.CurrentBatch = p - 1
		}
		for _, x := range ro.Steps {
			b.Batches = append(b.Batches, x.Replicas)
		}
		w.BR = b
	}
	// the network: the stable Service exists, pinned or not; grace expectations mostly settled
	w.Net.StableExists, w.Net.StableIngress = true, true
	switch c.Rng.Intn(3) {
	case 0:
		w.Net.StableSel = nil
	case 1:
		r := "v1"
		w.Net.StableSel = &r
	}
	if c.Rng.Intn(2) == 0 {
		w.Mem.PatchService = pickS(c, "none", "elapsed")
		w.Mem.RestoreService = pickS(c, "none", "elapsed")
	}
}
