package main

import (
	"context"
	"encoding/json"
	"fmt"

	kruisev1alpha1 "github.com/openkruise/kruise-api/apps/v1alpha1"
	kruisev1beta1 "github.com/openkruise/kruise-api/apps/v1beta1"
	"github.com/openkruise/rollouts/api/v1alpha1"
	"github.com/openkruise/rollouts/api/v1beta1"
	batchcontext "github.com/openkruise/rollouts/pkg/controller/batchrelease/context"
	bgcloneset "github.com/openkruise/rollouts/pkg/controller/batchrelease/control/bluegreenstyle/cloneset"
	bgdeployment "github.com/openkruise/rollouts/pkg/controller/batchrelease/control/bluegreenstyle/deployment"
	canarydeployment "github.com/openkruise/rollouts/pkg/controller/batchrelease/control/canarystyle/deployment"
	pcloneset "github.com/openkruise/rollouts/pkg/controller/batchrelease/control/partitionstyle/cloneset"
	pdaemonset "github.com/openkruise/rollouts/pkg/controller/batchrelease/control/partitionstyle/daemonset"
	pdeployment "github.com/openkruise/rollouts/pkg/controller/batchrelease/control/partitionstyle/deployment"
	pstatefulset "github.com/openkruise/rollouts/pkg/controller/batchrelease/control/partitionstyle/statefulset"
	"github.com/openkruise/rollouts/pkg/util"
	apps "k8s.io/api/apps/v1"
	corev1 "k8s.io/api/core/v1"
	metav1 "k8s.io/apimachinery/pkg/apis/meta/v1"
	"k8s.io/apimachinery/pkg/types"
	"k8s.io/apimachinery/pkg/util/intstr"
)

func init() { register("batchctx", runBatchCtx, replayBatchCtx) }

type bcObs struct {
	Kind             string              `json:"kind"`
	Replicas         int                 `json:"replicas"`
	Entry            *intstr.IntOrString `json:"-"`
	NoNeedUpdate     *int                `json:"noNeedUpdate"`
	KnobCur          *intstr.IntOrString `json:"-"` // nil = absent on the object
	Updated          int                 `json:"updated"`
	UpdatedReady     int                 `json:"updatedReady"`
	FailureThreshold *intstr.IntOrString `json:"-"`
}

func (o bcObs) toJ() J {
	return J{"kind": o.Kind, "replicas": o.Replicas, "entry": iosPtr(o.Entry), "noNeedUpdate": o.NoNeedUpdate,
		"knobCur": iosPtr(o.KnobCur), "updated": o.Updated, "updatedReady": o.UpdatedReady,
		"failureThreshold": iosPtr(o.FailureThreshold)}
}

var bcKinds = []string{"cloneSet", "stsOrdered", "stsUnordered", "daemonSet", "depPartition", "depCanary", "depBlueGreen", "csBlueGreen"}

var selLabels = map[string]string{"app": "demo"}

func podTemplate() corev1.PodTemplateSpec {
	return corev1.PodTemplateSpec{ObjectMeta: metav1.ObjectMeta{Labels: selLabels},
		Spec: corev1.PodSpec{Containers: []corev1.Container{{Name: "main", Image: "img:v2"}}}}
}

func bcRelease(o bcObs) *v1beta1.BatchRelease {
	r := &v1beta1.BatchRelease{}
	r.Namespace, r.Name, r.UID = "ns", "br", types.UID("br-uid")
	r.Spec.ReleasePlan.FailureThreshold = o.FailureThreshold
	if o.Entry != nil {
		r.Spec.ReleasePlan.Batches = []v1beta1.ReleaseBatch{{CanaryReplicas: *o.Entry}}
	}
	r.Status.CanaryStatus.CurrentBatch = 0
	if o.NoNeedUpdate != nil {
		r.Status.CanaryStatus.NoNeedUpdateReplicas = i32p(int32(*o.NoNeedUpdate))
	}
	r.Status.UpdateRevision = "rev2"
	return r
}

func ctxJ(bc *batchcontext.BatchContext, kind string, o bcObs) J {
	cur, des := bc.CurrentPartition, bc.DesiredPartition
	if kind == "depBlueGreen" || kind == "csBlueGreen" {
		cur, des = bc.CurrentSurge, bc.DesiredSurge
	}
	if kind == "depCanary" {
		des = intstr.FromInt(int(bc.DesiredUpdatedReplicas))
	}
	if kind == "depCanary" || kind == "depPartition" {
		// the real context does not carry the current knob for these kinds; echo the observation
		cur = intstr.FromInt(0)
		if o.KnobCur != nil {
			cur = *o.KnobCur
		}
	}
	return J{"replicas": int(bc.Replicas), "updated": int(bc.UpdatedReplicas), "updatedReady": int(bc.UpdatedReadyReplicas),
		"planned": int(bc.PlannedUpdatedReplicas), "desired": int(bc.DesiredUpdatedReplicas),
		"knobCur": iosOut(cur), "knobDes": iosOut(des), "failureThreshold": iosOutPtr(bc.FailureThreshold)}
}

func ctrlAnno() map[string]string {
	return map[string]string{util.BatchReleaseControlAnnotation: `{"uid":"br-uid"}`}
}

// bcRun builds the real objects for the observation, runs the real
// CalculateBatchContext and UpgradeBatch and reads the knob back.
func bcRun(o bcObs) interface{} {
	release := bcRelease(o)
	key := types.NamespacedName{Namespace: "ns", Name: "wl"}
	meta := metav1.ObjectMeta{Namespace: "ns", Name: "wl", UID: "wl-uid", Annotations: ctrlAnno(), Generation: 1}
	sel := &metav1.LabelSelector{MatchLabels: selLabels}
	R := int32(o.Replicas)
	type iface interface {
		CalculateBatchContext(*v1beta1.BatchRelease) (*batchcontext.BatchContext, error)
	}
	var calc iface
	var upgrade func(*batchcontext.BatchContext) error
	var readKnob func() interface{}
	var cli *LogClient
	ctx := context.TODO()
	switch o.Kind {
	case "cloneSet", "csBlueGreen":
		cs := &kruisev1alpha1.CloneSet{ObjectMeta: meta}
		cs.Spec.Replicas, cs.Spec.Selector, cs.Spec.Template = &R, sel, podTemplate()
		cs.Status.UpdatedReplicas, cs.Status.UpdatedReadyReplicas = int32(o.Updated), int32(o.UpdatedReady)
		cs.Status.UpdateRevision = "rev2"
		if o.Kind == "cloneSet" {
			cs.Spec.UpdateStrategy.Partition = o.KnobCur
		} else {
			cs.Spec.UpdateStrategy.MaxSurge = o.KnobCur
			cs.Spec.UpdateStrategy.Type = kruisev1alpha1.RecreateCloneSetUpdateStrategyType
			cs.Spec.MinReadySeconds = v1beta1.MaxReadySeconds
			cs.Spec.UpdateStrategy.Partition = &intstr.IntOrString{Type: intstr.String, StrVal: "100%"}
		}
		cli = NewLogClient(fakeClient(cs))
		if o.Kind == "cloneSet" {
			c, err := pcloneset.NewController(cli, key, cs.GroupVersionKind()).BuildController()
			if err != nil {
				return J{"err": err.Error()}
			}
			calc, upgrade = c, c.UpgradeBatch
		} else {
			c, err := bgcloneset.NewController(cli, key, cs.GroupVersionKind()).BuildController()
			if err != nil {
				return J{"err": err.Error()}
			}
			calc, upgrade = c, c.UpgradeBatch
		}
		readKnob = func() interface{} {
			got := &kruisev1alpha1.CloneSet{}
			if err := cli.Get(ctx, key, got); err != nil {
				return "get-err"
			}
			if o.Kind == "cloneSet" {
				return iosOutPtr(got.Spec.UpdateStrategy.Partition)
			}
			return iosOutPtr(got.Spec.UpdateStrategy.MaxSurge)
		}
	case "stsOrdered", "stsUnordered":
		s := &kruisev1beta1.StatefulSet{ObjectMeta: meta}
		s.Spec.Replicas, s.Spec.Selector, s.Spec.Template = &R, sel, podTemplate()
		s.Status.UpdatedReplicas, s.Status.UpdateRevision = int32(o.Updated), "rev2"
		s.Spec.UpdateStrategy.RollingUpdate = &kruisev1beta1.RollingUpdateStatefulSetStrategy{}
		if o.KnobCur != nil {
			s.Spec.UpdateStrategy.RollingUpdate.Partition = i32p(o.KnobCur.IntVal)
		}
		if o.Kind == "stsUnordered" {
			s.Spec.UpdateStrategy.RollingUpdate.UnorderedUpdate = &kruisev1beta1.UnorderedUpdateStrategy{}
		}
		cli = NewLogClient(fakeClient(s))
		gvk := kruisev1beta1.SchemeGroupVersion.WithKind("StatefulSet")
		c, err := pstatefulset.NewController(cli, key, gvk).BuildController()
		if err != nil {
			return J{"err": err.Error()}
		}
		calc, upgrade = c, c.UpgradeBatch
		readKnob = func() interface{} {
			got := &kruisev1beta1.StatefulSet{}
			if err := cli.Get(ctx, key, got); err != nil {
				return "get-err"
			}
			if got.Spec.UpdateStrategy.RollingUpdate == nil || got.Spec.UpdateStrategy.RollingUpdate.Partition == nil {
				return nil
			}
			return J{"i": int(*got.Spec.UpdateStrategy.RollingUpdate.Partition)}
		}
	case "daemonSet":
		d := &kruisev1alpha1.DaemonSet{ObjectMeta: meta}
		d.Spec.Selector, d.Spec.Template = sel, podTemplate()
		d.Status.DesiredNumberScheduled, d.Status.UpdatedNumberScheduled, d.Status.DaemonSetHash = R, int32(o.Updated), "rev2"
		d.Spec.UpdateStrategy.RollingUpdate = &kruisev1alpha1.RollingUpdateDaemonSet{}
		if o.KnobCur != nil {
			d.Spec.UpdateStrategy.RollingUpdate.Partition = i32p(o.KnobCur.IntVal)
		}
		cli = NewLogClient(fakeClient(d))
		c, err := pdaemonset.NewController(cli, key, d.GroupVersionKind()).BuildController()
		if err != nil {
			return J{"err": err.Error()}
		}
		calc, upgrade = c, c.UpgradeBatch
		readKnob = func() interface{} {
			got := &kruisev1alpha1.DaemonSet{}
			if err := cli.Get(ctx, key, got); err != nil {
				return "get-err"
			}
			if got.Spec.UpdateStrategy.RollingUpdate == nil || got.Spec.UpdateStrategy.RollingUpdate.Partition == nil {
				return nil
			}
			return J{"i": int(*got.Spec.UpdateStrategy.RollingUpdate.Partition)}
		}
	case "depPartition", "depBlueGreen":
		d := &apps.Deployment{ObjectMeta: meta}
		d.Spec.Replicas, d.Spec.Selector, d.Spec.Template = &R, sel, podTemplate()
		d.Status.UpdatedReplicas = int32(o.Updated)
		if o.Kind == "depPartition" {
			d.Spec.Paused = true
			d.Spec.Strategy.Type = apps.RecreateDeploymentStrategyType
			st := v1alpha1.DeploymentStrategy{RollingStyle: v1alpha1.PartitionRollingStyle}
			if o.KnobCur != nil {
				st.Partition = *o.KnobCur
			}
			d.Annotations[v1alpha1.DeploymentStrategyAnnotation] = util.DumpJSON(&st)
			d.Annotations[v1alpha1.DeploymentExtraStatusAnnotation] = fmt.Sprintf(`{"updatedReadyReplicas":%d}`, o.UpdatedReady)
			cli = NewLogClient(fakeClient(d))
			c, err := pdeployment.NewController(cli, key, d.GroupVersionKind()).BuildController()
			if err != nil {
				return J{"err": err.Error()}
			}
			calc, upgrade = c, c.UpgradeBatch
			readKnob = func() interface{} {
				got := &apps.Deployment{}
				if err := cli.Get(ctx, key, got); err != nil {
					return "get-err"
				}
				s := util.GetDeploymentStrategy(got)
				return iosOut(s.Partition)
			}
		} else {
			d.Spec.Strategy.Type = apps.RollingUpdateDeploymentStrategyType
			d.Spec.Strategy.RollingUpdate = &apps.RollingUpdateDeployment{MaxSurge: o.KnobCur, MaxUnavailable: &intstr.IntOrString{}}
			d.Spec.MinReadySeconds = v1beta1.MaxReadySeconds
			pd := int32(v1beta1.MaxProgressSeconds)
			d.Spec.ProgressDeadlineSeconds = &pd
			cli = NewLogClient(fakeClient(d))
			c, err := bgdeployment.NewController(cli, key, d.GroupVersionKind()).BuildController()
			if err != nil {
				return J{"err": err.Error()}
			}
			calc, upgrade = c, c.UpgradeBatch
			readKnob = func() interface{} {
				got := &apps.Deployment{}
				if err := cli.Get(ctx, key, got); err != nil {
					return "get-err"
				}
				if got.Spec.Strategy.RollingUpdate == nil {
					return nil
				}
				return iosOutPtr(got.Spec.Strategy.RollingUpdate.MaxSurge)
			}
		}
	case "depCanary":
		d := &apps.Deployment{ObjectMeta: meta}
		d.Spec.Replicas, d.Spec.Selector, d.Spec.Template = &R, sel, podTemplate()
		d.Spec.Paused = true
		cd := &apps.Deployment{ObjectMeta: metav1.ObjectMeta{Namespace: "ns", Name: "wl-canary", UID: "c-uid", Generation: 1,
			Labels:          map[string]string{util.CanaryDeploymentLabel: "wl"},
			Finalizers:      []string{util.CanaryDeploymentFinalizer},
			OwnerReferences: []metav1.OwnerReference{*metav1.NewControllerRef(release, v1beta1.SchemeGroupVersion.WithKind("BatchRelease"))}}}
		cr := int32(0)
		if o.KnobCur != nil {
			cr = o.KnobCur.IntVal
		}
		cd.Spec.Replicas, cd.Spec.Selector, cd.Spec.Template = &cr, sel, podTemplate()
		cd.Status.Replicas, cd.Status.AvailableReplicas, cd.Status.ObservedGeneration = int32(o.Updated), int32(o.UpdatedReady), 1
		cli = NewLogClient(fakeClient(d, cd))
		c := canarydeployment.NewController(cli, key)
		if _, err := c.BuildStableController(); err != nil {
			return J{"err": err.Error()}
		}
		cc, err := c.BuildCanaryController(release)
		if err != nil {
			return J{"err": err.Error()}
		}
		calc, upgrade = c, cc.UpgradeBatch
		readKnob = func() interface{} {
			got := &apps.Deployment{}
			if err := cli.Get(ctx, types.NamespacedName{Namespace: "ns", Name: "wl-canary"}, got); err != nil {
				return "get-err"
			}
			return J{"i": int(*got.Spec.Replicas)}
		}
	default:
		panic("bad kind " + o.Kind)
	}
	bc, err := calc.CalculateBatchContext(release)
	if err != nil {
		return J{"err": err.Error()}
	}
	res := J{"ctx": ctxJ(bc, o.Kind, o)}
	if err := upgrade(bc); err != nil {
		res["upgrade"] = "err"
		return res
	}
	if cli.Writes() == 0 {
		res["write"] = nil
	} else {
		res["write"] = readKnob()
	}
	return res
}

func canonJ(v interface{}) string { b, _ := json.Marshal(v); return string(b) }

func bcCase(c *Ctx, o bcObs) {
	impl := guard(func() interface{} { return bcRun(o) })
	c.Emit("calcUpgrade", o.toJ(), impl)
}

func bcReady(c *Ctx, bc *batchcontext.BatchContext, labelled *int) {
	// labelled: build pods so that batchLabelSatisfied sees exactly `labelled` live pods with the rollout id
	in := J{"ctx": J{"replicas": int(bc.Replicas), "updated": int(bc.UpdatedReplicas), "updatedReady": int(bc.UpdatedReadyReplicas),
		"planned": int(bc.PlannedUpdatedReplicas), "desired": int(bc.DesiredUpdatedReplicas), "knobCur": J{"i": 0}, "knobDes": J{"i": 0},
		"failureThreshold": iosPtr(bc.FailureThreshold)}, "labelled": labelled}
	if labelled != nil {
		bc.RolloutID = "rid"
		for i := 0; i < *labelled; i++ {
			bc.Pods = append(bc.Pods, &corev1.Pod{ObjectMeta: metav1.ObjectMeta{Name: fmt.Sprint("p", i), Labels: map[string]string{v1beta1.RolloutIDLabel: "rid"}}})
		}
		// one foreign and one terminating pod never count
		now := metav1.Now()
		bc.Pods = append(bc.Pods, &corev1.Pod{ObjectMeta: metav1.ObjectMeta{Name: "foreign", Labels: map[string]string{v1beta1.RolloutIDLabel: "other"}}})
		bc.Pods = append(bc.Pods, &corev1.Pod{ObjectMeta: metav1.ObjectMeta{Name: "dying", DeletionTimestamp: &now, Labels: map[string]string{v1beta1.RolloutIDLabel: "rid"}}})
	}
	impl := guard(func() interface{} {
		if err := bc.IsBatchReady(); err != nil {
			return "notReady"
		}
		return "ok"
	})
	c.Emit("isReady", in, impl)
}

func genEntry(c *Ctx, R int) *intstr.IntOrString {
	var v intstr.IntOrString
	switch c.Rng.Intn(10) {
	case 0, 1, 2, 3:
		v = pct(c.Rng.Intn(101))
	case 4:
		v = pct([]int{0, 1, 99, 100, 101, 150}[c.Rng.Intn(6)])
	case 5, 6, 7:
		v = intstr.FromInt(c.Rng.Intn(R + 2))
	case 8:
		v = intstr.FromInt([]int{0, 1, R - 1, R, R + 1, 2 * R}[c.Rng.Intn(6)])
	default:
		v = intstr.FromString([]string{"abc", "", "10"}[c.Rng.Intn(3)])
	}
	return &v
}

func genObs(c *Ctx, kind string, R int) bcObs {
	o := bcObs{Kind: kind, Replicas: R, Entry: genEntry(c, R)}
	if c.Rng.Intn(60) == 0 {
		o.Entry = nil // currentBatch out of range
	}
	o.Updated = c.Rng.Intn(R + 2)
	o.UpdatedReady = c.Rng.Intn(o.Updated + 1)
	if kind == "stsOrdered" || kind == "stsUnordered" || kind == "daemonSet" {
		o.UpdatedReady = 0 // counted from pods, none exist in this suite
	}
	if kind == "depBlueGreen" {
		o.UpdatedReady = 0 // read from the new ReplicaSet, none exists in this suite
	}
	if c.Rng.Intn(4) == 0 {
		t := randIOS(c, R)
		o.FailureThreshold = &t
	}
	partitionKind := kind == "cloneSet" || kind == "stsOrdered" || kind == "stsUnordered" || kind == "daemonSet"
	if partitionKind && c.Rng.Intn(3) == 0 {
		n := c.Rng.Intn(R + 1)
		if c.Rng.Intn(4) == 0 {
			n = 0
		}
		o.NoNeedUpdate = &n
	}
	// current knob
	if c.Rng.Intn(6) != 0 {
		var k intstr.IntOrString
		switch kind {
		case "cloneSet":
			if c.Rng.Intn(2) == 0 {
				k = pct(c.Rng.Intn(101))
			} else {
				k = intstr.FromInt(c.Rng.Intn(R + 2))
			}
		case "stsOrdered", "stsUnordered", "daemonSet":
			k = intstr.FromInt(c.Rng.Intn(R + 2))
			if c.Rng.Intn(8) == 0 {
				k = intstr.FromInt(32767)
			}
		case "depPartition", "depBlueGreen", "csBlueGreen":
			if c.Rng.Intn(2) == 0 {
				k = pct(c.Rng.Intn(101))
			} else {
				k = intstr.FromInt(c.Rng.Intn(R + 2))
			}
		case "depCanary":
			k = intstr.FromInt(c.Rng.Intn(R + 2))
		}
		o.KnobCur = &k
	}
	return o
}

func runBatchCtx(c *Ctx) {
	n := c.N
	for i := 0; i < n; i++ {
		kind := bcKinds[i%len(bcKinds)]
		R := c.Rng.Intn(30)
		switch c.Rng.Intn(6) {
		case 0:
			R = c.Rng.Intn(300)
		case 1:
			R = 100 + c.Rng.Intn(3)
		}
		o := genObs(c, kind, R)
		if i%40 == 0 {
			// directed: large workloads with a tiny stable remainder (percent rounding corner)
			o = genObs(c, "cloneSet", 101+c.Rng.Intn(300))
			e := pct(99 - c.Rng.Intn(2))
			o.Entry, o.NoNeedUpdate = &e, nil
		}
		bcCase(c, o)
	}
	for i := 0; i < n; i++ {
		R := c.Rng.Intn(40)
		bc := &batchcontext.BatchContext{Replicas: int32(R)}
		bc.DesiredUpdatedReplicas = int32(c.Rng.Intn(R + 1))
		bc.PlannedUpdatedReplicas = int32(c.Rng.Intn(R + 1))
		bc.UpdatedReplicas = int32(c.Rng.Intn(R + 2))
		if c.Rng.Intn(2) == 0 {
			bc.UpdatedReplicas = bc.DesiredUpdatedReplicas + int32(c.Rng.Intn(3))
		}
		bc.UpdatedReadyReplicas = int32(c.Rng.Intn(int(bc.UpdatedReplicas) + 1))
		if c.Rng.Intn(2) == 0 {
			bc.UpdatedReadyReplicas = bc.UpdatedReplicas
		}
		if c.Rng.Intn(3) == 0 {
			t := randIOS(c, R)
			bc.FailureThreshold = &t
		}
		var lab *int
		if c.Rng.Intn(2) == 0 {
			l := c.Rng.Intn(R + 2)
			if c.Rng.Intn(2) == 0 {
				l = int(bc.PlannedUpdatedReplicas) + c.Rng.Intn(3) - 1
				if l < 0 {
					l = 0
				}
			}
			lab = &l
		}
		bcReady(c, bc, lab)
	}
}

func replayBatchCtx(c *Ctx, op string, raw json.RawMessage) {
	var in map[string]interface{}
	json.Unmarshal(raw, &in)
	gp := func(m map[string]interface{}, k string) *intstr.IntOrString {
		if m[k] == nil {
			return nil
		}
		v := fromIOS(m[k].(map[string]interface{}))
		return &v
	}
	switch op {
	case "calcUpgrade":
		o := bcObs{Kind: in["kind"].(string), Replicas: int(in["replicas"].(float64)), Entry: gp(in, "entry"), KnobCur: gp(in, "knobCur"),
			Updated: int(in["updated"].(float64)), UpdatedReady: int(in["updatedReady"].(float64)), FailureThreshold: gp(in, "failureThreshold")}
		if in["noNeedUpdate"] != nil {
			n := int(in["noNeedUpdate"].(float64))
			o.NoNeedUpdate = &n
		}
		bcCase(c, o)
	case "isReady":
		m := in["ctx"].(map[string]interface{})
		bc := &batchcontext.BatchContext{Replicas: int32(m["replicas"].(float64)), UpdatedReplicas: int32(m["updated"].(float64)),
			UpdatedReadyReplicas: int32(m["updatedReady"].(float64)), PlannedUpdatedReplicas: int32(m["planned"].(float64)),
			DesiredUpdatedReplicas: int32(m["desired"].(float64)), FailureThreshold: gp(m, "failureThreshold")}
		var lab *int
		if in["labelled"] != nil {
			l := int(in["labelled"].(float64))
			lab = &l
		}
		bcReady(c, bc, lab)
	}
}
