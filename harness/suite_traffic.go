package main

import (
	"context"
	"encoding/json"
	"strconv"
	"time"

	"github.com/openkruise/rollouts/api/v1beta1"
	"github.com/openkruise/rollouts/pkg/trafficrouting"
	"github.com/openkruise/rollouts/pkg/util/grace"
	corev1 "k8s.io/api/core/v1"
	netv1 "k8s.io/api/networking/v1"
	metav1 "k8s.io/apimachinery/pkg/apis/meta/v1"
	"k8s.io/apimachinery/pkg/types"
	"k8s.io/apimachinery/pkg/util/intstr"
	"sigs.k8s.io/controller-runtime/pkg/client"
)

func init() { register("traffic", runTraffic, replayTraffic) }

// ---- abstract state (mirrors RV.Traffic) ----

type trNet struct {
	StableExists  bool    `json:"stableExists"`
	StableSel     *string `json:"stableSel"`
	CanarySvc     *string `json:"canarySvc"`
	StableIngress bool    `json:"stableIngress"`
	CanaryIng     *int    `json:"canaryIng"`
}

type trMem struct {
	PatchService        string `json:"patchService"` // none|fresh|elapsed
	RestoreService      string `json:"restoreService"`
	RestoreGateway      string `json:"restoreGateway"`
	RemoveCanaryService string `json:"removeCanaryService"`
	UpdateRoute         string `json:"updateRoute"`
}

type trCtx struct {
	HasRef     bool   `json:"hasRef"`
	Grace      int    `json:"grace"`
	Weight     *int   `json:"weight"`
	DisableGen bool   `json:"disableGen"`
	StableRev  string `json:"stableRev"`
	CanaryRev  string `json:"canaryRev"`
	LastUpdate string `json:"lastUpdate"` // none|fresh|elapsed
	HasRevKey  *bool  `json:"hasRevKey,omitempty"` // nil = true; false = RevisionLabelKey empty (workload unreadable)
}

type trIn struct {
	Call string `json:"call"`
	Ctx  trCtx  `json:"ctx"`
	Net  trNet  `json:"net"`
	Mem  trMem  `json:"mem"`
}

const (
	trNS        = "ns"
	trSvc       = "svc"
	trIng       = "ing"
	trRevKey    = "pod-template-hash"
	trOwnerUID  = "rollout-uid"
	trSvcUID    = "svc-uid"
	trLongGrace = 1000 // seconds: "fresh" never elapses during a case
)

func trStableService(sel *string) *corev1.Service {
	s := &corev1.Service{ObjectMeta: metav1.ObjectMeta{Namespace: trNS, Name: trSvc, UID: trSvcUID}}
	s.Spec.Selector = map[string]string{"app": "demo"}
	if sel != nil {
		s.Spec.Selector[trRevKey] = *sel
	}
	s.Spec.Ports = []corev1.ServicePort{{Port: 80, TargetPort: intstr.FromInt(8080)}}
	return s
}

func trStableIngress() *netv1.Ingress {
	pt := netv1.PathTypePrefix
	class := "nginx"
	return &netv1.Ingress{ObjectMeta: metav1.ObjectMeta{Namespace: trNS, Name: trIng,
		Annotations: map[string]string{"kubernetes.io/ingress.class": "nginx"}},
		Spec: netv1.IngressSpec{IngressClassName: &class, Rules: []netv1.IngressRule{{Host: "a.example.com",
			IngressRuleValue: netv1.IngressRuleValue{HTTP: &netv1.HTTPIngressRuleValue{Paths: []netv1.HTTPIngressPath{{Path: "/", PathType: &pt,
				Backend: netv1.IngressBackend{Service: &netv1.IngressServiceBackend{Name: trSvc, Port: netv1.ServiceBackendPort{Number: 80}}}}}}}}}}}
}

func trContext(c trCtx) *trafficrouting.TrafficRoutingContext {
	t := &trafficrouting.TrafficRoutingContext{Key: "Rollout(ns/r)", Namespace: trNS, RevisionLabelKey: trRevKey,
		StableRevision: c.StableRev, CanaryRevision: c.CanaryRev, DisableGenerateCanaryService: c.DisableGen,
		OwnerRef: metav1.OwnerReference{APIVersion: "rollouts.kruise.io/v1beta1", Kind: "Rollout", Name: "r", UID: trOwnerUID}}
	if c.HasRevKey != nil && !*c.HasRevKey {
		t.RevisionLabelKey = ""
	}
	if c.HasRef {
		t.ObjectRef = []v1beta1.TrafficRoutingRef{{Service: trSvc, GracePeriodSeconds: int32(c.Grace),
			Ingress: &v1beta1.IngressTrafficRouting{Name: trIng, ClassType: "nginx"}}}
	}
	if c.Weight != nil {
		w := strconv.Itoa(*c.Weight) + "%"
		t.Strategy.Traffic = &w
	}
	switch c.LastUpdate {
	case "fresh":
		t.LastUpdateTime = &metav1.Time{Time: time.Now()}
	case "elapsed":
		t.LastUpdateTime = &metav1.Time{Time: time.Now().Add(-3 * trLongGrace * time.Second)}
	}
	return t
}

func trSetMem(m trMem, canaryKey string) {
	grace.ResetExpectations()
	set := func(key, action, st string) {
		switch st {
		case "fresh":
			grace.VerifSetExpectation(key, action, 0)
		case "elapsed":
			grace.VerifSetExpectation(key, action, 3*trLongGrace*time.Second)
		}
	}
	set(trSvcUID, "patchService", m.PatchService)
	set(trSvcUID, "restoreService", m.RestoreService)
	set(trOwnerUID, "restoreGateway", m.RestoreGateway)
	set(canaryKey, "removeCanaryService", m.RemoveCanaryService)
	set(trOwnerUID, "updateRoute", m.UpdateRoute)
}

func trGetMem(canaryKey string) trMem {
	get := func(key, action string) string {
		ok, age := grace.VerifGetExpectation(key, action)
		if !ok {
			return "none"
		}
		if age > trLongGrace*time.Second {
			// an elapsed expectation and no expectation are observationally the same (RV.Props.Traffic.runGrace_elapsed_none),
			// and the package's background cleaner turns the one into the other at any time: report both as "none"
			return "none"
		}
		return "fresh"
	}
	return trMem{get(trSvcUID, "patchService"), get(trSvcUID, "restoreService"), get(trOwnerUID, "restoreGateway"), get(canaryKey, "removeCanaryService"), get(trOwnerUID, "updateRoute")}
}

// trBuild concretises the abstract net into a fake client. The canary Ingress
// for weight w is produced by the real provider (so that its annotations are
// exactly what the class script writes).
func trBuild(n trNet) *LogClient { return trBuildWith(n) }

func trBuildWith(n trNet, extra ...client.Object) *LogClient {
	objs := append([]client.Object{}, extra...)
	if n.StableExists {
		objs = append(objs, trStableService(n.StableSel))
	}
	if n.CanarySvc != nil {
		cs := trStableService(nil)
		cs.Name, cs.UID = trSvc+"-canary", "canary-uid"
		cs.Spec.Selector[trRevKey] = *n.CanarySvc
		objs = append(objs, cs)
	}
	if n.StableIngress || n.CanaryIng != nil {
		objs = append(objs, trStableIngress())
	}
	cli := NewLogClient(fakeClient(objs...))
	if n.CanaryIng != nil {
		// needs the stable Service for the manager; use a scratch manager on the same store
		if !n.StableExists {
			_ = cli.Client.Create(context.TODO(), trStableService(nil))
		}
		w := *n.CanaryIng
		tc := trContext(trCtx{HasRef: true, Grace: 0, Weight: &w, DisableGen: true, LastUpdate: "none"})
		m := trafficrouting.NewTrafficRoutingManager(cli.Client)
		// weight 0 on an absent canary ingress is "verified" without creating it: create through weight 1 first
		one := 1
		tc1 := trContext(trCtx{HasRef: true, Grace: 0, Weight: &one, DisableGen: true, LastUpdate: "none"})
		for i := 0; i < 2; i++ {
			_, _ = m.DoTrafficRouting(tc1)
		}
		for i := 0; i < 3; i++ {
			_, _ = m.DoTrafficRouting(tc)
		}
		if !n.StableExists {
			_ = cli.Client.Delete(context.TODO(), trStableService(nil))
		}
		if !n.StableIngress {
			_ = cli.Client.Delete(context.TODO(), trStableIngress())
		}
	}
	cli.Log = nil
	return cli
}

func trAbstract(cli client.Client) trNet {
	n := trNet{}
	ctx := context.TODO()
	s := &corev1.Service{}
	if err := cli.Get(ctx, types.NamespacedName{Namespace: trNS, Name: trSvc}, s); err == nil {
		n.StableExists = true
		if v, ok := s.Spec.Selector[trRevKey]; ok && v != "" {
			n.StableSel = &v
		}
	}
	cs := &corev1.Service{}
	if err := cli.Get(ctx, types.NamespacedName{Namespace: trNS, Name: trSvc + "-canary"}, cs); err == nil {
		v := cs.Spec.Selector[trRevKey]
		n.CanarySvc = &v
	}
	ing := &netv1.Ingress{}
	if err := cli.Get(ctx, types.NamespacedName{Namespace: trNS, Name: trIng}, ing); err == nil {
		n.StableIngress = true
	}
	ci := &netv1.Ingress{}
	if err := cli.Get(ctx, types.NamespacedName{Namespace: trNS, Name: trIng + "-canary"}, ci); err == nil {
		w := -1
		if v, ok := ci.Annotations["nginx.ingress.kubernetes.io/canary-weight"]; ok {
			w, _ = strconv.Atoi(v)
		}
		n.CanaryIng = &w
	}
	return n
}

func trRun(in trIn) interface{} {
	out, _ := trRunF(in, 0)
	return out
}

func trRunF(in trIn, failN int) (interface{}, faultRun) {
	cli := trBuild(in.Net)
	cli.Log = nil
	canaryKey := trNS + "/" + trSvc + "-canary"
	trSetMem(in.Mem, canaryKey)
	m := trafficrouting.NewTrafficRoutingManager(cli)
	tc := trContext(in.Ctx)
	before := tc.LastUpdateTime
	var b bool
	var err error
	cli.Calls, cli.FailCallN, cli.FaultHit = 0, failN, ""
	switch in.Call {
	case "patchStableService":
		b, err = m.PatchStableService(tc)
	case "restoreStableService":
		b, err = m.RestoreStableService(tc)
	case "restoreGateway":
		b, err = m.RestoreGateway(tc)
	case "removeCanaryService":
		b, err = m.RemoveCanaryService(tc)
	case "finalisingTrafficRouting":
		b, err = m.FinalisingTrafficRouting(tc)
	case "doTrafficRouting":
		b, err = m.DoTrafficRouting(tc)
	case "routeAllToNew":
		b, err = m.RouteAllTrafficToNewVersion(tc)
	default:
		panic("bad call " + in.Call)
	}
	cli.FailCallN = 0
	// for the calls with "done" semantics a false result asks for another round just like an error does
	fr := faultRun{Err: err != nil, Requeue: b, Calls: cli.Calls, Hit: cli.FaultHit, Writes: writesOf(cli)}
	touched := tc.LastUpdateTime != before && (before == nil || !tc.LastUpdateTime.Equal(before))
	writes := []string{}
	for _, r := range cli.Log {
		if r.Err {
			continue
		}
		name := r.Verb + " " + r.Kind + " " + r.Key
		switch name {
		case "patch Service ns/svc":
			// pin or unpin: decided by the selector afterwards at that moment is not recorded; use the call semantics
			name = "patchStable?"
		case "create Service ns/svc-canary":
			name = "createCanarySvc"
		case "patch Service ns/svc-canary":
			name = "patchCanarySvc"
		case "delete Service ns/svc-canary":
			name = "deleteCanarySvc"
		case "create Ingress ns/ing-canary":
			name = "createCanaryIngress"
		case "patch Ingress ns/ing-canary":
			name = "patchCanaryIngress"
		case "delete Ingress ns/ing-canary":
			name = "deleteCanaryIngress"
		}
		writes = append(writes, name)
	}
	// a patch of the stable Service pins it in patchStableService/doTrafficRouting and unpins it elsewhere
	for i, w := range writes {
		if w == "patchStable?" {
			if in.Call == "patchStableService" || in.Call == "doTrafficRouting" || in.Call == "routeAllToNew" {
				writes[i] = "patchStable"
			} else {
				writes[i] = "unpinStable"
			}
		}
	}
	// "recheck": the call asked the reconciler to come back after a POSITIVE duration (c.RecheckDuration); a retry
	// without it is a wake-up that never comes (controller-runtime drops a RequeueAfter that is not positive)
	out := J{"done": b, "err": err != nil, "net": trAbstract(cli), "mem": trGetMem(canaryKey), "touched": touched, "writes": writes,
		"recheck": tc.RecheckDuration > 0}
	grace.ResetExpectations()
	return out, fr
}

func trCase(c *Ctx, in trIn) {
	impl := guard(func() interface{} { return trRun(in) })
	c.Emit("call", in, impl)
}

var trCalls = []string{"patchStableService", "restoreStableService", "restoreGateway", "removeCanaryService", "finalisingTrafficRouting", "doTrafficRouting", "routeAllToNew"}
var trExp = []string{"none", "none", "fresh", "elapsed"}

func genTraffic(c *Ctx) trIn {
	in := trIn{Call: trCalls[c.Rng.Intn(len(trCalls))]}
	if c.Rng.Intn(3) == 0 {
		in.Call = "doTrafficRouting"
	}
	revs := []string{"v1", "v2", "v3"}
	in.Ctx = trCtx{HasRef: c.Rng.Intn(12) != 0, Grace: []int{trLongGrace, trLongGrace, 0}[c.Rng.Intn(3)], DisableGen: c.Rng.Intn(6) == 0,
		StableRev: "v1", CanaryRev: "v2", LastUpdate: []string{"none", "elapsed", "elapsed", "fresh"}[c.Rng.Intn(4)]}
	if c.Rng.Intn(15) == 0 {
		in.Ctx.StableRev = ""
	}
	if c.Rng.Intn(15) == 0 {
		in.Ctx.CanaryRev = ""
	}
	if c.Rng.Intn(5) != 0 {
		w := []int{0, 5, 20, 50, 100}[c.Rng.Intn(5)]
		in.Ctx.Weight = &w
	}
	if (in.Call == "restoreStableService" || in.Call == "finalisingTrafficRouting") && c.Rng.Intn(6) == 0 {
		f := false
		in.Ctx.HasRevKey = &f
	}
	n := trNet{StableExists: c.Rng.Intn(12) != 0, StableIngress: c.Rng.Intn(12) != 0}
	if c.Rng.Intn(2) == 0 {
		r := revs[c.Rng.Intn(2)]
		n.StableSel = &r
	}
	if c.Rng.Intn(2) == 0 {
		r := revs[1+c.Rng.Intn(2)]
		n.CanarySvc = &r
	}
	if c.Rng.Intn(2) == 0 {
		w := []int{0, 5, 20, 50, 100}[c.Rng.Intn(5)]
		n.CanaryIng = &w
	}
	if !n.StableExists {
		n.StableSel = nil
	}
	in.Net = n
	in.Mem = trMem{trExp[c.Rng.Intn(4)], trExp[c.Rng.Intn(4)], trExp[c.Rng.Intn(4)], trExp[c.Rng.Intn(4)], trExp[c.Rng.Intn(4)]}
	return in
}

func runTraffic(c *Ctx) {
	for i := 0; i < c.N; i++ {
		in := genTraffic(c)
		trCase(c, in)
		if i%6 == 0 {
			faultSweep(c, in, c.Thorough() && i%30 == 0, func(n int) faultRun { _, r := trRunF(in, n); return r })
		}
	}
}

func replayTraffic(c *Ctx, op string, raw json.RawMessage) {
	if op == "fault" {
		var f struct {
			In trIn `json:"in"`
			K  int  `json:"k"`
		}
		if err := json.Unmarshal(raw, &f); err != nil {
			panic(err)
		}
		faultReplay(c, f.In, f.K, func(n int) faultRun { _, r := trRunF(f.In, n); return r })
		return
	}
	var in trIn
	if err := json.Unmarshal(raw, &in); err != nil {
		panic(err)
	}
	trCase(c, in)
}
