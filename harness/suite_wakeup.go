package main

// wakeup — "it never waits on a wake-up that will not come" (C07.ii).
//
// Part 1 (ops ro / br / tr): the REAL watch registrations of the three controllers are rebuilt by running
// SetupWithManager / Add against a recording manager; generated Create/Update/Delete events are pushed through the
// registered predicates and handlers into a real workqueue, the drained keys are compared with RV.Wakeup.roEnqueue /
// brEnqueue.
//
// Part 2 (ops ro-step / br-step): one real reconcile from a generated world (the worlds of suites rolloutsm / executor);
// the objects before and after are diffed into the events an API server would send, the events go through the real
// handlers, and the waiting-class oracle is evaluated on the implementation's result: not woken => waiting class.
//
// Part 3 (ops quiescent / evrun): the closed loop of suite `cluster` driven by events: a reconciler runs only when its
// own requeue / error or an event mapped to it by the real handlers woke it.

import (
	"context"
	"encoding/json"
	"fmt"
	"reflect"
	"sort"

	"github.com/go-logr/logr"
	kruisev1alpha1 "github.com/openkruise/kruise-api/apps/v1alpha1"
	kruisev1beta1 "github.com/openkruise/kruise-api/apps/v1beta1"
	"github.com/openkruise/rollouts/api/v1alpha1"
	"github.com/openkruise/rollouts/api/v1beta1"
	"github.com/openkruise/rollouts/pkg/controller/batchrelease"
	rolloutctl "github.com/openkruise/rollouts/pkg/controller/rollout"
	trctl "github.com/openkruise/rollouts/pkg/controller/trafficrouting"
	"github.com/openkruise/rollouts/pkg/util"
	"github.com/openkruise/rollouts/pkg/util/grace"
	appsv1 "k8s.io/api/apps/v1"
	corev1 "k8s.io/api/core/v1"
	apierrors "k8s.io/apimachinery/pkg/api/errors"
	"k8s.io/apimachinery/pkg/api/meta"
	metav1 "k8s.io/apimachinery/pkg/apis/meta/v1"
	"k8s.io/apimachinery/pkg/apis/meta/v1/unstructured"
	"k8s.io/apimachinery/pkg/runtime"
	"k8s.io/apimachinery/pkg/runtime/schema"
	"k8s.io/apimachinery/pkg/types"
	"k8s.io/client-go/tools/record"
	"k8s.io/client-go/util/workqueue"
	ctrl "sigs.k8s.io/controller-runtime"
	"sigs.k8s.io/controller-runtime/pkg/cache"
	"sigs.k8s.io/controller-runtime/pkg/client"
	cfgv1alpha1 "sigs.k8s.io/controller-runtime/pkg/config/v1alpha1"
	"sigs.k8s.io/controller-runtime/pkg/event"
	"sigs.k8s.io/controller-runtime/pkg/handler"
	"sigs.k8s.io/controller-runtime/pkg/manager"
	"sigs.k8s.io/controller-runtime/pkg/predicate"
	"sigs.k8s.io/controller-runtime/pkg/reconcile"
	"sigs.k8s.io/controller-runtime/pkg/source"
)

func init() { register("wakeup", runWakeup, replayWakeup) }

// ---- abstract inputs (mirror RV.Wakeup) ----

type wkRef struct {
	APIVersion string `json:"apiVersion"`
	Kind       string `json:"kind"`
	Name       string `json:"name"`
}

type wkObj struct {
	NS   string `json:"ns"`
	Name string `json:"name"`
	Ref  wkRef  `json:"ref"`
}

type wkGVK struct {
	Group   string `json:"group"`
	Version string `json:"version"`
	Kind    string `json:"kind"`
}

type wkControl struct {
	C          string `json:"c"` // absent|empty|badSyntax|partialRef|ref
	APIVersion string `json:"apiVersion"`
	Kind       string `json:"kind"`
	Name       string `json:"name"`
}

type wkStatus struct {
	Replicas           int    `json:"replicas"`
	Ready              int    `json:"ready"`
	Available          int    `json:"available"`
	Updated            int    `json:"updated"`
	UpdatedReady       int    `json:"updatedReady"`
	ObservedGeneration int    `json:"observedGeneration"`
	UpdateRevision     string `json:"updateRevision"`
	StableRevision     string `json:"stableRevision"`
	// harness only (unstructured workloads): "update" | "stable" | "both" — status.updateRevision / currentRevision carry a
	// value of another JSON type (NonStringKind 0 number, 1 bool, 2 object).  ParseWorkloadStatus reads such a field as
	// absent, so the abstract revision above is "" (wkNormStatus).
	NonString     string `json:"nonString,omitempty"`
	NonStringKind int    `json:"nonStringKind,omitempty"`
}

func wkNonStringValue(kind int) interface{} {
	switch kind % 3 {
	case 0:
		return int64(7)
	case 1:
		return true
	}
	return map[string]interface{}{"x": "y"}
}

// wkNormStatus: the abstract view of a status with non-string revision fields
func wkNormStatus(st *wkStatus) {
	if st.NonString == "update" || st.NonString == "both" {
		st.UpdateRevision = ""
	}
	if st.NonString == "stable" || st.NonString == "both" {
		st.StableRevision = ""
	}
}

type wkWl struct {
	Ty         string    `json:"ty"` // CloneSet|DaemonSet|Deployment|StatefulSet|AdvStatefulSet|ReplicaSet|Unstructured
	GVK        *wkGVK    `json:"gvk"`
	NS         string    `json:"ns"`
	Name       string    `json:"name"`
	RV         string    `json:"rv"`
	Generation int       `json:"generation"`
	Status     wkStatus  `json:"status"`
	Control    wkControl `json:"control"`
}

type wkStore struct {
	GVK        wkGVK     `json:"gvk"`
	NS         string    `json:"ns"`
	Name       string    `json:"name"`
	Owner      *wkRef    `json:"owner"`
	InProgress bool      `json:"inProgress"`
	Control    wkControl `json:"control"`
}

type wkPod struct {
	NS         string `json:"ns"`
	Name       string `json:"name"`
	RV         string `json:"rv"`
	DepHash    string `json:"depHash"`
	RevHash    string `json:"revHash"`
	Ready      string `json:"ready"` // noCond|true|false
	Owner      *wkRef `json:"owner"`
	InProgress bool   `json:"inProgress"`
}

type wkBrMeta struct {
	NS         string      `json:"ns"`
	Name       string      `json:"name"`
	Generation int         `json:"generation"`
	Deleting   bool        `json:"deleting"`
	Annos      [][2]string `json:"annos"` // nil = nil map
}

type wkMeta struct {
	NS   string `json:"ns"`
	Name string `json:"name"`
}

// one event: exactly one of the object families is set (old only for updates)
type wkEvent struct {
	T      string    `json:"t"` // create|update|delete
	K      string    `json:"k"` // rollout|br|wl|pod|tr
	Ro     *wkMeta   `json:"ro,omitempty"`
	BrOld  *wkBrMeta `json:"brOld,omitempty"`
	Br     *wkBrMeta `json:"br,omitempty"`
	WlOld  *wkWl     `json:"wlOld,omitempty"`
	Wl     *wkWl     `json:"wl,omitempty"`
	PodOld *wkPod    `json:"podOld,omitempty"`
	Pod    *wkPod    `json:"pod,omitempty"`
}

type wkIn struct {
	Rollouts []wkObj   `json:"rollouts"`
	BRs      []wkObj   `json:"brs"`
	Store    []wkStore `json:"store"`
	ListErr  bool      `json:"listErr"`
	GetErr   bool      `json:"getErr"`
	Ev       wkEvent   `json:"ev"`
}

// ---- a deterministic client.Reader standing in for the informer cache ----

type wkReader struct {
	rollouts []wkObj
	brs      []wkObj
	store    []wkStore
	listErr  bool
	getErr   bool
}

func wkGVKOf(obj runtime.Object) (schema.GroupVersionKind, bool) {
	if u, ok := obj.(*unstructured.Unstructured); ok {
		return u.GroupVersionKind(), true
	}
	gvks, _, err := theScheme.ObjectKinds(obj)
	if err != nil || len(gvks) == 0 {
		return schema.GroupVersionKind{}, false
	}
	return gvks[0], true
}

func (r *wkReader) Get(ctx context.Context, key client.ObjectKey, obj client.Object, opts ...client.GetOption) error {
	if r.getErr {
		return fmt.Errorf("injected get error")
	}
	gvk, ok := wkGVKOf(obj)
	if !ok {
		return fmt.Errorf("unknown type %T", obj)
	}
	for _, s := range r.store {
		if s.GVK.Group == gvk.Group && s.GVK.Version == gvk.Version && s.GVK.Kind == gvk.Kind && s.NS == key.Namespace && s.Name == key.Name {
			built := wkBuildStore(s)
			if u, isU := obj.(*unstructured.Unstructured); isU {
				bu, ok2 := built.(*unstructured.Unstructured)
				if !ok2 {
					m, err := runtime.DefaultUnstructuredConverter.ToUnstructured(built)
					if err != nil {
						return err
					}
					bu = &unstructured.Unstructured{Object: m}
					bu.SetGroupVersionKind(gvk)
				}
				u.Object = bu.Object
				return nil
			}
			if reflect.TypeOf(built) != reflect.TypeOf(obj) {
				return fmt.Errorf("type mismatch %T vs %T", built, obj)
			}
			reflect.ValueOf(obj).Elem().Set(reflect.ValueOf(built).Elem())
			return nil
		}
	}
	return apierrors.NewNotFound(schema.GroupResource{Group: gvk.Group, Resource: gvk.Kind}, key.Name)
}

func (r *wkReader) List(ctx context.Context, list client.ObjectList, opts ...client.ListOption) error {
	if r.listErr {
		return fmt.Errorf("injected list error")
	}
	lo := &client.ListOptions{}
	lo.ApplyOptions(opts)
	switch l := list.(type) {
	case *v1beta1.RolloutList:
		for _, o := range r.rollouts {
			if lo.Namespace == "" || lo.Namespace == o.NS {
				l.Items = append(l.Items, *wkBuildRollout(o))
			}
		}
	case *v1beta1.BatchReleaseList:
		for _, o := range r.brs {
			if lo.Namespace == "" || lo.Namespace == o.NS {
				l.Items = append(l.Items, *wkBuildBR(o))
			}
		}
	default:
		return fmt.Errorf("wkReader: list of %T", list)
	}
	return nil
}

// ---- recording manager: captures what the controllers register ----

type wkWatch struct {
	Type       client.Object
	Handler    handler.EventHandler
	Predicates []predicate.Predicate
}

type wkCache struct {
	cache.Cache
	r client.Reader
}

func (c *wkCache) Get(ctx context.Context, key client.ObjectKey, obj client.Object, opts ...client.GetOption) error {
	return c.r.Get(ctx, key, obj, opts...)
}
func (c *wkCache) List(ctx context.Context, list client.ObjectList, opts ...client.ListOption) error {
	return c.r.List(ctx, list, opts...)
}

type wkMgr struct {
	manager.Manager
	cache   *wkCache
	cli     client.Client
	watches []wkWatch
}

func (m *wkMgr) SetFields(i interface{}) error {
	switch x := i.(type) {
	case *source.Kind:
		m.watches = append(m.watches, wkWatch{Type: x.Type})
	case handler.EventHandler:
		if n := len(m.watches); n > 0 && m.watches[n-1].Handler == nil {
			m.watches[n-1].Handler = x
		}
	case predicate.Predicate:
		if n := len(m.watches); n > 0 {
			m.watches[n-1].Predicates = append(m.watches[n-1].Predicates, x)
		}
	}
	return nil
}
func (m *wkMgr) GetLogger() logr.Logger                          { return logr.Discard() }
func (m *wkMgr) Add(manager.Runnable) error                      { return nil }
func (m *wkMgr) GetCache() cache.Cache                           { return m.cache }
func (m *wkMgr) GetClient() client.Client                        { return m.cli }
func (m *wkMgr) GetAPIReader() client.Reader                     { return m.cli }
func (m *wkMgr) GetScheme() *runtime.Scheme                      { return theScheme }
func (m *wkMgr) GetRESTMapper() meta.RESTMapper                  { return nil }
func (m *wkMgr) GetEventRecorderFor(string) record.EventRecorder { return &record.FakeRecorder{} }
func (m *wkMgr) GetControllerOptions() cfgv1alpha1.ControllerConfigurationSpec {
	return cfgv1alpha1.ControllerConfigurationSpec{}
}

type wkRegistry struct {
	cache *wkCache
	ro    []wkWatch
	br    []wkWatch
	tr    []wkWatch
	q     workqueue.RateLimitingInterface
	err   string
}

var wkReg *wkRegistry

// the GVKs of the unstructured workloads the generator uses (watched dynamically, as Reconcile does for an unknown kind)
var wkDynamicGVKs = []schema.GroupVersionKind{
	{Group: "example.io", Version: "v1", Kind: "Foo"},
	{Group: "apps", Version: "v1beta2", Kind: "Deployment"},
}

// wkRegistryGet runs the real registrations once per process.
func wkRegistryGet() *wkRegistry {
	if wkReg != nil {
		return wkReg
	}
	reg := &wkRegistry{cache: &wkCache{r: &wkReader{}}}
	cli := fakeClient()
	fail := func(what string, err error) {
		if err != nil && reg.err == "" {
			reg.err = what + ": " + err.Error()
		}
	}
	// Rollout controller
	{
		m := &wkMgr{cache: reg.cache, cli: cli}
		oc, oh := rolloutctl.VerifSetRuntimeController(nil, nil)
		r := &rolloutctl.RolloutReconciler{Client: cli, Scheme: theScheme, Recorder: &record.FakeRecorder{}}
		fail("rollout SetupWithManager", r.SetupWithManager(m))
		c, h := rolloutctl.VerifSetRuntimeController(oc, oh)
		if c != nil && h != nil {
			for _, gvk := range wkDynamicGVKs {
				_, err := util.AddWatcherDynamically(c, h, gvk)
				fail("rollout AddWatcherDynamically", err)
			}
		}
		reg.ro = m.watches
	}
	// BatchRelease controller
	{
		m := &wkMgr{cache: reg.cache, cli: cli}
		oc, oh := batchrelease.VerifSetRuntimeController(nil, nil)
		fail("batchrelease Add", batchrelease.Add(m))
		c, h := batchrelease.VerifSetRuntimeController(oc, oh)
		if c != nil && h != nil {
			for _, gvk := range wkDynamicGVKs {
				_, err := util.AddWatcherDynamically(c, h, gvk)
				fail("batchrelease AddWatcherDynamically", err)
			}
		}
		reg.br = m.watches
	}
	// TrafficRouting controller
	{
		m := &wkMgr{cache: reg.cache, cli: cli}
		r := &trctl.TrafficRoutingReconciler{Client: cli, Scheme: theScheme, Recorder: &record.FakeRecorder{}}
		fail("trafficrouting SetupWithManager", r.SetupWithManager(m))
		reg.tr = m.watches
	}
	reg.q = workqueue.NewRateLimitingQueue(workqueue.DefaultControllerRateLimiter())
	wkReg = reg
	return reg
}

// wkSameType: would the informer of watch type `t` deliver object `o`
func wkSameType(t client.Object, o client.Object) bool {
	if reflect.TypeOf(t) != reflect.TypeOf(o) {
		return false
	}
	if tu, ok := t.(*unstructured.Unstructured); ok {
		return tu.GroupVersionKind() == o.(*unstructured.Unstructured).GroupVersionKind()
	}
	return true
}

// wkDeliver does what controller-runtime's internal EventHandler does for one informer notification:
// every watch of the object's type applies its predicates, then calls its handler with the queue.
func wkDeliver(ws []wkWatch, t string, oldO, newO client.Object, q workqueue.RateLimitingInterface) {
	for _, w := range ws {
		if w.Handler == nil || !wkSameType(w.Type, newO) {
			continue
		}
		pass := true
		switch t {
		case "create":
			e := event.CreateEvent{Object: newO}
			for _, p := range w.Predicates {
				if !p.Create(e) {
					pass = false
				}
			}
			if pass {
				w.Handler.Create(e, q)
			}
		case "update":
			e := event.UpdateEvent{ObjectOld: oldO, ObjectNew: newO}
			for _, p := range w.Predicates {
				if !p.Update(e) {
					pass = false
				}
			}
			if pass {
				w.Handler.Update(e, q)
			}
		case "delete":
			e := event.DeleteEvent{Object: newO}
			for _, p := range w.Predicates {
				if !p.Delete(e) {
					pass = false
				}
			}
			if pass {
				w.Handler.Delete(e, q)
			}
		}
	}
}

func wkDrain(q workqueue.RateLimitingInterface) []string {
	keys := []string{}
	for q.Len() > 0 {
		item, shutdown := q.Get()
		if shutdown {
			break
		}
		q.Done(item)
		q.Forget(item)
		if req, ok := item.(reconcile.Request); ok {
			keys = append(keys, req.Namespace+"/"+req.Name)
		} else {
			keys = append(keys, fmt.Sprintf("?%v", item))
		}
	}
	sort.Strings(keys)
	return keys
}

// ---- concretisation ----

func wkBuildRollout(o wkObj) *v1beta1.Rollout {
	r := &v1beta1.Rollout{}
	r.Namespace, r.Name = o.NS, o.Name
	r.Spec.WorkloadRef = v1beta1.ObjectRef{APIVersion: o.Ref.APIVersion, Kind: o.Ref.Kind, Name: o.Ref.Name}
	return r
}

func wkBuildBR(o wkObj) *v1beta1.BatchRelease {
	r := &v1beta1.BatchRelease{}
	r.Namespace, r.Name = o.NS, o.Name
	r.Spec.WorkloadRef = v1beta1.ObjectRef{APIVersion: o.Ref.APIVersion, Kind: o.Ref.Kind, Name: o.Ref.Name}
	return r
}

func wkBuildBrMeta(b *wkBrMeta) *v1beta1.BatchRelease {
	r := &v1beta1.BatchRelease{}
	r.Namespace, r.Name, r.Generation = b.NS, b.Name, int64(b.Generation)
	if b.Deleting {
		now := metav1.Now()
		r.DeletionTimestamp = &now
	}
	if b.Annos != nil {
		r.Annotations = map[string]string{}
		for _, kv := range b.Annos {
			r.Annotations[kv[0]] = kv[1]
		}
	}
	return r
}

func wkControlText(c wkControl) (string, bool) {
	switch c.C {
	case "empty":
		return "", true
	case "badSyntax":
		return "{not json", true
	case "partialRef":
		b, _ := json.Marshal(J{"apiVersion": c.APIVersion, "kind": c.Kind, "name": 7})
		return string(b), true
	case "ref":
		b, _ := json.Marshal(metav1.OwnerReference{APIVersion: c.APIVersion, Kind: c.Kind, Name: c.Name, UID: "u"})
		return string(b), true
	}
	return "", false
}

func wkAnnos(c wkControl, inProgress bool) map[string]string {
	m := map[string]string{}
	if txt, ok := wkControlText(c); ok {
		m[util.BatchReleaseControlAnnotation] = txt
	}
	if inProgress {
		m[util.InRolloutProgressingAnnotation] = `{"rolloutName":"x"}`
	}
	if len(m) == 0 {
		return nil
	}
	return m
}

func wkOwnerRefs(o *wkRef) []metav1.OwnerReference {
	if o == nil {
		return nil
	}
	t := true
	return []metav1.OwnerReference{{APIVersion: o.APIVersion, Kind: o.Kind, Name: o.Name, UID: "owner-uid", Controller: &t}}
}

func wkTemplate(tag string) corev1.PodTemplateSpec {
	t := podTemplate()
	if t.Labels == nil {
		t.Labels = map[string]string{}
	} else {
		l := map[string]string{}
		for k, v := range t.Labels {
			l[k] = v
		}
		t.Labels = l
	}
	t.Labels["verif-rev"] = tag
	return t
}

func wkTyOfGVK(g wkGVK) string {
	switch g {
	case wkGVK{"apps.kruise.io", "v1alpha1", "CloneSet"}:
		return "CloneSet"
	case wkGVK{"apps.kruise.io", "v1alpha1", "DaemonSet"}:
		return "DaemonSet"
	case wkGVK{"apps", "v1", "Deployment"}:
		return "Deployment"
	case wkGVK{"apps", "v1", "StatefulSet"}:
		return "StatefulSet"
	case wkGVK{"apps.kruise.io", "v1beta1", "StatefulSet"}:
		return "AdvStatefulSet"
	case wkGVK{"apps", "v1", "ReplicaSet"}:
		return "ReplicaSet"
	}
	return "Unstructured"
}

// wkBuildWorkload builds the real object of a workload event / store entry.
func wkBuildWorkload(ty string, gvk *wkGVK, ns, name, rv string, generation int, st wkStatus, annos map[string]string, owners []metav1.OwnerReference) client.Object {
	om := metav1.ObjectMeta{Namespace: ns, Name: name, ResourceVersion: rv, Generation: int64(generation), Annotations: annos, OwnerReferences: owners, UID: "wl-uid"}
	i32 := func(v int) int32 { return int32(v) }
	switch ty {
	case "CloneSet":
		o := &kruisev1alpha1.CloneSet{ObjectMeta: om}
		o.Status = kruisev1alpha1.CloneSetStatus{Replicas: i32(st.Replicas), ReadyReplicas: i32(st.Ready), AvailableReplicas: i32(st.Available),
			UpdatedReplicas: i32(st.Updated), UpdatedReadyReplicas: i32(st.UpdatedReady), ObservedGeneration: int64(st.ObservedGeneration),
			UpdateRevision: st.UpdateRevision, CurrentRevision: st.StableRevision}
		return o
	case "DaemonSet":
		o := &kruisev1alpha1.DaemonSet{ObjectMeta: om}
		o.Status.DesiredNumberScheduled, o.Status.NumberReady, o.Status.NumberAvailable = i32(st.Replicas), i32(st.Ready), i32(st.Available)
		o.Status.UpdatedNumberScheduled, o.Status.ObservedGeneration, o.Status.DaemonSetHash = i32(st.Updated), int64(st.ObservedGeneration), st.UpdateRevision
		return o
	case "Deployment":
		o := &appsv1.Deployment{ObjectMeta: om}
		o.Spec.Template = wkTemplate(st.UpdateRevision)
		o.Status = appsv1.DeploymentStatus{Replicas: i32(st.Replicas), ReadyReplicas: i32(st.Ready), AvailableReplicas: i32(st.Available),
			UpdatedReplicas: i32(st.Updated), ObservedGeneration: int64(st.ObservedGeneration)}
		return o
	case "StatefulSet":
		o := &appsv1.StatefulSet{ObjectMeta: om}
		o.Status = appsv1.StatefulSetStatus{Replicas: i32(st.Replicas), ReadyReplicas: i32(st.Ready), AvailableReplicas: i32(st.Available),
			UpdatedReplicas: i32(st.Updated), ObservedGeneration: int64(st.ObservedGeneration), UpdateRevision: st.UpdateRevision, CurrentRevision: st.StableRevision}
		return o
	case "AdvStatefulSet":
		o := &kruisev1beta1.StatefulSet{ObjectMeta: om}
		o.Status.Replicas, o.Status.ReadyReplicas, o.Status.AvailableReplicas = i32(st.Replicas), i32(st.Ready), i32(st.Available)
		o.Status.UpdatedReplicas, o.Status.ObservedGeneration = i32(st.Updated), int64(st.ObservedGeneration)
		o.Status.UpdateRevision, o.Status.CurrentRevision = st.UpdateRevision, st.StableRevision
		return o
	case "ReplicaSet":
		o := &appsv1.ReplicaSet{ObjectMeta: om}
		return o
	}
	u := &unstructured.Unstructured{Object: map[string]interface{}{}}
	if gvk != nil {
		u.SetGroupVersionKind(schema.GroupVersionKind{Group: gvk.Group, Version: gvk.Version, Kind: gvk.Kind})
	}
	u.SetNamespace(ns)
	u.SetName(name)
	u.SetResourceVersion(rv)
	u.SetGeneration(int64(generation))
	u.SetUID("wl-uid")
	if annos != nil {
		u.SetAnnotations(annos)
	}
	if owners != nil {
		u.SetOwnerReferences(owners)
	}
	u.Object["status"] = map[string]interface{}{
		"replicas": int64(st.Replicas), "readyReplicas": int64(st.Ready), "availableReplicas": int64(st.Available),
		"updatedReplicas": int64(st.Updated), "updatedReadyReplicas": int64(st.UpdatedReady), "observedGeneration": int64(st.ObservedGeneration),
		"updateRevision": st.UpdateRevision, "currentRevision": st.StableRevision,
	}
	if st.NonString == "update" || st.NonString == "both" {
		u.Object["status"].(map[string]interface{})["updateRevision"] = wkNonStringValue(st.NonStringKind)
	}
	if st.NonString == "stable" || st.NonString == "both" {
		u.Object["status"].(map[string]interface{})["currentRevision"] = wkNonStringValue(st.NonStringKind)
	}
	return u
}

func wkBuildWl(w *wkWl) client.Object {
	return wkBuildWorkload(w.Ty, w.GVK, w.NS, w.Name, w.RV, w.Generation, w.Status, wkAnnos(w.Control, false), nil)
}

func wkNormStore(store []wkStore) []wkStore {
	for i := range store {
		if store[i].Control.C == "" {
			store[i].Control.C = "absent"
		}
	}
	return store
}

func wkBuildStore(s wkStore) client.Object {
	g := s.GVK
	return wkBuildWorkload(wkTyOfGVK(g), &g, s.NS, s.Name, "1", 1, wkStatus{}, wkAnnos(s.Control, s.InProgress), wkOwnerRefs(s.Owner))
}

func wkBuildPod(p *wkPod) *corev1.Pod {
	pod := &corev1.Pod{}
	pod.Namespace, pod.Name, pod.ResourceVersion = p.NS, p.Name, p.RV
	pod.Labels = map[string]string{}
	if p.DepHash != "" {
		pod.Labels[appsv1.DefaultDeploymentUniqueLabelKey] = p.DepHash
	}
	if p.RevHash != "" {
		pod.Labels[appsv1.ControllerRevisionHashLabelKey] = p.RevHash
	}
	switch p.Ready {
	case "true":
		pod.Status.Conditions = []corev1.PodCondition{{Type: corev1.PodScheduled, Status: corev1.ConditionTrue}, {Type: corev1.PodReady, Status: corev1.ConditionTrue}}
	case "false":
		pod.Status.Conditions = []corev1.PodCondition{{Type: corev1.PodReady, Status: corev1.ConditionFalse}}
	}
	pod.OwnerReferences = wkOwnerRefs(p.Owner)
	if p.InProgress {
		pod.Annotations = map[string]string{util.InRolloutProgressingAnnotation: "x"}
	}
	return pod
}

// wkObjects returns (old, new) real objects of an event
func wkObjects(e wkEvent) (client.Object, client.Object) {
	var oldO, newO client.Object
	switch e.K {
	case "rollout":
		r := &v1beta1.Rollout{}
		r.Namespace, r.Name = e.Ro.NS, e.Ro.Name
		newO = r
		if e.T == "update" {
			oldO = r.DeepCopy()
		}
	case "tr":
		r := &v1alpha1.TrafficRouting{}
		r.Namespace, r.Name = e.Ro.NS, e.Ro.Name
		newO = r
		if e.T == "update" {
			oldO = r.DeepCopy()
		}
	case "br":
		newO = wkBuildBrMeta(e.Br)
		if e.BrOld != nil {
			oldO = wkBuildBrMeta(e.BrOld)
		}
	case "wl":
		newO = wkBuildWl(e.Wl)
		if e.WlOld != nil {
			oldO = wkBuildWl(e.WlOld)
		}
	case "pod":
		newO = wkBuildPod(e.Pod)
		if e.PodOld != nil {
			oldO = wkBuildPod(e.PodOld)
		}
	}
	return oldO, newO
}

// wkRunCase pushes one event through one controller's real watches.
func wkRunCase(ctl string, in wkIn) interface{} {
	reg := wkRegistryGet()
	if reg.err != "" {
		return J{"setupError": reg.err}
	}
	reg.cache.r = &wkReader{rollouts: in.Rollouts, brs: in.BRs, store: in.Store, listErr: in.ListErr, getErr: in.GetErr}
	ws := reg.ro
	switch ctl {
	case "br":
		ws = reg.br
	case "tr":
		ws = reg.tr
	}
	wkDrain(reg.q)
	return guard(func() interface{} {
		oldO, newO := wkObjects(in.Ev)
		if newO == nil {
			return J{"keys": []string{}}
		}
		wkDeliver(ws, in.Ev.T, oldO, newO, reg.q)
		return J{"keys": wkDrain(reg.q)}
	})
}

func wkCase(c *Ctx, ctl string, in wkIn) {
	c.Emit(ctl, in, wkRunCase(ctl, in))
}

// ---- generators ----

var wkNamespaces = []string{"ns1", "ns2"}
var wkWlNames = []string{"w1", "w2"}
var wkOwnNames = []string{"a", "b", "c"}
var wkAPIVersions = []string{"apps/v1", "apps/v1", "apps.kruise.io/v1alpha1", "apps.kruise.io/v1alpha1", "apps.kruise.io/v1beta1", "apps/v1beta2", "example.io/v1", "v1", "", "/", "a/b/c"}
var wkKinds = []string{"Deployment", "StatefulSet", "CloneSet", "CloneSet", "DaemonSet", "ReplicaSet", "Foo"}
var wkTypes = []string{"CloneSet", "CloneSet", "Deployment", "Deployment", "StatefulSet", "AdvStatefulSet", "DaemonSet", "Unstructured", "ReplicaSet"}

func wkGenGVKFor(c *Ctx, ty string) *wkGVK {
	if ty != "Unstructured" {
		return nil
	}
	g := wkDynamicGVKs[c.Rng.Intn(len(wkDynamicGVKs))]
	return &wkGVK{g.Group, g.Version, g.Kind}
}

func wkRefOfType(ty string, g *wkGVK, name string) wkRef {
	switch ty {
	case "CloneSet":
		return wkRef{"apps.kruise.io/v1alpha1", "CloneSet", name}
	case "DaemonSet":
		return wkRef{"apps.kruise.io/v1alpha1", "DaemonSet", name}
	case "Deployment":
		return wkRef{"apps/v1", "Deployment", name}
	case "StatefulSet":
		return wkRef{"apps/v1", "StatefulSet", name}
	case "AdvStatefulSet":
		return wkRef{"apps.kruise.io/v1beta1", "StatefulSet", name}
	case "ReplicaSet":
		return wkRef{"apps/v1", "ReplicaSet", name}
	}
	if g != nil {
		return wkRef{g.Group + "/" + g.Version, g.Kind, name}
	}
	return wkRef{"example.io/v1", "Foo", name}
}

// owners: 0-4 Rollouts / BatchReleases; most of them point at the event's workload (same kind+group+name), some differ in
// exactly one coordinate (namespace, name, kind, group, version only), some carry an unparsable apiVersion.
func wkGenOwners(c *Ctx, ty string, g *wkGVK, ns, name string) []wkObj {
	n := c.Rng.Intn(5)
	out := []wkObj{}
	used := map[string]bool{}
	for i := 0; i < n; i++ {
		o := wkObj{NS: ns, Name: wkOwnNames[c.Rng.Intn(len(wkOwnNames))], Ref: wkRefOfType(ty, g, name)}
		switch c.Rng.Intn(9) {
		case 0:
			o.NS = pickS(c, wkNamespaces...)
		case 1:
			o.Ref.Name = pickS(c, wkWlNames...)
		case 2:
			o.Ref.Kind = pickS(c, wkKinds...)
		case 3:
			o.Ref.APIVersion = pickS(c, wkAPIVersions...)
		case 4:
			// same group, other version: still a match
			if ty == "Deployment" || ty == "StatefulSet" {
				o.Ref.APIVersion = "apps/v1beta1"
			} else if ty == "CloneSet" {
				o.Ref.APIVersion = "apps.kruise.io/v9"
			}
		case 5:
			o = wkObj{NS: pickS(c, wkNamespaces...), Name: pickS(c, wkOwnNames...), Ref: wkRef{pickS(c, wkAPIVersions...), pickS(c, wkKinds...), pickS(c, wkWlNames...)}}
		}
		if used[o.NS+"/"+o.Name] {
			continue
		}
		used[o.NS+"/"+o.Name] = true
		out = append(out, o)
	}
	return out
}

func wkGenControl(c *Ctx) wkControl {
	switch c.Rng.Intn(12) {
	case 0, 1, 2:
		return wkControl{C: "absent"}
	case 3:
		return wkControl{C: "empty"}
	case 4:
		return wkControl{C: "badSyntax"}
	case 5:
		return wkControl{C: "partialRef", APIVersion: pickS(c, "rollouts.kruise.io/v1beta1", "rollouts.kruise.io/v1alpha1"), Kind: pickS(c, "BatchRelease", "Rollout")}
	case 6:
		// foreign controller
		return wkControl{C: "ref", APIVersion: pickS(c, "rollouts.kruise.io/v1alpha1", "apps/v1", ""), Kind: pickS(c, "BatchRelease", "Rollout"), Name: pickS(c, wkOwnNames...)}
	case 7:
		return wkControl{C: "ref", APIVersion: "rollouts.kruise.io/v1beta1", Kind: "BatchRelease", Name: ""}
	}
	return wkControl{C: "ref", APIVersion: "rollouts.kruise.io/v1beta1", Kind: "BatchRelease", Name: pickS(c, wkOwnNames...)}
}

// wkGenTopControl: the control annotation of a pod's top-level workload — mostly the one Initialize writes
func wkGenTopControl(c *Ctx) wkControl {
	if c.Rng.Intn(10) < 6 {
		return wkControl{C: "ref", APIVersion: "rollouts.kruise.io/v1beta1", Kind: "BatchRelease", Name: pickS(c, wkOwnNames...)}
	}
	return wkGenControl(c)
}

func wkGenStatus(c *Ctx) wkStatus {
	r := c.Rng.Intn(6)
	return wkStatus{Replicas: r, Ready: c.Rng.Intn(r + 1), Available: c.Rng.Intn(r + 1), Updated: c.Rng.Intn(r + 1), UpdatedReady: c.Rng.Intn(r + 1),
		ObservedGeneration: 1 + c.Rng.Intn(3), UpdateRevision: pickS(c, "v1", "v2"), StableRevision: pickS(c, "v1", "v2", "")}
}

func wkGenWl(c *Ctx) *wkWl {
	ty := pickS(c, wkTypes...)
	w := &wkWl{Ty: ty, GVK: wkGenGVKFor(c, ty), NS: pickS(c, wkNamespaces...), Name: pickS(c, wkWlNames...), RV: fmt.Sprint(10 + c.Rng.Intn(3)),
		Generation: 1 + c.Rng.Intn(3), Status: wkGenStatus(c), Control: wkGenControl(c)}
	if ty == "Unstructured" && c.Rng.Intn(4) == 0 {
		wkGenNonString(c, &w.Status)
	}
	return w
}

// a custom resource whose CRD does not pin the type of status.updateRevision / currentRevision
func wkGenNonString(c *Ctx, st *wkStatus) {
	st.NonString, st.NonStringKind = pickS(c, "update", "stable", "both"), c.Rng.Intn(3)
	wkNormStatus(st)
}

// a successor of a workload object: one kind of change (or none)
func wkMutateWl(c *Ctx, o *wkWl) (*wkWl, string) {
	n := *o
	n.RV = fmt.Sprint(20 + c.Rng.Intn(3))
	what := ""
	switch c.Rng.Intn(12) {
	case 0:
		n.RV = o.RV
		what = "same-rv"
	case 1:
		what = "resync"
	case 2, 3:
		n.Generation++
		what = "generation"
	case 4:
		n.Status.ObservedGeneration++
		what = "observed-generation"
	case 5:
		n.Status.Updated++
		what = "updated"
	case 6:
		n.Status.UpdatedReady++
		what = "updated-ready"
	case 7:
		n.Status.Ready++
		what = "ready"
	case 8:
		n.Status.UpdateRevision = n.Status.UpdateRevision + "x"
		what = "update-revision"
	case 9:
		n.Status.StableRevision = n.Status.StableRevision + "x"
		what = "stable-revision"
	case 10:
		n.Control = wkGenControl(c)
		what = "annotation"
	case 11:
		n.Status.Available++
		what = "available"
	}
	if c.Rng.Intn(10) == 0 {
		n.Control = wkGenControl(c)
	}
	if n.Ty == "Unstructured" && c.Rng.Intn(6) == 0 {
		// the successor's revision fields change their JSON type (or go back to strings)
		if n.Status.NonString == "" {
			wkGenNonString(c, &n.Status)
		} else {
			n.Status.NonString, n.Status.NonStringKind = "", 0
			n.Status.UpdateRevision, n.Status.StableRevision = pickS(c, "v1", "v2"), pickS(c, "v1", "v2", "")
		}
		what = what + "+revision-type"
	}
	wkNormStatus(&n.Status) // a revision field of another JSON type stays "" in the abstract view whatever was appended above
	return &n, what
}

func wkGenStore(c *Ctx, ns string) ([]wkStore, *wkRef) {
	// a chain pod -> (ReplicaSet ->) workload, possibly broken, possibly foreign
	store := []wkStore{}
	var owner *wkRef
	switch c.Rng.Intn(10) {
	case 0:
		return store, nil // pod without controller owner
	case 1, 2, 3:
		// Deployment pod: ReplicaSet in between
		dep := wkStore{GVK: wkGVK{"apps", "v1", "Deployment"}, NS: ns, Name: pickS(c, wkWlNames...), Control: wkGenTopControl(c), InProgress: c.Rng.Intn(3) == 0}
		rs := wkStore{GVK: wkGVK{"apps", "v1", "ReplicaSet"}, NS: ns, Name: dep.Name + "-rs", Owner: &wkRef{"apps/v1", "Deployment", dep.Name}}
		if c.Rng.Intn(8) == 0 {
			rs.Owner = nil
			rs.Control = wkGenControl(c)
		}
		if c.Rng.Intn(8) == 0 {
			rs.InProgress = true
		}
		if c.Rng.Intn(6) != 0 {
			store = append(store, dep)
		}
		if c.Rng.Intn(8) != 0 {
			store = append(store, rs)
		}
		owner = &wkRef{"apps/v1", "ReplicaSet", rs.Name}
	case 4, 5, 6:
		ty := pickS(c, "CloneSet", "CloneSet", "StatefulSet", "AdvStatefulSet", "DaemonSet")
		ref := wkRefOfType(ty, nil, pickS(c, wkWlNames...))
		gv, _ := schema.ParseGroupVersion(ref.APIVersion)
		wl := wkStore{GVK: wkGVK{gv.Group, gv.Version, ref.Kind}, NS: ns, Name: ref.Name, Control: wkGenTopControl(c), InProgress: c.Rng.Intn(4) == 0}
		if c.Rng.Intn(6) == 0 {
			wl.NS = pickS(c, wkNamespaces...)
		}
		store = append(store, wl)
		owner = &ref
		if ty == "AdvStatefulSet" && c.Rng.Intn(2) == 0 {
			owner = &wkRef{"apps.kruise.io/v1alpha1", "StatefulSet", ref.Name} // the old group version: read as v1beta1
		}
	case 7:
		// unsupported / odd owner kinds
		owner = &wkRef{pickS(c, "batch/v1", "example.io/v1", "a/b/c", ""), pickS(c, "Job", "Foo", "Deployment"), pickS(c, wkWlNames...)}
		store = append(store, wkStore{GVK: wkGVK{"example.io", "v1", "Foo"}, NS: ns, Name: owner.Name, Control: wkGenControl(c)})
	case 8:
		// supported group+kind, other version: read as unstructured
		owner = &wkRef{"apps/v1beta2", "Deployment", pickS(c, wkWlNames...)}
		store = append(store, wkStore{GVK: wkGVK{"apps", "v1beta2", "Deployment"}, NS: ns, Name: owner.Name, Control: wkGenControl(c)})
	case 9:
		// three levels
		top := wkStore{GVK: wkGVK{"apps.kruise.io", "v1alpha1", "CloneSet"}, NS: ns, Name: "top", Control: wkGenTopControl(c)}
		mid := wkStore{GVK: wkGVK{"apps", "v1", "Deployment"}, NS: ns, Name: "mid", Owner: &wkRef{"apps.kruise.io/v1alpha1", "CloneSet", "top"}, Control: wkGenControl(c)}
		rs := wkStore{GVK: wkGVK{"apps", "v1", "ReplicaSet"}, NS: ns, Name: "mid-rs", Owner: &wkRef{"apps/v1", "Deployment", "mid"}}
		store = append(store, rs, top, mid)
		owner = &wkRef{"apps/v1", "ReplicaSet", "mid-rs"}
	}
	return store, owner
}

func wkGenPod(c *Ctx, ns string, owner *wkRef) *wkPod {
	return &wkPod{NS: ns, Name: "p", RV: fmt.Sprint(10 + c.Rng.Intn(3)), DepHash: pickS(c, "", "h1", "h2"), RevHash: pickS(c, "", "", "r1", "r2"),
		Ready: pickS(c, "noCond", "true", "false"), Owner: owner, InProgress: c.Rng.Intn(15) == 0}
}

func wkMutatePod(c *Ctx, p *wkPod) *wkPod {
	n := *p
	n.RV = fmt.Sprint(20 + c.Rng.Intn(3))
	switch c.Rng.Intn(10) {
	case 0:
		n.RV = p.RV
	case 1:
	case 2, 3:
		n.Ready = pickS(c, "noCond", "true", "false")
	case 8, 9:
		// the pod became ready / stopped being ready
		if p.Ready == "true" {
			n.Ready = "false"
		} else {
			n.Ready = "true"
		}
	case 4:
		n.DepHash = pickS(c, "", "h1", "h2")
	case 5:
		n.RevHash = pickS(c, "", "r1", "r2")
	case 6:
		n.Ready = "true"
	case 7:
		n.Ready, n.DepHash = pickS(c, "true", "false"), pickS(c, "h1", "h2")
	}
	return &n
}

func wkGenBrMeta(c *Ctx) *wkBrMeta {
	b := &wkBrMeta{NS: pickS(c, wkNamespaces...), Name: pickS(c, wkOwnNames...), Generation: 1 + c.Rng.Intn(3), Deleting: c.Rng.Intn(8) == 0}
	switch c.Rng.Intn(4) {
	case 0:
	case 1:
		b.Annos = [][2]string{}
	case 2:
		b.Annos = [][2]string{{"k1", pickS(c, "a", "b")}}
	case 3:
		b.Annos = [][2]string{{"k1", "a"}, {"rollouts.kruise.io/rollback-in-batch", "true"}}
	}
	return b
}

func wkMutateBrMeta(c *Ctx, b *wkBrMeta) *wkBrMeta {
	n := *b
	switch c.Rng.Intn(8) {
	case 0, 1, 2:
		// status-only write
	case 3:
		n.Generation++
	case 4:
		n.Deleting = true
	case 5:
		n.Annos = wkGenBrMeta(c).Annos
	case 6:
		if b.Annos == nil {
			n.Annos = [][2]string{}
		} else if len(b.Annos) == 0 {
			n.Annos = nil
		}
	case 7:
		n.Generation++
		n.Annos = wkGenBrMeta(c).Annos
	}
	return &n
}

func wkGenCase(c *Ctx) (string, wkIn) {
	in := wkIn{Rollouts: []wkObj{}, BRs: []wkObj{}, Store: []wkStore{}}
	ctl := pickS(c, "ro", "br", "br")
	t := pickS(c, "create", "update", "update", "update", "delete")
	in.Ev.T = t
	if c.Rng.Intn(40) == 0 {
		in.ListErr = true
	}
	family := c.Rng.Intn(10)
	switch {
	case family < 5:
		// workload event
		in.Ev.K = "wl"
		o := wkGenWl(c)
		in.Ev.Wl = o
		if t == "update" {
			n, _ := wkMutateWl(c, o)
			in.Ev.WlOld, in.Ev.Wl = o, n
		}
		in.Rollouts = wkGenOwners(c, in.Ev.Wl.Ty, in.Ev.Wl.GVK, in.Ev.Wl.NS, in.Ev.Wl.Name)
		in.BRs = wkGenOwners(c, in.Ev.Wl.Ty, in.Ev.Wl.GVK, in.Ev.Wl.NS, in.Ev.Wl.Name)
	case family < 7:
		in.Ev.K = "br"
		b := wkGenBrMeta(c)
		in.Ev.Br = b
		if t == "update" {
			in.Ev.BrOld, in.Ev.Br = b, wkMutateBrMeta(c, b)
		}
		in.Rollouts = wkGenOwners(c, "CloneSet", nil, b.NS, "w1")
	case family < 9:
		if ctl == "ro" {
			// the Rollout controller does not watch pods: its own object instead
			in.Ev.K = "rollout"
			in.Ev.Ro = &wkMeta{pickS(c, wkNamespaces...), pickS(c, wkOwnNames...)}
			break
		}
		in.Ev.K = "pod"
		ns := pickS(c, wkNamespaces...)
		store, owner := wkGenStore(c, ns)
		in.Store = wkNormStore(store)
		p := wkGenPod(c, ns, owner)
		in.Ev.Pod = p
		if t == "update" {
			in.Ev.PodOld, in.Ev.Pod = p, wkMutatePod(c, p)
		}
		if c.Rng.Intn(40) == 0 {
			in.GetErr = true
		}
		if owner != nil {
			gv, _ := schema.ParseGroupVersion(owner.APIVersion)
			in.BRs = wkGenOwners(c, wkTyOfGVK(wkGVK{gv.Group, gv.Version, owner.Kind}), &wkGVK{gv.Group, gv.Version, owner.Kind}, ns, owner.Name)
		}
	default:
		in.Ev.K = pickS(c, "rollout", "tr")
		if in.Ev.K == "tr" {
			ctl = "tr"
		} else {
			ctl = "ro"
		}
		in.Ev.Ro = &wkMeta{pickS(c, wkNamespaces...), pickS(c, wkOwnNames...)}
	}
	return ctl, in
}

func runWakeup(c *Ctx) {
	nLoop := 1
	if c.Thorough() {
		nLoop = 25
	}
	wkRunLoops(c, nLoop)
	// one-step worlds of the two reconcilers, judged by the waiting-class oracle on the implementation's result
	for i := 0; i < c.N/4; i++ {
		wkRoStepCase(c, genRolloutWorld(c))
	}
	for i := 0; i < c.N/4; i++ {
		wkBrStepCase(c, genExecutorCase(c))
	}
	for i := 0; i < c.N; i++ {
		ctl, in := wkGenCase(c)
		wkCase(c, ctl, in)
	}
}

func replayWakeup(c *Ctx, op string, raw json.RawMessage) {
	switch op {
	case "ro", "br", "tr":
		var in wkIn
		if err := json.Unmarshal(raw, &in); err != nil {
			panic(err)
		}
		wkCase(c, op, in)
	case "evrun":
		wkReplayLoop(c, raw)
	case "ro-step":
		var in rsWorld
		if err := json.Unmarshal(raw, &in); err != nil {
			panic(err)
		}
		wkRoStepCase(c, in)
	case "br-step":
		var in exIn
		if err := json.Unmarshal(raw, &in); err != nil {
			panic(err)
		}
		wkBrStepCase(c, in)
	}
}

// ---- real events: diff of the object store before / after a step ----

type wkRealEvent struct {
	T        string
	Old, New client.Object
	Key      string
}

func wkSnapshot(cli client.Client) map[string]client.Object {
	out := map[string]client.Object{}
	ctx := context.TODO()
	add := func(kind string, o client.Object) { out[kind+" "+o.GetNamespace()+"/"+o.GetName()] = o }
	{
		l := &v1beta1.RolloutList{}
		if cli.List(ctx, l) == nil {
			for i := range l.Items {
				add("Rollout", l.Items[i].DeepCopy())
			}
		}
	}
	{
		l := &v1beta1.BatchReleaseList{}
		if cli.List(ctx, l) == nil {
			for i := range l.Items {
				add("BatchRelease", l.Items[i].DeepCopy())
			}
		}
	}
	{
		l := &kruisev1alpha1.CloneSetList{}
		if cli.List(ctx, l) == nil {
			for i := range l.Items {
				add("CloneSet", l.Items[i].DeepCopy())
			}
		}
	}
	{
		l := &appsv1.DeploymentList{}
		if cli.List(ctx, l) == nil {
			for i := range l.Items {
				add("Deployment", l.Items[i].DeepCopy())
			}
		}
	}
	{
		l := &corev1.PodList{}
		if cli.List(ctx, l) == nil {
			for i := range l.Items {
				add("Pod", l.Items[i].DeepCopy())
			}
		}
	}
	return out
}

// wkSameObject: equal up to what a no-op write changes in the fake client (resourceVersion)
func wkSameObject(a, b client.Object) bool {
	x, y := a.DeepCopyObject().(client.Object), b.DeepCopyObject().(client.Object)
	x.SetResourceVersion("")
	y.SetResourceVersion("")
	x.SetManagedFields(nil)
	y.SetManagedFields(nil)
	return reflect.DeepEqual(x, y)
}

// wkBumpGenerations does what the API server does on a spec write and the fake client does not: metadata.generation + 1
// for every workload / BatchRelease whose spec differs from the snapshot.
func wkBumpGenerations(cli client.Client, before map[string]client.Object) {
	ctx := context.TODO()
	for k, nb := range wkSnapshot(cli) {
		ob, ok := before[k]
		if !ok {
			continue
		}
		changed := false
		switch n := nb.(type) {
		case *v1beta1.BatchRelease:
			changed = !reflect.DeepEqual(n.Spec, ob.(*v1beta1.BatchRelease).Spec)
		case *kruisev1alpha1.CloneSet:
			changed = !reflect.DeepEqual(n.Spec, ob.(*kruisev1alpha1.CloneSet).Spec)
		case *appsv1.Deployment:
			changed = !reflect.DeepEqual(n.Spec, ob.(*appsv1.Deployment).Spec)
		}
		if changed && nb.GetGeneration() == ob.GetGeneration() && nb.GetDeletionTimestamp().IsZero() {
			nb.SetGeneration(nb.GetGeneration() + 1)
			_ = cli.Update(ctx, nb)
		}
	}
}

func wkDiffEvents(a, b map[string]client.Object) []wkRealEvent {
	keys := map[string]bool{}
	for k := range a {
		keys[k] = true
	}
	for k := range b {
		keys[k] = true
	}
	sorted := []string{}
	for k := range keys {
		sorted = append(sorted, k)
	}
	sort.Strings(sorted)
	evs := []wkRealEvent{}
	for _, k := range sorted {
		oa, ina := a[k]
		ob, inb := b[k]
		switch {
		case ina && !inb:
			evs = append(evs, wkRealEvent{T: "delete", New: oa, Key: k})
		case !ina && inb:
			evs = append(evs, wkRealEvent{T: "create", New: ob, Key: k})
		case !wkSameObject(oa, ob):
			evs = append(evs, wkRealEvent{T: "update", Old: oa, New: ob, Key: k})
		}
	}
	return evs
}

// wkDispatchReal pushes real events through the real watches of the Rollout and the BatchRelease controller
// (reader = the API server's store) and returns the requests each controller's queue received.
func wkDispatchReal(reader client.Reader, evs []wkRealEvent) (ro []string, br []string, names []string) {
	reg := wkRegistryGet()
	reg.cache.r = reader
	wkDrain(reg.q)
	for _, e := range evs {
		wkDeliver(reg.ro, e.T, e.Old, e.New, reg.q)
		names = append(names, e.T+" "+e.Key)
	}
	ro = wkDrain(reg.q)
	for _, e := range evs {
		wkDeliver(reg.br, e.T, e.Old, e.New, reg.q)
	}
	br = wkDrain(reg.q)
	if names == nil {
		names = []string{}
	}
	return
}

func wkHas(keys []string, k string) bool {
	for _, x := range keys {
		if x == k {
			return true
		}
	}
	return false
}

// ---- one Rollout reconcile from a generated world (the run of suite rolloutsm, instrumented) ----

func wkRsRun(in0 rsWorld) (interface{}, interface{}) {
	in := rsdConcretise(in0)
	ro, hash := rsBuildRollout(in.Ro)
	objs := []client.Object{ro}
	if in.WL != nil {
		objs = append(objs, rsdBuildWorkload(in)...)
	}
	if in.BR != nil {
		objs = append(objs, rsBuildBR(in.BR, ro))
	}
	netCli := trBuildWith(in.Net, objs...)
	netCli.Log = nil
	finderDiff := rsdFinderCheck(netCli, ro, in.Ro, in.WL)
	canaryKey := trNS + "/" + trSvc + "-canary"
	trSetMem(in.Mem, canaryKey)
	old := rolloutctl.VerifSetGracePeriodSeconds(trLongGrace)
	defer rolloutctl.VerifSetGracePeriodSeconds(old)
	rec := rolloutctl.VerifNewReconciler(netCli, theScheme)
	snap0 := wkSnapshot(netCli.Client)
	res, err := rec.Reconcile(context.TODO(), ctrl.Request{NamespacedName: types.NamespacedName{Namespace: trNS, Name: "r"}})
	snapMid := wkSnapshot(netCli.Client)
	// a wake-up is what controller-runtime honours: Requeue, or a strictly positive RequeueAfter
	out := J{"requeue": res.RequeueAfter > 0 || res.Requeue, "err": err != nil}
	if finderDiff != "" {
		out["finderMismatch"] = finderDiff
	}
	w := J{}
	got := &v1beta1.Rollout{}
	if e := netCli.Get(context.TODO(), types.NamespacedName{Namespace: trNS, Name: "r"}, got); e != nil {
		if apierrors.IsNotFound(e) {
			out["roGone"] = true
			w["ro"] = nil
		} else {
			w["ro"] = "get-err"
		}
	} else {
		out["roGone"] = false
		w["ro"] = rsAbstractRollout(got, in.Ro, hash)
	}
	if anno, found := rsdWorkloadAnno(netCli, in.Ro); !found {
		w["wl"] = nil
	} else {
		wl := *in.WL
		wl.InProgressAnno = anno
		w["wl"] = wl
	}
	br := &v1beta1.BatchRelease{}
	if e := netCli.Get(context.TODO(), types.NamespacedName{Namespace: trNS, Name: "r"}, br); e != nil {
		w["br"] = nil
	} else {
		w["br"] = rsAbstractBR(br, ro)
	}
	w["net"] = trAbstract(netCli)
	w["mem"] = trGetMem(canaryKey)
	rsdAbstractWorld(in.Ro, w)
	out["w"] = w
	_ = snapMid
	wkBumpGenerations(netCli.Client, snap0)
	snap1 := wkSnapshot(netCli.Client)
	evs := wkDiffEvents(snap0, snap1)
	roKeys, _, names := wkDispatchReal(netCli.Client, evs)
	step := J{"requeue": out["requeue"], "err": out["err"], "roGone": out["roGone"], "eventWoke": wkHas(roKeys, trNS+"/r"),
		"events": names, "negRequeueAfter": !res.Requeue && res.RequeueAfter < 0}
	grace.ResetExpectations()
	return out, step
}

func wkRoStepCase(c *Ctx, in rsWorld) {
	var step interface{}
	impl := guard(func() interface{} {
		o, st := wkRsRun(in)
		step = st
		return o
	})
	// the one-step correspondence of the same reconcile (suite rolloutsm's protocol)
	c.EmitAs("rolloutsm", "reconcile", in, impl)
	if step == nil {
		step = impl // panic
	}
	c.Emit("ro-step", in, step)
}

// ---- one BatchRelease reconcile from a generated world (the run of suite executor, instrumented) ----

func wkExRun(in exIn) (interface{}, interface{}) {
	rel := exBuildRelease(in.BR)
	objs := []client.Object{rel}
	if in.WL != nil {
		objs = append(objs, exBuildCloneSet(in.WL))
	}
	cli := NewLogClient(fakeClient(objs...))
	rec := batchrelease.VerifNewReconciler(cli, theScheme)
	snap0 := wkSnapshot(cli.Client)
	res, err := rec.Reconcile(context.TODO(), ctrl.Request{NamespacedName: types.NamespacedName{Namespace: "ns", Name: "br"}})
	out := J{"requeue": res.RequeueAfter > 0 || res.Requeue, "err": err != nil}
	got := &v1beta1.BatchRelease{}
	gone := false
	if e := cli.Get(context.TODO(), types.NamespacedName{Namespace: "ns", Name: "br"}, got); e != nil {
		if apierrors.IsNotFound(e) {
			out["br"] = nil
			gone = true
		} else {
			out["br"] = "get-err"
		}
	} else {
		hasFin := false
		for _, f := range got.Finalizers {
			if f == batchrelease.ReleaseFinalizer {
				hasFin = true
			}
		}
		out["br"] = J{"hasFinalizer": hasFin, "status": exAbstractStatus(got)}
	}
	cs := &kruisev1alpha1.CloneSet{}
	if e := cli.Get(context.TODO(), types.NamespacedName{Namespace: "ns", Name: "wl"}, cs); e != nil {
		out["wl"] = nil
	} else {
		out["wl"] = exAbstractWL(cs)
	}
	wkBumpGenerations(cli.Client, snap0)
	snap1 := wkSnapshot(cli.Client)
	evs := wkDiffEvents(snap0, snap1)
	_, brKeys, names := wkDispatchReal(cli.Client, evs)
	step := J{"requeue": out["requeue"], "err": out["err"], "gone": gone, "eventWoke": wkHas(brKeys, "ns/br"), "events": names,
		"br": out["br"], "wl": out["wl"]}
	return out, step
}

func wkBrStepCase(c *Ctx, in exIn) {
	var step interface{}
	impl := guard(func() interface{} {
		exOwnerUID = "br-uid"
		o, st := wkExRun(in)
		step = st
		return o
	})
	c.EmitAs("executor", "reconcile", in, impl)
	if step == nil {
		step = impl
	}
	c.Emit("br-step", in, step)
}

// ---- the event-driven closed loop ----

type wkLoop struct {
	s                *clSim
	roPend, brPend   bool // woken by an event: runs as soon as possible
	roTimer, brTimer bool // RequeueAfter / rate-limited retry: fires once time has passed
	idles            int
	stuck            bool
	done             bool
}

var wkRoKey = trNS + "/r"

func (l *wkLoop) deliver(evs []wkRealEvent) []string {
	ro, br, names := wkDispatchReal(l.s.cli.Client, evs)
	if wkHas(ro, wkRoKey) {
		l.roPend = true
	}
	if wkHas(br, wkRoKey) {
		l.brPend = true
	}
	return names
}

// observe runs an environment / user step and delivers the events it produced
func (l *wkLoop) observe(f func()) int {
	a := wkSnapshot(l.s.cli.Client)
	f()
	b := wkSnapshot(l.s.cli.Client)
	return len(l.deliver(wkDiffEvents(a, b)))
}

func (l *wkLoop) recRollout() {
	s := l.s
	before, ok := s.world()
	snap0 := wkSnapshot(s.cli.Client)
	s.cli.Log, s.cli.FailAt, s.cli.sequence = nil, -1, 0
	old := rolloutctl.VerifSetGracePeriodSeconds(trLongGrace)
	negRequeue := false
	impl := guard(func() interface{} {
		res, err := s.ro.Reconcile(context.TODO(), ctrl.Request{NamespacedName: clRoKey})
		negRequeue = !res.Requeue && res.RequeueAfter < 0
		return J{"requeue": res.RequeueAfter > 0 || res.Requeue, "err": err != nil}
	})
	rolloutctl.VerifSetGracePeriodSeconds(old)
	s.recs++
	s.writes += s.cli.Writes()
	s.pending = append(s.pending, s.cli.Log...)
	s.trace = append(s.trace, "ro")
	out, isJ := impl.(J)
	if !isJ || out["panic"] != nil {
		s.panicked = true
		if ok {
			s.c.EmitAs("rolloutsm", "reconcile", before, impl)
		}
		return
	}
	after, ok2 := s.world()
	out["roGone"] = !ok2
	wj := J{"wl": after.WL, "br": after.BR, "net": after.Net, "mem": after.Mem}
	if ok2 {
		if sub := after.Ro.Sub; sub != nil {
			if n := len(after.Ro.Steps); sub.NextIdx <= 0 || sub.NextIdx > n {
				if sub.CurIdx >= n {
					sub.NextIdx = -1
				} else {
					sub.NextIdx = sub.CurIdx + 1
				}
			}
		}
		after.Ro.CondAge = "ignored"
		wj["ro"] = after.Ro
	} else {
		wj["ro"] = nil
	}
	out["w"] = wj
	if ok {
		s.c.EmitAs("rolloutsm", "reconcile", before, out)
	}
	s.apiServer()
	snap1 := wkSnapshot(s.cli.Client)
	pr, pb := l.roPend, l.brPend
	l.roPend, l.brPend = false, false
	names := l.deliver(wkDiffEvents(snap0, snap1))
	eventWoke := l.roPend
	l.roPend, l.brPend = l.roPend || pr, l.brPend || pb
	if out["requeue"] == true || out["err"] == true {
		l.roTimer = true
	}
	if ok {
		s.c.Emit("ro-step", before, J{"requeue": out["requeue"], "err": out["err"], "roGone": out["roGone"], "eventWoke": eventWoke, "events": names, "negRequeueAfter": negRequeue})
	}
}

func (l *wkLoop) recBR() {
	s := l.s
	before, ok := s.exWorld()
	if !ok {
		return
	}
	snap0 := wkSnapshot(s.cli.Client)
	s.cli.Log, s.cli.FailAt, s.cli.sequence = nil, -1, 0
	impl := guard(func() interface{} {
		res, err := s.br.Reconcile(context.TODO(), ctrl.Request{NamespacedName: clRoKey})
		return J{"requeue": res.RequeueAfter > 0 || res.Requeue, "err": err != nil}
	})
	s.recs++
	s.writes += s.cli.Writes()
	s.pending = append(s.pending, s.cli.Log...)
	s.trace = append(s.trace, "br")
	out, isJ := impl.(J)
	if !isJ || out["panic"] != nil {
		s.panicked = true
		s.c.EmitAs("executor", "reconcile", before, impl)
		return
	}
	after, ok2 := s.exWorld()
	if ok2 {
		out["br"] = J{"hasFinalizer": after.BR.HasFinalizer, "status": after.BR.Status}
	} else {
		out["br"] = nil
	}
	cs := &kruisev1alpha1.CloneSet{}
	if err := s.cli.Client.Get(context.TODO(), clWlKey, cs); err == nil {
		out["wl"] = exAbstractWL(cs)
	} else {
		out["wl"] = nil
	}
	s.c.EmitAs("executor", "reconcile", before, out)
	s.apiServer()
	snap1 := wkSnapshot(s.cli.Client)
	pr, pb := l.roPend, l.brPend
	l.roPend, l.brPend = false, false
	names := l.deliver(wkDiffEvents(snap0, snap1))
	eventWoke := l.brPend
	l.roPend, l.brPend = l.roPend || pr, l.brPend || pb
	if out["requeue"] == true || out["err"] == true {
		l.brTimer = true
	}
	s.c.Emit("br-step", before, J{"requeue": out["requeue"], "err": out["err"], "gone": !ok2, "eventWoke": eventWoke, "events": names, "br": out["br"], "wl": out["wl"]})
}

func (l *wkLoop) quiescent(plan string) {
	s := l.s
	w, ok := s.world()
	in := J{"exists": ok, "terminal": s.terminal(), "w": w, "scenario": s.sc.Name, "plan": plan, "idle": l.idles}
	if ex, ok2 := s.exWorld(); ok2 {
		in["ex"] = ex
	} else {
		in["ex"] = nil
	}
	s.c.Emit("quiescent", in, nil)
	l.idles++
}

type wkPlan struct {
	Name  string `json:"name"`
	Event string `json:"event"` // "", rollback, delete, release3, second
	EvAt  int    `json:"evAt"`  // reconcile index (events are only injected while the rollout is rolling)
	Crash int    `json:"crash"` // reconcile index of a controller restart (0 = none)
}

func (l *wkLoop) rolling() bool {
	w := l.s.where()
	return w["phase"] == "Progressing" && w["reason"] == "InRolling"
}

// wkRunLoop drives one scenario under the event-driven scheduler.
func wkRunLoop(c *Ctx, sc clScenario, plan wkPlan, budget int) {
	s := clNewSim(c, sc)
	l := &wkLoop{s: s}
	// the informers' initial list: every object is a Create event
	l.deliver(wkDiffEvents(map[string]client.Object{}, wkSnapshot(s.cli.Client)))
	released, second := false, plan.Event != "second"
	crashed := plan.Crash == 0
	eventDone := plan.Event == "" || plan.Event == "second"
	for i := 0; i < budget && !s.panicked; i++ {
		if !crashed && s.recs >= plan.Crash {
			crashed = true
			s.restart()
			s.trace = append(s.trace, "crash")
			// the work queues and timers are lost; the new informers list every object again
			l.roTimer, l.brTimer = false, false
			l.deliver(wkDiffEvents(map[string]client.Object{}, wkSnapshot(s.cli.Client)))
		}
		if !eventDone && released && s.recs >= plan.EvAt && l.rolling() {
			eventDone = true
			switch plan.Event {
			case "rollback":
				l.observe(func() { s.release("v1") })
			case "release3":
				l.observe(func() { s.release("v3") })
			case "delete":
				l.observe(func() { s.deleteRollout() })
			}
		}
		switch {
		case l.roPend:
			l.roPend = false
			l.recRollout()
		case l.brPend:
			l.brPend = false
			l.recBR()
		case l.roTimer || l.brTimer:
			// time passes: the workload controller gets its turn, grace periods and back-offs elapse, the timers fire
			l.observe(func() { s.env() })
			s.tick()
			l.roPend, l.brPend = l.roPend || l.roTimer, l.brPend || l.brTimer
			l.roTimer, l.brTimer = false, false
		default:
			// nothing pending and no timer: only the user or the environment can move the system
			l.quiescent(plan.Name)
			if s.terminal() {
				if !released {
					released = true
					l.observe(func() { s.release("v2") })
					continue
				}
				if !second {
					second = true
					l.observe(func() { s.release("v3") })
					continue
				}
				l.done = true
			} else {
				n := l.observe(func() { s.env() })
				if !l.roPend && !l.brPend {
					n += l.observe(func() { s.approve() })
				}
				if !l.roPend && !l.brPend {
					l.stuck = true
				}
				_ = n
			}
		}
		if l.done || l.stuck {
			break
		}
	}
	tr := s.trace
	if len(tr) > 400 {
		tr = tr[len(tr)-400:]
	}
	c.Emit("evrun", J{"scenario": sc, "plan": plan.Name, "planSpec": plan, "steps": len(sc.Steps), "budget": budget},
		J{"done": l.done && !s.panicked, "stuck": l.stuck, "reconciles": s.recs, "idles": l.idles, "panicked": s.panicked, "where": s.where(), "trace": tr})
}

func wkRunLoops(c *Ctx, nGen int) {
	for _, sc := range clScenarios(c, nGen) {
		budget := 100 * (len(sc.Steps) + 4)
		wkRunLoop(c, sc, wkPlan{Name: "baseline"}, budget)
		wkRunLoop(c, sc, wkPlan{Name: "second-release", Event: "second"}, 2*budget)
		for _, ev := range []string{"rollback", "release3", "delete"} {
			wkRunLoop(c, sc, wkPlan{Name: ev, Event: ev, EvAt: 4 + c.Rng.Intn(12*len(sc.Steps))}, 2*budget)
		}
		wkRunLoop(c, sc, wkPlan{Name: "crash", Crash: 3 + c.Rng.Intn(14*len(sc.Steps))}, budget)
	}
}

func wkReplayLoop(c *Ctx, raw json.RawMessage) {
	var in struct {
		Scenario clScenario `json:"scenario"`
		PlanSpec wkPlan     `json:"planSpec"`
		Budget   int        `json:"budget"`
	}
	if err := json.Unmarshal(raw, &in); err != nil {
		panic(err)
	}
	wkRunLoop(c, in.Scenario, in.PlanSpec, in.Budget)
}
