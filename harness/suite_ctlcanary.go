package main

// ctlcanary — the canary-style Deployment control plane of the BatchRelease controller
// (pkg/controller/batchrelease/control/canarystyle + canarystyle/deployment), driven through a
// fault-injecting, call-counting client over the controller-runtime fake client.
//
// One case = an abstract world (a list of Deployments: the stable one and any number of canary
// candidates), the BatchRelease fields the plane reads, the in-memory creation expectation, and a
// *sequence* of calls (Initialize / UpgradeBatch / EnsureBatchPodsReadyAndLabeled / Finalize), each
// with its own fault index (the k-th counted API call and every later one fail; reads counted or
// not) and an optional environment event before it.  The real plane is built exactly as the
// executor builds it (canarystyle.NewControlPlane(canarydeployment.NewController, …)), a new one per
// call.  Output: result, world, expectation and call count after every call.

import (
	"context"
	"encoding/json"
	"fmt"
	"sort"
	"strconv"
	"strings"
	"time"

	"github.com/openkruise/rollouts/api/v1beta1"
	"github.com/openkruise/rollouts/pkg/controller/batchrelease/control/canarystyle"
	canarydeployment "github.com/openkruise/rollouts/pkg/controller/batchrelease/control/canarystyle/deployment"
	"github.com/openkruise/rollouts/pkg/util"
	expectations "github.com/openkruise/rollouts/pkg/util/expectation"
	apps "k8s.io/api/apps/v1"
	corev1 "k8s.io/api/core/v1"
	apiequality "k8s.io/apimachinery/pkg/api/equality"
	apierrors "k8s.io/apimachinery/pkg/api/errors"
	metav1 "k8s.io/apimachinery/pkg/apis/meta/v1"
	"k8s.io/apimachinery/pkg/types"
	"k8s.io/apimachinery/pkg/util/intstr"
	"k8s.io/client-go/tools/record"
	"sigs.k8s.io/controller-runtime/pkg/client"
)

func init() { register("ctlcanary", runCtlCanary, replayCtlCanary) }

// ---- abstract state (mirrors RV.CtlCanary) ----

type ccTemplate struct {
	Rev    int               `json:"rev"`
	Labels map[string]string `json:"labels"`
	Annos  map[string]string `json:"annos"`
}

type ccRolling struct {
	MaxSurge       interface{} `json:"maxSurge"`
	MaxUnavailable interface{} `json:"maxUnavailable"`
}

type ccStrategy struct {
	Type    string     `json:"type"` // rolling|other
	Rolling *ccRolling `json:"rolling"`
}

type ccDep struct {
	Name               int        `json:"name"`
	Owner              string     `json:"owner"` // none|this|other|thisNonCtrl
	Ctrl               string     `json:"ctrl"`  // none|this|other
	CanaryOf           *int       `json:"canaryOf"`
	Template           ccTemplate `json:"template"`
	Replicas           *int       `json:"replicas"`
	Paused             bool       `json:"paused"`
	Finalizer          bool       `json:"finalizer"`
	OtherFinalizer     bool       `json:"otherFinalizer"`
	Deleting           bool       `json:"deleting"`
	Created            int        `json:"created"`
	Generation         int        `json:"generation"`
	ObservedGeneration int        `json:"observedGeneration"`
	StatusReplicas     int        `json:"statusReplicas"`
	UpdatedReplicas    int        `json:"updatedReplicas"`
	AvailableReplicas  int        `json:"availableReplicas"`
	Strategy           ccStrategy `json:"strategy"`
}

type ccPatch struct {
	Labels map[string]string `json:"labels"`
	Annos  map[string]string `json:"annos"`
}

type ccBR struct {
	Key              int         `json:"key"`
	Batches          []J         `json:"batches"`
	Partition        *int        `json:"partition"`
	RolloutID        bool        `json:"rolloutID"`
	FailureThreshold interface{} `json:"failureThreshold"`
	WaitResume       bool        `json:"waitResume"`
	Patch            *ccPatch    `json:"patch"`
}

type ccStep struct {
	Ev           string `json:"ev"` // none|clearExp|observe|newTemplate
	Op           string `json:"op"` // initialize|upgradeBatch|ensureReady|finalize
	FailAt       *int   `json:"failAt"`
	Reads        bool   `json:"reads"`
	TimedOut     bool   `json:"timedOut"`
	CurrentBatch int    `json:"currentBatch"`
}

type ccIn struct {
	BR    ccBR     `json:"br"`
	World []ccDep  `json:"world"`
	Exp   string   `json:"exp"` // none|pending
	Steps []ccStep `json:"steps"`
}

const (
	ccNS        = "ns"
	ccStable    = "z" // sorts after every "dNNNN"; generated canaries "z-NNNN" sort after it, by id
	ccBRUID     = "br-uid"
	ccForeign   = "verif/foreign"
	ccEpoch     = 1700000000
	ccRolloutID = "rid-1"
)

var ccKey = types.NamespacedName{Namespace: ccNS, Name: ccStable}
var ccBRKey = types.NamespacedName{Namespace: ccNS, Name: "br"}.String()

// ---- names ----

func ccNameOf(id int) string {
	if id == 0 {
		return ccStable
	}
	return fmt.Sprintf("d%04d", id)
}

func ccIDOf(name string) int {
	if name == ccStable {
		return 0
	}
	s := strings.TrimPrefix(strings.TrimPrefix(name, ccStable+"-"), "d")
	n, err := strconv.Atoi(s)
	if err != nil {
		return -1
	}
	return n
}

// ---- concretisation ----

func ccBuildRelease(b ccBR, currentBatch int) *v1beta1.BatchRelease {
	r := &v1beta1.BatchRelease{}
	r.APIVersion, r.Kind = v1beta1.GroupVersion.String(), "BatchRelease"
	r.Namespace, r.Name, r.UID, r.Generation = ccNS, "br", types.UID(ccBRUID), 1
	r.Spec.WorkloadRef = v1beta1.ObjectRef{APIVersion: "apps/v1", Kind: "Deployment", Name: ccNameOf(b.Key)}
	for _, e := range b.Batches {
		r.Spec.ReleasePlan.Batches = append(r.Spec.ReleasePlan.Batches, v1beta1.ReleaseBatch{CanaryReplicas: *iosFromAny(e)})
	}
	if b.Partition != nil {
		r.Spec.ReleasePlan.BatchPartition = i32p(int32(*b.Partition))
	}
	if b.RolloutID {
		r.Spec.ReleasePlan.RolloutID = ccRolloutID
	}
	r.Spec.ReleasePlan.FailureThreshold = iosFromAny(b.FailureThreshold)
	if b.WaitResume {
		r.Spec.ReleasePlan.FinalizingPolicy = v1beta1.WaitResumeFinalizingPolicyType
	}
	if b.Patch != nil {
		r.Spec.ReleasePlan.PatchPodTemplateMetadata = &v1beta1.PatchPodTemplateMetadata{Labels: b.Patch.Labels, Annotations: b.Patch.Annos}
	}
	r.Spec.ReleasePlan.RollingStyle = v1beta1.CanaryRollingStyle
	r.Status.Phase = v1beta1.RolloutPhaseProgressing
	r.Status.ObservedWorkloadReplicas = -1
	r.Status.CanaryStatus.CurrentBatch = int32(currentBatch)
	return r
}

func ccControlInfo(uid string) string {
	return fmt.Sprintf(`{"apiVersion":"rollouts.kruise.io/v1beta1","kind":"BatchRelease","name":"br","uid":"%s","controller":true,"blockOwnerDeletion":true}`, uid)
}

func ccBuildDep(d ccDep) *apps.Deployment {
	o := &apps.Deployment{}
	o.Namespace, o.Name, o.UID = ccNS, ccNameOf(d.Name), types.UID("uid-"+ccNameOf(d.Name))
	yes, no := true, false
	switch d.Owner {
	case "this":
		o.OwnerReferences = []metav1.OwnerReference{{APIVersion: v1beta1.GroupVersion.String(), Kind: "BatchRelease", Name: "br", UID: ccBRUID, Controller: &yes, BlockOwnerDeletion: &yes}}
	case "other":
		// another BatchRelease — for odd ids an earlier incarnation of this one: same name, other uid
		nm := "zz"
		if d.Name%2 == 1 {
			nm = "br"
		}
		o.OwnerReferences = []metav1.OwnerReference{{APIVersion: v1beta1.GroupVersion.String(), Kind: "BatchRelease", Name: nm, UID: "other-uid", Controller: &yes, BlockOwnerDeletion: &yes}}
	case "thisNonCtrl":
		o.OwnerReferences = []metav1.OwnerReference{{APIVersion: v1beta1.GroupVersion.String(), Kind: "BatchRelease", Name: "br", UID: ccBRUID, Controller: &no}}
	}
	switch d.Ctrl {
	case "this":
		o.Annotations = map[string]string{util.BatchReleaseControlAnnotation: ccControlInfo(ccBRUID)}
	case "other":
		if d.Name%2 == 0 {
			o.Annotations = map[string]string{util.BatchReleaseControlAnnotation: ccControlInfo("other-uid")}
		} else {
			o.Annotations = map[string]string{util.BatchReleaseControlAnnotation: "not-json"}
		}
	}
	if d.CanaryOf != nil {
		o.Labels = map[string]string{util.CanaryDeploymentLabel: ccNameOf(*d.CanaryOf)}
	}
	o.Spec.Selector = &metav1.LabelSelector{MatchLabels: map[string]string{"app": "demo"}}
	o.Spec.Template = corev1.PodTemplateSpec{
		ObjectMeta: metav1.ObjectMeta{Labels: ccCopyMap(d.Template.Labels), Annotations: ccCopyMap(d.Template.Annos)},
		Spec:       corev1.PodSpec{Containers: []corev1.Container{{Name: "main", Image: fmt.Sprintf("img:v%d", d.Template.Rev)}}},
	}
	if d.Replicas != nil {
		o.Spec.Replicas = i32p(int32(*d.Replicas))
	}
	o.Spec.Paused = d.Paused
	if d.Finalizer {
		o.Finalizers = append(o.Finalizers, util.CanaryDeploymentFinalizer)
	}
	if d.OtherFinalizer {
		o.Finalizers = append(o.Finalizers, ccForeign)
	}
	if d.Deleting {
		t := metav1.NewTime(time.Unix(ccEpoch+5000, 0))
		o.DeletionTimestamp = &t
	}
	o.CreationTimestamp = metav1.NewTime(time.Unix(int64(ccEpoch+d.Created), 0))
	o.Generation = int64(d.Generation)
	o.Status.ObservedGeneration = int64(d.ObservedGeneration)
	o.Status.Replicas, o.Status.UpdatedReplicas, o.Status.AvailableReplicas = int32(d.StatusReplicas), int32(d.UpdatedReplicas), int32(d.AvailableReplicas)
	switch d.Strategy.Type {
	case "rolling":
		o.Spec.Strategy.Type = apps.RollingUpdateDeploymentStrategyType
	default:
		o.Spec.Strategy.Type = apps.RecreateDeploymentStrategyType
	}
	if d.Strategy.Rolling != nil {
		o.Spec.Strategy.RollingUpdate = &apps.RollingUpdateDeployment{MaxSurge: iosFromAny(d.Strategy.Rolling.MaxSurge), MaxUnavailable: iosFromAny(d.Strategy.Rolling.MaxUnavailable)}
	}
	return o
}

func ccCopyMap(m map[string]string) map[string]string {
	if len(m) == 0 {
		return nil
	}
	r := map[string]string{}
	for k, v := range m {
		r[k] = v
	}
	return r
}

func ccOutMap(m map[string]string) map[string]string {
	r := map[string]string{}
	for k, v := range m {
		r[k] = v
	}
	return r
}

// ---- abstraction ----

func ccAbstractTemplate(t *corev1.PodTemplateSpec) ccTemplate {
	rev := -1
	if len(t.Spec.Containers) == 1 {
		if n, err := strconv.Atoi(strings.TrimPrefix(t.Spec.Containers[0].Image, "img:v")); err == nil {
			rev = n
		}
	}
	return ccTemplate{Rev: rev, Labels: ccOutMap(t.Labels), Annos: ccOutMap(t.Annotations)}
}

func ccAbstractDep(o *apps.Deployment) ccDep {
	d := ccDep{Name: ccIDOf(o.Name), Owner: "none", Ctrl: "none"}
	for _, ref := range o.OwnerReferences {
		ctrl := ref.Controller != nil && *ref.Controller
		switch {
		case ctrl && ref.UID == ccBRUID:
			d.Owner = "this"
		case ctrl:
			d.Owner = "other"
		case ref.UID == ccBRUID:
			d.Owner = "thisNonCtrl"
		}
	}
	if a, ok := o.Annotations[util.BatchReleaseControlAnnotation]; ok && a != "" {
		ref := &metav1.OwnerReference{}
		if json.Unmarshal([]byte(a), ref) == nil && ref.UID == ccBRUID {
			d.Ctrl = "this"
		} else {
			d.Ctrl = "other"
		}
	}
	if v, ok := o.Labels[util.CanaryDeploymentLabel]; ok {
		id := ccIDOf(v)
		d.CanaryOf = &id
	}
	d.Template = ccAbstractTemplate(&o.Spec.Template)
	if o.Spec.Replicas != nil {
		n := int(*o.Spec.Replicas)
		d.Replicas = &n
	}
	d.Paused = o.Spec.Paused
	for _, f := range o.Finalizers {
		if f == util.CanaryDeploymentFinalizer {
			d.Finalizer = true
		} else {
			d.OtherFinalizer = true
		}
	}
	d.Deleting = o.DeletionTimestamp != nil
	d.Created = int(o.CreationTimestamp.Unix() - ccEpoch)
	d.Generation, d.ObservedGeneration = int(o.Generation), int(o.Status.ObservedGeneration)
	d.StatusReplicas, d.UpdatedReplicas, d.AvailableReplicas = int(o.Status.Replicas), int(o.Status.UpdatedReplicas), int(o.Status.AvailableReplicas)
	if o.Spec.Strategy.Type == apps.RollingUpdateDeploymentStrategyType {
		d.Strategy.Type = "rolling"
	} else {
		d.Strategy.Type = "other"
	}
	if ru := o.Spec.Strategy.RollingUpdate; ru != nil {
		d.Strategy.Rolling = &ccRolling{MaxSurge: iosOutPtr(ru.MaxSurge), MaxUnavailable: iosOutPtr(ru.MaxUnavailable)}
	}
	return d
}

func ccListDeps(base client.Client) []apps.Deployment {
	l := &apps.DeploymentList{}
	if err := base.List(context.TODO(), l, client.InNamespace(ccNS)); err != nil {
		panic(err)
	}
	sort.SliceStable(l.Items, func(i, j int) bool { return l.Items[i].Name < l.Items[j].Name })
	return l.Items
}

func ccAbstractWorld(base client.Client) []ccDep {
	out := []ccDep{}
	items := ccListDeps(base)
	for i := range items {
		out = append(out, ccAbstractDep(&items[i]))
	}
	return out
}

// ---- the simulated API server: call counting, fault injection, server-side fields ----

type ccAPI struct {
	client.Client
	n      int
	failAt int
	reads  bool
}

func (a *ccAPI) tick(write bool) error {
	if !write && !a.reads {
		return nil
	}
	idx := a.n
	a.n++
	if a.failAt >= 0 && idx >= a.failAt {
		return fmt.Errorf("injected fault at call %d", idx)
	}
	return nil
}

func (a *ccAPI) Get(ctx context.Context, key client.ObjectKey, obj client.Object, opts ...client.GetOption) error {
	if err := a.tick(false); err != nil {
		return err
	}
	return a.Client.Get(ctx, key, obj, opts...)
}

func (a *ccAPI) List(ctx context.Context, list client.ObjectList, opts ...client.ListOption) error {
	if err := a.tick(false); err != nil {
		return err
	}
	return a.Client.List(ctx, list, opts...)
}

func (a *ccAPI) Create(ctx context.Context, obj client.Object, opts ...client.CreateOption) error {
	if err := a.tick(true); err != nil {
		return err
	}
	if d, ok := obj.(*apps.Deployment); ok {
		// what the API server fills in: name from generateName, creationTimestamp, uid, generation
		maxID, maxCreated := 0, int64(ccEpoch)
		for _, e := range ccListDeps(a.Client) {
			if id := ccIDOf(e.Name); id > maxID {
				maxID = id
			}
			if t := e.CreationTimestamp.Unix(); t > maxCreated {
				maxCreated = t
			}
		}
		if d.Name == "" && d.GenerateName != "" {
			d.Name = fmt.Sprintf("%s%04d", d.GenerateName, maxID+1)
		}
		d.CreationTimestamp = metav1.NewTime(time.Unix(maxCreated+1, 0))
		d.UID = types.UID("uid-" + d.Name)
		d.Generation = 1
	}
	return a.Client.Create(ctx, obj, opts...)
}

// bump metadata.generation when the spec of a Deployment changed (API-server behaviour)
func (a *ccAPI) bumpGeneration(old *apps.Deployment, obj client.Object) error {
	d, ok := obj.(*apps.Deployment)
	if !ok || old == nil {
		return nil
	}
	if apiequality.Semantic.DeepEqual(old.Spec, d.Spec) {
		return nil
	}
	cur := &apps.Deployment{}
	if err := a.Client.Get(context.TODO(), client.ObjectKeyFromObject(d), cur); err != nil {
		return nil // the write removed the object
	}
	cur.Generation = old.Generation + 1
	if err := a.Client.Update(context.TODO(), cur); err != nil {
		return err
	}
	d.Generation, d.ResourceVersion = cur.Generation, cur.ResourceVersion
	return nil
}

func (a *ccAPI) oldDep(obj client.Object) *apps.Deployment {
	if _, ok := obj.(*apps.Deployment); !ok {
		return nil
	}
	old := &apps.Deployment{}
	if err := a.Client.Get(context.TODO(), client.ObjectKeyFromObject(obj), old); err != nil {
		return nil
	}
	return old
}

func (a *ccAPI) Update(ctx context.Context, obj client.Object, opts ...client.UpdateOption) error {
	if err := a.tick(true); err != nil {
		return err
	}
	old := a.oldDep(obj)
	if err := a.Client.Update(ctx, obj, opts...); err != nil {
		return err
	}
	return a.bumpGeneration(old, obj)
}

func (a *ccAPI) Patch(ctx context.Context, obj client.Object, patch client.Patch, opts ...client.PatchOption) error {
	if err := a.tick(true); err != nil {
		return err
	}
	old := a.oldDep(obj)
	if err := a.Client.Patch(ctx, obj, patch, opts...); err != nil {
		return err
	}
	return a.bumpGeneration(old, obj)
}

func (a *ccAPI) Delete(ctx context.Context, obj client.Object, opts ...client.DeleteOption) error {
	if err := a.tick(true); err != nil {
		return err
	}
	return a.Client.Delete(ctx, obj, opts...)
}

func (a *ccAPI) DeleteAllOf(ctx context.Context, obj client.Object, opts ...client.DeleteAllOfOption) error {
	if err := a.tick(true); err != nil {
		return err
	}
	return a.Client.DeleteAllOf(ctx, obj, opts...)
}

// ---- environment events ----

func ccEvent(base client.Client, ev string) {
	ctx := context.TODO()
	switch ev {
	case "clearExp": // the informer observed the creation, or the process restarted
		expectations.ResourceExpectations.DeleteExpectations(ccBRKey)
	case "observe": // the Deployment controller caught up with every Deployment
		for _, d := range ccListDeps(base) {
			d := d
			r := int32(0)
			if d.Spec.Replicas != nil {
				r = *d.Spec.Replicas
			}
			d.Status.ObservedGeneration = d.Generation
			d.Status.Replicas, d.Status.UpdatedReplicas, d.Status.AvailableReplicas = r, r, r
			if err := base.Update(ctx, &d); err != nil {
				panic(err)
			}
		}
	case "newTemplate": // the user changes the pod template of the stable Deployment
		d := &apps.Deployment{}
		if base.Get(ctx, ccKey, d) != nil {
			return
		}
		t := ccAbstractTemplate(&d.Spec.Template)
		d.Spec.Template.Spec.Containers[0].Image = fmt.Sprintf("img:v%d", t.Rev+1)
		d.Generation++
		if err := base.Update(ctx, d); err != nil {
			panic(err)
		}
	}
}

// ---- running ----

func ccResOf(err error) string {
	switch {
	case err == nil:
		return "ok"
	case apierrors.IsNotFound(err):
		return "notFound"
	default:
		return "err"
	}
}

func ccRun(in ccIn) interface{} {
	objs := []client.Object{}
	for _, d := range in.World {
		objs = append(objs, ccBuildDep(d))
	}
	base := fakeClient(objs...)
	expectations.ResourceExpectations.DeleteExpectations(ccBRKey)
	if in.Exp == "pending" {
		expectations.ResourceExpectations.Expect(ccBRKey, expectations.Create, "uid-seed")
	}
	defer func() {
		expectations.ResourceExpectations.DeleteExpectations(ccBRKey)
		expectations.ExpectationTimeout = 5 * time.Minute
	}()
	steps := []J{}
	for _, st := range in.Steps {
		ccEvent(base, st.Ev)
		api := &ccAPI{Client: base, failAt: -1, reads: st.Reads}
		if st.FailAt != nil {
			api.failAt = *st.FailAt
		}
		if st.TimedOut {
			expectations.ExpectationTimeout = 0
		} else {
			expectations.ExpectationTimeout = 5 * time.Minute
		}
		rel := ccBuildRelease(in.BR, st.CurrentBatch)
		newStatus := rel.Status.DeepCopy()
		res := func() (res string) {
			defer func() {
				if r := recover(); r != nil {
					res = "panic"
				}
			}()
			plane := canarystyle.NewControlPlane(canarydeployment.NewController, api, &record.FakeRecorder{}, rel, newStatus, ccKey)
			var err error
			switch st.Op {
			case "initialize":
				err = plane.Initialize()
			case "upgradeBatch":
				err = plane.UpgradeBatch()
			case "ensureReady":
				err = plane.EnsureBatchPodsReadyAndLabeled()
			case "finalize":
				err = plane.Finalize()
			default:
				panic("unknown op " + st.Op)
			}
			return ccResOf(err)
		}()
		exp := "none"
		if expectations.ResourceExpectations.GetExpectations(ccBRKey) != nil {
			exp = "pending"
		}
		o := J{"res": res, "world": ccAbstractWorld(base), "exp": exp, "calls": api.n, "status": nil}
		if newStatus.ObservedWorkloadReplicas != -1 || newStatus.UpdateRevision != "" || newStatus.StableRevision != "" {
			var ur interface{} = "unknown"
			for _, d := range ccListDeps(base) {
				d := d
				if util.ComputeHash(&d.Spec.Template, nil) == newStatus.UpdateRevision {
					ur = ccAbstractTemplate(&d.Spec.Template)
					break
				}
			}
			o["status"] = J{"observedReplicas": int(newStatus.ObservedWorkloadReplicas), "stableRevision": newStatus.StableRevision, "updateRevision": ur}
		}
		steps = append(steps, o)
	}
	return J{"steps": steps}
}

func ccCase(c *Ctx, in ccIn) {
	c.Emit("run", in, ccRun(in))
}

// ---- generators ----

func ccIOS(c *Ctx, R int) J {
	switch c.Rng.Intn(12) {
	case 0, 1, 2, 3, 4:
		return J{"i": c.Rng.Intn(R + 3)}
	case 5:
		return J{"s": "x"}
	default:
		return J{"p": []int{0, 1, 10, 20, 25, 33, 50, 60, 75, 99, 100, 120}[c.Rng.Intn(12)]}
	}
}

func ccGenBR(c *Ctx, R int) ccBR {
	br := ccBR{Key: 0}
	nb := 1 + c.Rng.Intn(4)
	if c.Rng.Intn(30) == 0 {
		nb = 0
	}
	pcts := c.Rng.Intn(2) == 0
	acc := 0
	for i := 0; i < nb; i++ {
		switch {
		case c.Rng.Intn(15) == 0:
			br.Batches = append(br.Batches, ccIOS(c, R))
		case pcts:
			acc += 1 + c.Rng.Intn(50)
			if acc > 100 || (i == nb-1 && c.Rng.Intn(2) == 0) {
				acc = 100
			}
			br.Batches = append(br.Batches, J{"p": acc})
		default:
			acc += 1 + c.Rng.Intn(R/2+2)
			br.Batches = append(br.Batches, J{"i": acc})
		}
	}
	if c.Rng.Intn(2) == 0 {
		p := c.Rng.Intn(nb + 1)
		br.Partition = &p
	}
	br.RolloutID = c.Rng.Intn(4) == 0
	if c.Rng.Intn(4) == 0 {
		br.FailureThreshold = ccIOS(c, R)
	}
	br.WaitResume = c.Rng.Intn(4) == 0
	switch c.Rng.Intn(6) {
	case 0:
		br.Patch = &ccPatch{Labels: map[string]string{"canary": "yes"}}
	case 1:
		br.Patch = &ccPatch{Annos: map[string]string{"note": "c"}}
	case 2:
		br.Patch = &ccPatch{Labels: map[string]string{"canary": "yes", "app": "demo-canary"}, Annos: map[string]string{"note": "c"}}
	case 3:
		br.Patch = &ccPatch{}
	}
	return br
}

func ccGenTemplate(c *Ctx) ccTemplate {
	t := ccTemplate{Rev: 1 + c.Rng.Intn(3), Labels: map[string]string{"app": "demo"}, Annos: map[string]string{}}
	if c.Rng.Intn(4) == 0 {
		t.Labels[apps.DefaultDeploymentUniqueLabelKey] = pickS(c, "abc", "def")
	}
	if c.Rng.Intn(6) == 0 {
		t.Labels["tier"] = "web"
	}
	if c.Rng.Intn(25) == 0 {
		t.Labels = map[string]string{}
	}
	if c.Rng.Intn(5) == 0 {
		t.Annos["note"] = pickS(c, "a", "c")
	}
	if c.Rng.Intn(8) == 0 {
		t.Annos["team"] = "x"
	}
	return t
}

func ccCopyTemplate(t ccTemplate) ccTemplate {
	return ccTemplate{Rev: t.Rev, Labels: ccOutMap(t.Labels), Annos: ccOutMap(t.Annos)}
}

func ccGenStrategy(c *Ctx, R int) ccStrategy {
	s := ccStrategy{Type: "rolling"}
	if c.Rng.Intn(8) == 0 {
		s.Type = "other"
	}
	if c.Rng.Intn(12) != 0 {
		ru := &ccRolling{}
		if c.Rng.Intn(4) != 0 {
			ru.MaxSurge = ccIOS(c, R)
		}
		if c.Rng.Intn(4) != 0 {
			ru.MaxUnavailable = ccIOS(c, R)
		}
		s.Rolling = ru
	}
	return s
}

// ccGenWorld builds the stable Deployment (id 0) and m canary candidates (ids 1..m).
func ccGenWorld(c *Ctx, br ccBR, R int, m int, healthy bool) []ccDep {
	stable := ccDep{Name: 0, Owner: "none", Ctrl: pickS(c, "this", "this", "this", "none", "none", "other"), Template: ccGenTemplate(c),
		Paused: c.Rng.Intn(4) != 0, Created: 1, Generation: 3, ObservedGeneration: 3, Strategy: ccGenStrategy(c, R)}
	stable.Replicas = &R
	stable.StatusReplicas, stable.UpdatedReplicas, stable.AvailableReplicas = R, R, R
	if !healthy {
		if c.Rng.Intn(40) == 0 {
			stable.Replicas = nil
		}
		if c.Rng.Intn(40) == 0 {
			stable.Owner = "this"
		}
		if c.Rng.Intn(5) == 0 {
			stable.UpdatedReplicas = c.Rng.Intn(R + 1)
		}
		if c.Rng.Intn(5) == 0 {
			stable.AvailableReplicas = c.Rng.Intn(R + 1)
		}
		if c.Rng.Intn(10) == 0 {
			stable.ObservedGeneration = 2
		}
	}
	created := c.Rng.Perm(m + 3)
	deps := []ccDep{}
	for i := 1; i <= m; i++ {
		d := ccDep{Name: i, Owner: "this", Ctrl: "this", Created: 2 + created[i-1], Generation: 2, ObservedGeneration: 2, Strategy: stable.Strategy, Finalizer: true}
		zero := 0
		d.CanaryOf = &zero
		// template: the stable one as the plane would have copied it, or an older revision
		d.Template = ccCopyTemplate(stable.Template)
		if br.Patch != nil && c.Rng.Intn(5) != 0 {
			for k, v := range br.Patch.Labels {
				d.Template.Labels[k] = v
			}
			for k, v := range br.Patch.Annos {
				d.Template.Annos[k] = v
			}
		}
		switch c.Rng.Intn(8) {
		case 0, 1:
			d.Template.Rev = stable.Template.Rev + 1 + c.Rng.Intn(2)
		case 2:
			d.Template.Labels["extra"] = "1"
		case 3:
			d.Template.Annos["team"] = "y"
		case 4:
			d.Template.Labels[apps.DefaultDeploymentUniqueLabelKey] = "zzz"
		}
		r := c.Rng.Intn(R + 2)
		if c.Rng.Intn(3) == 0 {
			r = 0
		}
		d.Replicas = &r
		d.StatusReplicas, d.UpdatedReplicas, d.AvailableReplicas = r, r, r
		if c.Rng.Intn(4) == 0 {
			d.AvailableReplicas = c.Rng.Intn(r + 1)
		}
		if c.Rng.Intn(6) == 0 {
			d.StatusReplicas = c.Rng.Intn(r + 1)
			if d.AvailableReplicas > d.StatusReplicas {
				d.AvailableReplicas = d.StatusReplicas
			}
		}
		if c.Rng.Intn(8) == 0 {
			d.ObservedGeneration = 1
		}
		if c.Rng.Intn(6) == 0 {
			d.Finalizer = false
		}
		if c.Rng.Intn(8) == 0 {
			d.OtherFinalizer = true
		}
		if c.Rng.Intn(7) == 0 && (d.Finalizer || d.OtherFinalizer) {
			d.Deleting = true
		}
		if !healthy {
			switch c.Rng.Intn(14) {
			case 0:
				d.Owner = "other"
			case 1:
				d.Owner = "none"
			case 2:
				d.Owner = "thisNonCtrl"
			case 3:
				d.Replicas = nil
			case 4:
				d.Ctrl = "none"
				d.CanaryOf = nil
			}
		}
		deps = append(deps, d)
	}
	// API list order: "dNNNN" < "z"
	if !(!healthy && c.Rng.Intn(15) == 0) {
		deps = append(deps, stable)
	}
	return deps
}

func ccGenFault(c *Ctx, st *ccStep, max int) {
	if c.Rng.Intn(2) == 0 {
		k := c.Rng.Intn(max + 1)
		st.FailAt = &k
	}
	st.Reads = c.Rng.Intn(2) == 0
}

func ccPickBatch(c *Ctx, br ccBR) int {
	nb := len(br.Batches)
	switch {
	case c.Rng.Intn(40) == 0:
		return -1
	case c.Rng.Intn(25) == 0:
		return nb + c.Rng.Intn(2)
	case nb == 0:
		return 0
	}
	return c.Rng.Intn(nb)
}

func genCtlCanaryCase(c *Ctx) ccIn {
	R := c.Rng.Intn(12)
	if c.Rng.Intn(10) == 0 {
		R = 0
	}
	br := ccGenBR(c, R)
	in := ccIn{BR: br, Exp: "none"}
	if c.Rng.Intn(10) == 0 {
		in.Exp = "pending"
	}
	ops := []string{"initialize", "upgradeBatch", "ensureReady", "finalize"}
	switch c.Rng.Intn(7) {
	case 6: // Finalize under WaitResume retried: the stable Deployment is already released and resumed, pods not yet updated
		br.WaitResume = true
		if c.Rng.Intn(5) != 0 {
			br.Partition = nil
		}
		in.BR = br
		in.World = ccGenWorld(c, br, R, c.Rng.Intn(3), true)
		already := c.Rng.Intn(2) == 0
		for i := range in.World {
			d := &in.World[i]
			if d.Name != 0 {
				continue
			}
			if d.Strategy.Rolling == nil {
				d.Strategy.Rolling = &ccRolling{MaxUnavailable: J{"p": 25}}
			}
			d.UpdatedReplicas = 0
			if R > 0 && c.Rng.Intn(3) == 0 {
				d.UpdatedReplicas = c.Rng.Intn(R)
			}
			if c.Rng.Intn(8) == 0 {
				d.UpdatedReplicas = R // nothing left to wait for
			}
			if already { // what a first attempt whose wait failed left behind
				d.Ctrl = "none"
				d.Paused = br.Partition != nil
			} else {
				d.Ctrl = "this"
				d.Paused = true
			}
		}
		n := 1
		if !already || c.Rng.Intn(2) == 0 {
			n = 2 + c.Rng.Intn(2)
		}
		for i := 0; i < n; i++ {
			st := ccStep{Ev: "none", Op: "finalize"}
			if i > 0 && c.Rng.Intn(3) == 0 {
				st.Ev = "observe" // the Deployment controller finished the rollout
			}
			if c.Rng.Intn(4) == 0 {
				ccGenFault(c, &st, 8)
			}
			in.Steps = append(in.Steps, st)
		}
	case 0: // one call on an arbitrary (possibly odd) world
		in.World = ccGenWorld(c, br, R, c.Rng.Intn(5), false)
		st := ccStep{Ev: "none", Op: ops[c.Rng.Intn(4)], CurrentBatch: ccPickBatch(c, br), TimedOut: c.Rng.Intn(4) == 0}
		ccGenFault(c, &st, 6)
		in.Steps = []ccStep{st}
	case 1: // Initialize retried, with faults, lost / timed-out expectations and template changes in between
		in.World = ccGenWorld(c, br, R, c.Rng.Intn(3), c.Rng.Intn(3) != 0)
		n := 2 + c.Rng.Intn(4)
		for i := 0; i < n; i++ {
			st := ccStep{Ev: pickS(c, "none", "none", "clearExp", "clearExp", "observe", "newTemplate"), Op: "initialize", CurrentBatch: 0, TimedOut: c.Rng.Intn(4) == 0}
			ccGenFault(c, &st, 4)
			in.Steps = append(in.Steps, st)
		}
	case 2: // Finalize over many canaries, fault at every position, then retried
		in.World = ccGenWorld(c, br, R, 1+c.Rng.Intn(5), c.Rng.Intn(3) != 0)
		st := ccStep{Ev: "none", Op: "finalize", CurrentBatch: ccPickBatch(c, br)}
		ccGenFault(c, &st, 14)
		in.Steps = append(in.Steps, st)
		n := c.Rng.Intn(3)
		for i := 0; i < n; i++ {
			st := ccStep{Ev: pickS(c, "none", "observe"), Op: "finalize", CurrentBatch: st.CurrentBatch}
			if c.Rng.Intn(3) == 0 {
				ccGenFault(c, &st, 14)
			}
			in.Steps = append(in.Steps, st)
		}
	case 3: // UpgradeBatch / EnsureReady over the batches, with retries
		in.World = ccGenWorld(c, br, R, 1+c.Rng.Intn(3), c.Rng.Intn(4) != 0)
		n := 1 + c.Rng.Intn(5)
		b := 0
		for i := 0; i < n; i++ {
			st := ccStep{Ev: pickS(c, "none", "observe", "observe"), Op: pickS(c, "upgradeBatch", "upgradeBatch", "ensureReady"), CurrentBatch: b}
			if c.Rng.Intn(3) == 0 {
				ccGenFault(c, &st, 4)
			}
			in.Steps = append(in.Steps, st)
			if c.Rng.Intn(2) == 0 && b+1 < len(br.Batches) {
				b++
			}
			if c.Rng.Intn(12) == 0 {
				b = ccPickBatch(c, br)
			}
		}
	default: // a whole life: initialize (retried) → batches → finalize (retried)
		in.World = ccGenWorld(c, br, R, c.Rng.Intn(2), true)
		for i := 0; i < 2+c.Rng.Intn(2); i++ {
			st := ccStep{Ev: pickS(c, "none", "clearExp"), Op: "initialize"}
			if c.Rng.Intn(3) == 0 {
				ccGenFault(c, &st, 4)
			}
			in.Steps = append(in.Steps, st)
		}
		for b := 0; b < len(br.Batches) && b < 3; b++ {
			for _, op := range []string{"upgradeBatch", "upgradeBatch", "ensureReady"} {
				st := ccStep{Ev: pickS(c, "observe", "observe", "none"), Op: op, CurrentBatch: b}
				if c.Rng.Intn(4) == 0 {
					ccGenFault(c, &st, 3)
				}
				in.Steps = append(in.Steps, st)
			}
		}
		for i := 0; i < 1+c.Rng.Intn(3); i++ {
			st := ccStep{Ev: pickS(c, "none", "observe"), Op: "finalize", CurrentBatch: 0}
			if c.Rng.Intn(2) == 0 {
				ccGenFault(c, &st, 8)
			}
			in.Steps = append(in.Steps, st)
		}
	}
	return in
}

func runCtlCanary(c *Ctx) {
	for i := 0; i < c.N; i++ {
		in := genCtlCanaryCase(c)
		ccCase(c, in)
	}
}

func replayCtlCanary(c *Ctx, op string, raw json.RawMessage) {
	var in ccIn
	if err := json.Unmarshal(raw, &in); err != nil {
		panic(err)
	}
	ccCase(c, in)
}

var _ = intstr.FromInt
