package main

// Suite "trafficx" (attached to C03, C04, C05, C07; provider clauses keyed C13 / C14 / C15):
// the REAL trafficrouting.Manager over the REAL providers — Gateway API (HTTPRoute), canary Ingress
// (all built-in classes), custom Lua provider (Istio VirtualService / DestinationRule with the shipped
// scripts) and every combination of them in one traffic routing ref (network.CompositeController).
//
// op "call": ONE Manager call from ONE abstract state.  The abstract state (`net`) is concretised into a
// controller-runtime fake client, the grace memory (`mem`) into pkg/util/grace, the call is made through a
// LogClient (write log, FailAt = the k-th write and every later one fail), and the store is abstracted
// back.  Walks (DoTrafficRouting* → RouteAllTrafficToNewVersion* → FinalisingTrafficRouting* / the
// individual clean-up calls) carry the *abstract* state from call to call, so every line is replayable
// on its own and the abstraction is exercised on every step.
//
// op "grace": GetGraceSeconds.

import (
	"context"
	"encoding/json"
	"fmt"
	"strings"
	"time"

	"github.com/openkruise/rollouts/api/v1beta1"
	"github.com/openkruise/rollouts/pkg/trafficrouting"
	"github.com/openkruise/rollouts/pkg/trafficrouting/network/gateway"
	"github.com/openkruise/rollouts/pkg/util/grace"
	corev1 "k8s.io/api/core/v1"
	netv1 "k8s.io/api/networking/v1"
	metav1 "k8s.io/apimachinery/pkg/apis/meta/v1"
	"k8s.io/apimachinery/pkg/apis/meta/v1/unstructured"
	"k8s.io/apimachinery/pkg/types"
	"sigs.k8s.io/controller-runtime/pkg/client"
	gatewayv1beta1 "sigs.k8s.io/gateway-api/apis/v1beta1"
)

func init() { register("trafficx", runTrafficX, replayTrafficX) }

// ---------------------------------------------------------------- line protocol

type txProv struct {
	Custom  bool    `json:"custom"`
	Ingress *string `json:"ingress"` // class type; null = no Ingress ref
	Gateway bool    `json:"gateway"`
}

type txRhm struct {
	Set    [][2]string `json:"set"`
	Add    [][2]string `json:"add"`
	Remove []string    `json:"remove"`
}

type txCtx struct {
	HasRef     bool     `json:"hasRef"`
	Grace      int      `json:"grace"`
	ExtraGrace []int    `json:"extraGrace"`
	DefGrace   int      `json:"defGrace"`
	Traffic    *string  `json:"traffic"`
	Matches    []cMatch `json:"matches"`
	Rhm        *txRhm   `json:"rhm"`
	DisableGen bool     `json:"disableGen"`
	OnlyTR     bool     `json:"onlyTR"`
	StableRev  string   `json:"stableRev"`
	CanaryRev  string   `json:"canaryRev"`
	LastUpdate string   `json:"lastUpdate"` // none|fresh|elapsed
	HasRevKey  *bool    `json:"hasRevKey,omitempty"`
	Prov       txProv   `json:"prov"`
}

type txCuRef struct {
	Kind string   `json:"kind"` // vs | dr
	Obj  *cuObjIn `json:"obj"`  // null = the referenced object does not exist
}

type txCanary struct {
	Ingress  igIngress `json:"ingress"`
	Deleting bool      `json:"deleting"`
	Fin      bool      `json:"fin"`
}

type txIng struct {
	Stable *igIngress `json:"stable"`
	Canary *txCanary  `json:"canary"`
}

type txNet struct {
	StableExists bool      `json:"stableExists"`
	// StableBare: the stable Service has no selector entry besides (possibly) the revision label
	StableBare bool      `json:"stableBare,omitempty"`
	StableSel    *string   `json:"stableSel"`
	CanarySvc    *string   `json:"canarySvc"`
	Custom       []txCuRef `json:"custom"`
	Ing          txIng     `json:"ing"`
	Route        *[]cRule  `json:"route"` // null = the HTTPRoute does not exist
}

type txTrace struct {
	Streak   int             `json:"streak"`
	PrevDone bool            `json:"prevDone"`
	Pristine bool            `json:"pristine"`
	Orig     json.RawMessage `json:"orig,omitempty"`
}

type txIn struct {
	Call   string   `json:"call"`
	Ctx    txCtx    `json:"ctx"`
	Net    txNet    `json:"net"`
	Mem    trMem    `json:"mem"`
	FailAt  *int     `json:"failAt"`
	FailGet *int     `json:"failGet"` // the k-th Get (1-based, ConfigMaps not counted) fails with an internal error
	Trace   *txTrace `json:"trace,omitempty"`
}

const (
	txRoute    = "route"
	txElapsed  = 3 * trLongGrace * time.Second
	txGraceMax = 2 * trLongGrace
)

func txCuName(i int) string { return fmt.Sprintf("cu%d", i) }

func txCuGVK(kind string) (string, string) {
	if kind == "dr" {
		return cuIstioAPI, "DestinationRule"
	}
	return cuIstioAPI, "VirtualService"
}

// ---------------------------------------------------------------- abstract state → fake client

func txBuild(n txNet) *LogClient {
	objs := []client.Object{}
	if n.StableExists {
		st := trStableService(n.StableSel)
		if n.StableBare {
			delete(st.Spec.Selector, "app")
			if len(st.Spec.Selector) == 0 {
				st.Spec.Selector = nil
			}
		}
		objs = append(objs, st)
	}
	if n.CanarySvc != nil {
		cs := trStableService(nil)
		cs.Name, cs.UID = trSvc+"-canary", "canary-uid"
		cs.Spec.Selector[trRevKey] = *n.CanarySvc
		objs = append(objs, cs)
	}
	if n.Route != nil {
		objs = append(objs, &gatewayv1beta1.HTTPRoute{ObjectMeta: metav1.ObjectMeta{Namespace: trNS, Name: txRoute},
			Spec: gatewayv1beta1.HTTPRouteSpec{Rules: realRules(*n.Route)}})
	}
	if n.Ing.Stable != nil {
		ing := toK8sIngress(trIng, *n.Ing.Stable)
		ing.Namespace = trNS
		objs = append(objs, ing)
	}
	var deleting *netv1.Ingress
	if n.Ing.Canary != nil {
		ing := toK8sIngress(trIng+"-canary", n.Ing.Canary.Ingress)
		ing.Namespace = trNS
		if n.Ing.Canary.Fin || n.Ing.Canary.Deleting {
			ing.Finalizers = []string{"verif/hold"}
		}
		if n.Ing.Canary.Deleting {
			deleting = ing
		}
		objs = append(objs, ing)
	}
	inner := fakeClient(objs...)
	for i, r := range n.Custom {
		if r.Obj == nil {
			continue
		}
		av, kind := txCuGVK(r.Kind)
		if err := inner.Create(context.TODO(), r.Obj.build(av, kind, txCuName(i))); err != nil {
			panic(fmt.Sprintf("trafficx: create %s: %v", txCuName(i), err))
		}
	}
	if deleting != nil {
		// Delete of an object that carries a finalizer only sets its deletion timestamp
		if err := inner.Delete(context.TODO(), deleting); err != nil {
			panic(err)
		}
	}
	return NewLogClient(inner)
}

// ---------------------------------------------------------------- fake client → abstract state

func txAbstract(cli client.Client, refs []txCuRef) J {
	ctx := context.TODO()
	n := J{"stableExists": false, "stableSel": nil, "canarySvc": nil, "route": nil}
	s := &corev1.Service{}
	if err := cli.Get(ctx, types.NamespacedName{Namespace: trNS, Name: trSvc}, s); err == nil {
		n["stableExists"] = true
		if v, ok := s.Spec.Selector[trRevKey]; ok && v != "" {
			n["stableSel"] = v
		}
		bare := true
		for k := range s.Spec.Selector {
			if k != trRevKey {
				bare = false
			}
		}
		if bare {
			n["stableBare"] = true
		}
	}
	cs := &corev1.Service{}
	if err := cli.Get(ctx, types.NamespacedName{Namespace: trNS, Name: trSvc + "-canary"}, cs); err == nil {
		n["canarySvc"] = cs.Spec.Selector[trRevKey]
	}
	rt := &gatewayv1beta1.HTTPRoute{}
	if err := cli.Get(ctx, types.NamespacedName{Namespace: trNS, Name: txRoute}, rt); err == nil {
		n["route"] = gwRules(rt.Spec.Rules)
	}
	ing := J{"stable": nil, "canary": nil}
	st := &netv1.Ingress{}
	if err := cli.Get(ctx, types.NamespacedName{Namespace: trNS, Name: trIng}, st); err == nil {
		ing["stable"] = fromK8sIngress(st)
	}
	ci := &netv1.Ingress{}
	if err := cli.Get(ctx, types.NamespacedName{Namespace: trNS, Name: trIng + "-canary"}, ci); err == nil {
		ing["canary"] = J{"ingress": fromK8sIngress(ci), "deleting": ci.DeletionTimestamp != nil, "fin": len(ci.Finalizers) > 0}
	}
	n["ing"] = ing
	cus := []interface{}{}
	for i, r := range refs {
		av, kind := txCuGVK(r.Kind)
		u := &unstructured.Unstructured{}
		u.SetAPIVersion(av)
		u.SetKind(kind)
		var o interface{}
		if err := cli.Get(ctx, types.NamespacedName{Namespace: trNS, Name: txCuName(i)}, u); err == nil {
			o = cuObj(u)
		}
		cus = append(cus, J{"kind": r.Kind, "obj": o})
	}
	n["custom"] = cus
	return n
}

// txNetOf: the abstract state as the typed struct (through JSON, so that what the next call starts from is
// exactly what a replay of its line starts from)
func txNetOf(j J) txNet {
	b, err := json.Marshal(j)
	if err != nil {
		panic(err)
	}
	var n txNet
	if err := json.Unmarshal(b, &n); err != nil {
		panic(err)
	}
	return n
}

// ---------------------------------------------------------------- context

func txStrategy(c txCtx) v1beta1.TrafficRoutingStrategy {
	st := v1beta1.TrafficRoutingStrategy{}
	if c.Traffic != nil {
		v := *c.Traffic
		st.Traffic = &v
	}
	st.Matches = realUMatches(c.Matches)
	if c.Rhm != nil {
		f := &gatewayv1beta1.HTTPHeaderFilter{}
		for _, p := range c.Rhm.Set {
			f.Set = append(f.Set, gatewayv1beta1.HTTPHeader{Name: gatewayv1beta1.HTTPHeaderName(p[0]), Value: p[1]})
		}
		for _, p := range c.Rhm.Add {
			f.Add = append(f.Add, gatewayv1beta1.HTTPHeader{Name: gatewayv1beta1.HTTPHeaderName(p[0]), Value: p[1]})
		}
		f.Remove = append(f.Remove, c.Rhm.Remove...)
		st.RequestHeaderModifier = f
	}
	return st
}

func txContext(c txCtx, n txNet) *trafficrouting.TrafficRoutingContext {
	t := &trafficrouting.TrafficRoutingContext{Key: "Rollout(ns/r)", Namespace: trNS, RevisionLabelKey: trRevKey,
		StableRevision: c.StableRev, CanaryRevision: c.CanaryRev, DisableGenerateCanaryService: c.DisableGen,
		OnlyTrafficRouting: c.OnlyTR,
		OwnerRef:           metav1.OwnerReference{APIVersion: "rollouts.kruise.io/v1beta1", Kind: "Rollout", Name: "r", UID: trOwnerUID}}
	if c.HasRevKey != nil && !*c.HasRevKey {
		t.RevisionLabelKey = ""
	}
	if c.HasRef {
		ref := v1beta1.TrafficRoutingRef{Service: trSvc, GracePeriodSeconds: int32(c.Grace)}
		if c.Prov.Custom {
			ref.CustomNetworkRefs = []v1beta1.ObjectRef{}
			for i, r := range n.Custom {
				av, kind := txCuGVK(r.Kind)
				ref.CustomNetworkRefs = append(ref.CustomNetworkRefs, v1beta1.ObjectRef{APIVersion: av, Kind: kind, Name: txCuName(i)})
			}
		}
		if c.Prov.Ingress != nil {
			ref.Ingress = &v1beta1.IngressTrafficRouting{Name: trIng, ClassType: *c.Prov.Ingress}
		}
		if c.Prov.Gateway {
			name := txRoute
			ref.Gateway = &v1beta1.GatewayTrafficRouting{HTTPRouteName: &name}
		}
		t.ObjectRef = []v1beta1.TrafficRoutingRef{ref}
		for _, g := range c.ExtraGrace {
			t.ObjectRef = append(t.ObjectRef, v1beta1.TrafficRoutingRef{Service: "other", GracePeriodSeconds: int32(g)})
		}
	}
	t.Strategy = txStrategy(c)
	switch c.LastUpdate {
	case "fresh":
		t.LastUpdateTime = &metav1.Time{Time: time.Now()}
	case "elapsed":
		t.LastUpdateTime = &metav1.Time{Time: time.Now().Add(-txElapsed)}
	}
	return t
}

// ---------------------------------------------------------------- one call on the real code

func txWriteName(call string, r WriteRec) string {
	name := r.Verb + " " + r.Kind + " " + r.Key
	switch name {
	case "patch Service ns/svc":
		// the same patch verb pins and un-pins; told apart by the calling function
		if call == "restoreStableService" || call == "finalisingTrafficRouting" {
			return "unpinStable"
		}
		return "patchStable"
	case "create Service ns/svc-canary":
		return "createCanarySvc"
	case "patch Service ns/svc-canary":
		return "patchCanarySvc"
	case "delete Service ns/svc-canary":
		return "deleteCanarySvc"
	case "create Ingress ns/ing-canary":
		return "createCanaryIngress"
	case "patch Ingress ns/ing-canary":
		return "patchCanaryIngress"
	case "delete Ingress ns/ing-canary":
		return "deleteCanaryIngress"
	case "update HTTPRoute ns/route":
		return "updateRoute"
	}
	if r.Verb == "update" && (r.Kind == "VirtualService" || r.Kind == "DestinationRule") && strings.HasPrefix(r.Key, "ns/cu") {
		return "updateCustom"
	}
	return name
}

func txRun(in txIn) interface{} {
	cli := txBuild(in.Net)
	if in.FailAt != nil {
		cli.FailAt = *in.FailAt
	}
	if in.FailGet != nil {
		cli.FailGetN = *in.FailGet
	}
	canaryKey := trNS + "/" + trSvc + "-canary"
	trSetMem(in.Mem, canaryKey)
	defer grace.ResetExpectations()
	old := trafficrouting.VerifSetGracePeriodSeconds(int32(in.Ctx.DefGrace))
	defer trafficrouting.VerifSetGracePeriodSeconds(old)
	m := trafficrouting.NewTrafficRoutingManager(cli)
	tc := txContext(in.Ctx, in.Net)
	if in.Call == "initialize" {
		err := m.InitializeTrafficRouting(tc)
		return J{"err": err != nil}
	}
	before := tc.LastUpdateTime
	var b bool
	var err error
	switch in.Call {
	case "patchStableService":
		b, err = m.PatchStableService(tc)
	case "restoreStableService":
		b, err = m.RestoreStableService(tc)
	case "restoreGateway":
		b, err = m.RestoreGateway(tc)
	case "removeCanaryService":
		b, err = m.RemoveCanaryService(tc)
	case "finalisingTrafficRouting":
		b, err = m.FinalisingTrafficRouting(tc)
	case "doTrafficRouting":
		b, err = m.DoTrafficRouting(tc)
	case "routeAllToNew":
		b, err = m.RouteAllTrafficToNewVersion(tc)
	default:
		panic("trafficx: bad call " + in.Call)
	}
	touched := tc.LastUpdateTime != before && (before == nil || !tc.LastUpdateTime.Equal(before))
	writes := []string{}
	for _, r := range cli.Log {
		if !r.Err {
			writes = append(writes, txWriteName(in.Call, r))
		}
	}
	return J{"done": b, "err": err != nil, "net": txAbstract(cli.Client, in.Net.Custom), "mem": trGetMem(canaryKey),
		"touched": touched, "recheck": tc.RecheckDuration > 0, "writes": writes, "readFailed": cli.GetFailed}
}

// txExec runs one line; a panic of the code under test is an output
func txExec(in txIn) J {
	var impl interface{}
	// luamanager gives every script execution a wall-clock deadline of 1 s; a case that took that long on a
	// starved machine is run again (see suite_custom.go)
	for try := 0; try < 4; try++ {
		t0 := time.Now()
		impl = guard(func() interface{} { return txRun(in) })
		if time.Since(t0) < time.Second {
			break
		}
	}
	out := impl.(J)
	if _, p := out["panic"]; p {
		grace.ResetExpectations()
		return J{"panic": true}
	}
	return out
}

// ---------------------------------------------------------------- generators

type txGen struct{ c *Ctx }

func (g txGen) n(k int) int    { return g.c.Rng.Intn(k) }
func (g txGen) p(pct int) bool { return g.c.Rng.Intn(100) < pct }
func (g txGen) pick(xs ...string) string {
	return xs[g.n(len(xs))]
}

var txClasses = []string{"nginx", "nginx", "aliyun-alb", "higress", "mse", ""}

func (g txGen) prov() txProv {
	p := txProv{}
	cls := txClasses[g.n(len(txClasses))]
	switch r := g.n(100); {
	case r < 14:
		p.Gateway = true
	case r < 28:
		p.Ingress = &cls
	case r < 42:
		p.Custom = true
	case r < 52:
		p.Custom, p.Gateway = true, true
	case r < 62:
		p.Custom, p.Ingress = true, &cls
	case r < 72:
		p.Ingress, p.Gateway = &cls, true
	case r < 96:
		p.Custom, p.Ingress, p.Gateway = true, &cls, true
	case r < 98:
		// a class type without a Lua script: the provider cannot be built
		bad := "no-such-class"
		p.Ingress, p.Gateway = &bad, g.p(50)
	default:
		// no provider at all
	}
	return p
}

func (g txGen) ingress(malformed bool, class string) igIngress {
	ing := igGenIngress(g.c, malformed)
	for i := range ing.Rules {
		for j := range ing.Rules[i].HTTP {
			if s := ing.Rules[i].HTTP[j].Svc; s != nil {
				s.Name = strings.Replace(s.Name, "echoserver", trSvc, 1)
			}
		}
	}
	if class == "mse" && len(ing.Ann) == 0 && g.n(4) != 0 {
		ing.Ann["kubernetes.io/ingress.class"] = "mse"
	}
	return ing
}

func (g txGen) custom(canary string, dirty bool) []txCuRef {
	cg := cuGen{c: g.c, strict: true}
	refs := []txCuRef{}
	for i, k := 0, []int{0, 1, 1, 1, 2, 2, 3}[g.n(7)]; i < k; i++ {
		kind := g.pick("vs", "vs", "vs", "dr")
		var o *cuObjIn
		if !g.p(2) {
			j := cg.obj(kind, trSvc, canary).(J)
			if !dirty {
				j["orig"] = nil
			}
			b, _ := json.Marshal(j)
			o = &cuObjIn{}
			if err := json.Unmarshal(b, o); err != nil {
				panic(err)
			}
		}
		refs = append(refs, txCuRef{Kind: kind, Obj: o})
	}
	return refs
}

// net: the initial abstract state of a walk.  pristine = as the user wrote it (no canary ref in the route, no
// canary Ingress, no original-configuration annotation, Services untouched).
func (g txGen) net(p txProv, canary string, pristine bool) txNet {
	n := txNet{StableExists: !g.p(3)}
	n.StableBare = n.StableExists && g.p(8)
	gg := &gwGen{c: g.c, conf: gateway.Config{StableService: trSvc, CanaryService: trSvc + "-canary"}}
	if g.p(97) {
		rs := gg.route(!pristine && g.p(50))
		b, _ := json.Marshal(gwRules(rs))
		var crs []cRule
		if err := json.Unmarshal(b, &crs); err != nil {
			panic(err)
		}
		if crs == nil {
			crs = []cRule{}
		}
		n.Route = &crs
	}
	class := ""
	if p.Ingress != nil {
		class = *p.Ingress
	}
	if g.p(97) {
		ing := g.ingress(g.p(15), class)
		n.Ing.Stable = &ing
	}
	n.Custom = g.custom(canary, !pristine)
	if !pristine {
		if g.p(50) {
			r := g.pick("v1", "v2")
			n.StableSel = &r
		}
		if g.p(50) {
			r := g.pick("v2", "v3", "")
			n.CanarySvc = &r
		}
		if g.p(40) {
			ci := g.ingress(false, class)
			n.Ing.Canary = &txCanary{Ingress: ci, Fin: g.p(15)}
			n.Ing.Canary.Deleting = n.Ing.Canary.Fin && g.p(40)
		}
		if !n.StableExists {
			n.StableSel = nil
		}
	}
	return n
}

func (g txGen) atom(query bool) cAtom {
	t := g.pick("Exact", "Exact", "RegularExpression")
	return cAtom{T: &t, N: g.pick("user", "version", "canary-by-cookie", "x-env", "X-Canary-User"), V: g.pick("a", "v2", "true", "123.*")}
}

// matches: headerful = every match carries a header (what the aliyun-alb / higress scripts need)
func (g txGen) matches(headerful bool) []cMatch {
	ms := []cMatch{}
	for i, k := 0, 1+g.n(2); i < k; i++ {
		m := cMatch{H: []cAtom{}, Q: []cAtom{}}
		if g.p(30) {
			t := g.pick("PathPrefix", "Exact", "RegularExpression")
			v := g.pick("/", "/web", "/v2/store")
			m.Path = &cPath{T: &t, V: &v}
		}
		if headerful || g.p(80) {
			for j, l := 0, 1+g.n(2); j < l; j++ {
				m.H = append(m.H, g.atom(false))
			}
		}
		if g.p(25) {
			m.Q = append(m.Q, g.atom(true))
		}
		ms = append(ms, m)
	}
	return ms
}

// strategy: sets Traffic / Matches / Rhm of a context
func (g txGen) strategy(c *txCtx) {
	c.Traffic, c.Matches, c.Rhm = nil, []cMatch{}, nil
	weight := func() *string {
		if g.p(4) {
			s := igPick(g.c, igBadTraffic)
			return &s
		}
		s := fmt.Sprintf("%d%%", []int{0, 1, 5, 20, 50, 100, g.n(101), g.n(101)}[g.n(8)])
		return &s
	}
	headerful := c.Prov.Ingress != nil && (*c.Prov.Ingress == "aliyun-alb" || *c.Prov.Ingress == "higress") && !g.p(10)
	switch r := g.n(100); {
	case r < 52:
		c.Traffic = weight()
	case r < 84:
		c.Matches = g.matches(headerful)
	case r < 90:
		c.Traffic, c.Matches = weight(), g.matches(headerful)
	default:
		// neither: nothing to route
	}
	if g.p(10) {
		c.Rhm = &txRhm{Set: [][2]string{}, Add: [][2]string{}, Remove: []string{}}
		for i, k := 0, g.n(3); i < k; i++ {
			c.Rhm.Set = append(c.Rhm.Set, [2]string{g.pick("h1", "h2"), g.pick("v1", "v2", "")})
		}
		if g.p(30) {
			c.Rhm.Add = append(c.Rhm.Add, [2]string{"h3", "v3"})
		}
		if g.p(30) {
			c.Rhm.Remove = append(c.Rhm.Remove, "h5")
		}
	}
}

func (g txGen) ctx(p txProv) txCtx {
	c := txCtx{HasRef: !g.p(3), Grace: []int{trLongGrace, trLongGrace, txGraceMax, 0, 0, -1}[g.n(6)],
		ExtraGrace: []int{}, DefGrace: trLongGrace, DisableGen: g.p(12), OnlyTR: g.p(8),
		StableRev: "v1", CanaryRev: "v2", LastUpdate: "none", Matches: []cMatch{}, Prov: p}
	switch g.n(8) {
	case 0:
		c.ExtraGrace = []int{trLongGrace}
	case 1:
		c.ExtraGrace = []int{0, txGraceMax}
	case 2:
		c.ExtraGrace = []int{-5}
	}
	if g.p(6) {
		c.DefGrace = 0
	}
	if g.p(3) {
		c.StableRev = ""
	}
	if g.p(3) {
		c.CanaryRev = ""
	}
	return c
}

func (c txCtx) canaryName() string {
	if c.OnlyTR || c.DisableGen {
		return trSvc
	}
	return trSvc + "-canary"
}

// ---------------------------------------------------------------- walks

type txWalk struct {
	c        *Ctx
	g        txGen
	ctx      txCtx
	net      txNet
	mem      trMem
	pristine bool
	orig     json.RawMessage
	// trace bookkeeping
	lastKey  string
	streak   int
	prevDone bool
	// dead: the walk is abandoned (panic of the code under test, or the stored route grows without bound — what a
	// match step with canary Service = stable Service did before the repair of finding sameServiceGateway: a
	// regression there must not hang the run)
	dead bool
}

func txEmptyMem() trMem { return trMem{"none", "none", "none", "none", "none"} }

func (w *txWalk) key(call string) string {
	b, _ := json.Marshal([]interface{}{call, w.ctx.Traffic, w.ctx.Matches, w.ctx.Rhm, w.ctx.Prov, w.ctx.DisableGen, w.ctx.OnlyTR, w.ctx.Grace, w.ctx.ExtraGrace})
	return string(b)
}

// timePasses: every running grace period elapses (what the caller waits for before it comes back)
func (w *txWalk) timePasses() {
	f := func(s string) string {
		if s == "fresh" {
			return "elapsed"
		}
		return s
	}
	w.mem = trMem{f(w.mem.PatchService), f(w.mem.RestoreService), f(w.mem.RestoreGateway), f(w.mem.RemoveCanaryService), f(w.mem.UpdateRoute)}
	if w.ctx.LastUpdate == "fresh" {
		w.ctx.LastUpdate = "elapsed"
	}
}

func (w *txWalk) anyFresh() bool {
	m := w.mem
	return m.PatchService == "fresh" || m.RestoreService == "fresh" || m.RestoreGateway == "fresh" || m.RemoveCanaryService == "fresh" || m.UpdateRoute == "fresh" || w.ctx.LastUpdate == "fresh"
}

// call: one Manager call from the walk's current abstract state; returns the implementation's answer
func (w *txWalk) call(call string, failAt *int) J { return w.callF(call, failAt, nil) }

func (w *txWalk) callF(call string, failAt, failGet *int) J {
	k := w.key(call)
	undisturbed := k == w.lastKey
	tr := &txTrace{Pristine: w.pristine}
	if undisturbed {
		tr.Streak, tr.PrevDone = w.streak, w.prevDone
	}
	in := txIn{Call: call, Ctx: w.ctx, Net: w.net, Mem: w.mem, FailAt: failAt, FailGet: failGet, Trace: tr}
	out := txExec(in)
	if _, p := out["panic"]; p {
		w.c.Emit("call", in, out)
		w.lastKey = ""
		w.dead = true
		return out
	}
	if call == "initialize" {
		w.c.Emit("call", in, out)
		return out
	}
	done, isErr := out["done"].(bool), out["err"].(bool)
	complete := !isErr && ((call == "doTrafficRouting" || call == "finalisingTrafficRouting") == done)
	if w.pristine && complete {
		tr.Orig = w.orig
	}
	w.c.Emit("call", in, out)
	// carry the abstract state on
	w.net = txNetOf(out["net"].(J))
	if w.net.Route != nil && len(*w.net.Route) > 24 {
		w.dead = true
	}
	b, _ := json.Marshal(out["mem"])
	_ = json.Unmarshal(b, &w.mem)
	if out["touched"].(bool) {
		w.ctx.LastUpdate = "fresh"
	}
	// trace bookkeeping: a round counts when nothing but the passing of time separates it from the previous one,
	// it ran without an injected fault, and no grace period was still running when it was made
	waited := failAt == nil && failGet == nil && !w.callWaited(in)
	if isErr {
		w.streak = 0 // the caller saw an error: the count of silent rounds starts again
	} else if undisturbed && waited {
		w.streak++
	} else if waited {
		w.streak = 1
	} else {
		w.streak = 0
	}
	w.prevDone = failAt == nil && failGet == nil && !isErr && ((call == "doTrafficRouting" || call == "finalisingTrafficRouting") && done)
	w.lastKey = k
	return out
}

// callWaited: the call was made while a grace period it respects was still running
func (w *txWalk) callWaited(in txIn) bool {
	m := in.Mem
	return in.Ctx.LastUpdate == "fresh" || m.PatchService == "fresh" || m.RestoreService == "fresh" ||
		m.RestoreGateway == "fresh" || m.RemoveCanaryService == "fresh" || m.UpdateRoute == "fresh"
}

// fault: an injected write fault (the k-th write and every later one fail) or read fault (the k-th Get fails)
func (w *txWalk) fault() (*int, *int) {
	switch r := w.g.n(100); {
	case r < 8:
		k := w.g.n(3)
		return &k, nil
	case r < 18:
		k := 1 + w.g.n(5)
		return nil, &k
	case r < 20:
		k, j := w.g.n(3), 1+w.g.n(4)
		return &k, &j
	}
	return nil, nil
}

func (w *txWalk) rounds(call string, max int, doneMeans bool) {
	extra, errs, idle := 0, 0, 0
	for i := 0; i < max && !w.dead; i++ {
		fa, fg := w.fault()
		out := w.callF(call, fa, fg)
		if w.dead {
			return
		}
		if ws, _ := out["writes"].([]string); len(ws) == 0 && !out["err"].(bool) && out["done"].(bool) != doneMeans && fa == nil && fg == nil && !w.anyFresh() {
			// nothing happened and nothing is being waited for (e.g. the stable Service does not exist): once more, then give up
			idle++
			if idle > 1 {
				return
			}
		}
		if out["err"].(bool) && fa == nil && fg == nil {
			// an error that is not an injected fault persists (missing object, Lua error): one more round, then give up
			errs++
			if errs > 1 {
				return
			}
		}
		if w.g.p(88) {
			w.timePasses()
		}
		if !out["err"].(bool) && out["done"].(bool) == doneMeans {
			// complete: sometimes call again (fixed point)
			if extra > 0 || !w.g.p(35) {
				return
			}
			extra++
		}
	}
}

func runTrafficXWalk(c *Ctx) {
	g := txGen{c}
	p := g.prov()
	ctx := g.ctx(p)
	pristine := g.p(85)
	w := &txWalk{c: c, g: g, ctx: ctx, mem: txEmptyMem(), pristine: pristine}
	w.net = g.net(p, ctx.canaryName(), pristine)
	// through JSON once, so that the first line starts from what its replay starts from
	b, _ := json.Marshal(w.net)
	w.orig = b
	_ = json.Unmarshal(b, &w.net)
	if g.p(25) {
		w.call("initialize", nil)
	}
	if w.dead {
		return
	}
	for s, k := 0, 1+g.n(3); s < k; s++ {
		g.strategy(&w.ctx)
		if g.p(15) {
			w.rounds("patchStableService", 3, false)
		}
		w.rounds("doTrafficRouting", 9, true)
	}
	if g.p(15) {
		w.rounds("routeAllToNew", 5, false)
	}
	if g.p(12) {
		f := false
		w.ctx.HasRevKey = &f
	}
	switch r := g.n(10); {
	case r < 7:
		w.rounds("finalisingTrafficRouting", 13, true)
	case r < 9:
		w.rounds("restoreStableService", 4, false)
		w.rounds("restoreGateway", 5, false)
		w.rounds("removeCanaryService", 4, false)
		w.rounds("finalisingTrafficRouting", 4, true)
	default:
		// the rollout goes on to another step instead
		w.ctx.HasRevKey = nil
		g.strategy(&w.ctx)
		w.rounds("doTrafficRouting", 6, true)
	}
}

// one call from an arbitrary (possibly unreachable) state
func runTrafficXRandom(c *Ctx) {
	g := txGen{c}
	p := g.prov()
	ctx := g.ctx(p)
	g.strategy(&ctx)
	ctx.LastUpdate = g.pick("none", "elapsed", "elapsed", "fresh")
	w := &txWalk{c: c, g: g, ctx: ctx}
	w.net = g.net(p, ctx.canaryName(), g.p(30))
	b, _ := json.Marshal(w.net)
	_ = json.Unmarshal(b, &w.net)
	e := func() string { return g.pick("none", "none", "fresh", "elapsed") }
	w.mem = trMem{e(), e(), e(), e(), e()}
	call := g.pick("patchStableService", "restoreStableService", "restoreGateway", "removeCanaryService",
		"finalisingTrafficRouting", "doTrafficRouting", "doTrafficRouting", "routeAllToNew", "initialize")
	if (call == "restoreStableService" || call == "finalisingTrafficRouting") && g.p(15) {
		f := false
		w.ctx.HasRevKey = &f
	}
	var failAt, failGet *int
	if g.p(20) {
		k := g.n(4)
		failAt = &k
	}
	if g.p(25) && call != "initialize" {
		k := 1 + g.n(5)
		failGet = &k
	}
	w.callF(call, failAt, failGet)
}

func runTrafficX(c *Ctx) {
	// GetGraceSeconds on a small exhaustive domain
	vals := []int{-3, 0, 1, 5}
	c.Emit("grace", J{"refs": []int{}, "dflt": 3}, int(trafficrouting.GetGraceSeconds(nil, 3)))
	for _, a := range vals {
		c.Emit("grace", J{"refs": []int{a}, "dflt": 3}, int(trafficrouting.GetGraceSeconds([]v1beta1.TrafficRoutingRef{{GracePeriodSeconds: int32(a)}}, 3)))
		for _, b := range vals {
			c.Emit("grace", J{"refs": []int{a, b}, "dflt": 7},
				int(trafficrouting.GetGraceSeconds([]v1beta1.TrafficRoutingRef{{GracePeriodSeconds: int32(a)}, {GracePeriodSeconds: int32(b)}}, 7)))
		}
	}
	runTrafficXFixed(c)
	for c.Count < c.N {
		if c.Rng.Intn(100) < 75 {
			runTrafficXWalk(c)
		} else {
			for i := 0; i < 6; i++ {
				runTrafficXRandom(c)
			}
		}
	}
}

// ---------------------------------------------------------------- fixed scenarios (run first, every time)

const txFixedNet = `{"stableExists":true,"stableSel":null,"canarySvc":null,
 "custom":[{"kind":"vs","obj":{"spec":[{"hosts":["svc.example.com"],"http":[{"route":[{"destination":{"host":"svc"}}]}]}],"labels":null,"annotations":{"team":"a"},"orig":null}},
           {"kind":"dr","obj":{"spec":[{"host":"svc","subsets":[{"name":"base","labels":{"version":"base"}}]}],"labels":{"app":"demo"},"annotations":null,"orig":null}}],
 "ing":{"stable":{"ann":{"kubernetes.io/ingress.class":"nginx"},"labels":{},"className":"nginx","tls":[],"defaultBackend":false,
        "rules":[{"host":"a.example.com","http":[{"path":"/","pathType":"Prefix","svc":{"name":"svc","portName":"","portNumber":80},"res":null}]}]},"canary":null},
 "route":[{"m":[{"path":{"t":"PathPrefix","v":"/"},"h":[],"q":[],"method":null}],"f":"","b":[{"kind":"Service","name":"svc","w":1,"rest":"{\"port\":80}"}]},
          {"m":[],"f":"","b":[{"kind":"Service","name":"other","w":null,"rest":"{\"port\":8080}"}]}]}`

func txFixedWalk(c *Ctx, p txProv, mod func(*txCtx, *txNet)) *txWalk {
	ctx := txCtx{HasRef: true, Grace: trLongGrace, ExtraGrace: []int{}, DefGrace: trLongGrace, StableRev: "v1", CanaryRev: "v2",
		LastUpdate: "none", Matches: []cMatch{}, Prov: p}
	var n txNet
	if err := json.Unmarshal([]byte(txFixedNet), &n); err != nil {
		panic(err)
	}
	if mod != nil {
		mod(&ctx, &n)
	}
	w := &txWalk{c: c, g: txGen{c}, ctx: ctx, net: n, mem: txEmptyMem(), pristine: true}
	b, _ := json.Marshal(w.net)
	w.orig = b
	_ = json.Unmarshal(b, &w.net)
	return w
}

// until: repeat the call, time passing after every round, until it is complete (or max rounds)
func (w *txWalk) until(call string, max int, doneMeans bool) {
	for i := 0; i < max && !w.dead; i++ {
		out := w.call(call, nil)
		if w.dead {
			return
		}
		w.timePasses()
		if !out["err"].(bool) && out["done"].(bool) == doneMeans {
			return
		}
	}
}

func runTrafficXFixed(c *Ctx) {
	nginx := "nginx"
	all := txProv{Custom: true, Ingress: &nginx, Gateway: true}
	pct := func(n int) *string { s := fmt.Sprintf("%d%%", n); return &s }
	// 1. three providers in one ref, default grace: weight step, match step, clean-up; then the same with an
	//    explicit grace period of 0 (RestoreGateway calls Finalise exactly once: every member must be restored by it)
	for _, grace := range []int{trLongGrace, 0} {
		w := txFixedWalk(c, all, func(x *txCtx, _ *txNet) { x.Grace = grace })
		w.ctx.Traffic = pct(20)
		w.until("doTrafficRouting", 8, true)
		w.call("doTrafficRouting", nil)
		w.ctx.Traffic = nil
		ex := "Exact"
		w.ctx.Matches = []cMatch{{H: []cAtom{{T: &ex, N: "user", V: "tester"}}, Q: []cAtom{}}}
		w.until("doTrafficRouting", 8, true)
		w.until("finalisingTrafficRouting", 12, true)
		w.call("finalisingTrafficRouting", nil)
	}
	// 2. two providers, grace 0, the individual clean-up calls
	{
		w := txFixedWalk(c, txProv{Custom: true, Gateway: true}, func(x *txCtx, _ *txNet) { x.Grace = 0 })
		w.ctx.Traffic = pct(50)
		w.until("doTrafficRouting", 8, true)
		w.until("restoreStableService", 3, false)
		w.until("restoreGateway", 3, false)
		w.until("removeCanaryService", 3, false)
	}
	// 3. read faults at every position of a clean-up over three providers (the k-th Get fails)
	for k := 1; k <= 7; k++ {
		w := txFixedWalk(c, all, func(x *txCtx, _ *txNet) { x.Grace = 0 })
		w.ctx.Traffic = pct(20)
		w.until("doTrafficRouting", 8, true)
		kk := k
		w.callF("finalisingTrafficRouting", nil, &kk)
		w.until("finalisingTrafficRouting", 6, true)
	}
	// 4. the custom provider reports "verified" in the call that stores the original configuration when the script
	//    leaves the object as it is (a VirtualService without a route to the stable Service)
	{
		w := txFixedWalk(c, txProv{Custom: true}, func(_ *txCtx, n *txNet) {
			n.Custom = n.Custom[:1]
			n.Custom[0].Obj.Spec = []interface{}{map[string]interface{}{"hosts": []interface{}{"x"}, "http": []interface{}{
				map[string]interface{}{"route": []interface{}{map[string]interface{}{"destination": map[string]interface{}{"host": "other"}}}}}}}
		})
		w.ctx.Traffic = pct(30)
		w.until("doTrafficRouting", 4, true)
		w.call("doTrafficRouting", nil)
	}
	// 5. regression of the FIXED finding sameServiceGateway: DisableGenerateCanaryService with a Gateway ref —
	//    newNetworkProvider refuses (canary Service name = stable Service name): every call returns the error, the
	//    user's route is never touched
	{
		w := txFixedWalk(c, txProv{Gateway: true}, func(x *txCtx, _ *txNet) { x.DisableGen, x.Grace = true, 0 })
		w.ctx.Traffic = pct(20)
		w.until("doTrafficRouting", 4, true)
		w.until("finalisingTrafficRouting", 4, true)
	}
	// 5b. … the same for a match step (before the repair every round doubled the generated rules), for
	//     OnlyTrafficRouting, and for the individual calls
	{
		w := txFixedWalk(c, txProv{Gateway: true}, func(x *txCtx, _ *txNet) { x.DisableGen, x.Grace = true, 0 })
		ex := "Exact"
		w.ctx.Matches = []cMatch{{H: []cAtom{{T: &ex, N: "user", V: "tester"}}, Q: []cAtom{}}}
		w.until("doTrafficRouting", 4, true)
	}
	{
		nginxCls := "nginx"
		w := txFixedWalk(c, txProv{Custom: true, Ingress: &nginxCls, Gateway: true}, func(x *txCtx, _ *txNet) { x.OnlyTR, x.Grace = true, 0 })
		w.ctx.Traffic = pct(50)
		w.call("initialize", nil)
		w.until("doTrafficRouting", 2, true)
		w.call("routeAllToNew", nil)
		w.call("restoreGateway", nil)
		w.until("finalisingTrafficRouting", 2, true)
	}
	// 6. known finding noRevKey: the workload cannot be read during the clean-up
	{
		w := txFixedWalk(c, txProv{Gateway: true}, func(x *txCtx, _ *txNet) { x.Grace = 0 })
		w.ctx.Traffic = pct(20)
		w.until("doTrafficRouting", 4, true)
		f := false
		w.ctx.HasRevKey = &f
		w.until("finalisingTrafficRouting", 4, true)
	}
	// 7. regression of the FIXED finding selectorlessStable: a stable Service without spec.selector —
	//    createCanaryService returns an error (it used to panic), nothing is written, on every round; once the
	//    Service has a selector the same walk goes through
	{
		w := txFixedWalk(c, txProv{Gateway: true}, func(_ *txCtx, n *txNet) { n.StableBare = true })
		w.ctx.Traffic = pct(20)
		w.call("doTrafficRouting", nil)
		if !w.dead {
			w.timePasses()
			w.call("doTrafficRouting", nil)
			w.net.StableBare = false
			w.until("doTrafficRouting", 6, true)
		}
	}
}

func replayTrafficX(c *Ctx, op string, raw json.RawMessage) {
	switch op {
	case "grace":
		var in struct {
			Refs []int `json:"refs"`
			Dflt int   `json:"dflt"`
		}
		if err := json.Unmarshal(raw, &in); err != nil {
			panic(err)
		}
		refs := []v1beta1.TrafficRoutingRef{}
		for _, r := range in.Refs {
			refs = append(refs, v1beta1.TrafficRoutingRef{GracePeriodSeconds: int32(r)})
		}
		c.Emit("grace", raw, int(trafficrouting.GetGraceSeconds(refs, int32(in.Dflt))))
	default:
		var in txIn
		if err := json.Unmarshal(raw, &in); err != nil {
			panic(err)
		}
		c.Emit("call", raw, txExec(in))
	}
}
