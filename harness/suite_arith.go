package main

import (
	"encoding/json"

	"github.com/openkruise/rollouts/api/v1beta1"
	"github.com/openkruise/rollouts/pkg/controller/batchrelease/control"
	deploymentutil "github.com/openkruise/rollouts/pkg/controller/deployment/util"
	apps "k8s.io/api/apps/v1"
	"k8s.io/apimachinery/pkg/util/intstr"
)

func init() { register("arith", runArith, replayArith) }

func releaseWith(batch intstr.IntOrString) *v1beta1.BatchRelease {
	return &v1beta1.BatchRelease{Spec: v1beta1.BatchReleaseSpec{ReleasePlan: v1beta1.ReleasePlan{
		Batches: []v1beta1.ReleaseBatch{{CanaryReplicas: batch}}}}}
}

func arithCalcBatch(c *Ctx, r int, b intstr.IntOrString) {
	impl := guard(func() interface{} { return control.CalculateBatchReplicas(releaseWith(b), r, 0) })
	c.Emit("calcBatch", J{"replicas": r, "batch": ios(b)}, impl)
}

func arithParsePct(c *Ctx, stable, all int, canary intstr.IntOrString) {
	impl := guard(func() interface{} {
		return ios(control.ParseIntegerAsPercentageIfPossible(int32(stable), int32(all), &canary))
	})
	c.Emit("parsePct", J{"stable": stable, "all": all, "canary": ios(canary)}, impl)
}

func arithRSLimit(c *Ctx, r int, p intstr.IntOrString) {
	d := &apps.Deployment{}
	d.Spec.Replicas = i32p(int32(r))
	impl := guard(func() interface{} { return int(deploymentutil.NewRSReplicasLimit(p, d)) })
	c.Emit("rsLimit", J{"replicas": r, "partition": ios(p)}, impl)
}

func arithFence(c *Ctx, r int, s, u *intstr.IntOrString) {
	impl := guard(func() interface{} {
		a, b, err := deploymentutil.ResolveFenceposts(s, u, int32(r))
		if err != nil {
			return J{"err": true}
		}
		return J{"surge": int(a), "unavailable": int(b)}
	})
	c.Emit("fenceposts", J{"replicas": r, "surge": iosPtr(s), "unavailable": iosPtr(u)}, impl)
}

func arithGE(c *Ctx, a, b intstr.IntOrString) {
	impl := guard(func() interface{} { return control.IsCurrentMoreThanOrEqualToDesired(a, b) })
	c.Emit("moreOrEqual", J{"current": ios(a), "desired": ios(b)}, impl)
}

func runArith(c *Ctx) {
	maxR := 120
	if c.Thorough() {
		maxR = 1200
	}
	// exhaustive small scope: every replicas ≤ maxR × every percent 0..100 and a band of ints
	for r := 0; r <= maxR; r++ {
		for p := 0; p <= 100; p++ {
			arithCalcBatch(c, r, pct(p))
			arithRSLimit(c, r, pct(p))
		}
		for _, n := range []int{-3, -1, 0, 1, 2, r / 2, r - 1, r, r + 1, 2*r + 5} {
			arithCalcBatch(c, r, intstr.FromInt(n))
			arithRSLimit(c, r, intstr.FromInt(n))
		}
		// stable counts: all of 0..r for small r, a band otherwise
		for s := -1; s <= r+1; s++ {
			if r > 60 && s > 3 && s < r-3 && c.Rng.Intn(8) != 0 {
				continue
			}
			for _, cn := range []intstr.IntOrString{pct(100), pct(50), pct(0)} {
				arithParsePct(c, s, r, cn)
			}
		}
	}
	// random large values
	for i := 0; i < c.N; i++ {
		r := c.Rng.Intn(1000000)
		arithCalcBatch(c, r, pct(c.Rng.Intn(131)))
		arithCalcBatch(c, r, intstr.FromInt(c.Rng.Intn(2*r+2)-3))
		arithRSLimit(c, r, pct(c.Rng.Intn(121)))
		arithRSLimit(c, r, intstr.FromInt(c.Rng.Intn(2*r+2)-3))
		arithParsePct(c, c.Rng.Intn(r+2), r, pct(c.Rng.Intn(101)))
		var s, u *intstr.IntOrString
		if c.Rng.Intn(5) > 0 {
			v := randIOS(c, r)
			s = &v
		}
		if c.Rng.Intn(5) > 0 {
			v := randIOS(c, r)
			u = &v
		}
		arithFence(c, c.Rng.Intn(3000), s, u)
		arithGE(c, randIOS(c, 200), randIOS(c, 200))
	}
	// malformed stream
	for _, s := range []string{"", "%", "abc", "10", "1.5%", " 5%", "5 %", "5%%", "99999999999999999999%"} {
		v := intstr.FromString(s)
		arithCalcBatch(c, 10, v)
		arithRSLimit(c, 10, v)
		arithFence(c, 10, &v, nil)
		arithFence(c, 10, nil, &v)
		arithGE(c, v, pct(10))
		arithParsePct(c, 3, 10, v)
	}
}

func randIOS(c *Ctx, r int) intstr.IntOrString {
	if c.Rng.Intn(2) == 0 {
		return intstr.FromInt(c.Rng.Intn(r + 2))
	}
	return pct(c.Rng.Intn(111))
}

func replayArith(c *Ctx, op string, raw json.RawMessage) {
	var in map[string]interface{}
	json.Unmarshal(raw, &in)
	gi := func(k string) int { return int(in[k].(float64)) }
	gs := func(k string) intstr.IntOrString { return fromIOS(in[k].(map[string]interface{})) }
	gp := func(k string) *intstr.IntOrString {
		if in[k] == nil {
			return nil
		}
		v := gs(k)
		return &v
	}
	switch op {
	case "calcBatch":
		arithCalcBatch(c, gi("replicas"), gs("batch"))
	case "parsePct":
		arithParsePct(c, gi("stable"), gi("all"), gs("canary"))
	case "rsLimit":
		arithRSLimit(c, gi("replicas"), gs("partition"))
	case "fenceposts":
		arithFence(c, gi("replicas"), gp("surge"), gp("unavailable"))
	case "moreOrEqual":
		arithGE(c, gs("current"), gs("desired"))
	}
}
