package main

// Suite "webhook" (property C08): the workload admission webhook.
//
// Every case builds a real admission.Request (old/new raw objects), a fake client holding the
// generated Rollouts, ReplicaSets and the MutatingWebhookConfiguration, calls the real
// WorkloadHandler.Handle / UnifiedWorkloadHandler.Handle with a real decoder, applies the returned
// JSON patches to the submitted object and abstracts the admitted object back.
//
// The `in` of a line has two parts: the abstract request the Lean model reads, and `gen`, the
// concrete raw objects, from which `replay` rebuilds the very same request.  The abstract part is
// always *computed from* the concrete part by the abstraction functions of this file (abs*), on
// input and on output alike.

import (
	"context"
	"encoding/json"
	"fmt"
	"reflect"
	"sort"
	"strconv"
	"strings"
	"time"

	jsonpatch "github.com/evanphx/json-patch/v5"
	kruisev1alpha1 "github.com/openkruise/kruise-api/apps/v1alpha1"
	kruisev1beta1 "github.com/openkruise/kruise-api/apps/v1beta1"
	rolloutsv1alpha1 "github.com/openkruise/rollouts/api/v1alpha1"
	rolloutsv1beta1 "github.com/openkruise/rollouts/api/v1beta1"
	"github.com/openkruise/rollouts/pkg/util"
	webhookutil "github.com/openkruise/rollouts/pkg/webhook/util"
	"github.com/openkruise/rollouts/pkg/webhook/util/configuration"
	"github.com/openkruise/rollouts/pkg/webhook/workload/mutating"
	admissionv1 "k8s.io/api/admission/v1"
	admregv1 "k8s.io/api/admissionregistration/v1"
	apps "k8s.io/api/apps/v1"
	corev1 "k8s.io/api/core/v1"
	metav1 "k8s.io/apimachinery/pkg/apis/meta/v1"
	"k8s.io/apimachinery/pkg/apis/meta/v1/unstructured"
	"k8s.io/apimachinery/pkg/labels"
	"k8s.io/apimachinery/pkg/runtime"
	"k8s.io/apimachinery/pkg/runtime/schema"
	"k8s.io/apimachinery/pkg/types"
	"k8s.io/apimachinery/pkg/util/intstr"
	apiserveradmission "k8s.io/apiserver/pkg/admission"
	clientgoscheme "k8s.io/client-go/kubernetes/scheme"
	"sigs.k8s.io/controller-runtime/pkg/client"
	"sigs.k8s.io/controller-runtime/pkg/client/fake"
	"sigs.k8s.io/controller-runtime/pkg/webhook/admission"
)

func init() { register("webhook", runWebhook, replayWebhook) }

const (
	whNS            = "demo"
	hashLabelKey    = apps.DefaultDeploymentUniqueLabelKey
	inProgressKey   = util.InRolloutProgressingAnnotation
	rolloutIDKey    = rolloutsv1beta1.RolloutIDLabel
	stratAnnoKey    = rolloutsv1alpha1.DeploymentStrategyAnnotation
	origStratKey    = rolloutsv1beta1.OriginalDeploymentStrategyAnnotation
	stableRevKey    = rolloutsv1alpha1.DeploymentStableRevisionLabel
	workloadTypeKey = util.WorkloadTypeLabel
)

var whScheme = func() *runtime.Scheme {
	s := runtime.NewScheme()
	must(clientgoscheme.AddToScheme(s))
	must(kruisev1alpha1.AddToScheme(s))
	must(kruisev1beta1.AddToScheme(s))
	must(rolloutsv1alpha1.AddToScheme(s))
	must(rolloutsv1beta1.AddToScheme(s))
	must(admregv1.AddToScheme(s))
	return s
}()

func must(err error) {
	if err != nil {
		panic(err)
	}
}

// whGen is the concrete request; everything needed to replay a case.
type whGen struct {
	Unified   bool              `json:"unified"`
	Op        string            `json:"op"`
	Sub       string            `json:"sub"`
	DryRun    bool              `json:"dryRun"`
	Group     string            `json:"group"`
	Version   string            `json:"version"`
	Kind      string            `json:"kind"`
	Resource  string            `json:"resource"`
	Cfg       json.RawMessage   `json:"cfg"` // null = no MutatingWebhookConfiguration in the cluster
	Old       json.RawMessage   `json:"old"`
	New       json.RawMessage   `json:"new"`
	Rollouts  []json.RawMessage `json:"rollouts"`
	RSs       []json.RawMessage `json:"rss"`
	Namespace string            `json:"namespace"`
}

// ---------------------------------------------------------------- abstraction (trusted)

func asMap(v interface{}) (map[string]interface{}, bool) {
	m, ok := v.(map[string]interface{})
	return m, ok
}

func nestedVal(m map[string]interface{}, path ...string) (interface{}, bool) {
	var cur interface{} = m
	for _, p := range path {
		mm, ok := asMap(cur)
		if !ok {
			return nil, false
		}
		cur, ok = mm[p]
		if !ok {
			return nil, false
		}
	}
	return cur, true
}

func nestedStr(m map[string]interface{}, path ...string) string {
	v, ok := nestedVal(m, path...)
	if !ok {
		return ""
	}
	s, _ := v.(string)
	return s
}

func nestedIntPtr(m map[string]interface{}, path ...string) interface{} {
	v, ok := nestedVal(m, path...)
	if !ok {
		return nil
	}
	f, ok := v.(float64)
	if !ok {
		return nil
	}
	return int(f)
}

func nestedInt(m map[string]interface{}, path ...string) int {
	v := nestedIntPtr(m, path...)
	if v == nil {
		return 0
	}
	return v.(int)
}

// any string that is not a canonical percent is the model's `bad` value: {"s":"?"}
func absIOS(v interface{}) interface{} {
	switch x := v.(type) {
	case float64:
		return J{"i": int(x)}
	case string:
		if n, ok := pctOf(x); ok {
			return J{"p": n}
		}
		return J{"s": "?"}
	}
	return nil
}

func absIOSTyped(v *intstr.IntOrString) interface{} {
	if v == nil {
		return nil
	}
	if v.Type == intstr.Int {
		return absIOS(float64(v.IntVal))
	}
	return absIOS(v.StrVal)
}

func absRU(v interface{}) interface{} {
	m, ok := asMap(v)
	if !ok {
		return nil
	}
	return J{"mu": absIOS(m["maxUnavailable"]), "ms": absIOS(m["maxSurge"])}
}

func absTmplBody(tmpl map[string]interface{}) int {
	cs, ok := nestedVal(tmpl, "spec", "containers")
	if !ok {
		return 0
	}
	arr, ok := cs.([]interface{})
	if !ok || len(arr) == 0 {
		return 0
	}
	c0, _ := asMap(arr[0])
	img, _ := c0["image"].(string)
	if !strings.HasPrefix(img, "img:") {
		return 0
	}
	n, err := strconv.Atoi(img[4:])
	if err != nil {
		return 0
	}
	return n
}

func absInProgress(s string) interface{} {
	if s == "" {
		return nil
	}
	st := util.RolloutState{}
	if err := json.Unmarshal([]byte(s), &st); err == nil {
		if by, _ := json.Marshal(&st); string(by) == s {
			return J{"rollout": st.RolloutName}
		}
	}
	return J{"raw": s}
}

func absStratAnno(s string) interface{} {
	if s == "" {
		return nil
	}
	st := rolloutsv1alpha1.DeploymentStrategy{}
	if err := json.Unmarshal([]byte(s), &st); err != nil {
		return "invalid"
	}
	var ru interface{}
	if st.RollingUpdate != nil {
		ru = J{"mu": absIOSTyped(st.RollingUpdate.MaxUnavailable), "ms": absIOSTyped(st.RollingUpdate.MaxSurge)}
	}
	return J{"style": string(st.RollingStyle), "ru": ru, "paused": st.Paused, "partition": absIOSTyped(&st.Partition)}
}

func absUS(spec map[string]interface{}) interface{} {
	v, ok := spec["updateStrategy"]
	if !ok {
		return nil
	}
	us, ok := asMap(v)
	if !ok {
		return "malformed"
	}
	t, _ := us["type"].(string)
	var ru interface{}
	if rv, ok := us["rollingUpdate"]; ok {
		if rm, ok := asMap(rv); ok {
			ru = J{"partition": nestedIntPtr(rm, "partition")}
		} else {
			ru = "malformed"
		}
	}
	return J{"type": t, "ru": ru}
}

func groupOfAPIVersion(av string) string {
	if i := strings.Index(av, "/"); i >= 0 {
		return av[:i]
	}
	return ""
}

// absObj abstracts a raw workload object (any kind) into the model's Obj.
func absObj(raw []byte) J {
	m := map[string]interface{}{}
	must(json.Unmarshal(raw, &m))
	spec, _ := asMap(m["spec"])
	if spec == nil {
		spec = map[string]interface{}{}
	}
	tmpl, tmplPresent := asMap(spec["template"])
	body, hash := 0, ""
	if tmplPresent {
		body = absTmplBody(tmpl)
		hash = nestedStr(tmpl, "metadata", "labels", hashLabelKey)
	}
	var csPartition interface{}
	if us, ok := asMap(spec["updateStrategy"]); ok {
		csPartition = absIOS(us["partition"])
	}
	paused, _ := spec["paused"].(bool)
	var stratRU interface{}
	if v, ok := nestedVal(spec, "strategy", "rollingUpdate"); ok {
		stratRU = absRU(v)
	}
	return J{
		"group":          groupOfAPIVersion(nestedStr(m, "apiVersion")),
		"kind":           nestedStr(m, "kind"),
		"name":           nestedStr(m, "metadata", "name"),
		"wtype":          nestedStr(m, "metadata", "labels", workloadTypeKey),
		"replicas":       nestedIntPtr(spec, "replicas"),
		"rolloutId":      nestedStr(m, "metadata", "annotations", rolloutIDKey),
		"tmplPresent":    tmplPresent,
		"tmpl":           J{"body": body, "hash": hash},
		"inProgress":     absInProgress(nestedStr(m, "metadata", "annotations", inProgressKey)),
		"paused":         paused,
		"stratType":      nestedStr(spec, "strategy", "type"),
		"stratRU":        stratRU,
		"stratAnno":      absStratAnno(nestedStr(m, "metadata", "annotations", stratAnnoKey)),
		"origStrat":      len(nestedStr(m, "metadata", "annotations", origStratKey)) > 0,
		"stableRev":      nestedStr(m, "metadata", "labels", stableRevKey),
		"csPartition":    csPartition,
		"statusReplicas": nestedInt(m, "status", "replicas"),
		"statusUpdated":  nestedInt(m, "status", "updatedReplicas"),
		"us":             absUS(spec),
		"rest":           0,
	}
}

// stripModelled removes every path the model abstracts *and may change*; what remains is `rest`.
func stripModelled(raw []byte) map[string]interface{} {
	m := map[string]interface{}{}
	must(json.Unmarshal(raw, &m))
	del := func(path ...string) {
		parent, ok := nestedVal(m, path[:len(path)-1]...)
		if !ok {
			return
		}
		if pm, ok := asMap(parent); ok {
			delete(pm, path[len(path)-1])
		}
	}
	pruneEmpty := func(path ...string) {
		v, ok := nestedVal(m, path...)
		if !ok {
			return
		}
		if vm, ok := asMap(v); ok && len(vm) == 0 {
			del(path...)
		}
	}
	del("metadata", "annotations", inProgressKey)
	del("metadata", "annotations", stratAnnoKey)
	del("metadata", "labels", stableRevKey)
	del("spec", "paused")
	del("spec", "strategy")
	// a non-object updateStrategy / rollingUpdate is abstracted as a whole ("malformed")
	if v, ok := nestedVal(m, "spec", "updateStrategy"); ok {
		if _, isMap := asMap(v); !isMap {
			del("spec", "updateStrategy")
		}
	}
	if v, ok := nestedVal(m, "spec", "updateStrategy", "rollingUpdate"); ok {
		if _, isMap := asMap(v); !isMap {
			del("spec", "updateStrategy", "rollingUpdate")
		}
	}
	del("spec", "updateStrategy", "partition")
	del("spec", "updateStrategy", "type")
	del("spec", "updateStrategy", "rollingUpdate", "partition")
	pruneEmpty("metadata", "annotations")
	pruneEmpty("metadata", "labels")
	pruneEmpty("spec", "updateStrategy", "rollingUpdate")
	pruneEmpty("spec", "updateStrategy")
	return m
}

func absRollout(r *rolloutsv1beta1.Rollout) J {
	st := &r.Spec.Strategy
	traffic := false
	if st.BlueGreen != nil {
		traffic = len(st.BlueGreen.TrafficRoutings) > 0
	} else if st.Canary != nil {
		traffic = len(st.Canary.TrafficRoutings) > 0
	}
	return J{
		"name":       r.Name,
		"deleting":   !r.DeletionTimestamp.IsZero(),
		"disabled":   r.Status.Phase == rolloutsv1beta1.RolloutPhaseDisabled,
		"apiVersion": r.Spec.WorkloadRef.APIVersion,
		"kind":       r.Spec.WorkloadRef.Kind,
		"refName":    r.Spec.WorkloadRef.Name,
		"empty":      st.BlueGreen == nil && st.Canary == nil,
		"traffic":    traffic,
	}
}

func absRS(rs *apps.ReplicaSet, depUID types.UID, depSelector labels.Selector) J {
	var replicas interface{}
	if rs.Spec.Replicas != nil {
		replicas = int(*rs.Spec.Replicas)
	}
	ctrl := "none"
	if ref := metav1.GetControllerOf(rs); ref != nil {
		if ref.UID == depUID {
			ctrl = "same"
		} else {
			ctrl = "other"
		}
	}
	var rev interface{}
	if n, err := strconv.Atoi(rs.Annotations[util.DeploymentRevisionAnnotation]); err == nil {
		rev = n
	}
	tb, _ := json.Marshal(rs.Spec.Template)
	tm := map[string]interface{}{}
	must(json.Unmarshal(tb, &tm))
	return J{
		"deleting": !rs.DeletionTimestamp.IsZero(),
		"replicas": replicas,
		"ctrl":     ctrl,
		"selected": depSelector != nil && depSelector.Matches(labels.Set(rs.Labels)),
		"body":     absTmplBody(tm),
		"hash":     rs.Labels[hashLabelKey],
		"rev":      rev,
		"created":  int(rs.CreationTimestamp.Unix()),
	}
}

func absCfg(cfg *admregv1.MutatingWebhookConfiguration, attr apiserveradmission.Attributes) interface{} {
	if cfg == nil {
		return nil
	}
	out := []interface{}{}
	for _, wh := range cfg.Webhooks {
		rules := []interface{}{}
		for _, rule := range wh.Rules {
			m := webhookutil.Matcher{Rule: rule, Attr: attr}
			rules = append(rules, m.Matches())
		}
		sel := ""
		switch {
		case wh.ObjectSelector == nil:
			sel = "nil"
		default:
			if _, err := metav1.LabelSelectorAsSelector(wh.ObjectSelector); err != nil {
				sel = "invalid"
			} else if len(wh.ObjectSelector.MatchLabels) == 0 && len(wh.ObjectSelector.MatchExpressions) == 0 {
				sel = "everything"
			} else if len(wh.ObjectSelector.MatchLabels) == 0 && len(wh.ObjectSelector.MatchExpressions) == 1 &&
				wh.ObjectSelector.MatchExpressions[0].Key == workloadTypeKey &&
				wh.ObjectSelector.MatchExpressions[0].Operator == metav1.LabelSelectorOpExists {
				sel = "existsWT"
			} else {
				panic("webhook suite: selector shape outside the abstraction")
			}
		}
		out = append(out, J{"rules": rules, "sel": sel})
	}
	return out
}

// ---------------------------------------------------------------- running one case

type whParsed struct {
	cfg      *admregv1.MutatingWebhookConfiguration
	rollouts []*rolloutsv1beta1.Rollout
	rss      []*apps.ReplicaSet
	newMeta  metav1.ObjectMeta
	depSel   labels.Selector
}

func whParse(g *whGen) *whParsed {
	p := &whParsed{}
	if len(g.Cfg) > 0 && string(g.Cfg) != "null" {
		p.cfg = &admregv1.MutatingWebhookConfiguration{}
		must(json.Unmarshal(g.Cfg, p.cfg))
	}
	for _, r := range g.Rollouts {
		o := &rolloutsv1beta1.Rollout{}
		must(json.Unmarshal(r, o))
		p.rollouts = append(p.rollouts, o)
	}
	for _, r := range g.RSs {
		o := &apps.ReplicaSet{}
		must(json.Unmarshal(r, o))
		p.rss = append(p.rss, o)
	}
	// metadata and selector of the submitted object, read leniently
	nm := map[string]interface{}{}
	must(json.Unmarshal(g.New, &nm))
	if md, ok := nm["metadata"]; ok {
		by, _ := json.Marshal(md)
		_ = json.Unmarshal(by, &p.newMeta)
	}
	if sv, ok := nestedVal(nm, "spec", "selector"); ok && sv != nil { // nil selector selects nothing
		by, _ := json.Marshal(sv)
		ls := &metav1.LabelSelector{}
		if json.Unmarshal(by, ls) == nil {
			if s, err := metav1.LabelSelectorAsSelector(ls); err == nil {
				p.depSel = s
			}
		}
	}
	return p
}

func whRequest(g *whGen) admission.Request {
	req := admission.Request{AdmissionRequest: admissionv1.AdmissionRequest{
		UID:         "verif",
		Kind:        metav1.GroupVersionKind{Group: g.Group, Version: g.Version, Kind: g.Kind},
		Resource:    metav1.GroupVersionResource{Group: g.Group, Version: g.Version, Resource: g.Resource},
		SubResource: g.Sub,
		Namespace:   g.Namespace,
		Operation:   admissionv1.Operation(g.Op),
		Object:      runtime.RawExtension{Raw: g.New},
		OldObject:   runtime.RawExtension{Raw: g.Old},
	}}
	if g.DryRun {
		f := false
		req.DryRun = &f
	}
	return req
}

// whAbstractIn computes the abstract request from the concrete one.
func whAbstractIn(g *whGen, p *whParsed) J {
	// the attributes `constructAttr` builds (DryRun forced: the abstraction of the rules must not panic)
	obj := unstructured.Unstructured{}
	must(json.Unmarshal(g.New, &obj))
	attr := apiserveradmission.NewAttributesRecord(&obj, nil, obj.GetObjectKind().GroupVersionKind(), obj.GetNamespace(), obj.GetName(),
		schema.GroupVersionResource{Group: g.Group, Version: g.Version, Resource: g.Resource},
		g.Sub, apiserveradmission.Operation(g.Op), nil, false, nil)

	// List semantics of the API server: namespace filter, name order
	ros := []*rolloutsv1beta1.Rollout{}
	for _, r := range p.rollouts {
		if r.Namespace == p.newMeta.Namespace {
			ros = append(ros, r)
		}
	}
	sort.Slice(ros, func(i, j int) bool { return ros[i].Name < ros[j].Name })
	aro := []interface{}{}
	for _, r := range ros {
		aro = append(aro, absRollout(r))
	}
	rss := []*apps.ReplicaSet{}
	for _, r := range p.rss {
		if r.Namespace == p.newMeta.Namespace {
			rss = append(rss, r)
		}
	}
	sort.Slice(rss, func(i, j int) bool { return rss[i].Name < rss[j].Name })
	ars := []interface{}{}
	for _, r := range rss {
		ars = append(ars, absRS(r, p.newMeta.UID, p.depSel))
	}
	om := map[string]interface{}{}
	must(json.Unmarshal(g.Old, &om))
	_, oldMeta := om["metadata"]
	return J{
		"unified":  g.Unified,
		"op":       g.Op,
		"sub":      g.Sub,
		"dryRun":   g.DryRun,
		"cfg":      absCfg(p.cfg, attr),
		"old":      absObj(g.Old),
		"new":      absObj(g.New),
		"oldMeta":  oldMeta,
		"rollouts": aro,
		"rss":      ars,
		"gen":      g,
	}
}

func whClient(p *whParsed) client.Client {
	objs := []client.Object{}
	if p.cfg != nil {
		objs = append(objs, p.cfg.DeepCopy())
	}
	for _, r := range p.rollouts {
		objs = append(objs, r.DeepCopy())
	}
	for _, r := range p.rss {
		objs = append(objs, r.DeepCopy())
	}
	return fake.NewClientBuilder().WithScheme(whScheme).WithObjects(objs...).Build()
}

var whDecoder = func() *admission.Decoder {
	d, err := admission.NewDecoder(whScheme)
	must(err)
	return d
}()

// whImpl calls the real handler and abstracts the fate of the request.
func whImpl(g *whGen, p *whParsed) (res interface{}) {
	r, _ := whImplF(g, p, 0)
	return r
}

// whImplF: failN > 0 makes the failN-th API call of the handler fail.  For the fault sweep "err" = the request was not admitted.
func whImplF(g *whGen, p *whParsed, failN int) (res interface{}, fr faultRun) {
	lc := NewLogClient(whClient(p))
	defer func() {
		if r := recover(); r != nil {
			res = J{"res": "panic"}
			fr = faultRun{Err: true, Calls: lc.Calls, Hit: lc.FaultHit, Writes: writesOf(lc)}
		}
	}()
	var cl client.Client = lc
	lc.FailCallN = failN
	defer func() {
		admitted := false
		if m, ok := res.(J); ok && m["res"] == "admitted" {
			admitted = true
		}
		fr = faultRun{Err: !admitted, Calls: lc.Calls, Hit: lc.FaultHit, Writes: writesOf(lc)}
	}()
	req := whRequest(g)
	var resp admission.Response
	if g.Unified {
		h := &mutating.UnifiedWorkloadHandler{Client: cl, Decoder: whDecoder, Finder: util.NewControllerFinder(cl)}
		resp = h.Handle(context.TODO(), req)
	} else {
		h := &mutating.WorkloadHandler{Client: cl, Decoder: whDecoder, Finder: util.NewControllerFinder(cl)}
		resp = h.Handle(context.TODO(), req)
	}
	if !resp.Allowed {
		return J{"res": "rejected"}, fr
	}
	patched := []byte(g.New)
	if len(resp.Patches) > 0 {
		pb, err := json.Marshal(resp.Patches)
		must(err)
		patch, err := jsonpatch.DecodePatch(pb)
		if err != nil {
			return J{"res": "patchError"}, fr
		}
		patched, err = patch.Apply(g.New)
		if err != nil {
			return J{"res": "patchError"}, fr
		}
	}
	o := absObj(patched)
	if !reflect.DeepEqual(stripModelled(patched), stripModelled(g.New)) {
		o["rest"] = 1
	}
	return J{"res": "admitted", "obj": o}, fr
}

func whEmit(c *Ctx, g *whGen) {
	p := whParse(g)
	in := whAbstractIn(g, p)
	impl := whImpl(g, p)
	c.Emit("handle", in, impl)
}

func replayWebhook(c *Ctx, op string, in json.RawMessage) {
	var w struct {
		Gen whGen `json:"gen"`
	}
	must(json.Unmarshal(in, &w))
	switch op {
	case "fault":
		var f struct {
			In struct {
				Gen whGen `json:"gen"`
			} `json:"in"`
			K int `json:"k"`
		}
		must(json.Unmarshal(in, &f))
		p := whParse(&f.In.Gen)
		faultReplay(c, J{"gen": &f.In.Gen}, f.K, func(n int) faultRun { _, r := whImplF(&f.In.Gen, p, n); return r })
	case "handle":
		whEmit(c, &w.Gen)
	case "fetch":
		whEmitFetch(c, &w.Gen)
	case "effChange":
		whEmitEff(c, &w.Gen)
	}
}

// direct differential checks of two unexported functions (through zz_verif.go hooks)

func whEmitFetch(c *Ctx, g *whGen) {
	p := whParse(g)
	in := whAbstractIn(g, p)
	impl := guard(func() interface{} {
		cl := whClient(p)
		obj := &unstructured.Unstructured{}
		must(json.Unmarshal(g.New, obj))
		var r *rolloutsv1beta1.Rollout
		var err error
		if g.Unified {
			h := &mutating.UnifiedWorkloadHandler{Client: cl, Decoder: whDecoder, Finder: util.NewControllerFinder(cl)}
			r, err = h.VerifFetchMatchedRollout(obj)
		} else {
			h := &mutating.WorkloadHandler{Client: cl, Decoder: whDecoder, Finder: util.NewControllerFinder(cl)}
			r, err = h.VerifFetchMatchedRollout(obj)
		}
		if err != nil {
			return J{"err": true}
		}
		if r == nil {
			return J{"rollout": nil}
		}
		return J{"rollout": r.Name}
	})
	c.Emit("fetch", in, impl)
}

func whEmitEff(c *Ctx, g *whGen) {
	if g.Group != "apps" || g.Kind != "Deployment" {
		return
	}
	p := whParse(g)
	in := whAbstractIn(g, p)
	impl := guard(func() interface{} {
		o, n := &apps.Deployment{}, &apps.Deployment{}
		must(json.Unmarshal(g.Old, o))
		must(json.Unmarshal(g.New, n))
		return mutating.VerifIsEffectiveDeploymentRevisionChange(o, n)
	})
	c.Emit("effChange", in, impl)
}

// ---------------------------------------------------------------- generator

// wlP: parameters of one workload object; `new` is derived from `old` by edits on this struct.
type wlP struct {
	Combo       string // dep | cs | ds | sts | asts | custom
	Name        string
	UID         string
	WType       string
	ExtraLabel  string
	IDLabel     string // a *label* with the rollout-id key (the webhook reads the annotation only; a label with that key means nothing to it)
	ExtraAnno   string
	// the workload carries the BatchRelease control-info annotation (a BatchRelease has taken it over). The admission webhook
	// does not read it: whether a change is held back / corrected must not depend on it
	CtlInfo  bool
	Replicas *int
	RolloutID   string
	Body        int
	Hash        string
	TmplVariant int
	TmplAbsent  bool
	InProgress  string
	StratAnno   string
	OrigStrat   string
	StableRev   string
	Paused      bool
	StratType   string
	StratRU     *apps.RollingUpdateDeployment
	SelectorNil bool
	CsPartition *intstr.IntOrString
	StReplicas  int
	StUpdated   int
	USType      string
	USMode      string // "" (as typed) | absent | malformed   (sts-like only)
	RUMode      string // absent | present | malformed(sts-like only)
	Partition   *int
	RUExtra     bool
	MetaAbsent  bool // sts-like old object only
	Generation  int
}

func whTemplate(p *wlP) corev1.PodTemplateSpec {
	t := corev1.PodTemplateSpec{}
	if p.Body > 0 {
		t.Labels = map[string]string{"app": "demo"}
		t.Spec.Containers = []corev1.Container{{Name: "main", Image: fmt.Sprintf("img:%d", p.Body)}}
	}
	if p.Hash != "" {
		if t.Labels == nil {
			t.Labels = map[string]string{}
		}
		t.Labels[hashLabelKey] = p.Hash
	} else if p.TmplVariant == 1 && t.Labels == nil {
		t.Labels = map[string]string{} // nil vs empty map: equal for Semantic.DeepEqual
	}
	return t
}

func whMeta(p *wlP) metav1.ObjectMeta {
	m := metav1.ObjectMeta{Name: p.Name, Namespace: whNS, UID: types.UID(p.UID), Generation: int64(p.Generation)}
	lab := map[string]string{}
	if p.WType != "" {
		lab[workloadTypeKey] = p.WType
	}
	if p.ExtraLabel != "" {
		lab["team"] = p.ExtraLabel
	}
	if p.IDLabel != "" {
		lab[rolloutIDKey] = p.IDLabel
	}
	if p.StableRev != "" {
		lab[stableRevKey] = p.StableRev
	}
	if len(lab) > 0 {
		m.Labels = lab
	}
	an := map[string]string{}
	if p.ExtraAnno != "" {
		an["note"] = p.ExtraAnno
	}
	if p.CtlInfo {
		an[util.BatchReleaseControlAnnotation] = `{"apiVersion":"rollouts.kruise.io/v1beta1","kind":"BatchRelease","name":"rollout-demo","uid":"br-uid","controller":true,"blockOwnerDeletion":true}`
	}
	if p.RolloutID != "" {
		an[rolloutIDKey] = p.RolloutID
	}
	if p.InProgress != "" {
		an[inProgressKey] = p.InProgress
	}
	if p.StratAnno != "" {
		an[stratAnnoKey] = p.StratAnno
	}
	if p.OrigStrat != "" {
		an[origStratKey] = p.OrigStrat
	}
	if len(an) > 0 {
		m.Annotations = an
	}
	return m
}

func i32ptr(p *int) *int32 {
	if p == nil {
		return nil
	}
	v := int32(*p)
	return &v
}

func whSelector(p *wlP) *metav1.LabelSelector {
	if p.SelectorNil {
		return nil
	}
	return &metav1.LabelSelector{MatchLabels: map[string]string{"app": "demo"}}
}

// whRaw builds the raw JSON of the workload from the repo's / Kruise's / Kubernetes' own types.
func whRaw(p *wlP) json.RawMessage {
	var obj interface{}
	switch p.Combo {
	case "dep":
		d := &apps.Deployment{TypeMeta: metav1.TypeMeta{APIVersion: "apps/v1", Kind: "Deployment"}, ObjectMeta: whMeta(p)}
		d.Spec.Replicas = i32ptr(p.Replicas)
		d.Spec.Selector = whSelector(p)
		d.Spec.Template = whTemplate(p)
		d.Spec.Paused = p.Paused
		d.Spec.Strategy = apps.DeploymentStrategy{Type: apps.DeploymentStrategyType(p.StratType), RollingUpdate: p.StratRU}
		d.Status.Replicas, d.Status.UpdatedReplicas = int32(p.StReplicas), int32(p.StUpdated)
		obj = d
	case "cs":
		d := &kruisev1alpha1.CloneSet{TypeMeta: metav1.TypeMeta{APIVersion: "apps.kruise.io/v1alpha1", Kind: "CloneSet"}, ObjectMeta: whMeta(p)}
		d.Spec.Replicas = i32ptr(p.Replicas)
		d.Spec.Selector = whSelector(p)
		d.Spec.Template = whTemplate(p)
		d.Spec.UpdateStrategy.Type = kruisev1alpha1.CloneSetUpdateStrategyType(p.USType)
		d.Spec.UpdateStrategy.Partition = p.CsPartition
		if p.RUExtra {
			mu := intstr.FromInt(1)
			d.Spec.UpdateStrategy.MaxUnavailable = &mu
		}
		d.Status.Replicas, d.Status.UpdatedReplicas = int32(p.StReplicas), int32(p.StUpdated)
		obj = d
	case "ds":
		d := &kruisev1alpha1.DaemonSet{TypeMeta: metav1.TypeMeta{APIVersion: "apps.kruise.io/v1alpha1", Kind: "DaemonSet"}, ObjectMeta: whMeta(p)}
		d.Spec.Selector = whSelector(p)
		d.Spec.Template = whTemplate(p)
		d.Spec.UpdateStrategy.Type = kruisev1alpha1.DaemonSetUpdateStrategyType(p.USType)
		if p.RUMode == "present" {
			ru := &kruisev1alpha1.RollingUpdateDaemonSet{Partition: i32ptr(p.Partition)}
			if p.RUExtra {
				mu := intstr.FromInt(1)
				ru.MaxUnavailable = &mu
			}
			d.Spec.UpdateStrategy.RollingUpdate = ru
		}
		d.Status.DesiredNumberScheduled, d.Status.UpdatedNumberScheduled = int32(p.StReplicas), int32(p.StUpdated)
		obj = d
	case "sts":
		d := &apps.StatefulSet{TypeMeta: metav1.TypeMeta{APIVersion: "apps/v1", Kind: "StatefulSet"}, ObjectMeta: whMeta(p)}
		d.Spec.Replicas = i32ptr(p.Replicas)
		d.Spec.Selector = whSelector(p)
		d.Spec.Template = whTemplate(p)
		d.Spec.UpdateStrategy.Type = apps.StatefulSetUpdateStrategyType(p.USType)
		if p.RUMode == "present" {
			d.Spec.UpdateStrategy.RollingUpdate = &apps.RollingUpdateStatefulSetStrategy{Partition: i32ptr(p.Partition)}
			if p.RUExtra {
				mu := intstr.FromInt(1)
				d.Spec.UpdateStrategy.RollingUpdate.MaxUnavailable = &mu
			}
		}
		d.Status.Replicas, d.Status.UpdatedReplicas = int32(p.StReplicas), int32(p.StUpdated)
		obj = d
	case "asts", "custom":
		d := &kruisev1beta1.StatefulSet{TypeMeta: metav1.TypeMeta{APIVersion: "apps.kruise.io/v1beta1", Kind: "StatefulSet"}, ObjectMeta: whMeta(p)}
		d.Spec.Replicas = i32ptr(p.Replicas)
		d.Spec.Selector = whSelector(p)
		d.Spec.Template = whTemplate(p)
		d.Spec.UpdateStrategy.Type = apps.StatefulSetUpdateStrategyType(p.USType)
		if p.RUMode == "present" {
			d.Spec.UpdateStrategy.RollingUpdate = &kruisev1beta1.RollingUpdateStatefulSetStrategy{Partition: i32ptr(p.Partition)}
			if p.RUExtra {
				mu := intstr.FromInt(1)
				d.Spec.UpdateStrategy.RollingUpdate.MaxUnavailable = &mu
			}
		}
		d.Status.Replicas, d.Status.UpdatedReplicas = int32(p.StReplicas), int32(p.StUpdated)
		obj = d
	default:
		panic("combo " + p.Combo)
	}
	by, err := json.Marshal(obj)
	must(err)
	m := map[string]interface{}{}
	must(json.Unmarshal(by, &m))
	// what an API server never sends but typed marshalling adds
	if md, ok := asMap(m["metadata"]); ok {
		delete(md, "creationTimestamp")
	}
	if p.Combo == "custom" {
		m["apiVersion"], m["kind"] = "games.example.io/v1", "GameServerSet"
	}
	spec, _ := asMap(m["spec"])
	if t, ok := asMap(spec["template"]); ok {
		if md, ok := asMap(t["metadata"]); ok {
			delete(md, "creationTimestamp")
		}
	}
	// shapes only raw JSON can have (StatefulSet-like objects go through the unstructured path)
	if p.Combo == "sts" || p.Combo == "asts" || p.Combo == "custom" {
		if p.TmplAbsent {
			delete(spec, "template")
		}
		switch p.USMode {
		case "absent":
			delete(spec, "updateStrategy")
		case "malformed":
			spec["updateStrategy"] = "RollingUpdate"
		default:
			if us, ok := asMap(spec["updateStrategy"]); ok && p.RUMode == "malformed" {
				us["rollingUpdate"] = "yes"
			}
		}
		if p.MetaAbsent {
			delete(m, "metadata")
		}
	}
	if p.Combo == "ds" && p.USMode == "malformed" {
		spec["updateStrategy"] = "RollingUpdate"
	}
	out, err := json.Marshal(m)
	must(err)
	return out
}

// bias: half of the cases are steered towards the hold path (selected, release change, an active
// matching Rollout, running ReplicaSets); all other dimensions stay random.
type whG struct {
	c    *Ctx
	bias bool
}

// pb: probability (percent) `normal`, or `biased` in a steered case.
func (g *whG) pb(normal, biased int) bool {
	if g.bias {
		return g.p(biased)
	}
	return g.p(normal)
}

func (g *whG) n(k int) int              { return g.c.Rng.Intn(k) }
func (g *whG) p(pct int) bool           { return g.c.Rng.Intn(100) < pct }
func (g *whG) pick(xs ...string) string { return xs[g.n(len(xs))] }
func (g *whG) intp(v int) *int          { return &v }

func (g *whG) iosPtr() *intstr.IntOrString {
	var v intstr.IntOrString
	switch g.n(9) {
	case 0:
		return nil
	case 1:
		v = intstr.FromInt(0)
	case 2:
		v = intstr.FromInt(1)
	case 3:
		v = intstr.FromInt(g.n(5))
	case 4:
		v = intstr.FromString("0%")
	case 5:
		v = intstr.FromString("25%")
	case 6:
		v = pct(g.n(101))
	case 7:
		v = intstr.FromString("abc")
	default:
		v = intstr.FromString("100%")
	}
	return &v
}

func (g *whG) ru() *apps.RollingUpdateDeployment {
	if g.p(40) {
		return nil
	}
	return &apps.RollingUpdateDeployment{MaxUnavailable: g.iosPtr(), MaxSurge: g.iosPtr()}
}

func (g *whG) stratAnno(style string) string {
	if style == "" {
		switch g.n(10) {
		case 0:
			return "{" // not JSON
		case 1, 2, 3, 4:
			return ""
		}
		style = g.pick("Canary", "BlueGreen", "", "Partition", "partition", "PARTITION")
	}
	s := rolloutsv1alpha1.DeploymentStrategy{RollingStyle: rolloutsv1alpha1.RollingStyleType(style), RollingUpdate: g.ru(), Paused: g.p(50)}
	if v := g.iosPtr(); v != nil {
		s.Partition = *v
	}
	by, _ := json.Marshal(&s)
	return string(by)
}

var whRolloutNames = []string{"alpha", "bravo", "charlie", "delta", "echo", "foxtrot"}

func (g *whG) workload(combo string) *wlP {
	p := &wlP{Combo: combo, Name: g.pick("web", "api"), UID: "uid-dep", Generation: 3}
	if g.pb(88, 98) {
		p.WType = g.pick("deployment", "cloneset", "statefulset", "StatefulSet", "daemonset", "x")
		if (combo == "custom") && g.p(70) {
			p.WType = g.pick("statefulset", "StatefulSet", "STATEFULSET")
		}
	}
	if g.p(30) {
		p.ExtraLabel = "blue"
	}
	if g.p(20) {
		p.IDLabel = g.pick("1", "2", "legacy")
	}
	if g.p(30) {
		p.ExtraAnno = "n1"
	}
	p.CtlInfo = g.p(35)
	switch g.n(12) {
	case 0:
		p.Replicas = nil
	case 1:
		p.Replicas = g.intp(0)
		if g.bias && g.p(70) {
			p.Replicas = g.intp(2)
		}
	default:
		p.Replicas = g.intp(1 + g.n(10))
	}
	if g.p(35) {
		p.RolloutID = g.pick("1", "2", "v3")
	}
	p.Body = 1 + g.n(3)
	if g.p(4) {
		p.Body = 0
	}
	if g.p(50) {
		p.Hash = g.pick("h1", "h2")
	}
	p.TmplVariant = g.n(2)
	p.StReplicas = g.n(6)
	p.StUpdated = p.StReplicas
	if g.p(30) {
		p.StUpdated = g.n(p.StReplicas + 1)
	}
	switch combo {
	case "dep":
		p.Paused = g.p(30)
		p.StratType = g.pick("RollingUpdate", "RollingUpdate", "Recreate", "")
		if p.StratType != "Recreate" {
			p.StratRU = g.ru()
		}
		p.SelectorNil = g.p(3)
		if g.p(12) {
			p.StableRev = "old-stable"
		}
		if g.pb(38, 12) {
			// in progress
			p.InProgress = g.pick(`{"rolloutName":"alpha"}`, `{"rolloutName":"bravo"}`, `{"rolloutName":""}`, "garbage", `{"rolloutName": "spaced"}`)
			switch g.n(3) {
			case 0: // partition style
				p.StratAnno = g.stratAnno(g.pick("Partition", "Partition", "partition", "PARTITION"))
				if g.p(60) {
					p.StratType = "Recreate"
					p.StratRU = nil
					if g.p(70) {
						// the state BatchRelease.Initialize leaves behind: taken over, paused, Recreate
						p.CtlInfo, p.Paused = true, true
					}
				}
			case 1: // blue-green
				p.OrigStrat = `{"maxSurge":"25%"}`
				p.StratAnno = g.stratAnno("")
			default: // canary
				p.StratAnno = g.stratAnno("")
			}
		} else {
			if g.p(25) {
				p.StratAnno = g.stratAnno("")
			}
			if g.p(6) {
				p.OrigStrat = "x"
			}
		}
	case "cs":
		p.USType = g.pick("", "ReCreate", "InPlaceIfPossible")
		p.CsPartition = g.iosPtr()
		p.RUExtra = g.p(40)
		if g.p(15) {
			p.InProgress = `{"rolloutName":"alpha"}`
		}
	case "ds":
		p.USType = g.pick("RollingUpdate", "RollingUpdate", "OnDelete", "")
		p.RUMode = "present"
		if g.p(18) || (p.USType == "OnDelete" && g.p(60)) {
			p.RUMode = "absent"
		}
		if g.p(50) {
			p.Partition = g.intp(g.n(5))
		}
		p.RUExtra = g.p(50)
		if g.p(2) {
			p.USMode = "malformed"
		}
	default: // sts-like
		p.USType = g.pick("RollingUpdate", "RollingUpdate", "", "OnDelete", "InPlaceIfPossible")
		p.RUMode = g.pick("present", "present", "absent", "absent", "malformed")
		if g.p(50) {
			p.Partition = g.intp(g.n(5))
		}
		p.RUExtra = g.p(40)
		switch g.n(12) {
		case 0:
			p.USMode = "absent"
		case 1:
			p.USMode = "malformed"
		}
		p.TmplAbsent = g.pb(4, 1)
		if g.bias && g.p(60) {
			p.USType = g.pick("RollingUpdate", "")
			if p.USMode == "malformed" {
				p.USMode = ""
			}
		}
	}
	return p
}

// edit derives the submitted object from the stored one.
func (g *whG) edit(old *wlP) *wlP {
	n := *old
	if old.Replicas != nil {
		n.Replicas = g.intp(*old.Replicas)
	}
	n.Generation = old.Generation + 1
	k := 1
	if g.p(30) {
		k = 2
	}
	for i := 0; i < k; i++ {
		e := g.n(14)
		if g.bias && i == 0 && g.p(85) {
			e = g.n(6) // a release change
		}
		switch e {
		case 0, 1, 2, 3: // new pod template
			n.Body = 1 + (old.Body+g.n(2))%3
			if n.Body == old.Body {
				n.Body = 1 + old.Body%3
			}
		case 4, 5: // new rollout-id
			n.RolloutID = g.pick("1", "2", "v3", "7")
		case 6: // rollout-id removed
			n.RolloutID = ""
		case 7: // only the hash label / nil-vs-empty labels move
			n.Hash = g.pick("", "h1", "h9")
			n.TmplVariant = 1 - old.TmplVariant
		case 8: // scale
			n.Replicas = g.intp(g.n(6))
		case 9: // pause toggles / strategy edits
			n.Paused = !old.Paused
			if g.p(50) {
				n.StratType = g.pick("RollingUpdate", "Recreate", "")
				n.StratRU = nil
				if n.StratType != "Recreate" {
					n.StratRU = g.ru()
				}
			}
		case 10: // annotation-only edit
			n.ExtraAnno = g.pick("", "n2", "n3")
			n.ExtraLabel = g.pick("", "green")
		case 11: // knob edited by the user
			n.CsPartition = g.iosPtr()
			if g.p(50) {
				n.Partition = g.intp(g.n(4))
			} else {
				n.Partition = nil
			}
		case 12: // strategy annotation rewritten (e.g. by the controller)
			if old.Combo == "dep" && old.StratAnno != "" {
				n.StratAnno = g.stratAnno("")
			}
		default: // no further change
		}
	}
	if n.TmplAbsent && g.p(50) {
		n.TmplAbsent = false
	}
	n.MetaAbsent = false
	return &n
}

func (g *whG) rollout(name string, w *wlP, group, version, kind string, steer bool) *rolloutsv1beta1.Rollout {
	r := &rolloutsv1beta1.Rollout{TypeMeta: metav1.TypeMeta{APIVersion: "rollouts.kruise.io/v1beta1", Kind: "Rollout"},
		ObjectMeta: metav1.ObjectMeta{Name: name, Namespace: whNS}}
	av := group + "/" + version
	if group == "" {
		av = version
	}
	ref := rolloutsv1beta1.ObjectRef{APIVersion: av, Kind: kind, Name: w.Name}
	if !(g.p(70) || (steer && g.p(85))) {
		switch g.n(6) {
		case 0:
			ref.Name = "other"
		case 1:
			ref.Kind = g.pick("Deployment", "CloneSet", "StatefulSet", "DaemonSet", "GameServerSet")
		case 2:
			ref.APIVersion = g.pick("apps/v1", "apps.kruise.io/v1alpha1", "apps.kruise.io/v1beta1", "v1")
		case 3:
			ref.APIVersion = "a/b/c" // ParseGroupVersion error
		case 4:
			ref.APIVersion = group + "/v9" // other version of the same group still matches
		default:
			ref.APIVersion = g.pick("", "/", group)
		}
	}
	r.Spec.WorkloadRef = ref
	tr := []rolloutsv1beta1.TrafficRoutingRef(nil)
	if g.p(45) {
		tr = []rolloutsv1beta1.TrafficRoutingRef{{Service: "svc"}}
	}
	steps := []rolloutsv1beta1.CanaryStep{{Pause: rolloutsv1beta1.RolloutPause{}}}
	sk := g.n(10)
	if steer && sk == 0 && g.p(70) {
		sk = 6
	}
	switch sk {
	case 0: // empty release
	case 1, 2, 3:
		r.Spec.Strategy.BlueGreen = &rolloutsv1beta1.BlueGreenStrategy{Steps: steps, TrafficRoutings: tr}
	case 4, 5:
		r.Spec.Strategy.Canary = &rolloutsv1beta1.CanaryStrategy{Steps: steps, TrafficRoutings: tr, EnableExtraWorkloadForCanary: true}
	default:
		r.Spec.Strategy.Canary = &rolloutsv1beta1.CanaryStrategy{Steps: steps, TrafficRoutings: tr}
	}
	if g.p(12) && !(steer && g.p(70)) {
		now := metav1.NewTime(time.Unix(1700000000, 0))
		r.DeletionTimestamp = &now
		r.Finalizers = []string{"rollouts.kruise.io/rollout"}
	}
	r.Spec.Disabled = g.p(10)
	ph := g.n(8)
	if steer && ph == 0 && g.p(70) {
		ph = 3
	}
	switch ph {
	case 0:
		r.Status.Phase = rolloutsv1beta1.RolloutPhaseDisabled
	case 1:
		r.Status.Phase = rolloutsv1beta1.RolloutPhaseProgressing
	case 2:
		r.Status.Phase = ""
	default:
		r.Status.Phase = rolloutsv1beta1.RolloutPhaseHealthy
	}
	if g.p(8) && !steer {
		r.Namespace = "elsewhere"
	}
	return r
}

func (g *whG) replicaSets(d *wlP, oldBody int) []*apps.ReplicaSet {
	n := g.n(5)
	if g.pb(35, 55) {
		n = 1
	} else if g.bias && n == 0 {
		n = 2
	}
	out := []*apps.ReplicaSet{}
	names := []string{"rs-a", "rs-b", "rs-c", "rs-d", "rs-e"}
	g.c.Rng.Shuffle(len(names), func(i, j int) { names[i], names[j] = names[j], names[i] })
	for i := 0; i < n; i++ {
		body := oldBody
		if i > 0 || g.p(15) {
			body = 1 + g.n(3)
		}
		tp := &wlP{Body: body, Hash: fmt.Sprintf("hash%d", body)}
		rs := &apps.ReplicaSet{TypeMeta: metav1.TypeMeta{APIVersion: "apps/v1", Kind: "ReplicaSet"},
			ObjectMeta: metav1.ObjectMeta{Name: names[i], Namespace: whNS,
				Labels:            map[string]string{"app": "demo", hashLabelKey: fmt.Sprintf("hash%d-%d", body, i)},
				Annotations:       map[string]string{},
				CreationTimestamp: metav1.NewTime(time.Unix(int64(1600000000+100*g.n(4)), 0))}}
		rs.Spec.Template = whTemplate(tp)
		switch g.n(10) {
		case 0:
			rs.Spec.Replicas = i32p(0)
		case 1:
			if g.p(30) {
				rs.Spec.Replicas = nil // never from an API server (defaulted to 1)
			} else {
				rs.Spec.Replicas = i32p(1)
			}
		default:
			rs.Spec.Replicas = i32p(int32(1 + g.n(5)))
		}
		switch g.n(8) {
		case 0: // no revision annotation
		case 1:
			rs.Annotations[util.DeploymentRevisionAnnotation] = "x1"
		default:
			rs.Annotations[util.DeploymentRevisionAnnotation] = strconv.Itoa(1 + g.n(4))
		}
		t := true
		switch g.n(12) {
		case 0: // orphan
		case 1:
			rs.OwnerReferences = []metav1.OwnerReference{{APIVersion: "apps/v1", Kind: "Deployment", Name: d.Name, UID: "uid-someone-else", Controller: &t}}
		case 2:
			rs.OwnerReferences = []metav1.OwnerReference{{APIVersion: "apps/v1", Kind: "Deployment", Name: d.Name, UID: types.UID(d.UID)}} // not a controller ref
		default:
			rs.OwnerReferences = []metav1.OwnerReference{{APIVersion: "apps/v1", Kind: "Deployment", Name: d.Name, UID: types.UID(d.UID), Controller: &t}}
		}
		if g.p(6) {
			rs.Labels["app"] = "other"
		}
		if g.p(5) {
			delete(rs.Labels, hashLabelKey)
		}
		if g.p(6) {
			now := metav1.NewTime(time.Unix(1700000000, 0))
			rs.DeletionTimestamp = &now
			rs.Finalizers = []string{"keep"}
		}
		if g.p(4) {
			rs.Namespace = "elsewhere"
		}
		out = append(out, rs)
	}
	return out
}

var whExists = &metav1.LabelSelector{MatchExpressions: []metav1.LabelSelectorRequirement{{Key: workloadTypeKey, Operator: metav1.LabelSelectorOpExists}}}

func (g *whG) cfg() *admregv1.MutatingWebhookConfiguration {
	mode := g.n(40)
	if g.bias && g.p(85) {
		mode = 11 + g.n(29)
	}
	if mode == 0 {
		return nil
	}
	rule := func(groups, versions, resources []string, ops ...admregv1.OperationType) []admregv1.RuleWithOperations {
		return []admregv1.RuleWithOperations{{Operations: ops, Rule: admregv1.Rule{APIGroups: groups, APIVersions: versions, Resources: resources}}}
	}
	sel := func() *metav1.LabelSelector {
		switch {
		case mode <= 3:
			return &metav1.LabelSelector{}
		case mode == 4:
			return nil
		case mode == 5:
			return &metav1.LabelSelector{MatchExpressions: []metav1.LabelSelectorRequirement{{Key: workloadTypeKey, Operator: metav1.LabelSelectorOpIn}}} // In without values: conversion error
		}
		return whExists.DeepCopy()
	}
	whs := []admregv1.MutatingWebhook{
		{Name: "mcloneset.kb.io", Rules: rule([]string{"apps.kruise.io"}, []string{"v1alpha1"}, []string{"clonesets"}, admregv1.Update), ObjectSelector: sel()},
		{Name: "mdaemonset.kb.io", Rules: rule([]string{"apps.kruise.io"}, []string{"v1alpha1"}, []string{"daemonsets"}, admregv1.Update), ObjectSelector: sel()},
		{Name: "mdeployment.kb.io", Rules: rule([]string{"apps"}, []string{"v1"}, []string{"deployments"}, admregv1.Update), ObjectSelector: sel()},
		{Name: "munifiedworload.kb.io", Rules: rule([]string{"*"}, []string{"*"}, []string{"*"}, admregv1.Create, admregv1.Update), ObjectSelector: sel()},
	}
	switch mode {
	case 6: // the catch-all webhook is not installed
		whs = whs[:3]
	case 7: // only the catch-all, selector differs per webhook
		whs = whs[3:]
	case 8: // a first webhook whose selector rejects, a later one that accepts
		whs[0].Rules = rule([]string{"*"}, []string{"*"}, []string{"*"}, admregv1.Update)
		whs[0].ObjectSelector = nil
		whs[3].ObjectSelector = &metav1.LabelSelector{}
	case 9: // a first matching webhook with an invalid selector ends the search
		whs[0].Rules = rule([]string{"*"}, []string{"*"}, []string{"*"}, admregv1.Update)
		whs[0].ObjectSelector = &metav1.LabelSelector{MatchExpressions: []metav1.LabelSelectorRequirement{{Key: "k", Operator: metav1.LabelSelectorOpIn}}}
	case 10:
		whs = nil
	}
	return &admregv1.MutatingWebhookConfiguration{TypeMeta: metav1.TypeMeta{APIVersion: "admissionregistration.k8s.io/v1", Kind: "MutatingWebhookConfiguration"},
		ObjectMeta: metav1.ObjectMeta{Name: configuration.MutatingWebhookConfigurationName}, Webhooks: whs}
}

func webhookRawOf(o interface{}) json.RawMessage {
	by, err := json.Marshal(o)
	must(err)
	return by
}

func (g *whG) genCase() *whGen {
	g.bias = g.p(50)
	combo := ""
	switch x := g.n(100); {
	case x < 40:
		combo = "dep"
	case x < 55:
		combo = "cs"
	case x < 68:
		combo = "ds"
	case x < 80:
		combo = "sts"
	case x < 90:
		combo = "asts"
	default:
		combo = "custom"
	}
	old := g.workload(combo)
	nw := g.edit(old)
	if combo != "dep" && combo != "cs" && combo != "ds" && g.p(2) {
		old.MetaAbsent = true
	}
	out := &whGen{Op: "UPDATE", DryRun: true, Namespace: whNS}
	switch combo {
	case "dep":
		out.Group, out.Version, out.Kind, out.Resource = "apps", "v1", "Deployment", "deployments"
	case "cs":
		out.Group, out.Version, out.Kind, out.Resource = "apps.kruise.io", "v1alpha1", "CloneSet", "clonesets"
	case "ds":
		out.Group, out.Version, out.Kind, out.Resource = "apps.kruise.io", "v1alpha1", "DaemonSet", "daemonsets"
	case "sts":
		out.Group, out.Version, out.Kind, out.Resource = "apps", "v1", "StatefulSet", "statefulsets"
		out.Unified = true
	case "asts":
		out.Group, out.Version, out.Kind, out.Resource = "apps.kruise.io", "v1beta1", "StatefulSet", "statefulsets"
		out.Unified = true
	case "custom":
		out.Group, out.Version, out.Kind, out.Resource = "games.example.io", "v1", "GameServerSet", "gameserversets"
		out.Unified = true
	}
	// every update goes through the catch-all webhook too; StatefulSets may be sent to the typed handler
	if g.pb(8, 2) {
		out.Unified = !out.Unified
	}
	opk := g.n(60)
	if g.bias && g.p(80) {
		opk = 59
	}
	switch opk {
	case 0:
		out.Op = "CREATE"
	case 1:
		out.Sub = "status"
	case 2:
		out.Sub = "scale"
	case 3:
		out.Op = "DELETE"
	case 4:
		out.DryRun = false // req.DryRun == nil: never from an API server
	}
	out.Old, out.New = whRaw(old), whRaw(nw)
	if c := g.cfg(); c != nil {
		out.Cfg = webhookRawOf(c)
	} else {
		out.Cfg = json.RawMessage("null")
	}
	nr := g.n(4)
	if g.p(30) {
		nr = 1
	}
	names := append([]string{}, whRolloutNames...)
	g.c.Rng.Shuffle(len(names), func(i, j int) { names[i], names[j] = names[j], names[i] })
	if g.bias && nr == 0 {
		nr = 1 + g.n(3)
	}
	steered := g.n(nr + 1) // which Rollout (in generation order) is steered to match
	for i := 0; i < nr; i++ {
		out.Rollouts = append(out.Rollouts, webhookRawOf(g.rollout(names[i], nw, out.Group, out.Version, out.Kind, g.bias && i == steered)))
	}
	if combo == "dep" {
		for _, rs := range g.replicaSets(nw, old.Body) {
			out.RSs = append(out.RSs, webhookRawOf(rs))
		}
	}
	return out
}

func runWebhook(c *Ctx) {
	g := &whG{c: c}
	for i := 0; i < c.N; i++ {
		cs := g.genCase()
		whEmit(c, cs)
		if i%5 == 0 {
			// C06/C08: an API call of the handler fails (the Rollout List, the ReplicaSet List, …): the request is never admitted
			p := whParse(cs)
			faultSweep(c, J{"gen": cs}, true, func(n int) faultRun { _, r := whImplF(cs, p, n); return r })
		}
		if i%10 == 0 {
			whEmitFetch(c, cs)
			whEmitEff(c, cs)
		}
	}
}
