// rvh — the Go side of the correspondence check.
//
//	rvh <suite> [-seed N] [-n K] [-tier quick|thorough] [-out ops.jsonl] [-replay file]
//
// Every suite calls the real openkruise/rollouts code in-process (built from
// /repo's working tree with -tags verif) on generated inputs and writes one JSON
// line per case: {"suite","op","in","impl"}.  The Lean driver `rvdrv` evaluates
// the model and the property oracles on the same lines.
package main

import (
	"bufio"
	"encoding/json"
	"flag"
	"fmt"
	"io"
	"math/rand"
	"os"
	"sort"

	"k8s.io/klog/v2"
)

type J = map[string]interface{}

type Ctx struct {
	Suite string
	Rng   *rand.Rand
	N     int
	Tier  string
	Seed  int64
	out   *bufio.Writer
	Count int
	// pendingPath: prefix of the "case about to run" marker files (see Begin)
	pendingPath string
}

func (c *Ctx) Thorough() bool { return c.Tier == "thorough" }

// Begin records the case that is about to run in <out>.pending (overwritten each time), so that when the
// process itself dies (a panic on a goroutine nobody recovers, a fatal runtime error) the check can name
// the input it died on. Suites whose code under test may start goroutines call it before each case.
func (c *Ctx) Begin(op string, in interface{}) { c.BeginSlot(0, op, in) }

// BeginSlot is Begin for suites that run cases on several workers: one marker file per worker.
func (c *Ctx) BeginSlot(slot int, op string, in interface{}) {
	if c.pendingPath == "" {
		return
	}
	b, err := json.Marshal(J{"suite": c.Suite, "op": op, "in": in, "impl": J{"died": true}})
	if err == nil {
		_ = os.WriteFile(fmt.Sprintf("%s.%d", c.pendingPath, slot), append(b, '\n'), 0o644)
	}
}

// Done clears the marker of a slot (the case returned).
func (c *Ctx) Done(slot int) {
	if c.pendingPath != "" {
		_ = os.Remove(fmt.Sprintf("%s.%d", c.pendingPath, slot))
	}
}

// Emit writes one case.
func (c *Ctx) Emit(op string, in interface{}, impl interface{}) {
	line := J{"suite": c.Suite, "op": op, "in": in, "impl": impl}
	b, err := json.Marshal(line)
	if err != nil {
		panic(err)
	}
	c.out.Write(b)
	c.out.WriteByte('\n')
	c.Count++
}

// EmitAs writes one case that belongs to another suite's protocol (used by the closed-loop walks,
// whose individual reconciles are validated by the one-step models).
func (c *Ctx) EmitAs(suite, op string, in interface{}, impl interface{}) {
	line := J{"suite": suite, "op": op, "in": in, "impl": impl}
	b, err := json.Marshal(line)
	if err != nil {
		panic(err)
	}
	c.out.Write(b)
	c.out.WriteByte('\n')
	c.Count++
}

type SuiteFunc func(c *Ctx)
type ReplayFunc func(c *Ctx, op string, in json.RawMessage)

type suiteEntry struct {
	run    SuiteFunc
	replay ReplayFunc
}

var suites = map[string]suiteEntry{}

func register(name string, run SuiteFunc, replay ReplayFunc) {
	suites[name] = suiteEntry{run, replay}
}

func main() {
	klog.LogToStderr(false)
	klog.SetOutput(io.Discard)
	if len(os.Args) < 2 {
		names := []string{}
		for k := range suites {
			names = append(names, k)
		}
		sort.Strings(names)
		fmt.Fprintln(os.Stderr, "usage: rvh <suite> [flags]; suites:", names)
		os.Exit(2)
	}
	name := os.Args[1]
	fs := flag.NewFlagSet("rvh", flag.ExitOnError)
	seed := fs.Int64("seed", 1, "PRNG seed")
	n := fs.Int("n", 1000, "number of random cases")
	tier := fs.String("tier", "quick", "quick|thorough")
	out := fs.String("out", "-", "output file")
	replay := fs.String("replay", "", "replay the inputs of this jsonl file through the implementation")
	fs.Parse(os.Args[2:])
	e, ok := suites[name]
	if !ok {
		fmt.Fprintln(os.Stderr, "unknown suite", name)
		os.Exit(2)
	}
	var w *os.File = os.Stdout
	if *out != "-" {
		f, err := os.Create(*out)
		if err != nil {
			panic(err)
		}
		defer f.Close()
		w = f
	}
	c := &Ctx{Suite: name, Rng: rand.New(rand.NewSource(*seed)), N: *n, Tier: *tier, Seed: *seed, out: bufio.NewWriterSize(w, 1<<20)}
	if *out != "-" {
		c.pendingPath = *out + ".pending"
	}
	defer c.out.Flush()
	if *replay != "" {
		if e.replay == nil {
			fmt.Fprintln(os.Stderr, "suite has no replay")
			os.Exit(2)
		}
		f, err := os.Open(*replay)
		if err != nil {
			panic(err)
		}
		defer f.Close()
		sc := bufio.NewScanner(f)
		sc.Buffer(make([]byte, 1<<20), 1<<26)
		for sc.Scan() {
			if len(sc.Bytes()) == 0 {
				continue
			}
			var l struct {
				Suite string          `json:"suite"`
				Op    string          `json:"op"`
				In    json.RawMessage `json:"in"`
			}
			if err := json.Unmarshal(sc.Bytes(), &l); err != nil {
				fmt.Fprintln(os.Stderr, "bad replay line:", err)
				os.Exit(2)
			}
			if l.Suite != "" && l.Suite != name {
				continue
			}
			e.replay(c, l.Op, l.In)
		}
		return
	}
	e.run(c)
}
