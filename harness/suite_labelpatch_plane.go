package main

// Suite "labelpatch", op "patch" with "via": the same labelling pass reached through the REAL control plane of an
// Advanced DaemonSet (partitionstyle.NewControlPlane(...).UpgradeBatch()): BuildController lists the owned pods, counts
// the updated ready ones, CalculateBatchContext hands the list to the label patcher. The model is the one of the bare
// patcher on the owned pods in List order with the context the real CalculateBatchContext computes; what the plane does to
// the pod list on the way (filters, counters) must not change what the patcher sees.

import (
	"context"
	"sort"

	kruisev1alpha1 "github.com/openkruise/kruise-api/apps/v1alpha1"
	"github.com/openkruise/rollouts/api/v1beta1"
	"github.com/openkruise/rollouts/pkg/controller/batchrelease/control/partitionstyle"
	pdaemonset "github.com/openkruise/rollouts/pkg/controller/batchrelease/control/partitionstyle/daemonset"
	corev1 "k8s.io/api/core/v1"
	metav1 "k8s.io/apimachinery/pkg/apis/meta/v1"
	"k8s.io/apimachinery/pkg/types"
	"k8s.io/client-go/tools/record"
	"sigs.k8s.io/controller-runtime/pkg/client"
)

var lpDSKey = types.NamespacedName{Namespace: lpNS, Name: "wl"}

func lpDSObjects(in *lpIn, pods []lpPod) []client.Object {
	ds := &kruisev1alpha1.DaemonSet{TypeMeta: metav1.TypeMeta{APIVersion: "apps.kruise.io/v1alpha1", Kind: "DaemonSet"}}
	ds.Namespace, ds.Name, ds.UID, ds.Generation = lpNS, "wl", types.UID("uid-ds"), 1
	ds.Spec.Selector = &metav1.LabelSelector{MatchLabels: map[string]string{"app": "demo"}}
	ds.Spec.Template = corev1.PodTemplateSpec{ObjectMeta: metav1.ObjectMeta{Labels: map[string]string{"app": "demo"}},
		Spec: corev1.PodSpec{Containers: []corev1.Container{{Name: "c", Image: "img:new"}}}}
	ds.Spec.UpdateStrategy.Type = kruisev1alpha1.RollingUpdateDaemonSetStrategyType
	ds.Spec.UpdateStrategy.RollingUpdate = &kruisev1alpha1.RollingUpdateDaemonSet{Partition: i32p(int32(in.Cfg.Replicas))}
	ds.Status.ObservedGeneration, ds.Status.DesiredNumberScheduled, ds.Status.DaemonSetHash = 1, int32(in.Cfg.Replicas), in.Cfg.Rev
	objs := []client.Object{ds}
	t := true
	for _, p := range pods {
		pod := p.build()
		if pod.Labels == nil {
			pod.Labels = map[string]string{}
		}
		pod.Labels["app"] = "demo"
		pod.OwnerReferences = []metav1.OwnerReference{{APIVersion: "apps.kruise.io/v1alpha1", Kind: "DaemonSet", Name: "wl", UID: ds.UID, Controller: &t}}
		pod.Status.Phase = corev1.PodRunning
		if !p.NotReady {
			pod.Status.Conditions = []corev1.PodCondition{{Type: corev1.PodReady, Status: corev1.ConditionTrue}}
		}
		objs = append(objs, pod)
	}
	return objs
}

func lpDSRelease(in *lpIn) *v1beta1.BatchRelease {
	r := &v1beta1.BatchRelease{TypeMeta: metav1.TypeMeta{APIVersion: "rollouts.kruise.io/v1beta1", Kind: "BatchRelease"}}
	r.Namespace, r.Name, r.UID, r.Generation = lpNS, "br", types.UID("br-uid"), 1
	r.Spec.WorkloadRef = v1beta1.ObjectRef{APIVersion: "apps.kruise.io/v1alpha1", Kind: "DaemonSet", Name: "wl"}
	r.Spec.ReleasePlan.Batches = in.Cfg.batches()
	r.Spec.ReleasePlan.RolloutID = in.Cfg.ID
	r.Spec.ReleasePlan.RollingStyle = v1beta1.PartitionRollingStyle
	r.Status.Phase = v1beta1.RolloutPhaseProgressing
	r.Status.UpdateRevision = in.Cfg.Rev
	r.Status.CanaryStatus.CurrentBatch = int32(in.Cfg.Cur)
	return r
}

// podRecClient records the successful Patch calls on Pods only (the plane patches the workload too)
type podRecClient struct{ recClient }

func (r *podRecClient) Patch(ctx context.Context, obj client.Object, patch client.Patch, opts ...client.PatchOption) error {
	if _, ok := obj.(*corev1.Pod); !ok {
		return r.Client.Patch(ctx, obj, patch, opts...)
	}
	return r.recClient.Patch(ctx, obj, patch, opts...)
}

type lpPlaneWorld struct {
	lpWorld
	rel *v1beta1.BatchRelease
}

func (w *lpPlaneWorld) pass() J {
	rec := &podRecClient{recClient{Client: w.cli}}
	res := "ok"
	func() {
		defer func() {
			if r := recover(); r != nil {
				res = "panic"
			}
		}()
		plane := partitionstyle.NewControlPlane(pdaemonset.NewController, rec, record.NewFakeRecorder(100), w.rel, w.rel.Status.DeepCopy(),
			lpDSKey, kruisev1alpha1.SchemeGroupVersion.WithKind("DaemonSet"))
		if err := plane.UpgradeBatch(); err != nil {
			res = "err"
		}
	}()
	return J{"res": res, "patches": lpCanonPatches(rec.patches)}
}

// lpPlaneCfg: the batch context the real control plane computes for this cluster, copied into the model's input.
// ok = false: the plane refuses the case (current batch outside the plan, …) - not a labelling case.
func lpPlaneCfg(in *lpIn, cli client.Client, rel *v1beta1.BatchRelease) (ok bool) {
	defer func() {
		if r := recover(); r != nil {
			ok = false
		}
	}()
	built, err := pdaemonset.NewController(cli, lpDSKey, kruisev1alpha1.SchemeGroupVersion.WithKind("DaemonSet")).BuildController()
	if err != nil {
		return false
	}
	bc, err := built.CalculateBatchContext(rel)
	if err != nil || bc == nil {
		return false
	}
	in.Cfg.Planned, in.Cfg.Desired, in.Cfg.Replicas = int(bc.PlannedUpdatedReplicas), int(bc.DesiredUpdatedReplicas), int(bc.Replicas)
	in.Cfg.Partition = map[string]interface{}{"i": bc.DesiredPartition.IntValue()}
	// the DaemonSet plane installs the unordered filter only for a release that recorded no-need-update pods
	in.Filter = "none"
	if bc.FilterFunc != nil {
		in.Filter = "unordered"
	}
	return true
}

func lpPlanePatch(c *Ctx, in *lpIn) {
	in.Via, in.RS = "daemonSet", nil
	for i := range in.Pods {
		in.Pods[i].Owner, in.Pods[i].Missing, in.Pods[i].Tmpl = nil, false, nil
	}
	sort.SliceStable(in.Pods, func(i, j int) bool { return in.Pods[i].Name < in.Pods[j].Name })
	rel := lpDSRelease(in)
	if in.Cfg.Cur < 0 || in.Cfg.Cur >= len(in.Cfg.Batches) || !lpPlaneCfg(in, fakeClient(lpDSObjects(in, in.Pods)...), rel) {
		return
	}
	w := &lpPlaneWorld{rel: rel}
	w.cli = fakeClient(lpDSObjects(in, in.Pods)...)
	first := w.pass()
	impl := J{"res": first["res"], "patches": first["patches"], "pods": lpPodsOnly(w.stored()), "second": nil, "scrambled": nil}
	if first["res"] == "ok" {
		impl["second"] = w.pass()
	}
	w2 := &lpPlaneWorld{rel: rel}
	w2.cli = fakeClient(lpDSObjects(in, lpScramble(in.Cfg.ID, in.Pods))...)
	impl["scrambled"] = w2.pass()
	c.Emit("patch", in, impl)
}

func lpPodsOnly(xs []J) []J { return xs }
