package main

import (
	"context"
	"encoding/json"
	"strconv"
	"strings"

	"github.com/openkruise/rollouts/api/v1alpha1"
	trctl "github.com/openkruise/rollouts/pkg/controller/trafficrouting"
	"github.com/openkruise/rollouts/pkg/util"
	"github.com/openkruise/rollouts/pkg/util/grace"
	apierrors "k8s.io/apimachinery/pkg/api/errors"
	metav1 "k8s.io/apimachinery/pkg/apis/meta/v1"
	"k8s.io/apimachinery/pkg/types"
	ctrl "sigs.k8s.io/controller-runtime"
)

func init() { register("trsm", runTRSM, replayTRSM) }

type tsTR struct {
	Deleting     bool   `json:"deleting"`
	HasFinalizer bool   `json:"hasFinalizer"`
	Progressing  int    `json:"progressing"`
	Phase        string `json:"phase"` // "", Initial, Healthy, Progressing, Finalizing, Terminating, Weird
	Weight       *int   `json:"weight"`
	Grace        int    `json:"grace"`
}

type tsWorld struct {
	TR  tsTR  `json:"tr"`
	Net trNet `json:"net"`
	Mem trMem `json:"mem"`
}

func tsBuild(t tsTR) *v1alpha1.TrafficRouting {
	tr := &v1alpha1.TrafficRouting{}
	tr.Namespace, tr.Name, tr.UID, tr.Generation = trNS, "tr", trOwnerUID, 1
	tr.Spec.ObjectRef = []v1alpha1.TrafficRoutingRef{{Service: trSvc, GracePeriodSeconds: int32(t.Grace),
		Ingress: &v1alpha1.IngressTrafficRouting{Name: trIng, ClassType: "nginx"}}}
	if t.Weight != nil {
		w := int32(*t.Weight)
		tr.Spec.Strategy.Weight = &w
	}
	if t.HasFinalizer {
		tr.Finalizers = append(tr.Finalizers, util.TrafficRoutingFinalizer)
	}
	for i := 0; i < t.Progressing; i++ {
		tr.Finalizers = append(tr.Finalizers, util.ProgressingRolloutFinalizer("r"+strconv.Itoa(i)))
	}
	if t.Deleting {
		now := metav1.Now()
		tr.DeletionTimestamp = &now
		if len(tr.Finalizers) == 0 {
			tr.Finalizers = []string{"verif/foreign"}
		}
	}
	tr.Status.Phase = v1alpha1.TrafficRoutingPhase(t.Phase)
	tr.Status.ObservedGeneration = 1
	return tr
}

func tsRun(in tsWorld) interface{} {
	out, _ := tsRunF(in, 0)
	return out
}

func tsRunF(in tsWorld, failN int) (J, faultRun) {
	cli := trBuildWith(in.Net, tsBuild(in.TR))
	cli.Log = nil
	canaryKey := trNS + "/" + trSvc // OnlyTrafficRouting: canary service name = stable service name
	trSetMem(in.Mem, canaryKey)
	rec := trctl.VerifNewReconciler(cli, theScheme)
	cli.Calls, cli.FailCallN, cli.FaultHit = 0, failN, ""
	res, err := rec.Reconcile(context.TODO(), ctrl.Request{NamespacedName: types.NamespacedName{Namespace: trNS, Name: "tr"}})
	cli.FailCallN = 0
	fr := faultRun{Err: err != nil, Requeue: res.RequeueAfter > 0 || res.Requeue, Calls: cli.Calls, Hit: cli.FaultHit, Writes: writesOf(cli)}
	out := J{"requeue": res.RequeueAfter > 0 || res.Requeue, "err": err != nil}
	got := &v1alpha1.TrafficRouting{}
	t := in.TR
	if e := cli.Get(context.TODO(), types.NamespacedName{Namespace: trNS, Name: "tr"}, got); e != nil {
		out["gone"] = apierrors.IsNotFound(e)
		t.HasFinalizer, t.Progressing = false, 0
		if !in.TR.Deleting {
			out["gone"] = "unexpected"
		}
		// the persisted phase of a vanished object is whatever the model says; report the input phase
	} else {
		out["gone"] = false
		t.HasFinalizer, t.Progressing = false, 0
		for _, f := range got.Finalizers {
			if f == util.TrafficRoutingFinalizer {
				t.HasFinalizer = true
			}
			if strings.Contains(f, v1alpha1.ProgressingRolloutFinalizerPrefix) {
				t.Progressing++
			}
		}
		t.Phase = string(got.Status.Phase)
		switch t.Phase {
		case "", "Initial", "Healthy", "Progressing", "Finalizing", "Terminating":
		default:
			t.Phase = "Weird"
		}
	}
	out["tr"] = t
	out["net"] = trAbstract(cli)
	out["mem"] = trGetMem(canaryKey)
	grace.ResetExpectations()
	return out, fr
}

func tsCase(c *Ctx, in tsWorld) {
	impl := guard(func() interface{} { return tsRun(in) })
	c.Emit("reconcile", in, impl)
}

func genTRSM(c *Ctx) tsWorld {
	t := tsTR{Deleting: c.Rng.Intn(4) == 0, HasFinalizer: c.Rng.Intn(6) != 0, Progressing: []int{0, 0, 1, 2}[c.Rng.Intn(4)],
		Phase: pickS(c, "", "Initial", "Healthy", "Healthy", "Progressing", "Progressing", "Finalizing", "Terminating", "Weird"),
		Grace: []int{trLongGrace, trLongGrace, 0}[c.Rng.Intn(3)]}
	if c.Rng.Intn(5) != 0 {
		w := []int{0, 5, 20, 50, 100}[c.Rng.Intn(5)]
		t.Weight = &w
	}
	if t.Deleting && !t.HasFinalizer && t.Progressing == 0 {
		t.HasFinalizer = true // an object in deletion without any finalizer no longer exists
	}
	n := trNet{StableExists: c.Rng.Intn(12) != 0, StableIngress: c.Rng.Intn(12) != 0}
	if c.Rng.Intn(3) == 0 {
		r := "v1"
		n.StableSel = &r
	}
	if c.Rng.Intn(2) == 0 {
		w := []int{0, 5, 20, 50, 100}[c.Rng.Intn(5)]
		n.CanaryIng = &w
	}
	if !n.StableExists {
		n.StableSel = nil
	}
	m := trMem{trExp[c.Rng.Intn(4)], trExp[c.Rng.Intn(4)], trExp[c.Rng.Intn(4)], trExp[c.Rng.Intn(4)], trExp[c.Rng.Intn(4)]}
	return tsWorld{TR: t, Net: n, Mem: m}
}

func runTRSM(c *Ctx) {
	for i := 0; i < c.N; i++ {
		in := genTRSM(c)
		tsCase(c, in)
		if i%4 == 0 {
			faultSweep(c, in, c.Thorough() && i%20 == 0, func(n int) faultRun { _, r := tsRunF(in, n); return r })
		}
	}
}

func replayTRSM(c *Ctx, op string, raw json.RawMessage) {
	if op == "fault" {
		var f struct {
			In tsWorld `json:"in"`
			K  int     `json:"k"`
		}
		if err := json.Unmarshal(raw, &f); err != nil {
			panic(err)
		}
		faultReplay(c, f.In, f.K, func(n int) faultRun { _, r := tsRunF(f.In, n); return r })
		return
	}
	var in tsWorld
	if err := json.Unmarshal(raw, &in); err != nil {
		panic(err)
	}
	tsCase(c, in)
}
