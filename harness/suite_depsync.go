package main

// Suite "depsync" — property C17.
//
// Runs the real advanced deployment controller (pkg/controller/deployment) through the
// `verif` hook: controllerFactory.NewController (parses the strategy annotation) and
// syncDeployment, against a client-go fake typed clientset whose ReplicaSet writes are
// captured.  One case = one syncDeployment from one abstract state; walks alternate
// syncs with environment steps (ReplicaSet controller moving pods / availability),
// partition raises, scale events, new revisions and rollbacks, and emit one case per
// sync, so that a divergence is localised to one step.
//
// Abstract state (what the Lean model RV.Model.DepSync sees):
//
//	replicas, partition, rollingUpdate present?, maxSurge, maxUnavailable, paused,
//	deleting, deployment.status.replicas, clock `now`,
//	new RS (option) and old RSs: name, creation time, revision annotation,
//	spec.replicas, status.replicas, status.availableReplicas,
//	desired-replicas / max-replicas annotations.
//
// Output of one sync: the ordered list of spec.replicas writes [index, value]
// (index -1 = the new ReplicaSet, k = k-th old RS of the input), the sizes and the two
// replica annotations of every RS afterwards, deployment.status.replicas afterwards.

import (
	"reflect"
	"context"
	"encoding/json"
	"fmt"
	"sort"
	"strconv"
	"time"

	apps "k8s.io/api/apps/v1"
	v1 "k8s.io/api/core/v1"
	metav1 "k8s.io/apimachinery/pkg/apis/meta/v1"
	"k8s.io/apimachinery/pkg/runtime"
	"k8s.io/apimachinery/pkg/types"
	"k8s.io/apimachinery/pkg/util/intstr"
	"k8s.io/client-go/kubernetes/fake"
	appslisters "k8s.io/client-go/listers/apps/v1"
	k8stesting "k8s.io/client-go/testing"
	"k8s.io/client-go/tools/cache"
	"k8s.io/client-go/tools/record"

	"github.com/openkruise/rollouts/api/v1alpha1"
	"github.com/openkruise/rollouts/pkg/controller/deployment"
	deploymentutil "github.com/openkruise/rollouts/pkg/controller/deployment/util"
	"github.com/openkruise/rollouts/pkg/util"
)

func init() { register("depsync", runDepSync, replayDepSync) }

// ---------------------------------------------------------------- abstract state

type dsRS struct {
	Name     string `json:"name"`
	Created  int    `json:"created"`
	Revision int    `json:"revision"`
	Spec     int    `json:"spec"`
	Pods     int    `json:"pods"`
	Avail    int    `json:"avail"`
	Desired  *int   `json:"desired"`
	Max      *int   `json:"max"`
}

type dsState struct {
	Replicas       int                    `json:"replicas"`
	Partition      map[string]interface{} `json:"partition"`
	Rolling        bool                   `json:"rolling"`
	Surge          map[string]interface{} `json:"surge"`
	Unavailable    map[string]interface{} `json:"unavailable"`
	Paused         bool                   `json:"paused"`
	Deleting       bool                   `json:"deleting"`
	StatusReplicas int                    `json:"statusReplicas"`
	Now            int                    `json:"now"`
	New            *dsRS                  `json:"new"`
	Olds           []dsRS                 `json:"olds"`
}

func iosJ(v intstr.IntOrString) map[string]interface{} { return map[string]interface{}(ios(v)) }

func iosFromJ(m map[string]interface{}) intstr.IntOrString {
	// json round trip turns ints into float64; ios() produced ints
	if v, ok := m["i"]; ok {
		return intstr.FromInt(toInt(v))
	}
	if v, ok := m["p"]; ok {
		return pct(toInt(v))
	}
	return intstr.FromString(fmt.Sprint(m["s"]))
}

func toInt(v interface{}) int {
	switch x := v.(type) {
	case int:
		return x
	case int32:
		return int(x)
	case float64:
		return int(x)
	}
	panic(fmt.Sprintf("toInt: %T", v))
}

func intp(v int) *int { return &v }

// ---------------------------------------------------------------- concrete cluster

const (
	dsNS   = "default"
	dsName = "d"
	dsBase = 1600000000
)

type dsCluster struct {
	cs    *fake.Clientset
	order []string          // presentation order of the RSs (old ones keep their input index)
	imgOf map[string]string // RS name -> template image
	clock int
	dIdx  cache.Indexer
	rsIdx cache.Indexer
	nimg  int
}

func dsTemplate(image string) v1.PodTemplateSpec {
	return v1.PodTemplateSpec{
		ObjectMeta: metav1.ObjectMeta{Labels: map[string]string{"app": "x"}},
		Spec:       v1.PodSpec{Containers: []v1.Container{{Name: "c", Image: image}}},
	}
}

func dsStrategyAnno(s *dsState) string {
	st := v1alpha1.DeploymentStrategy{RollingStyle: v1alpha1.PartitionRollingStyle, Paused: s.Paused,
		Partition: iosFromJ(s.Partition)}
	if s.Rolling {
		ru := &apps.RollingUpdateDeployment{}
		if s.Surge != nil {
			v := iosFromJ(s.Surge)
			ru.MaxSurge = &v
		}
		if s.Unavailable != nil {
			v := iosFromJ(s.Unavailable)
			ru.MaxUnavailable = &v
		}
		st.RollingUpdate = ru
	}
	b, err := json.Marshal(&st)
	if err != nil {
		panic(err)
	}
	return string(b)
}

// dsReadyOf: pods that are ready but not yet available (inside the minReadySeconds window): half of the pods that are not
// available, rounded up. The controller's scaling decisions read availableReplicas only, so this is invisible on the unchanged
// code; a helper that confuses the two counters is not.
func dsReadyOf(pods, avail int) int {
	if pods <= avail {
		return avail
	}
	return avail + (pods-avail+1)/2
}

func dsMakeRS(r *dsRS, image string) *apps.ReplicaSet {
	tmpl := dsTemplate(image)
	tmpl.Labels[apps.DefaultDeploymentUniqueLabelKey] = r.Name
	ctl := true
	rs := &apps.ReplicaSet{
		ObjectMeta: metav1.ObjectMeta{
			Name: r.Name, Namespace: dsNS, UID: types.UID("uid-" + r.Name),
			CreationTimestamp: metav1.NewTime(time.Unix(int64(dsBase+r.Created), 0)),
			Labels:            map[string]string{"app": "x", apps.DefaultDeploymentUniqueLabelKey: r.Name},
			Annotations:       map[string]string{},
			OwnerReferences: []metav1.OwnerReference{{APIVersion: "apps/v1", Kind: "Deployment", Name: dsName,
				UID: "uid-d", Controller: &ctl}},
		},
		Spec: apps.ReplicaSetSpec{
			Replicas: i32p(int32(r.Spec)),
			Selector: &metav1.LabelSelector{MatchLabels: map[string]string{"app": "x", apps.DefaultDeploymentUniqueLabelKey: r.Name}},
			Template: tmpl,
		},
		Status: apps.ReplicaSetStatus{Replicas: int32(r.Pods), ReadyReplicas: int32(dsReadyOf(r.Pods, r.Avail)), AvailableReplicas: int32(r.Avail)},
	}
	if r.Revision != 0 {
		rs.Annotations[deploymentutil.RevisionAnnotation] = strconv.Itoa(r.Revision)
	}
	if r.Desired != nil {
		rs.Annotations[deploymentutil.ReplicasAnnotation] = strconv.Itoa(*r.Desired)
	}
	if r.Max != nil {
		rs.Annotations[deploymentutil.MaxReplicasAnnotation] = strconv.Itoa(*r.Max)
	}
	return rs
}

func dsBuild(s *dsState) *dsCluster {
	cl := &dsCluster{imgOf: map[string]string{}, clock: s.Now}
	d := &apps.Deployment{
		ObjectMeta: metav1.ObjectMeta{Name: dsName, Namespace: dsNS, UID: "uid-d", Generation: 1,
			Annotations: map[string]string{
				util.BatchReleaseControlAnnotation:    `{"apiVersion":"rollouts.kruise.io/v1beta1","kind":"BatchRelease","name":"br","uid":"u","controller":true}`,
				v1alpha1.DeploymentStrategyAnnotation: dsStrategyAnno(s),
			}},
		Spec: apps.DeploymentSpec{
			Replicas: i32p(int32(s.Replicas)),
			Paused:   true,
			Strategy: apps.DeploymentStrategy{Type: apps.RecreateDeploymentStrategyType},
			Selector: &metav1.LabelSelector{MatchLabels: map[string]string{"app": "x"}},
			Template: dsTemplate("img-new"),
		},
		Status: apps.DeploymentStatus{Replicas: int32(s.StatusReplicas), ObservedGeneration: 1},
	}
	if s.Deleting {
		t := metav1.NewTime(time.Unix(dsBase, 0))
		d.DeletionTimestamp = &t
		d.Finalizers = []string{"x/y"}
	}
	objs := []runtime.Object{d}
	if s.New != nil {
		objs = append(objs, dsMakeRS(s.New, "img-new"))
		cl.imgOf[s.New.Name] = "img-new"
	}
	for i := range s.Olds {
		img := "img-" + s.Olds[i].Name
		objs = append(objs, dsMakeRS(&s.Olds[i], img))
		cl.imgOf[s.Olds[i].Name] = img
		cl.order = append(cl.order, s.Olds[i].Name)
	}
	if s.New != nil {
		cl.order = append(cl.order, s.New.Name)
	}
	cl.cs = fake.NewSimpleClientset(objs...)
	// the API server stamps creationTimestamp and UID on create
	cl.cs.PrependReactor("create", "replicasets", func(a k8stesting.Action) (bool, runtime.Object, error) {
		rs := a.(k8stesting.CreateAction).GetObject().(*apps.ReplicaSet)
		rs.CreationTimestamp = metav1.NewTime(time.Unix(int64(dsBase+cl.clock), 0))
		rs.UID = types.UID("uid-" + rs.Name)
		cl.clock++
		return false, nil, nil
	})
	idx := cache.Indexers{cache.NamespaceIndex: cache.MetaNamespaceIndexFunc}
	cl.dIdx = cache.NewIndexer(cache.MetaNamespaceKeyFunc, idx)
	cl.rsIdx = cache.NewIndexer(cache.MetaNamespaceKeyFunc, idx)
	return cl
}

func (cl *dsCluster) dep() *apps.Deployment {
	d, err := cl.cs.AppsV1().Deployments(dsNS).Get(context.TODO(), dsName, metav1.GetOptions{})
	if err != nil {
		panic(err)
	}
	return d
}

func (cl *dsCluster) rss() map[string]*apps.ReplicaSet {
	l, err := cl.cs.AppsV1().ReplicaSets(dsNS).List(context.TODO(), metav1.ListOptions{})
	if err != nil {
		panic(err)
	}
	m := map[string]*apps.ReplicaSet{}
	for i := range l.Items {
		m[l.Items[i].Name] = &l.Items[i]
	}
	return m
}

func annoInt(rs *apps.ReplicaSet, k string) *int {
	v, ok := rs.Annotations[k]
	if !ok {
		return nil
	}
	n, err := strconv.Atoi(v)
	if err != nil {
		return nil
	}
	return &n
}

func dsAbsRS(rs *apps.ReplicaSet) dsRS {
	r := dsRS{Name: rs.Name, Created: int(rs.CreationTimestamp.Unix() - dsBase), Spec: int(*rs.Spec.Replicas),
		Pods: int(rs.Status.Replicas), Avail: int(rs.Status.AvailableReplicas),
		Desired: annoInt(rs, deploymentutil.ReplicasAnnotation), Max: annoInt(rs, deploymentutil.MaxReplicasAnnotation)}
	if v := annoInt(rs, deploymentutil.RevisionAnnotation); v != nil {
		r.Revision = *v
	}
	return r
}

// abstract reads the abstract state back from the API objects.
func (cl *dsCluster) abstract() *dsState {
	d := cl.dep()
	st := v1alpha1.DeploymentStrategy{}
	if err := json.Unmarshal([]byte(d.Annotations[v1alpha1.DeploymentStrategyAnnotation]), &st); err != nil {
		panic(err)
	}
	s := &dsState{Replicas: int(*d.Spec.Replicas), Partition: iosJ(st.Partition), Rolling: st.RollingUpdate != nil,
		Paused: st.Paused, Deleting: d.DeletionTimestamp != nil, StatusReplicas: int(d.Status.Replicas), Now: cl.clock,
		Olds: []dsRS{}}
	if st.RollingUpdate != nil {
		if st.RollingUpdate.MaxSurge != nil {
			s.Surge = iosJ(*st.RollingUpdate.MaxSurge)
		}
		if st.RollingUpdate.MaxUnavailable != nil {
			s.Unavailable = iosJ(*st.RollingUpdate.MaxUnavailable)
		}
	}
	img := d.Spec.Template.Spec.Containers[0].Image
	m := cl.rss()
	// register RSs created by the controller
	names := []string{}
	for n := range m {
		names = append(names, n)
	}
	sort.Strings(names)
	for _, n := range names {
		if _, ok := cl.imgOf[n]; !ok {
			cl.imgOf[n] = m[n].Spec.Template.Spec.Containers[0].Image
			cl.order = append(cl.order, n)
		}
	}
	// the new RS: template equal to the deployment's; the oldest one if several
	newName := ""
	for _, n := range cl.order {
		if cl.imgOf[n] != img {
			continue
		}
		if newName == "" || m[n].CreationTimestamp.Time.Before(m[newName].CreationTimestamp.Time) ||
			(m[n].CreationTimestamp.Time.Equal(m[newName].CreationTimestamp.Time) && n < newName) {
			newName = n
		}
	}
	for _, n := range cl.order {
		r := dsAbsRS(m[n])
		if n == newName {
			s.New = &r
		} else {
			s.Olds = append(s.Olds, r)
		}
	}
	return s
}

func (cl *dsCluster) refreshListers() {
	d := cl.dep()
	cl.dIdx.Replace([]interface{}{d}, "")
	items := []interface{}{}
	for _, rs := range cl.rss() {
		items = append(items, rs)
	}
	cl.rsIdx.Replace(items, "")
}

// sync runs one real syncDeployment on the cluster, from state `in` (= cl.abstract()).
func (cl *dsCluster) sync(in *dsState) interface{} {
	return guard(func() interface{} {
		cl.refreshListers()
		d := cl.dep()
		idxOf := map[string]int{}
		cur := map[string]int{}
		for i, r := range in.Olds {
			idxOf[r.Name] = i
			cur[r.Name] = r.Spec
		}
		if in.New != nil {
			idxOf[in.New.Name] = -1
			cur[in.New.Name] = in.New.Spec
		}
		cl.cs.ClearActions()
		dc := deployment.VerifNewController(cl.cs, &record.FakeRecorder{},
			appslisters.NewDeploymentLister(cl.dIdx), appslisters.NewReplicaSetLister(cl.rsIdx), d)
		if dc == nil {
			return J{"skipped": true}
		}
		// the informer cache is shared and read-only: whatever the sync does (and whether or not its writes succeed), the
		// objects the listers hand out must be left as they were
		cacheBefore := map[string]*apps.ReplicaSet{}
		for _, o := range cl.rsIdx.List() {
			rs := o.(*apps.ReplicaSet)
			cacheBefore[rs.Name] = rs.DeepCopy()
		}
		err := dc.VerifSyncDeployment(context.TODO(), d)
		cacheIntact := true
		for _, o := range cl.rsIdx.List() {
			rs := o.(*apps.ReplicaSet)
			if b, ok := cacheBefore[rs.Name]; !ok || !reflect.DeepEqual(b, rs) {
				cacheIntact = false
			}
		}
		writes := [][]int{}
		for _, a := range cl.cs.Actions() {
			if a.GetResource().Resource != "replicasets" || a.GetSubresource() != "" {
				continue
			}
			var rs *apps.ReplicaSet
			switch a.GetVerb() {
			case "create":
				rs = a.(k8stesting.CreateAction).GetObject().(*apps.ReplicaSet)
				writes = append(writes, []int{-1, int(*rs.Spec.Replicas)})
				cur[rs.Name] = int(*rs.Spec.Replicas)
				idxOf[rs.Name] = -1
			case "update":
				rs = a.(k8stesting.UpdateAction).GetObject().(*apps.ReplicaSet)
				k, ok := idxOf[rs.Name]
				if !ok {
					panic("write to unknown RS " + rs.Name)
				}
				if cur[rs.Name] != int(*rs.Spec.Replicas) {
					writes = append(writes, []int{k, int(*rs.Spec.Replicas)})
					cur[rs.Name] = int(*rs.Spec.Replicas)
				}
			case "delete":
				writes = append(writes, []int{idxOf[a.(k8stesting.DeleteAction).GetName()], -1000})
			}
		}
		return J{"err": err != nil, "writes": writes, "post": cl.post(in), "cacheIntact": cacheIntact}
	})
}

type dsPostRS struct {
	Spec    int  `json:"spec"`
	Desired *int `json:"desired"`
	Max     *int `json:"max"`
}

// post: sizes and replica annotations after the sync, by role of the input state.
func (cl *dsCluster) post(in *dsState) J {
	m := cl.rss()
	known := map[string]bool{}
	p := func(rs *apps.ReplicaSet) dsPostRS {
		return dsPostRS{Spec: int(*rs.Spec.Replicas), Desired: annoInt(rs, deploymentutil.ReplicasAnnotation),
			Max: annoInt(rs, deploymentutil.MaxReplicasAnnotation)}
	}
	olds := []dsPostRS{}
	for _, r := range in.Olds {
		olds = append(olds, p(m[r.Name]))
		known[r.Name] = true
	}
	var nw interface{}
	if in.New != nil {
		nw = p(m[in.New.Name])
		known[in.New.Name] = true
	}
	for n, rs := range m {
		if !known[n] {
			if nw != nil {
				panic("two unknown RSs after sync")
			}
			nw = p(rs)
		}
	}
	return J{"new": nw, "olds": olds, "statusReplicas": int(cl.dep().Status.Replicas)}
}

// ---------------------------------------------------------------- environment / user operations (harness side)

func (cl *dsCluster) setStatus(name string, pods, avail int) {
	rs := cl.rss()[name]
	rs.Status.Replicas = int32(pods)
	rs.Status.ReadyReplicas = int32(dsReadyOf(pods, avail))
	rs.Status.AvailableReplicas = int32(avail)
	if _, err := cl.cs.AppsV1().ReplicaSets(dsNS).UpdateStatus(context.TODO(), rs, metav1.UpdateOptions{}); err != nil {
		panic(err)
	}
}

func (cl *dsCluster) updDep(f func(d *apps.Deployment, st *v1alpha1.DeploymentStrategy)) {
	d := cl.dep()
	st := v1alpha1.DeploymentStrategy{}
	if err := json.Unmarshal([]byte(d.Annotations[v1alpha1.DeploymentStrategyAnnotation]), &st); err != nil {
		panic(err)
	}
	f(d, &st)
	b, _ := json.Marshal(&st)
	d.Annotations[v1alpha1.DeploymentStrategyAnnotation] = string(b)
	if _, err := cl.cs.AppsV1().Deployments(dsNS).Update(context.TODO(), d, metav1.UpdateOptions{}); err != nil {
		panic(err)
	}
}

func (cl *dsCluster) setReplicas(n int) {
	cl.updDep(func(d *apps.Deployment, _ *v1alpha1.DeploymentStrategy) { d.Spec.Replicas = i32p(int32(n)) })
}
func (cl *dsCluster) setPartition(p intstr.IntOrString) {
	cl.updDep(func(_ *apps.Deployment, st *v1alpha1.DeploymentStrategy) { st.Partition = p })
}
func (cl *dsCluster) setImage(img string) {
	cl.updDep(func(d *apps.Deployment, _ *v1alpha1.DeploymentStrategy) { d.Spec.Template.Spec.Containers[0].Image = img })
}

// ---------------------------------------------------------------- cases

func (c *Ctx) dsSyncCase(s *dsState) {
	cl := dsBuild(s)
	in := cl.abstract()
	c.Emit("sync", in, cl.sync(in))
}

// dsEnvAll: the ReplicaSet controller catches up completely and every pod becomes available.
func (cl *dsCluster) envAll() {
	s := cl.abstract()
	all := append([]dsRS{}, s.Olds...)
	if s.New != nil {
		all = append(all, *s.New)
	}
	for _, r := range all {
		if r.Pods != r.Spec || r.Avail != r.Spec {
			cl.setStatus(r.Name, r.Spec, r.Spec)
		}
	}
}

// converge: alternate sync and complete healthy environment steps until nothing changes.
func (c *Ctx) dsConvergeCase(s *dsState, maxRounds int) {
	cl := dsBuild(s)
	in := cl.abstract()
	impl := guard(func() interface{} {
		rounds := 0
		for ; rounds < maxRounds; rounds++ {
			before := cl.abstract()
			r := cl.sync(before)
			if m, ok := r.(J); !ok || m["err"] != false {
				return J{"failed": r}
			}
			cl.envAll()
			after := cl.abstract()
			if dsSame(before, after) {
				break
			}
		}
		f := cl.abstract()
		oldT := 0
		for _, r := range f.Olds {
			oldT += r.Spec
		}
		nw := -1
		if f.New != nil {
			nw = f.New.Spec
		}
		return J{"rounds": rounds, "new": nw, "old": oldT}
	})
	c.Emit("converge", J{"s": in, "max": maxRounds}, impl)
}

func dsSame(a, b *dsState) bool {
	x, _ := json.Marshal(a)
	y, _ := json.Marshal(b)
	return string(x) == string(y)
}

// ---------------------------------------------------------------- generators

func dsRandIOS(c *Ctx, r int, allowPct bool) intstr.IntOrString {
	if !allowPct || c.Rng.Intn(2) == 0 {
		return intstr.FromInt(c.Rng.Intn(r + 2))
	}
	return pct([]int{0, 1, 10, 20, 25, 30, 34, 50, 67, 75, 99, 100, 100, 120}[c.Rng.Intn(14)])
}

func dsRandFence(c *Ctx, r int) map[string]interface{} {
	switch c.Rng.Intn(12) {
	case 0:
		return nil
	case 1, 2, 3:
		return iosJ(intstr.FromInt(0))
	case 4, 5, 6:
		return iosJ(intstr.FromInt(1 + c.Rng.Intn(3)))
	case 7:
		return iosJ(intstr.FromInt(c.Rng.Intn(r + 2)))
	default:
		return iosJ(pct([]int{0, 10, 20, 25, 25, 30, 50, 100}[c.Rng.Intn(8)]))
	}
}

// dsGenState: a structured, mostly-valid state.
func dsGenState(c *Ctx) *dsState {
	rng := c.Rng
	R := rng.Intn(13)
	if rng.Intn(6) == 0 {
		R = rng.Intn(220)
	}
	s := &dsState{Replicas: R, Rolling: rng.Intn(15) != 0, Paused: rng.Intn(25) == 0, Deleting: rng.Intn(60) == 0}
	s.Partition = iosJ(dsRandIOS(c, R, true))
	s.Surge = dsRandFence(c, R)
	s.Unavailable = dsRandFence(c, R)
	nOld := []int{0, 1, 1, 1, 2, 2, 2, 3, 3, 3, 4, 5, 6, 7}[rng.Intn(14)]
	total := nOld + 1
	// creation times: a permutation of 0..total-1, occasionally with ties
	created := rng.Perm(total)
	if rng.Intn(8) == 0 {
		for i := range created {
			created[i] = rng.Intn(2)
		}
	}
	// revisions: usually follow creation order, sometimes shuffled / tied / absent
	rev := make([]int, total)
	for i := range rev {
		rev[i] = created[i] + 1
	}
	switch rng.Intn(8) {
	case 0:
		p := rng.Perm(total)
		for i := range rev {
			rev[i] = p[i] + 1
		}
	case 1:
		for i := range rev {
			rev[i] = rng.Intn(3)
		}
	}
	// the new RS is usually the youngest; in a rollback it is an older one
	newPos := 0
	for i := range created {
		if created[i] > created[newPos] {
			newPos = i
		}
	}
	if rng.Intn(4) == 0 {
		newPos = rng.Intn(total)
	}
	surgeV := 0
	if s.Rolling && s.Surge != nil {
		surgeV, _ = intstr.GetScaledValueFromIntOrPercent(intstr.ValueOrDefault(nil, iosFromJ(s.Surge)), R, true)
	}
	scaling := rng.Intn(10) == 0 // annotations of some RS disagree with spec.replicas: a scaling event
	remaining := R + surgeV
	if rng.Intn(5) == 0 {
		remaining += rng.Intn(4)
	}
	mk := func(i int, isNew bool) dsRS {
		r := dsRS{Name: fmt.Sprintf("rs-%d", i), Created: created[i], Revision: rev[i]}
		switch rng.Intn(7) {
		case 0:
			r.Spec = 0
		case 1:
			r.Spec = rng.Intn(R + 3)
		default:
			if remaining > 0 {
				r.Spec = rng.Intn(remaining + 1)
			}
		}
		remaining -= r.Spec
		if remaining < 0 {
			remaining = 0
		}
		// status: usually converged or lagging a little; availability anywhere below
		switch rng.Intn(6) {
		case 0:
			r.Pods = rng.Intn(r.Spec + 3)
		case 1:
			r.Pods = r.Spec + rng.Intn(3)
		default:
			r.Pods = r.Spec
		}
		switch rng.Intn(5) {
		case 0:
			r.Avail = rng.Intn(r.Pods + 1)
		case 1:
			r.Avail = 0
		default:
			r.Avail = r.Pods
			if r.Avail > 0 && rng.Intn(3) == 0 {
				r.Avail -= 1 + rng.Intn(r.Avail)
			}
		}
		want := R
		if scaling && rng.Intn(2) == 0 {
			want = rng.Intn(R + 4)
		}
		switch rng.Intn(12) {
		case 0: // no annotations at all
		case 1:
			r.Desired = intp(want)
		default:
			r.Desired = intp(want)
			r.Max = intp(want + surgeV)
			if rng.Intn(10) == 0 {
				r.Max = intp(1 + rng.Intn(R+4))
			}
		}
		return r
	}
	hasNew := rng.Intn(6) != 0
	for i := 0; i < total; i++ {
		if i == newPos {
			if hasNew {
				r := mk(i, true)
				s.New = &r
			}
			continue
		}
		s.Olds = append(s.Olds, mk(i, false))
	}
	// spend what is left on the first old RS most of the time (a full deployment)
	if len(s.Olds) > 0 && remaining > 0 && rng.Intn(3) != 0 {
		s.Olds[0].Spec += remaining
		s.Olds[0].Pods = s.Olds[0].Spec
		s.Olds[0].Avail = s.Olds[0].Spec
	}
	s.StatusReplicas = 0
	for _, r := range s.Olds {
		s.StatusReplicas += r.Pods
	}
	if s.New != nil {
		s.StatusReplicas += s.New.Pods
	}
	if rng.Intn(10) == 0 {
		s.StatusReplicas = rng.Intn(R + 3)
	}
	s.Now = total + 1
	return s
}

// dsGenMalformed: the malformed stream — negative fenceposts, non-percent strings, negative sizes in status,
// unparsable annotations are represented by absent ones (the code treats both alike).
func dsGenMalformed(c *Ctx) *dsState {
	s := dsGenState(c)
	rng := c.Rng
	bad := []string{"", "abc", "5", "1.5%", "%", "-", "50 %"}
	switch rng.Intn(5) {
	case 0:
		s.Partition = iosJ(intstr.FromString(bad[rng.Intn(len(bad))]))
	case 1:
		s.Surge = iosJ(intstr.FromString(bad[rng.Intn(len(bad))]))
		s.Rolling = true
	case 2:
		s.Unavailable = iosJ(intstr.FromString(bad[rng.Intn(len(bad))]))
		s.Rolling = true
	case 3:
		s.Partition = iosJ(intstr.FromInt(-1 - rng.Intn(3)))
	case 4:
		s.Partition = iosJ(pct(-10))
	}
	return s
}

// a walk: one cluster, random alternation of syncs and other steps; one case per sync.
func (c *Ctx) dsWalk(steps int, healthy bool) {
	rng := c.Rng
	R := 1 + rng.Intn(12)
	s := &dsState{Replicas: R, Rolling: true, Partition: iosJ(intstr.FromInt(0))}
	if rng.Intn(2) == 0 {
		s.Partition = iosJ(dsRandIOS(c, R, true))
	}
	s.Surge = dsRandFence(c, R)
	s.Unavailable = dsRandFence(c, R)
	surgeV := 0
	if s.Surge != nil {
		surgeV, _ = intstr.GetScaledValueFromIntOrPercent(intstr.ValueOrDefault(nil, iosFromJ(s.Surge)), R, true)
	}
	nOld := 1 + rng.Intn(3)
	left := R
	for i := 0; i < nOld; i++ {
		sz := left
		if i < nOld-1 {
			sz = rng.Intn(left + 1)
		}
		left -= sz
		s.Olds = append(s.Olds, dsRS{Name: fmt.Sprintf("rs-%d", i), Created: i, Revision: i + 1, Spec: sz, Pods: sz, Avail: sz,
			Desired: intp(R), Max: intp(R + surgeV)})
	}
	s.StatusReplicas = R
	s.Now = nOld + 1
	cl := dsBuild(s)
	for i := 0; i < steps; i++ {
		st := cl.abstract()
		k := rng.Intn(100)
		switch {
		case k < 45:
			c.Emit("sync", st, cl.sync(st))
		case k < 80:
			// environment: one RS moves
			all := append([]dsRS{}, st.Olds...)
			if st.New != nil {
				all = append(all, *st.New)
			}
			if len(all) == 0 {
				continue
			}
			r := all[rng.Intn(len(all))]
			pods, avail := r.Pods, r.Avail
			if healthy {
				// pods move all the way to spec, unready pods go first; then pods become available
				if pods != r.Spec {
					pods = r.Spec
					if avail > pods {
						avail = pods
					}
				} else {
					avail = pods
				}
			} else {
				switch rng.Intn(4) {
				case 0: // pods move toward spec by some amount
					if pods < r.Spec {
						pods += 1 + rng.Intn(r.Spec-pods)
					} else if pods > r.Spec {
						pods -= 1 + rng.Intn(pods-r.Spec)
						if avail > pods {
							avail = pods
						}
					}
				case 1: // some pods become available
					if avail < pods {
						avail += 1 + rng.Intn(pods-avail)
					}
				case 2: // availability flaps
					if avail > 0 {
						avail -= 1 + rng.Intn(avail)
					}
				case 3:
					pods = r.Spec
					if avail > pods {
						avail = pods
					}
				}
			}
			in := J{"s": st, "rs": r.Name, "pods": pods, "avail": avail}
			cl.setStatus(r.Name, pods, avail)
			c.Emit("env", in, cl.abstract())
		case k < 88:
			// partition raise
			lim := int(deploymentutil.NewRSReplicasLimit(iosFromJ(st.Partition), cl.dep()))
			var p intstr.IntOrString
			if rng.Intn(2) == 0 {
				p = intstr.FromInt(lim + rng.Intn(st.Replicas-lim+2))
			} else {
				p = pct([]int{20, 40, 50, 60, 80, 100, 100}[rng.Intn(7)])
			}
			d2 := cl.dep()
			if int(deploymentutil.NewRSReplicasLimit(p, d2)) >= lim {
				cl.setPartition(p)
			}
		case k < 92:
			// scale event
			if !healthy {
				cl.setReplicas(rng.Intn(st.Replicas + 4))
			}
		case k < 96:
			// new revision
			if !healthy {
				cl.nimg++
				cl.setImage(fmt.Sprintf("img-v%d", cl.nimg))
			}
		default:
			// rollback to an old RS
			if !healthy && len(st.Olds) > 0 {
				cl.setImage(cl.imgOf[st.Olds[rng.Intn(len(st.Olds))].Name])
			}
		}
	}
	if healthy {
		// finish: partition covers everything, environment healthy → must converge
		cl.setPartition(pct(100))
		c.dsConvergeFrom(cl)
	}
}

func (c *Ctx) dsConvergeFrom(cl *dsCluster) {
	st := cl.abstract()
	c.dsConvergeCase(st, 8*(st.Replicas+4)+40)
}

// dsSweep: exhaustive small scope (bounded only to find a witness; the theorems are unbounded):
// every replicas ≤ maxR, partition, fencepost pair, new RS (absent / every size, unavailable or available)
// and up to maxOlds old RSs of every size with no / all / one-too-many (stale) available pods.
func (c *Ctx) dsSweep(maxR, maxOlds int) {
	fences := [][2]int{{0, 1}, {1, 0}, {1, 1}}
	for R := 0; R <= maxR; R++ {
		parts := []intstr.IntOrString{}
		for p := 0; p <= R; p++ {
			parts = append(parts, intstr.FromInt(p))
		}
		parts = append(parts, pct(50), pct(100))
		type sz struct{ spec, avail int }
		oldOpts := []sz{}
		for sp := 0; sp <= R+1; sp++ {
			oldOpts = append(oldOpts, sz{sp, 0}, sz{sp, sp + 1})
			if sp > 0 {
				oldOpts = append(oldOpts, sz{sp, sp})
			}
		}
		newOpts := []*sz{nil}
		for sp := 0; sp <= R+1; sp++ {
			newOpts = append(newOpts, &sz{sp, 0})
			if sp > 0 {
				newOpts = append(newOpts, &sz{sp, sp})
			}
		}
		var rec func(olds []sz)
		emit := func(olds []sz) {
			for _, part := range parts {
				for _, f := range fences {
					for _, nw := range newOpts {
						s := &dsState{Replicas: R, Rolling: true, Partition: iosJ(part),
							Surge: iosJ(intstr.FromInt(f[0])), Unavailable: iosJ(intstr.FromInt(f[1])), Olds: []dsRS{}}
						for i, o := range olds {
							pods := o.spec
							if o.avail > pods {
								pods = o.avail
							}
							s.Olds = append(s.Olds, dsRS{Name: fmt.Sprintf("rs-%d", i), Created: i, Revision: i + 1, Spec: o.spec,
								Pods: pods, Avail: o.avail, Desired: intp(R), Max: intp(R + f[0])})
							s.StatusReplicas += pods
						}
						if nw != nil {
							s.New = &dsRS{Name: "rs-n", Created: len(olds), Revision: len(olds) + 1, Spec: nw.spec, Pods: nw.spec,
								Avail: nw.avail, Desired: intp(R), Max: intp(R + f[0])}
							s.StatusReplicas += nw.spec
						}
						s.Now = len(olds) + 2
						c.dsSyncCase(s)
					}
				}
			}
		}
		rec = func(olds []sz) {
			emit(olds)
			if len(olds) == maxOlds {
				return
			}
			for _, o := range oldOpts {
				rec(append(append([]sz{}, olds...), o))
			}
		}
		rec(nil)
	}
}

func runDepSync(c *Ctx) {
	n := c.N
	// 0. exhaustive small scope
	if c.Thorough() {
		c.dsSweep(3, 2)
		c.dsSweep(2, 3) // three active old RSs: FilterActiveReplicaSets returns a slice with spare capacity
	} else {
		c.dsSweep(1, 2)
		c.dsSweep(2, 1)
	}
	// 1. handpicked rows of the package's own TestSyncDeployment table
	for _, s := range dsTableStates() {
		c.dsSyncCase(s)
	}
	// 2. random single syncs
	for i := 0; i < n; i++ {
		c.dsSyncCase(dsGenState(c))
	}
	for i := 0; i < n/10+1; i++ {
		c.dsSyncCase(dsGenMalformed(c))
	}
	// 3. walks
	for i := 0; i < n/40+1; i++ {
		c.dsWalk(40, false)
		c.dsWalk(30, true)
	}
	// 4. convergence from random states with a covering partition
	for i := 0; i < n/20+1; i++ {
		s := dsGenState(c)
		s.Paused, s.Deleting = false, false
		if c.Rng.Intn(2) == 0 {
			s.Partition = iosJ(pct(100))
		} else {
			s.Partition = iosJ(intstr.FromInt(s.Replicas + c.Rng.Intn(2)))
		}
		if i%2 == 1 && s.Replicas >= 2 {
			// a small scale event is pending: every ReplicaSet still carries the desired-replicas annotation of the
			// previous size (one off), so the next sync scales proportionally — and some ReplicaSet keeps its size
			d := s.Replicas
			for k := range s.Olds {
				dd := d
				s.Olds[k].Desired = &dd
			}
			if s.New != nil {
				dd := d
				s.New.Desired = &dd
			}
			// the scale event itself: the ReplicaSets (sizes and annotations) are those of the old size
			s.Replicas = d + []int{-1, 1}[c.Rng.Intn(2)]
			if c.Rng.Intn(2) == 0 {
				s.Partition = iosJ(pct(100))
			} else {
				s.Partition = iosJ(intstr.FromInt(s.Replicas + c.Rng.Intn(2)))
			}
		}
		c.dsConvergeCase(s, 8*(s.Replicas+4)+40)
	}
}

func dsTableStates() []*dsState {
	mk := func(olds []int, oldAvail []int, nw, nwAvail, R int, part, surge, unav intstr.IntOrString) *dsState {
		s := &dsState{Replicas: R, Rolling: true, Partition: iosJ(part), Surge: iosJ(surge), Unavailable: iosJ(unav)}
		sv, _ := intstr.GetScaledValueFromIntOrPercent(&surge, R, true)
		for i, o := range olds {
			s.Olds = append(s.Olds, dsRS{Name: fmt.Sprintf("rs-%d", i), Created: i, Revision: i + 1, Spec: o, Pods: o, Avail: oldAvail[i],
				Desired: intp(R), Max: intp(R + sv)})
			s.StatusReplicas += o
		}
		s.New = &dsRS{Name: "rs-new", Created: len(olds), Revision: len(olds) + 1, Spec: nw, Pods: nw, Avail: nwAvail, Desired: intp(R), Max: intp(R + sv)}
		s.StatusReplicas += nw
		s.Now = len(olds) + 2
		return s
	}
	return []*dsState{
		mk([]int{6, 4}, []int{0, 0}, 0, 0, 10, intstr.FromInt(4), intstr.FromInt(2), pct(50)),
		mk([]int{6, 4}, []int{0, 0}, 0, 0, 10, intstr.FromInt(4), intstr.FromInt(10), pct(50)),
		mk([]int{6, 4}, []int{6, 4}, 2, 0, 10, intstr.FromInt(4), intstr.FromInt(2), pct(20)),
		mk([]int{6, 2}, []int{6, 2}, 2, 0, 10, intstr.FromInt(3), intstr.FromInt(5), pct(40)),
		mk([]int{6, 4}, []int{6, 4}, 0, 0, 10, intstr.FromInt(3), intstr.FromInt(0), pct(40)),
		mk([]int{6, 4}, []int{6, 4}, 0, 0, 10, intstr.FromInt(5), intstr.FromInt(0), pct(20)),
		mk([]int{3, 4}, []int{3, 4}, 3, 0, 10, intstr.FromInt(3), intstr.FromInt(2), pct(30)),
		mk([]int{3, 4}, []int{3, 4}, 3, 3, 10, intstr.FromInt(3), intstr.FromInt(2), pct(30)),
		mk([]int{3}, []int{3}, 3, 3, 5, intstr.FromInt(3), intstr.FromInt(2), pct(25)),
	}
}

func replayDepSync(c *Ctx, op string, raw json.RawMessage) {
	switch op {
	case "sync":
		var s dsState
		if err := json.Unmarshal(raw, &s); err != nil {
			panic(err)
		}
		c.dsSyncCase(&s)
	case "env":
		var in struct {
			S     dsState `json:"s"`
			RS    string  `json:"rs"`
			Pods  int     `json:"pods"`
			Avail int     `json:"avail"`
		}
		if err := json.Unmarshal(raw, &in); err != nil {
			panic(err)
		}
		cl := dsBuild(&in.S)
		st := cl.abstract()
		cl.setStatus(in.RS, in.Pods, in.Avail)
		c.Emit("env", J{"s": st, "rs": in.RS, "pods": in.Pods, "avail": in.Avail}, cl.abstract())
	case "converge":
		var in struct {
			S   dsState `json:"s"`
			Max int     `json:"max"`
		}
		if err := json.Unmarshal(raw, &in); err != nil {
			panic(err)
		}
		c.dsConvergeCase(&in.S, in.Max)
	}
}
