package main

import (
	"context"
	"encoding/json"
	"strconv"
	"time"

	kruisev1alpha1 "github.com/openkruise/kruise-api/apps/v1alpha1"
	"github.com/openkruise/rollouts/api/v1alpha1"
	"github.com/openkruise/rollouts/api/v1beta1"
	rolloutctl "github.com/openkruise/rollouts/pkg/controller/rollout"
	"github.com/openkruise/rollouts/pkg/util"
	"github.com/openkruise/rollouts/pkg/util/grace"
	corev1 "k8s.io/api/core/v1"
	apierrors "k8s.io/apimachinery/pkg/api/errors"
	metav1 "k8s.io/apimachinery/pkg/apis/meta/v1"
	"k8s.io/apimachinery/pkg/types"
	ctrl "sigs.k8s.io/controller-runtime"
	"sigs.k8s.io/controller-runtime/pkg/client"
)

func init() { register("rolloutsm", runRolloutSM, replayRolloutSM) }

// ---- abstract state (mirrors RV.RolloutSM) ----

type rsStep struct {
	Replicas J      `json:"replicas"`
	Weight   *int   `json:"weight"`
	Pause    string `json:"pause"` // manual|short|long
}

type rsSub struct {
	CurIdx            int    `json:"curIdx"`
	NextIdx           int    `json:"nextIdx"`
	State             string `json:"state"`
	FinStep           string `json:"finStep"`
	CanaryRev         string `json:"canaryRev"`
	StableRev         string `json:"stableRev"`
	PodHash           string `json:"podHash"`
	Hash              string `json:"hash"` // empty|same|differs
	ObservedRolloutID string `json:"observedRolloutID"`
	ObservedGen       int    `json:"observedGen"`
	LastUpdate        string `json:"lastUpdate"` // none|fresh|elapsed
}

type rsRollout struct {
	Style           string   `json:"style"` // canary|blueGreen
	Steps           []rsStep `json:"steps"`
	Paused          bool     `json:"paused"`
	Disabled        bool     `json:"disabled"`
	Deleting        bool     `json:"deleting"`
	HasFinalizer    bool     `json:"hasFinalizer"`
	HasTraffic      bool     `json:"hasTraffic"`
	DisableGen      bool     `json:"disableGen"`
	RollbackInBatch bool     `json:"rollbackInBatch"`
	Grace           int      `json:"grace"`
	Phase           string   `json:"phase"`
	Reason          string   `json:"reason"`
	CondAge         string   `json:"condAge"`
	Succeeded       *bool    `json:"succeeded"`
	Term            string   `json:"term"` // none|inTerminating|completed
	Sub             *rsSub   `json:"sub"`
	// IsRealPartition: true = CloneSet workload (partition style / blue-green); false = canary-style Deployment
	// rollout (workloadRef apps/v1 Deployment + enableExtraWorkloadForCanary). Absent in old lines = true.
	RealPartition bool `json:"realPartition"`
}

func (r *rsRollout) UnmarshalJSON(b []byte) error {
	type plain rsRollout
	p := plain{RealPartition: true}
	if err := json.Unmarshal(b, &p); err != nil {
		return err
	}
	*r = rsRollout(p)
	return nil
}

type rsWL struct {
	Consistent     bool   `json:"consistent"`
	InProgressAnno bool   `json:"inProgressAnno"`
	CanaryRev      string `json:"canaryRev"`
	StableRev      string `json:"stableRev"`
	InRollback     bool   `json:"inRollback"`
	Replicas       int    `json:"replicas"`
	Generation     int    `json:"generation"`
	// Workload.PodTemplateHash: CloneSet = update revision; canary-style Deployment = hash label of the canary
	// Deployment's ReplicaSet ("" when there is none). Absent in old lines = canaryRev.
	PodTemplateHash string `json:"podTemplateHash"`
}

func (w *rsWL) UnmarshalJSON(b []byte) error {
	type plain rsWL
	p := struct {
		plain
		PodTemplateHash *string `json:"podTemplateHash"`
	}{}
	if err := json.Unmarshal(b, &p); err != nil {
		return err
	}
	*w = rsWL(p.plain)
	w.PodTemplateHash = w.CanaryRev
	if p.PodTemplateHash != nil {
		w.PodTemplateHash = *p.PodTemplateHash
	}
	return nil
}

type rsBR struct {
	Batches        []J    `json:"batches"`
	Partition      *int   `json:"partition"`
	RolloutID      string `json:"rolloutID"`
	Policy         string `json:"policy"`
	RollbackAnno   bool   `json:"rollbackAnno"`
	SpecOther      bool   `json:"specOther"`
	Deleting       bool   `json:"deleting"`
	PhaseCompleted bool   `json:"phaseCompleted"`
	CurrentBatch   int    `json:"currentBatch"`
	BatchReady     bool   `json:"batchReady"`
	HashSame       bool   `json:"hashSame"`
	GenObserved    bool   `json:"genObserved"`
}

type rsWorld struct {
	Ro  rsRollout `json:"ro"`
	WL  *rsWL     `json:"wl"`
	BR  *rsBR     `json:"br"`
	Net trNet     `json:"net"`
	Mem trMem     `json:"mem"`
	// concretisation hint (canary-style worlds, podTemplateHash ""): a canary Deployment exists but has no ReplicaSet yet
	BareCanary bool `json:"bareCanary,omitempty"`
	// concretisation hint (canary strategy): spec.strategy.canary.patchPodTemplateMetadata of the Rollout - "" (absent), "labels",
	// "annotations", "both", "empty". A BatchRelease whose other spec fields match (specOther) carries the same patch AS AN API
	// SERVER STORES IT (empty maps are dropped by the JSON round trip). Invisible to the model: it only has to be copied faithfully.
	PatchMeta string `json:"patchMeta,omitempty"`
}

// rsPatchMeta: the hint of the world being concretised (set by rsRunF around the builders)
var rsPatchMeta string

func rsPatchOf(kind string, stored bool) *v1beta1.PatchPodTemplateMetadata {
	switch kind {
	case "labels":
		return &v1beta1.PatchPodTemplateMetadata{Labels: map[string]string{"track": "canary"}}
	case "annotations":
		return &v1beta1.PatchPodTemplateMetadata{Annotations: map[string]string{"note": "canary"}}
	case "both":
		return &v1beta1.PatchPodTemplateMetadata{Labels: map[string]string{"track": "canary"}, Annotations: map[string]string{"note": "canary"}}
	case "empty":
		if stored {
			return &v1beta1.PatchPodTemplateMetadata{}
		}
		return &v1beta1.PatchPodTemplateMetadata{Labels: map[string]string{}, Annotations: map[string]string{}}
	}
	return nil
}

const (
	rsPauseShort = 5
	rsPauseLong  = 10000000
)

func rsAge(a string) *metav1.Time {
	switch a {
	case "fresh":
		return &metav1.Time{Time: time.Now()}
	case "elapsed":
		return &metav1.Time{Time: time.Now().Add(-3 * trLongGrace * time.Second)}
	}
	return nil
}

func rsAgeOf(t *metav1.Time) string {
	if t == nil || t.IsZero() {
		return "none"
	}
	if time.Since(t.Time) > trLongGrace*time.Second {
		return "elapsed"
	}
	return "fresh"
}

func rsSteps(steps []rsStep) []v1beta1.CanaryStep {
	var out []v1beta1.CanaryStep
	for _, s := range steps {
		cs := v1beta1.CanaryStep{Replicas: iosFromAny(s.Replicas)}
		if s.Weight != nil {
			w := strconv.Itoa(*s.Weight) + "%"
			cs.Traffic = &w
		}
		switch s.Pause {
		case "short":
			d := int32(rsPauseShort)
			cs.Pause.Duration = &d
		case "long":
			d := int32(rsPauseLong)
			cs.Pause.Duration = &d
		}
		out = append(out, cs)
	}
	return out
}

const rsOtherHash = "otherhash"

func rsBuildRollout(r rsRollout) (*v1beta1.Rollout, string) {
	ro := &v1beta1.Rollout{}
	ro.Namespace, ro.Name, ro.UID, ro.Generation = trNS, "r", trOwnerUID, 1
	ro.Spec.WorkloadRef = v1beta1.ObjectRef{APIVersion: "apps.kruise.io/v1alpha1", Kind: "CloneSet", Name: "wl"}
	if rsdCanaryStyle(r) {
		ro.Spec.WorkloadRef = v1beta1.ObjectRef{APIVersion: "apps/v1", Kind: "Deployment", Name: "wl"}
	}
	var trs []v1beta1.TrafficRoutingRef
	if r.HasTraffic {
		trs = []v1beta1.TrafficRoutingRef{{Service: trSvc, GracePeriodSeconds: int32(r.Grace),
			Ingress: &v1beta1.IngressTrafficRouting{Name: trIng, ClassType: "nginx"}}}
	}
	if r.Style == "blueGreen" {
		ro.Spec.Strategy.BlueGreen = &v1beta1.BlueGreenStrategy{Steps: rsSteps(r.Steps), TrafficRoutings: trs, DisableGenerateCanaryService: r.DisableGen}
	} else {
		ro.Spec.Strategy.Canary = &v1beta1.CanaryStrategy{Steps: rsSteps(r.Steps), TrafficRoutings: trs, DisableGenerateCanaryService: r.DisableGen,
			EnableExtraWorkloadForCanary: rsdCanaryStyle(r), PatchPodTemplateMetadata: rsPatchOf(rsPatchMeta, false)}
	}
	ro.Spec.Strategy.Paused = r.Paused
	ro.Spec.Disabled = r.Disabled
	ro.Annotations = map[string]string{}
	if r.RollbackInBatch {
		ro.Annotations[v1alpha1.RollbackInBatchAnnotation] = "true"
	}
	hash, err := rolloutctl.VerifRolloutHash(ro, theScheme)
	if err != nil {
		panic(err)
	}
	ro.Annotations[util.RolloutHashAnnotation] = hash
	if r.HasFinalizer {
		ro.Finalizers = []string{util.KruiseRolloutFinalizer}
	}
	if r.Deleting {
		now := metav1.Now()
		ro.DeletionTimestamp = &now
		if !r.HasFinalizer {
			ro.Finalizers = []string{"verif/foreign"}
		}
	}
	st := &ro.Status
	st.ObservedGeneration = 1
	st.Phase = v1beta1.RolloutPhase(r.Phase)
	if r.Reason != "none" {
		realReason := map[string]string{"initializing": "Initializing", "inRolling": "InRolling", "finalising": "Finalising", "paused": "Paused",
			"cancelling": "Cancelling", "completed": "Completed", "other": "Weird"}[r.Reason]
		c := v1beta1.RolloutCondition{Type: v1beta1.RolloutConditionProgressing, Status: corev1.ConditionTrue, Reason: realReason,
			LastTransitionTime: metav1.Now()}
		if t := rsAge(r.CondAge); t != nil {
			c.LastUpdateTime = *t
		}
		st.Conditions = append(st.Conditions, c)
	}
	if r.Succeeded != nil {
		cs := corev1.ConditionFalse
		if *r.Succeeded {
			cs = corev1.ConditionTrue
		}
		st.Conditions = append(st.Conditions, v1beta1.RolloutCondition{Type: v1beta1.RolloutConditionSucceeded, Status: cs, LastTransitionTime: metav1.Now(), LastUpdateTime: metav1.Now()})
	}
	switch r.Term {
	case "inTerminating":
		st.Conditions = append(st.Conditions, v1beta1.RolloutCondition{Type: v1beta1.RolloutConditionTerminating, Status: corev1.ConditionTrue, Reason: v1alpha1.TerminatingReasonInTerminating, LastTransitionTime: metav1.Now(), LastUpdateTime: metav1.Now()})
	case "completed":
		st.Conditions = append(st.Conditions, v1beta1.RolloutCondition{Type: v1beta1.RolloutConditionTerminating, Status: corev1.ConditionFalse, Reason: v1alpha1.TerminatingReasonCompleted, LastTransitionTime: metav1.Now(), LastUpdateTime: metav1.Now()})
	}
	if r.Sub != nil {
		s := r.Sub
		cs := v1beta1.CommonStatus{ObservedWorkloadGeneration: int64(s.ObservedGen), ObservedRolloutID: s.ObservedRolloutID,
			StableRevision: s.StableRev, PodTemplateHash: s.PodHash, CurrentStepIndex: int32(s.CurIdx), NextStepIndex: int32(s.NextIdx),
			FinalisingStep: v1beta1.FinalisingStepType(rsFinStepStr(s.FinStep)), CurrentStepState: v1beta1.CanaryStepState(rsStateStr(s.State)),
			LastUpdateTime: rsAge(s.LastUpdate)}
		switch s.Hash {
		case "same":
			cs.RolloutHash = hash
		case "differs":
			cs.RolloutHash = rsOtherHash
		}
		if r.Style == "blueGreen" {
			st.BlueGreenStatus = &v1beta1.BlueGreenStatus{CommonStatus: cs, UpdatedRevision: s.CanaryRev}
		} else {
			st.CanaryStatus = &v1beta1.CanaryStatus{CommonStatus: cs, CanaryRevision: s.CanaryRev}
		}
		st.CurrentStepIndex, st.CurrentStepState = cs.CurrentStepIndex, cs.CurrentStepState
	}
	return ro, hash
}

var rsStates = map[string]string{"init": "BeforeStepUpgrade", "upgrade": "StepUpgrade", "trafficRouting": "StepTrafficRouting",
	"metricsAnalysis": "StepMetricsAnalysis", "paused": "StepPaused", "ready": "StepReady", "completed": "Completed", "other": "Weird"}

func rsStateStr(s string) string { return rsStates[s] }
func rsStateOf(s string) string {
	for k, v := range rsStates {
		if v == s {
			return k
		}
	}
	return "other"
}

var rsFinSteps = map[string]string{"empty": "", "resumeWorkload": "ResumeWorkload", "releaseWorkloadControl": "ReleaseWorkloadControl",
	"routeTrafficToStable": "FinalisingStepRouteTrafficToStable", "restoreStableService": "RestoreStableService",
	"removeCanaryService": "RemoveCanaryService", "routeTrafficToNew": "FinalisingStepRouteTrafficToNew", "end_": "END", "other": "Weird"}

func rsFinStepStr(s string) string { return rsFinSteps[s] }
func rsFinStepOf(s string) string {
	for k, v := range rsFinSteps {
		if v == s {
			return k
		}
	}
	return "other"
}

func rsBuildCloneSet(w *rsWL) *kruisev1alpha1.CloneSet {
	cs := &kruisev1alpha1.CloneSet{}
	cs.Namespace, cs.Name, cs.UID = trNS, "wl", "wl-uid"
	cs.Generation = int64(w.Generation)
	cs.Status.ObservedGeneration = int64(w.Generation)
	if !w.Consistent {
		cs.Status.ObservedGeneration = int64(w.Generation) - 1
	}
	R := int32(w.Replicas)
	cs.Spec.Replicas = &R
	cs.Spec.Selector = &metav1.LabelSelector{MatchLabels: selLabels}
	cs.Spec.Template = podTemplate()
	cs.Annotations = map[string]string{util.WorkloadTypeLabel: "cloneset"}
	if w.InProgressAnno {
		cs.Annotations[util.InRolloutProgressingAnnotation] = `{"rolloutName":"r"}`
	}
	cs.Status.CurrentRevision = "wl-" + w.StableRev
	cs.Status.UpdateRevision = "wl-" + w.CanaryRev
	cs.Status.Replicas = R
	cs.Status.UpdatedReplicas = R
	if w.InRollback {
		cs.Status.UpdatedReplicas = R - 1
		cs.Status.Replicas = R
	}
	return cs
}

func rsBuildBR(b *rsBR, ro *v1beta1.Rollout) *v1beta1.BatchRelease {
	br := &v1beta1.BatchRelease{}
	br.Namespace, br.Name, br.UID, br.Generation = trNS, "r", "br-uid", 1
	br.OwnerReferences = []metav1.OwnerReference{*metav1.NewControllerRef(ro, v1beta1.SchemeGroupVersion.WithKind("Rollout"))}
	br.Spec.WorkloadRef = v1beta1.ObjectRef{APIVersion: ro.Spec.WorkloadRef.APIVersion, Kind: ro.Spec.WorkloadRef.Kind, Name: "wl"}
	for _, e := range b.Batches {
		br.Spec.ReleasePlan.Batches = append(br.Spec.ReleasePlan.Batches, v1beta1.ReleaseBatch{CanaryReplicas: *iosFromAny(e)})
	}
	if b.Partition != nil {
		br.Spec.ReleasePlan.BatchPartition = i32p(int32(*b.Partition))
	}
	br.Spec.ReleasePlan.RolloutID = b.RolloutID
	br.Spec.ReleasePlan.FinalizingPolicy = v1beta1.FinalizingPolicyType(b.Policy)
	br.Spec.ReleasePlan.RollingStyle = ro.Spec.Strategy.GetRollingStyle()
	br.Spec.ReleasePlan.EnableExtraWorkloadForCanary = rsExtraWorkload(ro)
	if !b.SpecOther {
		ft := *iosFromAny(J{"i": 1})
		br.Spec.ReleasePlan.FailureThreshold = &ft
	} else if ro.Spec.Strategy.Canary != nil {
		br.Spec.ReleasePlan.PatchPodTemplateMetadata = rsPatchOf(rsPatchMeta, true)
	}
	if b.RollbackAnno {
		br.Annotations = map[string]string{v1alpha1.RollbackInBatchAnnotation: "true"}
	}
	br.Finalizers = []string{"rollouts.kruise.io/batch-release-finalizer"}
	if b.Deleting {
		now := metav1.Now()
		br.DeletionTimestamp = &now
	}
	if b.PhaseCompleted {
		br.Status.Phase = v1beta1.RolloutPhaseCompleted
	} else {
		br.Status.Phase = v1beta1.RolloutPhaseProgressing
	}
	br.Status.CanaryStatus.CurrentBatch = int32(b.CurrentBatch)
	br.Status.CanaryStatus.CurrentBatchState = v1beta1.UpgradingBatchState
	if b.BatchReady {
		br.Status.CanaryStatus.CurrentBatchState = v1beta1.ReadyBatchState
	}
	br.Status.ObservedReleasePlanHash = "stale"
	if b.HashSame {
		br.Status.ObservedReleasePlanHash = util.HashReleasePlanBatches(&br.Spec.ReleasePlan)
	}
	br.Status.ObservedGeneration = 0
	if b.GenObserved {
		br.Status.ObservedGeneration = 1
	}
	br.Status.ObservedRolloutID = b.RolloutID
	return br
}

func rsAbstractBR(br *v1beta1.BatchRelease, ro *v1beta1.Rollout) *rsBR {
	b := &rsBR{RolloutID: br.Spec.ReleasePlan.RolloutID, Policy: string(br.Spec.ReleasePlan.FinalizingPolicy),
		RollbackAnno: br.Annotations[v1alpha1.RollbackInBatchAnnotation] != "", Deleting: !br.DeletionTimestamp.IsZero(),
		PhaseCompleted: br.Status.Phase == v1beta1.RolloutPhaseCompleted, CurrentBatch: int(br.Status.CanaryStatus.CurrentBatch),
		BatchReady: br.Status.CanaryStatus.CurrentBatchState == v1beta1.ReadyBatchState,
		HashSame:   br.Status.ObservedReleasePlanHash == util.HashReleasePlanBatches(&br.Spec.ReleasePlan),
		GenObserved: br.Generation == br.Status.ObservedGeneration}
	for _, x := range br.Spec.ReleasePlan.Batches {
		b.Batches = append(b.Batches, iosOut(x.CanaryReplicas))
	}
	if br.Spec.ReleasePlan.BatchPartition != nil {
		p := int(*br.Spec.ReleasePlan.BatchPartition)
		b.Partition = &p
	}
	b.SpecOther = br.Spec.ReleasePlan.FailureThreshold == nil && br.Spec.ReleasePlan.RollingStyle == ro.Spec.Strategy.GetRollingStyle() &&
		br.Spec.ReleasePlan.EnableExtraWorkloadForCanary == rsExtraWorkload(ro) && rsPatchStoredEq(br.Spec.ReleasePlan.PatchPodTemplateMetadata, ro) &&
		br.Spec.WorkloadRef == v1beta1.ObjectRef{APIVersion: ro.Spec.WorkloadRef.APIVersion, Kind: ro.Spec.WorkloadRef.Kind, Name: "wl"}
	return b
}

// rsPatchStoredEq: the BatchRelease's pod-template patch is the Rollout's, as stored (nil and empty maps are the same thing
// after the JSON round trip of an API server)
func rsPatchStoredEq(p *v1beta1.PatchPodTemplateMetadata, ro *v1beta1.Rollout) bool {
	var q *v1beta1.PatchPodTemplateMetadata
	if ro.Spec.Strategy.Canary != nil {
		q = ro.Spec.Strategy.Canary.PatchPodTemplateMetadata
	}
	if p == nil || q == nil {
		return p == nil && q == nil
	}
	eq := func(a, b map[string]string) bool {
		if len(a) != len(b) {
			return false
		}
		for k, v := range a {
			if w, ok := b[k]; !ok || w != v {
				return false
			}
		}
		return true
	}
	return eq(p.Labels, q.Labels) && eq(p.Annotations, q.Annotations)
}

// what createBatchRelease copies into spec.releasePlan.enableExtraWorkloadForCanary
func rsExtraWorkload(ro *v1beta1.Rollout) bool {
	return ro.Spec.Strategy.Canary != nil && ro.Spec.Strategy.Canary.EnableExtraWorkloadForCanary
}

func rsAbstractRollout(ro *v1beta1.Rollout, in rsRollout, hash string) rsRollout {
	out := in // spec part is never written by the controller
	out.HasFinalizer = false
	for _, f := range ro.Finalizers {
		if f == util.KruiseRolloutFinalizer {
			out.HasFinalizer = true
		}
	}
	out.Deleting = !ro.DeletionTimestamp.IsZero()
	st := ro.Status
	out.Phase = string(st.Phase)
	out.Reason, out.CondAge, out.Succeeded, out.Term = "none", "ignored", nil, "none"
	if c := util.GetRolloutCondition(st, v1beta1.RolloutConditionProgressing); c != nil {
		switch c.Reason {
		case "Initializing":
			out.Reason = "initializing"
		case "InRolling":
			out.Reason = "inRolling"
		case "Finalising":
			out.Reason = "finalising"
		case "Paused":
			out.Reason = "paused"
		case "Cancelling":
			out.Reason = "cancelling"
		case "Completed":
			out.Reason = "completed"
		default:
			out.Reason = "other"
		}
	}
	if c := util.GetRolloutCondition(st, v1beta1.RolloutConditionSucceeded); c != nil {
		b := c.Status == corev1.ConditionTrue
		out.Succeeded = &b
	}
	if c := util.GetRolloutCondition(st, v1beta1.RolloutConditionTerminating); c != nil {
		if c.Reason == v1alpha1.TerminatingReasonCompleted {
			out.Term = "completed"
		} else {
			out.Term = "inTerminating"
		}
	}
	out.Sub = nil
	if cs := st.GetSubStatus(); cs != nil {
		s := &rsSub{CurIdx: int(cs.CurrentStepIndex), NextIdx: int(cs.NextStepIndex), State: rsStateOf(string(cs.CurrentStepState)),
			FinStep: rsFinStepOf(string(cs.FinalisingStep)), StableRev: cs.StableRevision, PodHash: cs.PodTemplateHash,
			ObservedRolloutID: cs.ObservedRolloutID, ObservedGen: int(cs.ObservedWorkloadGeneration), LastUpdate: rsAgeOf(cs.LastUpdateTime)}
		// an illegal next-step index is corrected in memory on every reconcile (CheckNextBatchIndexWithCorrect);
		// whether the corrected value is also persisted depends on unrelated status fields, so normalise it
		if n := len(in.Steps); s.NextIdx <= 0 || s.NextIdx > n {
			if s.CurIdx >= n {
				s.NextIdx = -1
			} else {
				s.NextIdx = s.CurIdx + 1
			}
		}
		s.CanaryRev = st.GetCanaryRevision()
		switch cs.RolloutHash {
		case "":
			s.Hash = "empty"
		case hash:
			s.Hash = "same"
		default:
			s.Hash = "differs"
		}
		out.Sub = s
	}
	return out
}

func rsPhaseStr(p string) string { return p }

func rsRun(in0 rsWorld) interface{} {
	out, _, _, _ := rsRunF(in0, 0)
	return out
}

// rsRunF: one real Reconcile; failN > 0 makes the failN-th API call of the reconcile (reads included) fail.
// Returns the usual output, the number of API calls the reconcile made, the failed call ("" if none) and its writes.
func rsRunF(in0 rsWorld, failN int) (J, int, string, []string) {
	in := rsdConcretise(in0) // canary-style worlds: revision names become the pod-template hashes the finder reports
	rsPatchMeta = in0.PatchMeta
	defer func() { rsPatchMeta = "" }()
	ro, hash := rsBuildRollout(in.Ro)
	objs := []client.Object{ro}
	if in.WL != nil {
		objs = append(objs, rsdBuildWorkload(in)...)
	}
	if in.BR != nil {
		objs = append(objs, rsBuildBR(in.BR, ro))
	}
	netCli := trBuildWith(in.Net, objs...)
	netCli.Log = nil
	finderDiff := rsdFinderCheck(netCli, ro, in.Ro, in.WL)
	canaryKey := trNS + "/" + trSvc + "-canary"
	trSetMem(in.Mem, canaryKey)
	old := rolloutctl.VerifSetGracePeriodSeconds(trLongGrace)
	defer rolloutctl.VerifSetGracePeriodSeconds(old)
	rec := rolloutctl.VerifNewReconciler(netCli, theScheme)
	netCli.Calls, netCli.FailCallN, netCli.FaultHit = 0, failN, ""
	res, err := rec.Reconcile(context.TODO(), ctrl.Request{NamespacedName: types.NamespacedName{Namespace: trNS, Name: "r"}})
	netCli.FailCallN = 0
	calls, hit := netCli.Calls, netCli.FaultHit
	out := J{"requeue": res.RequeueAfter > 0 || res.Requeue, "err": err != nil}
	if finderDiff != "" {
		out["finderMismatch"] = finderDiff // the concretised workload is not the generated one: shows up as a difference
	}
	w := J{}
	got := &v1beta1.Rollout{}
	if e := netCli.Get(context.TODO(), types.NamespacedName{Namespace: trNS, Name: "r"}, got); e != nil {
		if apierrors.IsNotFound(e) {
			out["roGone"] = true
			w["ro"] = nil
		} else {
			w["ro"] = "get-err"
		}
	} else {
		out["roGone"] = false
		w["ro"] = rsAbstractRollout(got, in.Ro, hash)
	}
	if anno, found := rsdWorkloadAnno(netCli, in.Ro); !found {
		w["wl"] = nil
	} else {
		wl := *in.WL
		wl.InProgressAnno = anno
		w["wl"] = wl
	}
	br := &v1beta1.BatchRelease{}
	if e := netCli.Get(context.TODO(), types.NamespacedName{Namespace: trNS, Name: "r"}, br); e != nil {
		w["br"] = nil
	} else {
		w["br"] = rsAbstractBR(br, ro)
	}
	w["net"] = trAbstract(netCli)
	w["mem"] = trGetMem(canaryKey)
	rsdAbstractWorld(in.Ro, w)
	out["w"] = w
	var writes []string
	brWritten := false
	for _, r := range netCli.Log {
		if r.Err {
			continue
		}
		writes = append(writes, r.Verb+" "+r.Kind+" "+r.Key)
		brWritten = brWritten || r.Kind == "BatchRelease"
	}
	out["brWritten"] = brWritten
	grace.ResetExpectations()
	return out, calls, hit, writes
}

// rsFaults: C06 at the level of one Rollout reconcile, judged on the implementation alone (the one-step model has no
// fault parameter): the same world is reconciled once undisturbed and then once per chosen call index k with the k-th API
// call (a read or a write) failing.  Emitted per k: whether the failure was reported (error returned = the request is
// retried), and the writes of the disturbed reconcile next to those of the undisturbed one.
func rsFaults(c *Ctx, in rsWorld, all bool) {
	var calls int
	var baseWrites []string
	var base J
	if r := guard(func() interface{} {
		o, n, _, w := rsRunF(in, 0)
		base, calls, baseWrites = o, n, w
		return nil
	}); r != nil {
		return // the undisturbed reconcile panics: that is the reconcile op's business
	}
	if calls == 0 || base["err"] == true {
		return
	}
	ks := []int{}
	if all || calls <= 3 {
		for k := 1; k <= calls; k++ {
			ks = append(ks, k)
		}
	} else {
		ks = append(ks, 1+c.Rng.Intn(calls), 1+c.Rng.Intn(calls), calls)
	}
	for i, k := range append([]int{}, ks...) {
		if all || i == len(ks)-1 || c.Rng.Intn(2) == 0 {
			ks = append(ks, -k) // the same call answered with a 409 Conflict (mutating calls only)
		}
	}
	for _, k := range ks {
		k := k
		impl := guard(func() interface{} {
			o, _, hit, w := rsRunF(in, k)
			return J{"err": o["err"], "requeue": o["requeue"], "hit": hit, "writes": w, "baseWrites": baseWrites, "calls": calls}
		})
		c.Emit("fault", J{"w": in, "k": k}, impl)
	}
}

func rsCase(c *Ctx, in rsWorld) {
	impl := guard(func() interface{} { return rsRun(in) })
	c.Emit("reconcile", in, impl)
}

func genRolloutWorld(c *Ctx) rsWorld {
	R := 1 + c.Rng.Intn(10)
	style := pickS(c, "canary", "canary", "blueGreen")
	nsteps := 1 + c.Rng.Intn(4)
	hasTraffic := c.Rng.Intn(3) != 0
	var steps []rsStep
	acc := 0
	pcts := c.Rng.Intn(2) == 0
	for i := 0; i < nsteps; i++ {
		st := rsStep{Pause: pickS(c, "manual", "short", "short", "long")}
		if pcts {
			acc += 10 + c.Rng.Intn(50)
			if acc > 100 || (i == nsteps-1 && c.Rng.Intn(2) == 0) {
				acc = 100
			}
			st.Replicas = J{"p": acc}
		} else {
			acc += 1 + c.Rng.Intn(R)
			st.Replicas = J{"i": acc}
		}
		if c.Rng.Intn(5) == 0 && i > 0 {
			st.Replicas = steps[i-1].Replicas // equal replicas: jump goes straight to traffic routing
		}
		if hasTraffic && c.Rng.Intn(4) != 0 {
			w := []int{0, 5, 20, 50, 100}[c.Rng.Intn(5)]
			if style == "canary" && w == 0 {
				w = 10
			}
			st.Weight = &w
		}
		steps = append(steps, st)
	}
	bigPlan := false
	if !pcts && c.Rng.Intn(15) == 0 {
		// focused stream: a large workload whose plan is written in absolute numbers that look like percentages
		// (a last step of exactly / more than 100 pods out of 150 or 300 is NOT a full release)
		bigPlan = true
		R = []int{150, 300}[c.Rng.Intn(2)]
		acc = 0
		for i := range steps {
			acc += 10 + c.Rng.Intn(60)
			if i == len(steps)-1 {
				acc = []int{100, 100, 120, R}[c.Rng.Intn(4)]
			} else if acc >= 100 {
				acc = 99
			}
			steps[i].Replicas = J{"i": acc}
		}
	}
	ro := rsRollout{Style: style, Steps: steps, Paused: c.Rng.Intn(10) == 0, Disabled: c.Rng.Intn(14) == 0, Deleting: c.Rng.Intn(10) == 0,
		HasFinalizer: c.Rng.Intn(8) != 0, HasTraffic: hasTraffic, DisableGen: c.Rng.Intn(8) == 0,
		RollbackInBatch: c.Rng.Intn(10) == 0, Grace: []int{trLongGrace, trLongGrace, 0}[c.Rng.Intn(3)], CondAge: pickS(c, "elapsed", "elapsed", "fresh")}
	ro.Phase = pickS(c, "Progressing", "Progressing", "Progressing", "Progressing", "Progressing", "Progressing", "Healthy", "Initial", "", "Terminating", "Disabling", "Disabled")
	if ro.Deleting && c.Rng.Intn(3) != 0 {
		ro.Phase = "Terminating"
	}
	ro.Term, ro.Reason = "none", "none"
	if ro.Phase == "Terminating" {
		ro.Term = pickS(c, "inTerminating", "inTerminating", "inTerminating", "completed")
		ro.Deleting = true
	}
	canaryRev, stableRev := "v2", "v1"
	if ro.Phase == "Progressing" {
		ro.Reason = pickS(c, "InRolling", "InRolling", "InRolling", "InRolling", "InRolling", "InRolling", "Initializing", "Finalising", "Paused", "Cancelling", "Completed")
	}
	needSub := ro.Phase == "Progressing" && ro.Reason != "Initializing" || ro.Phase == "Terminating" || ro.Phase == "Disabling" || c.Rng.Intn(3) == 0
	if needSub && c.Rng.Intn(40) != 0 {
		s := &rsSub{CanaryRev: canaryRev, StableRev: stableRev, PodHash: pickS(c, canaryRev, canaryRev, ""), Hash: pickS(c, "same", "same", "same", "same", "same", "differs", "empty"),
			ObservedRolloutID: canaryRev, ObservedGen: 2, LastUpdate: pickS(c, "elapsed", "elapsed", "fresh", "none")}
		s.CurIdx = 1 + c.Rng.Intn(nsteps)
		s.NextIdx = s.CurIdx + 1
		if s.CurIdx >= nsteps {
			s.NextIdx = -1
		}
		switch c.Rng.Intn(12) {
		case 0:
			s.NextIdx = 1 + c.Rng.Intn(nsteps) // jump
		case 1:
			s.NextIdx = pickInt(c, 0, -5, nsteps+1, nsteps+7) // illegal values a user can patch in
		}
		s.State = pickS(c, "init", "upgrade", "upgrade", "trafficRouting", "trafficRouting", "metricsAnalysis", "paused", "paused", "ready", "ready", "completed", "other")
		if bigPlan && c.Rng.Intn(2) == 0 {
			s.CurIdx, s.NextIdx, s.State = nsteps, -1, "paused"
		}
		s.FinStep = "empty"
		if ro.Reason == "Finalising" || ro.Reason == "Cancelling" || ro.Phase == "Terminating" || ro.Phase == "Disabling" || c.Rng.Intn(10) == 0 {
			s.FinStep = pickS(c, "empty", "resumeWorkload", "releaseWorkloadControl", "routeTrafficToStable", "restoreStableService", "removeCanaryService", "routeTrafficToNew", "end_", "other")
		}
		if c.Rng.Intn(60) == 0 {
			s.CurIdx = pickInt(c, 0, nsteps+1)
		}
		ro.Sub = s
	}
	switch ro.Reason {
	case "InRolling", "Initializing", "Finalising", "Paused", "Cancelling", "Completed":
		ro.Reason = map[string]string{"InRolling": "inRolling", "Initializing": "initializing", "Finalising": "finalising", "Paused": "paused", "Cancelling": "cancelling", "Completed": "completed"}[ro.Reason]
	}
	if ro.Phase == "Progressing" && c.Rng.Intn(60) == 0 {
		ro.Reason = "none"
	}
	if c.Rng.Intn(6) == 0 {
		b := c.Rng.Intn(2) == 0
		ro.Succeeded = &b
	}
	var wl *rsWL
	if c.Rng.Intn(15) != 0 {
		w := &rsWL{Consistent: c.Rng.Intn(15) != 0, InProgressAnno: c.Rng.Intn(4) != 0, CanaryRev: canaryRev, StableRev: stableRev, Replicas: R, Generation: 2}
		switch c.Rng.Intn(10) {
		case 0:
			w.CanaryRev = "v3" // continuous release
		case 1:
			w.CanaryRev, w.StableRev, w.InRollback = "v1", "v1", w.InProgressAnno // rollback (only observed while in progress)
		}
		wl = w
	}
	if c.Rng.Intn(15) == 0 && ro.Sub != nil && wl != nil {
		// focused stream: a rollback in batches observed at a random step / sub-state
		ro.RollbackInBatch, ro.HasTraffic, ro.Paused, ro.Disabled, ro.Deleting = true, false, false, false, false
		ro.Phase, ro.Reason, ro.Term = "Progressing", "inRolling", "none"
		for i := range ro.Steps {
			ro.Steps[i].Weight = nil
		}
		ro.Sub.Hash, ro.Sub.FinStep = "same", "empty"
		wl.Consistent, wl.InProgressAnno, wl.CanaryRev, wl.StableRev, wl.InRollback = true, true, "v1", "v1", true
	}
	var br *rsBR
	if c.Rng.Intn(4) != 0 {
		b := &rsBR{RolloutID: canaryRev, SpecOther: c.Rng.Intn(12) != 0, Deleting: c.Rng.Intn(12) == 0, PhaseCompleted: c.Rng.Intn(6) == 0,
			BatchReady: c.Rng.Intn(2) == 0, HashSame: c.Rng.Intn(8) != 0, GenObserved: c.Rng.Intn(8) != 0, Policy: pickS(c, "", "", "Immediate", "WaitResume")}
		for _, s := range steps {
			b.Batches = append(b.Batches, s.Replicas)
		}
		if c.Rng.Intn(10) == 0 && len(b.Batches) > 1 {
			b.Batches = b.Batches[:len(b.Batches)-1] // stale plan
		}
		cur := 1
		if ro.Sub != nil {
			cur = ro.Sub.CurIdx
		}
		if c.Rng.Intn(6) != 0 {
			p := cur - 1
			if c.Rng.Intn(5) == 0 {
				p = c.Rng.Intn(nsteps)
			}
			b.Partition = &p
			b.CurrentBatch = p
			if c.Rng.Intn(4) == 0 {
				b.CurrentBatch = c.Rng.Intn(nsteps)
			}
		}
		if c.Rng.Intn(12) == 0 {
			b.RolloutID = "old"
		}
		b.RollbackAnno = ro.RollbackInBatch && wl != nil && wl.InRollback && c.Rng.Intn(2) == 0
		if c.Rng.Intn(3) == 0 {
			// focused stream: the BatchRelease exactly as the controller wrote it for the current step; only the
			// reported progress varies around the requested batch (boundary cases of the readiness gate)
			p := cur - 1
			b.Partition, b.SpecOther, b.Deleting, b.Policy, b.RolloutID = &p, true, false, "", canaryRev
			b.HashSame, b.GenObserved, b.PhaseCompleted = true, true, false
			b.BatchReady = c.Rng.Intn(4) != 0
			b.CurrentBatch = p + []int{0, 0, -1, -1, 1, -2}[c.Rng.Intn(6)]
			if b.CurrentBatch < 0 {
				b.CurrentBatch = 0
			}
			b.Batches = b.Batches[:0]
			for _, s := range steps {
				b.Batches = append(b.Batches, s.Replicas)
			}
		}
		br = b
	}
	if c.Rng.Intn(20) == 0 && ro.Sub != nil {
		// focused stream: the Rollout is deleted (or disabled) right after its last step was confirmed — the sub-state says
		// Completed but the clean-up has not started yet (cursor still empty): everything the rollout created is still there
		ro.Deleting, ro.Paused = true, false
		ro.Phase, ro.Reason, ro.Term = pickS(c, "Terminating", "Terminating", "Progressing"), "none", "inTerminating"
		if ro.Phase == "Progressing" {
			ro.Reason, ro.Term = "inRolling", "none"
		}
		ro.Sub.State, ro.Sub.FinStep, ro.Sub.CurIdx, ro.Sub.NextIdx, ro.Sub.Hash = pickS(c, "completed", "completed", "ready"), pickS(c, "empty", "empty", "end_"), nsteps, -1, "same"
	}
	if c.Rng.Intn(14) == 0 && ro.Sub != nil && wl != nil && nsteps >= 2 {
		// focused stream: the plan was edited while a step is in progress; the BatchRelease still carries the OLD plan, its
		// partition is ahead of the batch it has reached (the Rollout raised it, the BatchRelease has not reconciled yet)
		ro.Paused, ro.Disabled, ro.Deleting, ro.Phase, ro.Reason, ro.Term = false, false, false, "Progressing", "inRolling", "none"
		ro.Sub.Hash, ro.Sub.FinStep, ro.Sub.CanaryRev = "differs", "empty", canaryRev
		wl.Consistent, wl.InProgressAnno, wl.CanaryRev, wl.StableRev, wl.InRollback = true, true, canaryRev, stableRev, false
		p := 1 + c.Rng.Intn(nsteps-1)
		ro.Sub.CurIdx = 1 + c.Rng.Intn(nsteps)
		ro.Sub.NextIdx = ro.Sub.CurIdx + 1
		if ro.Sub.CurIdx >= nsteps {
			ro.Sub.NextIdx = -1
		}
		b := &rsBR{RolloutID: canaryRev, SpecOther: true, HashSame: true, GenObserved: true, BatchReady: c.Rng.Intn(2) == 0, Partition: &p, CurrentBatch: c.Rng.Intn(p + 1)}
		// the old plan: the same number of batches, larger (or equal) entries
		for i, st := range steps {
			e := st.Replicas
			if v, ok := e["p"].(int); ok {
				nv := v + []int{0, 10, 30, 50}[c.Rng.Intn(4)]*(i+1)/nsteps
				if nv > 100 {
					nv = 100
				}
				e = J{"p": nv}
			} else if v, ok := e["i"].(int); ok {
				e = J{"i": v + c.Rng.Intn(3)*(i+1)}
			}
			b.Batches = append(b.Batches, e)
		}
		br = b
	}
	n := trNet{StableExists: c.Rng.Intn(15) != 0, StableIngress: c.Rng.Intn(15) != 0}
	if c.Rng.Intn(2) == 0 {
		r := pickS(c, "v1", "v1", "v2")
		n.StableSel = &r
	}
	if c.Rng.Intn(2) == 0 {
		r := pickS(c, "v2", "v2", "v3")
		n.CanarySvc = &r
	}
	if c.Rng.Intn(2) == 0 {
		w := []int{0, 5, 20, 50, 100}[c.Rng.Intn(5)]
		n.CanaryIng = &w
	}
	if !n.StableExists {
		n.StableSel = nil
	}
	if !hasTraffic && c.Rng.Intn(3) != 0 {
		n = trNet{StableExists: true, StableIngress: true}
	}
	m := trMem{trExp[c.Rng.Intn(4)], trExp[c.Rng.Intn(4)], trExp[c.Rng.Intn(4)], trExp[c.Rng.Intn(4)], trExp[c.Rng.Intn(4)]}
	w := rsWorld{Ro: ro, WL: wl, BR: br, Net: n, Mem: m}
	w.Ro.RealPartition = true
	if w.WL != nil {
		w.WL.PodTemplateHash = w.WL.CanaryRev
	}
	// about a third of all worlds: canary-style Deployment rollouts (suite_rolloutsm_deploy.go)
	if style == "canary" && c.Rng.Intn(2) == 0 {
		rsdGenCanaryStyle(c, &w)
	} else if style == "canary" && c.Rng.Intn(8) == 0 {
		rsdFocusFirstStep(c, &w)
	}
	return w
}

func runRolloutSM(c *Ctx) {
	for i := 0; i < c.N; i++ {
		w := genRolloutWorld(c)
		if w.Ro.Style != "blueGreen" && c.Rng.Intn(4) == 0 {
			w.PatchMeta = pickS(c, "labels", "annotations", "both", "empty")
		}
		rsCase(c, w)
		if i%6 == 0 {
			rsFaults(c, w, c.Thorough() && i%30 == 0)
		}
	}
}

func replayRolloutSM(c *Ctx, op string, raw json.RawMessage) {
	if op == "fault" {
		var f struct {
			W rsWorld `json:"w"`
			K int     `json:"k"`
		}
		if err := json.Unmarshal(raw, &f); err != nil {
			panic(err)
		}
		var calls int
		var baseWrites []string
		_ = guard(func() interface{} { _, calls, _, baseWrites = rsRunF(f.W, 0); return nil })
		impl := guard(func() interface{} {
			o, _, hit, w := rsRunF(f.W, f.K)
			return J{"err": o["err"], "requeue": o["requeue"], "hit": hit, "writes": w, "baseWrites": baseWrites, "calls": calls}
		})
		c.Emit("fault", J{"w": f.W, "k": f.K}, impl)
		return
	}
	var in rsWorld
	if err := json.Unmarshal(raw, &in); err != nil {
		panic(err)
	}
	rsCase(c, in)
}
