package main

import (
	"context"
	"fmt"
	"strings"

	apierrors "k8s.io/apimachinery/pkg/api/errors"
	"k8s.io/apimachinery/pkg/runtime"
	"k8s.io/apimachinery/pkg/runtime/schema"
	"sigs.k8s.io/controller-runtime/pkg/client"
)

// WriteRec is one mutating API call seen by the logging client.
type WriteRec struct {
	Verb string // create|update|patch|delete|status-update|status-patch|deleteAllOf
	Kind string
	Key  string
	Err  bool
}

// LogClient wraps a client.Client, records every mutating call and can inject
// faults: FailAt >= 0 makes the FailAt-th mutating call (0-based) and every later
// one fail with FailErr (a crash/fault point); reads are never failed unless FailReads.
type LogClient struct {
	client.Client
	Log      []WriteRec
	FailAt   int
	FailErr  error
	OnWrite  func(rec WriteRec) // called after every successful write
	sequence int
	// FailGetN > 0: the FailGetN-th Get (1-based) of an object whose kind is not ConfigMap fails with an internal
	// error (NOT NotFound); every other Get succeeds.  0 = disabled.  GetFailed reports whether it happened.
	FailGetN  int
	GetFailed bool
	getSeq    int
	// call-level faults (reads included): FailCallN > 0 makes the FailCallN-th API call of any kind (Get, List and the
	// mutating calls, counted together, 1-based) fail with an InternalError — exactly that one call, later calls work.
	FailCallN int
	// ConflictAtWrite > 0: the ConflictAtWrite-th mutating call (1-based, counted over the client's life) fails ONCE with a
	// 409 Conflict - "somebody else wrote the object in between" -, every other call works (a retry succeeds).
	ConflictAtWrite int
	OnConflict      func(rec WriteRec) // called when that conflict is injected, before the call returns: the concurrent writer
	writesSeen      int
	// FailAllPrefix != "": an outage - EVERY call whose description starts with it (e.g. "list ") fails with an InternalError
	FailAllPrefix string
	Calls     int    // API calls seen so far (reads and writes)
	FaultHit  string // "" or a description of the call that was failed
}

// callFault counts one API call and says whether it is the one to fail.
func (l *LogClient) callFault(what string) error {
	l.Calls++
	if l.FailAllPrefix != "" && strings.HasPrefix(what, l.FailAllPrefix) {
		l.FaultHit = "outage:" + what
		return apierrors.NewInternalError(fmt.Errorf("injected outage (%s)", what))
	}
	n := l.FailCallN
	if n < 0 {
		n = -n
	}
	if n > 0 && l.Calls == n {
		// FailCallN < 0: a mutating call fails with a 409 Conflict (somebody else wrote the object in between) instead of
		// an InternalError; reads always fail with an InternalError
		if l.FailCallN < 0 && !strings.HasPrefix(what, "get ") && !strings.HasPrefix(what, "list ") {
			l.FaultHit = "conflict:" + what
			return apierrors.NewConflict(schema.GroupResource{Resource: "injected"}, what, fmt.Errorf("injected conflict at call %d", l.Calls))
		}
		l.FaultHit = what
		return apierrors.NewInternalError(fmt.Errorf("injected fault at call %d (%s)", l.Calls, what))
	}
	return nil
}

// Get counts the call (FailCallN) and, separately, the reads of non-ConfigMap objects (FailGetN).
func (l *LogClient) Get(ctx context.Context, key client.ObjectKey, obj client.Object, opts ...client.GetOption) error {
	if err := l.callFault("get " + kindOf(l.Scheme(), obj) + " " + key.String()); err != nil {
		return err
	}
	if l.FailGetN > 0 && kindOf(l.Scheme(), obj) != "ConfigMap" {
		l.getSeq++
		if l.getSeq == l.FailGetN {
			l.GetFailed = true
			return apierrors.NewInternalError(fmt.Errorf("injected read fault at get %d (%s %s)", l.getSeq, kindOf(l.Scheme(), obj), key))
		}
	}
	return l.Client.Get(ctx, key, obj, opts...)
}

func (l *LogClient) List(ctx context.Context, list client.ObjectList, opts ...client.ListOption) error {
	if err := l.callFault("list " + kindOf(l.Scheme(), list)); err != nil {
		return err
	}
	return l.Client.List(ctx, list, opts...)
}

func NewLogClient(c client.Client) *LogClient { return &LogClient{Client: c, FailAt: -1} }

func kindOf(scheme *runtime.Scheme, obj runtime.Object) string {
	gvk := obj.GetObjectKind().GroupVersionKind()
	if gvk.Kind != "" {
		return gvk.Kind
	}
	if gvks, _, err := scheme.ObjectKinds(obj); err == nil && len(gvks) > 0 {
		return gvks[0].Kind
	}
	return fmt.Sprintf("%T", obj)
}

func (l *LogClient) pre(verb string, obj client.Object) (WriteRec, error) {
	rec := WriteRec{Verb: verb, Kind: kindOf(l.Scheme(), obj), Key: obj.GetNamespace() + "/" + obj.GetName()}
	if err := l.callFault(verb + " " + rec.Kind + " " + rec.Key); err != nil {
		rec.Err = true
		l.Log = append(l.Log, rec)
		return rec, err
	}
	l.writesSeen++
	if l.ConflictAtWrite > 0 && l.writesSeen == l.ConflictAtWrite {
		rec.Err = true
		l.Log = append(l.Log, rec)
		l.FaultHit = "conflict:" + verb + " " + rec.Kind + " " + rec.Key
		if l.OnConflict != nil {
			l.OnConflict(rec)
		}
		return rec, apierrors.NewConflict(schema.GroupResource{Resource: "injected"}, rec.Key, fmt.Errorf("injected conflict at write %d", l.writesSeen))
	}
	idx := l.sequence
	l.sequence++
	if l.FailAt >= 0 && idx >= l.FailAt {
		rec.Err = true
		l.Log = append(l.Log, rec)
		err := l.FailErr
		if err == nil {
			err = fmt.Errorf("injected fault at write %d", idx)
		}
		return rec, err
	}
	return rec, nil
}

func (l *LogClient) post(rec WriteRec, err error) error {
	rec.Err = err != nil
	l.Log = append(l.Log, rec)
	if err == nil && l.OnWrite != nil {
		l.OnWrite(rec)
	}
	return err
}

func (l *LogClient) Create(ctx context.Context, obj client.Object, opts ...client.CreateOption) error {
	rec, err := l.pre("create", obj)
	if err != nil {
		return err
	}
	err = l.Client.Create(ctx, obj, opts...)
	rec.Key = obj.GetNamespace() + "/" + obj.GetName()
	return l.post(rec, err)
}

func (l *LogClient) Update(ctx context.Context, obj client.Object, opts ...client.UpdateOption) error {
	rec, err := l.pre("update", obj)
	if err != nil {
		return err
	}
	return l.post(rec, l.Client.Update(ctx, obj, opts...))
}

func (l *LogClient) Patch(ctx context.Context, obj client.Object, patch client.Patch, opts ...client.PatchOption) error {
	rec, err := l.pre("patch", obj)
	if err != nil {
		return err
	}
	return l.post(rec, l.Client.Patch(ctx, obj, patch, opts...))
}

func (l *LogClient) Delete(ctx context.Context, obj client.Object, opts ...client.DeleteOption) error {
	rec, err := l.pre("delete", obj)
	if err != nil {
		return err
	}
	return l.post(rec, l.Client.Delete(ctx, obj, opts...))
}

func (l *LogClient) DeleteAllOf(ctx context.Context, obj client.Object, opts ...client.DeleteAllOfOption) error {
	rec, err := l.pre("deleteAllOf", obj)
	if err != nil {
		return err
	}
	return l.post(rec, l.Client.DeleteAllOf(ctx, obj, opts...))
}

type logStatusWriter struct {
	l *LogClient
	w client.StatusWriter
}

func (l *LogClient) Status() client.StatusWriter { return &logStatusWriter{l, l.Client.Status()} }

func (s *logStatusWriter) Update(ctx context.Context, obj client.Object, opts ...client.SubResourceUpdateOption) error {
	rec, err := s.l.pre("status-update", obj)
	if err != nil {
		return err
	}
	return s.l.post(rec, s.w.Update(ctx, obj, opts...))
}

func (s *logStatusWriter) Patch(ctx context.Context, obj client.Object, patch client.Patch, opts ...client.SubResourcePatchOption) error {
	rec, err := s.l.pre("status-patch", obj)
	if err != nil {
		return err
	}
	return s.l.post(rec, s.w.Patch(ctx, obj, patch, opts...))
}

func (s *logStatusWriter) Create(ctx context.Context, obj client.Object, sub client.Object, opts ...client.SubResourceCreateOption) error {
	return s.w.Create(ctx, obj, sub, opts...)
}

// Writes returns the number of successful mutating calls.
func (l *LogClient) Writes() int {
	n := 0
	for _, r := range l.Log {
		if !r.Err {
			n++
		}
	}
	return n
}
