package main

import (
	kruisev1alpha1 "github.com/openkruise/kruise-api/apps/v1alpha1"
	kruisev1beta1 "github.com/openkruise/kruise-api/apps/v1beta1"
	rolloutapi "github.com/openkruise/rollouts/api"
	"k8s.io/apimachinery/pkg/runtime"
	utilruntime "k8s.io/apimachinery/pkg/util/runtime"
	clientgoscheme "k8s.io/client-go/kubernetes/scheme"
	"sigs.k8s.io/controller-runtime/pkg/client"
	"sigs.k8s.io/controller-runtime/pkg/client/fake"
	gatewayv1beta1 "sigs.k8s.io/gateway-api/apis/v1beta1"
)

var theScheme = func() *runtime.Scheme {
	s := runtime.NewScheme()
	utilruntime.Must(clientgoscheme.AddToScheme(s))
	utilruntime.Must(kruisev1alpha1.AddToScheme(s))
	utilruntime.Must(kruisev1beta1.AddToScheme(s))
	utilruntime.Must(rolloutapi.AddToScheme(s))
	utilruntime.Must(gatewayv1beta1.AddToScheme(s))
	return s
}()

func fakeClient(objs ...client.Object) client.Client {
	return fake.NewClientBuilder().WithScheme(theScheme).WithObjects(objs...).Build()
}
