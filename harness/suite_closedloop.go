package main

// closedloop — the closed loop as ONE transition system (Lean: RV.ClosedLoop).
//
// The walks are the ones of suite `cluster` (the real Rollout and BatchRelease reconcilers against the
// fake API server, the simulated CloneSet controller, user events, crashes, API faults), but every single
// transition is emitted as
//
//	op "cstep": in = {scenario, hist (labels so far), pre: joint state, label}, impl = joint state afterwards
//
// and compared with `RV.ClosedLoop.step pre label`; the invariants of RV.Oracle.ClosedLoop are evaluated on
// every state the implementation reaches.  op "proj" ties the projections (`roWorld`, `exView`) to the
// worlds the one-step suites `rolloutsm` / `executor` are fed with; op "trace" carries a whole walk for the
// history (ghost-flag) invariants.  The one-step lines of every reconcile are emitted as well.

import (
	"bufio"
	"context"
	"encoding/json"
	"fmt"
	"io"
	"strings"

	kruisev1alpha1 "github.com/openkruise/kruise-api/apps/v1alpha1"
	"github.com/openkruise/rollouts/api/v1alpha1"
	"github.com/openkruise/rollouts/api/v1beta1"
	"github.com/openkruise/rollouts/pkg/controller/batchrelease"
	"github.com/openkruise/rollouts/pkg/util"
	"k8s.io/apimachinery/pkg/types"
)

func init() { register("closedloop", runClosedLoop, replayClosedLoop) }

type cllWl struct {
	Replicas           int         `json:"replicas"`
	Generation         int         `json:"generation"`
	ObservedGeneration int         `json:"observedGeneration"`
	StatusReplicas     int         `json:"statusReplicas"`
	Updated            int         `json:"updated"`
	UpdatedReady       int         `json:"updatedReady"`
	UpdateRevision     string      `json:"updateRevision"`
	CurrentRevision    string      `json:"currentRevision"`
	Partition          interface{} `json:"partition"`
	Paused             bool        `json:"paused"`
	Owner              string      `json:"owner"`
	InProgressAnno     bool        `json:"inProgressAnno"`
}

type cllSt struct {
	Phase            string `json:"phase"`
	CurrentBatch     int    `json:"currentBatch"`
	BatchState       string `json:"batchState"`
	HasReadyTime     bool   `json:"hasReadyTime"`
	Hash             string `json:"hash"`
	ObservedReplicas int    `json:"observedReplicas"`
	UpdateRevision   string `json:"updateRevision"`
	StableRevision   string `json:"stableRevision"`
	NoNeedUpdate     *int   `json:"noNeedUpdate"`
	Updated          int    `json:"updated"`
	UpdatedReady     int    `json:"updatedReady"`
}

type cllBr struct {
	Batches            []J         `json:"batches"`
	Partition          *int        `json:"partition"`
	RolloutID          string      `json:"rolloutID"`
	Policy             string      `json:"policy"`
	RollbackAnno       bool        `json:"rollbackAnno"`
	SpecOther          bool        `json:"specOther"`
	FailureThreshold   interface{} `json:"failureThreshold"`
	Deleting           bool        `json:"deleting"`
	HasFinalizer       bool        `json:"hasFinalizer"`
	Generation         int         `json:"generation"`
	ObservedGeneration int         `json:"observedGeneration"`
	ObservedRolloutID  string      `json:"observedRolloutID"`
	St                 cllSt       `json:"st"`
}

type cllCS struct {
	Ro  *rsRollout `json:"ro"`
	Wl  *cllWl     `json:"wl"`
	Br  *cllBr     `json:"br"`
	Net trNet      `json:"net"`
	Mem trMem      `json:"mem"`
}

// cllSafeAbstractBR: the BatchRelease as the Rollout controller reads it; when the Rollout itself is gone (the
// BatchRelease outlived it) the comparison fields that need the Rollout's strategy are taken from an empty canary strategy
func cllSafeAbstractBR(br *v1beta1.BatchRelease, ro *v1beta1.Rollout) *rsBR {
	if ro.Spec.Strategy.Canary == nil && ro.Spec.Strategy.BlueGreen == nil {
		ro = ro.DeepCopy()
		ro.Spec.Strategy.Canary = &v1beta1.CanaryStrategy{}
	}
	return rsAbstractBR(br, ro)
}

func cllShort(rev string) string { return rev[strings.LastIndex(rev, "-")+1:] }

// cllJoint abstracts the live fake cluster into the joint state.
func (s *clSim) cllJoint() cllCS {
	ctx := context.TODO()
	out := cllCS{}
	w, found := s.world()
	if found {
		r := w.Ro
		out.Ro = &r
	}
	out.Net, out.Mem = w.Net, w.Mem
	cs := &kruisev1alpha1.CloneSet{}
	if err := s.cli.Client.Get(ctx, clWlKey, cs); err == nil {
		j := exAbstractWL(cs)
		_, anno := cs.Annotations[util.InRolloutProgressingAnnotation]
		out.Wl = &cllWl{Replicas: j["replicas"].(int), Generation: j["generation"].(int), ObservedGeneration: j["observedGeneration"].(int),
			StatusReplicas: j["statusReplicas"].(int), Updated: j["updated"].(int), UpdatedReady: j["updatedReady"].(int),
			UpdateRevision: cllShort(cs.Status.UpdateRevision), CurrentRevision: cllShort(cs.Status.CurrentRevision),
			Partition: j["partition"], Paused: j["paused"].(bool), Owner: j["owner"].(string), InProgressAnno: anno}
	}
	br := &v1beta1.BatchRelease{}
	if err := s.cli.Client.Get(ctx, clRoKey, br); err == nil {
		b := &cllBr{RolloutID: br.Spec.ReleasePlan.RolloutID, Policy: string(br.Spec.ReleasePlan.FinalizingPolicy),
			RollbackAnno: br.Annotations[v1alpha1.RollbackInBatchAnnotation] != "", Deleting: !br.DeletionTimestamp.IsZero(),
			Generation: int(br.Generation), ObservedGeneration: int(br.Status.ObservedGeneration), ObservedRolloutID: br.Status.ObservedRolloutID,
			FailureThreshold: iosPtr(br.Spec.ReleasePlan.FailureThreshold)}
		for _, x := range br.Spec.ReleasePlan.Batches {
			b.Batches = append(b.Batches, iosOut(x.CanaryReplicas))
		}
		if br.Spec.ReleasePlan.BatchPartition != nil {
			p := int(*br.Spec.ReleasePlan.BatchPartition)
			b.Partition = &p
		}
		for _, f := range br.Finalizers {
			if f == batchrelease.ReleaseFinalizer {
				b.HasFinalizer = true
			}
		}
		// the spec fields outside the modelled ones, relative to what createBatchRelease writes for this rollout
		b.SpecOther = true
		ro := &v1beta1.Rollout{}
		if err := s.cli.Client.Get(ctx, clRoKey, ro); err == nil {
			b.SpecOther = br.Spec.ReleasePlan.RollingStyle == ro.Spec.Strategy.GetRollingStyle() &&
				br.Spec.ReleasePlan.EnableExtraWorkloadForCanary == rsExtraWorkload(ro) && br.Spec.ReleasePlan.PatchPodTemplateMetadata == nil &&
				br.Spec.WorkloadRef == v1beta1.ObjectRef{APIVersion: ro.Spec.WorkloadRef.APIVersion, Kind: ro.Spec.WorkloadRef.Kind, Name: "wl"}
		}
		st := exAbstractStatus(br)
		b.St = cllSt{Phase: st.Phase, CurrentBatch: st.CurrentBatch, BatchState: st.BatchState, HasReadyTime: st.HasReadyTime, Hash: st.Hash,
			ObservedReplicas: st.ObservedReplicas, UpdateRevision: st.UpdateRevision, StableRevision: st.StableRevision,
			NoNeedUpdate: st.NoNeedUpdate, Updated: st.Updated, UpdatedReady: st.UpdatedReady}
		out.Br = b
	}
	return out
}

// cllCanon is the output canonicalisation of a joint state (same rules as suite rolloutsm: an illegal
// next-step index is shown corrected; the age of the Progressing condition only while it is read).
func cllCanon(cs cllCS) cllCS {
	if cs.Ro != nil {
		r := *cs.Ro
		if r.Sub != nil {
			sub := *r.Sub
			if n := len(r.Steps); sub.NextIdx <= 0 || sub.NextIdx > n {
				if sub.CurIdx >= n {
					sub.NextIdx = -1
				} else {
					sub.NextIdx = sub.CurIdx + 1
				}
			}
			r.Sub = &sub
		}
		if r.Reason != "initializing" {
			r.CondAge = "ignored"
		}
		cs.Ro = &r
	}
	return cs
}

// cllSpecs: the spec parts whose change makes a real API server bump metadata.generation
func (s *clSim) cllSpecs() (string, string, bool) {
	ctx := context.TODO()
	brSpec, wlSpec, hasBR := "", "", false
	br := &v1beta1.BatchRelease{}
	if err := s.cli.Client.Get(ctx, clRoKey, br); err == nil {
		b, _ := json.Marshal(br.Spec)
		brSpec, hasBR = string(b), true
	}
	cs := &kruisev1alpha1.CloneSet{}
	if err := s.cli.Client.Get(ctx, clWlKey, cs); err == nil {
		b, _ := json.Marshal(cs.Spec)
		wlSpec = string(b)
	}
	return brSpec, wlSpec, hasBR
}

var cllUIDs int

// cllApiServer: what a real API server does with the writes of the reconcile that just ran — a created
// BatchRelease gets a fresh UID and generation 1; metadata.generation is bumped when the spec changed.
func (s *clSim) cllApiServer(brSpec0, wlSpec0 string, hadBR bool) {
	ctx := context.TODO()
	brSpec1, wlSpec1, hasBR := s.cllSpecs()
	if hasBR {
		br := &v1beta1.BatchRelease{}
		if err := s.cli.Client.Get(ctx, clRoKey, br); err == nil {
			if !hadBR || br.UID == "" {
				cllUIDs++
				br.UID = types.UID(fmt.Sprintf("br-uid-%d", cllUIDs))
				br.Generation = 1
				_ = s.cli.Client.Update(ctx, br)
				exOwnerUID = string(br.UID)
			} else if brSpec1 != brSpec0 {
				br.Generation++
				_ = s.cli.Client.Update(ctx, br)
			}
		}
	}
	if wlSpec1 != wlSpec0 && wlSpec0 != "" && wlSpec1 != "" {
		cs := &kruisev1alpha1.CloneSet{}
		if err := s.cli.Client.Get(ctx, clWlKey, cs); err == nil {
			cs.Generation++
			_ = s.cli.Client.Update(ctx, cs)
		}
	}
	s.pending = nil
}

type cllWalk struct {
	c    *Ctx
	s    *clSim
	sc   clScenario
	hist []string
	// states after every label (for the "trace" line)
	states []cllCS
	fwds   []bool
	quiet  bool // replaying a prefix: nothing is emitted
	// fair runs: the round at the end of which the rollout was first seen terminal (-1: never), rounds run, and whether
	// the run is a healthy one (no user event other than the first release, no API fault; crashes allowed)
	terminalAt int
	rounds     int
	healthy    bool
	fair       bool
	ticks      int
	releasedAt int
	steps  int
	// fwd: the history is inside the label set of the forward-rollout theorems (reconciles, workload progress,
	// approvals, clock, crashes, faults, and new releases admitted only while the rollout is idle)
	fwd bool
	del bool
	// earlyRelease: a release was pushed while a BatchRelease existed that had not recorded its revision yet (known finding
	// supersedeBeforeInit); sticky until the next release taken while idle
	earlyRelease bool
	// sup: the history is inside the label set of the supersession theorems (forward labels + a superseding release pushed
	// while the BatchRelease is Progressing on the rolled revision, or before any BatchRelease exists)
	sup    bool
	supNow bool
	// sticky history flags = the input regions of open findings (guards of the C05 / C04 oracles of slice cltraffic):
	// lateRelease: a revision was admitted while a clean-up (doFinalising) was running (releaseWhileFinalising);
	// earlyExit: the Rollout was deleted while the workload was held back and no BatchRelease existed (exitBeforeBatchRelease);
	// noRevKey: a clean-up reconcile ran while the workload was unreadable and the stable Service pinned (noRevKey)
	lateRelease bool
	earlyExit   bool
	noRevKey    bool
	// staleCursor: a clean-up / reset reconcile ran from a FinalisingStep cursor that another, unfinished activity had
	// written (an abandoned continuous-release reset, a rollback clean-up overtaken by a deletion, …) — proposed finding
	// staleCursor; cursorAct: the activity that owns the cursor at present
	staleCursor bool
	cursorAct   string
	lastAct     string // activity of the previous Rollout reconcile
	kind        string
}

// cllActivity: which activity of the Rollout controller would run on this state (the owner of the clean-up cursor)
func cllActivity(cs cllCS) string {
	if cs.Ro == nil {
		return "none"
	}
	// (the reconcile that notices a deletion still dispatches on the phase it read: Progressing)
	if cs.Ro.Phase == "Terminating" || cs.Ro.Phase == "Disabling" {
		return "other"
	}
	if cs.Ro.Phase != "Progressing" {
		return "none"
	}
	switch cs.Ro.Reason {
	case "finalising":
		return "other" // canary style: the success list is the list of the other exit reasons
	case "cancelling":
		return "rollback"
	case "inRolling":
		if cs.Ro.Sub != nil && cs.Wl != nil && cs.Ro.Sub.CanaryRev != "" && cs.Wl.UpdateRevision != cs.Ro.Sub.CanaryRev &&
			!(cs.Wl.InProgressAnno && cs.Wl.CurrentRevision == cs.Wl.UpdateRevision && cs.Wl.Updated != cs.Wl.StatusReplicas) {
			return "reset"
		}
		return "rolling"
	}
	return "none"
}

func cllCursorSet(cs cllCS) bool {
	return cs.Ro != nil && cs.Ro.Sub != nil && cs.Ro.Sub.FinStep != "" && cs.Ro.Sub.FinStep != "empty"
}

func cllNewWalk(c *Ctx, sc clScenario) *cllWalk {
	exOwnerUID = "none-yet"
	w := &cllWalk{c: c, s: clNewSim(c, sc), sc: sc, terminalAt: -1, releasedAt: -1}
	w.states = append(w.states, cllCanon(w.s.cllJoint()))
	return w
}

// do performs one transition and emits it.
func (w *cllWalk) do(label string) {
	s := w.s
	if !w.quiet {
		// marker of the transition about to run: if the process dies in it, the check names this input
		w.c.Begin("cstep", J{"scenario": w.sc, "hist": append([]string{}, w.hist...), "label": label, "fwd": w.fwd})
	}
	pre := s.cllJoint()
	emitLabel := label
	supBefore := w.sup
	w.supNow = w.sup
	switch {
	case label == "ro" || strings.HasPrefix(label, "fault-ro:"):
		failAt := -1
		if label != "ro" {
			fmt.Sscanf(label, "fault-ro:%d", &failAt)
			emitLabel = "fault"
		}
		if !w.quiet && failAt < 0 {
			w.proj(pre)
		}
		if pre.Ro != nil && (pre.Ro.Deleting || pre.Ro.Phase == "Terminating" || pre.Ro.Phase == "Disabling") &&
			(pre.Wl == nil || pre.Wl.Generation != pre.Wl.ObservedGeneration) && pre.Net.StableSel != nil {
			w.noRevKey = true
		}
		// the reconcile that notices a deletion still runs the Progressing branch: a reset of a superseded release running for
		// a Rollout that is already being deleted deletes the BatchRelease the exit clean-up would have to resume (the workload
		// stays held back). The fix "cursor reset" clears the cursor that branch leaves — the exit clean-up starts from its
		// first task — but does not keep the reset from running: this part of finding abandonedCleanup stays open.
		if pre.Ro != nil && pre.Ro.Deleting && pre.Ro.Phase == "Progressing" && cllActivity(pre) == "reset" {
			w.staleCursor = true
		}
		// a reset that is abandoned (the workload is back at the released revision, or rolled back) after it has deleted the
		// BatchRelease leaves a release without BatchRelease: nothing resumes the workload at the end
		if act := cllActivity(pre); act != "none" {
			if w.lastAct == "reset" && (act == "rolling" || act == "rollback") {
				w.staleCursor = true
			}
			w.lastAct = act
		}
		if !cllCursorSet(pre) {
			// an empty cursor belongs to nobody: whatever runs next starts from its own first task (this is the state the
			// reconcile that turns Progressing into Terminating / Disabling leaves since the fix "cursor reset")
			w.cursorAct = ""
		}
		if act := cllActivity(pre); cllCursorSet(pre) && act != "none" && pre.Ro.Sub.FinStep != "end_" {
			if w.cursorAct == "" {
				w.cursorAct = act
			}
			if act != w.cursorAct || act == "rolling" {
				w.staleCursor = true
				w.cursorAct = act
			}
		}
		b0, w0, had := s.cllSpecs()
		// the one-step model of the Rollout reconcile has no finalizer on the BatchRelease: a Delete of a
		// BatchRelease without finalizer removes it at once; such a reconcile is compared as a cstep only
		count := w.c.Count
		s.recRolloutX(failAt, w.quiet || (pre.Br != nil && !pre.Br.HasFinalizer))
		_ = count
		s.cllApiServer(b0, w0, had)
	case label == "br" || strings.HasPrefix(label, "fault-br:"):
		failAt := -1
		if label != "br" {
			fmt.Sscanf(label, "fault-br:%d", &failAt)
			emitLabel = "fault"
		}
		if !w.quiet && failAt < 0 {
			w.proj(pre)
		}
		b0, w0, had := s.cllSpecs()
		s.recBRX(failAt, w.quiet)
		s.cllApiServer(b0, w0, had)
	case label == "env":
		s.env()
	case strings.HasPrefix(label, "release:"):
		rev := label[len("release:"):]
		w.del = false
		if pre.Br != nil && pre.Br.St.UpdateRevision == "" {
			w.earlyRelease = true
		}
		idleRel := pre.Ro != nil && pre.Ro.Phase == "Healthy" && pre.Ro.HasFinalizer && !pre.Ro.Deleting && pre.Wl != nil && !pre.Wl.InProgressAnno &&
			pre.Br == nil && rev != pre.Wl.CurrentRevision
		// mirror of RV.Oracle.ClosedLoop.supersedeOK (the driver re-checks it with `legalS`)
		superRel := w.sup && pre.Ro != nil && pre.Ro.Phase == "Progressing" && pre.Ro.Reason == "inRolling" && pre.Ro.Sub != nil && pre.Wl != nil &&
			pre.Wl.Replicas > 0 && rev != "" && rev != pre.Wl.CurrentRevision && rev != pre.Wl.UpdateRevision &&
			pre.Ro.Sub.CanaryRev == pre.Wl.UpdateRevision && pre.Wl.UpdateRevision != pre.Wl.CurrentRevision &&
			(pre.Br == nil || (!pre.Br.Deleting && pre.Br.St.Phase == "Progressing" && pre.Br.St.UpdateRevision == "wl-"+pre.Wl.UpdateRevision &&
				pre.Br.St.ObservedReplicas == pre.Wl.Replicas))
		w.supNow = w.sup && (idleRel || superRel) || idleRel
		w.fwd = idleRel
		if w.fwd {
			w.earlyRelease = false
		}
		if pre.Ro != nil && ((pre.Ro.Phase == "Progressing" && (pre.Ro.Reason == "finalising" || pre.Ro.Reason == "cancelling")) ||
			pre.Ro.Phase == "Terminating" || pre.Ro.Phase == "Disabling") {
			w.lateRelease = true
		}
		s.release(rev)
	case label == "rollback":
		// the user reverts the pod template to the stable revision; the CloneSet controller observes it at once (the pods of the
		// abandoned revision stay: partition 100 %) — Lean: RV.ClosedLoop.rollbackWl
		w.del = false
		w.fwd = false
		w.supNow = false
		if pre.Ro != nil && ((pre.Ro.Phase == "Progressing" && (pre.Ro.Reason == "finalising" || pre.Ro.Reason == "cancelling")) ||
			pre.Ro.Phase == "Terminating" || pre.Ro.Phase == "Disabling") {
			w.lateRelease = true
		}
		s.rollback()
	case label == "approve":
		s.approve()
	case label == "tick":
		s.tick()
	case label == "crash":
		s.restart()
	case label == "delete":
		w.supNow = false
		// scope of the deletion theorems: a history legal for the forward theorems, then delete, then no new release
		if w.fwd {
			w.del = true
		}
		w.fwd = false
		// (also when the only BatchRelease is a superseded one already in deletion: nothing will release the workload either)
		if pre.Ro != nil && pre.Wl != nil && pre.Wl.InProgressAnno && (pre.Br == nil || pre.Br.Deleting) {
			w.earlyExit = true
		}
		s.deleteRollout()
	default:
		panic("closedloop: unknown label " + label)
	}
	post := cllCanon(s.cllJoint())
	if !cllCursorSet(post) {
		w.cursorAct = ""
	} else if !cllCursorSet(pre) {
		w.cursorAct = cllActivity(pre)
	}
	if !w.quiet {
		hist := append([]string{}, w.hist...)
		var impl interface{} = post
		if s.panicked {
			impl = J{"panic": "?"}
		}
		w.c.EmitAs("closedloop", "cstep", J{"scenario": w.sc, "hist": hist, "pre": pre, "label": emitLabel, "fwd": w.fwd, "del": w.del, "earlyRelease": w.earlyRelease, "sup": supBefore,
			"lateRelease": w.lateRelease, "earlyExit": w.earlyExit, "noRevKey": w.noRevKey, "staleCursor": w.staleCursor}, impl)
	}
	w.sup = w.supNow
	if strings.HasPrefix(label, "release:") && w.releasedAt < 0 {
		w.releasedAt = w.ticks
	}
	if label == "tick" {
		w.ticks++
		if w.releasedAt >= 0 && w.terminalAt < 0 && s.terminal() {
			w.terminalAt = w.ticks - w.releasedAt
		}
	}
	w.hist = append(w.hist, label)
	w.states = append(w.states, post)
	w.fwds = append(w.fwds, w.fwd)
	w.steps++
}

// proj emits the joint state together with the inputs the one-step suites get at this instant.
func (w *cllWalk) proj(cs cllCS) {
	in := J{"cs": cs}
	if rw, ok := w.s.world(); ok {
		in["w"] = rw
	}
	if ex, ok := w.s.exWorld(); ok {
		in["ex"] = ex
	}
	w.c.EmitAs("closedloop", "proj", in, nil)
}

// recRolloutX / recBRX: the reconciles of suite cluster, optionally without emitting the one-step line
func (s *clSim) recRolloutX(failAt int, quiet bool) {
	if !quiet {
		s.recRollout(failAt)
		return
	}
	out, n := s.c.out, s.c.Count
	s.c.out = nullWriter()
	s.recRollout(failAt)
	s.c.out, s.c.Count = out, n
}

func (s *clSim) recBRX(failAt int, quiet bool) {
	if !quiet {
		s.recBR(failAt)
		return
	}
	out, n := s.c.out, s.c.Count
	s.c.out = nullWriter()
	s.recBR(failAt)
	s.c.out, s.c.Count = out, n
}

func nullWriter() *bufio.Writer { return bufio.NewWriter(io.Discard) }

func (w *cllWalk) trace() {
	if w.quiet {
		return
	}
	w.c.Done(0)
	w.c.EmitAs("closedloop", "trace", J{"scenario": w.sc, "labels": w.hist, "states": w.states, "fwd": w.fwds,
		"fair": w.fair, "healthy": w.healthy, "terminalAt": w.terminalAt, "rounds": w.ticks, "steps": len(w.sc.Steps),
		"lateRelease": w.lateRelease, "earlyExit": w.earlyExit, "noRevKey": w.noRevKey, "staleCursor": w.staleCursor, "kind": w.kind}, nil)
}

var cllRound = []string{"ro", "br", "env", "approve", "tick"}

// manualPause: the step the rollout is on has no pause duration (it waits for the user)
func (w *cllWalk) manualPause() bool {
	cs := w.s.cllJoint()
	if cs.Ro == nil || cs.Ro.Sub == nil {
		return true
	}
	i := cs.Ro.Sub.CurIdx - 1
	if i < 0 || i >= len(cs.Ro.Steps) {
		return true
	}
	return cs.Ro.Steps[i].Pause == "manual"
}

// fair walk: rounds of the healthy closed loop with user events / crashes / faults at chosen rounds
func cllFair(c *Ctx, sc clScenario, events map[int]string, rounds int) *cllWalk {
	w := cllNewWalk(c, sc)
	w.healthy, w.fair = true, true
	w.kind = "fair"
	released, stopAt := false, -1
	for r := 0; r < rounds; r++ {
		if ev, ok := events[r]; ok {
			for _, l := range strings.Split(ev, ",") {
				if l != "crash" && !(l == "release:v2" && !released) {
					w.healthy = false
				}
				if strings.HasPrefix(l, "release:") {
					released = true
				}
				w.do(l)
			}
		}
		for _, l := range cllRound {
			if l == "approve" && !w.manualPause() {
				continue // the user approves manual pauses only; a pause with a duration has to elapse by itself
			}
			w.do(l)
			if w.s.panicked {
				return w
			}
		}
		if w.terminalAt >= 0 && stopAt < 0 {
			stopAt = r + 2 // two more quiescent rounds
		}
		if stopAt >= 0 && r >= stopAt {
			break
		}
	}
	return w
}

// cllSupersede: a newer revision pushed during a rollout, before the Rollout controller reconciles: the BatchRelease
// controller and the CloneSet controller run a few times first.
//   early = false: the current batch is Ready (BatchRelease Progressing, revision recorded) — the repaired defect
//                  supersedeRace: the workload must stay held back;
//   early = true:  the BatchRelease has just been created and has not been initialised yet — known finding supersedeBeforeInit.
func cllSupersede(c *Ctx, sc clScenario, early bool) *cllWalk {
	w := cllNewWalk(c, sc)
	w.fair = true
	w.kind = "supersede"
	for r := 0; r < 2; r++ {
		for _, l := range cllRound {
			w.do(l)
		}
	}
	w.do("release:v2")
	hit := false
	for r := 0; r < 40 && !hit; r++ {
		for _, l := range cllRound {
			if l == "approve" && !w.manualPause() {
				continue
			}
			cs := w.s.cllJoint()
			if early && cs.Br != nil && cs.Br.St.UpdateRevision == "" {
				hit = true
				break
			}
			if !early && l == "ro" && cs.Ro != nil && cs.Ro.Reason == "inRolling" && cs.Br != nil && cs.Br.St.BatchState == "Ready" && cs.Wl != nil && cs.Wl.Owner == "this" {
				hit = true
				break
			}
			w.do(l)
		}
	}
	w.do("release:v3")
	for i := 0; i < 4; i++ {
		w.do("br")
		w.do("env")
	}
	for r := 0; r < 20*(len(sc.Steps)+4); r++ {
		for _, l := range cllRound {
			if l == "approve" && !w.manualPause() {
				continue
			}
			w.do(l)
		}
		if w.s.terminal() {
			break
		}
	}
	return w
}

func cllPickLabel(c *Ctx, released *int, deleted *bool, allowEvents bool) string {
	x := c.Rng.Intn(100)
	switch {
	case x < 30:
		return "ro"
	case x < 55:
		return "br"
	case x < 70:
		return "env"
	case x < 78:
		return "approve"
	case x < 90:
		return "tick"
	case x < 93:
		return "crash"
	case x < 95:
		return fmt.Sprintf("fault-%s:%d", pickS(c, "ro", "br"), c.Rng.Intn(4))
	case x < 99:
		if !allowEvents || *deleted {
			return "ro"
		}
		*released++
		return "release:?"
	default:
		if !allowEvents || *deleted {
			return "br"
		}
		*deleted = true
		return "delete"
	}
}

// random walk: any interleaving of the labels
func cllRandom(c *Ctx, sc clScenario, n int) *cllWalk {
	w := cllNewWalk(c, sc)
	w.kind = "random"
	// reach Healthy first (fair), then the first release
	for r := 0; r < 2; r++ {
		for _, l := range cllRound {
			w.do(l)
		}
	}
	w.do("release:v2")
	released, deleted := 1, false
	for i := 0; i < n && !w.s.panicked; i++ {
		// bursts: a fair round now and then keeps the rollout moving
		if c.Rng.Intn(6) == 0 {
			for _, l := range cllRound {
				w.do(l)
			}
			continue
		}
		l := cllPickLabel(c, &released, &deleted, true)
		if l == "release:?" {
			// a release is a change of the pod template: never the revision that already is the update revision
			cur := ""
			if cs := w.s.cllJoint(); cs.Wl != nil {
				cur = cs.Wl.UpdateRevision
			}
			var cand []string
			for _, r := range []string{"v1", "v2", "v3"} {
				if r != cur {
					cand = append(cand, r)
				}
			}
			l = "release:" + cand[c.Rng.Intn(len(cand))]
		}
		w.do(l)
	}
	return w
}

func runClosedLoop(c *Ctx) {
	nScen := 3
	if c.Thorough() {
		nScen = 14
	}
	scens := clScenarios(c, nScen)
	// traffic scenarios (slice cltraffic): appended after the shared ones so that the generator stream of suite cluster is untouched
	nTr := 3
	if c.Thorough() {
		nTr = 14
	}
	scens = append(scens, cllTrafficScenarios(c, nTr)...)
	var trScens []clScenario
	for _, sc := range scens {
		if sc.HasTraffic {
			trScens = append(trScens, sc)
		}
	}
	budget := c.N
	for i, sc := range scens {
		if i < 2 {
			w := cllSupersede(c, sc, false)
			w.trace()
			w = cllSupersede(c, sc, true)
			w.trace()
		}
	}
	// deterministic part of the traffic walks (slice cltraffic): rollback / supersession / deletion while a weight is live, an
	// API fault after the first write of the reconcile that reacts to it, a crash between the Service writes and the route write
	for _, sc := range trScens {
		if !(sc.Name == "pct-traffic" || sc.Name == "tr-disablegen" ||
			(c.Thorough() && (sc.Name == "tr-weight-plain-weight" || sc.Name == "roundup-full-step" || sc.Name == "mixed-traffic-then-plain"))) {
			continue
		}
		for _, combo := range cllTrCombos {
			w := cllTrafficEvent(c, sc, combo[0], combo[1], 0)
			w.trace()
		}
	}
	for c.Count < budget {
		before := c.Count
		for _, sc := range scens {
			if c.Count >= budget {
				break
			}
			// a fair run to completion (with a random user event / crash in about half of the runs)
			events := map[int]string{2: "release:v2"}
			if c.Rng.Intn(2) == 0 {
				at := 3 + c.Rng.Intn(8*len(sc.Steps)+4)
				events[at] = pickS(c, "crash", "release:v3", "release:v1", "delete", "crash,release:v3", "fault-ro:1", "fault-br:0", "fault-br:1")
			}
			w := cllFair(c, sc, events, 20*(len(sc.Steps)+4)+3)
			w.trace()
			if c.Count >= budget {
				break
			}
			w = cllRandom(c, sc, 60+c.Rng.Intn(120))
			w.trace()
			if c.Count >= budget {
				break
			}
			// a user event / crash / API fault at a chosen network moment of a traffic scenario
			w = cllTrafficWalk(c, trScens)
			w.trace()
		}
		if c.Count == before {
			break
		}
	}
}

// replay: the input names the scenario and the labels so far; the walk is re-run quietly up to that point
// and the last transition (or, for a trace, the whole walk) is emitted again from the real code.
func replayClosedLoop(c *Ctx, op string, raw json.RawMessage) {
	var in struct {
		Scenario clScenario `json:"scenario"`
		Hist     []string   `json:"hist"`
		Labels   []string   `json:"labels"`
		Label    string     `json:"label"`
		Fair     bool       `json:"fair"`
		Healthy  bool       `json:"healthy"`
		Kind     string     `json:"kind"`
	}
	if err := json.Unmarshal(raw, &in); err != nil {
		panic(err)
	}
	switch op {
	case "cstep":
		w := cllNewWalk(c, in.Scenario)
		w.quiet = true
		for _, l := range in.Hist {
			w.do(l)
		}
		w.quiet = false
		if in.Label == "fault" {
			return // the fault index is not part of the line; faults are not compared
		}
		w.do(in.Label)
	case "trace":
		w := cllNewWalk(c, in.Scenario)
		w.quiet = true
		for _, l := range in.Labels {
			w.do(l)
		}
		w.quiet = false
		w.fair, w.healthy, w.kind = in.Fair, in.Healthy, in.Kind
		w.trace()
	case "proj":
		// a projection line carries no history: nothing to re-run
	}
}
