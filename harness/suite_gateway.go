package main

// Suite "gateway" (property C13): the Gateway API provider.
//
//	op "build": the real, unexported buildDesiredHTTPRoute (through the verif hook),
//	            applied once and then again to its own output
//	op "seq":   real EnsureRoutes for a list of steps, then real Finalise, on a
//	            controller-runtime fake client holding one HTTPRoute
//
// Canonical forms (no pointers, nil == empty slice):
//
//	rule  {"m":[match], "f":"<filters as JSON or \"\">", "b":[ref]}
//	match {"path":null|{"t":s|null,"v":s|null}, "h":[atom], "q":[atom], "method":s|null}
//	atom  {"t":s|null, "n":s, "v":s}
//	ref   {"kind":s|null, "name":s, "w":int|null, "rest":"<group,namespace,port,filters as JSON>"}

import (
	"context"
	"encoding/json"
	"fmt"

	"github.com/openkruise/rollouts/api/v1beta1"
	"github.com/openkruise/rollouts/pkg/trafficrouting/network/gateway"
	"k8s.io/apimachinery/pkg/api/errors"
	metav1 "k8s.io/apimachinery/pkg/apis/meta/v1"
	"k8s.io/apimachinery/pkg/runtime"
	"k8s.io/apimachinery/pkg/types"
	"sigs.k8s.io/controller-runtime/pkg/client"
	"sigs.k8s.io/controller-runtime/pkg/client/fake"
	gw "sigs.k8s.io/gateway-api/apis/v1beta1"
)

func init() { register("gateway", runGateway, replayGateway) }

var gwScheme = func() *runtime.Scheme {
	s := runtime.NewScheme()
	if err := gw.AddToScheme(s); err != nil {
		panic(err)
	}
	return s
}()

// ---------------------------------------------------------------- canonical forms

func sp(s *string) interface{} {
	if s == nil {
		return nil
	}
	return *s
}

func gwAtomsH(hs []gw.HTTPHeaderMatch) []interface{} {
	out := []interface{}{}
	for _, h := range hs {
		var t interface{}
		if h.Type != nil {
			t = string(*h.Type)
		}
		out = append(out, J{"t": t, "n": string(h.Name), "v": h.Value})
	}
	return out
}

func gwAtomsQ(qs []gw.HTTPQueryParamMatch) []interface{} {
	out := []interface{}{}
	for _, q := range qs {
		var t interface{}
		if q.Type != nil {
			t = string(*q.Type)
		}
		out = append(out, J{"t": t, "n": string(q.Name), "v": q.Value})
	}
	return out
}

func gwPath(p *gw.HTTPPathMatch) interface{} {
	if p == nil {
		return nil
	}
	var t interface{}
	if p.Type != nil {
		t = string(*p.Type)
	}
	return J{"t": t, "v": sp(p.Value)}
}

func gwMatch(m gw.HTTPRouteMatch) J {
	var me interface{}
	if m.Method != nil {
		me = string(*m.Method)
	}
	return J{"path": gwPath(m.Path), "h": gwAtomsH(m.Headers), "q": gwAtomsQ(m.QueryParams), "method": me}
}

func gwUMatch(m v1beta1.HttpRouteMatch) J {
	return J{"path": gwPath(m.Path), "h": gwAtomsH(m.Headers), "q": gwAtomsQ(m.QueryParams)}
}

type refRest struct {
	Group     *gw.Group            `json:"group,omitempty"`
	Namespace *gw.Namespace        `json:"namespace,omitempty"`
	Port      *gw.PortNumber       `json:"port,omitempty"`
	Filters   []gw.HTTPRouteFilter `json:"filters,omitempty"`
}

func gatewayMustJSON(v interface{}) string {
	b, err := json.Marshal(v)
	if err != nil {
		panic(err)
	}
	return string(b)
}

func gwFilters(fs []gw.HTTPRouteFilter) string {
	if len(fs) == 0 {
		return ""
	}
	return gatewayMustJSON(fs)
}

func gwRef(r gw.HTTPBackendRef) J {
	var k, w interface{}
	if r.Kind != nil {
		k = string(*r.Kind)
	}
	if r.Weight != nil {
		w = int(*r.Weight)
	}
	return J{"kind": k, "name": string(r.Name), "w": w,
		"rest": gatewayMustJSON(refRest{Group: r.Group, Namespace: r.Namespace, Port: r.Port, Filters: r.Filters})}
}

func gwRule(r gw.HTTPRouteRule) J {
	ms := []interface{}{}
	for _, m := range r.Matches {
		ms = append(ms, gwMatch(m))
	}
	bs := []interface{}{}
	for _, b := range r.BackendRefs {
		bs = append(bs, gwRef(b))
	}
	return J{"m": ms, "f": gwFilters(r.Filters), "b": bs}
}

func gwRules(rs []gw.HTTPRouteRule) []interface{} {
	out := []interface{}{}
	for _, r := range rs {
		out = append(out, gwRule(r))
	}
	return out
}

func gwUMatches(ms []v1beta1.HttpRouteMatch) []interface{} {
	out := []interface{}{}
	for _, m := range ms {
		out = append(out, gwUMatch(m))
	}
	return out
}

// ---- canonical form → real objects (replay)

type cAtom struct {
	T *string `json:"t"`
	N string  `json:"n"`
	V string  `json:"v"`
}
type cPath struct {
	T *string `json:"t"`
	V *string `json:"v"`
}
type cMatch struct {
	Path   *cPath  `json:"path"`
	H      []cAtom `json:"h"`
	Q      []cAtom `json:"q"`
	Method *string `json:"method"`
}
type cRef struct {
	Kind *string `json:"kind"`
	Name string  `json:"name"`
	W    *int    `json:"w"`
	Rest string  `json:"rest"`
}
type cRule struct {
	M []cMatch `json:"m"`
	F string   `json:"f"`
	B []cRef   `json:"b"`
}
type cConf struct {
	Stable string `json:"stable"`
	Canary string `json:"canary"`
}

func (p *cPath) real() *gw.HTTPPathMatch {
	if p == nil {
		return nil
	}
	out := &gw.HTTPPathMatch{}
	if p.T != nil {
		t := gw.PathMatchType(*p.T)
		out.Type = &t
	}
	if p.V != nil {
		v := *p.V
		out.Value = &v
	}
	return out
}

func realH(as []cAtom) []gw.HTTPHeaderMatch {
	var out []gw.HTTPHeaderMatch
	for _, a := range as {
		h := gw.HTTPHeaderMatch{Name: gw.HTTPHeaderName(a.N), Value: a.V}
		if a.T != nil {
			t := gw.HeaderMatchType(*a.T)
			h.Type = &t
		}
		out = append(out, h)
	}
	return out
}

func realQ(as []cAtom) []gw.HTTPQueryParamMatch {
	var out []gw.HTTPQueryParamMatch
	for _, a := range as {
		q := gw.HTTPQueryParamMatch{Name: gw.HTTPHeaderName(a.N), Value: a.V}
		if a.T != nil {
			t := gw.QueryParamMatchType(*a.T)
			q.Type = &t
		}
		out = append(out, q)
	}
	return out
}

func (m cMatch) real() gw.HTTPRouteMatch {
	out := gw.HTTPRouteMatch{Path: m.Path.real(), Headers: realH(m.H), QueryParams: realQ(m.Q)}
	if m.Method != nil {
		me := gw.HTTPMethod(*m.Method)
		out.Method = &me
	}
	return out
}

func (m cMatch) realU() v1beta1.HttpRouteMatch {
	return v1beta1.HttpRouteMatch{Path: m.Path.real(), Headers: realH(m.H), QueryParams: realQ(m.Q)}
}

func (r cRef) real() gw.HTTPBackendRef {
	var rest refRest
	if err := json.Unmarshal([]byte(r.Rest), &rest); err != nil {
		panic(err)
	}
	out := gw.HTTPBackendRef{}
	out.Group, out.Namespace, out.Port, out.Filters = rest.Group, rest.Namespace, rest.Port, rest.Filters
	out.Name = gw.ObjectName(r.Name)
	if r.Kind != nil {
		k := gw.Kind(*r.Kind)
		out.Kind = &k
	}
	if r.W != nil {
		out.Weight = i32p(int32(*r.W))
	}
	return out
}

func (r cRule) real() gw.HTTPRouteRule {
	out := gw.HTTPRouteRule{}
	for _, m := range r.M {
		out.Matches = append(out.Matches, m.real())
	}
	if r.F != "" {
		if err := json.Unmarshal([]byte(r.F), &out.Filters); err != nil {
			panic(err)
		}
	}
	for _, b := range r.B {
		out.BackendRefs = append(out.BackendRefs, b.real())
	}
	return out
}

func realRules(rs []cRule) []gw.HTTPRouteRule {
	var out []gw.HTTPRouteRule
	for _, r := range rs {
		out = append(out, r.real())
	}
	return out
}

func realUMatches(ms []cMatch) []v1beta1.HttpRouteMatch {
	var out []v1beta1.HttpRouteMatch
	for _, m := range ms {
		out = append(out, m.realU())
	}
	return out
}

// ---------------------------------------------------------------- ops

func gwGuardRules(f func() []gw.HTTPRouteRule) (res interface{}) {
	defer func() {
		if r := recover(); r != nil {
			res = J{"panic": true}
		}
	}()
	return gwRules(f())
}

func copyRules(rs []gw.HTTPRouteRule) []gw.HTTPRouteRule {
	if rs == nil {
		return nil
	}
	out := make([]gw.HTTPRouteRule, len(rs))
	for i := range rs {
		rs[i].DeepCopyInto(&out[i])
	}
	return out
}

func gwConfJ(conf gateway.Config) J { return J{"stable": conf.StableService, "canary": conf.CanaryService} }

// gwBuild: one application of the pure builder and a second one on its own output.
func gwBuild(c *Ctx, conf gateway.Config, rules []gw.HTTPRouteRule, weight *int32, matches []v1beta1.HttpRouteMatch) {
	var w interface{}
	if weight != nil {
		w = int(*weight)
	}
	in := J{"conf": gwConfJ(conf), "rules": gwRules(rules), "weight": w, "matches": gwUMatches(matches)}
	var first []gw.HTTPRouteRule
	out := gwGuardRules(func() []gw.HTTPRouteRule {
		first = gateway.VerifBuildDesiredHTTPRoute(conf, copyRules(rules), weight, matches)
		return first
	})
	var again interface{}
	if _, panicked := out.(J); !panicked {
		again = gwGuardRules(func() []gw.HTTPRouteRule {
			return gateway.VerifBuildDesiredHTTPRoute(conf, copyRules(first), weight, matches)
		})
	}
	c.Emit("build", in, J{"out": out, "again": again})
}

type gwStep struct {
	Traffic *string
	Matches []v1beta1.HttpRouteMatch
	Rep     int
}

func errEnum(err error) string {
	if err == nil {
		return "ok"
	}
	if errors.IsNotFound(err) {
		return "notFound"
	}
	return "err"
}

// gwSeq: EnsureRoutes per step (Rep times each), then Finalise (fin times), on a fake client.
func gwSeq(c *Ctx, conf gateway.Config, rules []gw.HTTPRouteRule, exists bool, steps []gwStep, fin int, conflictAt int) {
	const ns, name = "default", "route"
	b := fake.NewClientBuilder().WithScheme(gwScheme)
	if exists {
		b = b.WithObjects(&gw.HTTPRoute{ObjectMeta: metav1.ObjectMeta{Namespace: ns, Name: name},
			Spec: gw.HTTPRouteSpec{Rules: copyRules(rules)}})
	}
	// conflictAt > 0: the conflictAt-th write of the whole sequence meets a 409 Conflict once (a concurrent writer touched the
	// HTTPRoute); the provider retries on conflict, so the outcome must be the one of the undisturbed sequence - the model
	// has no such parameter, the comparison and the oracles judge the implementation's output
	lcli := NewLogClient(b.Build())
	lcli.ConflictAtWrite = conflictAt
	var cli client.Client = lcli
	routeName := name
	conf.Namespace = ns
	conf.Key = "verif"
	conf.TrafficConf = &v1beta1.GatewayTrafficRouting{HTTPRouteName: &routeName}
	ctl, err := gateway.NewGatewayTrafficRouting(cli, conf)
	read := func() interface{} {
		var r gw.HTTPRoute
		if err := cli.Get(context.TODO(), types.NamespacedName{Namespace: ns, Name: name}, &r); err != nil {
			return nil
		}
		return gwRules(r.Spec.Rules)
	}
	call := func(f func() (bool, error)) J {
		res := J{}
		func() {
			defer func() {
				if r := recover(); r != nil {
					res["ret"], res["err"] = false, "panic"
				}
			}()
			ret, err := f()
			res["ret"], res["err"] = ret, errEnum(err)
		}()
		res["rules"] = read()
		return res
	}
	var inRules interface{}
	if exists {
		inRules = gwRules(rules)
	}
	if err != nil {
		// the constructor refuses the configuration (canary Service name = stable Service name): no provider, no call
		inSteps := []interface{}{}
		for _, s := range steps {
			var tr interface{}
			if s.Traffic != nil {
				if n, ok := pctOf(*s.Traffic); ok {
					tr = J{"p": n}
				} else {
					tr = J{"s": *s.Traffic}
				}
			}
			inSteps = append(inSteps, J{"traffic": tr, "matches": gwUMatches(s.Matches), "rep": s.Rep})
		}
		c.Emit("seq", J{"conf": gwConfJ(conf), "rules": inRules, "steps": inSteps, "fin": fin, "conflictAt": conflictAt, "conflictHit": false},
			J{"refused": true})
		return
	}
	inSteps := []interface{}{}
	implSteps := []interface{}{}
	for _, s := range steps {
		var tr interface{}
		if s.Traffic != nil {
			if n, ok := pctOf(*s.Traffic); ok {
				tr = J{"p": n}
			} else {
				tr = J{"s": *s.Traffic}
			}
		}
		inSteps = append(inSteps, J{"traffic": tr, "matches": gwUMatches(s.Matches), "rep": s.Rep})
		calls := []interface{}{}
		for i := 0; i < s.Rep; i++ {
			st := &v1beta1.TrafficRoutingStrategy{Traffic: s.Traffic, Matches: s.Matches}
			calls = append(calls, call(func() (bool, error) { return ctl.EnsureRoutes(context.TODO(), st) }))
		}
		implSteps = append(implSteps, calls)
	}
	fins := []interface{}{}
	for i := 0; i < fin; i++ {
		fins = append(fins, call(func() (bool, error) { return ctl.Finalise(context.TODO()) }))
	}
	c.Emit("seq", J{"conf": gwConfJ(conf), "rules": inRules, "steps": inSteps, "fin": fin, "conflictAt": conflictAt, "conflictHit": lcli.FaultHit != ""},
		J{"steps": implSteps, "fin": fins})
}

// ---------------------------------------------------------------- generators

type gwGen struct {
	c    *Ctx
	conf gateway.Config
}

func (g *gwGen) pick(xs ...string) string { return xs[g.c.Rng.Intn(len(xs))] }
func (g *gwGen) chance(pct int) bool      { return g.c.Rng.Intn(100) < pct }

func strp(s string) *string { return &s }

func (g *gwGen) atomParts() (*string, string, string) {
	var t *string
	switch g.c.Rng.Intn(4) {
	case 0:
		t = strp("Exact")
	case 1:
		t = strp("RegularExpression")
	}
	return t, g.pick("user", "version", "canary", "x-env", "X-Canary-User"), g.pick("a", "v2", "true", "123.*")
}

func (g *gwGen) headers(max int) []gw.HTTPHeaderMatch {
	var out []gw.HTTPHeaderMatch
	for i := g.c.Rng.Intn(max + 1); i > 0; i-- {
		t, n, v := g.atomParts()
		h := gw.HTTPHeaderMatch{Name: gw.HTTPHeaderName(n), Value: v}
		if t != nil {
			ht := gw.HeaderMatchType(*t)
			h.Type = &ht
		}
		out = append(out, h)
	}
	return out
}

func (g *gwGen) queries(max int) []gw.HTTPQueryParamMatch {
	var out []gw.HTTPQueryParamMatch
	for i := g.c.Rng.Intn(max + 1); i > 0; i-- {
		t, n, v := g.atomParts()
		q := gw.HTTPQueryParamMatch{Name: gw.HTTPHeaderName(n), Value: v}
		if t != nil {
			qt := gw.QueryParamMatchType(*t)
			q.Type = &qt
		}
		out = append(out, q)
	}
	return out
}

func (g *gwGen) path() *gw.HTTPPathMatch {
	p := &gw.HTTPPathMatch{}
	switch g.c.Rng.Intn(4) {
	case 0:
		t := gw.PathMatchExact
		p.Type = &t
	case 1:
		t := gw.PathMatchPathPrefix
		p.Type = &t
	case 2:
		t := gw.PathMatchRegularExpression
		p.Type = &t
	}
	if g.chance(90) {
		p.Value = strp(g.pick("/", "/web", "/store", "/v2/store"))
	}
	return p
}

func (g *gwGen) routeMatch() gw.HTTPRouteMatch {
	m := gw.HTTPRouteMatch{}
	if g.chance(70) {
		m.Path = g.path()
	}
	m.Headers = g.headers(2)
	m.QueryParams = g.queries(1)
	if g.chance(20) {
		me := gw.HTTPMethod(g.pick("GET", "POST"))
		m.Method = &me
	}
	return m
}

func (g *gwGen) filters() []gw.HTTPRouteFilter {
	switch g.c.Rng.Intn(6) {
	case 0:
		code := 301
		return []gw.HTTPRouteFilter{{Type: gw.HTTPRouteFilterRequestRedirect,
			RequestRedirect: &gw.HTTPRequestRedirectFilter{Scheme: strp("https"), StatusCode: &code}}}
	case 1:
		return []gw.HTTPRouteFilter{{Type: gw.HTTPRouteFilterRequestHeaderModifier,
			RequestHeaderModifier: &gw.HTTPHeaderFilter{Set: []gw.HTTPHeader{{Name: "x-from", Value: g.pick("a", "b")}}}}}
	}
	return nil
}

// ref: name "" = pick one; canaryOK = may name the canary Service
func (g *gwGen) ref(name string) gw.HTTPBackendRef {
	r := gw.HTTPBackendRef{}
	r.Name = gw.ObjectName(name)
	switch k := g.c.Rng.Intn(20); {
	case k < 17:
		kd := gw.Kind("Service")
		r.Kind = &kd
	case k < 18:
		kd := gw.Kind("ServiceImport")
		r.Kind = &kd
	}
	if g.chance(60) {
		r.Weight = i32p(int32([]int{0, 1, 1, 10, 50, 80, 100, g.c.Rng.Intn(101)}[g.c.Rng.Intn(8)]))
	}
	if g.chance(70) {
		p := gw.PortNumber(8080 + g.c.Rng.Intn(2))
		r.Port = &p
	}
	if g.chance(10) {
		n := gw.Namespace("ns2")
		r.Namespace = &n
	}
	if g.chance(10) {
		gr := gw.Group("")
		r.Group = &gr
	}
	if g.chance(8) {
		r.Filters = []gw.HTTPRouteFilter{{Type: gw.HTTPRouteFilterRequestHeaderModifier,
			RequestHeaderModifier: &gw.HTTPHeaderFilter{Add: []gw.HTTPHeader{{Name: "x-be", Value: "1"}}}}}
	}
	return r
}

// rule: dirty = may mention the canary Service in arbitrary ways (not a user route)
func (g *gwGen) rule(dirty bool) gw.HTTPRouteRule {
	r := gw.HTTPRouteRule{}
	for i := []int{0, 1, 1, 1, 2, 2, 3}[g.c.Rng.Intn(7)]; i > 0; i-- {
		r.Matches = append(r.Matches, g.routeMatch())
	}
	r.Filters = g.filters()
	n := []int{0, 1, 1, 1, 2, 2, 3}[g.c.Rng.Intn(7)]
	for i := 0; i < n; i++ {
		var name string
		switch k := g.c.Rng.Intn(10); {
		case k < 5:
			name = g.conf.StableService
		case k < 8:
			name = g.pick("other", "api")
		case k < 9 && dirty:
			name = g.conf.CanaryService
		default:
			name = g.pick("other", g.conf.StableService)
		}
		r.BackendRefs = append(r.BackendRefs, g.ref(name))
	}
	return r
}

func (g *gwGen) route(dirty bool) []gw.HTTPRouteRule {
	var rs []gw.HTTPRouteRule
	for i := []int{0, 1, 1, 2, 2, 3, 3, 4, 5}[g.c.Rng.Intn(9)]; i > 0; i-- {
		rs = append(rs, g.rule(dirty))
	}
	return rs
}

func (g *gwGen) umatches(min int) []v1beta1.HttpRouteMatch {
	var out []v1beta1.HttpRouteMatch
	n := min + g.c.Rng.Intn(4-min)
	for i := 0; i < n; i++ {
		m := v1beta1.HttpRouteMatch{}
		if g.chance(40) {
			m.Path = g.path()
		}
		m.Headers = g.headers(2)
		m.QueryParams = g.queries(2)
		out = append(out, m)
	}
	return out
}

func (g *gwGen) weight() int {
	switch k := g.c.Rng.Intn(20); {
	case k < 14:
		return g.c.Rng.Intn(101)
	case k < 16:
		return []int{0, 100}[g.c.Rng.Intn(2)]
	case k < 17:
		return -1
	case k < 18:
		return 101 + g.c.Rng.Intn(50)
	default:
		return -2 - g.c.Rng.Intn(5)
	}
}

func (g *gwGen) step() gwStep {
	s := gwStep{Rep: 1 + g.c.Rng.Intn(2)}
	switch k := g.c.Rng.Intn(100); {
	case k < 48: // weight step
		s.Traffic = strp(fmt.Sprintf("%d%%", g.weight()))
	case k < 52: // malformed traffic string: scaled value error is dropped, weight 0
		s.Traffic = strp(g.pick("", "abc", "20", "1.5%", "%"))
	case k < 92: // match step
		s.Matches = g.umatches(1)
	case k < 97: // both: matches win
		s.Traffic = strp(fmt.Sprintf("%d%%", g.c.Rng.Intn(101)))
		s.Matches = g.umatches(1)
	default: // neither: nil weight
	}
	return s
}

func (g *gwGen) newConf() {
	g.conf = gateway.Config{StableService: "web", CanaryService: "web-canary"}
	if g.chance(3) {
		g.conf.CanaryService = "web" // misconfiguration: outside the theorems' hypothesis
	}
}

func runGateway(c *Ctx) {
	g := &gwGen{c: c}
	// systematic: every weight -1..100 (and a nil weight) on routes of growing shape
	g.newConf()
	g.conf.CanaryService = "web-canary"
	fixed := [][]gw.HTTPRouteRule{}
	for i := 0; i < 3; i++ {
		fixed = append(fixed, g.route(false))
	}
	for _, rs := range fixed {
		for w := -1; w <= 100; w++ {
			gwBuild(c, g.conf, rs, i32p(int32(w)), nil)
		}
		gwBuild(c, g.conf, rs, nil, nil)
	}
	for i := 0; i < c.N; i++ {
		g.newConf()
		// pure builder on: a user route / an arbitrary ("dirty") route / a reachable state
		dirty := g.chance(15)
		rules := g.route(dirty)
		if !dirty && g.chance(50) {
			for k := 1 + g.c.Rng.Intn(2); k > 0; k-- {
				s := g.step()
				var w *int32
				if s.Traffic != nil {
					if n, ok := pctOf(*s.Traffic); ok {
						w = i32p(int32(n))
					} else {
						w = i32p(0)
					}
				}
				cur := rules
				func() {
					defer func() { recover() }()
					cur = gateway.VerifBuildDesiredHTTPRoute(g.conf, copyRules(rules), w, s.Matches)
				}()
				rules = cur
			}
		}
		var w *int32
		var ms []v1beta1.HttpRouteMatch
		switch k := g.c.Rng.Intn(10); {
		case k < 4:
			w = i32p(int32(g.weight()))
		case k < 8:
			ms = g.umatches(1)
			if g.chance(20) {
				w = i32p(int32(g.c.Rng.Intn(101)))
			}
		case k < 9:
			w = i32p(-1)
		}
		gwBuild(c, g.conf, rules, w, ms)

		// provider on a fake client
		g.newConf()
		orig := g.route(g.chance(4))
		var steps []gwStep
		for k := []int{0, 1, 1, 2, 2, 3, 3, 4, 6}[g.c.Rng.Intn(9)]; k > 0; k-- {
			steps = append(steps, g.step())
		}
		nfin := []int{0, 1, 1, 1, 2, 2}[g.c.Rng.Intn(6)]
		exists := !g.chance(3)
		gwSeq(c, g.conf, orig, exists, steps, nfin, 0)
		// the same sequence with one write meeting a conflict: biased to the last writes (the finalising ones)
		if exists && g.chance(50) {
			tot := nfin
			for _, s := range steps {
				tot += s.Rep
			}
			if tot > 0 {
				k := 1 + g.c.Rng.Intn(tot)
				if g.chance(50) && nfin > 0 {
					k = tot - g.c.Rng.Intn(nfin)
				}
				gwSeq(c, g.conf, orig, exists, steps, nfin, k)
			}
		}
	}
}

func replayGateway(c *Ctx, op string, raw json.RawMessage) {
	switch op {
	case "build":
		var in struct {
			Conf    cConf    `json:"conf"`
			Rules   []cRule  `json:"rules"`
			Weight  *int     `json:"weight"`
			Matches []cMatch `json:"matches"`
		}
		if err := json.Unmarshal(raw, &in); err != nil {
			panic(err)
		}
		var w *int32
		if in.Weight != nil {
			w = i32p(int32(*in.Weight))
		}
		gwBuild(c, gateway.Config{StableService: in.Conf.Stable, CanaryService: in.Conf.Canary},
			realRules(in.Rules), w, realUMatches(in.Matches))
	case "seq":
		var in struct {
			Conf  cConf    `json:"conf"`
			Rules *[]cRule `json:"rules"`
			Steps []struct {
				Traffic map[string]interface{} `json:"traffic"`
				Matches []cMatch               `json:"matches"`
				Rep     int                    `json:"rep"`
			} `json:"steps"`
			Fin        int `json:"fin"`
			ConflictAt int `json:"conflictAt"`
		}
		if err := json.Unmarshal(raw, &in); err != nil {
			panic(err)
		}
		var steps []gwStep
		for _, s := range in.Steps {
			st := gwStep{Matches: realUMatches(s.Matches), Rep: s.Rep}
			if s.Traffic != nil {
				if p, ok := s.Traffic["p"]; ok {
					st.Traffic = strp(fmt.Sprintf("%d%%", int(p.(float64))))
				} else {
					st.Traffic = strp(s.Traffic["s"].(string))
				}
			}
			steps = append(steps, st)
		}
		var rules []gw.HTTPRouteRule
		if in.Rules != nil {
			rules = realRules(*in.Rules)
		}
		gwSeq(c, gateway.Config{StableService: in.Conf.Stable, CanaryService: in.Conf.Canary},
			rules, in.Rules != nil, steps, in.Fin, in.ConflictAt)
	}
}
