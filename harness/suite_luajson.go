package main

// Suite "luajson" (property C16) and the table generator "gen-LuaGlobals".
//
// ops
//   roundtrip  real decodeValue + Encode (directly, through RunLuaScript with the
//              identity script, and through the Lua-side json library) on JSON-like values
//   encode     real Encode on Lua tables built in Go or by a script run by the real
//              RunLuaScript; the table is abstracted with gopher-lua's own LTable.Next
//   global     is <name> visible to a script run by the real RunLuaScript?
//   probe      hostile scripts that try to reach files / processes / the environment;
//              judged by non-interference (same outcome whether or not the file
//              exists), absence of the planted secret and absence of side effects
//   run        grammar-generated and hostile scripts: wall time, table-or-error, panic
//
// Nothing here is a model of gopher-lua: the VM, the 1 s deadline and Go panics are
// only *observed* (ops probe / run carry no model output, only oracle inputs).

import (
	"bytes"
	"encoding/json"
	"errors"
	"fmt"
	"math"
	"math/rand"
	"os"
	"path/filepath"
	"regexp"
	"sort"
	"strings"
	"sync"
	"time"

	"github.com/openkruise/rollouts/pkg/util/luamanager"
	lua "github.com/yuin/gopher-lua"
	"k8s.io/apimachinery/pkg/apis/meta/v1/unstructured"
)

func init() {
	register("luajson", runLuaJSON, replayLuaJSON)
	register("gen-LuaGlobals", genLuaGlobals, nil)
}

// wall bound for one RunLuaScript + Encode call (the code's own deadline is 1 s)
const luaWallBound = 3 * time.Second

// ---------------------------------------------------------------- JSON-like values

var ljKeys = []string{"a", "b", "c", "spec", "weight", "name", "", "1", "2", "é", "键", "x-y", "A", "ab"}
var ljStrs = []string{"", "a", "canary", "100", "true", "null", "é✓", "<&>", "a\"b\\c", "line\nbreak", "\t", "0", "nginx.ingress.kubernetes.io/canary"}

func genInt(r *rand.Rand) int64 {
	switch r.Intn(10) {
	case 0:
		return 0
	case 1:
		return -1
	case 2:
		return int64(1)<<53 - 1
	case 3:
		return -(int64(1)<<53 - 1)
	case 4:
		return r.Int63n(1<<53) - 1<<52
	case 5:
		return int64(r.Intn(2000000)) - 1000000
	default:
		return int64(r.Intn(201)) - 100
	}
}

// genJ generates a Go value of the shapes encoding/json and the unstructured
// converter produce. Integers appear as int64, float64, int or int32 (decodeValue
// has a case for each).
func genJ(r *rand.Rand, depth int) interface{} {
	k := r.Intn(100)
	if depth <= 0 && k >= 60 {
		k = r.Intn(60)
	} else if depth > 0 && k < 60 && r.Intn(3) == 0 {
		k = 60 + r.Intn(40) // containers a bit more often than leaves while depth remains
	}
	switch {
	case k < 10:
		return nil
	case k < 20:
		return r.Intn(2) == 0
	case k < 40:
		n := genInt(r)
		switch r.Intn(4) {
		case 0:
			return float64(n)
		case 1:
			if n >= math.MinInt32 && n <= math.MaxInt32 {
				return int32(n)
			}
			return n
		case 2:
			return int(n)
		}
		return n
	case k < 60:
		return ljStrs[r.Intn(len(ljStrs))]
	case k < 80:
		n := 1 + r.Intn(6)
		if r.Intn(8) == 0 {
			n = 0
		}
		xs := make([]interface{}, 0, n)
		for i := 0; i < n; i++ {
			xs = append(xs, genJ(r, depth-1))
		}
		return xs
	default:
		n := 1 + r.Intn(6)
		if r.Intn(8) == 0 {
			n = 0
		}
		m := map[string]interface{}{}
		for i := 0; i < n; i++ {
			m[ljKeys[r.Intn(len(ljKeys))]] = genJ(r, depth-1)
		}
		return m
	}
}

// canonNum maps every integer-valued number to int64 and everything else to a
// marker the model cannot produce.
func luajsonCanonJ(v interface{}) interface{} {
	switch x := v.(type) {
	case nil, bool, string:
		return x
	case json.Number:
		s := x.String()
		if i, err := x.Int64(); err == nil && !strings.ContainsAny(s, ".eE") && !(i == 0 && strings.HasPrefix(s, "-")) {
			return i
		}
		return J{"nonInteger": s}
	case float64:
		if x == math.Trunc(x) && math.Abs(x) < 1<<53 {
			return int64(x)
		}
		return J{"nonInteger": fmt.Sprint(x)}
	case int:
		return int64(x)
	case int32:
		return int64(x)
	case int64:
		return x
	case []interface{}:
		out := make([]interface{}, len(x))
		for i, e := range x {
			out[i] = luajsonCanonJ(e)
		}
		return out
	case map[string]interface{}:
		out := J{}
		for k, e := range x {
			out[k] = luajsonCanonJ(e)
		}
		return out
	}
	return J{"unknownGoType": fmt.Sprintf("%T", v)}
}

func parseJSONBytes(b []byte) (interface{}, error) {
	d := json.NewDecoder(bytes.NewReader(b))
	d.UseNumber()
	var v interface{}
	if err := d.Decode(&v); err != nil {
		return nil, err
	}
	return luajsonCanonJ(v), nil
}

// goValue rebuilds a Go value from a parsed (UseNumber) JSON document for replay.
func goValue(v interface{}) interface{} {
	switch x := v.(type) {
	case json.Number:
		if i, err := x.Int64(); err == nil {
			return i
		}
		f, _ := x.Float64()
		return f
	case []interface{}:
		out := make([]interface{}, len(x))
		for i, e := range x {
			out[i] = goValue(e)
		}
		return out
	case map[string]interface{}:
		out := map[string]interface{}{}
		for k, e := range x {
			out[k] = goValue(e)
		}
		return out
	}
	return v
}

func encErrKind(err error) string {
	s := err.Error()
	switch {
	case strings.Contains(s, "recursively nested"):
		return "nested"
	case strings.Contains(s, "sparse array"):
		return "sparse"
	case strings.Contains(s, "mixed or invalid key"):
		return "keys"
	case strings.Contains(s, "cannot encode ") && strings.Contains(s, " to JSON"):
		return "type"
	}
	if len(s) > 120 {
		s = s[:120]
	}
	return "other:" + s
}

// encodeOut runs the real Encode and canonicalises the outcome.
func encodeOut(v lua.LValue) interface{} {
	b, err := luamanager.Encode(v)
	if err != nil {
		return J{"err": encErrKind(err)}
	}
	p, err := parseJSONBytes(b)
	if err != nil {
		return J{"err": "other:unparsable output " + string(b)}
	}
	return J{"ok": p}
}

func newBareState() *lua.LState { return lua.NewState(lua.Options{SkipOpenLibs: true}) }

const ljIdentity = "return obj"
const ljViaLuaJSON = `local s, e = json.encode(obj)
if s == nil then error(e) end
local t, e2 = json.decode(s)
if e2 ~= nil then error(e2) end
return {v = t}`

func doRoundtrip(mode string, v interface{}) interface{} {
	return guard(func() interface{} {
		switch mode {
		case "direct":
			L := newBareState()
			defer L.Close()
			return encodeOut(luamanager.VerifDecodeValue(L, v))
		case "script", "luajson":
			m, ok := v.(map[string]interface{})
			if !ok {
				return J{"err": "other:top level must be an object"}
			}
			script := ljIdentity
			if mode == "luajson" {
				script = ljViaLuaJSON
			}
			l, err := (&luamanager.LuaManager{}).RunLuaScript(&unstructured.Unstructured{Object: m}, script)
			if err != nil {
				return J{"err": "script"}
			}
			ret := l.Get(-1)
			if ret.Type() != lua.LTTable {
				return J{"err": "notTable"}
			}
			return encodeOut(ret)
		}
		return J{"err": "other:unknown mode"}
	})
}

func emitRoundtrip(c *Ctx, mode string, v interface{}) {
	c.Emit("roundtrip", J{"mode": mode, "v": luajsonCanonJ(v)}, doRoundtrip(mode, v))
}

// ---------------------------------------------------------------- Lua tables

// lspec is a recipe for a Lua value; tables are created in pre-order (tid) so that
// a `ref` can point to an ancestor (cycle) or to an earlier table (sharing).
type lspec struct {
	kind    string // bool num str func tbl ref
	b       bool
	n       int64
	s       string
	tid     int
	entries []lentry
}
type lentry struct {
	kk  string // int str other
	kn  int64
	ks  string
	val *lspec
}

type lgen struct {
	r    *rand.Rand
	ntbl int
	size int
}

func (g *lgen) val(depth int) *lspec {
	g.size++
	k := g.r.Intn(100)
	if (depth <= 0 || g.size > 40) && k >= 55 {
		k = g.r.Intn(55)
	}
	switch {
	case k < 10:
		return &lspec{kind: "bool", b: g.r.Intn(2) == 0}
	case k < 30:
		return &lspec{kind: "num", n: genInt(g.r)}
	case k < 50:
		return &lspec{kind: "str", s: ljStrs[g.r.Intn(len(ljStrs))]}
	case k < 55:
		return &lspec{kind: "func"}
	case k < 62 && g.ntbl > 0:
		return &lspec{kind: "ref", tid: g.r.Intn(g.ntbl)}
	default:
		return g.tbl(depth)
	}
}

func (g *lgen) tbl(depth int) *lspec {
	t := &lspec{kind: "tbl", tid: g.ntbl}
	g.ntbl++
	shape := g.r.Intn(100)
	n := g.r.Intn(5)
	switch {
	case shape < 8: // empty
	case shape < 40: // proper array
		for i := 1; i <= n+1; i++ {
			t.entries = append(t.entries, lentry{kk: "int", kn: int64(i), val: g.val(depth - 1)})
		}
	case shape < 70: // string keyed
		used := map[string]bool{}
		for i := 0; i <= n; i++ {
			k := ljKeys[g.r.Intn(len(ljKeys))]
			if used[k] {
				continue
			}
			used[k] = true
			t.entries = append(t.entries, lentry{kk: "str", ks: k, val: g.val(depth - 1)})
		}
	case shape < 80: // array inserted out of order / with holes
		perm := g.r.Perm(n + 2)
		for _, i := range perm {
			if g.r.Intn(6) == 0 {
				continue
			}
			t.entries = append(t.entries, lentry{kk: "int", kn: int64(i + 1), val: g.val(depth - 1)})
		}
	default: // anything goes: 0, negative, huge, boolean keys, mixed
		used := map[string]bool{}
		for i := 0; i <= n; i++ {
			var e lentry
			switch g.r.Intn(7) {
			case 0:
				e = lentry{kk: "int", kn: 0}
			case 1:
				e = lentry{kk: "int", kn: -int64(g.r.Intn(3)) - 1}
			case 2:
				e = lentry{kk: "int", kn: int64(lua.MaxArrayIndex) + int64(g.r.Intn(3))}
			case 3:
				e = lentry{kk: "other"}
			case 4:
				e = lentry{kk: "str", ks: ljKeys[g.r.Intn(len(ljKeys))]}
			default:
				e = lentry{kk: "int", kn: int64(g.r.Intn(6)) + 1}
			}
			id := fmt.Sprint(e.kk, e.kn, e.ks)
			if used[id] {
				continue
			}
			used[id] = true
			e.val = g.val(depth - 1)
			t.entries = append(t.entries, e)
		}
	}
	return t
}

func genLSpec(r *rand.Rand) *lspec {
	g := &lgen{r: r}
	return g.tbl(2 + r.Intn(3))
}

// build in Go with the table API
func buildLua(L *lua.LState, s *lspec, tabs map[int]*lua.LTable) lua.LValue {
	switch s.kind {
	case "bool":
		return lua.LBool(s.b)
	case "num":
		return lua.LNumber(s.n)
	case "str":
		return lua.LString(s.s)
	case "func":
		return L.NewFunction(func(*lua.LState) int { return 0 })
	case "ref":
		if t, ok := tabs[s.tid]; ok {
			return t
		}
		return lua.LNil
	case "tbl":
		t := L.NewTable()
		tabs[s.tid] = t
		for _, e := range s.entries {
			var k lua.LValue
			switch e.kk {
			case "int":
				k = lua.LNumber(e.kn)
			case "str":
				k = lua.LString(e.ks)
			default:
				k = lua.LTrue
			}
			v := buildLua(L, e.val, tabs)
			t.RawSet(k, v)
		}
		return t
	}
	return lua.LNil
}

func luaQuote(s string) string {
	var b strings.Builder
	b.WriteByte('"')
	for i := 0; i < len(s); i++ {
		ch := s[i]
		if ch < 32 || ch >= 127 || ch == '"' || ch == '\\' {
			fmt.Fprintf(&b, "\\%03d", ch)
		} else {
			b.WriteByte(ch)
		}
	}
	b.WriteByte('"')
	return b.String()
}

// scriptFor emits a Lua chunk that builds the same value with assignments (and a
// table constructor for leaf-only tables) and returns it.
func scriptFor(s *lspec) string {
	var b strings.Builder
	var emit func(s *lspec) string
	leafOnly := func(t *lspec) bool {
		for _, e := range t.entries {
			if e.val.kind == "tbl" || e.val.kind == "ref" {
				return false
			}
		}
		return true
	}
	keyExpr := func(e lentry) string {
		switch e.kk {
		case "int":
			return fmt.Sprintf("[%d]", e.kn)
		case "str":
			return "[" + luaQuote(e.ks) + "]"
		}
		return "[true]"
	}
	emit = func(s *lspec) string {
		switch s.kind {
		case "bool":
			return fmt.Sprint(s.b)
		case "num":
			return fmt.Sprintf("%d", s.n)
		case "str":
			return luaQuote(s.s)
		case "func":
			return "function() end"
		case "ref":
			return fmt.Sprintf("t%d", s.tid)
		case "tbl":
			name := fmt.Sprintf("t%d", s.tid)
			if leafOnly(s) && len(s.entries) > 0 && s.tid%2 == 0 {
				parts := []string{}
				for _, e := range s.entries {
					parts = append(parts, keyExpr(e)+" = "+emit(e.val))
				}
				fmt.Fprintf(&b, "local %s = {%s}\n", name, strings.Join(parts, ", "))
				return name
			}
			fmt.Fprintf(&b, "local %s = {}\n", name)
			for _, e := range s.entries {
				v := emit(e.val)
				fmt.Fprintf(&b, "%s%s = %s\n", name, keyExpr(e), v)
			}
			return name
		}
		return "nil"
	}
	top := emit(s)
	fmt.Fprintf(&b, "return %s\n", top)
	return b.String()
}

// absLua abstracts a real Lua value into the model's LVal: tables are enumerated
// with gopher-lua's own Next, identities are numbered by first encounter, a table
// that is its own ancestor is cut.
type absState struct {
	ids    map[*lua.LTable]int
	path   map[*lua.LTable]bool
	budget int
}

func (a *absState) abs(v lua.LValue) interface{} {
	switch x := v.(type) {
	case *lua.LNilType:
		return nil
	case lua.LBool:
		return bool(x)
	case lua.LNumber:
		f := float64(x)
		if f == math.Trunc(f) && math.Abs(f) < 1<<53 {
			return int64(f)
		}
		return J{"nonInteger": fmt.Sprint(f)}
	case lua.LString:
		return string(x)
	case *lua.LTable:
		id, ok := a.ids[x]
		if !ok {
			id = len(a.ids)
			a.ids[x] = id
		}
		if a.path[x] {
			return J{"id": id, "cut": true}
		}
		a.budget--
		if a.budget < 0 {
			return J{"tooLarge": true}
		}
		a.path[x] = true
		kv := []interface{}{}
		k, val := x.Next(lua.LNil)
		for k != lua.LNil {
			var kj interface{}
			switch kk := k.(type) {
			case lua.LString:
				kj = string(kk)
			case lua.LNumber:
				f := float64(kk)
				if f == math.Trunc(f) && math.Abs(f) < 1<<53 {
					kj = int64(f)
				} else {
					kj = J{"nonInteger": fmt.Sprint(f)}
				}
			default:
				kj = nil
			}
			kv = append(kv, []interface{}{kj, a.abs(val)})
			k, val = x.Next(k)
		}
		delete(a.path, x)
		return J{"id": id, "kv": kv}
	}
	return J{"fn": 1}
}

func absLua(v lua.LValue) interface{} {
	a := &absState{ids: map[*lua.LTable]int{}, path: map[*lua.LTable]bool{}, budget: 4000}
	return a.abs(v)
}

// fromAbs rebuilds a Lua value from its abstraction (replay of via=go cases).
func fromAbs(L *lua.LState, v interface{}, tabs map[int]*lua.LTable) lua.LValue {
	switch x := v.(type) {
	case nil:
		return lua.LNil
	case bool:
		return lua.LBool(x)
	case json.Number:
		f, _ := x.Float64()
		return lua.LNumber(f)
	case string:
		return lua.LString(x)
	case map[string]interface{}:
		if _, ok := x["fn"]; ok {
			return L.NewFunction(func(*lua.LState) int { return 0 })
		}
		idn, _ := x["id"].(json.Number)
		id64, _ := idn.Int64()
		id := int(id64)
		if _, ok := x["cut"]; ok {
			if t, ok := tabs[id]; ok {
				return t
			}
			return L.NewTable()
		}
		// a second full occurrence of the same id is a shared table
		if t, ok := tabs[id]; ok {
			return t
		}
		t := L.NewTable()
		tabs[id] = t
		kvs, _ := x["kv"].([]interface{})
		for _, e := range kvs {
			p, _ := e.([]interface{})
			if len(p) != 2 {
				continue
			}
			var k lua.LValue
			switch kk := p[0].(type) {
			case string:
				k = lua.LString(kk)
			case json.Number:
				f, _ := kk.Float64()
				k = lua.LNumber(f)
			default:
				k = lua.LTrue
			}
			t.RawSet(k, fromAbs(L, p[1], tabs))
		}
		return t
	}
	return lua.LNil
}

func emitEncodeGo(c *Ctx, build func(L *lua.LState) lua.LValue) {
	var in interface{}
	impl := guard(func() interface{} {
		L := newBareState()
		defer L.Close()
		v := build(L)
		in = J{"via": "go", "l": absLua(v)}
		return encodeOut(v)
	})
	if in == nil {
		in = J{"via": "go", "l": nil}
	}
	c.Emit("encode", in, impl)
}

func emitEncodeScript(c *Ctx, script string) {
	var in interface{} = J{"via": "script", "script": script, "l": nil}
	impl := guard(func() interface{} {
		l, err := (&luamanager.LuaManager{}).RunLuaScript(&unstructured.Unstructured{Object: map[string]interface{}{}}, script)
		if err != nil {
			return J{"err": "script"}
		}
		ret := l.Get(-1)
		in = J{"via": "script", "script": script, "l": absLua(ret)}
		return encodeOut(ret)
	})
	c.Emit("encode", in, impl)
}

// ---------------------------------------------------------------- globals

// sandboxGlobals enumerates every global name and every field of every table
// reachable from the globals (and from the string metatable) of the state that the
// REAL RunLuaScript built for a script.
func sandboxGlobals() ([]string, error) {
	l, err := (&luamanager.LuaManager{}).RunLuaScript(&unstructured.Unstructured{Object: map[string]interface{}{}}, "return {}")
	if err != nil {
		return nil, fmt.Errorf("RunLuaScript(return {}) failed: %v", err)
	}
	names := map[string]bool{}
	seen := map[*lua.LTable]bool{}
	var walk func(prefix string, t *lua.LTable, depth int)
	walk = func(prefix string, t *lua.LTable, depth int) {
		if seen[t] || depth > 6 {
			return
		}
		seen[t] = true
		t.ForEach(func(k, v lua.LValue) {
			var name string
			switch kk := k.(type) {
			case lua.LString:
				name = string(kk)
			default:
				name = "[" + k.String() + "]"
			}
			full := prefix + name
			names[full] = true
			if sub, ok := v.(*lua.LTable); ok {
				walk(full+".", sub, depth+1)
			}
		})
	}
	walk("", l.G.Global, 0)
	// methods reachable from values: ("x"):rep(…) goes through the string metatable
	for _, probe := range []lua.LValue{lua.LString(""), lua.LNumber(0), lua.LTrue, lua.LNil} {
		if mt, ok := l.GetMetatable(probe).(*lua.LTable); ok {
			walk("<"+probe.Type().String()+"-metatable>.", mt, 1)
		}
	}
	out := make([]string, 0, len(names))
	for n := range names {
		out = append(out, n)
	}
	sort.Strings(out)
	return out, nil
}

func genLuaGlobals(c *Ctx) {
	names, err := sandboxGlobals()
	if err != nil {
		fmt.Fprintln(os.Stderr, err)
		c.out.Flush()
		os.Exit(1)
	}
	var b strings.Builder
	b.WriteString("/-\n  GENERATED by `rvh gen-LuaGlobals` — do not edit; `./check C16` rewrites this file on every run.\n\n")
	b.WriteString("  Every global name, and every field of every table reachable from the globals (and\n")
	b.WriteString("  from the string metatable), of the Lua state that the real\n")
	b.WriteString("  `luamanager.RunLuaScript` (/repo/pkg/util/luamanager/lua.go) builds for a script.\n-/\n")
	b.WriteString("namespace RV.Gen\n\ndef luaGlobals : List String := [\n")
	for i, n := range names {
		sep := ","
		if i == len(names)-1 {
			sep = ""
		}
		fmt.Fprintf(&b, "  %s%s\n", leanQuote(n), sep)
	}
	b.WriteString("]\n\nend RV.Gen\n")
	c.out.WriteString(b.String())
}

func leanQuote(s string) string {
	var b strings.Builder
	b.WriteByte('"')
	for _, r := range s {
		switch {
		case r == '"' || r == '\\':
			b.WriteByte('\\')
			b.WriteRune(r)
		case r < 32 || r == 127:
			fmt.Fprintf(&b, "\\x%02x", r)
		default:
			b.WriteRune(r)
		}
	}
	b.WriteByte('"')
	return b.String()
}

// names a sandbox must not offer (asked for even when the walk does not list them)
var capabilityNames = []string{
	"dofile", "loadfile", "require", "module", "io", "os", "package", "debug", "channel", "coroutine",
	"io.open", "io.popen", "io.lines", "io.read", "io.write", "io.output", "io.input", "io.tmpfile", "io.stdout",
	"os.execute", "os.remove", "os.rename", "os.tmpname", "os.getenv", "os.setenv", "os.exit", "os.time", "os.clock",
	"package.loadlib", "package.path", "package.cpath", "package.loaders", "package.loaded", "package.preload", "package.seeall",
	"debug.getregistry", "debug.sethook", "debug.getinfo", "debug.setmetatable",
	"load", "loadstring", "print", "collectgarbage", "getfenv", "setfenv", "newproxy", "_printregs",
	"string.dump", "socket", "http", "net",
}

var identRe = regexp.MustCompile(`^[A-Za-z_][A-Za-z0-9_]*$`)

// hasGlobal asks a script run by the real RunLuaScript whether <a.b.c> is non-nil.
func hasGlobal(name string) interface{} {
	return guard(func() interface{} {
		parts := strings.Split(name, ".")
		for _, p := range parts {
			if !identRe.MatchString(p) {
				return J{"err": "notAnIdentifierPath"}
			}
		}
		var b strings.Builder
		b.WriteString("local v = getfenv and getfenv(1) or _G\n")
		for _, p := range parts {
			fmt.Fprintf(&b, "if type(v) ~= 'table' then return {r = false} end\nv = rawget(v, %s)\n", luaQuote(p))
		}
		b.WriteString("return {r = (v ~= nil)}\n")
		l, err := (&luamanager.LuaManager{}).RunLuaScript(&unstructured.Unstructured{Object: map[string]interface{}{}}, b.String())
		if err != nil {
			return J{"err": "script"}
		}
		t, ok := l.Get(-1).(*lua.LTable)
		if !ok {
			return J{"err": "notTable"}
		}
		return J{"present": lua.LVAsBool(t.RawGetString("r"))}
	})
}

// ---------------------------------------------------------------- running scripts with a wall bound

type runResult struct {
	outcome string // table | error | hung
	detail  string // canonical JSON of the table, or the error text (never emitted raw)
	inTime  bool
	panicv  string
	elapsed time.Duration
}

// runBounded = what ingress.go / custom_network_provider.go do with a script
// (RunLuaScript, then Encode if a table came back), with panics recovered and the
// wall time measured.  If the call does not come back within luaWallBound the
// goroutine is abandoned.
func runBounded(obj map[string]interface{}, script string) runResult {
	done := make(chan runResult, 1)
	start := time.Now()
	go func() {
		var r runResult
		defer func() {
			if p := recover(); p != nil {
				r.panicv = fmt.Sprint(p)
				r.outcome = "error"
			}
			done <- r
		}()
		l, err := (&luamanager.LuaManager{}).RunLuaScript(&unstructured.Unstructured{Object: obj}, script)
		if err != nil {
			r.outcome, r.detail = "error", err.Error()
			return
		}
		ret := l.Get(-1)
		if ret.Type() != lua.LTTable {
			r.outcome, r.detail = "error", "expect table output from Lua script, not "+ret.Type().String()
			return
		}
		b, err := luamanager.Encode(ret)
		if err != nil {
			r.outcome, r.detail = "error", err.Error()
			return
		}
		r.outcome, r.detail = "table", string(b)
	}()
	select {
	case r := <-done:
		r.elapsed = time.Since(start)
		r.inTime = r.elapsed <= luaWallBound
		return r
	case <-time.After(luaWallBound + 200*time.Millisecond):
		return runResult{outcome: "hung", inTime: false}
	}
}

func (r runResult) json() J {
	return J{"outcome": r.outcome, "in_time": r.inTime, "panic": r.panicv != ""}
}

type scriptCase struct {
	class  string
	script string
	stdin  bool // run with os.Stdin replaced by a pipe that never delivers
}

// runScripts runs the cases on a worker pool and emits them in input order.
func runScripts(c *Ctx, cases []scriptCase) {
	res := make([]runResult, len(cases))
	// If os.exit is reachable a script can end this very process; such scripts are
	// not run but reported as a process crash (C16.no_panic fails, with the script as witness).
	exitReachable := false
	if names, err := sandboxGlobals(); err == nil {
		for _, n := range names {
			if n == "os.exit" {
				exitReachable = true
			}
		}
	}
	skip := make([]bool, len(cases))
	for i, sc := range cases {
		if exitReachable && strings.Contains(sc.script, "exit") {
			skip[i] = true
			res[i] = runResult{outcome: "process-exit", inTime: true, panicv: "os.exit reachable: the script would end the process"}
		}
	}
	// stdin cases first, one at a time (os.Stdin is process-global)
	for i, sc := range cases {
		if sc.stdin && !skip[i] {
			res[i] = runWithBlockedStdin(sc.script)
		}
	}
	var wg sync.WaitGroup
	ch := make(chan int)
	workers := 8
	for w := 0; w < workers; w++ {
		wg.Add(1)
		go func(slot int) {
			defer wg.Done()
			for i := range ch {
				c.BeginSlot(slot, "run", J{"class": cases[i].class, "script": cases[i].script})
				res[i] = runBounded(map[string]interface{}{"weight": int64(5), "annotations": map[string]interface{}{"a": "b"}}, cases[i].script)
				c.Done(slot)
			}
		}(w)
	}
	for i, sc := range cases {
		if !sc.stdin && !skip[i] {
			ch <- i
		}
	}
	close(ch)
	wg.Wait()
	for i, sc := range cases {
		in := J{"class": sc.class, "script": sc.script}
		if sc.stdin {
			in["stdin"] = true
		}
		if os.Getenv("RV_C16_DEBUG") != "" {
			d := res[i].detail
			if len(d) > 160 {
				d = d[:160]
			}
			fmt.Fprintf(os.Stderr, "C16DEBUG %s %s %dms %q\n", sc.class, res[i].outcome, res[i].elapsed.Milliseconds(), d)
			if res[i].elapsed > 1500*time.Millisecond || res[i].outcome == "hung" {
				fmt.Fprintf(os.Stderr, "C16SLOW %dms %q\n", res[i].elapsed.Milliseconds(), sc.script)
			}
		}
		c.Emit("run", in, res[i].json())
	}
}

func runWithBlockedStdin(script string) runResult {
	pr, pw, err := os.Pipe()
	if err != nil {
		return runResult{outcome: "error", detail: "pipe: " + err.Error(), inTime: true}
	}
	old := os.Stdin
	os.Stdin = pr
	r := runBounded(map[string]interface{}{}, script)
	os.Stdin = old
	pw.Close() // releases an abandoned reader
	time.Sleep(20 * time.Millisecond)
	pr.Close()
	return r
}

// ---------------------------------------------------------------- probes (escape attempts)

type probe struct {
	kind    string
	script  string // {PATH} {MARK} {ENV} are substituted
	content string // content of the planted file ("text" or "lua")
}

const secretToken = "RVSECRET_7f3a91"

var probeTemplates = []probe{
	{"loadfile-text", `local f, e = loadfile("{PATH}") return {f = tostring(f ~= nil), e = tostring(e)}`, "text"},
	{"loadfile-exec", `local f = loadfile("{PATH}") if f then return {r = f()} end return {r = "none"}`, "lua"},
	{"dofile-text", `return {r = dofile("{PATH}")}`, "text"},
	{"dofile-exec", `return {r = dofile("{PATH}")}`, "lua"},
	{"pcall-dofile", `local ok, e = pcall(dofile, "{PATH}") return {ok = tostring(ok), e = tostring(e)}`, "text"},
	{"pcall-loadfile", `local ok, f, e = pcall(loadfile, "{PATH}") return {ok = tostring(ok), f = tostring(f ~= nil), e = tostring(e)}`, "text"},
	{"indirect-dofile", `local g = getfenv(0) local f = g["do" .. "file"] return {r = f("{PATH}")}`, "lua"},
	{"rawget-loadfile", `local f = rawget(_G, "load" .. "file") local c, e = f("{PATH}") return {c = tostring(c ~= nil), e = tostring(e)}`, "text"},
	{"loadstring-dofile", `local f = loadstring("return dofile('{PATH}')") return {r = f()}`, "lua"},
	{"load-dofile", `local done = false local f = load(function() if done then return nil end done = true return "return dofile('{PATH}')" end) return {r = f()}`, "lua"},
	{"require-path", `local ok, e = pcall(require, "{PATH}") return {ok = tostring(ok), e = tostring(e)}`, "lua"},
	{"require-os", `local ok, m = pcall(require, "os") return {ok = tostring(ok), exec = tostring(type(m) == "table" and m.execute ~= nil)}`, "text"},
	{"require-io", `local ok, m = pcall(require, "io") local f = m.open("{PATH}") return {r = f:read("*a")}`, "text"},
	{"io-open-read", `local f = io.open("{PATH}") return {r = f:read("*a")}`, "text"},
	{"io-lines", `local out = {} for l in io.lines("{PATH}") do out[#out + 1] = l end return out`, "text"},
	{"io-open-write", `local f = io.open("{MARK}", "w") f:write("x") f:close() return {}`, "text"},
	{"io-popen", `local p = io.popen("cat {PATH}") return {r = p:read("*a")}`, "text"},
	{"os-execute", `os.execute("touch {MARK}") return {}`, "text"},
	{"os-remove", `os.remove("{PATH}") return {}`, "text"},
	{"os-rename", `os.rename("{PATH}", "{MARK}") return {}`, "text"},
	{"os-getenv", `return {r = os.getenv("{ENV}")}`, "text"},
	{"os-tmpname", `return {r = os.tmpname()}`, "text"},
	{"package-path", `return {r = package.path, l = tostring(package.loadlib)}`, "text"},
	{"package-loaders", `for _, ld in ipairs(package.loaders) do local f = ld("{PATH}") if type(f) == "function" then return {r = f()} end end return {}`, "lua"},
	{"debug-registry", `local r = debug.getregistry() return {r = tostring(r ~= nil)}`, "text"},
	{"socket", `local s = require("socket") return {r = tostring(s.connect("127.0.0.1", 1))}`, "text"},
	{"string-mt-escape", `local mt = getmetatable("") return {r = tostring(mt.__index.dump), d = tostring(rawget(mt.__index, "execute"))}`, "text"},
	{"module-env", `module("m") return {}`, "text"},
	{"setfenv-global", `setfenv(0, {}) return {}`, "text"},
}

var addrRe = regexp.MustCompile(`0x[0-9a-f]+`)

type probeWorld struct {
	dir, path, mark, env string
}

func newProbeWorld(exists bool, content string) (*probeWorld, error) {
	dir, err := os.MkdirTemp("", "rv-c16-probe-")
	if err != nil {
		return nil, err
	}
	w := &probeWorld{dir: dir, path: filepath.Join(dir, "planted"), mark: filepath.Join(dir, "marker"), env: "RV_C16_SECRET"}
	if exists {
		body := secretToken + " is the first line of the planted file\nsecond line\n"
		if content == "lua" {
			body = "return \"" + secretToken + "\"\n"
		}
		if err := os.WriteFile(w.path, []byte(body), 0600); err != nil {
			return nil, err
		}
	}
	return w, nil
}

func (w *probeWorld) subst(s string) string {
	s = strings.ReplaceAll(s, "{PATH}", w.path)
	s = strings.ReplaceAll(s, "{MARK}", w.mark)
	s = strings.ReplaceAll(s, "{ENV}", w.env)
	return s
}

func (w *probeWorld) normalise(s string) string {
	s = strings.ReplaceAll(s, w.path, "<PATH>")
	s = strings.ReplaceAll(s, w.mark, "<MARK>")
	s = strings.ReplaceAll(s, w.dir, "<DIR>")
	return addrRe.ReplaceAllString(s, "0x?")
}

func fileExists(p string) bool { _, err := os.Stat(p); return err == nil }

// doProbe runs the script in a world where the planted file exists and in one where
// it does not.  same = the script's observable outcome is identical in both worlds;
// leak = the planted secret shows up in the outcome; effect = the file system changed.
func doProbe(kind, tmpl, content string) interface{} {
	return guard(func() interface{} {
		os.Setenv("RV_C16_SECRET", secretToken)
		defer os.Unsetenv("RV_C16_SECRET")
		wa, err := newProbeWorld(true, content)
		if err != nil {
			return J{"err": "setup"}
		}
		defer os.RemoveAll(wa.dir)
		wb, err := newProbeWorld(false, content)
		if err != nil {
			return J{"err": "setup"}
		}
		defer os.RemoveAll(wb.dir)
		ra := runBounded(map[string]interface{}{}, wa.subst(tmpl))
		rb := runBounded(map[string]interface{}{}, wb.subst(tmpl))
		oa := ra.outcome + "|" + wa.normalise(ra.detail)
		ob := rb.outcome + "|" + wb.normalise(rb.detail)
		effect := !fileExists(wa.path) || fileExists(wa.mark) || fileExists(wb.path) || fileExists(wb.mark)
		leak := strings.Contains(ra.detail, secretToken) || strings.Contains(rb.detail, secretToken)
		return J{"same": oa == ob, "leak": leak, "effect": effect,
			"outcome": ra.outcome, "in_time": ra.inTime && rb.inTime, "panic": ra.panicv != "" || rb.panicv != ""}
	})
}

func emitProbe(c *Ctx, p probe) {
	c.Emit("probe", J{"kind": p.kind, "script": p.script, "content": p.content}, doProbe(p.kind, p.script, p.content))
}

// accessor forms × capability functions, for the thorough tier and the random stream
func genProbe(r *rand.Rand) probe {
	fns := []struct{ name, call, content string }{
		{"dofile", `%s("{PATH}")`, "lua"},
		{"dofile", `%s("{PATH}")`, "text"},
		{"loadfile", `(function() local f, e = %s("{PATH}") if f then return f() end return e end)()`, "lua"},
		{"loadfile", `select(2, %s("{PATH}"))`, "text"},
		{"require", `%s("{PATH}")`, "lua"},
	}
	accessors := []string{
		`%s`, `_G.%s`, `_G["%s"]`, `rawget(_G, "%s")`, `getfenv(0).%s`, `getfenv(1)["%s"]`,
		`(function() return %s end)()`, `_G._G.%s`, `select(2, pcall(rawget, _G, "%s"))`,
	}
	wrappers := []string{
		`return {r = tostring(%s)}`,
		`local ok, v = pcall(function() return %s end) return {ok = tostring(ok), v = tostring(v)}`,
		`local t = {} t[1] = tostring(%s) return t`,
		`local ok, v = xpcall(function() return %s end, function(e) return e end) return {v = tostring(v)}`,
	}
	f := fns[r.Intn(len(fns))]
	acc := fmt.Sprintf(accessors[r.Intn(len(accessors))], f.name)
	call := fmt.Sprintf(f.call, acc)
	return probe{kind: "gen-" + f.name, script: fmt.Sprintf(wrappers[r.Intn(len(wrappers))], call), content: f.content}
}

// ---------------------------------------------------------------- hostile corpus

func hostileCorpus(thorough bool) []scriptCase {
	cs := []scriptCase{
		// non-terminating (each costs the code's 1 s deadline)
		{"loop", `while true do end`, false},
		{"loop", `repeat local x = 1 until false`, false},
		{"loop", `for i = 1, math.huge do end`, false},
		{"loop", `local t = {} while true do t = {t} end`, false},
		{"loop-pcall", `while true do pcall(function() while true do end end) end`, false},
		{"loop-pcall", `local function f() while true do pcall(f) end end f()`, false},
		{"loop-pcall", `local function f() local ok = pcall(error, "x") return f end while true do f() end`, false},
		{"loop-callback", `table.sort({3, 2, 1}, function(a, b) while true do end end)`, false},
		{"loop-callback", `string.gsub("abc", "%w", function(c) while true do end end)`, false},
		{"loop-callback", `local t = setmetatable({}, {__index = function(t, k) while true do end end}) return {t.x}`, false},
		// unbounded tail-call loops are known finding C16-16 (gopher-lua builds a traceback
		// linear in the number of tail calls: seconds and gigabytes after the deadline); the
		// witness lives in corpus/luajson/finding-16.jsonl and runs in a process of its own.
		// exponential pattern matching is known finding C16-17 (corpus/luajson/finding-17.jsonl).
		{"tailcall-bounded", `local function f(n) if n == 0 then return {} end return f(n - 1) end return f(200000)`, false},
		// deep recursion
		{"recursion", `local function f() return 1 + f() end return f()`, false},
		{"recursion", `local function f(n) return {f(n + 1)} end return f(0)`, false},
		{"recursion", `local a, b function a() return 1 + b() end function b() return 1 + a() end return a()`, false},
		{"recursion", `local t = {} setmetatable(t, {__index = function(t, k) return t[k .. "x"] end}) return {t.a}`, false},
		{"recursion", `local t = setmetatable({}, {__tostring = function(s) return tostring(s) end}) return {tostring(t)}`, false},
		{"recursion", `local function f(n) if n == 0 then return {} end return f(n - 1) end return f(100000)`, false},
		{"recursion", `local function f(n) if n == 0 then return {} end local r = f(n - 1) return r end return f(100000)`, false},
		{"recursion", `local t = {} t.__index = t setmetatable(t, t) return {t.x}`, false},
		{"recursion", `local s = "return " .. string.rep("(", 150) .. "1" .. string.rep(")", 150) return {loadstring(s)()}`, false},
		// shared references stacked in depth: the work of encoding must stay bounded by the number of tables,
		// not by the number of paths through them (2^depth)
		{"sharing", `local t = {"x"} for i = 1, 24 do t = {t, t} end return t`, false},
		{"sharing", `local t = {"x"} for i = 1, 26 do t = {a = t, b = t} end obj.annotations = t return obj`, false},
		{"sharing", `local t = {"x"} for i = 1, 24 do t = {t, t} end return {json.encode(t)}`, false},
		{"sharing", `local t = {"x"} for i = 1, 30 do t = {t, t, t} end return {t}`, false},
		// errors
		{"error", `error("boom")`, false},
		{"error", `error({code = 1})`, false},
		{"error", `error()`, false},
		{"error", `error(nil)`, false},
		{"error", `error(setmetatable({}, {__tostring = function() error("again") end}))`, false},
		{"error", `assert(false)`, false},
		{"error", `assert(nil, "msg")`, false},
		{"error", `local x = nil + 1`, false},
		{"error", `local x = nil; return x.y.z`, false},
		{"error", `undefined_function()`, false},
		{"error", `return {} .. "x"`, false},
		{"error", `return #5`, false},
		{"error", `return {1} < {2}`, false},
		{"error", `return obj.weight.x.y`, false},
		{"error", `string.rep()`, false},
		{"error", `return {string.format("%d", "x")}`, false},
		{"error", `return {string.char(-1)}`, false},
		{"error", `return {string.char(256)}`, false},
		{"error", `return {("x"):rep(-1)}`, false},
		{"error", `return {math.random(0)}`, false},
		{"error", `return {math.random(2, 1)}`, false},
		{"error", `return {tonumber("z", 99)}`, false},
		{"error", `return {unpack({}, 1, 1e7)}`, false},
		{"error", `return {select(-5, 1)}`, false},
		{"error", `return {table.concat({{}}, ",")}`, false},
		{"error", `table.insert(nil, 1)`, false},
		{"error", `table.insert({}, 1, 2, 3)`, false},
		{"error", `return {string.find("a", "[")}`, false},
		{"error", `return {string.find("a", "%")}`, false},
		{"error", `return {string.gsub("a", "(", "")}`, false},
		{"error", `return {string.format("%", 1)}`, false},
		{"error", `return {string.format("%y", 1)}`, false},
		{"error", `return {setmetatable(1, {})}`, false},
		{"error", `return {json.decode("{")}`, false},
		{"error", `return {json.encode(print)}`, false},
		{"error", `return json.decode(nil)`, false},
		{"error", `return {getfenv(99)}`, false},
		{"error", `setfenv(1, nil)`, false},
		{"error", `return {next({}, "nokey")}`, false},
		{"error", `return {rawset(1, 2, 3)}`, false},
		{"error", `return {xpcall()}`, false},
		{"error", `return {pcall()}`, false},
		{"error", `return {newproxy({})}`, false},
		{"error", `return {tostring()}`, false},
		{"error", `return {ipairs()}`, false},
		{"error", `for i = 1, 10, 0 do end`, false},
		{"error", `for i = "a", 2 do end`, false},
		{"error", `local t = setmetatable({}, {__newindex = function() error("ro") end}) t.x = 1`, false},
		{"error", `local t = setmetatable({}, {__call = 5}) t()`, false},
		{"error", `local t = setmetatable({}, {__metatable = false}) setmetatable(t, {})`, false},
		// gopher-lua miscompiles constant conditions inside loops (finding C16-18): the VM then
		// indexes out of range, also while formatting the traceback, and the Go panic used to
		// leave RunLuaScript
		{"vm-miscompile", `for a = 0, 9 do if true then end end for k in pairs({1}) do if false then return f(#{}) end end`, false},
		{"vm-miscompile", `for a = 0, 9 do for b = 1, 14 do if true then end end end for k in pairs({1}) do if false then return f(#{}) end end`, false},
		{"vm-miscompile", `for a = 0, 1 do for b = 1, 1 do if true then end end end while true do if false then return 1 end end`, false},
		{"vm-miscompile", `for a = 0, 9 do if true then end end for k in pairs({1}) do if false then return 1 end end return {}`, false},
		// syntax errors / not Lua at all
		{"syntax", `return {{{`, false},
		{"syntax", `)`, false},
		{"syntax", `local = 1`, false},
		{"syntax", "\x1bLua\x51\x00\x01\x04\x08\x04\x08\x00", false},
		{"syntax", "\x00\x01\x02\xff\xfe", false},
		{"syntax", `return "unterminated`, false},
		{"syntax", `--[[ unterminated comment`, false},
		{"syntax", `goto x`, false},
		{"syntax", `x = = 1`, false},
		{"syntax", `return 1e`, false},
		{"syntax", `return 0x`, false},
		{"syntax", strings.Repeat("(", 120) + "1" + strings.Repeat(")", 120), false},
		// wrong return types
		{"wrong-type", ``, false},
		{"wrong-type", `-- only a comment`, false},
		{"wrong-type", `return`, false},
		{"wrong-type", `return nil`, false},
		{"wrong-type", `return 5`, false},
		{"wrong-type", `return "a string"`, false},
		{"wrong-type", `return true`, false},
		{"wrong-type", `return print`, false},
		{"wrong-type", `return function() end`, false},
		{"wrong-type", `return {}, 1`, false},
		{"wrong-type", `return 1, {}`, false},
		{"wrong-type", `return newproxy(true)`, false},
		{"wrong-type", `return unpack({})`, false},
		{"wrong-type", `return obj.weight`, false},
		{"wrong-type", `local x = {}`, false},
		// tables the encoder must reject
		{"bad-table", `local t = {} t.a = t return t`, false},
		{"bad-table", `local t = {1} return {a = t, b = t}`, false},
		{"bad-table", `return {[1] = 1, [3] = 3}`, false},
		{"bad-table", `return {1, a = 2}`, false},
		{"bad-table", `return {a = 2, [1] = 5}`, false},
		{"bad-table", `return {[1.5] = 2}`, false},
		{"bad-table", `return {[true] = 2}`, false},
		{"bad-table", `return {[{}] = 2}`, false},
		{"bad-table", `return {f = print}`, false},
		{"bad-table", `return {a = 0/0}`, false},
		{"bad-table", `return {a = 1/0, b = -1/0}`, false},
		{"bad-table", `return {a = newproxy()}`, false},
		{"bad-table", `return setmetatable({}, {__index = function() error("x") end, __len = function() error("y") end})`, false},
		{"bad-table", `return setmetatable({1, 2}, {__pairs = function() error("z") end})`, false},
		{"ok-table", `return {}`, false},
		{"ok-table", `return obj`, false},
		{"ok-table", `return {a = {}, b = {1, {}}}`, false},
		{"ok-table", `return {a = 2^53, b = 2^63, c = 1e21, d = -0, e = 1.5}`, false},
		{"ok-table", `return {a = "\255\254"}`, false},
		{"ok-table", `return {weight = tostring(obj.weight), annotations = obj.annotations}`, false},
		{"ok-table", `local t = {} for i = 1, 1000 do t[i] = {i = i} end return t`, false},
		// attempts to reach the operating system (must be plain errors)
		{"os-attempt", `return {os.execute("true")}`, false},
		{"os-attempt", `return {os.getenv("HOME")}`, false},
		{"os-attempt", `os.exit(1)`, false},
		{"os-attempt", `return {io.open("/etc/passwd")}`, false},
		{"os-attempt", `return {io.popen("id")}`, false},
		{"os-attempt", `io.write("x")`, false},
		{"os-attempt", `return {require("os")}`, false},
		{"os-attempt", `return {require("io")}`, false},
		{"os-attempt", `return {require("socket")}`, false},
		{"os-attempt", `return {package.loadlib("/lib/libc.so.6", "system")}`, false},
		{"os-attempt", `return {debug.getregistry()}`, false},
		{"os-attempt", `return {coroutine.create(function() end)}`, false},
		{"os-attempt", `return {channel.make()}`, false},
		{"os-attempt", `return {dofile("/etc/passwd")}`, false},
		{"os-attempt", `return {loadfile("/etc/passwd")}`, false},
		{"os-attempt", `return {loadfile("/nonexistent")}`, false},
		{"os-attempt", `return {dofile()}`, true},
		{"os-attempt", `return {loadfile()}`, true},
		// small resource bombs (memory and nesting bombs proper are outside the claim)
		{"small-bomb", `return {n = #string.rep("x", 1000000)}`, false},
		{"small-bomb", `return {n = #(("x"):rep(1000):rep(1000))}`, false},
		{"small-bomb", `local t = {} for i = 1, 100000 do t[i] = i end return {n = #t}`, false},
		{"small-bomb", `local s = "" for i = 1, 2000 do s = s .. "xxxxxxxxxx" end return {n = #s}`, false},
		{"small-bomb", `local t = {} for i = 1, 20000 do t[#t + 1] = tostring(i) end return {s = #table.concat(t)}`, false},
		{"small-bomb", `local t = {} for i = 1, 50000 do t[i] = 50000 - i end table.sort(t) return {t[1]}`, false},
		{"small-bomb", `local t = {} local c = t for i = 1, 200 do c.x = {} c = c.x end return t`, false},
		{"small-bomb", `return {string.find(string.rep("a", 8), string.rep("a-", 8) .. "b")}`, false},
		{"small-bomb", `return {string.rep("ab", 10, ",")}`, false},
		{"small-bomb", `collectgarbage() collectgarbage("count") return {}`, false},
		{"small-bomb", `return {string.format("%099d", 1)}`, false},
	}
	if thorough {
		for i := 0; i < 6; i++ {
			cs = append(cs,
				scriptCase{"loop", fmt.Sprintf(`local n = %d while true do n = n + 1 end`, i), false},
				scriptCase{"loop-pcall", fmt.Sprintf(`local n = %d repeat pcall(error) n = n + 1 until false`, i), false},
				scriptCase{"recursion", fmt.Sprintf(`local function f(n) return n + f(n + %d) end return f(1)`, i), false},
			)
		}
	}
	return cs
}

// ---------------------------------------------------------------- grammar-based script generator
//
// A typed grammar (number / string / boolean / table / function) so that most
// programs run to completion and return a table; with a small probability an
// expression of the wrong type is used (run-time error), a loop has no bound, or a
// recursion no base case.

type sgen struct {
	r      *rand.Rand
	vars   map[byte][]string // 'N' 'S' 'B' 'T'
	funcs  []string
	nvar   int
	budget int
	wild   int // per-mille probability of a type confusion
}

func (g *sgen) pick(xs []string) string { return xs[g.r.Intn(len(xs))] }

func (g *sgen) newVar(t byte) string {
	g.nvar++
	v := fmt.Sprintf("%c%d", t+32, g.nvar)
	g.vars[t] = append(g.vars[t], v)
	return v
}

func (g *sgen) anyType() byte { return "NSBT"[g.r.Intn(4)] }

func (g *sgen) expr(t byte, depth int) string {
	g.budget--
	if g.r.Intn(1000) < g.wild {
		t = g.anyType()
	}
	leaf := depth <= 0 || g.budget <= 0
	k := g.r.Intn(100)
	if len(g.vars[t]) > 0 && (k < 25 || (leaf && k < 60)) {
		return g.pick(g.vars[t])
	}
	switch t {
	case 'N':
		if leaf || k < 40 {
			if g.r.Intn(5) == 0 {
				return "obj.weight"
			}
			return fmt.Sprint(g.r.Intn(200) - 50)
		}
		switch g.r.Intn(9) {
		case 0, 1, 2:
			return "(" + g.expr('N', depth-1) + " " + g.pick([]string{"+", "-", "*", "%", "/"}) + " " + g.expr('N', depth-1) + ")"
		case 3:
			return "#" + g.expr(g.pick2('S', 'T'), depth-1)
		case 4:
			return g.pick([]string{"math.floor", "math.abs", "math.ceil"}) + "(" + g.expr('N', depth-1) + ")"
		case 5:
			return g.pick([]string{"math.max", "math.min", "math.fmod"}) + "(" + g.expr('N', depth-1) + ", " + g.expr('N', depth-1) + ")"
		case 6:
			return "(tonumber(" + g.expr('S', depth-1) + ") or 0)"
		case 7:
			return "select(2, string.gsub(" + g.expr('S', depth-1) + ", \"%w\", \"x\"))"
		default:
			return g.call(depth, "0")
		}
	case 'S':
		if leaf || k < 40 {
			if g.r.Intn(5) == 0 {
				return "obj.annotations.a"
			}
			return luaQuote(g.pick(ljStrs))
		}
		switch g.r.Intn(10) {
		case 0, 1:
			return "(" + g.expr('S', depth-1) + " .. " + g.expr(g.pick2('S', 'N'), depth-1) + ")"
		case 2:
			return "tostring(" + g.expr(g.anyType(), depth-1) + ")"
		case 3:
			return g.pick([]string{"string.upper", "string.lower", "string.reverse"}) + "(" + g.expr('S', depth-1) + ")"
		case 4:
			return "string.sub(" + g.expr('S', depth-1) + ", " + fmt.Sprint(g.r.Intn(4)) + ", " + fmt.Sprint(g.r.Intn(8)-2) + ")"
		case 5: // bounded: no exponential growth through nested or looped string.rep
			return "string.rep(string.sub(" + g.expr('S', depth-1) + ", 1, 40), " + fmt.Sprint(g.r.Intn(40)) + ")"
		case 6:
			return "string.format(\"%s-%d\", " + g.expr('S', depth-1) + ", math.floor(" + g.expr('N', depth-1) + "))"
		case 7:
			return "type(" + g.expr(g.anyType(), depth-1) + ")"
		case 8:
			// truncated: json.encode(t) stored back into t would grow exponentially (memory bomb)
			return "string.sub(json.encode(" + g.expr('T', depth-1) + ") or \"\", 1, 300)"
		default:
			return "(string.gsub(string.sub(" + g.expr('S', depth-1) + ", 1, 40), " + luaQuote(g.pick([]string{"%w", "a", "%s+", ".", "(%d)"})) + ", string.sub(" + g.expr('S', depth-1) + ", 1, 100)))"
		}
	case 'B':
		if leaf || k < 35 {
			return g.pick([]string{"true", "false"})
		}
		switch g.r.Intn(6) {
		case 0, 1:
			return "(" + g.expr('N', depth-1) + " " + g.pick([]string{"<", "<=", "==", "~=", ">"}) + " " + g.expr('N', depth-1) + ")"
		case 2:
			return "(" + g.expr('S', depth-1) + " == " + g.expr('S', depth-1) + ")"
		case 3:
			return "(not " + g.expr('B', depth-1) + ")"
		case 4:
			return "(" + g.expr('B', depth-1) + " " + g.pick2s("and", "or") + " " + g.expr('B', depth-1) + ")"
		default:
			return "(type(" + g.expr(g.anyType(), depth-1) + ") == \"table\")"
		}
	default: // 'T'
		if leaf || k < 35 {
			return g.pick([]string{"{}", "obj", "obj.annotations", "{1, 2, 3}", "{a = 1}"})
		}
		switch g.r.Intn(6) {
		case 0, 1, 2:
			n := g.r.Intn(4)
			parts := []string{}
			arr := g.r.Intn(2) == 0
			for i := 0; i < n; i++ {
				switch {
				case g.r.Intn(30) == 0:
					parts = append(parts, "["+g.expr(g.anyType(), depth-1)+"] = "+g.expr(g.anyType(), depth-1))
				case arr:
					parts = append(parts, g.expr(g.anyType(), depth-1))
				default:
					parts = append(parts, g.pick(ljKeys[:5])+fmt.Sprint(i)+" = "+g.expr(g.anyType(), depth-1))
				}
			}
			return "{" + strings.Join(parts, ", ") + "}"
		case 3:
			return "(json.decode(" + g.expr('S', depth-1) + ") or {})"
		case 4:
			return "setmetatable({}, {__index = " + g.expr('T', depth-1) + "})"
		default:
			return "{" + g.call(depth, "{}") + "}"
		}
	}
}

func (g *sgen) pick2(a, b byte) byte {
	if g.r.Intn(2) == 0 {
		return a
	}
	return b
}

func (g *sgen) pick2s(a, b string) string {
	if g.r.Intn(2) == 0 {
		return a
	}
	return b
}

func (g *sgen) call(depth int, dflt string) string {
	if len(g.funcs) == 0 {
		return dflt
	}
	return g.pick(g.funcs) + "(" + g.expr(g.anyType(), depth-1) + ", " + fmt.Sprint(g.r.Intn(12)) + ")"
}

func (g *sgen) block(depth int, indent string) string {
	var b strings.Builder
	n := 1 + g.r.Intn(4)
	saved := map[byte]int{}
	for t, vs := range g.vars {
		saved[t] = len(vs)
	}
	savedF := len(g.funcs)
	for i := 0; i < n && g.budget > 0; i++ {
		b.WriteString(g.stmt(depth, indent))
	}
	for t := range g.vars {
		g.vars[t] = g.vars[t][:saved[t]]
	}
	g.funcs = g.funcs[:savedF]
	return b.String()
}

func (g *sgen) stmt(depth int, indent string) string {
	g.budget--
	k := g.r.Intn(100)
	if depth <= 0 {
		k = g.r.Intn(45)
	}
	switch {
	case k < 25:
		t := g.anyType()
		e := g.expr(t, 3)
		return indent + "local " + g.newVar(t) + " = " + e + "\n"
	case k < 35:
		t := g.anyType()
		if len(g.vars[t]) > 0 {
			if t == 'S' { // re-assignment inside loops: keep strings bounded (memory bombs are outside the claim)
				return indent + g.pick(g.vars[t]) + " = string.sub(" + g.expr(t, 3) + ", 1, 400)\n"
			}
			return indent + g.pick(g.vars[t]) + " = " + g.expr(t, 3) + "\n"
		}
		return indent + "local " + g.newVar('T') + " = {}\n"
	case k < 42:
		if len(g.vars['T']) > 0 {
			tv := g.pick(g.vars['T'])
			switch g.r.Intn(3) {
			case 0:
				return indent + tv + "[#" + tv + " + 1] = " + g.expr(g.anyType(), 2) + "\n"
			case 1:
				return indent + tv + "." + g.pick(ljKeys[:5]) + " = " + g.expr(g.anyType(), 2) + "\n"
			default:
				return indent + "table.insert(" + tv + ", " + g.expr(g.anyType(), 2) + ")\n"
			}
		}
		return indent + "local " + g.newVar('T') + " = {}\n"
	case k < 45:
		return indent + "local _ = " + g.expr(g.anyType(), 3) + "\n"
	case k < 57:
		s := indent + "if " + g.expr('B', 2) + " then\n" + g.block(depth-1, indent+"  ")
		if g.r.Intn(2) == 0 {
			s += indent + "else\n" + g.block(depth-1, indent+"  ")
		}
		return s + indent + "end\n"
	case k < 67:
		saved := len(g.vars['N'])
		v := g.newVar('N')
		body := g.block(depth-1, indent+"  ")
		g.vars['N'] = g.vars['N'][:saved]
		return indent + fmt.Sprintf("for %s = %d, %d do\n", v, g.r.Intn(3), g.r.Intn(30)) + body + indent + "end\n"
	case k < 72:
		g.nvar++
		kv := fmt.Sprintf("k%d", g.nvar)
		it := g.pick([]string{"pairs", "ipairs"})
		return indent + fmt.Sprintf("for %s, _ in %s(%s) do\n", kv, it, g.expr('T', 1)) + g.block(depth-1, indent+"  ") + indent + "end\n"
	case k < 79: // bounded while
		g.nvar++
		v := fmt.Sprintf("c%d", g.nvar)
		return indent + "local " + v + " = 0\n" + indent + "while " + v + " < " + fmt.Sprint(g.r.Intn(40)) + " do\n" +
			indent + "  " + v + " = " + v + " + 1\n" + g.block(depth-1, indent+"  ") + indent + "end\n"
	case k < 80: // possibly unbounded loops (rare: each costs the 1 s deadline)
		if g.r.Intn(3) == 0 {
			return indent + "while " + g.expr('B', 1) + " do\n" + g.block(depth-1, indent+"  ") + indent + "end\n"
		}
		return indent + "repeat\n" + g.block(depth-1, indent+"  ") + indent + "until " + g.expr('B', 1) + "\n"
	case k < 88: // function definition; recursion on a decreasing argument (rarely: without a base case)
		g.nvar++
		f := fmt.Sprintf("f%d", g.nvar)
		savedN := len(g.vars['N'])
		g.vars['N'] = append(g.vars['N'], "n")
		rec := ""
		switch g.r.Intn(4) {
		case 0: // tail call, always on a decreasing counter (unbounded tail-call loops: finding C16-16)
			rec = indent + "  if n > 0 then return " + f + "(a, n - 1) end\n"
		case 1: // proper recursion; rarely without a base case (ends in a stack overflow error)
			cond := "n > 0"
			if g.r.Intn(40) == 0 {
				cond = "true"
			}
			rec = indent + "  if " + cond + " then local r = " + f + "(a, n - 1) return r end\n"
		}
		body := g.block(depth-1, indent+"  ")
		ret := indent + "  return " + g.expr(g.anyType(), 2) + "\n"
		g.vars['N'] = g.vars['N'][:savedN]
		g.funcs = append(g.funcs, f)
		return indent + "local function " + f + "(a, n)\n" + rec + body + ret + indent + "end\n"
	case k < 92:
		return indent + "do\n" + g.block(depth-1, indent+"  ") + indent + "end\n"
	case k < 95:
		g.nvar++
		return indent + fmt.Sprintf("local ok%d, e%d = pcall(function()\n", g.nvar, g.nvar) + g.block(depth-1, indent+"  ") + indent + "end)\n"
	case k < 97:
		return indent + "if " + g.expr('B', 1) + " then error(" + g.expr(g.anyType(), 1) + ") end\n"
	default:
		return indent + "if " + g.expr('B', 1) + " then return " + g.expr(g.anyType(), 2) + " end\n"
	}
}

func genScript(r *rand.Rand) string {
	g := &sgen{r: r, budget: 60 + r.Intn(160), vars: map[byte][]string{'N': nil, 'S': nil, 'B': nil, 'T': nil}, wild: 4 + r.Intn(12)}
	var b strings.Builder
	n := 2 + r.Intn(7)
	for i := 0; i < n; i++ {
		b.WriteString(g.stmt(3, ""))
	}
	switch r.Intn(12) {
	case 0:
	case 1:
		b.WriteString("return " + g.expr(g.anyType(), 2) + "\n")
	case 2, 3:
		b.WriteString("return " + g.expr('T', 2) + "\n")
	default:
		parts := []string{}
		i := 0
		for _, t := range []byte("NSBT") {
			for _, v := range g.vars[t] {
				if i >= 8 {
					break
				}
				if t == 'T' && r.Intn(3) > 0 {
					parts = append(parts, fmt.Sprintf("k%d = string.sub(json.encode(%s) or \"?\", 1, 300)", i, v))
				} else {
					parts = append(parts, fmt.Sprintf("k%d = %s", i, v))
				}
				i++
			}
		}
		b.WriteString("return {" + strings.Join(parts, ", ") + "}\n")
	}
	return b.String()
}

// ---------------------------------------------------------------- suite


// ---------------------------------------------------------------- C19: one script's run never leaks into another's

// isoPolluters leave something behind in whatever Lua state they run in; isoProbe reports what it can see.
var isoPolluters = []string{
	`leak = 42 return {}`,
	`string.marker = "x" return {}`,
	`table.insert = nil return {}`,
	`helper = function() return 1 end return {}`,
	`setmetatable(_G, {__index = function() return "ghost" end}) return {}`,
	`getmetatable("").__index.evil = 1 return {}`,
	`obj_copy = obj weight_seen = obj.weight return {}`,
	`math.floor = function() return 7 end return {}`,
	`json_seen = 1 error("boom")`,
}

const isoProbe = `return {a = tostring(leak), b = tostring(string.marker), c = type(table.insert), d = tostring(helper),
 e = tostring(undefined_xyz), f = tostring(("").evil), g = tostring(obj_copy), h = tostring(weight_seen), i = tostring(math.floor(2.5)),
 j = tostring(json_seen), w = tostring(obj.weight)}`

func isoObj(w int64) map[string]interface{} {
	return map[string]interface{}{"weight": w, "annotations": map[string]interface{}{"a": "b"}}
}

func isoRun(obj map[string]interface{}, script string) string {
	r := runBounded(obj, script)
	return r.outcome + ":" + r.detail
}

// doIso: the probe alone, the probe after a polluter, and probes running while polluters run on other goroutines.
func doIso(polluter string, conc int) interface{} {
	solo := isoRun(isoObj(5), isoProbe)
	_ = isoRun(isoObj(77), polluter)
	after := isoRun(isoObj(5), isoProbe)
	same := true
	if conc > 0 {
		var wg sync.WaitGroup
		stop := make(chan struct{})
		for w := 0; w < conc; w++ {
			wg.Add(1)
			go func() {
				defer wg.Done()
				for {
					select {
					case <-stop:
						return
					default:
						_ = isoRun(isoObj(77), polluter)
					}
				}
			}()
		}
		for i := 0; i < 40; i++ {
			if isoRun(isoObj(5), isoProbe) != solo {
				same = false
			}
		}
		close(stop)
		wg.Wait()
	}
	// the bytes Encode hands back belong to the caller: a later Encode (another rollout's result, on any worker) must not
	// change them
	owned := true
	if a, err := luamanager.Encode(lua.LString(strings.Repeat("rollout-a;", 40))); err == nil {
		keep := string(a)
		for i := 0; i < 4; i++ {
			_, _ = luamanager.Encode(lua.LString(strings.Repeat("ROLLOUT-B!", 40+i)))
		}
		owned = string(a) == keep
	}
	return J{"solo": solo, "after": after, "conc_same": same, "owned": owned}
}

func emitIso(c *Ctx, polluter string, conc int) {
	c.Emit("iso", J{"polluter": polluter, "conc": conc}, guard(func() interface{} { return doIso(polluter, conc) }))
}

func runLuaJSON(c *Ctx) {
	r := c.Rng
	n := c.N
	// (a) value conversion -------------------------------------------------
	fixed := []interface{}{
		nil, true, int64(0), "", []interface{}{}, map[string]interface{}{},
		[]interface{}{nil}, []interface{}{int64(1), nil, int64(2)}, map[string]interface{}{"a": nil},
		map[string]interface{}{"a": []interface{}{}, "b": map[string]interface{}{}},
		[]interface{}{[]interface{}{}}, []interface{}{map[string]interface{}{"a": nil}},
		map[string]interface{}{"spec": map[string]interface{}{"http": []interface{}{map[string]interface{}{"route": []interface{}{
			map[string]interface{}{"destination": map[string]interface{}{"host": "stable"}, "weight": int64(95)},
			map[string]interface{}{"destination": map[string]interface{}{"host": "canary"}, "weight": int64(5)}}}}}},
		map[string]interface{}{"1": "a", "2": "b"},
		int64(1)<<53 - 1, -(int64(1)<<53 - 1), float64(42), int32(7), int(9),
	}
	for _, v := range fixed {
		emitRoundtrip(c, "direct", v)
		if _, ok := v.(map[string]interface{}); ok {
			emitRoundtrip(c, "script", v)
			emitRoundtrip(c, "luajson", v)
		}
	}
	nrt := n * 45 / 100
	for i := 0; i < nrt; i++ {
		depth := 1 + r.Intn(5)
		switch r.Intn(10) {
		case 0, 1:
			m := genJ(r, depth)
			if _, ok := m.(map[string]interface{}); !ok {
				m = map[string]interface{}{"v": m}
			}
			emitRoundtrip(c, "script", m)
		case 2:
			m := genJ(r, depth)
			if _, ok := m.(map[string]interface{}); !ok {
				m = map[string]interface{}{"v": m}
			}
			emitRoundtrip(c, "luajson", m)
		default:
			v := genJ(r, depth)
			for tries := 0; tries < 3 && r.Intn(10) > 0; tries++ { // mostly containers at the top
				switch v.(type) {
				case []interface{}, map[string]interface{}:
					tries = 3
				default:
					v = genJ(r, depth)
				}
			}
			emitRoundtrip(c, "direct", v)
		}
	}
	// encoder on arbitrary Lua tables ----------------------------------------
	nenc := n * 35 / 100
	for i := 0; i < nenc; i++ {
		s := genLSpec(r)
		if r.Intn(3) == 0 {
			emitEncodeScript(c, scriptFor(s))
		} else {
			emitEncodeGo(c, func(L *lua.LState) lua.LValue { return buildLua(L, s, map[int]*lua.LTable{}) })
		}
	}
	// (b) capability table ---------------------------------------------------
	names, err := sandboxGlobals()
	if err != nil {
		panic(err)
	}
	asked := map[string]bool{}
	for _, nm := range append(append([]string{}, names...), capabilityNames...) {
		if asked[nm] || strings.ContainsAny(nm, "<[") {
			continue
		}
		asked[nm] = true
		c.Emit("global", J{"name": nm}, hasGlobal(nm))
	}
	for i := 0; i < 10; i++ { // names that exist nowhere
		nm := fmt.Sprintf("%s.zz%d", []string{"string", "math", "table", "os", "io", "zz"}[r.Intn(6)], r.Intn(100))
		c.Emit("global", J{"name": nm}, hasGlobal(nm))
	}
	for _, p := range probeTemplates {
		emitProbe(c, p)
	}
	nprobe := n / 50
	if c.Thorough() {
		nprobe = n / 20
	}
	for i := 0; i < nprobe; i++ {
		emitProbe(c, genProbe(r))
	}
	// (d) isolation between runs (C19) ------------------------------------------
	for i, p := range isoPolluters {
		conc := 0
		if i%3 == 0 || c.Thorough() {
			conc = 3
		}
		emitIso(c, p, conc)
	}
	// (c) runtime behaviour ----------------------------------------------------
	cases := hostileCorpus(c.Thorough())
	nscr := n * 15 / 100
	for i := 0; i < nscr; i++ {
		cases = append(cases, scriptCase{"grammar", genScript(r), false})
	}
	runScripts(c, cases)
}

func replayLuaJSON(c *Ctx, op string, raw json.RawMessage) {
	d := json.NewDecoder(bytes.NewReader(raw))
	d.UseNumber()
	var in map[string]interface{}
	if err := d.Decode(&in); err != nil {
		fmt.Fprintln(os.Stderr, "luajson replay: bad input:", err)
		return
	}
	str := func(k string) string { s, _ := in[k].(string); return s }
	switch op {
	case "roundtrip":
		emitRoundtrip(c, str("mode"), goValue(in["v"]))
	case "encode":
		if str("via") == "script" {
			emitEncodeScript(c, str("script"))
		} else {
			emitEncodeGo(c, func(L *lua.LState) lua.LValue { return fromAbs(L, in["l"], map[int]*lua.LTable{}) })
		}
	case "global":
		c.Emit("global", J{"name": str("name")}, hasGlobal(str("name")))
	case "probe":
		emitProbe(c, probe{kind: str("kind"), script: str("script"), content: str("content")})
	case "iso":
		n, _ := in["conc"].(json.Number)
		k, _ := n.Int64()
		emitIso(c, str("polluter"), int(k))
	case "run":
		_, stdin := in["stdin"]
		runScripts(c, []scriptCase{{str("class"), str("script"), stdin}})
	default:
		fmt.Fprintln(os.Stderr, "luajson replay: unknown op", op)
	}
}

var _ = errors.New
