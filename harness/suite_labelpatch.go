package main

// Suite "labelpatch" (property C12): the real PatchPodBatchLabel on a controller-runtime
// fake client holding generated pods (labels read back from the store), both pod filter
// functions, calculatePlannedStepIncrements (through the `verif` hook) and
// batchLabelSatisfied (through the exported IsBatchReady).

import (
	"context"
	"encoding/json"
	"fmt"
	"sort"

	"github.com/openkruise/rollouts/api/v1beta1"
	batchcontext "github.com/openkruise/rollouts/pkg/controller/batchrelease/context"
	"github.com/openkruise/rollouts/pkg/controller/batchrelease/labelpatch"
	"github.com/openkruise/rollouts/pkg/util"
	appsv1 "k8s.io/api/apps/v1"
	corev1 "k8s.io/api/core/v1"
	metav1 "k8s.io/apimachinery/pkg/apis/meta/v1"
	"k8s.io/apimachinery/pkg/runtime"
	"k8s.io/apimachinery/pkg/types"
	"k8s.io/apimachinery/pkg/util/intstr"
	"k8s.io/klog/v2"
	"sigs.k8s.io/controller-runtime/pkg/client"
	"sigs.k8s.io/controller-runtime/pkg/client/fake"
)

func init() { register("labelpatch", runLabelPatch, replayLabelPatch) }

var lpScheme = func() *runtime.Scheme {
	s := runtime.NewScheme()
	_ = corev1.AddToScheme(s)
	_ = appsv1.AddToScheme(s)
	return s
}()

const lpNS = "ns"

// ---------------------------------------------------------------- input types

type lpOwner struct {
	RS    string `json:"rs,omitempty"`    // controller owner of kind ReplicaSet: its name …
	UID   string `json:"uid,omitempty"`   // … and UID
	Other string `json:"other,omitempty"` // controller owner of another kind
}

type lpPod struct {
	Name    string   `json:"name"`
	Term    bool     `json:"term"`
	Missing bool     `json:"missing"`
	Tmpl    *string  `json:"tmpl"`
	Ctrl    *string  `json:"ctrl"`
	Owner   *lpOwner `json:"owner"`
	Rid     *string  `json:"rid"`
	Bid     *string  `json:"bid"`
	NoNeed  *string  `json:"noneed"`
	// only read by the control-plane variant ("via"): the pod has no Ready condition
	NotReady bool `json:"notReady,omitempty"`
}

type lpRS struct {
	Name      string  `json:"name"`
	Image     string  `json:"image"`
	TmplLabel *string `json:"tmplLabel"`
	Hash      string  `json:"hash"` // util.ComputeHash of the template without pod-template-hash (recomputed on replay)
}

type lpCfg struct {
	ID        string                   `json:"id"`
	Rev       string                   `json:"rev"`
	Batches   []map[string]interface{} `json:"batches"`
	Replicas  int                      `json:"replicas"`
	Cur       int                      `json:"cur"`
	Planned   int                      `json:"planned"`
	Desired   int                      `json:"desired"`
	Partition map[string]interface{}   `json:"partition"`
}

type lpIn struct {
	Cfg    lpCfg   `json:"cfg"`
	Filter string  `json:"filter"` // none | unordered | ordered
	RS     []lpRS  `json:"rs"`
	Pods   []lpPod `json:"pods"`
	// "" = the bare patcher; "daemonSet" = through the real control plane of an Advanced DaemonSet (suite_labelpatch_plane.go)
	Via string `json:"via,omitempty"`
}

func labelpatchSp(s string) *string { return &s }

func lpStr(p *string) interface{} {
	if p == nil {
		return nil
	}
	return *p
}

// ---------------------------------------------------------------- building real objects

func (p lpPod) build() *corev1.Pod {
	var labels map[string]string
	set := func(k string, v *string) {
		if v != nil {
			if labels == nil {
				labels = map[string]string{}
			}
			labels[k] = *v
		}
	}
	set(appsv1.DefaultDeploymentUniqueLabelKey, p.Tmpl)
	set(appsv1.ControllerRevisionHashLabelKey, p.Ctrl)
	set(v1beta1.RolloutIDLabel, p.Rid)
	set(v1beta1.RolloutBatchIDLabel, p.Bid)
	set(util.NoNeedUpdatePodLabel, p.NoNeed)
	pod := &corev1.Pod{ObjectMeta: metav1.ObjectMeta{Namespace: lpNS, Name: p.Name, Labels: labels}}
	if p.Term {
		now := metav1.Now()
		pod.DeletionTimestamp = &now
		pod.Finalizers = []string{"verif/hold"}
	}
	if p.Owner != nil {
		t := true
		ref := metav1.OwnerReference{APIVersion: "apps/v1", Controller: &t}
		if p.Owner.Other != "" {
			ref.Kind, ref.Name, ref.UID = p.Owner.Other, "owner", types.UID("uid-other")
		} else {
			ref.Kind, ref.Name, ref.UID = "ReplicaSet", p.Owner.RS, types.UID(p.Owner.UID)
		}
		pod.OwnerReferences = []metav1.OwnerReference{ref}
	}
	return pod
}

func (r lpRS) build() *appsv1.ReplicaSet {
	labels := map[string]string{"app": "demo"}
	if r.TmplLabel != nil {
		labels[appsv1.DefaultDeploymentUniqueLabelKey] = *r.TmplLabel
	}
	return &appsv1.ReplicaSet{
		ObjectMeta: metav1.ObjectMeta{Namespace: lpNS, Name: r.Name},
		Spec: appsv1.ReplicaSetSpec{Template: corev1.PodTemplateSpec{
			ObjectMeta: metav1.ObjectMeta{Labels: labels},
			Spec:       corev1.PodSpec{Containers: []corev1.Container{{Name: "main", Image: r.Image}}},
		}},
	}
}

// lpHash is the value the patcher is expected to compute for the ReplicaSet (opaque to the model).
func (r lpRS) hash() string {
	rs := r.build()
	delete(rs.Spec.Template.ObjectMeta.Labels, appsv1.DefaultDeploymentUniqueLabelKey)
	return util.ComputeHash(&rs.Spec.Template, nil)
}

// lpIOS rebuilds an IntOrString from its canonical form (numbers are int when generated,
// float64 when read back from JSON).
func lpIOS(m map[string]interface{}) intstr.IntOrString {
	num := func(v interface{}) int {
		switch x := v.(type) {
		case int:
			return x
		case float64:
			return int(x)
		}
		panic(fmt.Sprintf("bad number %v", v))
	}
	if v, ok := m["i"]; ok {
		return intstr.FromInt(num(v))
	}
	if v, ok := m["p"]; ok {
		return pct(num(v))
	}
	if v, ok := m["s"]; ok {
		return intstr.FromString(v.(string))
	}
	return intstr.FromInt(0)
}

func (c lpCfg) batches() []v1beta1.ReleaseBatch {
	out := make([]v1beta1.ReleaseBatch, len(c.Batches))
	for i, b := range c.Batches {
		out[i] = v1beta1.ReleaseBatch{CanaryReplicas: lpIOS(b)}
	}
	return out
}

func (in *lpIn) context(pods []*corev1.Pod) *batchcontext.BatchContext {
	bc := &batchcontext.BatchContext{
		RolloutID:              in.Cfg.ID,
		CurrentBatch:           int32(in.Cfg.Cur),
		UpdateRevision:         in.Cfg.Rev,
		Replicas:               int32(in.Cfg.Replicas),
		PlannedUpdatedReplicas: int32(in.Cfg.Planned),
		DesiredUpdatedReplicas: int32(in.Cfg.Desired),
		DesiredPartition:       lpIOS(in.Cfg.Partition),
		Pods:                   pods,
	}
	switch in.Filter {
	case "unordered":
		bc.FilterFunc = labelpatch.FilterPodsForUnorderedUpdate
	case "ordered":
		bc.FilterFunc = labelpatch.FilterPodsForOrderedUpdate
	}
	return bc
}

// recClient records every successful Patch call.
type recClient struct {
	client.Client
	patches []J
}

func (r *recClient) Patch(ctx context.Context, obj client.Object, patch client.Patch, opts ...client.PatchOption) error {
	data, _ := patch.Data(obj)
	err := r.Client.Patch(ctx, obj, patch, opts...)
	if err != nil {
		return err
	}
	var body struct {
		Metadata struct {
			Labels map[string]*string `json:"labels"`
		} `json:"metadata"`
	}
	if e := json.Unmarshal(data, &body); e != nil {
		r.patches = append(r.patches, J{"name": obj.GetName(), "raw": string(data)})
		return nil
	}
	l := body.Metadata.Labels
	r.patches = append(r.patches, J{"name": obj.GetName(),
		"rid": lpStr(l[v1beta1.RolloutIDLabel]), "bid": lpStr(l[v1beta1.RolloutBatchIDLabel]),
		"hash": lpStr(l[appsv1.ControllerRevisionHashLabelKey])})
	return nil
}

// canonical patch order: label patches in issue order, then the hash-only patches (issued in
// Go map order by the third loop) sorted by pod name.
func lpCanonPatches(ps []J) []J {
	out := []J{}
	var hashOnly []J
	for _, p := range ps {
		if p["rid"] == nil && p["bid"] == nil {
			hashOnly = append(hashOnly, p)
		} else {
			out = append(out, p)
		}
	}
	sort.SliceStable(hashOnly, func(i, j int) bool { return hashOnly[i]["name"].(string) < hashOnly[j]["name"].(string) })
	return append(out, hashOnly...)
}

type lpWorld struct {
	cli  client.Client
	pods []*corev1.Pod // ctx.Pods, in input order
}

func lpWorldOf(in *lpIn, pods []lpPod) *lpWorld {
	var objs []client.Object
	w := &lpWorld{}
	for _, p := range pods {
		if !p.Missing {
			objs = append(objs, p.build())
		}
		w.pods = append(w.pods, p.build())
	}
	for _, r := range in.RS {
		objs = append(objs, r.build())
	}
	w.cli = fake.NewClientBuilder().WithScheme(lpScheme).WithObjects(objs...).Build()
	return w
}

// one labelling pass through the real, exported entry point
func (w *lpWorld) pass(in *lpIn) J {
	rec := &recClient{Client: w.cli}
	patcher := labelpatch.NewLabelPatcher(rec, klog.ObjectRef{Name: "verif"}, in.Cfg.batches())
	bc := in.context(append([]*corev1.Pod(nil), w.pods...))
	res := "ok"
	func() {
		defer func() {
			if r := recover(); r != nil {
				res = "panic"
			}
		}()
		if err := patcher.PatchPodBatchLabel(bc); err != nil {
			res = "err"
		}
	}()
	return J{"res": res, "patches": lpCanonPatches(rec.patches)}
}

// labels of every stored pod, sorted by name
func (w *lpWorld) stored() []J {
	list := &corev1.PodList{}
	if err := w.cli.List(context.TODO(), list); err != nil {
		panic(err)
	}
	sort.Slice(list.Items, func(i, j int) bool { return list.Items[i].Name < list.Items[j].Name })
	out := []J{}
	for i := range list.Items {
		p := &list.Items[i]
		get := func(k string) interface{} {
			if v, ok := p.Labels[k]; ok {
				return v
			}
			return nil
		}
		out = append(out, J{"name": p.Name, "rid": get(v1beta1.RolloutIDLabel), "bid": get(v1beta1.RolloutBatchIDLabel),
			"ctrl": get(appsv1.ControllerRevisionHashLabelKey)})
	}
	return out
}

// refresh ctx.Pods from the store (a later reconcile lists the pods anew), same order
func (w *lpWorld) refresh() {
	for i, p := range w.pods {
		cur := &corev1.Pod{}
		if err := w.cli.Get(context.TODO(), types.NamespacedName{Namespace: lpNS, Name: p.Name}, cur); err == nil {
			w.pods[i] = cur
		}
	}
}

// foreign pods (rollout-id different from ctx.RolloutID) get other foreign label values
func lpScramble(id string, pods []lpPod) []lpPod {
	out := make([]lpPod, len(pods))
	for i, p := range pods {
		rid := ""
		if p.Rid != nil {
			rid = *p.Rid
		}
		if rid != id {
			if p.Bid != nil && *p.Bid == "1" {
				p.Bid = labelpatchSp("2")
			} else {
				p.Bid = labelpatchSp("1")
			}
			if p.Rid == nil {
				p.Rid = labelpatchSp("zz-" + id)
			} else {
				p.Rid = nil
			}
		}
		out[i] = p
	}
	return out
}

func lpPatch(c *Ctx, in *lpIn) {
	for i := range in.RS {
		in.RS[i].Hash = in.RS[i].hash()
	}
	w := lpWorldOf(in, in.Pods)
	first := w.pass(in)
	impl := J{"res": first["res"], "patches": first["patches"], "pods": w.stored(), "second": nil, "scrambled": nil}
	if first["res"] == "ok" {
		w.refresh()
		impl["second"] = w.pass(in)
	}
	w2 := lpWorldOf(in, lpScramble(in.Cfg.ID, in.Pods))
	impl["scrambled"] = w2.pass(in)
	c.Emit("patch", in, impl)
}

func lpFilter(c *Ctx, in *lpIn) {
	pods := make([]*corev1.Pod, len(in.Pods))
	for i, p := range in.Pods {
		pods[i] = p.build()
	}
	bc := in.context(pods)
	impl := guard(func() interface{} {
		var out []*corev1.Pod
		switch in.Filter {
		case "unordered":
			out = labelpatch.FilterPodsForUnorderedUpdate(pods, bc)
		case "ordered":
			out = labelpatch.FilterPodsForOrderedUpdate(pods, bc)
		default:
			out = pods
		}
		names := []string{}
		for _, p := range out {
			names = append(names, p.Name)
		}
		return J{"names": names}
	})
	if m, ok := impl.(J); ok && m["panic"] != nil {
		impl = J{"panic": true}
	}
	c.Emit("filter", in, impl)
}

func lpIncrements(c *Ctx, cfg lpCfg) {
	impl := guard(func() interface{} {
		return J{"res": labelpatch.VerifCalculatePlannedStepIncrements(cfg.batches(), cfg.Replicas, cfg.Cur)}
	})
	if m, ok := impl.(J); ok && m["panic"] != nil {
		impl = J{"panic": true}
	}
	c.Emit("increments", J{"batches": cfg.Batches, "replicas": cfg.Replicas, "cur": cfg.Cur}, impl)
}

func lpSatisfied(c *Ctx, id string, target int, ps []lpPod) {
	pods := make([]*corev1.Pod, len(ps))
	for i, p := range ps {
		pods[i] = p.build()
	}
	bc := &batchcontext.BatchContext{RolloutID: id, PlannedUpdatedReplicas: int32(target), Pods: pods}
	impl := guard(func() interface{} { return bc.IsBatchReady() == nil })
	c.Emit("satisfied", J{"id": id, "target": target, "pods": ps}, impl)
}

// ---------------------------------------------------------------- generators

var lpWeirdBids = []string{"0", "-1", "-3", "7", "99", "+1", "+2", "01", "007", "abc", "", "1.5", " 1", "1 ", "1_0", "０",
	"99999999999999999999", "-99999999999999999999", "9223372036854775807", "9223372036854775808", "-9223372036854775808", "-", "+"}

func lpPick(c *Ctx, xs ...string) string { return xs[c.Rng.Intn(len(xs))] }

func lpGenBatches(c *Ctx, replicas int) []map[string]interface{} {
	r := c.Rng
	nb := 1 + r.Intn(4)
	vals := make([]int, nb)
	usePct := r.Intn(2) == 0
	for i := range vals {
		if usePct {
			vals[i] = []int{0, 10, 20, 25, 34, 50, 60, 75, 100, 100, 120}[r.Intn(11)]
		} else {
			vals[i] = r.Intn(replicas + 2)
		}
	}
	if r.Intn(10) != 0 { // mostly a monotone plan
		sort.Ints(vals)
	}
	out := make([]map[string]interface{}, nb)
	for i, v := range vals {
		if usePct {
			out[i] = map[string]interface{}{"p": v}
		} else {
			out[i] = map[string]interface{}{"i": v}
		}
		switch r.Intn(40) {
		case 0:
			out[i] = map[string]interface{}{"s": "abc"}
		case 1:
			out[i] = map[string]interface{}{"i": -2}
		}
	}
	return out
}

// planCalc mirrors nothing of the code under test: it only picks plausible
// PlannedUpdatedReplicas values for the generated contexts.
func planCalc(v intstr.IntOrString, replicas int) int {
	n := 0
	if v.Type == intstr.Int {
		n = int(v.IntVal)
	} else if p, ok := pctOf(v.StrVal); ok {
		n = (p*replicas + 99) / 100
	}
	if n > replicas {
		n = replicas
	}
	if n < 0 {
		n = 0
	}
	return n
}

func lpGenCase(c *Ctx) *lpIn {
	r := c.Rng
	kind := r.Intn(3) // 0 CloneSet-like, 1 Deployment-like, 2 StatefulSet-like
	id := lpPick(c, "r1", "release-2", "v3")
	if r.Intn(60) == 0 {
		id = ""
	}
	oldID := "r0"
	replicas := r.Intn(13)
	in := &lpIn{Filter: "none"}
	in.Cfg = lpCfg{ID: id, Replicas: replicas, Batches: lpGenBatches(c, replicas)}
	nb := len(in.Cfg.Batches)
	in.Cfg.Cur = r.Intn(nb)
	if r.Intn(30) == 0 {
		in.Cfg.Cur = []int{-1, -2, nb, nb + 3}[r.Intn(4)]
	}
	planned := 0
	if in.Cfg.Cur >= 0 && in.Cfg.Cur < nb {
		planned = planCalc(lpIOS(in.Cfg.Batches[in.Cfg.Cur]), replicas)
	}
	in.Cfg.Planned = planned
	in.Cfg.Desired = planned
	if r.Intn(3) == 0 {
		in.Cfg.Desired = planned - r.Intn(planned+1)
	}
	if r.Intn(25) == 0 {
		in.Cfg.Planned = r.Intn(15) - 2
		in.Cfg.Desired = r.Intn(15) - 2
	}
	part := replicas - in.Cfg.Desired
	if r.Intn(6) == 0 {
		part = r.Intn(replicas+3) - 1
	}
	in.Cfg.Partition = map[string]interface{}{"i": part}
	if r.Intn(8) == 0 {
		in.Cfg.Partition = map[string]interface{}{"p": []int{0, 20, 50, 80, 100}[r.Intn(5)]}
	}

	newRS := lpRS{Name: "rs-new", Image: "img:" + lpPick(c, "2", "3")}
	oldRS := lpRS{Name: "rs-old", Image: "img:1"}
	if r.Intn(3) == 0 {
		newRS.TmplLabel = labelpatchSp("tmpl-new")
	}
	newHash := newRS.hash()
	switch kind {
	case 0:
		in.Cfg.Rev = lpPick(c, "rev-new", "demo-rev-new")
	case 1:
		in.Cfg.Rev = newHash
		if r.Intn(4) == 0 {
			in.Cfg.Rev = "demo-" + newHash
		}
		in.RS = []lpRS{newRS, oldRS}
		if r.Intn(30) == 0 {
			in.RS = in.RS[:1+r.Intn(1)] // the old ReplicaSet is gone
		}
		if r.Intn(60) == 0 {
			in.RS = []lpRS{oldRS}
		}
	case 2:
		in.Cfg.Rev = "sts-rev-new"
	}
	switch {
	case kind == 2 && r.Intn(4) != 0:
		in.Filter = "ordered"
	case kind != 2 && r.Intn(3) == 0:
		in.Filter = "unordered"
	case r.Intn(12) == 0:
		in.Filter = lpPick(c, "ordered", "unordered")
	}

	n := r.Intn(replicas + 4)
	ords := r.Perm(n + 3)
	for i := 0; i < n; i++ {
		p := lpPod{}
		rev := r.Intn(20) // <14 new, <19 old, 19 none
		switch kind {
		case 0:
			p.Name = fmt.Sprintf("cs-%s", string(rune('a'+i)))
			p.Owner = &lpOwner{Other: "CloneSet"}
			if rev < 14 {
				p.Ctrl = labelpatchSp("rev-new")
			} else if rev < 19 {
				p.Ctrl = labelpatchSp("rev-old")
			}
		case 1:
			p.Name = fmt.Sprintf("dep-%s", string(rune('a'+i)))
			if rev < 14 {
				p.Tmpl = labelpatchSp("tmpl-new")
				p.Owner = &lpOwner{RS: "rs-new", UID: "uid-new"}
			} else if rev < 19 {
				p.Tmpl = labelpatchSp("tmpl-old")
				p.Owner = &lpOwner{RS: "rs-old", UID: "uid-old"}
			} else if r.Intn(2) == 0 {
				p.Owner = &lpOwner{RS: "rs-gone", UID: "uid-gone"}
			}
			switch x := r.Intn(20); {
			case x < 5 && p.Owner != nil && p.Owner.RS == "rs-new":
				p.Ctrl = labelpatchSp(newHash) // already patched
			case x < 5 && p.Owner != nil && p.Owner.RS == "rs-old":
				p.Ctrl = labelpatchSp(oldRS.hash())
			case x == 5:
				p.Ctrl = labelpatchSp("")
			case x == 6:
				p.Ctrl = labelpatchSp("stale-hash")
			}
			if r.Intn(40) == 0 && p.Owner != nil { // incoherent owner reference: UID of one set, name of the other
				p.Owner.UID = lpPick(c, "uid-new", "uid-old")
			}
		case 2:
			p.Name = fmt.Sprintf("sts-%d", ords[i])
			p.Owner = &lpOwner{Other: "StatefulSet"}
			if rev < 14 {
				p.Ctrl = labelpatchSp("sts-rev-new")
			} else if rev < 19 {
				p.Ctrl = labelpatchSp("sts-rev-old")
			}
		}
		switch x := r.Intn(100); {
		case x < 45:
		case x < 75:
			p.Rid, p.Bid = labelpatchSp(id), labelpatchSp(fmt.Sprint(1+r.Intn(nb)))
		case x < 83:
			p.Rid, p.Bid = labelpatchSp(id), labelpatchSp(lpWeirdBids[r.Intn(len(lpWeirdBids))])
		case x < 93:
			p.Rid, p.Bid = labelpatchSp(oldID), labelpatchSp(fmt.Sprint(1+r.Intn(nb+1)))
		case x < 97:
			p.Rid, p.Bid = labelpatchSp(lpPick(c, "someone-else", "", "R1")), labelpatchSp(lpWeirdBids[r.Intn(len(lpWeirdBids))])
		default:
			p.Rid = labelpatchSp(id)
		}
		if r.Intn(7) == 0 {
			p.NoNeed = labelpatchSp(lpPick(c, id, id, oldID))
		}
		p.Term = r.Intn(10) == 0
		hashCandidate := p.Owner != nil && p.Owner.RS != "" && (p.Ctrl == nil || *p.Ctrl == "")
		if r.Intn(35) == 0 && !hashCandidate {
			p.Missing = true
		}
		in.Pods = append(in.Pods, p)
	}
	// malformed names for the ordered filter (few pods only: see the model's sortPods)
	if in.Filter == "ordered" && n <= 10 && r.Intn(12) == 0 && n > 0 {
		k := r.Intn(n)
		in.Pods[k].Name = lpPick(c, "nodash", "sts-x", "sts-", "sts--4", "sts-99999999999999999999", "sts-+3", "sts-3-")
		for j := range in.Pods { // keep names unique
			if j != k && in.Pods[j].Name == in.Pods[k].Name {
				in.Pods[k].Name += "z"
			}
		}
	}
	return in
}

// small scope, exhaustive: every layout of `np` pods over a fixed alphabet of pod states,
// plan [1, 2] (ints) on 3 replicas, both batches.
func lpExhaustive(c *Ctx, np int) {
	id, old := "r1", "r0"
	type st struct {
		ctrl    string
		rid     *string
		bid     *string
		term    bool
		missing bool
	}
	alpha := []st{
		{"rev-new", nil, nil, false, false},
		{"rev-new", &id, labelpatchSp("1"), false, false},
		{"rev-new", &id, labelpatchSp("2"), false, false},
		{"rev-new", &id, labelpatchSp("0"), false, false},
		{"rev-new", &id, labelpatchSp("3"), false, false},
		{"rev-new", &id, labelpatchSp("abc"), false, false},
		{"rev-new", &old, labelpatchSp("1"), false, false},
		{"rev-old", nil, nil, false, false},
		{"rev-old", &id, labelpatchSp("1"), false, false},
		{"rev-new", nil, nil, true, false},
		{"rev-new", &id, labelpatchSp("1"), true, false},
		{"rev-new", &id, nil, false, false},
		{"rev-new", nil, nil, false, true},
	}
	total := 1
	for i := 0; i < np; i++ {
		total *= len(alpha)
	}
	for code := 0; code < total; code++ {
		for cur := 0; cur < 2; cur++ {
			in := &lpIn{Filter: "none", Cfg: lpCfg{ID: id, Rev: "rev-new", Replicas: 3, Cur: cur,
				Batches:   []map[string]interface{}{{"i": 1}, {"i": 2}},
				Partition: map[string]interface{}{"i": 0}}}
			x := code
			for i := 0; i < np; i++ {
				a := alpha[x%len(alpha)]
				x /= len(alpha)
				in.Pods = append(in.Pods, lpPod{Name: fmt.Sprintf("p-%d", i), Ctrl: labelpatchSp(a.ctrl), Rid: a.rid, Bid: a.bid,
					Term: a.term, Missing: a.missing, Owner: &lpOwner{Other: "CloneSet"}})
			}
			lpPatch(c, in)
		}
	}
}

func runLabelPatch(c *Ctx) {
	r := c.Rng
	// 1. malformed stream: a pod of the current release with every odd batch-id value
	for _, bid := range lpWeirdBids {
		for cur := 0; cur < 2; cur++ {
			in := &lpIn{Filter: "none", Cfg: lpCfg{ID: "r1", Rev: "rev-new", Replicas: 4, Cur: cur,
				Batches:   []map[string]interface{}{{"p": 25}, {"p": 100}},
				Partition: map[string]interface{}{"i": 0}}}
			in.Pods = []lpPod{
				{Name: "p-0", Ctrl: labelpatchSp("rev-new")},
				{Name: "p-1", Ctrl: labelpatchSp("rev-new"), Rid: labelpatchSp("r1"), Bid: labelpatchSp(bid)},
				{Name: "p-2", Ctrl: labelpatchSp("rev-new")},
				{Name: "p-3", Ctrl: labelpatchSp("rev-old"), Rid: labelpatchSp("r1"), Bid: labelpatchSp(bid)},
			}
			lpPatch(c, in)
		}
	}
	// 2. exhaustive small scope
	if c.Thorough() {
		lpExhaustive(c, 4)
	} else {
		lpExhaustive(c, 3)
	}
	// 3. random structured cases
	for i := 0; i < c.N; i++ {
		in := lpGenCase(c)
		lpPatch(c, in)
		if i%3 == 0 {
			// the same pods behind the real control plane of an Advanced DaemonSet; some of them not Ready
			pl := *in
			pl.Pods = append([]lpPod(nil), in.Pods...)
			for k := range pl.Pods {
				pl.Pods[k].NotReady = r.Intn(3) == 0
			}
			lpPlanePatch(c, &pl)
		}
		if i%4 == 0 {
			f := *in
			f.Filter = lpPick(c, "unordered", "ordered")
			lpFilter(c, &f)
		}
		if i%8 == 0 {
			lpIncrements(c, in.Cfg)
			lpSatisfied(c, in.Cfg.ID, r.Intn(len(in.Pods)+2)-1, in.Pods)
		}
	}
	// 4. plan arithmetic: every current batch of a few plans, out-of-range ones included
	for rep := 0; rep <= 12; rep++ {
		for k := 0; k < 6; k++ {
			cfg := lpCfg{Replicas: rep, Batches: lpGenBatches(c, rep)}
			for cur := -1; cur <= len(cfg.Batches); cur++ {
				cfg.Cur = cur
				lpIncrements(c, cfg)
			}
		}
	}
	lpIncrements(c, lpCfg{Replicas: 3, Batches: nil, Cur: 0})
}

func replayLabelPatch(c *Ctx, op string, raw json.RawMessage) {
	switch op {
	case "patch", "filter":
		in := &lpIn{}
		if err := json.Unmarshal(raw, in); err != nil {
			panic(err)
		}
		if op == "patch" && in.Via != "" {
			lpPlanePatch(c, in)
		} else if op == "patch" {
			lpPatch(c, in)
		} else {
			lpFilter(c, in)
		}
	case "increments":
		var in struct {
			Batches  []map[string]interface{} `json:"batches"`
			Replicas int                      `json:"replicas"`
			Cur      int                      `json:"cur"`
		}
		if err := json.Unmarshal(raw, &in); err != nil {
			panic(err)
		}
		lpIncrements(c, lpCfg{Batches: in.Batches, Replicas: in.Replicas, Cur: in.Cur})
	case "satisfied":
		var in struct {
			ID     string  `json:"id"`
			Target int     `json:"target"`
			Pods   []lpPod `json:"pods"`
		}
		if err := json.Unmarshal(raw, &in); err != nil {
			panic(err)
		}
		lpSatisfied(c, in.ID, in.Target, in.Pods)
	}
}
