package main

// Suite "ingress" (property C14): the canary Ingress built by
// pkg/trafficrouting/network/ingress and the annotation scripts shipped in
// lua_configuration/trafficrouting_ingress/*.lua.
//
// ops
//
//	build  buildCanaryIngress (via hook) on a generated stable Ingress
//	lua    executeLuaForCanary (via hook): the real .lua file of the class through gopher-lua
//	lua2   script(a,s1), script(script(a,s1),s2), script(a,s2)   (history independence, script level)
//	seq    EnsureRoutes / Finalise call sequences against the controller-runtime fake client,
//	       every API write logged by a wrapping client
//
// The generator produces the JSON-able spec structs below; toK8s* turn them into
// the real API types, so the `in` of every line is sufficient for replay.

import (
	"context"
	"encoding/json"
	"fmt"
	"os"
	"path/filepath"
	"reflect"
	"regexp"
	"sort"
	"strings"

	"github.com/openkruise/rollouts/api/v1beta1"
	"github.com/openkruise/rollouts/pkg/trafficrouting/network"
	"github.com/openkruise/rollouts/pkg/trafficrouting/network/ingress"
	corev1 "k8s.io/api/core/v1"
	netv1 "k8s.io/api/networking/v1"
	"k8s.io/apimachinery/pkg/api/errors"
	metav1 "k8s.io/apimachinery/pkg/apis/meta/v1"
	"k8s.io/apimachinery/pkg/runtime"
	"k8s.io/apimachinery/pkg/types"
	clientgoscheme "k8s.io/client-go/kubernetes/scheme"
	"sigs.k8s.io/controller-runtime/pkg/client"
	"sigs.k8s.io/controller-runtime/pkg/client/fake"
	gatewayv1beta1 "sigs.k8s.io/gateway-api/apis/v1beta1"
)

func init() { register("ingress", runIngress, replayIngress) }

// ---------------------------------------------------------------- spec structs (line protocol)

type igSvc struct {
	Name       string `json:"name"`
	PortName   string `json:"portName"`
	PortNumber int32  `json:"portNumber"`
}
type igPath struct {
	Path     string  `json:"path"`
	PathType *string `json:"pathType"`
	Svc      *igSvc  `json:"svc"`
	Res      *string `json:"res"` // resource backend "kind/name"
}
type igRule struct {
	Host string   `json:"host"`
	HTTP []igPath `json:"http"` // nil = rule without an http section
}
type igTLS struct {
	Hosts  []string `json:"hosts"`
	Secret string   `json:"secret"`
}
type igIngress struct {
	Ann            map[string]string `json:"ann"`
	Labels         map[string]string `json:"labels"`
	ClassName      *string           `json:"className"`
	TLS            []igTLS           `json:"tls"`
	DefaultBackend bool              `json:"defaultBackend"`
	Rules          []igRule          `json:"rules"`
}
type igHeader struct {
	Name  string  `json:"name"`
	Value string  `json:"value"`
	Type  *string `json:"type"`
}
type igMatch struct {
	Path        *string    `json:"path"`
	Headers     []igHeader `json:"headers"`
	QueryParams []igHeader `json:"queryParams"`
}
type igKV struct {
	Name  string `json:"name"`
	Value string `json:"value"`
}
type igRhm struct {
	Set []igKV `json:"set"`
}
type igStrategy struct {
	Traffic *string   `json:"traffic"`
	Matches []igMatch `json:"matches"` // nil (null) and [] are different inputs of the script
	Rhm     *igRhm    `json:"rhm"`
}
type igLuaStep struct {
	Weight  *int32    `json:"weight"`
	Matches []igMatch `json:"matches"`
	Rhm     *igRhm    `json:"rhm"`
}
type igConf struct {
	Class     string `json:"class"`
	Name      string `json:"name"`
	StableSvc string `json:"stableSvc"`
	CanarySvc string `json:"canarySvc"`
}
type igBuildIn struct {
	igConf
	Ingress igIngress `json:"ingress"`
}
type igLuaIn struct {
	Class string            `json:"class"`
	Ann   map[string]string `json:"ann"`
	igLuaStep
}
type igLua2In struct {
	Class string            `json:"class"`
	Ann   map[string]string `json:"ann"`
	S1    igLuaStep         `json:"s1"`
	S2    igLuaStep         `json:"s2"`
}
type igCall struct {
	Op       string      `json:"op"` // ensure | finalise | addFinalizer
	Strategy *igStrategy `json:"strategy"`
}
type igSeqIn struct {
	igConf
	Stable *igIngress `json:"stable"` // null = the stable Ingress does not exist
	Calls  []igCall   `json:"calls"`
}

// ---------------------------------------------------------------- spec <-> API types

const igNS = "default"

func nonNilMap(m map[string]string) map[string]string {
	r := map[string]string{}
	for k, v := range m {
		r[k] = v
	}
	return r
}

// nilIfEmpty: an empty map is always handed over as nil — what a Get from the
// API server (and the fake client) returns for an absent annotations/labels block.
func nilIfEmpty(m map[string]string) map[string]string {
	if len(m) == 0 {
		return nil
	}
	r := map[string]string{}
	for k, v := range m {
		r[k] = v
	}
	return r
}

func toK8sIngress(name string, s igIngress) *netv1.Ingress {
	ing := &netv1.Ingress{
		TypeMeta:   metav1.TypeMeta{APIVersion: "networking.k8s.io/v1", Kind: "Ingress"},
		ObjectMeta: metav1.ObjectMeta{Name: name, Namespace: igNS, Annotations: nilIfEmpty(s.Ann), Labels: nilIfEmpty(s.Labels)},
	}
	if s.ClassName != nil {
		v := *s.ClassName
		ing.Spec.IngressClassName = &v
	}
	for _, t := range s.TLS {
		ing.Spec.TLS = append(ing.Spec.TLS, netv1.IngressTLS{Hosts: append([]string(nil), t.Hosts...), SecretName: t.Secret})
	}
	if s.DefaultBackend {
		ing.Spec.DefaultBackend = &netv1.IngressBackend{Service: &netv1.IngressServiceBackend{Name: "default-backend", Port: netv1.ServiceBackendPort{Number: 80}}}
	}
	for _, r := range s.Rules {
		rule := netv1.IngressRule{Host: r.Host}
		if r.HTTP != nil {
			rule.HTTP = &netv1.HTTPIngressRuleValue{}
			for _, p := range r.HTTP {
				path := netv1.HTTPIngressPath{Path: p.Path}
				if p.PathType != nil {
					pt := netv1.PathType(*p.PathType)
					path.PathType = &pt
				}
				if p.Svc != nil {
					path.Backend.Service = &netv1.IngressServiceBackend{Name: p.Svc.Name,
						Port: netv1.ServiceBackendPort{Name: p.Svc.PortName, Number: p.Svc.PortNumber}}
				}
				if p.Res != nil {
					kn := strings.SplitN(*p.Res, "/", 2)
					ref := &corev1.TypedLocalObjectReference{Kind: kn[0]}
					if len(kn) > 1 {
						ref.Name = kn[1]
					}
					path.Backend.Resource = ref
				}
				rule.HTTP.Paths = append(rule.HTTP.Paths, path)
			}
		}
		ing.Spec.Rules = append(ing.Spec.Rules, rule)
	}
	return ing
}

func fromK8sIngress(ing *netv1.Ingress) igIngress {
	s := igIngress{Ann: nonNilMap(ing.Annotations), Labels: nonNilMap(ing.Labels), TLS: []igTLS{}, Rules: []igRule{}}
	if ing.Spec.IngressClassName != nil {
		v := *ing.Spec.IngressClassName
		s.ClassName = &v
	}
	for _, t := range ing.Spec.TLS {
		s.TLS = append(s.TLS, igTLS{Hosts: append([]string{}, t.Hosts...), Secret: t.SecretName})
	}
	s.DefaultBackend = ing.Spec.DefaultBackend != nil
	for _, r := range ing.Spec.Rules {
		rule := igRule{Host: r.Host}
		if r.HTTP != nil {
			rule.HTTP = []igPath{}
			for _, p := range r.HTTP.Paths {
				path := igPath{Path: p.Path}
				if p.PathType != nil {
					v := string(*p.PathType)
					path.PathType = &v
				}
				if p.Backend.Service != nil {
					path.Svc = &igSvc{Name: p.Backend.Service.Name, PortName: p.Backend.Service.Port.Name, PortNumber: p.Backend.Service.Port.Number}
				}
				if p.Backend.Resource != nil {
					v := p.Backend.Resource.Kind + "/" + p.Backend.Resource.Name
					path.Res = &v
				}
				rule.HTTP = append(rule.HTTP, path)
			}
		}
		s.Rules = append(s.Rules, rule)
	}
	return s
}

func toK8sMatches(ms []igMatch) []v1beta1.HttpRouteMatch {
	if ms == nil {
		return nil
	}
	out := []v1beta1.HttpRouteMatch{}
	for _, m := range ms {
		var r v1beta1.HttpRouteMatch
		if m.Path != nil {
			v := *m.Path
			pt := gatewayv1beta1.PathMatchPathPrefix
			r.Path = &gatewayv1beta1.HTTPPathMatch{Type: &pt, Value: &v}
		}
		for _, h := range m.Headers {
			hm := gatewayv1beta1.HTTPHeaderMatch{Name: gatewayv1beta1.HTTPHeaderName(h.Name), Value: h.Value}
			if h.Type != nil {
				t := gatewayv1beta1.HeaderMatchType(*h.Type)
				hm.Type = &t
			}
			r.Headers = append(r.Headers, hm)
		}
		for _, h := range m.QueryParams {
			qm := gatewayv1beta1.HTTPQueryParamMatch{Name: gatewayv1beta1.HTTPHeaderName(h.Name), Value: h.Value}
			if h.Type != nil {
				t := gatewayv1beta1.QueryParamMatchType(*h.Type)
				qm.Type = &t
			}
			r.QueryParams = append(r.QueryParams, qm)
		}
		out = append(out, r)
	}
	return out
}

func toK8sRhm(r *igRhm) *gatewayv1beta1.HTTPHeaderFilter {
	if r == nil {
		return nil
	}
	f := &gatewayv1beta1.HTTPHeaderFilter{}
	for _, kv := range r.Set {
		f.Set = append(f.Set, gatewayv1beta1.HTTPHeader{Name: gatewayv1beta1.HTTPHeaderName(kv.Name), Value: kv.Value})
	}
	return f
}

func toK8sStrategy(s *igStrategy) *v1beta1.TrafficRoutingStrategy {
	st := &v1beta1.TrafficRoutingStrategy{Matches: toK8sMatches(s.Matches), RequestHeaderModifier: toK8sRhm(s.Rhm)}
	if s.Traffic != nil {
		v := *s.Traffic
		st.Traffic = &v
	}
	return st
}

// ---------------------------------------------------------------- running the real code

var igScheme = func() *runtime.Scheme {
	s := runtime.NewScheme()
	_ = clientgoscheme.AddToScheme(s)
	return s
}()

// igPanicGuard maps a panic to {"panic":true} (the message holds addresses).
func igPanicGuard(f func() interface{}) (res interface{}) {
	defer func() {
		if r := recover(); r != nil {
			res = J{"panic": true}
		}
	}()
	return f()
}

func igProvider(c client.Client, conf igConf) (network.NetworkProvider, error) {
	return ingress.NewIngressTrafficRouting(c, ingress.Config{
		Key:           "verif",
		Namespace:     igNS,
		CanaryService: conf.CanarySvc,
		StableService: conf.StableSvc,
		TrafficConf:   &v1beta1.IngressTrafficRouting{ClassType: conf.Class, Name: conf.Name},
		OwnerRef:      metav1.OwnerReference{APIVersion: "rollouts.kruise.io/v1beta1", Kind: "Rollout", Name: "demo", UID: "uid-1"},
	})
}

func igBuild(c *Ctx, in igBuildIn) {
	raw, _ := json.Marshal(in) // buildCanaryIngress writes through the shared Service pointers of its argument
	impl := igPanicGuard(func() interface{} {
		p, err := igProvider(fake.NewClientBuilder().WithScheme(igScheme).Build(), in.igConf)
		if err != nil {
			return J{"err": true}
		}
		out, err := ingress.VerifBuildCanaryIngress(p, toK8sIngress(in.Name, in.Ingress))
		if err != nil {
			return J{"err": true}
		}
		owner := len(out.OwnerReferences) == 1 && out.OwnerReferences[0].Name == "demo"
		return J{"name": out.Name, "owner": owner, "ingress": fromK8sIngress(out)}
	})
	c.Emit("build", json.RawMessage(raw), impl)
}

func igLuaRes(m map[string]string, err error) interface{} {
	if err != nil {
		return J{"err": true}
	}
	return J{"ann": nonNilMap(m)}
}

func igLua(c *Ctx, in igLuaIn) {
	impl := igPanicGuard(func() interface{} {
		p, err := igProvider(fake.NewClientBuilder().WithScheme(igScheme).Build(), igConf{Class: in.Class, Name: "x", StableSvc: "s", CanarySvc: "s-canary"})
		if err != nil {
			return J{"err": true}
		}
		return igLuaRes(ingress.VerifExecuteLuaForCanary(p, nilIfEmpty(in.Ann), in.Weight, toK8sMatches(in.Matches), toK8sRhm(in.Rhm)))
	})
	c.Emit("lua", in, impl)
}

func igLua2(c *Ctx, in igLua2In) {
	impl := igPanicGuard(func() interface{} {
		p, err := igProvider(fake.NewClientBuilder().WithScheme(igScheme).Build(), igConf{Class: in.Class, Name: "x", StableSvc: "s", CanarySvc: "s-canary"})
		if err != nil {
			return J{"err": true}
		}
		run := func(a map[string]string, s igLuaStep) (map[string]string, error) {
			return ingress.VerifExecuteLuaForCanary(p, nilIfEmpty(a), s.Weight, toK8sMatches(s.Matches), toK8sRhm(s.Rhm))
		}
		r1, e1 := run(in.Ann, in.S1)
		var r12 interface{}
		if e1 == nil {
			r12 = igLuaRes(run(r1, in.S2))
		}
		r2, e2 := run(in.Ann, in.S2)
		return J{"r1": igLuaRes(r1, e1), "r12": r12, "r2": igLuaRes(r2, e2)}
	})
	c.Emit("lua2", in, impl)
}

// logClient records every write verb issued through it.
type logClient struct {
	client.Client
	log *[]J
}

func (l logClient) rec(verb string, obj client.Object) {
	kind := strings.TrimPrefix(fmt.Sprintf("%T", obj), "*v1.")
	*l.log = append(*l.log, J{"verb": verb, "obj": kind + "/" + obj.GetName()})
}
func (l logClient) Create(ctx context.Context, obj client.Object, opts ...client.CreateOption) error {
	l.rec("create", obj)
	return l.Client.Create(ctx, obj, opts...)
}
func (l logClient) Update(ctx context.Context, obj client.Object, opts ...client.UpdateOption) error {
	l.rec("update", obj)
	return l.Client.Update(ctx, obj, opts...)
}
func (l logClient) Patch(ctx context.Context, obj client.Object, patch client.Patch, opts ...client.PatchOption) error {
	l.rec("patch", obj)
	return l.Client.Patch(ctx, obj, patch, opts...)
}
func (l logClient) Delete(ctx context.Context, obj client.Object, opts ...client.DeleteOption) error {
	l.rec("delete", obj)
	return l.Client.Delete(ctx, obj, opts...)
}
func (l logClient) DeleteAllOf(ctx context.Context, obj client.Object, opts ...client.DeleteAllOfOption) error {
	l.rec("deleteAllOf", obj)
	return l.Client.DeleteAllOf(ctx, obj, opts...)
}

func igErr(err error) string {
	switch {
	case err == nil:
		return "ok"
	case errors.IsNotFound(err):
		return "notFound"
	default:
		return "err"
	}
}

func igSeq(c *Ctx, in igSeqIn) {
	ctx := context.TODO()
	steps := []interface{}{}
	func() {
		b := fake.NewClientBuilder().WithScheme(igScheme)
		if in.Stable != nil {
			b = b.WithObjects(toK8sIngress(in.Name, *in.Stable))
		}
		inner := b.Build()
		var before *netv1.Ingress
		if in.Stable != nil {
			before = &netv1.Ingress{}
			if err := inner.Get(ctx, types.NamespacedName{Namespace: igNS, Name: in.Name}, before); err != nil {
				panic(err)
			}
		}
		log := []J{}
		var prov network.NetworkProvider
		canaryKey := types.NamespacedName{Namespace: igNS, Name: in.Name + "-canary"}
		for _, call := range in.Calls {
			log = log[:0]
			var res interface{}
			switch call.Op {
			case "addFinalizer":
				// environment action: somebody puts a finalizer on the canary Ingress
				cur := &netv1.Ingress{}
				if err := inner.Get(ctx, canaryKey, cur); err == nil {
					cur.Finalizers = []string{"verif/hold"}
					if err := inner.Update(ctx, cur); err != nil {
						panic(err)
					}
				}
				res = J{"done": false, "err": "ok"}
			default:
				res = igPanicGuard(func() interface{} {
					if prov == nil {
						p, err := igProvider(logClient{inner, &log}, in.igConf)
						if err != nil {
							return J{"done": false, "err": "err"}
						}
						prov = p
					}
					var done bool
					var err error
					if call.Op == "ensure" {
						done, err = prov.EnsureRoutes(ctx, toK8sStrategy(call.Strategy))
					} else {
						done, err = prov.Finalise(ctx)
					}
					return J{"done": done, "err": igErr(err)}
				})
			}
			out := res.(J)
			if out["panic"] != nil {
				steps = append(steps, out)
				return
			}
			// observe the store
			cur := &netv1.Ingress{}
			if err := inner.Get(ctx, canaryKey, cur); err == nil {
				out["canary"] = J{"ingress": fromK8sIngress(cur), "deleting": cur.DeletionTimestamp != nil, "fin": len(cur.Finalizers) > 0}
			} else {
				out["canary"] = nil
			}
			same := true
			st := &netv1.Ingress{}
			err := inner.Get(ctx, types.NamespacedName{Namespace: igNS, Name: in.Name}, st)
			if before == nil {
				same = errors.IsNotFound(err)
			} else {
				same = err == nil && reflect.DeepEqual(before, st)
			}
			out["stableSame"] = same
			out["writes"] = append([]J{}, log...)
			steps = append(steps, out)
		}
	}()
	c.Emit("seq", in, J{"steps": steps})
}

// ---------------------------------------------------------------- generators

var igClasses = []string{"nginx", "aliyun-alb", "higress", "mse"}

var igUserKeys = []string{"kubernetes.io/ingress.class", "foo", "nginx.ingress.kubernetes.io/rewrite-target",
	"alb.ingress.kubernetes.io/listen-ports", "mse.ingress.kubernetes.io/service-subset", "a/b", "zz"}

// keys some script sets or clears (stale values of these are what history leaks through)
var igScriptKeys = []string{
	"nginx.ingress.kubernetes.io/canary", "nginx.ingress.kubernetes.io/canary-by-cookie",
	"nginx.ingress.kubernetes.io/canary-by-header", "nginx.ingress.kubernetes.io/canary-by-header-pattern",
	"nginx.ingress.kubernetes.io/canary-by-header-value", "nginx.ingress.kubernetes.io/canary-weight",
	"nginx.ingress.kubernetes.io/canary-by-query", "nginx.ingress.kubernetes.io/canary-by-query-pattern",
	"nginx.ingress.kubernetes.io/canary-by-query-value",
	"mse.ingress.kubernetes.io/canary-by-query", "mse.ingress.kubernetes.io/canary-by-query-pattern",
	"mse.ingress.kubernetes.io/canary-by-query-value", "mse.ingress.kubernetes.io/request-header-control-update",
	"alb.ingress.kubernetes.io/canary", "alb.ingress.kubernetes.io/canary-by-cookie",
	"alb.ingress.kubernetes.io/canary-by-header", "alb.ingress.kubernetes.io/canary-by-header-pattern",
	"alb.ingress.kubernetes.io/canary-by-header-value", "alb.ingress.kubernetes.io/canary-weight",
	"alb.ingress.kubernetes.io/order",
}

var igVals = []string{"", "true", "gray", "v1", "50", "-1", "^v[0-9]+$", "a b", "x\"y", "ü"}

func igPick(c *Ctx, xs []string) string { return xs[c.Rng.Intn(len(xs))] }
func igStrp(s string) *string            { return &s }

// igSourceKeys: annotation keys the built-in Lua scripts of the CURRENT tree name (`annotations["…"]`) that this generator
// does not know - regenerated from lua_configuration/trafficrouting_ingress/*.lua on every run (cwd = repository root), so a
// script that starts to read or rewrite a further annotation meets user Ingresses that carry it
var igSourceKeys = func() []string {
	known := map[string]bool{}
	for _, k := range igUserKeys {
		known[k] = true
	}
	for _, k := range igScriptKeys {
		known[k] = true
	}
	out := []string{}
	files, _ := filepath.Glob("lua_configuration/trafficrouting_ingress/*.lua")
	re := regexp.MustCompile(`annotations\["([^"]+)"\]`)
	for _, f := range files {
		b, err := os.ReadFile(f)
		if err != nil {
			continue
		}
		for _, m := range re.FindAllStringSubmatch(string(b), -1) {
			if !known[m[1]] {
				known[m[1]] = true
				out = append(out, m[1])
			}
		}
	}
	sort.Strings(out)
	return out
}()

func igGenAnn(c *Ctx) map[string]string {
	m := map[string]string{}
	for _, k := range igSourceKeys {
		if c.Rng.Intn(2) == 0 {
			m[k] = igPick(c, []string{`{"echoserver":"grpc"}`, `{"echoserver":"grpc"}`, "gray", ""})
		}
	}
	switch c.Rng.Intn(8) {
	case 0:
		return m // no annotations at all
	}
	for i, n := 0, c.Rng.Intn(4); i < n; i++ {
		m[igPick(c, igUserKeys)] = igPick(c, igVals)
	}
	if c.Rng.Intn(3) == 0 {
		for i, n := 0, 1+c.Rng.Intn(4); i < n; i++ {
			m[igPick(c, igScriptKeys)] = igPick(c, igVals)
		}
	}
	return m
}

var igHosts = []string{"", "a.example.com", "b.example.com", "*.c.io"}
var igSvcNames = []string{"echoserver", "echoserver", "echoserver", "other", "echoserver-canary", "", "Echoserver"}
var igPathStr = []string{"/", "/api", "/v2/x", ""}
var igPathTypes = []*string{nil, igStrp("Exact"), igStrp("Prefix"), igStrp("ImplementationSpecific")}

func igGenPath(c *Ctx, malformed bool) igPath {
	p := igPath{Path: igPick(c, igPathStr), PathType: igPathTypes[c.Rng.Intn(len(igPathTypes))]}
	k := c.Rng.Intn(100)
	switch {
	case malformed && k < 25:
		p.Res = igStrp(igPick(c, []string{"StorageBucket/static", "k/echoserver"}))
	case malformed && k < 30: // neither service nor resource (rejected by API validation, not by the fake client)
	default:
		p.Svc = &igSvc{Name: igPick(c, igSvcNames)}
		if c.Rng.Intn(2) == 0 {
			p.Svc.PortNumber = int32(80 + c.Rng.Intn(3))
		} else {
			p.Svc.PortName = igPick(c, []string{"http", "web"})
		}
	}
	return p
}

func igGenIngress(c *Ctx, malformed bool) igIngress {
	ing := igIngress{Ann: igGenAnn(c), Labels: map[string]string{}, TLS: []igTLS{}, Rules: []igRule{}}
	if c.Rng.Intn(3) == 0 {
		ing.Labels["app"] = "echoserver"
	}
	if c.Rng.Intn(2) == 0 {
		ing.ClassName = igStrp(igPick(c, []string{"nginx", "alb", "mse", ""}))
	}
	if c.Rng.Intn(4) == 0 {
		ing.TLS = append(ing.TLS, igTLS{Hosts: []string{igPick(c, igHosts[1:])}, Secret: "tls-secret"})
	}
	ing.DefaultBackend = c.Rng.Intn(5) == 0
	for i, n := 0, c.Rng.Intn(4); i < n; i++ {
		r := igRule{Host: igPick(c, igHosts)}
		if malformed && c.Rng.Intn(4) == 0 {
			// host-only rule: no http section
		} else {
			r.HTTP = []igPath{}
			for j, m := 0, c.Rng.Intn(4); j < m; j++ {
				r.HTTP = append(r.HTTP, igGenPath(c, malformed))
			}
		}
		ing.Rules = append(ing.Rules, r)
	}
	return ing
}

var igHdrNames = []string{"canary-by-cookie", "user_id", "x-canary", "Canary-By-Cookie", ""}
var igHdrTypes = []*string{nil, igStrp("Exact"), igStrp("RegularExpression"), igStrp("regularexpression")}

func igGenHeader(c *Ctx) igHeader {
	return igHeader{Name: igPick(c, igHdrNames), Value: igPick(c, igVals), Type: igHdrTypes[c.Rng.Intn(len(igHdrTypes))]}
}

// kinds: 0 header, 1 query, 2 header+query, 3 neither (path only / empty match)
func igGenMatch(c *Ctx, kind int) igMatch {
	m := igMatch{Headers: []igHeader{}, QueryParams: []igHeader{}}
	if kind == 0 || kind == 2 {
		for i, n := 0, 1+c.Rng.Intn(2); i < n; i++ {
			m.Headers = append(m.Headers, igGenHeader(c))
		}
	}
	if kind == 1 || kind == 2 {
		for i, n := 0, 1+c.Rng.Intn(2); i < n; i++ {
			m.QueryParams = append(m.QueryParams, igGenHeader(c))
		}
	}
	if kind == 3 && c.Rng.Intn(2) == 0 {
		m.Path = igStrp("/canary")
	}
	return m
}

// match kinds a class's script accepts (the others make it fail with a Lua error)
func igMatchKind(c *Ctx, class string, wild bool) int {
	if wild {
		return c.Rng.Intn(4)
	}
	switch class {
	case "aliyun-alb", "higress":
		return []int{0, 0, 2}[c.Rng.Intn(3)]
	default:
		return c.Rng.Intn(4)
	}
}

func igGenMatches(c *Ctx, class string, wild bool) []igMatch {
	switch c.Rng.Intn(10) {
	case 0, 1, 2, 3:
		return nil
	case 4:
		return []igMatch{}
	}
	ms := []igMatch{}
	for i, n := 0, 1+c.Rng.Intn(3); i < n; i++ {
		ms = append(ms, igGenMatch(c, igMatchKind(c, class, wild)))
	}
	return ms
}

func igGenRhm(c *Ctx, class string, wild bool) *igRhm {
	if c.Rng.Intn(3) != 0 {
		return nil
	}
	r := &igRhm{Set: []igKV{}}
	n := 1 + c.Rng.Intn(2)
	if wild && c.Rng.Intn(3) == 0 {
		n = 0 // a modifier without `set` entries: the mse script fails on it
	}
	for i := 0; i < n; i++ {
		r.Set = append(r.Set, igKV{Name: igPick(c, []string{"gray", "x-env", ""}), Value: igPick(c, igVals)})
	}
	return r
}

var igBadTraffic = []string{"20", "", "abc%", "+5%", "007%", "5 %", "%", "-1%", "-7%", "150%", "1_0%", "99999999999999999999%", " 5%"}

func igGenTraffic(c *Ctx, wild bool) *string {
	switch k := c.Rng.Intn(10); {
	case k < 3:
		return nil
	case k == 3:
		return igStrp("0%")
	case k == 4 && wild:
		return igStrp(igPick(c, igBadTraffic))
	default:
		return igStrp(fmt.Sprintf("%d%%", c.Rng.Intn(101)))
	}
}

func igGenStrategy(c *Ctx, class string, wild bool) *igStrategy {
	return &igStrategy{Traffic: igGenTraffic(c, wild), Matches: igGenMatches(c, class, wild), Rhm: igGenRhm(c, class, wild)}
}

func igGenLuaStep(c *Ctx, class string, wild bool) igLuaStep {
	s := igLuaStep{Matches: igGenMatches(c, class, wild), Rhm: igGenRhm(c, class, wild)}
	switch k := c.Rng.Intn(10); {
	case k < 2:
	case k == 2:
		s.Weight = i32p(-1)
	case k == 3:
		s.Weight = i32p(0)
	default:
		s.Weight = i32p(int32(c.Rng.Intn(101)))
	}
	return s
}

func igGenConf(c *Ctx) igConf {
	return igConf{Class: igPick(c, igClasses), Name: igPick(c, []string{"echoserver", "web"}), StableSvc: "echoserver", CanarySvc: "echoserver-canary"}
}

func igGenSeq(c *Ctx, malformed bool) igSeqIn {
	in := igSeqIn{igConf: igGenConf(c), Calls: []igCall{}}
	if !malformed || c.Rng.Intn(8) != 0 {
		ing := igGenIngress(c, malformed && c.Rng.Intn(2) == 0)
		if in.Class == "mse" && len(ing.Ann) == 0 && c.Rng.Intn(4) != 0 {
			ing.Ann["kubernetes.io/ingress.class"] = "mse"
		}
		in.Stable = &ing
	}
	n := 2 + c.Rng.Intn(7)
	var cur *igStrategy
	for i := 0; i < n; i++ {
		switch k := c.Rng.Intn(20); {
		case k == 0:
			in.Calls = append(in.Calls, igCall{Op: "finalise"})
		case k == 1 && malformed:
			in.Calls = append(in.Calls, igCall{Op: "addFinalizer"})
		case k < 9 && cur != nil: // retry of the current step (what the controller does until done)
			in.Calls = append(in.Calls, igCall{Op: "ensure", Strategy: cur})
		default:
			cur = igGenStrategy(c, in.Class, malformed && c.Rng.Intn(3) == 0)
			in.Calls = append(in.Calls, igCall{Op: "ensure", Strategy: cur})
		}
	}
	if c.Rng.Intn(3) == 0 {
		in.Calls = append(in.Calls, igCall{Op: "finalise"}, igCall{Op: "finalise"})
	}
	return in
}

// a fixed catalogue of representative script inputs; all ordered pairs are run per class
func igCatalogue() []igLuaStep {
	h := func(n, v string, t *string) igMatch {
		return igMatch{Headers: []igHeader{{Name: n, Value: v, Type: t}}, QueryParams: []igHeader{}}
	}
	q := func(n, v string, t *string) igMatch {
		return igMatch{Headers: []igHeader{}, QueryParams: []igHeader{{Name: n, Value: v, Type: t}}}
	}
	re := igStrp("RegularExpression")
	both := h("user_id", "123", nil)
	both.QueryParams = []igHeader{{Name: "q", Value: "v", Type: re}}
	return []igLuaStep{
		{},
		{Weight: i32p(0)},
		{Weight: i32p(20)},
		{Weight: i32p(-1)},
		{Matches: []igMatch{}},
		{Matches: []igMatch{h("canary-by-cookie", "always", nil)}},
		{Matches: []igMatch{h("user_id", "123", nil)}},
		{Matches: []igMatch{h("user_id", "^1.*", re)}, Weight: i32p(0)},
		{Matches: []igMatch{q("user", "bob", nil)}},
		{Matches: []igMatch{q("user", "^b", re)}},
		{Matches: []igMatch{both}},
		{Matches: []igMatch{h("a", "1", nil), h("canary-by-cookie", "c", nil), h("b", "2", re)}},
		{Rhm: &igRhm{Set: []igKV{{Name: "gray", Value: "blue"}, {Name: "gray", Value: "green"}}}, Weight: i32p(50)},
		{Rhm: &igRhm{Set: []igKV{}}},
		{Matches: []igMatch{{Headers: []igHeader{}, QueryParams: []igHeader{}}}},
	}
}

func runIngress(c *Ctx) {
	// exhaustive small scope: every ordered pair of catalogue steps, per class, on three annotation maps
	cat := igCatalogue()
	anns := []map[string]string{
		{},
		{"kubernetes.io/ingress.class": "nginx"},
		{"foo": "bar", "mse.ingress.kubernetes.io/service-subset": "", "nginx.ingress.kubernetes.io/canary-weight": "7",
			"alb.ingress.kubernetes.io/order": "9", "nginx.ingress.kubernetes.io/canary-by-query": "stale",
			"mse.ingress.kubernetes.io/request-header-control-update": "stale"},
	}
	for _, cl := range igClasses {
		for _, a := range anns {
			for _, s1 := range cat {
				igLua(c, igLuaIn{Class: cl, Ann: nonNilMap(a), igLuaStep: s1})
				for _, s2 := range cat {
					igLua2(c, igLua2In{Class: cl, Ann: nonNilMap(a), S1: s1, S2: s2})
				}
			}
		}
	}
	// the class "" selects nginx
	igLua(c, igLuaIn{Class: "", Ann: map[string]string{"foo": "bar"}, igLuaStep: cat[2]})
	for i := 0; i < c.N; i++ {
		malformed := i%4 == 3 // separate malformed stream
		conf := igGenConf(c)
		igBuild(c, igBuildIn{igConf: conf, Ingress: igGenIngress(c, malformed)})
		cl := igPick(c, igClasses)
		igLua(c, igLuaIn{Class: cl, Ann: igGenAnn(c), igLuaStep: igGenLuaStep(c, cl, malformed)})
		igLua2(c, igLua2In{Class: cl, Ann: igGenAnn(c), S1: igGenLuaStep(c, cl, malformed), S2: igGenLuaStep(c, cl, malformed)})
		igSeq(c, igGenSeq(c, malformed))
	}
}

func replayIngress(c *Ctx, op string, raw json.RawMessage) {
	switch op {
	case "build":
		var in igBuildIn
		if json.Unmarshal(raw, &in) == nil {
			igBuild(c, in)
		}
	case "lua":
		var in igLuaIn
		if json.Unmarshal(raw, &in) == nil {
			in.Ann = nonNilMap(in.Ann)
			igLua(c, in)
		}
	case "lua2":
		var in igLua2In
		if json.Unmarshal(raw, &in) == nil {
			in.Ann = nonNilMap(in.Ann)
			igLua2(c, in)
		}
	case "seq":
		var in igSeqIn
		if json.Unmarshal(raw, &in) == nil {
			igSeq(c, in)
		}
	}
}
