package main

// closedloop, traffic part (slice cltraffic): scenarios with traffic routing — weights on some steps, steps without weight
// between weighted ones, 100 %-replica steps, DisableGenerateCanaryService — and walks that inject a user event, a crash or
// an API fault at a chosen *network* moment (a weight is live on the gateway, the Services are written but the route is
// not, the clean-up has un-pinned the stable Service but not yet withdrawn the route, …).  Every transition is emitted and
// compared like all other closedloop walks (op "cstep"), the whole walk as op "trace".

import (
	"context"
	"fmt"
	"strings"

	kruisev1alpha1 "github.com/openkruise/kruise-api/apps/v1alpha1"
	"github.com/openkruise/rollouts/pkg/util"
	"k8s.io/apimachinery/pkg/util/intstr"
)

func cllW(x int) *int { return &x }

// rollback: the user reverts the pod template to the revision the stable pods run (the CloneSet's current revision) and the
// CloneSet controller has observed it: admitted and held back by the workload webhook (partition 100 %, in-progress
// annotation), update revision = current revision, the pods of the abandoned revision are no longer counted as updated.
func (s *clSim) rollback() {
	ctx := context.TODO()
	cs := &kruisev1alpha1.CloneSet{}
	if err := s.cli.Client.Get(ctx, clWlKey, cs); err != nil {
		return
	}
	if cs.Status.UpdateRevision == cs.Status.CurrentRevision {
		return
	}
	cs.Generation++
	cs.Annotations[util.InRolloutProgressingAnnotation] = `{"rolloutName":"r"}`
	p := intstr.FromString("100%")
	cs.Spec.UpdateStrategy.Partition = &p
	cs.Spec.UpdateStrategy.Paused = false
	cs.Status.UpdateRevision = cs.Status.CurrentRevision
	cs.Status.UpdatedReplicas = *cs.Spec.Replicas - cs.Status.UpdatedReplicas
	cs.Status.UpdatedReadyReplicas = cs.Status.UpdatedReplicas
	cs.Status.ObservedGeneration = cs.Generation
	_ = s.cli.Client.Update(ctx, cs)
	_ = s.cli.Client.Status().Update(ctx, cs)
	s.trace = append(s.trace, "rollback")
}

// cllTrafficScenarios: fixed traffic scenarios plus n generated ones (all with traffic routing)
func cllTrafficScenarios(c *Ctx, n int) []clScenario {
	out := []clScenario{
		// weights on every step, canary Service not generated
		{Name: "tr-disablegen", Replicas: 6, HasTraffic: true, DisableGen: true, Steps: []rsStep{
			{Replicas: J{"p": 34}, Weight: cllW(30), Pause: "manual"}, {Replicas: J{"p": 67}, Weight: cllW(60), Pause: "short"}, {Replicas: J{"p": 100}, Weight: cllW(100), Pause: "short"}}},
		// a step without weight between two weighted ones (the routing of step 1 is finalised before step 2 is upgraded), plan ends below 100 %
		{Name: "tr-weight-plain-weight", Replicas: 8, HasTraffic: true, Steps: []rsStep{
			{Replicas: J{"i": 2}, Weight: cllW(25), Pause: "short"}, {Replicas: J{"i": 4}, Pause: "manual"}, {Replicas: J{"i": 6}, Weight: cllW(75), Pause: "short"}}},
		// first step without weight, weight 0 on the second, full step in the middle
		{Name: "tr-plain-first-full-middle", Replicas: 5, HasTraffic: true, Steps: []rsStep{
			{Replicas: J{"p": 20}, Pause: "short"}, {Replicas: J{"p": 40}, Weight: cllW(0), Pause: "short"}, {Replicas: J{"p": 100}, Weight: cllW(50), Pause: "manual"}, {Replicas: J{"p": 100}, Weight: cllW(100), Pause: "short"}}},
		// full first step without canary Service
		{Name: "tr-full-first-disablegen", Replicas: 3, HasTraffic: true, DisableGen: true, Steps: []rsStep{
			{Replicas: J{"p": 100}, Weight: cllW(40), Pause: "manual"}}},
	}
	for i := 0; i < n; i++ {
		R := 2 + c.Rng.Intn(12)
		k := 1 + c.Rng.Intn(4)
		sc := clScenario{Name: fmt.Sprintf("trgen-%d", i), Replicas: R, HasTraffic: true, DisableGen: c.Rng.Intn(3) == 0}
		acc := 0
		pcts := c.Rng.Intn(2) == 0
		for j := 0; j < k; j++ {
			st := rsStep{Pause: pickS(c, "manual", "short", "short")}
			if pcts {
				acc += 10 + c.Rng.Intn(60)
				if acc > 100 || (j == k-1 && c.Rng.Intn(3) != 0) {
					acc = 100
				}
				st.Replicas = J{"p": acc}
			} else {
				acc += 1 + c.Rng.Intn(R)
				if acc > R {
					acc = R
				}
				st.Replicas = J{"i": acc}
			}
			if c.Rng.Intn(4) != 0 {
				st.Weight = cllW([]int{0, 5, 20, 50, 100}[c.Rng.Intn(5)])
			}
			sc.Steps = append(sc.Steps, st)
		}
		out = append(out, sc)
	}
	return out
}

// cllNetMoment: does the joint state sit at the named network moment?
func cllNetMoment(cs cllCS, when string) bool {
	if cs.Ro == nil {
		return false
	}
	rolling := cs.Ro.Phase == "Progressing" && cs.Ro.Reason == "inRolling" && cs.Ro.Sub != nil
	live := cs.Net.CanaryIng != nil && *cs.Net.CanaryIng > 0
	switch when {
	case "routed": // a weight is live on the gateway while the rollout is rolling
		return rolling && live
	case "routed-next-step": // the weight of an earlier step is live while a later step is being upgraded
		return rolling && live && cs.Ro.Sub.CurIdx >= 2 && (cs.Ro.Sub.State == "init" || cs.Ro.Sub.State == "upgrade")
	case "svc-written": // DoTrafficRouting has written the Services, the route is not there (or still at weight 0)
		return rolling && cs.Ro.Sub.State == "trafficRouting" && (cs.Net.CanarySvc != nil || cs.Ro.DisableGen) && !live && cs.Net.StableSel != nil
	case "pinned-before-br": // first step: stable Service pinned, BatchRelease not created yet
		return rolling && cs.Net.StableSel != nil && cs.Br == nil
	case "cleanup-routed": // the clean-up is running and the canary route still exists
		return cs.Ro.Phase == "Progressing" && cs.Ro.Reason == "finalising" && cs.Net.CanaryIng != nil
	case "cleanup-unpinned-routed": // the clean-up has un-pinned the stable Service, the route is still there
		return cs.Ro.Phase == "Progressing" && cs.Ro.Reason == "finalising" && cs.Net.CanaryIng != nil && cs.Net.StableSel == nil
	case "cleanup-svc-left": // route withdrawn, canary Service still there
		return cs.Ro.Phase == "Progressing" && cs.Ro.Reason == "finalising" && cs.Net.CanaryIng == nil && cs.Net.CanarySvc != nil
	}
	return false
}

var cllMoments = []string{"routed", "routed", "routed-next-step", "svc-written", "pinned-before-br", "cleanup-routed", "cleanup-unpinned-routed", "cleanup-svc-left"}
var cllTrEvents = []string{"rollback", "rollback", "rollback,ro,delete", "release:v1", "release:v3", "release:v3", "delete", "delete", "crash", "fault-ro:0", "fault-ro:1", "fault-ro:2", "fault-br:0", "crash,release:v3", "crash,release:v1", "crash,delete"}

// cllTrCombos: (network moment, event) pairs run deterministically on the first traffic scenarios
var cllTrCombos = [][2]string{
	{"routed", "rollback"}, {"routed", "release:v3"}, {"routed", "delete"},
	{"routed", "release:v3,env,fault-ro:1"}, {"routed", "rollback,ro,fault-ro:1"}, {"routed", "rollback,ro,ro,tick,fault-ro:1"},
	{"routed-next-step", "rollback"}, {"routed-next-step", "release:v3,env,fault-ro:1"}, {"routed", "release:v1"},
	{"svc-written", "crash"}, {"cleanup-routed", "fault-ro:1"}, {"cleanup-unpinned-routed", "crash,delete"},
}

// cllTrafficEvent: fair rounds until the network moment `when` is reached (checked before every label), then the event,
// then — optionally after a few reconciles of one controller only — fair rounds to the end
func cllTrafficEvent(c *Ctx, sc clScenario, when, event string, skew int) *cllWalk {
	w := cllNewWalk(c, sc)
	w.fair = true
	w.kind = "tr-event:" + when + "+" + strings.Split(event, ":")[0]
	for r := 0; r < 2; r++ {
		for _, l := range cllRound {
			w.do(l)
		}
	}
	w.do("release:v2")
	hit := false
	for r := 0; r < 20*(len(sc.Steps)+4) && !hit && !w.s.panicked; r++ {
		for _, l := range cllRound {
			if l == "approve" && !w.manualPause() {
				continue
			}
			if cllNetMoment(w.s.cllJoint(), when) {
				hit = true
				break
			}
			w.do(l)
		}
		if w.s.terminal() {
			break
		}
	}
	if !hit {
		w.kind = "tr-event:" + when + "-not-reached"
		return w
	}
	for _, l := range strings.Split(event, ",") {
		w.do(l)
	}
	// an unfair stretch right after the event: one controller runs alone for a while
	switch skew {
	case 1:
		for i := 0; i < 3; i++ {
			w.do("br")
			w.do("env")
		}
	case 2:
		for i := 0; i < 3; i++ {
			w.do("ro")
			w.do("tick")
		}
	}
	for r := 0; r < 20*(len(sc.Steps)+4) && !w.s.panicked; r++ {
		for _, l := range cllRound {
			if l == "approve" && !w.manualPause() {
				continue
			}
			w.do(l)
		}
		if w.s.terminal() {
			// two more quiescent rounds
			for i := 0; i < 2; i++ {
				for _, l := range cllRound {
					w.do(l)
				}
			}
			break
		}
	}
	return w
}

// cllTrafficWalks: one targeted walk per call, scenario / moment / event drawn from the generator
func cllTrafficWalk(c *Ctx, scens []clScenario) *cllWalk {
	sc := scens[c.Rng.Intn(len(scens))]
	when := cllMoments[c.Rng.Intn(len(cllMoments))]
	ev := cllTrEvents[c.Rng.Intn(len(cllTrEvents))]
	return cllTrafficEvent(c, sc, when, ev, c.Rng.Intn(3))
}
