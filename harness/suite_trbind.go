package main

// trbind — Rollouts bound to a TrafficRouting custom resource (Lean: RV.TRBind).
//
// The joint state {TrafficRouting object, network objects, grace memory, N Rollouts with workload and BatchRelease} is
// driven one label at a time:
//
//	op "bstep": in = {js: joint state, label, src}, impl = {js: joint state afterwards, requeue, err, writes} | {panic}
//
// `ro i`  = the REAL RolloutReconciler.Reconcile of rollout r<i> (annotated rollouts.kruise.io/trafficrouting: tr),
// `tr`    = the REAL TrafficRoutingReconciler.Reconcile,
// `deleteTR` / `deleteRo` = a real Delete against the fake API server, the other labels are environment steps.
// Every step concretises the joint state into Kubernetes objects in a fresh fake API server, runs the action and
// abstracts the store back, so a line is replayable from its input alone; in a walk the next step starts from the state
// the implementation produced.  op "fault": the same step once undisturbed and once with the k-th API call failing.

import (
	"context"
	"encoding/json"
	"fmt"
	"sort"
	"strconv"
	"strings"

	"github.com/openkruise/rollouts/api/v1alpha1"
	"github.com/openkruise/rollouts/api/v1beta1"
	rolloutctl "github.com/openkruise/rollouts/pkg/controller/rollout"
	trctl "github.com/openkruise/rollouts/pkg/controller/trafficrouting"
	"github.com/openkruise/rollouts/pkg/util"
	"github.com/openkruise/rollouts/pkg/util/grace"
	apierrors "k8s.io/apimachinery/pkg/api/errors"
	metav1 "k8s.io/apimachinery/pkg/apis/meta/v1"
	"k8s.io/apimachinery/pkg/runtime/schema"
	"k8s.io/apimachinery/pkg/types"
	"k8s.io/apimachinery/pkg/util/validation/field"
	ctrl "sigs.k8s.io/controller-runtime"
	"sigs.k8s.io/controller-runtime/pkg/client"
)

func init() { register("trbind", runTRBind, replayTRBind) }

// ---- abstract state (mirrors RV.TRBind) ----

type tbTR struct {
	Deleting     bool   `json:"deleting"`
	HasFinalizer bool   `json:"hasFinalizer"`
	Holders      []int  `json:"holders"`
	Phase        string `json:"phase"`
	Weight       *int   `json:"weight"`
	Grace        int    `json:"grace"`
	HasRef       bool   `json:"hasRef"`
}

type tbW struct {
	Ro rsRollout `json:"ro"`
	WL *rsWL     `json:"wl"`
	BR *rsBR     `json:"br"`
}

type tbEntry struct {
	Bound bool `json:"bound"`
	Gone  bool `json:"gone"`
	W     tbW  `json:"w"`
}

type tbJS struct {
	TR  *tbTR     `json:"tr"`
	Net trNet     `json:"net"`
	Mem trMem     `json:"mem"`
	Ros []tbEntry `json:"ros"`
}

type tbLabel struct {
	K      string `json:"k"` // ro|tr|tick|crash|deleteTR|createTR|editStrategy|deleteRo|perturb|envNet
	I      int    `json:"i"`
	F      string `json:"f,omitempty"` // ro: none|get|update
	Weight *int   `json:"weight,omitempty"`
	Grace  int    `json:"grace,omitempty"`
	HasRef bool   `json:"hasRef,omitempty"`
	W      *tbW   `json:"w,omitempty"`
	Net    *trNet `json:"net,omitempty"`
	Why    string `json:"why,omitempty"` // perturb: what the environment did (statistics only)
	// ro: while rollout I's reconcile writes the TrafficRouting (its own finalizer), rollout Race.J's controller worker adds /
	// removes ITS finalizer on the same object: I's first Update meets a genuine 409 and is retried (retry.RetryOnConflict)
	Race *tbRace `json:"race,omitempty"`
}

type tbRace struct {
	J   int  `json:"j"`
	Add bool `json:"add"`
}

const tbTRName = "tr"

// the rollouts' names are prefixes of one another on purpose ("web", "web-v2", "web-v2-b"): a finalizer / label / key
// comparison that is not exact (prefix, substring) confuses them
var tbNames = []string{"web", "web-v2", "web-v2-b", "we"}

func tbRoName(i int) string {
	if i >= 0 && i < len(tbNames) {
		return tbNames[i]
	}
	return "r" + strconv.Itoa(i)
}

// tbRoIndex: the inverse of tbRoName (-1: not a name of ours)
func tbRoIndex(name string) int {
	for i, n := range tbNames {
		if n == name {
			return i
		}
	}
	if strings.HasPrefix(name, "r") {
		if n, err := strconv.Atoi(name[1:]); err == nil && n >= len(tbNames) {
			return n
		}
	}
	return -1
}

// ---- the API client of a step: LogClient + the rules of a real API server the fake client lacks + semantic faults ----

type tbClient struct {
	*LogClient
	failTRGet    bool
	failTRUpdate bool
	race         *tbRace
	raced        bool
}

func (c *tbClient) Get(ctx context.Context, key client.ObjectKey, obj client.Object, opts ...client.GetOption) error {
	if _, ok := obj.(*v1alpha1.TrafficRouting); ok && c.failTRGet {
		return apierrors.NewInternalError(fmt.Errorf("injected: get TrafficRouting"))
	}
	return c.LogClient.Get(ctx, key, obj, opts...)
}

func (c *tbClient) Update(ctx context.Context, obj client.Object, opts ...client.UpdateOption) error {
	if tr, ok := obj.(*v1alpha1.TrafficRouting); ok {
		if c.failTRUpdate {
			return apierrors.NewInternalError(fmt.Errorf("injected: update TrafficRouting"))
		}
		// ValidateObjectMetaUpdate: no new finalizers can be added if the object is being deleted
		old := &v1alpha1.TrafficRouting{}
		if err := c.LogClient.Client.Get(ctx, client.ObjectKeyFromObject(tr), old); err == nil && !old.DeletionTimestamp.IsZero() {
			have := map[string]bool{}
			for _, f := range old.Finalizers {
				have[f] = true
			}
			for _, f := range tr.Finalizers {
				if !have[f] {
					return apierrors.NewInvalid(schema.GroupKind{Group: "rollouts.kruise.io", Kind: "TrafficRouting"}, tr.Name,
						field.ErrorList{field.Forbidden(field.NewPath("metadata", "finalizers"), "no new finalizers can be added if the object is being deleted")})
				}
			}
		}
	}
	if tr, ok := obj.(*v1alpha1.TrafficRouting); ok {
		if c.race != nil && !c.raced {
			// the concurrent writer gets in first: the caller's copy is stale now and the fake API server answers 409
			c.raced = true
			cur := &v1alpha1.TrafficRouting{}
			if err := c.LogClient.Client.Get(ctx, client.ObjectKeyFromObject(tr), cur); err == nil {
				name := util.ProgressingRolloutFinalizer(tbRoName(c.race.J))
				fs := []string{}
				for _, f := range cur.Finalizers {
					if f != name {
						fs = append(fs, f)
					}
				}
				if c.race.Add && cur.DeletionTimestamp.IsZero() {
					fs = append(fs, name)
				}
				cur.Finalizers = fs
				if err := c.LogClient.Client.Update(ctx, cur); err != nil {
					panic("race: the concurrent finalizer write failed: " + err.Error())
				}
			}
		}
	}
	return c.LogClient.Update(ctx, obj, opts...)
}

// ---- concretisation ----

func tbBuildTR(t *tbTR) *v1alpha1.TrafficRouting {
	tr := &v1alpha1.TrafficRouting{}
	tr.Namespace, tr.Name, tr.UID, tr.Generation = trNS, tbTRName, trOwnerUID, 1
	if t.HasRef {
		tr.Spec.ObjectRef = []v1alpha1.TrafficRoutingRef{{Service: trSvc, GracePeriodSeconds: int32(t.Grace),
			Ingress: &v1alpha1.IngressTrafficRouting{Name: trIng, ClassType: "nginx"}}}
	}
	if t.Weight != nil {
		w := int32(*t.Weight)
		tr.Spec.Strategy.Weight = &w
	}
	if t.HasFinalizer {
		tr.Finalizers = append(tr.Finalizers, util.TrafficRoutingFinalizer)
	}
	for _, h := range t.Holders {
		tr.Finalizers = append(tr.Finalizers, util.ProgressingRolloutFinalizer(tbRoName(h)))
	}
	if t.Deleting {
		now := metav1.Now()
		tr.DeletionTimestamp = &now
	}
	tr.Status.Phase = v1alpha1.TrafficRoutingPhase(t.Phase)
	if t.Phase == "Weird" {
		tr.Status.Phase = "Weird"
	}
	tr.Status.ObservedGeneration = 1
	return tr
}

func tbAbstractTR(cli client.Client, in *tbTR) *tbTR {
	got := &v1alpha1.TrafficRouting{}
	if e := cli.Get(context.TODO(), types.NamespacedName{Namespace: trNS, Name: tbTRName}, got); e != nil {
		return nil
	}
	t := tbTR{Deleting: !got.DeletionTimestamp.IsZero(), Phase: string(got.Status.Phase), Holders: []int{}}
	if in != nil {
		t.Weight, t.Grace, t.HasRef = in.Weight, in.Grace, in.HasRef
	}
	t.HasRef = len(got.Spec.ObjectRef) > 0
	if got.Spec.Strategy.Weight != nil {
		w := int(*got.Spec.Strategy.Weight)
		t.Weight = &w
	} else {
		t.Weight = nil
	}
	for _, f := range got.Finalizers {
		if f == util.TrafficRoutingFinalizer {
			t.HasFinalizer = true
		} else if strings.HasPrefix(f, v1alpha1.ProgressingRolloutFinalizerPrefix+"/") {
			if n := tbRoIndex(f[len(v1alpha1.ProgressingRolloutFinalizerPrefix)+1:]); n >= 0 {
				t.Holders = append(t.Holders, n)
			}
		}
	}
	sort.Ints(t.Holders)
	switch t.Phase {
	case "", "Initial", "Healthy", "Progressing", "Finalizing", "Terminating":
	default:
		t.Phase = "Weird"
	}
	return &t
}

// tbObjects: the objects of rollout i (Rollout r<i>, CloneSet wl, BatchRelease r<i>)
func tbObjects(i int, e tbEntry) ([]client.Object, *v1beta1.Rollout, string) {
	ro, hash := rsBuildRollout(e.W.Ro)
	ro.Name = tbRoName(i)
	if e.Bound {
		ro.Annotations[v1alpha1.TrafficRoutingAnnotation] = tbTRName
	}
	objs := []client.Object{ro}
	if e.W.WL != nil {
		objs = append(objs, rsBuildCloneSet(e.W.WL))
	}
	if e.W.BR != nil {
		br := rsBuildBR(e.W.BR, ro)
		br.Name = ro.Name
		objs = append(objs, br)
	}
	return objs, ro, hash
}

// tbCanonRo: the output canonicalisation of suite rolloutsm / closedloop — an illegal next-step index is shown corrected
// (it is corrected in memory on every reconcile), the age of the Progressing condition only while it is read
func tbCanonRo(r rsRollout) rsRollout {
	if r.Reason != "initializing" {
		r.CondAge = "ignored"
	}
	if r.Sub != nil {
		sub := *r.Sub
		if n := len(r.Steps); sub.NextIdx <= 0 || sub.NextIdx > n {
			if sub.CurIdx >= n {
				sub.NextIdx = -1
			} else {
				sub.NextIdx = sub.CurIdx + 1
			}
		}
		r.Sub = &sub
	}
	return r
}

// tbAbstractEntry reads rollout i back from the store
func tbAbstractEntry(cli client.Client, i int, e tbEntry, ro0 *v1beta1.Rollout, hash string) tbEntry {
	out := tbEntry{Bound: e.Bound}
	key := types.NamespacedName{Namespace: trNS, Name: tbRoName(i)}
	got := &v1beta1.Rollout{}
	if err := cli.Get(context.TODO(), key, got); err != nil {
		out.Gone = true
		out.W = e.W
		out.W.Ro = tbCanonRo(out.W.Ro)
	} else {
		r := rsAbstractRollout(got, e.W.Ro, hash)
		if c := util.GetRolloutCondition(got.Status, v1beta1.RolloutConditionProgressing); c != nil {
			r.CondAge = rsAgeOf(&c.LastUpdateTime)
		} else {
			r.CondAge = "none"
		}
		out.W.Ro = tbCanonRo(r)
	}
	if anno, found := rsdWorkloadAnno(cli, e.W.Ro); found && e.W.WL != nil {
		wl := *e.W.WL
		wl.InProgressAnno = anno
		// the finder reports a rollback only on a workload that carries the in-progress annotation
		wl.InRollback = wl.InRollback && anno
		out.W.WL = &wl
	}
	br := &v1beta1.BatchRelease{}
	if err := cli.Get(context.TODO(), key, br); err == nil {
		out.W.BR = rsAbstractBR(br, ro0)
	} else {
		out.W.BR = nil
	}
	return out
}

func tbCanonJS(js tbJS) tbJS {
	out := js
	out.Ros = append([]tbEntry{}, js.Ros...)
	for i := range out.Ros {
		out.Ros[i].W.Ro = tbCanonRo(out.Ros[i].W.Ro)
	}
	if out.TR != nil {
		t := *out.TR
		if t.Holders == nil {
			t.Holders = []int{}
		}
		out.TR = &t
	}
	m := func(x string) string {
		if x == "elapsed" {
			return "none" // observationally the same (RV.Props.Traffic.runGrace_elapsed_none)
		}
		return x
	}
	out.Mem = trMem{m(js.Mem.PatchService), m(js.Mem.RestoreService), m(js.Mem.RestoreGateway), m(js.Mem.RemoveCanaryService), m(js.Mem.UpdateRoute)}
	return out
}

const tbCanaryKey = trNS + "/" + trSvc + "-canary"

func tbWriteNames(cli *LogClient) []string {
	ws := []string{}
	for _, r := range cli.Log {
		if r.Err {
			continue
		}
		name := r.Verb + " " + r.Kind + " " + r.Key
		switch name {
		case "patch Service ns/svc":
			name = "unpinStable" // a TrafficRouting (OnlyTrafficRouting) never pins the stable Service
		case "create Ingress ns/ing-canary":
			name = "createCanaryIngress"
		case "patch Ingress ns/ing-canary":
			name = "patchCanaryIngress"
		case "delete Ingress ns/ing-canary":
			name = "deleteCanaryIngress"
		default:
			continue // finalizer / status writes on the TrafficRouting itself are part of the state
		}
		ws = append(ws, name)
	}
	return ws
}

// tbStep performs one label on the joint state. failN > 0: the failN-th API call of the action fails (op fault).
func tbStep(js tbJS, lab tbLabel, failN int) (J, faultRun) {
	out := js
	out.Ros = append([]tbEntry{}, js.Ros...)
	fr := faultRun{}
	res := J{}
	switch lab.K {
	case "ro":
		if lab.Race != nil {
			res["raced"] = false
		}
		if lab.I < 0 || lab.I >= len(js.Ros) || js.Ros[lab.I].Gone {
			break
		}
		e := js.Ros[lab.I]
		objs, ro0, hash := tbObjects(lab.I, e)
		if js.TR != nil {
			objs = append(objs, tbBuildTR(js.TR))
		}
		base := trBuildWith(js.Net, objs...)
		base.Log = nil
		cli := &tbClient{LogClient: base, failTRGet: lab.F == "get", failTRUpdate: lab.F == "update", race: lab.Race}
		trSetMem(js.Mem, tbCanaryKey)
		old := rolloutctl.VerifSetGracePeriodSeconds(trLongGrace)
		defer rolloutctl.VerifSetGracePeriodSeconds(old)
		rec := rolloutctl.VerifNewReconciler(cli, theScheme)
		base.Calls, base.FailCallN, base.FaultHit = 0, failN, ""
		r, err := rec.Reconcile(context.TODO(), ctrl.Request{NamespacedName: types.NamespacedName{Namespace: trNS, Name: tbRoName(lab.I)}})
		base.FailCallN = 0
		fr = faultRun{Err: err != nil, Requeue: r.RequeueAfter > 0 || r.Requeue, Calls: base.Calls, Hit: base.FaultHit, Writes: writesOf(base)}
		res["requeue"], res["err"] = fr.Requeue, fr.Err
		if lab.Race != nil {
			res["raced"] = cli.raced
		}
		out.Ros[lab.I] = tbAbstractEntry(base.Client, lab.I, e, ro0, hash)
		out.TR = tbAbstractTR(base.Client, js.TR)
		out.Net = trAbstract(base.Client)
		out.Mem = trGetMem(tbCanaryKey)
		grace.ResetExpectations()
	case "tr":
		if js.TR == nil {
			break
		}
		base := trBuildWith(js.Net, tbBuildTR(js.TR))
		base.Log = nil
		cli := &tbClient{LogClient: base}
		trSetMem(js.Mem, trNS+"/"+trSvc) // OnlyTrafficRouting: canary service name = stable service name
		rec := trctl.VerifNewReconciler(cli, theScheme)
		base.Calls, base.FailCallN, base.FaultHit = 0, failN, ""
		r, err := rec.Reconcile(context.TODO(), ctrl.Request{NamespacedName: types.NamespacedName{Namespace: trNS, Name: tbTRName}})
		base.FailCallN = 0
		fr = faultRun{Err: err != nil, Requeue: r.RequeueAfter > 0 || r.Requeue, Calls: base.Calls, Hit: base.FaultHit, Writes: writesOf(base)}
		res["requeue"], res["err"], res["writes"] = fr.Requeue, fr.Err, tbWriteNames(base)
		out.TR = tbAbstractTR(base.Client, js.TR)
		out.Net = trAbstract(base.Client)
		m := trGetMem(trNS + "/" + trSvc)
		// the removeCanaryService expectation lives under the rollouts' key: a TrafficRouting never touches it
		m.RemoveCanaryService = js.Mem.RemoveCanaryService
		out.Mem = m
		grace.ResetExpectations()
	case "tick":
		age := func(x string) string {
			if x == "fresh" {
				return "elapsed"
			}
			return x
		}
		out.Mem = trMem{age(js.Mem.PatchService), age(js.Mem.RestoreService), age(js.Mem.RestoreGateway), age(js.Mem.RemoveCanaryService), age(js.Mem.UpdateRoute)}
		for i := range out.Ros {
			e := out.Ros[i]
			e.W.Ro.CondAge = age(e.W.Ro.CondAge)
			if e.W.Ro.Sub != nil {
				s := *e.W.Ro.Sub
				s.LastUpdate = age(s.LastUpdate)
				e.W.Ro.Sub = &s
			}
			out.Ros[i] = e
		}
	case "crash":
		out.Mem = trMem{"none", "none", "none", "none", "none"}
	case "deleteTR":
		if js.TR == nil {
			break
		}
		tr := tbBuildTR(js.TR)
		cli := fakeClient(tr)
		_ = cli.Delete(context.TODO(), tr)
		out.TR = tbAbstractTR(cli, js.TR)
	case "createTR":
		if js.TR == nil {
			cli := fakeClient()
			t := tbTR{Weight: lab.Weight, Grace: lab.Grace, HasRef: lab.HasRef}
			_ = cli.Create(context.TODO(), tbBuildTR(&t))
			out.TR = tbAbstractTR(cli, &t)
		}
	case "editStrategy":
		if js.TR != nil {
			t := *js.TR
			t.Weight = lab.Weight
			out.TR = &t
		}
	case "deleteRo":
		if lab.I < 0 || lab.I >= len(js.Ros) || js.Ros[lab.I].Gone {
			break
		}
		e := js.Ros[lab.I]
		objs, ro0, hash := tbObjects(lab.I, e)
		cli := fakeClient(objs...)
		_ = cli.Delete(context.TODO(), ro0)
		ne := tbAbstractEntry(cli, lab.I, e, ro0, hash)
		// a Delete changes nothing but the deletion mark (or removes the object)
		if !ne.Gone {
			d := ne.W.Ro.Deleting
			ne = e
			ne.W.Ro.Deleting = d
		} else {
			ne = e
			ne.Gone = true
		}
		out.Ros[lab.I] = ne
	case "perturb":
		if lab.I < 0 || lab.I >= len(js.Ros) || js.Ros[lab.I].Gone || lab.W == nil {
			break
		}
		a, b := js.Ros[lab.I].W.Ro, lab.W.Ro
		if a.Phase == b.Phase && a.Reason == b.Reason && a.Term == b.Term && a.HasFinalizer == b.HasFinalizer && a.Deleting == b.Deleting {
			e := out.Ros[lab.I]
			e.W = *lab.W
			out.Ros[lab.I] = e
		}
	case "envNet":
		if lab.Net != nil {
			out.Net = *lab.Net
		}
	default:
		panic("trbind: unknown label " + lab.K)
	}
	res["js"] = tbCanonJS(out)
	return res, fr
}

type tbIn struct {
	JS    tbJS    `json:"js"`
	Label tbLabel `json:"label"`
	Src   string  `json:"src"`
}

type tbObs struct {
	K   string `json:"k"`
	TR  *tbTR  `json:"tr"`
	Net trNet  `json:"net"`
	Err bool   `json:"err"`
}

// tbTrace: the observations of the current walk (label, TrafficRouting, network after every step)
var tbTrace []tbObs

func tbEmitTrace(c *Ctx, src string) {
	if len(tbTrace) > 0 {
		c.Emit("trace", J{"src": src, "obs": tbTrace}, nil)
	}
	tbTrace = nil
}

// tbDo emits one step and returns the state the implementation produced (ok = false: it panicked)
func tbDo(c *Ctx, js tbJS, lab tbLabel, src string) (tbJS, bool) {
	var post tbJS
	ok := true
	// a third of the fault-free Rollout reconciles in a shared TrafficRouting run against a concurrent finalizer write
	if lab.K == "ro" && (lab.F == "" || lab.F == "none") && lab.Race == nil && js.TR != nil && len(js.Ros) > 1 && c.Rng.Intn(3) == 0 {
		j := (lab.I + 1 + c.Rng.Intn(len(js.Ros)-1)) % len(js.Ros)
		held := false
		for _, h := range js.TR.Holders {
			held = held || h == j
		}
		lab.Race = &tbRace{J: j, Add: !held}
	}
	in := tbIn{JS: js, Label: lab, Src: src}
	impl := guard(func() interface{} {
		r, _ := tbStep(js, lab, 0)
		post = r["js"].(tbJS)
		return r
	})
	if m, isJ := impl.(J); isJ {
		if _, p := m["panic"]; p {
			ok = false
			grace.ResetExpectations()
		}
	}
	c.Emit("bstep", in, impl)
	if ok && src != "gen" {
		e, _ := impl.(J)["err"].(bool)
		tbTrace = append(tbTrace, tbObs{K: lab.K, TR: post.TR, Net: post.Net, Err: e})
	}
	return post, ok
}

// ---- generators ----

func tbHealthyEntry(c *Ctx, bound bool) tbEntry {
	R := 2 + c.Rng.Intn(6)
	style := pickS(c, "canary", "canary", "canary", "blueGreen")
	var steps []rsStep
	n := 1 + c.Rng.Intn(3)
	acc := 0
	for i := 0; i < n; i++ {
		acc += 20 + c.Rng.Intn(40)
		if acc > 100 || i == n-1 {
			acc = 100
		}
		steps = append(steps, rsStep{Replicas: J{"p": acc}, Pause: pickS(c, "manual", "short")})
	}
	ro := rsRollout{Style: style, Steps: steps, HasFinalizer: true, Grace: trLongGrace, Phase: "Healthy", Reason: "none", CondAge: "ignored", Term: "none", RealPartition: true}
	wl := &rsWL{Consistent: true, CanaryRev: "v1", StableRev: "v1", Replicas: R, Generation: 1, PodTemplateHash: "v1"}
	if c.Rng.Intn(3) != 0 {
		nidx := -1
		ro.Sub = &rsSub{CurIdx: n, NextIdx: nidx, State: "completed", FinStep: "empty", CanaryRev: "v1", StableRev: "v1", PodHash: "v1", Hash: "same",
			ObservedRolloutID: "v1", ObservedGen: 1, LastUpdate: "none"}
	}
	return tbEntry{Bound: bound, W: tbW{Ro: ro, WL: wl}}
}

func tbGenTR(c *Ctx, nros int) *tbTR {
	g := genTRSM(c)
	t := &tbTR{Deleting: g.TR.Deleting, HasFinalizer: g.TR.HasFinalizer, Phase: g.TR.Phase, Weight: g.TR.Weight, Grace: g.TR.Grace, HasRef: c.Rng.Intn(10) != 0, Holders: []int{}}
	for i := 0; i < nros+1; i++ {
		if c.Rng.Intn(3) == 0 {
			t.Holders = append(t.Holders, i)
		}
	}
	if c.Rng.Intn(8) == 0 {
		t.Holders = append(t.Holders, 7)
	}
	if t.Deleting && !t.HasFinalizer && len(t.Holders) == 0 {
		t.HasFinalizer = true
	}
	return t
}

// tbGenState: a random joint state for the one-step stream (states the walks rarely reach included)
func tbGenState(c *Ctx) (tbJS, bool) {
	n := 1 + c.Rng.Intn(2)
	js := tbJS{}
	var w0 rsWorld
	for i := 0; i < n; i++ {
		var w rsWorld
		for {
			w = genRolloutWorld(c)
			if w.Ro.RealPartition {
				break
			}
		}
		// bias towards the two places of the protocol
		switch c.Rng.Intn(4) {
		case 0:
			w.Ro.Phase, w.Ro.Reason, w.Ro.Deleting, w.Ro.Term = "Progressing", "initializing", false, "none"
			if w.WL != nil {
				w.WL.Consistent = true
			}
		case 1:
			w.Ro.Phase, w.Ro.Reason, w.Ro.Deleting, w.Ro.Term = "Progressing", pickS(c, "finalising", "cancelling"), false, "none"
			if w.WL != nil {
				w.WL.Consistent = true
			}
		}
		if c.Rng.Intn(3) != 0 {
			w.Ro.HasTraffic = false
			for k := range w.Ro.Steps {
				w.Ro.Steps[k].Weight = nil
			}
		}
		if i == 0 {
			w0 = w
		}
		js.Ros = append(js.Ros, tbEntry{Bound: c.Rng.Intn(8) != 0, W: tbW{Ro: w.Ro, WL: w.WL, BR: w.BR}})
	}
	js.Net, js.Mem = w0.Net, w0.Mem
	if c.Rng.Intn(8) != 0 {
		js.TR = tbGenTR(c, n)
	}
	if c.Rng.Intn(2) == 0 {
		// the network as a TrafficRouting leaves it: no canary Service, stable Service not pinned
		g := genTRSM(c)
		js.Net, js.Mem = g.Net, g.Mem
	}
	focus := false
	if c.Rng.Intn(3) == 0 {
		focus = true
		// focused stream: rollout 0 stands at one of the two places of the protocol (ready to join / ready to let go) in
		// front of a TrafficRouting in any phase, with any set of holders
		e := &js.Ros[0]
		e.Bound = true
		ro := &e.W.Ro
		ro.Phase, ro.Deleting, ro.Term, ro.HasTraffic, ro.Disabled = "Progressing", false, "none", false, false
		for k := range ro.Steps {
			ro.Steps[k].Weight = nil
		}
		if e.W.WL == nil {
			e.W.WL = &rsWL{CanaryRev: "v2", StableRev: "v1", Replicas: 5, Generation: 2, PodTemplateHash: "v2", InProgressAnno: true}
		}
		e.W.WL.Consistent = true
		if c.Rng.Intn(2) == 0 {
			ro.Reason, ro.CondAge = "initializing", pickS(c, "elapsed", "elapsed", "elapsed", "fresh")
		} else {
			ro.Reason = pickS(c, "finalising", "cancelling")
			if c.Rng.Intn(4) == 0 {
				ro.Phase, ro.Reason, ro.Deleting, ro.Term = "Terminating", "inRolling", true, "inTerminating"
			}
		}
		if js.TR == nil || c.Rng.Intn(3) != 0 {
			js.TR = tbGenTR(c, len(js.Ros))
		}
		js.TR.Phase = pickS(c, "", "Initial", "Healthy", "Healthy", "Progressing", "Progressing", "Finalizing", "Finalizing", "Terminating")
		if js.TR.Phase == "Terminating" {
			js.TR.Deleting = c.Rng.Intn(4) != 0
		}
		if js.TR.Deleting && !js.TR.HasFinalizer && len(js.TR.Holders) == 0 {
			js.TR.HasFinalizer = true
		}
	}
	if js.TR != nil && js.TR.Deleting && c.Rng.Intn(3) == 0 {
		js.Mem.RestoreService = "fresh" // a clean-up that is waiting for its first grace period
	}
	return js, focus
}

func tbFault(c *Ctx) string {
	switch c.Rng.Intn(12) {
	case 0:
		return "get"
	case 1:
		return "update"
	}
	return "none"
}

// environment actions on rollout i, as perturb labels
func tbPerturb(i int, e tbEntry, why string) *tbLabel {
	w := e.W
	ro := w.Ro
	if ro.Sub != nil {
		s := *ro.Sub
		ro.Sub = &s
	}
	if w.WL != nil {
		x := *w.WL
		w.WL = &x
	}
	if w.BR != nil {
		x := *w.BR
		w.BR = &x
	}
	switch why {
	case "release": // the workload webhook admitted a new revision
		if w.WL == nil || w.WL.InProgressAnno {
			return nil
		}
		next := map[string]string{"v1": "v2", "v2": "v3", "v3": "v1"}[w.WL.CanaryRev]
		w.WL.CanaryRev, w.WL.PodTemplateHash, w.WL.InProgressAnno, w.WL.Generation = next, next, true, w.WL.Generation+1
	case "finish": // the release ran through all its steps
		if ro.Sub == nil || ro.Reason != "inRolling" {
			return nil
		}
		ro.Sub.State, ro.Sub.CurIdx, ro.Sub.NextIdx = "completed", len(ro.Steps), -1
	case "rollback": // the user reverts the workload
		if w.WL == nil || !w.WL.InProgressAnno || ro.Reason != "inRolling" {
			return nil
		}
		w.WL.CanaryRev, w.WL.PodTemplateHash, w.WL.InRollback, w.WL.Generation = w.WL.StableRev, w.WL.StableRev, true, w.WL.Generation+1
	case "promoted": // the workload controller finished: the update revision is the stable one
		if w.WL == nil || w.WL.InProgressAnno {
			return nil
		}
		w.WL.StableRev, w.WL.InRollback = w.WL.CanaryRev, false
	case "brProgress": // the BatchRelease controller did its part
		if w.BR == nil {
			return nil
		}
		if w.BR.Deleting {
			w.BR = nil
		} else if w.BR.Partition == nil {
			w.BR.PhaseCompleted = true
		} else {
			w.BR.HashSame, w.BR.GenObserved, w.BR.BatchReady, w.BR.CurrentBatch = true, true, true, *w.BR.Partition
		}
	case "disable":
		if ro.Disabled {
			return nil
		}
		ro.Disabled = true
	case "enable":
		if !ro.Disabled {
			return nil
		}
		ro.Disabled = false
	case "pause":
		ro.Paused = !ro.Paused
	default:
		return nil
	}
	w.Ro = ro
	return &tbLabel{K: "perturb", I: i, W: &w, Why: why}
}

func tbInitial(c *Ctx, n int) tbJS {
	js := tbJS{Net: trNet{StableExists: true, StableIngress: true}, Mem: trMem{"none", "none", "none", "none", "none"}}
	for i := 0; i < n; i++ {
		js.Ros = append(js.Ros, tbHealthyEntry(c, c.Rng.Intn(10) != 0))
	}
	switch c.Rng.Intn(8) {
	case 0: // no TrafficRouting yet
	case 1:
		js.TR = &tbTR{Phase: "", Grace: 0, HasRef: true, Holders: []int{}}
	default:
		js.TR = &tbTR{HasFinalizer: true, Phase: "Healthy", Grace: []int{trLongGrace, trLongGrace, 0}[c.Rng.Intn(3)], HasRef: c.Rng.Intn(12) != 0, Holders: []int{}}
	}
	if js.TR != nil && c.Rng.Intn(6) != 0 {
		w := []int{5, 20, 50, 100}[c.Rng.Intn(4)]
		js.TR.Weight = &w
	}
	return js
}

// tbWalkFair: rounds of [ro 0 … ro n-1, tr, tick]; the rollouts are released, run, finish (or roll back) at chosen rounds;
// a user event / crash / fault now and then.
func tbWalkFair(c *Ctx, budget int) {
	n := 1 + c.Rng.Intn(3)
	js := tbInitial(c, n)
	start := c.Count
	releaseAt, finishAt := make([]int, n), make([]int, n)
	for i := range releaseAt {
		releaseAt[i] = 1 + c.Rng.Intn(6)
		finishAt[i] = releaseAt[i] + 3 + c.Rng.Intn(10)
	}
	events := map[int]tbLabel{}
	if c.Rng.Intn(2) == 0 {
		at := 2 + c.Rng.Intn(24)
		w := []int{0, 10, 30, 100}[c.Rng.Intn(4)]
		events[at] = []tbLabel{{K: "deleteTR"}, {K: "crash"}, {K: "editStrategy", Weight: &w}, {K: "deleteRo", I: c.Rng.Intn(n)},
			{K: "envNet", Net: &trNet{StableExists: true, StableIngress: false}}, {K: "createTR", Weight: &w, Grace: 0, HasRef: true}}[c.Rng.Intn(6)]
	}
	do := func(l tbLabel) bool {
		var ok bool
		js, ok = tbDo(c, js, l, "fair")
		return ok
	}
	quiescent := func() bool {
		if js.TR != nil && (js.TR.Phase != "Healthy" || len(js.TR.Holders) > 0 || js.TR.Deleting) {
			return false
		}
		for _, e := range js.Ros {
			if e.Gone {
				continue
			}
			if (e.W.Ro.Phase != "Healthy" && e.W.Ro.Phase != "Disabled") || e.W.BR != nil || (e.W.WL != nil && (e.W.WL.InProgressAnno || e.W.WL.StableRev != e.W.WL.CanaryRev)) {
				return false
			}
		}
		return true
	}
	cycles := 0
	for r := 0; r < 44 && c.Count-start < budget; r++ {
		// everything is back at rest: start another cycle of releases (at most three), then stop
		last := 0
		for i := range finishAt {
			if finishAt[i] > last {
				last = finishAt[i]
			}
		}
		if r > last+1 && quiescent() {
			cycles++
			if cycles >= 3 || r > 30 {
				break
			}
			for i := range releaseAt {
				releaseAt[i] = r + c.Rng.Intn(4)
				finishAt[i] = releaseAt[i] + 3 + c.Rng.Intn(8)
			}
		}
		if ev, ok := events[r]; ok {
			if !do(ev) {
				return
			}
		}
		for i := 0; i < n; i++ {
			e := js.Ros[i]
			var p *tbLabel
			switch {
			case r == releaseAt[i]:
				p = tbPerturb(i, e, "release")
			case r == finishAt[i]:
				p = tbPerturb(i, e, pickS(c, "finish", "finish", "finish", "rollback", "disable"))
			case e.W.Ro.Phase == "Disabled" && r+1 >= releaseAt[i] && r < finishAt[i]:
				p = tbPerturb(i, e, "enable")
			case e.W.BR != nil && c.Rng.Intn(3) != 0:
				p = tbPerturb(i, e, "brProgress")
			case e.W.Ro.Phase == "Healthy" && e.W.WL != nil && !e.W.WL.InProgressAnno && e.W.WL.StableRev != e.W.WL.CanaryRev:
				p = tbPerturb(i, e, "promoted")
			}
			if p != nil && !do(*p) {
				return
			}
			f := "none"
			if c.Rng.Intn(25) == 0 {
				f = pickS(c, "get", "update")
			}
			if !do(tbLabel{K: "ro", I: i, F: f}) {
				return
			}
		}
		if !do(tbLabel{K: "tr"}) || !do(tbLabel{K: "tick"}) {
			return
		}
	}
}

// tbWalkRandom: any interleaving of the labels
func tbWalkRandom(c *Ctx, budget int) {
	n := 1 + c.Rng.Intn(3)
	js := tbInitial(c, n)
	start := c.Count
	steps := 40 + c.Rng.Intn(80)
	for k := 0; k < steps && c.Count-start < budget; k++ {
		var l tbLabel
		i := c.Rng.Intn(n)
		x := c.Rng.Intn(100)
		switch {
		case x < 34:
			l = tbLabel{K: "ro", I: i, F: tbFault(c)}
		case x < 54:
			l = tbLabel{K: "tr"}
		case x < 66:
			l = tbLabel{K: "tick"}
		case x < 90:
			why := pickS(c, "release", "release", "finish", "finish", "finish", "rollback", "brProgress", "brProgress", "brProgress", "promoted", "disable", "enable", "pause")
			if p := tbPerturb(i, js.Ros[i], why); p != nil {
				l = *p
			} else {
				l = tbLabel{K: "ro", I: i, F: "none"}
			}
		case x < 92:
			l = tbLabel{K: "crash"}
		case x < 94:
			l = tbLabel{K: "deleteTR"}
		case x < 96:
			w := []int{0, 10, 30, 100}[c.Rng.Intn(4)]
			l = tbLabel{K: "createTR", Weight: &w, Grace: []int{0, trLongGrace}[c.Rng.Intn(2)], HasRef: c.Rng.Intn(6) != 0}
		case x < 97:
			l = tbLabel{K: "deleteRo", I: i}
		case x < 99:
			if c.Rng.Intn(2) == 0 {
				l = tbLabel{K: "editStrategy"}
			} else {
				w := []int{0, 10, 30, 100}[c.Rng.Intn(4)]
				l = tbLabel{K: "editStrategy", Weight: &w}
			}
		default:
			l = tbLabel{K: "envNet", Net: &trNet{StableExists: c.Rng.Intn(4) != 0, StableIngress: c.Rng.Intn(3) != 0}}
		}
		var ok bool
		js, ok = tbDo(c, js, l, "random")
		if !ok {
			return
		}
	}
}

func tbFaultSweep(c *Ctx, js tbJS, lab tbLabel, all bool) {
	in := tbIn{JS: js, Label: lab, Src: "fault"}
	faultSweep(c, in, all, func(n int) faultRun { _, r := tbStep(js, lab, n); return r })
	grace.ResetExpectations()
}

func runTRBind(c *Ctx) {
	budget := c.N
	for c.Count < budget {
		// one-step stream
		for k := 0; k < 100 && c.Count < budget; k++ {
			js, focus := tbGenState(c)
			lab := tbLabel{K: "ro", I: c.Rng.Intn(len(js.Ros)), F: tbFault(c)}
			if focus && c.Rng.Intn(4) != 0 {
				lab.I = 0
			} else if c.Rng.Intn(3) == 0 {
				lab = tbLabel{K: "tr"}
			} else if c.Rng.Intn(12) == 0 {
				lab = tbLabel{K: pickS(c, "deleteTR", "deleteRo", "tick", "crash"), I: 0}
			}
			tbDo(c, js, lab, "gen")
			if k%5 == 0 && (lab.K == "ro" || lab.K == "tr") {
				lab.F = "none"
				tbFaultSweep(c, js, lab, c.Thorough() && k%20 == 0)
			}
		}
		tbTrace = nil
		tbWalkFair(c, 400)
		tbEmitTrace(c, "fair")
		tbWalkRandom(c, 200)
		tbEmitTrace(c, "random")
	}
}

func replayTRBind(c *Ctx, op string, raw json.RawMessage) {
	if op == "fault" {
		var f struct {
			In tbIn `json:"in"`
			K  int  `json:"k"`
		}
		if err := json.Unmarshal(raw, &f); err != nil {
			panic(err)
		}
		faultReplay(c, f.In, f.K, func(n int) faultRun { _, r := tbStep(f.In.JS, f.In.Label, n); return r })
		return
	}
	var in tbIn
	if err := json.Unmarshal(raw, &in); err != nil {
		panic(err)
	}
	tbDo(c, in.JS, in.Label, in.Src)
}
