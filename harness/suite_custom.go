package main

// suite "custom" — C15: the custom (Lua) network provider.
//
// Ops
//
//	seq     real EnsureRoutes* ; Finalise on a controller-runtime fake client with 1-3 referenced
//	        unstructured objects (Istio VirtualService / DestinationRule with the shipped .lua files,
//	        and objects of generated kinds whose scripts are supplied through the ConfigMap path).
//	        After every EnsureRoutes the same call is repeated (idempotence) and the script is run
//	        once more on the *original* configuration alone (statelessness reference).
//	script  one execution of executeLuaForCanary (hook) — checks the hand translation of the scripts.
//	hist    histories with foreign events (re-created objects, refs added / removed) and API faults: see
//	        suite_custom_hist.go.
//
// Canonical forms
//
//	object  {"spec":[] | [json], "labels":null|{..}, "annotations":null|{..} (without the original key),
//	         "orig": null | {"d":data} | {"raw":string}}
//	data    {"spec":json, "labels":{..}, "annotations":{..}}      (nil map = {})
//	result  "ok:true" | "ok:false" | "err"

import (
	"context"
	"encoding/json"
	"fmt"
	"math"
	"sort"
	"strings"
	"time"

	"github.com/openkruise/rollouts/api/v1beta1"
	custom "github.com/openkruise/rollouts/pkg/trafficrouting/network/customNetworkProvider"
	"github.com/openkruise/rollouts/pkg/util"
	"github.com/openkruise/rollouts/pkg/util/configuration"
	corev1 "k8s.io/api/core/v1"
	"k8s.io/apimachinery/pkg/api/errors"
	metav1 "k8s.io/apimachinery/pkg/apis/meta/v1"
	"k8s.io/apimachinery/pkg/apis/meta/v1/unstructured"
	"k8s.io/apimachinery/pkg/runtime"
	"k8s.io/apimachinery/pkg/types"
	clientgoscheme "k8s.io/client-go/kubernetes/scheme"
	"sigs.k8s.io/controller-runtime/pkg/client"
	"sigs.k8s.io/controller-runtime/pkg/client/fake"
	gatewayv1beta1 "sigs.k8s.io/gateway-api/apis/v1beta1"
)

func init() { register("custom", runCustom, replayCustom) }

const (
	cuNs        = "ns"
	cuGenGroup  = "verif.example.io"
	cuIstioAPI  = "networking.istio.io/v1alpha3"
	cuIstioPref = "lua_configuration/networking.istio.io/"
)

var cuScheme = func() *runtime.Scheme {
	s := runtime.NewScheme()
	_ = clientgoscheme.AddToScheme(s)
	return s
}()

// ------------------------------------------------------------------ canonical JSON

// cuCanon maps decoded JSON (int64/float64/json.Number …) to plain values; integral numbers become int64.
func cuCanon(v interface{}) interface{} {
	switch x := v.(type) {
	case nil, bool, string:
		return x
	case int:
		return int64(x)
	case int32:
		return int64(x)
	case int64:
		return x
	case float64:
		if x == math.Trunc(x) && math.Abs(x) < 1e18 {
			return int64(x)
		}
		return x
	case json.Number:
		if n, err := x.Int64(); err == nil {
			return n
		}
		f, _ := x.Float64()
		return f
	case []interface{}:
		out := make([]interface{}, len(x))
		for i := range x {
			out[i] = cuCanon(x[i])
		}
		return out
	case map[string]interface{}:
		out := make(map[string]interface{}, len(x))
		for k, e := range x {
			out[k] = cuCanon(e)
		}
		return out
	}
	return fmt.Sprintf("?%T", v)
}

func cuStrMap(m map[string]string) interface{} {
	out := J{}
	for k, v := range m {
		out[k] = v
	}
	return out
}

func cuData(d custom.Data) interface{} {
	return J{"spec": cuCanon(d.Spec), "labels": cuStrMap(d.Labels), "annotations": cuStrMap(d.Annotations)}
}

// cuOrig canonicalises the value of the original-configuration annotation.
func cuOrig(s string) interface{} {
	var probe interface{}
	if s == "" || json.Unmarshal([]byte(s), &probe) != nil {
		return J{"raw": s}
	}
	if _, isObj := probe.(map[string]interface{}); !isObj {
		return J{"raw": s}
	}
	var d custom.Data
	if err := json.Unmarshal([]byte(s), &d); err != nil {
		return J{"raw": s}
	}
	return J{"d": cuData(d)}
}

func cuObj(u *unstructured.Unstructured) interface{} {
	out := J{}
	if v, ok := u.Object["spec"]; ok {
		out["spec"] = []interface{}{cuCanon(v)}
	} else {
		out["spec"] = []interface{}{}
	}
	meta, _ := u.Object["metadata"].(map[string]interface{})
	if l, ok := meta["labels"]; ok && l != nil {
		out["labels"] = cuCanon(l)
	} else {
		out["labels"] = nil
	}
	out["orig"] = nil
	if a, ok := meta["annotations"]; ok && a != nil {
		am, _ := a.(map[string]interface{})
		rest := J{}
		for k, v := range am {
			if k == custom.OriginalSpecAnnotation {
				s, _ := v.(string)
				out["orig"] = cuOrig(s)
			} else {
				rest[k] = v
			}
		}
		out["annotations"] = rest
	} else {
		out["annotations"] = nil
	}
	return out
}

func cuRes(flag bool, err error) string {
	if err != nil {
		return "err"
	}
	return fmt.Sprintf("ok:%v", flag)
}

// ------------------------------------------------------------------ input → real objects

type cuStrategyIn struct {
	Traffic interface{} `json:"traffic"`
	Matches []struct {
		Path *struct {
			Type  *string `json:"type"`
			Value *string `json:"value"`
		} `json:"path"`
		Headers     []cuKV `json:"headers"`
		QueryParams []cuKV `json:"queryParams"`
	} `json:"matches"`
	HdrMod *struct {
		Set    [][2]string `json:"set"`
		Add    [][2]string `json:"add"`
		Remove []string    `json:"remove"`
	} `json:"hdrMod"`
}

type cuKV struct {
	Type  *string `json:"type"`
	Name  string  `json:"name"`
	Value string  `json:"value"`
}

func (s *cuStrategyIn) build() *v1beta1.TrafficRoutingStrategy {
	out := &v1beta1.TrafficRoutingStrategy{}
	if m, ok := s.Traffic.(map[string]interface{}); ok {
		if p, ok := m["p"]; ok {
			str := fmt.Sprintf("%d%%", int(p.(float64)))
			out.Traffic = &str
		} else if r, ok := m["s"]; ok {
			str := r.(string)
			out.Traffic = &str
		}
	}
	for _, m := range s.Matches {
		hm := v1beta1.HttpRouteMatch{}
		if m.Path != nil {
			hm.Path = &gatewayv1beta1.HTTPPathMatch{Value: m.Path.Value}
			if m.Path.Type != nil {
				t := gatewayv1beta1.PathMatchType(*m.Path.Type)
				hm.Path.Type = &t
			}
		}
		for _, h := range m.Headers {
			x := gatewayv1beta1.HTTPHeaderMatch{Name: gatewayv1beta1.HTTPHeaderName(h.Name), Value: h.Value}
			if h.Type != nil {
				t := gatewayv1beta1.HeaderMatchType(*h.Type)
				x.Type = &t
			}
			hm.Headers = append(hm.Headers, x)
		}
		for _, h := range m.QueryParams {
			x := gatewayv1beta1.HTTPQueryParamMatch{Name: gatewayv1beta1.HTTPHeaderName(h.Name), Value: h.Value}
			if h.Type != nil {
				t := gatewayv1beta1.QueryParamMatchType(*h.Type)
				x.Type = &t
			}
			hm.QueryParams = append(hm.QueryParams, x)
		}
		out.Matches = append(out.Matches, hm)
	}
	if s.HdrMod != nil {
		f := &gatewayv1beta1.HTTPHeaderFilter{}
		for _, p := range s.HdrMod.Set {
			f.Set = append(f.Set, gatewayv1beta1.HTTPHeader{Name: gatewayv1beta1.HTTPHeaderName(p[0]), Value: p[1]})
		}
		for _, p := range s.HdrMod.Add {
			f.Add = append(f.Add, gatewayv1beta1.HTTPHeader{Name: gatewayv1beta1.HTTPHeaderName(p[0]), Value: p[1]})
		}
		f.Remove = append(f.Remove, s.HdrMod.Remove...)
		out.RequestHeaderModifier = f
	}
	return out
}

type cuGenScript struct {
	Stmts []json.RawMessage `json:"stmts"`
	Ret   string            `json:"ret"`
}

type cuStmt struct {
	Op string          `json:"op"`
	K  string          `json:"k"`
	V  *cuVal          `json:"v"`
	N  int             `json:"n"`
	St json.RawMessage `json:"st"`
}

type cuVal struct {
	Kind string `json:"kind"`
	N    int    `json:"n"`
	S    string `json:"s"`
}

func (v *cuVal) lua() string {
	switch v.Kind {
	case "weight":
		return "obj.canaryWeight"
	case "stableWeight":
		return "obj.stableWeight"
	case "weightStr":
		return "tostring(obj.canaryWeight)"
	case "canarySvc":
		return "obj.canaryService"
	case "stableSvc":
		return "obj.stableService"
	case "int":
		return fmt.Sprintf("%d", v.N)
	default:
		return fmt.Sprintf("%q", v.S)
	}
}

func cuStmtLua(raw json.RawMessage) string {
	var s cuStmt
	if err := json.Unmarshal(raw, &s); err != nil {
		panic(err)
	}
	k := fmt.Sprintf("%q", s.K)
	switch s.Op {
	case "ensureSpec":
		return "if d.spec == nil then d.spec = {} end"
	case "setSpec":
		return fmt.Sprintf("d.spec[%s] = %s", k, s.V.lua())
	case "delSpec":
		return fmt.Sprintf("d.spec[%s] = nil", k)
	case "appendSpec":
		return fmt.Sprintf("table.insert(d.spec[%s], %s)", k, s.V.lua())
	case "setLabel":
		return fmt.Sprintf("if d.labels == nil then d.labels = {} end\nd.labels[%s] = %s", k, s.V.lua())
	case "delLabel":
		return fmt.Sprintf("if d.labels ~= nil then d.labels[%s] = nil end", k)
	case "clearLabels":
		return "d.labels = nil"
	case "setAnn":
		return fmt.Sprintf("if d.annotations == nil then d.annotations = {} end\nd.annotations[%s] = %s", k, s.V.lua())
	case "delAnn":
		return fmt.Sprintf("if d.annotations ~= nil then d.annotations[%s] = nil end", k)
	case "clearAnns":
		return "d.annotations = nil"
	case "failIfWeightGt":
		return fmt.Sprintf("if obj.canaryWeight > %d then error(\"weight too large\") end", s.N)
	case "onlyIfMatches":
		return "if obj.matches and next(obj.matches) ~= nil then\n" + cuStmtLua(s.St) + "\nend"
	}
	panic("unknown stmt " + s.Op)
}

func (g *cuGenScript) lua() string {
	var b strings.Builder
	b.WriteString("local d = obj.data\n")
	for _, s := range g.Stmts {
		b.WriteString(cuStmtLua(s))
		b.WriteString("\n")
	}
	switch g.Ret {
	case "hostile":
		// a non-table result whose conversion to a string runs script code (string metatable __tostring): anything the
		// provider does with the returned value beyond looking at its type happens on a state that is already closed
		b.WriteString("getmetatable(\"\").__tostring = function() return \"x\" end\nreturn \"s\"\n")
	case "number":
		b.WriteString("return 5\n")
	case "empty":
		b.WriteString("return {}\n")
	default:
		b.WriteString("return d\n")
	}
	return b.String()
}

type cuObjIn struct {
	Spec        []interface{}          `json:"spec"`
	Labels      map[string]interface{} `json:"labels"`
	Annotations map[string]interface{} `json:"annotations"`
	Orig        map[string]interface{} `json:"orig"`
}

type cuRefIn struct {
	Kind     string       `json:"kind"` // vs | dr | gen
	Gen      *cuGenScript `json:"gen"`
	NoScript bool         `json:"noScript"`
	Obj      *cuObjIn     `json:"obj"`
}

type cuSeqIn struct {
	Stable string         `json:"stable"`
	Canary string         `json:"canary"`
	Refs   []cuRefIn      `json:"refs"`
	Steps  []cuStrategyIn `json:"steps"`
}

func (r *cuRefIn) gvk(i int) (apiVersion, kind string) {
	switch r.Kind {
	case "vs":
		return cuIstioAPI, "VirtualService"
	case "dr":
		return cuIstioAPI, "DestinationRule"
	}
	return cuGenGroup + "/v1", fmt.Sprintf("Gen%d", i)
}

func (r *cuRefIn) scriptText() (string, bool) {
	switch r.Kind {
	case "vs":
		return util.GetLuaConfigurationContent(cuIstioPref + "VirtualService/trafficRouting.lua"), true
	case "dr":
		return util.GetLuaConfigurationContent(cuIstioPref + "DestinationRule/trafficRouting.lua"), true
	}
	if r.NoScript || r.Gen == nil {
		return "", false
	}
	return r.Gen.lua(), true
}

// origString rebuilds the annotation string of a pre-existing (stale / garbage) original annotation.
func cuOrigString(o map[string]interface{}) (string, bool) {
	if o == nil {
		return "", false
	}
	if raw, ok := o["raw"]; ok {
		return raw.(string), true
	}
	if d, ok := o["d"]; ok {
		dm := d.(map[string]interface{})
		data := custom.Data{Spec: dm["spec"]}
		if l, ok := dm["labels"].(map[string]interface{}); ok && len(l) > 0 {
			data.Labels = map[string]string{}
			for k, v := range l {
				data.Labels[k] = v.(string)
			}
		}
		if l, ok := dm["annotations"].(map[string]interface{}); ok && len(l) > 0 {
			data.Annotations = map[string]string{}
			for k, v := range l {
				data.Annotations[k] = v.(string)
			}
		}
		return util.DumpJSON(data), true
	}
	return "", false
}

func (o *cuObjIn) build(apiVersion, kind, name string) *unstructured.Unstructured {
	meta := J{"name": name, "namespace": cuNs}
	if o.Labels != nil {
		meta["labels"] = o.Labels
	}
	var anns map[string]interface{}
	if o.Annotations != nil {
		anns = map[string]interface{}{}
		for k, v := range o.Annotations {
			anns[k] = v
		}
	}
	if s, ok := cuOrigString(o.Orig); ok {
		if anns == nil {
			anns = map[string]interface{}{}
		}
		anns[custom.OriginalSpecAnnotation] = s
	}
	if anns != nil {
		meta["annotations"] = anns
	}
	obj := J{"apiVersion": apiVersion, "kind": kind, "metadata": meta}
	if len(o.Spec) == 1 {
		obj["spec"] = o.Spec[0]
	}
	b, err := json.Marshal(obj)
	if err != nil {
		panic(err)
	}
	u := &unstructured.Unstructured{}
	if err := u.UnmarshalJSON(b); err != nil {
		panic(err)
	}
	return u
}

// dataOfObj: the Data the provider stores for a pristine object, after the JSON round trip.
func cuDataOf(u *unstructured.Unstructured) custom.Data {
	anns := u.GetAnnotations()
	delete(anns, custom.OriginalSpecAnnotation)
	d := custom.Data{Spec: u.Object["spec"], Labels: u.GetLabels(), Annotations: anns}
	var out custom.Data
	_ = json.Unmarshal([]byte(util.DumpJSON(d)), &out)
	return out
}

// ------------------------------------------------------------------ op seq

func cuRunSeq(raw json.RawMessage) interface{} {
	var in cuSeqIn
	if err := json.Unmarshal(raw, &in); err != nil {
		panic(err)
	}
	cli := fake.NewClientBuilder().WithScheme(cuScheme).Build()
	ctx := context.TODO()
	conf := custom.Config{Key: "rollout-demo", RolloutNs: cuNs, StableService: in.Stable, CanaryService: in.Canary}
	cm := &corev1.ConfigMap{ObjectMeta: metav1.ObjectMeta{Name: custom.LuaConfigMap, Namespace: util.GetRolloutNamespace()}, Data: map[string]string{}}
	type refRt struct {
		apiVersion, kind, name string
		script                 string
		hasScript              bool
		orig                   *custom.Data
	}
	rts := make([]refRt, len(in.Refs))
	for i := range in.Refs {
		r := &in.Refs[i]
		av, kind := r.gvk(i)
		rt := refRt{apiVersion: av, kind: kind, name: fmt.Sprintf("r%d", i)}
		rt.script, rt.hasScript = r.scriptText()
		if r.Kind == "gen" && rt.hasScript {
			cm.Data[fmt.Sprintf("%s.%s.%s", configuration.LuaTrafficRoutingCustomTypePrefix, kind, cuGenGroup)] = rt.script
		}
		if r.Obj != nil {
			u := r.Obj.build(av, kind, rt.name)
			d := cuDataOf(u.DeepCopy())
			rt.orig = &d
			if err := cli.Create(ctx, u); err != nil {
				panic(fmt.Sprintf("create %s: %v", rt.name, err))
			}
		}
		conf.TrafficConf = append(conf.TrafficConf, v1beta1.ObjectRef{APIVersion: av, Kind: kind, Name: rt.name})
		rts[i] = rt
	}
	if err := cli.Create(ctx, cm); err != nil {
		panic(err)
	}
	snapshot := func() []interface{} {
		out := make([]interface{}, len(rts))
		for i, rt := range rts {
			u := &unstructured.Unstructured{}
			u.SetAPIVersion(rt.apiVersion)
			u.SetKind(rt.kind)
			err := cli.Get(ctx, types.NamespacedName{Namespace: cuNs, Name: rt.name}, u)
			if errors.IsNotFound(err) {
				out[i] = nil
				continue
			}
			if err != nil {
				panic(err)
			}
			out[i] = cuObj(u)
		}
		return out
	}
	same := func(a, b []interface{}) bool {
		x, _ := json.Marshal(a)
		y, _ := json.Marshal(b)
		return string(x) == string(y)
	}
	ctrl, _ := custom.NewCustomController(cli, conf)
	steps := []interface{}{}
	for si := range in.Steps {
		strategy := in.Steps[si].build()
		done, err := ctrl.EnsureRoutes(ctx, strategy)
		objs := snapshot()
		done2, err2 := ctrl.EnsureRoutes(ctx, strategy)
		objs2 := snapshot()
		fresh := make([]interface{}, len(rts))
		for i, rt := range rts {
			if rt.orig == nil || !rt.hasScript {
				fresh[i] = nil
				continue
			}
			d, ferr := custom.VerifExecuteLuaForCanary(conf, *rt.orig, strategy, rt.script)
			if ferr != nil {
				fresh[i] = "err"
			} else {
				fresh[i] = cuData(d)
			}
		}
		steps = append(steps, J{"res": cuRes(done, err), "objs": objs, "res2": cuRes(done2, err2), "same2": same(objs, objs2), "fresh": fresh})
	}
	mod, err := ctrl.Finalise(ctx)
	fobjs := snapshot()
	mod2, err2 := ctrl.Finalise(ctx)
	fobjs2 := snapshot()
	return J{"steps": steps, "fin": J{"res": cuRes(mod, err), "objs": fobjs}, "fin2": J{"res": cuRes(mod2, err2), "same": same(fobjs, fobjs2)}}
}

// ------------------------------------------------------------------ op script

type cuScriptIn struct {
	Kind     string       `json:"kind"`
	Gen      *cuGenScript `json:"gen"`
	Stable   string       `json:"stable"`
	Canary   string       `json:"canary"`
	Data     struct {
		Spec        interface{}       `json:"spec"`
		Labels      map[string]string `json:"labels"`
		Annotations map[string]string `json:"annotations"`
	} `json:"data"`
	Strategy cuStrategyIn `json:"strategy"`
}

func cuRunScript(raw json.RawMessage) interface{} {
	var in cuScriptIn
	if err := json.Unmarshal(raw, &in); err != nil {
		panic(err)
	}
	ref := cuRefIn{Kind: in.Kind, Gen: in.Gen}
	script, _ := ref.scriptText()
	// the Data as the provider would have it: through the JSON round trip (nil maps when empty)
	d0 := custom.Data{Spec: in.Data.Spec, Labels: in.Data.Labels, Annotations: in.Data.Annotations}
	var d custom.Data
	_ = json.Unmarshal([]byte(util.DumpJSON(d0)), &d)
	conf := custom.Config{RolloutNs: cuNs, StableService: in.Stable, CanaryService: in.Canary}
	out, err := custom.VerifExecuteLuaForCanary(conf, d, in.Strategy.build(), script)
	if err != nil {
		return "err"
	}
	return cuData(out)
}

// ------------------------------------------------------------------ generators

// strict: only strategies the API server admits (match types present and valid: the CRDs default
// and enumerate them).  Outside of that the VirtualService script reads a stale global and is not
// deterministic, which is outside C15's environment assumption.
type cuGen struct {
	c      *Ctx
	strict bool
}

func (g cuGen) n(k int) int       { return g.c.Rng.Intn(k) }
func (g cuGen) p(pct int) bool    { return g.c.Rng.Intn(100) < pct }
func (g cuGen) pick(xs ...string) string { return xs[g.n(len(xs))] }

var cuKeys = []string{"a", "b", "c", "app", "version", "x/y", "istio.io/rev"}
var cuVals = []string{"", "v1", "v2", "gray", "a<b>&c", "héllo", "20", "true"}

func (g cuGen) strMap() interface{} {
	switch {
	case g.p(25):
		return nil
	case g.p(12):
		return J{}
	}
	m := J{}
	for i, k := 0, 1+g.n(3); i < k; i++ {
		m[cuKeys[g.n(len(cuKeys))]] = cuVals[g.n(len(cuVals))]
	}
	return m
}

// noise: arbitrary nested JSON with the shapes the Lua trip is sensitive to.
func (g cuGen) noise(depth int) interface{} {
	switch r := g.n(12); {
	case r == 0:
		return nil
	case r == 1:
		return J{}
	case r == 2:
		return []interface{}{}
	case r == 3:
		return g.p(50)
	case r <= 5:
		return g.n(200) - 20
	case r <= 7:
		return cuVals[g.n(len(cuVals))]
	case r <= 9 && depth > 0:
		m := J{}
		for i, k := 0, g.n(3); i < k; i++ {
			m[cuKeys[g.n(len(cuKeys))]] = g.noise(depth - 1)
		}
		return m
	case depth > 0:
		l := []interface{}{}
		for i, k := 0, g.n(3); i < k; i++ {
			l = append(l, g.noise(depth-1))
		}
		return l
	}
	return "leaf"
}

func (g cuGen) addNoise(m J, pct int) {
	for _, k := range []string{"timeout", "retries", "extra", "zz"} {
		if g.p(pct) {
			m[k] = g.noise(2)
		}
	}
}

func (g cuGen) host(stable, canary string) interface{} {
	switch r := g.n(20); {
	case r < 8:
		return stable
	case r < 11:
		return stable + ".ns.svc.cluster.local"
	case r < 13:
		return stable + "x"
	case r < 16:
		return "other"
	case r < 17:
		return "other.ns.svc"
	case r < 18:
		return canary
	case r < 19:
		return "." + stable
	}
	return ""
}

func (g cuGen) dest(stable, canary string, malformed bool) interface{} {
	d := J{"host": g.host(stable, canary)}
	if g.p(25) {
		d["subset"] = g.pick("v1", "v2", "canary")
	}
	if g.p(15) {
		d["port"] = J{"number": 80 + g.n(3)}
	}
	r := J{"destination": d}
	if g.p(45) {
		r["weight"] = []int{0, 1, 10, 20, 33, 50, 67, 80, 90, 99, 100, 100, 100}[g.n(13)]
	}
	if g.p(8) {
		r["headers"] = g.noise(1)
	}
	if malformed {
		switch g.n(8) {
		case 0:
			delete(r, "destination")
		case 1:
			delete(d, "host")
		case 2:
			r["destination"] = nil
		case 3:
			return "dest"
		case 4:
			d["host"] = nil
		case 5:
			r["destination"] = "str"
		case 6:
			r["weight"] = nil
		case 7:
			return J{}
		}
	}
	return r
}

func (g cuGen) rule(stable, canary string, malformed bool) interface{} {
	r := J{}
	if g.p(20) {
		r["name"] = g.pick("primary", "r1", "r2")
	}
	if g.p(25) {
		switch g.n(6) {
		case 0:
			r["match"] = []interface{}{}
		case 1:
			r["match"] = nil
		case 2:
			r["match"] = false
		default:
			r["match"] = []interface{}{J{"uri": J{"prefix": "/api"}}}
		}
	}
	nd := []int{1, 1, 1, 1, 1, 2, 2, 3, 0}[g.n(9)]
	routes := []interface{}{}
	for i := 0; i < nd; i++ {
		routes = append(routes, g.dest(stable, canary, malformed && g.p(30)))
	}
	r["route"] = routes
	g.addNoise(r, 10)
	if malformed {
		switch g.n(8) {
		case 0:
			delete(r, "route")
			r["redirect"] = J{"uri": "/v2"}
		case 1:
			r["route"] = nil
		case 2:
			r["route"] = J{}
		case 3:
			r["route"] = J{"a": 1}
		case 4:
			r["route"] = "str"
		case 5:
			return "rule"
		case 6:
			return []interface{}{}
		case 7:
			return nil
		}
	}
	return r
}

func (g cuGen) rules(stable, canary string, malformed bool) interface{} {
	if malformed {
		switch g.n(10) {
		case 0:
			return "http"
		case 1:
			return J{"a": 1}
		case 2:
			return J{}
		case 3:
			return 7
		case 4:
			return nil
		}
	}
	n := []int{0, 1, 1, 1, 2, 2, 3}[g.n(7)]
	l := []interface{}{}
	for i := 0; i < n; i++ {
		l = append(l, g.rule(stable, canary, malformed && g.p(35)))
	}
	return l
}

// vsSpec: []interface{}{} (absent) or []interface{}{spec}.
func (g cuGen) vsSpec(stable, canary string) []interface{} {
	malformed := g.p(18)
	if malformed {
		switch g.n(14) {
		case 0:
			return []interface{}{}
		case 1:
			return []interface{}{nil}
		case 2:
			return []interface{}{"spec"}
		case 3:
			return []interface{}{[]interface{}{1, 2}}
		case 4:
			return []interface{}{5}
		case 5:
			return []interface{}{J{}}
		case 6:
			return []interface{}{true}
		}
	}
	s := J{"hosts": []interface{}{stable + ".example.com"}}
	if g.p(90) {
		s["http"] = g.rules(stable, canary, malformed)
	}
	if g.p(15) {
		s["tcp"] = g.rules(stable, canary, malformed)
	}
	if g.p(10) {
		s["tls"] = g.rules(stable, canary, malformed)
	}
	if g.p(20) {
		s["gateways"] = g.noise(1)
	}
	g.addNoise(s, 12)
	return []interface{}{s}
}

func (g cuGen) drSpec() []interface{} {
	if g.p(10) {
		switch g.n(6) {
		case 0:
			return []interface{}{}
		case 1:
			return []interface{}{nil}
		case 2:
			return []interface{}{"spec"}
		case 3:
			return []interface{}{[]interface{}{}}
		case 4:
			return []interface{}{3}
		case 5:
			return []interface{}{J{}}
		}
	}
	s := J{"host": "mockb"}
	switch r := g.n(20); {
	case r < 14:
		l := []interface{}{}
		for i, k := 0, g.n(3); i < k; i++ {
			sub := J{"name": g.pick("version-base", "v1", "v2")}
			if g.p(80) {
				sub["labels"] = g.strMap()
			}
			l = append(l, sub)
		}
		s["subsets"] = l
	case r < 15:
		s["subsets"] = J{}
	case r < 16:
		s["subsets"] = J{"a": 1}
	case r < 17:
		s["subsets"] = "str"
	case r < 18:
		s["subsets"] = nil
	case r < 19:
		s["subsets"] = []interface{}{nil}
	}
	if g.p(40) {
		s["trafficPolicy"] = J{"loadBalancer": J{"simple": "ROUND_ROBIN"}}
	}
	g.addNoise(s, 12)
	return []interface{}{s}
}

var cuSpecKeys = []string{"weight", "list", "name", "backend", "opts"}

func (g cuGen) genSpec() []interface{} {
	switch r := g.n(20); {
	case r == 0:
		return []interface{}{}
	case r == 1:
		return []interface{}{nil}
	case r == 2:
		return []interface{}{J{}}
	}
	s := J{}
	for i, k := 0, 1+g.n(4); i < k; i++ {
		key := cuSpecKeys[g.n(len(cuSpecKeys))]
		if key == "list" && g.p(70) {
			l := []interface{}{}
			for j, m := 0, g.n(3); j < m; j++ {
				l = append(l, g.n(50))
			}
			s[key] = l
		} else {
			s[key] = g.noise(2)
		}
	}
	return []interface{}{s}
}

func (g cuGen) val(strOnly bool) interface{} {
	if strOnly || g.p(50) {
		switch g.n(5) {
		case 0:
			return J{"kind": "weightStr"}
		case 1:
			return J{"kind": "canarySvc"}
		case 2:
			return J{"kind": "stableSvc"}
		default:
			return J{"kind": "str", "s": g.pick("v1", "gray", "x-y", "", "on")}
		}
	}
	switch g.n(4) {
	case 0:
		return J{"kind": "weight"}
	case 1:
		return J{"kind": "stableWeight"}
	default:
		return J{"kind": "int", "n": g.n(120) - 10}
	}
}

func (g cuGen) stmt(depth int) interface{} {
	lk := cuKeys[g.n(len(cuKeys))]
	sk := cuSpecKeys[g.n(len(cuSpecKeys))]
	switch r := g.n(40); {
	case r < 4:
		return J{"op": "ensureSpec"}
	case r < 14:
		return J{"op": "setSpec", "k": sk, "v": g.val(false)}
	case r < 16:
		return J{"op": "delSpec", "k": sk}
	case r < 20:
		return J{"op": "appendSpec", "k": g.pick("list", "list", "opts"), "v": g.val(false)}
	case r < 26:
		return J{"op": "setLabel", "k": lk, "v": g.val(!g.p(4))}
	case r < 28:
		return J{"op": "delLabel", "k": lk}
	case r < 29:
		return J{"op": "clearLabels"}
	case r < 34:
		return J{"op": "setAnn", "k": lk, "v": g.val(!g.p(4))}
	case r < 36:
		return J{"op": "delAnn", "k": lk}
	case r < 37:
		return J{"op": "clearAnns"}
	case r < 38:
		return J{"op": "failIfWeightGt", "n": []int{50, 80, 100}[g.n(3)]}
	case depth > 0:
		return J{"op": "onlyIfMatches", "st": g.stmt(depth - 1)}
	}
	return J{"op": "setSpec", "k": "weight", "v": J{"kind": "weight"}}
}

func (g cuGen) genScript() interface{} {
	stmts := []interface{}{}
	if g.p(70) {
		stmts = append(stmts, J{"op": "ensureSpec"})
	}
	for i, k := 0, g.n(5); i < k; i++ {
		stmts = append(stmts, g.stmt(1))
	}
	// scripts that hand back an EMPTY annotations / labels table (encoded as JSON null on the way back)
	if g.p(12) {
		stmts = append(stmts, J{"op": "clearAnns"})
	} else if g.p(6) {
		stmts = append(stmts, J{"op": "clearLabels"})
	}
	ret := "data"
	switch g.n(25) {
	case 0:
		ret = "number"
	case 1:
		ret = "empty"
	case 2:
		ret = "hostile"
	}
	return J{"stmts": stmts, "ret": ret}
}

func (g cuGen) traffic() interface{} {
	switch r := g.n(40); {
	case r < 4:
		return nil
	case r < 30:
		return J{"p": []int{0, 1, 5, 10, 20, 25, 33, 50, 75, 99, 100}[g.n(11)]}
	case r < 34:
		return J{"p": g.n(101)}
	case r < 35:
		return J{"p": 150}
	case r < 36:
		return J{"p": -1}
	case r < 37:
		return J{"p": -5}
	case r < 38:
		return J{"s": "20"}
	case r < 39:
		return J{"s": "abc"}
	}
	return J{"s": ""}
}

func (g cuGen) kvMatches(query bool) []interface{} {
	l := []interface{}{}
	for i, k := 0, 1+g.n(2); i < k; i++ {
		m := J{"name": g.pick("user-agent", "x-canary", "user", "", "X-Canary-User"), "value": g.pick("pc", "true", ".*demo", "")}
		switch r := g.n(20); {
		case r < 10:
			m["type"] = "Exact"
		case r < 16:
			m["type"] = "RegularExpression"
		case r < 18 && query:
			m["type"] = "Prefix"
		case r < 19 && !g.strict:
			m["type"] = nil
		default:
			m["type"] = "Exact"
		}
		l = append(l, m)
	}
	return l
}

func (g cuGen) strategy() interface{} {
	s := J{"traffic": g.traffic(), "matches": []interface{}{}, "hdrMod": nil}
	if g.p(22) {
		ms := []interface{}{}
		for i, k := 0, 1+g.n(2); i < k; i++ {
			m := J{"path": nil, "headers": []interface{}{}, "queryParams": []interface{}{}}
			if g.p(35) {
				p := J{"type": g.pick("PathPrefix", "Exact", "RegularExpression"), "value": g.pick("/api/v2", "/", "/a.*")}
				if g.p(8) {
					p["value"] = nil
				}
				if g.p(4) && !g.strict {
					p["type"] = nil
				}
				m["path"] = p
			}
			if g.p(70) {
				m["headers"] = g.kvMatches(false)
			}
			if g.p(25) {
				m["queryParams"] = g.kvMatches(true)
			}
			ms = append(ms, m)
		}
		s["matches"] = ms
	}
	if g.p(15) {
		h := J{"set": []interface{}{}, "add": []interface{}{}, "remove": []interface{}{}}
		for i, k := 0, g.n(3); i < k; i++ {
			h["set"] = append(h["set"].([]interface{}), []interface{}{g.pick("h1", "h2"), g.pick("v1", "v2", "")})
		}
		for i, k := 0, g.n(2); i < k; i++ {
			h["add"] = append(h["add"].([]interface{}), []interface{}{g.pick("h3", "h1"), g.pick("v1", "v2")})
		}
		for i, k := 0, g.n(2); i < k; i++ {
			h["remove"] = append(h["remove"].([]interface{}), g.pick("h5", "h6"))
		}
		s["hdrMod"] = h
	}
	return s
}

func (g cuGen) services() (string, string) {
	stable := g.pick("echoserver", "svc", "mockb")
	if g.p(12) {
		return stable, stable // DestinationRule mode: canary == stable
	}
	return stable, stable + "-canary"
}

func (g cuGen) obj(kind, stable, canary string) interface{} {
	var spec []interface{}
	switch kind {
	case "vs":
		spec = g.vsSpec(stable, canary)
	case "dr":
		spec = g.drSpec()
	default:
		spec = g.genSpec()
	}
	o := J{"spec": spec, "labels": g.strMap(), "annotations": g.strMap(), "orig": nil}
	if g.p(3) { // malformed stream: a stale / garbage original annotation is already there
		switch g.n(3) {
		case 0:
			o["orig"] = J{"raw": ""}
		case 1:
			o["orig"] = J{"raw": "xyz"}
		case 2:
			o["orig"] = J{"d": J{"spec": J{"stale": 1}, "labels": J{}, "annotations": J{"old": "1"}}}
		}
	}
	return o
}

func (g cuGen) ref(stable, canary string) interface{} {
	kind := []string{"vs", "vs", "vs", "dr", "gen", "gen"}[g.n(6)]
	r := J{"kind": kind, "gen": nil, "noScript": false, "obj": g.obj(kind, stable, canary)}
	if kind == "gen" {
		if g.p(4) {
			r["noScript"] = true
		} else {
			r["gen"] = g.genScript()
		}
	}
	if g.p(3) {
		r["obj"] = nil
	}
	return r
}

func (g cuGen) seq() interface{} {
	stable, canary := g.services()
	refs := []interface{}{}
	for i, k := 0, []int{1, 1, 1, 2, 2, 3}[g.n(6)]; i < k; i++ {
		refs = append(refs, g.ref(stable, canary))
	}
	steps := []interface{}{}
	for i, k := 0, []int{0, 1, 1, 2, 2, 3, 3, 4, 5}[g.n(9)]; i < k; i++ {
		steps = append(steps, g.strategy())
	}
	if len(steps) >= 2 && g.p(25) { // the same step twice in a row
		steps[len(steps)-1] = steps[len(steps)-2]
	}
	return J{"stable": stable, "canary": canary, "refs": refs, "steps": steps}
}

func (g cuGen) script() interface{} {
	stable, canary := g.services()
	kind := []string{"vs", "vs", "vs", "vs", "dr", "gen"}[g.n(6)]
	var spec []interface{}
	switch kind {
	case "vs":
		spec = g.vsSpec(stable, canary)
	case "dr":
		spec = g.drSpec()
	default:
		spec = g.genSpec()
	}
	var sv interface{}
	if len(spec) == 1 {
		sv = spec[0]
	}
	toMap := func(v interface{}) interface{} {
		if v == nil {
			return J{}
		}
		return v
	}
	in := J{"kind": kind, "gen": nil, "stable": stable, "canary": canary,
		"data":     J{"spec": sv, "labels": toMap(g.strMap()), "annotations": toMap(g.strMap())},
		"strategy": g.strategy()}
	if kind == "gen" {
		in["gen"] = g.genScript()
	}
	return in
}

// ------------------------------------------------------------------ entry points

func cuEmit(c *Ctx, op string, in interface{}) {
	raw, err := json.Marshal(in)
	if err != nil {
		panic(err)
	}
	cuEmitRaw(c, op, raw)
}

func cuEmitRaw(c *Ctx, op string, raw json.RawMessage) {
	var impl interface{}
	var inMark interface{}
	_ = json.Unmarshal(raw, &inMark)
	c.Begin(op, inMark) // death marker: if the process dies inside this case, the check names the case
	defer c.Done(0)
	// luamanager gives every script execution a wall-clock deadline of 1 s.  The scripts of this suite run in
	// well under a millisecond, but on a machine that is starved of CPU a script can be descheduled for longer
	// than that, and EnsureRoutes then fails for a reason that is outside this property (C16 owns the
	// deadline).  A case that took a second or more is therefore run again (on a fresh API server).
	for try := 0; try < 4; try++ {
		t0 := time.Now()
		switch op {
		case "seq":
			impl = guard(func() interface{} { return cuRunSeq(raw) })
		case "script":
			impl = guard(func() interface{} { return cuRunScript(raw) })
		case "hist":
			impl = guard(func() interface{} { return cuRunHist(raw) })
		default:
			panic("custom: unknown op " + op)
		}
		if time.Since(t0) < time.Second {
			break
		}
	}
	var in interface{}
	_ = json.Unmarshal(raw, &in)
	c.Emit(op, in, impl)
}

func runCustom(c *Ctx) {
	g := cuGen{c: c}
	gs := cuGen{c: c, strict: true}
	// deterministic small scope: every weight 0..100 and nil on the fixture-like VirtualService,
	// single stable destination with weight absent / 100.
	for _, w := range append([]interface{}{nil}, cuAllWeights()...) {
		for _, wt := range []interface{}{nil, 100} {
			d := J{"destination": J{"host": "echoserver"}}
			if wt != nil {
				d["weight"] = wt
			}
			spec := J{"hosts": []interface{}{"echoserver.example.com"}, "http": []interface{}{
				J{"route": []interface{}{d}},
				J{"route": []interface{}{J{"destination": J{"host": "other"}, "weight": 100}}},
				J{"match": []interface{}{J{"uri": J{"prefix": "/x"}}}, "route": []interface{}{J{"destination": J{"host": "echoserver"}}}}}}
			cuEmit(c, "script", J{"kind": "vs", "gen": nil, "stable": "echoserver", "canary": "echoserver-canary",
				"data":     J{"spec": spec, "labels": J{}, "annotations": J{"virtual": "test"}},
				"strategy": J{"traffic": w, "matches": []interface{}{}, "hdrMod": nil}})
		}
	}
	nSeq := c.N * 2 / 5
	for i := 0; i < nSeq; i++ {
		cuEmit(c, "seq", gs.seq())
	}
	for i := nSeq; i < c.N; i++ {
		cuEmit(c, "script", g.script())
	}
	// histories with foreign events and API faults (suite_custom_hist.go)
	nHist := c.N / 4
	if c.Thorough() {
		nHist = c.N / 8
	}
	for i := 0; i < nHist; i++ {
		cuEmit(c, "hist", gs.hist())
	}
}

func cuAllWeights() []interface{} {
	out := []interface{}{}
	for p := 0; p <= 100; p++ {
		out = append(out, J{"p": p})
	}
	return out
}

func replayCustom(c *Ctx, op string, in json.RawMessage) { cuEmitRaw(c, op, in) }

var _ = sort.Strings
var _ client.Client
