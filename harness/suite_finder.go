package main

// Suite "finder": the real util.ControllerFinder (GetWorkloadForRef, the five kind-specific finders, the
// ReplicaSet / canary-Deployment helpers, verifyGroupKind) on generated clusters held by the controller-runtime
// fake client, against the Lean model RV.Finder.  The input is the abstract cluster of the model; this file
// concretises it into real Kubernetes objects and canonicalises what the finder returns.

import (
	"context"
	"encoding/json"
	"errors"
	"flag"
	"fmt"
	"sort"
	"strconv"
	"strings"
	"time"

	kruisev1alpha1 "github.com/openkruise/kruise-api/apps/v1alpha1"
	kruisev1beta1 "github.com/openkruise/kruise-api/apps/v1beta1"
	"github.com/openkruise/rollouts/api/v1beta1"
	"github.com/openkruise/rollouts/pkg/util"
	appsv1 "k8s.io/api/apps/v1"
	corev1 "k8s.io/api/core/v1"
	metav1 "k8s.io/apimachinery/pkg/apis/meta/v1"
	"k8s.io/apimachinery/pkg/apis/meta/v1/unstructured"
	"k8s.io/apimachinery/pkg/runtime/schema"
	"k8s.io/apimachinery/pkg/types"
	"sigs.k8s.io/controller-runtime/pkg/client"
)

func init() { register("finder", runFinder, replayFinder) }

// ---- abstract input (mirrors RV.Finder) ----

type fdMeta struct {
	NS         string `json:"ns"`
	Name       string `json:"name"`
	UID        string `json:"uid"`
	Generation int    `json:"generation"`
	InProgress bool   `json:"inProgress"`
	Deleting   bool   `json:"deleting"`
	Created    int    `json:"created"`
	// harness only: the value of the in-progress annotation (never read by the finder)
	AnnoVal string `json:"annoVal,omitempty"`
}

type fdCloneSet struct {
	M                  fdMeta `json:"m"`
	ObservedGeneration int    `json:"observedGeneration"`
	Replicas           *int   `json:"replicas"`
	CurrentRevision    string `json:"currentRevision"`
	UpdateRevision     string `json:"updateRevision"`
	UpdatedReplicas    int    `json:"updatedReplicas"`
	StatusReplicas     int    `json:"statusReplicas"`
}

type fdDaemonSet struct {
	M                  fdMeta `json:"m"`
	ObservedGeneration int    `json:"observedGeneration"`
	DaemonSetHash      string `json:"daemonSetHash"`
	Desired            int    `json:"desired"`
	Updated            int    `json:"updated"`
}

type fdSel struct {
	T string `json:"t"` // nil | invalid | everything | app
	V string `json:"v"`
}

type fdDeployment struct {
	M                  fdMeta  `json:"m"`
	ObservedGeneration int     `json:"observedGeneration"`
	Replicas           *int    `json:"replicas"`
	Selector           fdSel   `json:"selector"`
	Template           int     `json:"template"`
	TemplateHash       string  `json:"templateHash"` // util.ComputeHash of the concrete template; filled by fdNormalize
	StableLabel        string  `json:"stableLabel"`
	CanaryOf           *string `json:"canaryOf"`
	StatusReplicas     int     `json:"statusReplicas"`
	UpdatedReplicas    int     `json:"updatedReplicas"`
	// harness only: a pod-template-hash label inside the template (EqualIgnoreHash must ignore it)
	TplHashLabel string `json:"tplHashLabel,omitempty"`
}

type fdReplicaSet struct {
	M         fdMeta  `json:"m"`
	App       *string `json:"app"`
	HashLabel string  `json:"hashLabel"`
	Owner     *string `json:"owner"`
	Replicas  *int    `json:"replicas"`
	Template  int     `json:"template"`
	Revision  *int    `json:"revision"` // strconv.Atoi of RevAnno; filled by fdNormalize
	// harness only
	RevAnno      *string `json:"revAnno"`                // raw annotation deployment.kubernetes.io/revision
	Decoy        string  `json:"decoy,omitempty"`        // UID of an extra owner reference that is not the controller
	TplHashLabel string  `json:"tplHashLabel,omitempty"` // pod-template-hash label inside the template
}

type fdSts struct {
	M                  fdMeta `json:"m"`
	ObservedGeneration int    `json:"observedGeneration"`
	Replicas           *int   `json:"replicas"`
	CurrentRevision    string `json:"currentRevision"`
	UpdateRevision     string `json:"updateRevision"`
	UpdatedReplicas    int    `json:"updatedReplicas"`
	StatusReplicas     int    `json:"statusReplicas"`
}

// fdUF: a field of an unstructured object. JSON: null = absent, "wrong" = present with another type, {"v":x} = present.
type fdUF struct {
	State string      // "", "wrong", "val"
	V     interface{} // int or string
	// harness only: which wrong value to store
}

func (u fdUF) MarshalJSON() ([]byte, error) {
	switch u.State {
	case "":
		return []byte("null"), nil
	case "wrong":
		return []byte(`"wrong"`), nil
	}
	return json.Marshal(J{"v": u.V})
}

func (u *fdUF) UnmarshalJSON(b []byte) error {
	var x interface{}
	if err := json.Unmarshal(b, &x); err != nil {
		return err
	}
	switch v := x.(type) {
	case nil:
		*u = fdUF{}
	case string:
		*u = fdUF{State: "wrong"}
	case map[string]interface{}:
		val := v["v"]
		if f, ok := val.(float64); ok {
			val = int(f)
		}
		*u = fdUF{State: "val", V: val}
	default:
		return fmt.Errorf("bad UF %s", string(b))
	}
	return nil
}

type fdGVK struct {
	Group   string `json:"group"`
	Version string `json:"version"`
	Kind    string `json:"kind"`
}

type fdUnstr struct {
	GVK                fdGVK  `json:"gvk"`
	M                  fdMeta `json:"m"`
	SpecReplicas       fdUF   `json:"specReplicas"`
	ObservedGeneration fdUF   `json:"observedGeneration"`
	StatusReplicas     fdUF   `json:"statusReplicas"`
	UpdatedReplicas    fdUF   `json:"updatedReplicas"`
	UpdateRevision     fdUF   `json:"updateRevision"`
	CurrentRevision    fdUF   `json:"currentRevision"`
	// harness only: "" = status is a map; "absent" / "string" = no status block / a status that is not a map
	// (then every status field above is absent)
	StatusShape string `json:"statusShape,omitempty"`
	// harness only: which value of another JSON type a "wrong" field carries (0 string/number, 1 float/bool, 2 map)
	WrongKind int `json:"wrongKind,omitempty"`
}

type fdCluster struct {
	CloneSets      []fdCloneSet   `json:"cloneSets"`
	DaemonSets     []fdDaemonSet  `json:"daemonSets"`
	Deployments    []fdDeployment `json:"deployments"`
	ReplicaSets    []fdReplicaSet `json:"replicaSets"`
	NativeSts      []fdSts        `json:"nativeSts"`
	KruiseSts      []fdSts        `json:"kruiseSts"`
	Unstructured   []fdUnstr      `json:"unstructured"`
	FailGet        []string       `json:"failGet"`
	FailListRS     *int           `json:"failListRS"`
	FailListDeploy bool           `json:"failListDeploy"`
	Filter         bool           `json:"filter"`
}

type fdRef struct {
	APIVersion string `json:"apiVersion"`
	Kind       string `json:"kind"`
	Name       string `json:"name"`
}

type fdStrategy struct {
	BlueGreen bool  `json:"blueGreen"`
	Canary    *bool `json:"canary"`
}

type fdIn struct {
	C        fdCluster  `json:"c"`
	Strategy fdStrategy `json:"strategy"`
	NS       string     `json:"ns"`
	Ref      fdRef      `json:"ref"`
	// op "one": which finder; ops "stableRs" / "rss" / "canary" / "findcs": Ref.Name names the Deployment in NS
	Finder string `json:"finder,omitempty"`
	Nth    int    `json:"nth,omitempty"`
	// op "vgk"
	Kind   string   `json:"kind"`
	Groups []string `json:"groups"`
}

// ---- concretisation ----

const fdFinalizer = "verif/foreign"

var fdEpoch = time.Unix(1700000000, 0)

func fdObjectMeta(m fdMeta) metav1.ObjectMeta {
	om := metav1.ObjectMeta{Namespace: m.NS, Name: m.Name, UID: types.UID(m.UID), Generation: int64(m.Generation),
		CreationTimestamp: metav1.NewTime(fdEpoch.Add(time.Duration(m.Created) * time.Second))}
	om.Annotations = map[string]string{"verif/other": "x"}
	if m.InProgress {
		om.Annotations[util.InRolloutProgressingAnnotation] = m.AnnoVal
	}
	om.Labels = map[string]string{}
	if m.Deleting {
		now := metav1.NewTime(fdEpoch.Add(time.Hour))
		om.DeletionTimestamp = &now
		om.Finalizers = []string{fdFinalizer}
	}
	return om
}

func fdI32(p *int) *int32 {
	if p == nil {
		return nil
	}
	v := int32(*p)
	return &v
}

// fdTemplate: the pod template of abstract id `id`; two templates are EqualIgnoreHash iff their ids agree.
func fdTemplate(id int, hashLabel string) corev1.PodTemplateSpec {
	t := corev1.PodTemplateSpec{}
	t.Labels = map[string]string{"app": "demo"}
	if hashLabel != "" {
		t.Labels[appsv1.DefaultDeploymentUniqueLabelKey] = hashLabel
	}
	t.Spec.Containers = []corev1.Container{{Name: "main", Image: "img:v" + strconv.Itoa(id)}}
	return t
}

func fdSelector(s fdSel) *metav1.LabelSelector {
	switch s.T {
	case "nil":
		return nil
	case "invalid":
		return &metav1.LabelSelector{MatchExpressions: []metav1.LabelSelectorRequirement{{Key: "app", Operator: "Bogus", Values: []string{"x"}}}}
	case "everything":
		return &metav1.LabelSelector{}
	}
	return &metav1.LabelSelector{MatchLabels: map[string]string{"app": s.V}}
}

func fdBuildDeployment(d fdDeployment) *appsv1.Deployment {
	o := &appsv1.Deployment{ObjectMeta: fdObjectMeta(d.M)}
	o.Spec.Replicas = fdI32(d.Replicas)
	o.Spec.Selector = fdSelector(d.Selector)
	o.Spec.Template = fdTemplate(d.Template, d.TplHashLabel)
	if d.StableLabel != "" {
		o.Labels[v1alpha1StableRevisionLabel] = d.StableLabel
	}
	if d.CanaryOf != nil {
		o.Labels[util.CanaryDeploymentLabel] = *d.CanaryOf
	}
	o.Status.ObservedGeneration = int64(d.ObservedGeneration)
	o.Status.Replicas, o.Status.UpdatedReplicas = int32(d.StatusReplicas), int32(d.UpdatedReplicas)
	return o
}

const v1alpha1StableRevisionLabel = "rollouts.kruise.io/stable-revision"

func fdBuildReplicaSet(r fdReplicaSet) *appsv1.ReplicaSet {
	o := &appsv1.ReplicaSet{ObjectMeta: fdObjectMeta(r.M)}
	if r.App != nil {
		o.Labels["app"] = *r.App
	}
	if r.HashLabel != "" {
		o.Labels[appsv1.DefaultDeploymentUniqueLabelKey] = r.HashLabel
	}
	if r.Decoy != "" {
		o.OwnerReferences = append(o.OwnerReferences, metav1.OwnerReference{APIVersion: "apps/v1", Kind: "Deployment", Name: "decoy", UID: types.UID(r.Decoy)})
	}
	if r.Owner != nil {
		yes := true
		o.OwnerReferences = append(o.OwnerReferences, metav1.OwnerReference{APIVersion: "apps/v1", Kind: "Deployment", Name: "owner", UID: types.UID(*r.Owner), Controller: &yes})
	}
	if r.RevAnno != nil {
		o.Annotations[util.DeploymentRevisionAnnotation] = *r.RevAnno
	}
	o.Spec.Replicas = fdI32(r.Replicas)
	o.Spec.Template = fdTemplate(r.Template, r.TplHashLabel)
	return o
}

func fdWrong(kind int, str bool) interface{} {
	switch kind % 3 {
	case 0:
		if str {
			return int64(7)
		}
		return "three"
	case 1:
		if str {
			return true
		}
		return 2.5
	}
	return map[string]interface{}{"x": "y"}
}

func fdBuildUnstr(u fdUnstr) *unstructured.Unstructured {
	meta := map[string]interface{}{"namespace": u.M.NS, "name": u.M.Name, "uid": u.M.UID, "generation": int64(u.M.Generation),
		"creationTimestamp": fdEpoch.Add(time.Duration(u.M.Created) * time.Second).UTC().Format(time.RFC3339)}
	annos := map[string]interface{}{"verif/other": "x"}
	if u.M.InProgress {
		annos[util.InRolloutProgressingAnnotation] = u.M.AnnoVal
	}
	meta["annotations"] = annos
	if u.M.Deleting {
		meta["deletionTimestamp"] = fdEpoch.Add(time.Hour).UTC().Format(time.RFC3339)
		meta["finalizers"] = []interface{}{fdFinalizer}
	}
	apiVersion := u.GVK.Version
	if u.GVK.Group != "" {
		apiVersion = u.GVK.Group + "/" + u.GVK.Version
	}
	obj := map[string]interface{}{"apiVersion": apiVersion, "kind": u.GVK.Kind, "metadata": meta}
	put := func(m map[string]interface{}, k string, f fdUF, str bool) {
		switch f.State {
		case "wrong":
			m[k] = fdWrong(u.WrongKind, str)
		case "val":
			if str {
				m[k] = f.V.(string)
			} else {
				m[k] = int64(f.V.(int))
			}
		}
	}
	spec := map[string]interface{}{}
	put(spec, "replicas", u.SpecReplicas, false)
	obj["spec"] = spec
	switch u.StatusShape {
	case "absent":
	case "string":
		obj["status"] = "not-a-map"
	default:
		st := map[string]interface{}{}
		put(st, "observedGeneration", u.ObservedGeneration, false)
		put(st, "replicas", u.StatusReplicas, false)
		put(st, "updatedReplicas", u.UpdatedReplicas, false)
		put(st, "updateRevision", u.UpdateRevision, true)
		put(st, "currentRevision", u.CurrentRevision, true)
		obj["status"] = st
	}
	return &unstructured.Unstructured{Object: obj}
}

func fdObjects(c fdCluster) []client.Object {
	var objs []client.Object
	for _, x := range c.CloneSets {
		o := &kruisev1alpha1.CloneSet{ObjectMeta: fdObjectMeta(x.M)}
		o.Spec.Replicas = fdI32(x.Replicas)
		o.Status.ObservedGeneration = int64(x.ObservedGeneration)
		o.Status.CurrentRevision, o.Status.UpdateRevision = x.CurrentRevision, x.UpdateRevision
		o.Status.UpdatedReplicas, o.Status.Replicas = int32(x.UpdatedReplicas), int32(x.StatusReplicas)
		objs = append(objs, o)
	}
	for _, x := range c.DaemonSets {
		o := &kruisev1alpha1.DaemonSet{ObjectMeta: fdObjectMeta(x.M)}
		o.Status.ObservedGeneration = int64(x.ObservedGeneration)
		o.Status.DaemonSetHash = x.DaemonSetHash
		o.Status.DesiredNumberScheduled, o.Status.UpdatedNumberScheduled = int32(x.Desired), int32(x.Updated)
		objs = append(objs, o)
	}
	for _, x := range c.Deployments {
		objs = append(objs, fdBuildDeployment(x))
	}
	for _, x := range c.ReplicaSets {
		objs = append(objs, fdBuildReplicaSet(x))
	}
	for _, x := range c.NativeSts {
		o := &appsv1.StatefulSet{ObjectMeta: fdObjectMeta(x.M)}
		o.Spec.Replicas = fdI32(x.Replicas)
		o.Status.ObservedGeneration = int64(x.ObservedGeneration)
		o.Status.CurrentRevision, o.Status.UpdateRevision = x.CurrentRevision, x.UpdateRevision
		o.Status.UpdatedReplicas, o.Status.Replicas = int32(x.UpdatedReplicas), int32(x.StatusReplicas)
		objs = append(objs, o)
	}
	for _, x := range c.KruiseSts {
		o := &kruisev1beta1.StatefulSet{ObjectMeta: fdObjectMeta(x.M)}
		o.Spec.Replicas = fdI32(x.Replicas)
		o.Status.ObservedGeneration = int64(x.ObservedGeneration)
		o.Status.CurrentRevision, o.Status.UpdateRevision = x.CurrentRevision, x.UpdateRevision
		o.Status.UpdatedReplicas, o.Status.Replicas = int32(x.UpdatedReplicas), int32(x.StatusReplicas)
		objs = append(objs, o)
	}
	for _, x := range c.Unstructured {
		objs = append(objs, fdBuildUnstr(x))
	}
	return objs
}

// fdNormalize fills the derived fields of the input: the real ComputeHash of every Deployment's template, the Atoi of
// every revision annotation, and "no status block ⇒ every status field absent".
func fdNormalize(in *fdIn) {
	for i := range in.C.Deployments {
		d := &in.C.Deployments[i]
		t := fdTemplate(d.Template, d.TplHashLabel)
		d.TemplateHash = util.ComputeHash(&t, nil)
	}
	for i := range in.C.ReplicaSets {
		r := &in.C.ReplicaSets[i]
		r.Revision = nil
		if r.RevAnno != nil {
			if n, err := strconv.Atoi(*r.RevAnno); err == nil {
				r.Revision = &n
			}
		}
	}
	for i := range in.C.Unstructured {
		u := &in.C.Unstructured[i]
		if u.StatusShape != "" {
			u.ObservedGeneration, u.StatusReplicas, u.UpdatedReplicas, u.UpdateRevision, u.CurrentRevision = fdUF{}, fdUF{}, fdUF{}, fdUF{}, fdUF{}
		}
	}
}

// ---- fault-injecting client ----

type fdClient struct {
	client.Client
	failGet        map[string]bool
	failListRS     int // -1 = never
	rsLists        int
	failListDeploy bool
}

var errFdInjected = errors.New("injected API fault")

func fdGetKind(obj client.Object) string {
	switch obj.(type) {
	case *kruisev1alpha1.CloneSet:
		return "CloneSet"
	case *kruisev1alpha1.DaemonSet:
		return "DaemonSet"
	case *appsv1.Deployment:
		return "Deployment"
	case *appsv1.ReplicaSet:
		return "ReplicaSet"
	case *appsv1.StatefulSet:
		return "StatefulSet"
	case *kruisev1beta1.StatefulSet:
		return "KruiseStatefulSet"
	case *unstructured.Unstructured:
		return "Unstructured"
	}
	return "?"
}

func (f *fdClient) Get(ctx context.Context, key client.ObjectKey, obj client.Object, opts ...client.GetOption) error {
	if f.failGet[fdGetKind(obj)] {
		return errFdInjected
	}
	return f.Client.Get(ctx, key, obj, opts...)
}

func (f *fdClient) List(ctx context.Context, list client.ObjectList, opts ...client.ListOption) error {
	switch list.(type) {
	case *appsv1.ReplicaSetList:
		n := f.rsLists
		f.rsLists++
		if f.failListRS >= 0 && n >= f.failListRS {
			return errFdInjected
		}
	case *appsv1.DeploymentList:
		if f.failListDeploy {
			return errFdInjected
		}
	}
	return f.Client.List(ctx, list, opts...)
}

func fdNewClient(c fdCluster, nth int) *fdClient {
	f := &fdClient{Client: fakeClient(fdObjects(c)...), failGet: map[string]bool{}, failListRS: -1, failListDeploy: c.FailListDeploy}
	for _, k := range c.FailGet {
		f.failGet[k] = true
	}
	if c.FailListRS != nil {
		f.failListRS = *c.FailListRS
	}
	f.rsLists = nth
	return f
}

// ---- canonical output ----

func fdW(w *util.Workload) J {
	return J{"name": w.Name, "kind": w.Kind, "generation": int(w.Generation), "replicas": int(w.Replicas),
		"stableRevision": w.StableRevision, "canaryRevision": w.CanaryRevision, "podTemplateHash": w.PodTemplateHash,
		"revisionLabelKey": w.RevisionLabelKey, "isInRollback": w.IsInRollback, "inRolloutProgressing": w.InRolloutProgressing,
		"isStatusConsistent": w.IsStatusConsistent}
}

func fdOut(w *util.Workload, err error) J {
	switch {
	case w == nil && err == nil:
		return J{"r": "nothing"}
	case w == nil:
		return J{"r": "err"}
	case err == nil:
		return J{"r": "wl", "w": fdW(w)}
	}
	return J{"r": "wlErr", "w": fdW(w)}
}

func fdSetFilter(on bool) {
	if err := flag.Set("filter-workload-type", strconv.FormatBool(on)); err != nil {
		panic(err)
	}
}

func fdRollout(in fdIn) *v1beta1.Rollout {
	ro := &v1beta1.Rollout{}
	ro.Namespace, ro.Name = in.NS, "rollout"
	ro.Spec.WorkloadRef = v1beta1.ObjectRef{APIVersion: in.Ref.APIVersion, Kind: in.Ref.Kind, Name: in.Ref.Name}
	if in.Strategy.BlueGreen {
		ro.Spec.Strategy.BlueGreen = &v1beta1.BlueGreenStrategy{}
	}
	if in.Strategy.Canary != nil {
		ro.Spec.Strategy.Canary = &v1beta1.CanaryStrategy{EnableExtraWorkloadForCanary: *in.Strategy.Canary}
	}
	return ro
}

// fdDeploymentOf fetches the concrete Deployment the helper ops work on (through the unfaulted client).
func fdDeploymentOf(cli *fdClient, in fdIn) *appsv1.Deployment {
	d := &appsv1.Deployment{}
	if err := cli.Client.Get(context.TODO(), types.NamespacedName{Namespace: in.NS, Name: in.Ref.Name}, d); err != nil {
		return nil
	}
	return d
}

func fdNameOrNil(o metav1.Object, isNil bool) interface{} {
	if isNil {
		return nil
	}
	return o.GetName()
}

func fdRun(op string, in fdIn, cli *fdClient) interface{} {
	fdSetFilter(in.C.Filter)
	defer fdSetFilter(true)
	finder := util.NewControllerFinder(cli)
	switch op {
	case "ref":
		ro := fdRollout(in)
		return fdOut(finder.GetWorkloadForRef(ro))
	case "one":
		f := finder.VerifFinder(in.Finder)
		ref := &v1beta1.ObjectRef{APIVersion: in.Ref.APIVersion, Kind: in.Ref.Kind, Name: in.Ref.Name}
		return fdOut(f(in.NS, ref))
	case "vgk":
		ref := &v1beta1.ObjectRef{APIVersion: in.Ref.APIVersion, Kind: in.Ref.Kind, Name: in.Ref.Name}
		ok, err := util.VerifVerifyGroupKind(ref, in.Kind, in.Groups)
		return J{"ok": ok, "err": err != nil}
	}
	d := fdDeploymentOf(cli, in)
	if d == nil {
		return J{"r": "noDeployment"}
	}
	switch op {
	case "rss":
		rss, err := finder.GetReplicaSetsForDeployment(d)
		if err != nil {
			return J{"r": "err"}
		}
		names := []string{}
		for _, rs := range rss {
			names = append(names, rs.Name)
		}
		sort.Strings(names)
		return J{"r": "ok", "names": names}
	case "stableRs":
		rs, err := finder.GetDeploymentStableRs(d)
		if err != nil {
			return J{"r": "err"}
		}
		return J{"r": "ok", "name": fdNameOrNil(rs, rs == nil)}
	case "canary":
		cd, err := finder.VerifGetLatestCanaryDeployment(d)
		if err != nil {
			return J{"r": "err"}
		}
		return J{"r": "ok", "name": fdNameOrNil(cd, cd == nil)}
	case "findcs":
		rss, err := finder.GetReplicaSetsForDeployment(d)
		if err != nil {
			return J{"r": "err"}
		}
		newRS, oldRS := util.FindCanaryAndStableReplicaSet(rss, d)
		return J{"r": "ok", "new": fdNameOrNil(newRS, newRS == nil), "old": fdNameOrNil(oldRS, oldRS == nil)}
	}
	panic("finder: unknown op " + op)
}

func fdCase(c *Ctx, op string, in fdIn) {
	fdNormalize(&in)
	cli := fdNewClient(in.C, in.Nth) // outside the guard: a cluster the fake client refuses is a harness bug, not an output
	impl := guard(func() interface{} { return fdRun(op, in, cli) })
	c.Emit(op, in, impl)
}

// ---- generator ----

type fdGen struct {
	c       *Ctx
	created []int // a pool of pairwise distinct creation times, handed out in random order
	round   int
	// this world is built around an unstructured custom resource (more non-string status fields)
	customResource bool
	uid     int
	malform bool // this case belongs to the malformed stream (nil replicas, wrong-typed fields, no strategy …)
}

func (g *fdGen) rnd(n int) int { return g.c.Rng.Intn(n) }
func (g *fdGen) p(pct int) bool { return g.c.Rng.Intn(100) < pct }
func (g *fdGen) pick(xs ...string) string { return xs[g.c.Rng.Intn(len(xs))] }

// nextCreated: creation times are pairwise distinct within one cluster (sort.Slice is not stable: with equal
// creationTimestamps the choice of the "oldest" ReplicaSet depends on the order the API returns them in)
func (g *fdGen) nextCreated() int {
	if len(g.created) == 0 {
		g.round++
		g.created = g.c.Rng.Perm(64)
	}
	v := g.created[0]
	g.created = g.created[1:]
	return (v + 64*g.round) * 7
}

func (g *fdGen) nextUID() string {
	g.uid++
	return "uid-" + strconv.Itoa(g.uid)
}

var fdNamespaces = []string{"ns1", "ns2"}

func (g *fdGen) meta(ns, name string) fdMeta {
	m := fdMeta{NS: ns, Name: name, UID: g.nextUID(), Generation: 1 + g.rnd(4), InProgress: g.p(60), Created: g.nextCreated()}
	if m.InProgress {
		m.AnnoVal = g.pick("", `{"rolloutName":"rollout"}`, "x")
	}
	m.Deleting = g.p(6)
	return m
}

// observed: mostly the generation itself, sometimes behind (skew), rarely ahead
func (g *fdGen) observed(gen int) int {
	switch {
	case g.p(85):
		return gen
	case g.p(80):
		return gen - 1
	}
	return gen + 1
}

func (g *fdGen) replicas() *int {
	if g.malform && g.p(25) {
		return nil
	}
	v := []int{0, 1, 2, 3, 5, 10, 100}[g.rnd(7)]
	return &v
}

var fdRevWords = []string{"", "abc", "6f8c", "wl-6f8c", "wl-7d9", "my-wl-6f8c", "my-wl-7d9", "wl-", "-", "-x", "--", "wl--z", "wl-é9", "ü-1"}

func (g *fdGen) revision() string { return fdRevWords[g.rnd(len(fdRevWords))] }

// revPair: current / update revision — equal (candidate rollback or steady state) or different
func (g *fdGen) revPair() (string, string) {
	a := g.revision()
	if g.p(45) {
		return a, a
	}
	return a, g.revision()
}

func (g *fdGen) counts() (updated, total int) {
	total = []int{0, 1, 3, 5, 10}[g.rnd(5)]
	if g.p(40) {
		return total, total
	}
	return g.rnd(total + 1), total
}

func (g *fdGen) cloneSet(ns, name string) fdCloneSet {
	m := g.meta(ns, name)
	cur, upd := g.revPair()
	u, t := g.counts()
	return fdCloneSet{M: m, ObservedGeneration: g.observed(m.Generation), Replicas: g.replicas(), CurrentRevision: cur, UpdateRevision: upd, UpdatedReplicas: u, StatusReplicas: t}
}

func (g *fdGen) daemonSet(ns, name string) fdDaemonSet {
	m := g.meta(ns, name)
	u, t := g.counts()
	return fdDaemonSet{M: m, ObservedGeneration: g.observed(m.Generation), DaemonSetHash: g.revision(), Desired: t, Updated: u}
}

func (g *fdGen) sts(ns, name string) fdSts {
	m := g.meta(ns, name)
	cur, upd := g.revPair()
	u, t := g.counts()
	return fdSts{M: m, ObservedGeneration: g.observed(m.Generation), Replicas: g.replicas(), CurrentRevision: cur, UpdateRevision: upd, UpdatedReplicas: u, StatusReplicas: t}
}

func (g *fdGen) ufInt(vals ...int) fdUF {
	switch {
	case g.p(15):
		return fdUF{}
	case g.p(8):
		return fdUF{State: "wrong"}
	}
	return fdUF{State: "val", V: vals[g.rnd(len(vals))]}
}

func (g *fdGen) ufStr(s string) fdUF {
	switch {
	case g.p(12):
		return fdUF{}
	case g.p(10) || (g.customResource && g.p(25)):
		// an ordinary input: a custom resource whose CRD does not pin the type of status.updateRevision /
		// currentRevision may carry a number, a bool or an object there (fdWrong)
		return fdUF{State: "wrong"}
	}
	return fdUF{State: "val", V: s}
}

func (g *fdGen) unstr(gvk fdGVK, ns, name string) fdUnstr {
	m := g.meta(ns, name)
	cur, upd := g.revPair()
	u, t := g.counts()
	x := fdUnstr{GVK: gvk, M: m, SpecReplicas: g.ufInt(0, 1, 3, 7), ObservedGeneration: g.ufInt(m.Generation, m.Generation, m.Generation, m.Generation-1),
		StatusReplicas: g.ufInt(t), UpdatedReplicas: g.ufInt(u), UpdateRevision: g.ufStr(upd), CurrentRevision: g.ufStr(cur), WrongKind: g.rnd(3)}
	if g.p(6) {
		x.StatusShape = g.pick("absent", "string")
	}
	return x
}

func (g *fdGen) selector(app string) fdSel {
	switch {
	case g.p(88):
		return fdSel{T: "app", V: app}
	case g.p(40):
		return fdSel{T: "everything"}
	case g.p(50):
		return fdSel{T: "app", V: "other"}
	case g.malform && g.p(50):
		return fdSel{T: "invalid"}
	case g.malform:
		return fdSel{T: "nil"}
	}
	return fdSel{T: "app", V: app}
}

var fdHashes = []string{"h1", "h2", "h3", "h4", "h5", ""}

func (g *fdGen) deployment(ns, name string, canaryOf *string) fdDeployment {
	m := g.meta(ns, name)
	u, t := g.counts()
	d := fdDeployment{M: m, ObservedGeneration: g.observed(m.Generation), Replicas: g.replicas(), Selector: g.selector("demo"), Template: 1 + g.rnd(4),
		CanaryOf: canaryOf, StatusReplicas: t, UpdatedReplicas: u}
	if g.p(55) {
		d.StableLabel = fdHashes[g.rnd(5)]
	}
	if g.p(10) {
		d.TplHashLabel = fdHashes[g.rnd(5)]
	}
	return d
}

// replicaSets of one Deployment (and strays): owners, selection, deletion, scale, template and revision order are varied.
// revMode 0: every ReplicaSet carries a distinct valid revision, unrelated to the creation order;
// revMode 1: revisions are non-decreasing in the creation order, some missing or unparsable (then the comparator
// of FindCanaryAndStableReplicaSet is the creation order and stays a strict order).
func (g *fdGen) replicaSets(d fdDeployment, prefix string, n int, revMode int) []fdReplicaSet {
	var out []fdReplicaSet
	for i := 0; i < n; i++ {
		m := g.meta(d.M.NS, prefix+strconv.Itoa(i))
		m.InProgress, m.AnnoVal = false, ""
		m.Deleting = g.p(10)
		if g.p(5) {
			m.NS = fdNamespaces[1-indexOf(fdNamespaces, d.M.NS)]
		}
		app := "demo"
		r := fdReplicaSet{M: m, HashLabel: fdHashes[g.rnd(len(fdHashes))], Template: 1 + g.rnd(4)}
		if g.p(90) {
			r.App = &app
		} else if g.p(50) {
			o := "other"
			r.App = &o
		}
		switch {
		case g.p(80):
			uid := d.M.UID
			r.Owner = &uid
		case g.p(50):
			uid := "uid-foreign"
			r.Owner = &uid
			if g.p(50) {
				r.Decoy = d.M.UID
			}
		default:
			if g.p(50) {
				r.Decoy = d.M.UID
			}
		}
		v := []int{0, 0, 1, 2, 3, 5}[g.rnd(6)]
		r.Replicas = &v
		if g.malform && g.p(12) {
			r.Replicas = nil
		}
		if g.p(30) {
			r.TplHashLabel = r.HashLabel
		}
		out = append(out, r)
	}
	// revisions
	if revMode == 0 {
		perm := g.c.Rng.Perm(n)
		for i := range out {
			s := strconv.Itoa(perm[i] + 1)
			if g.p(10) {
				s = "+" + s
			}
			out[i].RevAnno = &s
		}
	} else {
		idx := make([]int, n)
		for i := range idx {
			idx[i] = i
		}
		sort.Slice(idx, func(a, b int) bool { return out[idx[a]].M.Created < out[idx[b]].M.Created })
		rev := 1
		for _, i := range idx {
			switch {
			case g.p(60):
				s := strconv.Itoa(rev)
				out[i].RevAnno = &s
			case g.p(40):
				s := g.pick("", "x", "1.5", " 2")
				out[i].RevAnno = &s
			}
			if g.p(70) {
				rev++
			}
		}
	}
	return out
}

func indexOf(xs []string, s string) int {
	for i, x := range xs {
		if x == s {
			return i
		}
	}
	return 0
}

type fdRefKind struct{ api, kind string }

var fdGoodRefs = []fdRefKind{
	{"apps.kruise.io/v1alpha1", "CloneSet"}, {"apps/v1", "Deployment"}, {"apps/v1", "Deployment"}, {"apps/v1", "StatefulSet"},
	{"apps.kruise.io/v1beta1", "StatefulSet"}, {"apps.kruise.io/v1alpha1", "StatefulSet"}, {"apps.kruise.io/v1alpha1", "DaemonSet"},
}

var fdOddRefs = []fdRefKind{
	// another version of an owned group/kind
	{"apps.kruise.io/v1beta1", "CloneSet"}, {"apps/v1beta1", "Deployment"}, {"apps/v2", "StatefulSet"}, {"apps.kruise.io/v1beta1", "DaemonSet"},
	{"apps.kruise.io/v1", "StatefulSet"}, {"apps/", "Deployment"},
	// another group
	{"apps/v1", "CloneSet"}, {"apps.kruise.io/v1alpha1", "Deployment"}, {"extensions/v1beta1", "Deployment"}, {"apps/v1", "DaemonSet"},
	{"v1", "Deployment"}, {"/v1", "Deployment"}, {"", "Deployment"}, {"/", "CloneSet"},
	// another kind
	{"apps/v1", "deployment"}, {"apps/v1", "ReplicaSet"}, {"apps/v1beta2", "ReplicaSet"}, {"foo.io/v1", "Bar"}, {"v1", "Pod"}, {"apps/v1", ""},
	// malformed apiVersion
	{"a/b/c", "StatefulSet"}, {"apps/v1/", "Deployment"}, {"//", "CloneSet"},
}

// fdWorld generates a cluster around one ref.
func (g *fdGen) world() fdIn {
	in := fdIn{NS: "ns1"}
	g.created, g.round = nil, -1
	if g.p(10) {
		in.NS = "ns2"
	}
	g.malform = g.p(12)
	// style
	t, f := true, false
	switch {
	case g.malform && g.p(15):
		in.Strategy = fdStrategy{}
	case g.p(40):
		in.Strategy = fdStrategy{Canary: &t}
	case g.p(55):
		in.Strategy = fdStrategy{Canary: &f}
	case g.p(85):
		in.Strategy = fdStrategy{BlueGreen: true}
	default:
		in.Strategy = fdStrategy{BlueGreen: true, Canary: &t}
	}
	// ref
	rk := fdGoodRefs[g.rnd(len(fdGoodRefs))]
	if in.Strategy.BlueGreen && g.p(75) {
		rk = fdGoodRefs[g.rnd(3)] // what the blue-green style supports: CloneSet, Deployment
	}
	if g.p(16) {
		rk = fdOddRefs[g.rnd(len(fdOddRefs))]
	}
	// a StatefulSet-like custom resource the controllers only know as unstructured: a CRD kind (reached with the
	// workload-type filter off) or a known group/kind under a version without a typed object
	customResource := !in.Strategy.BlueGreen && g.p(7)
	if customResource {
		rk = []fdRefKind{{"foo.io/v1", "Bar"}, {"foo.io/v1", "Bar"}, {"apps.kruise.io/v1", "StatefulSet"}, {"apps/v2", "StatefulSet"}}[g.rnd(4)]
	}
	g.customResource = customResource
	in.Ref = fdRef{APIVersion: rk.api, Kind: rk.kind, Name: "wl"}
	in.C.Filter = !g.p(12)
	if customResource && rk.kind == "Bar" {
		in.C.Filter = false
	}
	if rk.kind == "deployment" {
		// with the filter off the kind goes to the API as it is; the fake client files objects by the lower-cased
		// plural and would answer with the typed Deployment, a real API server knows no kind "deployment"
		in.C.Filter = true
	}
	gv, gvErr := fdParseGV(rk.api)
	// objects: the kind the ref names, mostly present under the ref's name in the rollout's namespace
	place := func() (string, string) {
		switch {
		case g.p(90):
			return in.NS, "wl"
		case g.p(50):
			return fdNamespaces[1-indexOf(fdNamespaces, in.NS)], "wl"
		}
		return in.NS, "other"
	}
	add := func(kind string) {
		ns, name := place()
		switch kind {
		case "CloneSet":
			in.C.CloneSets = append(in.C.CloneSets, g.cloneSet(ns, name))
		case "DaemonSet":
			in.C.DaemonSets = append(in.C.DaemonSets, g.daemonSet(ns, name))
		case "StatefulSet":
			in.C.NativeSts = append(in.C.NativeSts, g.sts(ns, name))
		case "KruiseStatefulSet":
			in.C.KruiseSts = append(in.C.KruiseSts, g.sts(ns, name))
		case "Deployment":
			g.addDeploymentWorld(&in, ns, name)
		case "ReplicaSet":
			d := fdDeployment{M: fdMeta{NS: ns, UID: "uid-none"}}
			rs := g.replicaSets(d, "x", 1, 1)
			rs[0].M.Name, rs[0].M.NS = name, ns
			in.C.ReplicaSets = append(in.C.ReplicaSets, rs...)
		case "Unstructured":
			if gvErr == nil && gv.Version != "" && rk.kind != "" && !fdTypedGVK(gv.Group, gv.Version, rk.kind) &&
				!theScheme.Recognizes(schema.GroupVersionKind{Group: gv.Group, Version: gv.Version, Kind: rk.kind}) {
				// (a GVK the scheme knows as a typed object — apps/v1beta1 Deployment … — is stored typed by the fake client)
				in.C.Unstructured = append(in.C.Unstructured, g.unstr(fdGVK{gv.Group, gv.Version, rk.kind}, ns, name))
			}
		}
	}
	primary := map[string]string{"CloneSet": "CloneSet", "DaemonSet": "DaemonSet", "Deployment": "Deployment", "deployment": "Deployment", "ReplicaSet": "ReplicaSet"}[rk.kind]
	if rk.kind == "StatefulSet" {
		primary = "StatefulSet"
		if gvErr == nil && gv.Group == "apps.kruise.io" {
			primary = "KruiseStatefulSet"
		}
	}
	if primary != "" && g.p(95) {
		add(primary)
	}
	// an unstructured object under exactly the ref's GVK (reached for a version no typed object is registered under,
	// or for any kind when the filter is off)
	if customResource || g.p(35) {
		add("Unstructured")
	}
	// objects of other kinds under the same name: the finder must not pick them up
	for _, k := range []string{"CloneSet", "DaemonSet", "Deployment", "StatefulSet", "KruiseStatefulSet", "ReplicaSet"} {
		if k != primary && g.p(14) {
			add(k)
		}
	}
	// faults
	if g.p(7) {
		in.C.FailGet = append(in.C.FailGet, g.pick("CloneSet", "DaemonSet", "Deployment", "ReplicaSet", "StatefulSet", "KruiseStatefulSet", "Unstructured"))
		if g.p(30) {
			in.C.FailGet = append(in.C.FailGet, g.pick("CloneSet", "Deployment", "Unstructured"))
		}
	}
	if g.p(6) {
		k := g.rnd(3)
		in.C.FailListRS = &k
	}
	in.C.FailListDeploy = g.p(4)
	fdDedup(&in.C)
	return in
}

// addDeploymentWorld: a (stable) Deployment, its ReplicaSets, canary Deployments with their ReplicaSets, strays.
func (g *fdGen) addDeploymentWorld(in *fdIn, ns, name string) {
	d := g.deployment(ns, name, nil)
	d.M.InProgress = g.p(75)
	revMode := g.rnd(2)
	nrs := []int{0, 1, 2, 2, 3, 3, 4, 5}[g.rnd(8)]
	rss := g.replicaSets(d, name+"-rs", nrs, revMode)
	// make a rollback / a matching template likely: the oldest or a random ReplicaSet gets the Deployment's template
	if nrs > 0 && g.p(45) {
		rss[g.rnd(nrs)].Template = d.Template
	}
	if nrs > 0 && d.StableLabel != "" && g.p(40) {
		rss[g.rnd(nrs)].HashLabel = d.StableLabel
	}
	in.C.Deployments = append(in.C.Deployments, d)
	in.C.ReplicaSets = append(in.C.ReplicaSets, rss...)
	ncan := []int{0, 0, 1, 1, 1, 2, 3}[g.rnd(7)]
	for i := 0; i < ncan; i++ {
		of := name
		if g.p(8) {
			of = "other"
		}
		cns := ns
		if g.p(5) {
			cns = fdNamespaces[1-indexOf(fdNamespaces, ns)]
		}
		cd := g.deployment(cns, name+"-canary"+strconv.Itoa(i), &of)
		cd.M.Deleting = g.p(20)
		cd.Template = d.Template
		in.C.Deployments = append(in.C.Deployments, cd)
		in.C.ReplicaSets = append(in.C.ReplicaSets, g.replicaSets(cd, cd.M.Name+"-rs", []int{0, 1, 1, 1, 2}[g.rnd(5)], 1)...)
	}
}

// fdDedup drops later objects that repeat the (namespace, name) of an earlier one of the same kind: the API
// server holds at most one.
func fdDedup(c *fdCluster) {
	seen := map[string]bool{}
	dup := func(kind string, m fdMeta) bool {
		k := kind + "/" + m.NS + "/" + m.Name
		if seen[k] {
			return true
		}
		seen[k] = true
		return false
	}
	var cs []fdCloneSet
	for _, x := range c.CloneSets {
		if !dup("cs", x.M) {
			cs = append(cs, x)
		}
	}
	c.CloneSets = cs
	var ds []fdDaemonSet
	for _, x := range c.DaemonSets {
		if !dup("ds", x.M) {
			ds = append(ds, x)
		}
	}
	c.DaemonSets = ds
	var dp []fdDeployment
	for _, x := range c.Deployments {
		if !dup("dp", x.M) {
			dp = append(dp, x)
		}
	}
	c.Deployments = dp
	var rs []fdReplicaSet
	for _, x := range c.ReplicaSets {
		if !dup("rs", x.M) {
			rs = append(rs, x)
		}
	}
	c.ReplicaSets = rs
	var ns []fdSts
	for _, x := range c.NativeSts {
		if !dup("sts", x.M) {
			ns = append(ns, x)
		}
	}
	c.NativeSts = ns
	var ks []fdSts
	for _, x := range c.KruiseSts {
		if !dup("ksts", x.M) {
			ks = append(ks, x)
		}
	}
	c.KruiseSts = ks
	var us []fdUnstr
	for _, x := range c.Unstructured {
		if !dup("u/"+x.GVK.Group+"/"+x.GVK.Version+"/"+x.GVK.Kind, x.M) {
			us = append(us, x)
		}
	}
	c.Unstructured = us
}

type fdGV struct{ Group, Version string }

// fdTypedGVK: the GVKs GetEmptyWorkloadObject answers with a typed object (an unstructured object under such a GVK
// would be the same API object as the typed one).
func fdTypedGVK(g, v, k string) bool {
	// the fake client files objects by the lower-cased plural of the kind
	switch g + "/" + v + "/" + strings.ToLower(k) {
	case "apps/v1/replicaset", "apps/v1/deployment", "apps/v1/statefulset", "apps/v1/daemonset", "apps.kruise.io/v1alpha1/daemonset", "apps.kruise.io/v1alpha1/cloneset",
		"apps.kruise.io/v1beta1/statefulset", "apps.kruise.io/v1alpha1/statefulset":
		return true
	}
	return false
}

// fdParseGV is only used by the generator to place unstructured objects under the ref's own GVK.
func fdParseGV(s string) (fdGV, error) {
	n := 0
	idx := -1
	for i, ch := range s {
		if ch == '/' {
			n++
			if idx < 0 {
				idx = i
			}
		}
	}
	switch {
	case s == "" || s == "/":
		return fdGV{}, nil
	case n == 0:
		return fdGV{"", s}, nil
	case n == 1:
		return fdGV{s[:idx], s[idx+1:]}, nil
	}
	return fdGV{}, errors.New("malformed")
}

func runFinder(c *Ctx) {
	g := &fdGen{c: c}
	for i := 0; i < c.N; i++ {
		in := g.world()
		switch r := g.rnd(100); {
		case r < 62:
			fdCase(c, "ref", in)
		case r < 80:
			in.Finder = g.pick("deployment", "cloneSet", "advancedDeployment", "stsLike", "stsLike", "daemonSet")
			fdCase(c, "one", in)
		case r < 84:
			in.Kind = g.pick("Deployment", "CloneSet", "DaemonSet", in.Ref.Kind)
			in.Groups = [][]string{{"apps"}, {"apps.kruise.io"}, {"apps", "apps.kruise.io"}, {}, {""}}[g.rnd(5)]
			fdCase(c, "vgk", in)
		default:
			// helper ops on a Deployment of the cluster
			if len(in.C.Deployments) == 0 {
				g.addDeploymentWorld(&in, in.NS, "wl")
				fdDedup(&in.C)
			}
			d := in.C.Deployments[g.rnd(len(in.C.Deployments))]
			in.NS, in.Ref = d.M.NS, fdRef{APIVersion: "apps/v1", Kind: "Deployment", Name: d.M.Name}
			in.Nth = g.rnd(2)
			fdCase(c, g.pick("rss", "stableRs", "stableRs", "canary", "findcs"), in)
		}
	}
}

func replayFinder(c *Ctx, op string, raw json.RawMessage) {
	var in fdIn
	if err := json.Unmarshal(raw, &in); err != nil {
		panic(err)
	}
	fdCase(c, op, in)
}
