package main

// Suite "isolation" (property C19): several rollouts / BatchReleases use the process-wide helpers
// of one controller process (grace expectations, resource expectations, dynamic watch registry)
// in generated interleavings; every rollout is also run alone; both are compared with the Lean
// model RV.Isolation and with each other (oracle C19.same_as_solo).
//
// ops
//   grace    raw operations of pkg/util/grace on generated keys
//   exp      raw operations of pkg/util/expectation on generated keys
//   manager  real trafficrouting.Manager calls for 2-3 rollouts over one fake API server
//   brexp    real canary-style Deployment control Create + the workload event handler's observe
//   watch    real Rollout Reconcile with a recording runtime controller (dynamic watch registry)
//   race     result of tools/race_isolation.sh (supporting, not a proof)

import (
	"context"
	"encoding/json"
	"errors"
	"fmt"
	"math"
	"sort"
	"strconv"
	"time"

	"github.com/openkruise/rollouts/api/v1beta1"
	"github.com/openkruise/rollouts/pkg/trafficrouting"
	expectations "github.com/openkruise/rollouts/pkg/util/expectation"
	"github.com/openkruise/rollouts/pkg/util/grace"
	corev1 "k8s.io/api/core/v1"
	netv1 "k8s.io/api/networking/v1"
	metav1 "k8s.io/apimachinery/pkg/apis/meta/v1"
	"k8s.io/apimachinery/pkg/types"
	"k8s.io/apimachinery/pkg/util/intstr"
	"sigs.k8s.io/controller-runtime/pkg/client"
)

func init() { register("isolation", runIsolation, replayIsolation) }

// ---- events ----

type isoGOp struct {
	K        string `json:"k"` // expect|observe|sat|delete|get|run
	Key      string `json:"key"`
	Action   string `json:"action"`
	Grace    int    `json:"grace"`
	Modified bool   `json:"modified"`
	Err      bool   `json:"err"`
}

type isoEOp struct {
	K      string `json:"k"` // expect|observe|sat|delete|get
	Ck     string `json:"ck"`
	Action string `json:"action"`
	Name   string `json:"name"`
}

type isoEv struct {
	T  string  `json:"t"` // op|tick|clean
	R  int     `json:"r,omitempty"`
	D  int     `json:"d,omitempty"`  // tick: seconds
	Iv int     `json:"iv,omitempty"` // clean: interval seconds
	G  *isoGOp `json:"g,omitempty"`
	E  *isoEOp `json:"e,omitempty"`
	// manager / brexp / watch
	Call   string `json:"call,omitempty"`
	W      *int   `json:"w,omitempty"`      // doTrafficRouting: weight
	FailAt *int   `json:"failAt,omitempty"` // the k-th write of the call and all later ones fail
	// watch: reconciles of other rollouts that run while this reconcile's Watch call is in flight
	Nested []int `json:"nested,omitempty"`
}

// isoRound rounds a duration to the nearest 100 s (all generated periods are multiples of 100 s,
// a case runs for milliseconds).
func isoRound(d time.Duration) int { return int(math.Round(d.Seconds()/100)) * 100 }

func isoSec(n int) time.Duration { return time.Duration(n) * time.Second }

// ---- op grace ----

type isoGraceIn struct {
	Owners int     `json:"owners"`
	Events []isoEv `json:"events"`
}

func isoGraceDump() [][]interface{} {
	out := [][]interface{}{}
	for _, e := range grace.VerifDump() {
		age := isoRound(e.Age)
		if e.Action == "" {
			age = -1
		}
		out = append(out, []interface{}{e.Key, e.Action, age})
	}
	return out
}

func isoApplyG(o *isoGOp) J {
	switch o.K {
	case "expect":
		grace.VerifExpect(o.Key, o.Action)
		return J{"t": "unit"}
	case "observe":
		grace.VerifObserve(o.Key, o.Action)
		return J{"t": "unit"}
	case "sat":
		ok, rem := grace.VerifSatisfied(o.Key, o.Action, int32(o.Grace))
		return J{"t": "sat", "ok": ok, "rem": isoRound(rem)}
	case "delete":
		grace.VerifDeleteExpectations(o.Key)
		return J{"t": "unit"}
	case "get":
		as, ok := grace.VerifGetExpectations(o.Key)
		if !ok {
			return J{"t": "actions", "as": nil}
		}
		return J{"t": "actions", "as": as}
	case "run":
		retry, rem, err := grace.RunWithGraceSeconds(o.Key, o.Action, int32(o.Grace), func() (bool, error) {
			if o.Err {
				return o.Modified, errors.New("closure failed")
			}
			return o.Modified, nil
		})
		return J{"t": "run", "retry": retry, "rem": isoRound(rem), "err": err != nil}
	}
	panic("bad grace op " + o.K)
}

// isoRunGrace runs the events of rollout `only` (0 = all) plus every tick / clean.
func isoRunGrace(evs []isoEv, only int) J {
	grace.ResetExpectations()
	obs := []interface{}{}
	for i := range evs {
		ev := &evs[i]
		switch ev.T {
		case "tick":
			grace.VerifShift(isoSec(ev.D))
		case "clean":
			grace.VerifCleanOutdated(isoSec(ev.Iv))
		case "op":
			if only != 0 && ev.R != only {
				continue
			}
			obs = append(obs, J{"r": ev.R, "o": isoApplyG(ev.G)})
		}
	}
	out := J{"obs": obs, "final": isoGraceDump()}
	grace.ResetExpectations()
	return out
}

func isoGraceCase(c *Ctx, in isoGraceIn) {
	impl := guard(func() interface{} {
		solo := []interface{}{}
		for r := 1; r <= in.Owners; r++ {
			s := isoRunGrace(in.Events, r)
			s["r"] = r
			solo = append(solo, s)
		}
		return J{"joint": isoRunGrace(in.Events, 0), "solo": solo}
	})
	c.Emit("grace", in, impl)
}

var isoActions = []string{"patchService", "restoreService", "restoreGateway", "removeCanaryService", "updateRoute", "create"}
var isoGraces = []int{0, 100, 100, 200, 200, 300, 1000, -100}
var isoTicks = []int{100, 100, 200, 300, 1000}
var isoCleans = []int{250, 550, 1050}

func genIsoGrace(c *Ctx) isoGraceIn {
	in := isoGraceIn{Owners: 2 + c.Rng.Intn(2)}
	overlap := c.Rng.Intn(5) == 0
	pool := func(r int) []string {
		if overlap {
			return []string{"uid-a", "uid-b", "prod/web-canary", "uid-" + strconv.Itoa(r)}
		}
		// similar keys: common prefixes, same Service name in different namespaces
		return []string{fmt.Sprintf("uid-%d", r), fmt.Sprintf("uid-%d0", r), fmt.Sprintf("ns%d/web-canary", r), fmt.Sprintf("ns/web%d-canary", r)}
	}
	n := 4 + c.Rng.Intn(14)
	for i := 0; i < n; i++ {
		x := c.Rng.Intn(20)
		switch {
		case x < 3:
			in.Events = append(in.Events, isoEv{T: "tick", D: isoTicks[c.Rng.Intn(len(isoTicks))]})
		case x == 3:
			in.Events = append(in.Events, isoEv{T: "clean", Iv: isoCleans[c.Rng.Intn(len(isoCleans))]})
		default:
			r := 1 + c.Rng.Intn(in.Owners)
			p := pool(r)
			o := &isoGOp{Key: p[c.Rng.Intn(len(p))], Action: isoActions[c.Rng.Intn(3)], Grace: isoGraces[c.Rng.Intn(len(isoGraces))]}
			switch y := c.Rng.Intn(14); {
			case y < 6:
				o.K = "run"
				o.Modified = c.Rng.Intn(2) == 0
				o.Err = c.Rng.Intn(10) == 0
			case y < 8:
				o.K = "sat"
			case y < 10:
				o.K = "expect"
			case y < 12:
				o.K = "observe"
			case y < 13:
				o.K = "get"
			default:
				o.K = "delete"
			}
			in.Events = append(in.Events, isoEv{T: "op", R: r, G: o})
		}
	}
	return in
}

// ---- op exp ----

type isoExpIn struct {
	Owners int     `json:"owners"`
	Events []isoEv `json:"events"`
}

func isoObjsJSON(m map[string][]string) [][]interface{} {
	keys := []string{}
	for k := range m {
		keys = append(keys, k)
	}
	sort.Strings(keys)
	out := [][]interface{}{}
	for _, k := range keys {
		names := append([]string{}, m[k]...)
		sort.Strings(names)
		out = append(out, []interface{}{k, names})
	}
	return out
}

func isoExpDump() []interface{} {
	out := []interface{}{}
	for _, e := range expectations.VerifDump() {
		var unsat interface{}
		if e.Unsat {
			unsat = isoRound(e.UnsatAge)
		}
		out = append(out, J{"key": e.Key, "objs": isoObjsJSON(e.Objs), "unsat": unsat})
	}
	return out
}

func isoGetExp(ck string) (map[string][]string, bool) {
	m := expectations.ResourceExpectations.GetExpectations(ck)
	if m == nil {
		return nil, false
	}
	out := map[string][]string{}
	for a, s := range m {
		out[string(a)] = s.List()
	}
	return out, true
}

func isoSatExp(ck string) J {
	// more than one unsatisfied action: which one is reported depends on Go's map iteration order
	nonEmpty := 0
	if m, ok := isoGetExp(ck); ok {
		for _, s := range m {
			if len(s) > 0 {
				nonEmpty++
			}
		}
	}
	ok, since, rest := expectations.ResourceExpectations.SatisfiedExpectations(ck)
	var r interface{}
	if nonEmpty > 1 {
		r = "ambiguous"
	} else {
		for a, names := range rest {
			ns := append([]string{}, names...)
			sort.Strings(ns)
			r = J{"a": string(a), "names": ns}
		}
	}
	return J{"t": "sat", "ok": ok, "since": isoRound(since), "rest": r}
}

func isoApplyE(o *isoEOp) J {
	e := expectations.ResourceExpectations
	switch o.K {
	case "expect":
		e.Expect(o.Ck, expectations.Action(o.Action), o.Name)
		return J{"t": "unit"}
	case "observe":
		e.Observe(o.Ck, expectations.Action(o.Action), o.Name)
		return J{"t": "unit"}
	case "sat":
		return isoSatExp(o.Ck)
	case "delete":
		e.DeleteExpectations(o.Ck)
		return J{"t": "unit"}
	case "get":
		m, ok := isoGetExp(o.Ck)
		if !ok {
			return J{"t": "objs", "m": nil}
		}
		return J{"t": "objs", "m": isoObjsJSON(m)}
	}
	panic("bad exp op " + o.K)
}

func isoRunExp(evs []isoEv, only int) J {
	expectations.VerifReset()
	obs := []interface{}{}
	for i := range evs {
		ev := &evs[i]
		switch ev.T {
		case "tick":
			expectations.VerifShift(isoSec(ev.D))
		case "op":
			if only != 0 && ev.R != only {
				continue
			}
			obs = append(obs, J{"r": ev.R, "o": isoApplyE(ev.E)})
		}
	}
	out := J{"obs": obs, "final": isoExpDump()}
	expectations.VerifReset()
	return out
}

func isoExpCase(c *Ctx, in isoExpIn) {
	impl := guard(func() interface{} {
		solo := []interface{}{}
		for r := 1; r <= in.Owners; r++ {
			s := isoRunExp(in.Events, r)
			s["r"] = r
			solo = append(solo, s)
		}
		return J{"joint": isoRunExp(in.Events, 0), "solo": solo}
	})
	c.Emit("exp", in, impl)
}

func genIsoExp(c *Ctx) isoExpIn {
	in := isoExpIn{Owners: 2 + c.Rng.Intn(2)}
	overlap := c.Rng.Intn(5) == 0
	pool := func(r int) []string {
		if overlap {
			return []string{"prod/demo", "stage/demo", "prod/demo-" + strconv.Itoa(r)}
		}
		return []string{fmt.Sprintf("ns%d/demo", r), fmt.Sprintf("ns/demo-%d", r), fmt.Sprintf("ns/demo-%d0", r)}
	}
	n := 4 + c.Rng.Intn(14)
	for i := 0; i < n; i++ {
		if c.Rng.Intn(6) == 0 {
			in.Events = append(in.Events, isoEv{T: "tick", D: isoTicks[c.Rng.Intn(len(isoTicks))]})
			continue
		}
		r := 1 + c.Rng.Intn(in.Owners)
		p := pool(r)
		o := &isoEOp{Ck: p[c.Rng.Intn(len(p))], Action: []string{"create", "create", "create", "delete"}[c.Rng.Intn(4)],
			Name: []string{"uid-1", "uid-2", "uid-10", ""}[c.Rng.Intn(4)]}
		switch y := c.Rng.Intn(14); {
		case y < 5:
			o.K = "expect"
		case y < 9:
			o.K = "observe"
		case y < 12:
			o.K = "sat"
		case y < 13:
			o.K = "get"
		default:
			o.K = "delete"
		}
		in.Events = append(in.Events, isoEv{T: "op", R: r, E: o})
	}
	return in
}

// ---- op manager ----

type isoRollout struct {
	R          int    `json:"r"`
	Ns         string `json:"ns"`
	Name       string `json:"name"`
	UID        string `json:"uid"`
	Svc        string `json:"svc"`
	Ing        string `json:"ing"`
	Graces     []int  `json:"graces"` // GracePeriodSeconds of each traffic routing ref (first ref = the one used)
	DisableGen bool   `json:"disableGen"`
	NoProvider bool   `json:"noProvider"` // the ref names no Ingress / Gateway / custom provider
	StableRev  string `json:"stableRev"`
	CanaryRev  string `json:"canaryRev"`
	PreCanary  bool   `json:"preCanary"`  // the canary Service exists initially
	PreIngress *int   `json:"preIngress"` // the canary Ingress exists initially with this weight
}

type isoSvc struct {
	Ns     string  `json:"ns"`
	Name   string  `json:"name"`
	UID    string  `json:"uid"`
	Pinned *string `json:"pinned"`
}

type isoMgrIn struct {
	DefaultGrace int          `json:"defaultGrace"`
	Rollouts     []isoRollout `json:"rollouts"`
	Services     []isoSvc     `json:"services"`
	Events       []isoEv      `json:"events"`
}

const isoRevKey = "pod-template-hash"

func isoService(s isoSvc) *corev1.Service {
	o := &corev1.Service{ObjectMeta: metav1.ObjectMeta{Namespace: s.Ns, Name: s.Name, UID: types.UID(s.UID)}}
	o.Spec.Selector = map[string]string{"app": s.Name}
	if s.Pinned != nil {
		o.Spec.Selector[isoRevKey] = *s.Pinned
	}
	o.Spec.Ports = []corev1.ServicePort{{Port: 80, TargetPort: intstr.FromInt(8080)}}
	return o
}

func isoIngress(ns, name, svc string) *netv1.Ingress {
	pt := netv1.PathTypePrefix
	class := "nginx"
	return &netv1.Ingress{ObjectMeta: metav1.ObjectMeta{Namespace: ns, Name: name, UID: types.UID("ing-uid-" + ns + "-" + name),
		Annotations: map[string]string{"kubernetes.io/ingress.class": "nginx"}},
		Spec: netv1.IngressSpec{IngressClassName: &class, Rules: []netv1.IngressRule{{Host: "a.example.com",
			IngressRuleValue: netv1.IngressRuleValue{HTTP: &netv1.HTTPIngressRuleValue{Paths: []netv1.HTTPIngressPath{{Path: "/", PathType: &pt,
				Backend: netv1.IngressBackend{Service: &netv1.IngressServiceBackend{Name: svc, Port: netv1.ServiceBackendPort{Number: 80}}}}}}}}}}}
}

func isoContext(ro *isoRollout, w *int, last *metav1.Time) *trafficrouting.TrafficRoutingContext {
	t := &trafficrouting.TrafficRoutingContext{Key: fmt.Sprintf("Rollout(%s/%s)", ro.Ns, ro.Name), Namespace: ro.Ns, RevisionLabelKey: isoRevKey,
		StableRevision: ro.StableRev, CanaryRevision: ro.CanaryRev, DisableGenerateCanaryService: ro.DisableGen,
		OwnerRef: metav1.OwnerReference{APIVersion: "rollouts.kruise.io/v1beta1", Kind: "Rollout", Name: ro.Name, UID: types.UID(ro.UID)}}
	for i, g := range ro.Graces {
		ref := v1beta1.TrafficRoutingRef{Service: ro.Svc, GracePeriodSeconds: int32(g)}
		if i == 0 && !ro.NoProvider {
			ref.Ingress = &v1beta1.IngressTrafficRouting{Name: ro.Ing, ClassType: "nginx"}
		}
		t.ObjectRef = append(t.ObjectRef, ref)
	}
	if w != nil {
		s := strconv.Itoa(*w) + "%"
		t.Strategy.Traffic = &s
	}
	if last != nil {
		l := *last
		t.LastUpdateTime = &l
	}
	return t
}

// isoBuildWorld creates the fake API server content of a manager world.
func isoBuildWorld(in *isoMgrIn) *LogClient {
	objs := []client.Object{}
	for _, s := range in.Services {
		objs = append(objs, isoService(s))
	}
	seenIng := map[string]bool{}
	seenSvc := map[string]bool{}
	for _, s := range in.Services {
		seenSvc[s.Ns+"/"+s.Name] = true
	}
	for i := range in.Rollouts {
		ro := &in.Rollouts[i]
		if k := ro.Ns + "/" + ro.Ing; !seenIng[k] && !ro.NoProvider {
			seenIng[k] = true
			objs = append(objs, isoIngress(ro.Ns, ro.Ing, ro.Svc))
		}
		if k := ro.Ns + "/" + ro.Svc + "-canary"; ro.PreCanary && !ro.DisableGen && !seenSvc[k] {
			seenSvc[k] = true
			cs := isoService(isoSvc{Ns: ro.Ns, Name: ro.Svc + "-canary", UID: "canary-uid-" + strconv.Itoa(ro.R), Pinned: &ro.CanaryRev})
			cs.OwnerReferences = []metav1.OwnerReference{{APIVersion: "rollouts.kruise.io/v1beta1", Kind: "Rollout", Name: ro.Name, UID: types.UID(ro.UID)}}
			objs = append(objs, cs)
		}
	}
	cli := NewLogClient(fakeClient(objs...))
	// canary Ingresses are produced by the real provider, so that their content is what the class script writes
	old := trafficrouting.VerifSetGracePeriodSeconds(100)
	for i := range in.Rollouts {
		ro := &in.Rollouts[i]
		if ro.PreIngress == nil || ro.NoProvider {
			continue
		}
		scratch := *ro
		scratch.DisableGen = true
		scratch.Graces = []int{100}
		m := trafficrouting.NewTrafficRoutingManager(cli.Client)
		one := 1
		for j := 0; j < 2; j++ {
			_, _ = m.DoTrafficRouting(isoContext(&scratch, &one, nil))
		}
		for j := 0; j < 3; j++ {
			_, _ = m.DoTrafficRouting(isoContext(&scratch, ro.PreIngress, nil))
		}
	}
	trafficrouting.VerifSetGracePeriodSeconds(old)
	cli.Log = nil
	return cli
}

// isoUIDClient gives every created object a UID, as an API server does (the fake client does not).
type isoUIDClient struct {
	*LogClient
	n *int
}

func (u isoUIDClient) Create(ctx context.Context, obj client.Object, opts ...client.CreateOption) error {
	assigned := false
	if obj.GetUID() == "" {
		*u.n++
		obj.SetUID(types.UID(fmt.Sprintf("created-uid-%s-%s-%d", obj.GetNamespace(), obj.GetName(), *u.n)))
		assigned = true
	}
	err := u.LogClient.Create(ctx, obj, opts...)
	if err != nil && assigned {
		obj.SetUID("")
	}
	return err
}

// isoStep runs one Manager call of rollout ro and reports what it did.
func isoStep(cli *LogClient, uidSeq *int, ro *isoRollout, ev *isoEv, last **metav1.Time) J {
	m := trafficrouting.NewTrafficRoutingManager(isoUIDClient{cli, uidSeq})
	tc := isoContext(ro, ev.W, *last)
	// the stable Service as the API server has it right now: its UID is what a call that fetches it must use
	var stable interface{}
	svc := &corev1.Service{}
	if cli.Client.Get(context.TODO(), types.NamespacedName{Namespace: ro.Ns, Name: ro.Svc}, svc) == nil {
		stable = string(svc.UID)
	}
	pre := isoGraceDump()
	cli.Log, cli.sequence, cli.FailAt = nil, 0, -1
	if ev.FailAt != nil {
		cli.FailAt = *ev.FailAt
	}
	var b bool
	var err error
	switch ev.Call {
	case "patchStableService":
		b, err = m.PatchStableService(tc)
	case "restoreStableService":
		b, err = m.RestoreStableService(tc)
	case "restoreGateway":
		b, err = m.RestoreGateway(tc)
	case "removeCanaryService":
		b, err = m.RemoveCanaryService(tc)
	case "routeAllToNew":
		b, err = m.RouteAllTrafficToNewVersion(tc)
	case "finalisingTrafficRouting":
		b, err = m.FinalisingTrafficRouting(tc)
	case "doTrafficRouting":
		b, err = m.DoTrafficRouting(tc)
	default:
		panic("bad call " + ev.Call)
	}
	failAt := cli.FailAt
	cli.FailAt = -1
	*last = tc.LastUpdateTime
	// writes; an error that is not an injected fault is the API server's own answer (NotFound on a delete)
	writes := []interface{}{}
	type cls struct{ ok, fault bool }
	by := map[string]*cls{}
	for i, r := range cli.Log {
		fault := failAt >= 0 && i >= failAt
		if r.Err && !fault {
			continue
		}
		writes = append(writes, []interface{}{r.Verb, r.Kind, r.Key, !r.Err})
		k := r.Verb + " " + r.Kind
		if by[k] == nil {
			by[k] = &cls{}
		}
		if r.Err {
			by[k].fault = true
		} else {
			by[k].ok = true
		}
	}
	anyOK := false
	for _, v := range by {
		anyOK = anyOK || v.ok
	}
	out := J{"r": ro.R, "call": ev.Call, "b": b, "err": err != nil, "rem": isoRound(tc.RecheckDuration), "stable": stable, "writes": writes}
	get := func(k string) J {
		if v := by[k]; v != nil {
			return J{"modified": v.ok, "err": v.fault}
		}
		return J{"modified": false, "err": false}
	}
	switch ev.Call {
	case "finalisingTrafficRouting":
		out["cl"] = []interface{}{get("patch Service"), get("delete Ingress"), get("delete Service")}
	case "doTrafficRouting":
		out["cl"] = []interface{}{}
	default:
		out["cl"] = []interface{}{J{"modified": anyOK, "err": err != nil}}
	}
	out["pre"] = pre
	out["store"] = isoGraceDump()
	return out
}

func isoRunMgr(in *isoMgrIn, only int) J {
	cli := isoBuildWorld(in)
	grace.ResetExpectations()
	old := trafficrouting.VerifSetGracePeriodSeconds(int32(in.DefaultGrace))
	defer trafficrouting.VerifSetGracePeriodSeconds(old)
	last := map[int]*metav1.Time{}
	byR := map[int]*isoRollout{}
	for i := range in.Rollouts {
		byR[in.Rollouts[i].R] = &in.Rollouts[i]
	}
	steps := []interface{}{}
	uidSeq := 0
	for i := range in.Events {
		ev := &in.Events[i]
		switch ev.T {
		case "tick":
			grace.VerifShift(isoSec(ev.D))
			for r, t := range last {
				if t != nil {
					last[r] = &metav1.Time{Time: t.Add(-isoSec(ev.D))}
				}
			}
		case "clean":
			grace.VerifCleanOutdated(isoSec(ev.Iv))
		case "op":
			if only != 0 && ev.R != only {
				continue
			}
			l := last[ev.R]
			steps = append(steps, isoStep(cli, &uidSeq, byR[ev.R], ev, &l))
			last[ev.R] = l
		}
	}
	out := J{"steps": steps, "final": isoGraceDump()}
	grace.ResetExpectations()
	return out
}

func isoMgrCase(c *Ctx, in isoMgrIn) {
	impl := guard(func() interface{} {
		solo := []interface{}{}
		for i := range in.Rollouts {
			s := isoRunMgr(&in, in.Rollouts[i].R)
			s["r"] = in.Rollouts[i].R
			solo = append(solo, s)
		}
		return J{"joint": isoRunMgr(&in, 0), "solo": solo}
	})
	c.Emit("manager", in, impl)
}

var isoCalls = []string{"patchStableService", "restoreStableService", "restoreGateway", "removeCanaryService", "routeAllToNew",
	"finalisingTrafficRouting", "finalisingTrafficRouting", "doTrafficRouting", "doTrafficRouting"}

func genIsoMgr(c *Ctx) isoMgrIn {
	in := isoMgrIn{DefaultGrace: []int{100, 100, 200}[c.Rng.Intn(3)]}
	n := 2 + c.Rng.Intn(2)
	mode := "distinct"
	switch x := c.Rng.Intn(20); {
	case x < 2:
		mode = "sharedService"
	case x < 4:
		mode = "nameClash"
	}
	nss := []string{"prod", "stage"}
	names := []string{"web", "web2", "web-a", "api"}
	used := map[string]bool{}
	for r := 1; r <= n; r++ {
		ro := isoRollout{R: r, UID: fmt.Sprintf("ro-uid-%d", r), StableRev: "v1", CanaryRev: "v2"}
		for try := 0; ; try++ {
			ro.Ns = nss[c.Rng.Intn(2)]
			ro.Svc = names[c.Rng.Intn(len(names))]
			ro.Ing = ro.Svc
			if c.Rng.Intn(4) == 0 {
				ro.Ing = names[c.Rng.Intn(len(names))] + "-ing"
			}
			if !used[ro.Ns+"/s/"+ro.Svc] && !used[ro.Ns+"/i/"+ro.Ing] {
				break
			}
		}
		if r == 2 {
			first := in.Rollouts[0]
			switch mode {
			case "sharedService":
				ro.Ns, ro.Svc, ro.Ing = first.Ns, first.Svc, first.Ing
			case "nameClash":
				ro.Ns = first.Ns
				if c.Rng.Intn(2) == 0 {
					ro.Svc = first.Svc + "-canary"
					ro.Ing = ro.Svc
				} else {
					ro.Svc, ro.Ing = first.Svc+"x", first.Ing+"-canary"
				}
			}
		}
		used[ro.Ns+"/s/"+ro.Svc], used[ro.Ns+"/i/"+ro.Ing] = true, true
		// similar rollout names: the same name in another namespace, or a common prefix
		ro.Name = []string{"demo", "demo", "demo-" + strconv.Itoa(r)}[c.Rng.Intn(3)]
		ro.Graces = []int{isoGraces[c.Rng.Intn(len(isoGraces))]}
		if c.Rng.Intn(6) == 0 {
			ro.Graces = append(ro.Graces, isoGraces[c.Rng.Intn(len(isoGraces))])
		}
		ro.DisableGen = c.Rng.Intn(10) == 0
		ro.NoProvider = c.Rng.Intn(25) == 0
		ro.PreCanary = c.Rng.Intn(2) == 0
		if c.Rng.Intn(2) == 0 {
			w := []int{0, 20, 100}[c.Rng.Intn(3)]
			ro.PreIngress = &w
		}
		in.Rollouts = append(in.Rollouts, ro)
	}
	seen := map[string]bool{}
	for _, ro := range in.Rollouts {
		k := ro.Ns + "/" + ro.Svc
		if seen[k] {
			continue
		}
		seen[k] = true
		s := isoSvc{Ns: ro.Ns, Name: ro.Svc, UID: fmt.Sprintf("svc-uid-%d", len(in.Services)+1)}
		switch c.Rng.Intn(4) {
		case 0:
			v := "v1"
			s.Pinned = &v
		case 1:
			v := "v0"
			s.Pinned = &v
		}
		if c.Rng.Intn(25) != 0 { // rarely the stable Service does not exist
			in.Services = append(in.Services, s)
		}
	}
	// per-rollout scripts, randomly interleaved, with clock ticks and cleaner runs in between
	total := 5 + c.Rng.Intn(12)
	for i := 0; i < total; i++ {
		switch x := c.Rng.Intn(12); {
		case x < 2:
			in.Events = append(in.Events, isoEv{T: "tick", D: isoTicks[c.Rng.Intn(len(isoTicks))]})
		case x == 2 && c.Rng.Intn(2) == 0:
			in.Events = append(in.Events, isoEv{T: "clean", Iv: isoCleans[c.Rng.Intn(len(isoCleans))]})
		default:
			ev := isoEv{T: "op", R: 1 + c.Rng.Intn(n), Call: isoCalls[c.Rng.Intn(len(isoCalls))]}
			if ev.Call == "doTrafficRouting" {
				w := []int{0, 20, 50, 100}[c.Rng.Intn(4)]
				ev.W = &w
			}
			if c.Rng.Intn(12) == 0 {
				f := c.Rng.Intn(2)
				ev.FailAt = &f
			}
			in.Events = append(in.Events, ev)
		}
	}
	return in
}

func runIsolation(c *Ctx) {
	isoRaceCase(c, false)
	for i := 0; i < c.N; i++ {
		switch x := i % 10; {
		case x < 2:
			isoGraceCase(c, genIsoGrace(c))
		case x < 3:
			isoExpCase(c, genIsoExp(c))
		case x < 7:
			isoMgrCase(c, genIsoMgr(c))
		case x < 9:
			isoBrCase(c, genIsoBr(c))
		default:
			isoWatchCase(c, genIsoWatch(c))
		}
	}
}

func replayIsolation(c *Ctx, op string, raw json.RawMessage) {
	switch op {
	case "grace":
		var in isoGraceIn
		if err := json.Unmarshal(raw, &in); err != nil {
			panic(err)
		}
		isoGraceCase(c, in)
	case "exp":
		var in isoExpIn
		if err := json.Unmarshal(raw, &in); err != nil {
			panic(err)
		}
		isoExpCase(c, in)
	case "manager":
		var in isoMgrIn
		if err := json.Unmarshal(raw, &in); err != nil {
			panic(err)
		}
		isoMgrCase(c, in)
	case "brexp":
		var in isoBrIn
		if err := json.Unmarshal(raw, &in); err != nil {
			panic(err)
		}
		isoBrCase(c, in)
	case "watch":
		var in isoWatchIn
		if err := json.Unmarshal(raw, &in); err != nil {
			panic(err)
		}
		isoWatchCase(c, in)
	case "race":
		isoRaceCase(c, true)
	default:
		panic("isolation: unknown op " + op)
	}
}
