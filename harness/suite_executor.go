package main

import (
	"context"
	"encoding/json"

	kruisev1alpha1 "github.com/openkruise/kruise-api/apps/v1alpha1"
	"github.com/openkruise/rollouts/api/v1alpha1"
	"github.com/openkruise/rollouts/api/v1beta1"
	"github.com/openkruise/rollouts/pkg/controller/batchrelease"
	"github.com/openkruise/rollouts/pkg/util"
	apierrors "k8s.io/apimachinery/pkg/api/errors"
	metav1 "k8s.io/apimachinery/pkg/apis/meta/v1"
	"k8s.io/apimachinery/pkg/types"
	"k8s.io/apimachinery/pkg/util/intstr"
	ctrl "sigs.k8s.io/controller-runtime"
	"sigs.k8s.io/controller-runtime/pkg/client"
)

func init() { register("executor", runExecutor, replayExecutor) }

// ---- abstract state (mirrors RV.Executor) ----

type exStatus struct {
	Phase            string `json:"phase"` // "", Preparing, Progressing, Finalizing, Completed, Weird
	CurrentBatch     int    `json:"currentBatch"`
	BatchState       string `json:"batchState"` // "", Upgrading, Verifying, Ready, Weird
	HasReadyTime     bool   `json:"hasReadyTime"`
	Hash             string `json:"hash"` // empty|same|differs
	RolloutIDSame    bool   `json:"rolloutIDSame"`
	ObservedReplicas int    `json:"observedReplicas"`
	UpdateRevision   string `json:"updateRevision"`
	StableRevision   string `json:"stableRevision"`
	NoNeedUpdate     *int   `json:"noNeedUpdate"`
	Updated          int    `json:"updated"`
	UpdatedReady     int    `json:"updatedReady"`
}

type exBR struct {
	Batches          []J        `json:"batches"`
	Partition        *int       `json:"partition"`
	FailureThreshold interface{} `json:"failureThreshold"`
	Deleting         bool       `json:"deleting"`
	HasFinalizer     bool       `json:"hasFinalizer"`
	RollbackAnno     bool       `json:"rollbackAnno"`
	Status           exStatus   `json:"status"`
}

type exWL struct {
	Replicas           int         `json:"replicas"`
	Generation         int         `json:"generation"`
	ObservedGeneration int         `json:"observedGeneration"`
	StatusReplicas     int         `json:"statusReplicas"`
	Updated            int         `json:"updated"`
	UpdatedReady       int         `json:"updatedReady"`
	UpdateRevision     string      `json:"updateRevision"`
	CurrentRevision    string      `json:"currentRevision"`
	Partition          interface{} `json:"partition"`
	Paused             bool        `json:"paused"`
	Owner              string      `json:"owner"` // none|this|other
}

type exIn struct {
	BR exBR  `json:"br"`
	WL *exWL `json:"wl"`
}

func iosFromAny(v interface{}) *intstr.IntOrString {
	if v == nil {
		return nil
	}
	m, ok := v.(map[string]interface{})
	if !ok {
		if j, ok2 := v.(J); ok2 {
			m = j
		} else {
			return nil
		}
	}
	var r intstr.IntOrString
	if x, ok := m["i"]; ok {
		switch t := x.(type) {
		case float64:
			r = intstr.FromInt(int(t))
		case int:
			r = intstr.FromInt(t)
		}
	} else if x, ok := m["p"]; ok {
		switch t := x.(type) {
		case float64:
			r = pct(int(t))
		case int:
			r = pct(t)
		}
	} else {
		r = intstr.FromString("bad")
	}
	return &r
}

const exOtherHash = "deadbeef"

func exBuildRelease(b exBR) *v1beta1.BatchRelease {
	r := &v1beta1.BatchRelease{}
	r.Namespace, r.Name, r.UID, r.Generation = "ns", "br", types.UID("br-uid"), 1
	r.Spec.WorkloadRef = v1beta1.ObjectRef{APIVersion: "apps.kruise.io/v1alpha1", Kind: "CloneSet", Name: "wl"}
	for _, e := range b.Batches {
		r.Spec.ReleasePlan.Batches = append(r.Spec.ReleasePlan.Batches, v1beta1.ReleaseBatch{CanaryReplicas: *iosFromAny(e)})
	}
	if b.Partition != nil {
		r.Spec.ReleasePlan.BatchPartition = i32p(int32(*b.Partition))
	}
	r.Spec.ReleasePlan.FailureThreshold = iosFromAny(b.FailureThreshold)
	if b.HasFinalizer {
		r.Finalizers = []string{batchrelease.ReleaseFinalizer}
	}
	if b.Deleting {
		now := metav1.Now()
		r.DeletionTimestamp = &now
		if !b.HasFinalizer {
			// an object cannot be in deletion without any finalizer; keep a foreign one
			r.Finalizers = []string{"verif/foreign"}
		}
	}
	if b.RollbackAnno {
		r.Annotations = map[string]string{v1alpha1.RollbackInBatchAnnotation: "true"}
	}
	s := b.Status
	st := &r.Status
	switch s.Phase {
	case "Weird":
		st.Phase = "Weird"
	default:
		st.Phase = v1beta1.RolloutPhase(s.Phase)
	}
	st.CanaryStatus.CurrentBatch = int32(s.CurrentBatch)
	st.CanaryStatus.CurrentBatchState = v1beta1.BatchReleaseBatchStateType(s.BatchState)
	if s.HasReadyTime {
		t := metav1.Now()
		st.CanaryStatus.BatchReadyTime = &t
	}
	switch s.Hash {
	case "same":
		st.ObservedReleasePlanHash = util.HashReleasePlanBatches(&r.Spec.ReleasePlan)
	case "differs":
		st.ObservedReleasePlanHash = exOtherHash
	}
	if !s.RolloutIDSame {
		st.ObservedRolloutID = "old-id"
	}
	st.ObservedWorkloadReplicas = int32(s.ObservedReplicas)
	st.UpdateRevision, st.StableRevision = s.UpdateRevision, s.StableRevision
	if s.NoNeedUpdate != nil {
		st.CanaryStatus.NoNeedUpdateReplicas = i32p(int32(*s.NoNeedUpdate))
	}
	st.CanaryStatus.UpdatedReplicas, st.CanaryStatus.UpdatedReadyReplicas = int32(s.Updated), int32(s.UpdatedReady)
	st.ObservedGeneration = 1
	return r
}

func exBuildCloneSet(w *exWL) *kruisev1alpha1.CloneSet {
	cs := &kruisev1alpha1.CloneSet{}
	cs.Namespace, cs.Name, cs.UID = "ns", "wl", "wl-uid"
	cs.Generation = int64(w.Generation)
	R := int32(w.Replicas)
	cs.Spec.Replicas = &R
	cs.Spec.Selector = &metav1.LabelSelector{MatchLabels: selLabels}
	cs.Spec.Template = podTemplate()
	cs.Spec.UpdateStrategy.Partition = iosFromAny(w.Partition)
	cs.Spec.UpdateStrategy.Paused = w.Paused
	cs.Status.ObservedGeneration = int64(w.ObservedGeneration)
	cs.Status.Replicas, cs.Status.UpdatedReplicas, cs.Status.UpdatedReadyReplicas = int32(w.StatusReplicas), int32(w.Updated), int32(w.UpdatedReady)
	cs.Status.UpdateRevision, cs.Status.CurrentRevision = w.UpdateRevision, w.CurrentRevision
	switch w.Owner {
	case "this":
		cs.Annotations = map[string]string{util.BatchReleaseControlAnnotation: `{"apiVersion":"rollouts.kruise.io/v1beta1","kind":"BatchRelease","name":"br","uid":"br-uid","controller":true,"blockOwnerDeletion":true}`}
	case "other":
		cs.Annotations = map[string]string{util.BatchReleaseControlAnnotation: `{"apiVersion":"rollouts.kruise.io/v1beta1","kind":"BatchRelease","name":"zz","uid":"other-uid","controller":true,"blockOwnerDeletion":true}`}
	}
	return cs
}

func exAbstractStatus(r *v1beta1.BatchRelease) exStatus {
	st := r.Status
	s := exStatus{CurrentBatch: int(st.CanaryStatus.CurrentBatch), HasReadyTime: st.CanaryStatus.BatchReadyTime != nil,
		RolloutIDSame: st.ObservedRolloutID == r.Spec.ReleasePlan.RolloutID, ObservedReplicas: int(st.ObservedWorkloadReplicas),
		UpdateRevision: st.UpdateRevision, StableRevision: st.StableRevision,
		Updated: int(st.CanaryStatus.UpdatedReplicas), UpdatedReady: int(st.CanaryStatus.UpdatedReadyReplicas)}
	switch st.Phase {
	case "", v1beta1.RolloutPhasePreparing, v1beta1.RolloutPhaseProgressing, v1beta1.RolloutPhaseFinalizing, v1beta1.RolloutPhaseCompleted:
		s.Phase = string(st.Phase)
	default:
		s.Phase = "Weird"
	}
	switch st.CanaryStatus.CurrentBatchState {
	case "", v1beta1.UpgradingBatchState, v1beta1.VerifyingBatchState, v1beta1.ReadyBatchState:
		s.BatchState = string(st.CanaryStatus.CurrentBatchState)
	default:
		s.BatchState = "Weird"
	}
	switch st.ObservedReleasePlanHash {
	case "":
		s.Hash = "empty"
	case util.HashReleasePlanBatches(&r.Spec.ReleasePlan):
		s.Hash = "same"
	default:
		s.Hash = "differs"
	}
	if st.CanaryStatus.NoNeedUpdateReplicas != nil {
		n := int(*st.CanaryStatus.NoNeedUpdateReplicas)
		s.NoNeedUpdate = &n
	}
	return s
}

// exOwnerUID is the UID of the BatchRelease whose control annotation counts as "this"
var exOwnerUID = "br-uid"

func exAbstractWL(cs *kruisev1alpha1.CloneSet) J {
	owner := "none"
	if a := cs.Annotations[util.BatchReleaseControlAnnotation]; a != "" {
		ref := &metav1.OwnerReference{}
		if json.Unmarshal([]byte(a), ref) == nil && string(ref.UID) == exOwnerUID {
			owner = "this"
		} else {
			owner = "other"
		}
	}
	return J{"replicas": int(*cs.Spec.Replicas), "generation": int(cs.Generation), "observedGeneration": int(cs.Status.ObservedGeneration),
		"statusReplicas": int(cs.Status.Replicas), "updated": int(cs.Status.UpdatedReplicas), "updatedReady": int(cs.Status.UpdatedReadyReplicas),
		"updateRevision": cs.Status.UpdateRevision, "currentRevision": cs.Status.CurrentRevision,
		"partition": iosOutPtr(cs.Spec.UpdateStrategy.Partition), "paused": cs.Spec.UpdateStrategy.Paused, "owner": owner}
}

func exRun(in exIn) interface{} {
	out, _ := exRunF(in, 0)
	return out
}

func exRunF(in exIn, failN int) (J, faultRun) {
	rel := exBuildRelease(in.BR)
	objs := []client.Object{rel}
	if in.WL != nil {
		objs = append(objs, exBuildCloneSet(in.WL))
	}
	cli := NewLogClient(fakeClient(objs...))
	rec := batchrelease.VerifNewReconciler(cli, theScheme)
	cli.Calls, cli.FailCallN, cli.FaultHit = 0, failN, ""
	res, err := rec.Reconcile(context.TODO(), ctrl.Request{NamespacedName: types.NamespacedName{Namespace: "ns", Name: "br"}})
	cli.FailCallN = 0
	fr := faultRun{Err: err != nil, Requeue: res.RequeueAfter > 0 || res.Requeue, Calls: cli.Calls, Hit: cli.FaultHit, Writes: writesOf(cli)}
	out := J{"requeue": res.RequeueAfter > 0 || res.Requeue, "err": err != nil}
	got := &v1beta1.BatchRelease{}
	if e := cli.Get(context.TODO(), types.NamespacedName{Namespace: "ns", Name: "br"}, got); e != nil {
		if apierrors.IsNotFound(e) {
			out["br"] = nil
		} else {
			out["br"] = "get-err"
		}
	} else {
		hasFin := false
		for _, f := range got.Finalizers {
			if f == batchrelease.ReleaseFinalizer {
				hasFin = true
			}
		}
		out["br"] = J{"hasFinalizer": hasFin, "status": exAbstractStatus(got)}
	}
	cs := &kruisev1alpha1.CloneSet{}
	if e := cli.Get(context.TODO(), types.NamespacedName{Namespace: "ns", Name: "wl"}, cs); e != nil {
		out["wl"] = nil
	} else {
		out["wl"] = exAbstractWL(cs)
	}
	return out, fr
}

func exCase(c *Ctx, in exIn) {
	impl := guard(func() interface{} { return exRun(in) })
	c.Emit("reconcile", in, impl)
}

func pickS(c *Ctx, xs ...string) string { return xs[c.Rng.Intn(len(xs))] }

func genExecutorCase(c *Ctx) exIn {
	R := c.Rng.Intn(12)
	if c.Rng.Intn(8) == 0 {
		R = 0
	}
	nb := 1 + c.Rng.Intn(4)
	if c.Rng.Intn(25) == 0 {
		nb = 0
	}
	var batches []J
	pcts := c.Rng.Intn(2) == 0
	acc := 0
	for i := 0; i < nb; i++ {
		if pcts {
			acc += 1 + c.Rng.Intn(50)
			if acc > 100 || i == nb-1 && c.Rng.Intn(2) == 0 {
				acc = 100
			}
			batches = append(batches, J{"p": acc})
		} else {
			acc += 1 + c.Rng.Intn(R+1)
			batches = append(batches, J{"i": acc})
		}
	}
	br := exBR{Batches: batches, HasFinalizer: c.Rng.Intn(6) != 0, Deleting: c.Rng.Intn(8) == 0, RollbackAnno: c.Rng.Intn(10) == 0}
	if c.Rng.Intn(7) != 0 {
		p := c.Rng.Intn(nb + 1)
		if c.Rng.Intn(12) == 0 {
			p = nb + 2
		}
		br.Partition = &p
	}
	if c.Rng.Intn(4) == 0 {
		br.FailureThreshold = J{"i": c.Rng.Intn(3)}
	}
	st := exStatus{RolloutIDSame: c.Rng.Intn(10) != 0, ObservedReplicas: R}
	switch c.Rng.Intn(20) {
	case 0:
		st.Phase = ""
	case 1:
		st.Phase = "Weird"
	case 2, 3:
		st.Phase = "Preparing"
	case 4, 5:
		st.Phase = "Finalizing"
	case 6:
		st.Phase = "Completed"
	default:
		st.Phase = "Progressing"
	}
	st.BatchState = pickS(c, "Upgrading", "Upgrading", "Verifying", "Verifying", "Ready", "Ready", "Ready", "", "Weird")
	st.CurrentBatch = c.Rng.Intn(nb + 1)
	if c.Rng.Intn(15) == 0 {
		st.CurrentBatch = nb + c.Rng.Intn(2)
	}
	if c.Rng.Intn(40) == 0 {
		st.CurrentBatch = -1
	}
	if br.Partition != nil && c.Rng.Intn(2) == 0 && *br.Partition < nb {
		st.CurrentBatch = *br.Partition
	}
	st.HasReadyTime = st.BatchState == "Ready" && c.Rng.Intn(4) != 0
	st.Hash = pickS(c, "same", "same", "same", "same", "same", "same", "differs", "empty")
	if c.Rng.Intn(10) == 0 {
		st.ObservedReplicas = pickInt(c, -1, R+1, R-1)
	}
	st.UpdateRevision, st.StableRevision = "v2", "v1"
	if c.Rng.Intn(12) == 0 {
		st.UpdateRevision = ""
	}
	if c.Rng.Intn(12) == 0 {
		n := c.Rng.Intn(R + 1)
		st.NoNeedUpdate = &n
	}
	if st.Phase == "" {
		st = exStatus{Phase: "", RolloutIDSame: st.RolloutIDSame, Hash: "empty"}
	}
	var wl *exWL
	if c.Rng.Intn(12) != 0 {
		w := &exWL{Replicas: R, Generation: 2, ObservedGeneration: 2, StatusReplicas: R, UpdateRevision: "v2", CurrentRevision: "v1"}
		if c.Rng.Intn(10) == 0 {
			w.ObservedGeneration = 1
		}
		// progress of the workload relative to the current batch target
		w.Updated = c.Rng.Intn(R + 1)
		if c.Rng.Intn(2) == 0 && st.CurrentBatch >= 0 && st.CurrentBatch < nb {
			// exactly (or nearly) what the current batch plans
			e := batches[st.CurrentBatch]
			t := 0
			if v, ok := e["p"]; ok {
				t = (v.(int)*R + 99) / 100
			} else {
				t = e["i"].(int)
			}
			if t > R {
				t = R
			}
			w.Updated = t - c.Rng.Intn(2)
			if w.Updated < 0 {
				w.Updated = 0
			}
		}
		w.UpdatedReady = w.Updated
		if c.Rng.Intn(3) == 0 {
			w.UpdatedReady = c.Rng.Intn(w.Updated + 1)
		}
		if c.Rng.Intn(12) == 0 {
			w.UpdateRevision = "v3"
		}
		if c.Rng.Intn(12) == 0 {
			w.UpdateRevision, w.CurrentRevision = "v1", "v1" // rolled back
		}
		switch c.Rng.Intn(6) {
		case 0:
			w.Partition = nil
		case 1:
			w.Partition = J{"p": 100}
		case 2, 3:
			w.Partition = J{"p": c.Rng.Intn(101)}
		default:
			w.Partition = J{"i": c.Rng.Intn(R + 1)}
		}
		w.Paused = c.Rng.Intn(8) == 0
		w.Owner = pickS(c, "this", "this", "this", "this", "none", "other")
		st.Updated, st.UpdatedReady = w.Updated, w.UpdatedReady
		if c.Rng.Intn(6) == 0 {
			st.Updated = c.Rng.Intn(R + 1)
		}
		wl = w
	}
	br.Status = st
	return exIn{BR: br, WL: wl}
}

func pickInt(c *Ctx, xs ...int) int { return xs[c.Rng.Intn(len(xs))] }

func runExecutor(c *Ctx) {
	for i := 0; i < c.N; i++ {
		in := genExecutorCase(c)
		exCase(c, in)
		if i%6 == 0 {
			faultSweep(c, in, c.Thorough() && i%30 == 0, func(n int) faultRun { _, r := exRunF(in, n); return r })
		}
	}
}

func replayExecutor(c *Ctx, op string, raw json.RawMessage) {
	if op == "fault" {
		var f struct {
			In exIn `json:"in"`
			K  int  `json:"k"`
		}
		if err := json.Unmarshal(raw, &f); err != nil {
			panic(err)
		}
		faultReplay(c, f.In, f.K, func(n int) faultRun { _, r := exRunF(f.In, n); return r })
		return
	}
	var in exIn
	if err := json.Unmarshal(raw, &in); err != nil {
		panic(err)
	}
	exCase(c, in)
}
