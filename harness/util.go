package main

import (
	"fmt"
	"regexp"
	"strconv"

	"k8s.io/apimachinery/pkg/util/intstr"
)

// ios canonicalises an IntOrString:
//
//	{"i":n}  integer
//	{"p":n}  string of the exact form "<digits>%" (what the model calls a percent)
//	{"s":raw} any other string
func ios(v intstr.IntOrString) J {
	if v.Type == intstr.Int {
		return J{"i": int(v.IntVal)}
	}
	if n, ok := pctOf(v.StrVal); ok {
		return J{"p": n}
	}
	return J{"s": v.StrVal}
}

// iosOut is ios for implementation outputs: the text of a non-percent string is erased
// (the model only knows "some other string").
func iosOut(v intstr.IntOrString) J {
	j := ios(v)
	if _, ok := j["s"]; ok {
		return J{"s": "?"}
	}
	return j
}

func iosOutPtr(v *intstr.IntOrString) interface{} {
	if v == nil {
		return nil
	}
	return iosOut(*v)
}

func iosPtr(v *intstr.IntOrString) interface{} {
	if v == nil {
		return nil
	}
	return ios(*v)
}

var pctRe = regexp.MustCompile(`^-?(0|[1-9][0-9]{0,8})%$`)

// pctOf recognises canonical percent strings only ("007%" or "+5%" are "s").
func pctOf(s string) (int, bool) {
	if !pctRe.MatchString(s) {
		return 0, false
	}
	n, err := strconv.Atoi(s[:len(s)-1])
	if err != nil {
		return 0, false
	}
	return n, true
}

func pct(n int) intstr.IntOrString { return intstr.FromString(fmt.Sprintf("%d%%", n)) }

// fromIOS rebuilds an IntOrString from its canonical JSON form (used by replay).
func fromIOS(m map[string]interface{}) intstr.IntOrString {
	if v, ok := m["i"]; ok {
		return intstr.FromInt(int(v.(float64)))
	}
	if v, ok := m["p"]; ok {
		return pct(int(v.(float64)))
	}
	return intstr.FromString(m["s"].(string))
}

// guard runs f and maps a panic to the string "panic".
func guard(f func() interface{}) (res interface{}) {
	defer func() {
		if r := recover(); r != nil {
			_ = r
			res = J{"panic": "?"}
		}
	}()
	return f()
}

func i32p(v int32) *int32 { return &v }

// ---- call-level faults (C06): the same action once undisturbed and once per chosen call index with that call failing

type faultRun struct {
	Err, Requeue bool
	Calls        int
	Hit          string
	Writes       []string
}

func writesOf(l *LogClient) []string {
	var ws []string
	for _, r := range l.Log {
		if !r.Err {
			ws = append(ws, r.Verb+" "+r.Kind+" "+r.Key)
		}
	}
	return ws
}

// faultSweep emits one "fault" line per chosen k: {in, k} -> {err, requeue, hit, writes, baseWrites, calls}.
func faultSweep(c *Ctx, in interface{}, all bool, run func(failN int) faultRun) {
	var base faultRun
	if r := guard(func() interface{} { base = run(0); return nil }); r != nil {
		return // the undisturbed action panics: the suite's main op reports that
	}
	if base.Calls == 0 || base.Err {
		return
	}
	ks := []int{}
	if all || base.Calls <= 3 {
		for k := 1; k <= base.Calls; k++ {
			ks = append(ks, k)
		}
	} else {
		ks = append(ks, 1+c.Rng.Intn(base.Calls), 1+c.Rng.Intn(base.Calls), base.Calls)
	}
	for _, k := range ks {
		faultOne(c, in, k, base, run)
	}
}

func faultOne(c *Ctx, in interface{}, k int, base faultRun, run func(failN int) faultRun) {
	impl := guard(func() interface{} {
		r := run(k)
		return J{"err": r.Err, "requeue": r.Requeue, "hit": r.Hit, "writes": r.Writes, "baseWrites": base.Writes, "calls": base.Calls}
	})
	c.Emit("fault", J{"in": in, "k": k}, impl)
}

// faultReplay re-runs one stored "fault" line.
func faultReplay(c *Ctx, in interface{}, k int, run func(failN int) faultRun) {
	var base faultRun
	_ = guard(func() interface{} { base = run(0); return nil })
	faultOne(c, in, k, base, run)
}
