package main

import (
	"fmt"
	"regexp"
	"strconv"

	"k8s.io/apimachinery/pkg/util/intstr"
)

// ios canonicalises an IntOrString:
//
//	{"i":n}  integer
//	{"p":n}  string of the exact form "<digits>%" (what the model calls a percent)
//	{"s":raw} any other string
func ios(v intstr.IntOrString) J {
	if v.Type == intstr.Int {
		return J{"i": int(v.IntVal)}
	}
	if n, ok := pctOf(v.StrVal); ok {
		return J{"p": n}
	}
	return J{"s": v.StrVal}
}

// iosOut is ios for implementation outputs: the text of a non-percent string is erased
// (the model only knows "some other string").
func iosOut(v intstr.IntOrString) J {
	j := ios(v)
	if _, ok := j["s"]; ok {
		return J{"s": "?"}
	}
	return j
}

func iosOutPtr(v *intstr.IntOrString) interface{} {
	if v == nil {
		return nil
	}
	return iosOut(*v)
}

func iosPtr(v *intstr.IntOrString) interface{} {
	if v == nil {
		return nil
	}
	return ios(*v)
}

var pctRe = regexp.MustCompile(`^-?(0|[1-9][0-9]{0,8})%$`)

// pctOf recognises canonical percent strings only ("007%" or "+5%" are "s").
func pctOf(s string) (int, bool) {
	if !pctRe.MatchString(s) {
		return 0, false
	}
	n, err := strconv.Atoi(s[:len(s)-1])
	if err != nil {
		return 0, false
	}
	return n, true
}

func pct(n int) intstr.IntOrString { return intstr.FromString(fmt.Sprintf("%d%%", n)) }

// fromIOS rebuilds an IntOrString from its canonical JSON form (used by replay).
func fromIOS(m map[string]interface{}) intstr.IntOrString {
	if v, ok := m["i"]; ok {
		return intstr.FromInt(int(v.(float64)))
	}
	if v, ok := m["p"]; ok {
		return pct(int(v.(float64)))
	}
	return intstr.FromString(m["s"].(string))
}

// guard runs f and maps a panic to the string "panic".
func guard(f func() interface{}) (res interface{}) {
	defer func() {
		if r := recover(); r != nil {
			_ = r
			res = J{"panic": "?"}
		}
	}()
	return f()
}

func i32p(v int32) *int32 { return &v }
