package main

// Suite ctlbluegreen — the blue-green control planes (Deployment and CloneSet) and the HPA helper.
//
// Real entry points (no hook needed, everything is exported):
//
//	bluegreenstyle.NewControlPlane(bgdeployment.NewController | bgcloneset.NewController, …)
//	    .Initialize() .UpgradeBatch() .Finalize()
//
// Every case is ONE control-plane call from ONE abstract world (mirror of RV.CtlBlueGreen.World):
// the world is concretised into real objects in a fresh fake client wrapped by a fault-injecting
// client (k-th write fails, Get of the workload fails, HPA lists fail), a new control plane is
// built (as every reconcile of the real executor does), the call is made, and the object store is
// abstracted back.  Walks chain such cases (the output world of one call, after an optional
// status change by the "workload controller", is the input world of the next) and carry the
// walk's original user settings along as the ghost `orig` used by the C05 oracles.
// Op "retry" runs the same call four times: with the fault ("first"), again without fault on the result
// ("second"), without fault on the initial world ("direct") and once more on that result ("again")
// (C06 convergence and idempotence).

import (
	"context"
	"encoding/json"
	"fmt"
	"strings"
	"time"

	kruisev1alpha1 "github.com/openkruise/kruise-api/apps/v1alpha1"
	"github.com/openkruise/rollouts/api/v1alpha1"
	"github.com/openkruise/rollouts/api/v1beta1"
	"github.com/openkruise/rollouts/pkg/controller/batchrelease/control"
	"github.com/openkruise/rollouts/pkg/controller/batchrelease/control/bluegreenstyle"
	bgcloneset "github.com/openkruise/rollouts/pkg/controller/batchrelease/control/bluegreenstyle/cloneset"
	bgdeployment "github.com/openkruise/rollouts/pkg/controller/batchrelease/control/bluegreenstyle/deployment"
	"github.com/openkruise/rollouts/pkg/controller/batchrelease/control/bluegreenstyle/hpa"
	"github.com/openkruise/rollouts/pkg/util"
	rerrors "github.com/openkruise/rollouts/pkg/util/errors"
	apps "k8s.io/api/apps/v1"
	apierrors "k8s.io/apimachinery/pkg/api/errors"
	metav1 "k8s.io/apimachinery/pkg/apis/meta/v1"
	"k8s.io/apimachinery/pkg/apis/meta/v1/unstructured"
	"k8s.io/apimachinery/pkg/runtime/schema"
	"k8s.io/apimachinery/pkg/types"
	"k8s.io/apimachinery/pkg/util/intstr"
	"k8s.io/client-go/tools/record"
	"sigs.k8s.io/controller-runtime/pkg/client"
)

func init() { register("ctlbluegreen", runCtlBlueGreen, replayCtlBlueGreen) }

// ---- abstract world (mirrors RV.CtlBlueGreen) ----

type bgSetting struct {
	MaxUnavailable          interface{} `json:"maxUnavailable"` // ios | null
	MaxSurge                interface{} `json:"maxSurge"`
	MinReadySeconds         int         `json:"minReadySeconds"`
	ProgressDeadlineSeconds *int        `json:"progressDeadlineSeconds"`
}

type bgRU struct {
	MaxSurge       interface{} `json:"maxSurge"`
	MaxUnavailable interface{} `json:"maxUnavailable"`
}

type bgStatus struct {
	Replicas     int `json:"replicas"`
	Ready        int `json:"ready"`
	Updated      int `json:"updated"`
	Available    int `json:"available"`
	UpdatedReady int `json:"updatedReady"` // CloneSet only
}

type bgWL struct {
	Replicas                *int        `json:"replicas"`
	Deleting                bool        `json:"deleting"`
	Paused                  bool        `json:"paused"`
	MinReadySeconds         int         `json:"minReadySeconds"`
	ProgressDeadlineSeconds *int        `json:"progressDeadlineSeconds"` // Deployment only
	SType                   string      `json:"stype"`                   // empty | expected | other
	RU                      *bgRU       `json:"ru"`                      // Deployment: strategy.rollingUpdate (nil = absent); CloneSet: always present
	Partition               interface{} `json:"partition"`               // CloneSet only
	Saved                   interface{} `json:"saved"`                   // null | "bad" | bgSetting
	Ctl                     int         `json:"ctl"`                     // -1 none, -2 garbage, u>=0 control-info of BatchRelease u
	StableLabel             bool        `json:"stableLabel"`             // Deployment only
	Status                  bgStatus    `json:"status"`
}

type bgRS struct {
	Zero bool `json:"zero"`
	Mrs  int  `json:"mrs"`
}

type bgHPA struct {
	AV   string `json:"av"`   // absent | same | other
	Kind string `json:"kind"` // same | other
	Name int    `json:"name"` // -1 other workload, k>=0: this workload's name followed by k disabling suffixes
}

type bgWorld struct {
	WL    *bgWL   `json:"wl"`
	RSS   []bgRS  `json:"rss"`
	HpaV2 []bgHPA `json:"hpaV2"`
	HpaV1 []bgHPA `json:"hpaV1"`
}

type bgBR struct {
	UID          int  `json:"uid"`
	Batches      []J  `json:"batches"`
	CurrentBatch int  `json:"currentBatch"`
	Partitioned  bool `json:"partitioned"`
}

type bgFault struct {
	Write  *int `json:"write"` // the k-th (0-based) and every later mutating call fails
	Get    bool `json:"get"`   // Get of the workload fails
	ListV2 bool `json:"listV2"`
	ListV1 bool `json:"listV1"`
}

type bgOrig struct {
	Setting bgSetting `json:"setting"`
	SType   string    `json:"stype"`
}

type bgIn struct {
	Kind  string  `json:"kind"` // deployment | cloneSet
	World bgWorld `json:"world"`
	BR    bgBR    `json:"br"`
	Op    string  `json:"op"` // initialize | upgradeBatch | finalize
	Fault bgFault `json:"fault"`
	Orig  *bgOrig `json:"orig"`
}

const (
	bgNS   = "ns"
	bgName = "wl"
)

func bgIOS(v interface{}) *intstr.IntOrString {
	if v == nil {
		return nil
	}
	if m, ok := v.(map[string]interface{}); ok {
		if x, ok := m["i"]; ok {
			r := intstr.FromInt(bgToInt(x))
			return &r
		}
		if x, ok := m["p"]; ok {
			r := pct(bgToInt(x))
			return &r
		}
		r := intstr.FromString(m["s"].(string))
		return &r
	}
	panic(fmt.Sprintf("bgIOS: %T", v))
}

func bgToInt(x interface{}) int {
	switch t := x.(type) {
	case int:
		return t
	case float64:
		return int(t)
	case int32:
		return int(t)
	}
	panic("bgToInt")
}

func bgSettingOf(v interface{}) (bgSetting, bool) {
	switch t := v.(type) {
	case bgSetting:
		return t, true
	case *bgSetting:
		return *t, true
	case map[string]interface{}:
		b, _ := json.Marshal(t)
		var s bgSetting
		if err := json.Unmarshal(b, &s); err != nil {
			panic(err)
		}
		return s, true
	}
	return bgSetting{}, false
}

func bgSavedAnno(v interface{}) (string, bool) {
	if v == nil {
		return "", false
	}
	if s, ok := v.(string); ok && s == "bad" {
		return "{not json", true
	}
	s, ok := bgSettingOf(v)
	if !ok {
		panic("bad saved")
	}
	st := control.OriginalDeploymentStrategy{MaxUnavailable: bgIOS(s.MaxUnavailable), MaxSurge: bgIOS(s.MaxSurge), MinReadySeconds: int32(s.MinReadySeconds)}
	if s.ProgressDeadlineSeconds != nil {
		st.ProgressDeadlineSeconds = i32p(int32(*s.ProgressDeadlineSeconds))
	}
	return util.DumpJSON(&st), true
}

func bgBRUID(u int) string { return fmt.Sprintf("br-uid-%d", u) }

func bgCtlAnno(c int) (string, bool) {
	switch {
	case c == -1:
		return "", false
	case c == -2:
		return "garbage", true
	}
	return fmt.Sprintf(`{"apiVersion":"rollouts.kruise.io/v1beta1","kind":"BatchRelease","name":"br","uid":"%s","controller":true,"blockOwnerDeletion":true}`, bgBRUID(c)), true
}

func bgMeta(w *bgWL) metav1.ObjectMeta {
	m := metav1.ObjectMeta{Namespace: bgNS, Name: bgName, UID: "wl-uid", Generation: 2, Labels: map[string]string{"app": "demo"}}
	ann := map[string]string{}
	if a, ok := bgSavedAnno(w.Saved); ok {
		ann[v1beta1.OriginalDeploymentStrategyAnnotation] = a
	}
	if a, ok := bgCtlAnno(w.Ctl); ok {
		ann[util.BatchReleaseControlAnnotation] = a
	}
	if len(ann) > 0 {
		m.Annotations = ann
	}
	if w.StableLabel {
		m.Labels[v1alpha1.DeploymentStableRevisionLabel] = "stable-hash"
	}
	if w.Deleting {
		now := metav1.Now()
		m.DeletionTimestamp = &now
		m.Finalizers = []string{"verif/foreign"}
	}
	return m
}

func bgBuildDeployment(w *bgWL) *apps.Deployment {
	d := &apps.Deployment{TypeMeta: metav1.TypeMeta{APIVersion: "apps/v1", Kind: "Deployment"}, ObjectMeta: bgMeta(w)}
	if w.Replicas != nil {
		d.Spec.Replicas = i32p(int32(*w.Replicas))
	}
	d.Spec.Selector = &metav1.LabelSelector{MatchLabels: selLabels}
	d.Spec.Template = podTemplate()
	d.Spec.Paused = w.Paused
	d.Spec.MinReadySeconds = int32(w.MinReadySeconds)
	if w.ProgressDeadlineSeconds != nil {
		d.Spec.ProgressDeadlineSeconds = i32p(int32(*w.ProgressDeadlineSeconds))
	}
	switch w.SType {
	case "expected":
		d.Spec.Strategy.Type = apps.RollingUpdateDeploymentStrategyType
	case "other":
		d.Spec.Strategy.Type = apps.RecreateDeploymentStrategyType
	}
	if w.RU != nil {
		d.Spec.Strategy.RollingUpdate = &apps.RollingUpdateDeployment{MaxSurge: bgIOS(w.RU.MaxSurge), MaxUnavailable: bgIOS(w.RU.MaxUnavailable)}
	}
	s := w.Status
	d.Status = apps.DeploymentStatus{ObservedGeneration: 2, Replicas: int32(s.Replicas), ReadyReplicas: int32(s.Ready),
		UpdatedReplicas: int32(s.Updated), AvailableReplicas: int32(s.Available)}
	return d
}

func bgBuildCloneSet(w *bgWL) *kruisev1alpha1.CloneSet {
	c := &kruisev1alpha1.CloneSet{TypeMeta: metav1.TypeMeta{APIVersion: "apps.kruise.io/v1alpha1", Kind: "CloneSet"}, ObjectMeta: bgMeta(w)}
	if w.Replicas != nil {
		c.Spec.Replicas = i32p(int32(*w.Replicas))
	}
	c.Spec.Selector = &metav1.LabelSelector{MatchLabels: selLabels}
	c.Spec.Template = podTemplate()
	c.Spec.UpdateStrategy.Paused = w.Paused
	c.Spec.MinReadySeconds = int32(w.MinReadySeconds)
	switch w.SType {
	case "expected":
		c.Spec.UpdateStrategy.Type = kruisev1alpha1.RecreateCloneSetUpdateStrategyType
	case "other":
		c.Spec.UpdateStrategy.Type = kruisev1alpha1.InPlaceIfPossibleCloneSetUpdateStrategyType
	}
	if w.RU != nil {
		c.Spec.UpdateStrategy.MaxSurge = bgIOS(w.RU.MaxSurge)
		c.Spec.UpdateStrategy.MaxUnavailable = bgIOS(w.RU.MaxUnavailable)
	}
	c.Spec.UpdateStrategy.Partition = bgIOS(w.Partition)
	s := w.Status
	c.Status = kruisev1alpha1.CloneSetStatus{ObservedGeneration: 2, Replicas: int32(s.Replicas), ReadyReplicas: int32(s.Ready),
		UpdatedReplicas: int32(s.Updated), AvailableReplicas: int32(s.Available), UpdatedReadyReplicas: int32(s.UpdatedReady),
		UpdateRevision: "v2", CurrentRevision: "v1"}
	return c
}

var bgEpoch = time.Date(2024, 1, 1, 0, 0, 0, 0, time.UTC)

func bgBuildRS(i int, r bgRS) *apps.ReplicaSet {
	rs := &apps.ReplicaSet{TypeMeta: metav1.TypeMeta{APIVersion: "apps/v1", Kind: "ReplicaSet"}}
	rs.Namespace, rs.Name, rs.UID = bgNS, fmt.Sprintf("rs-%d", i), types.UID(fmt.Sprintf("rs-uid-%d", i))
	rs.Labels = map[string]string{"app": "demo", apps.DefaultDeploymentUniqueLabelKey: fmt.Sprintf("h%d", i)}
	rs.CreationTimestamp = metav1.NewTime(bgEpoch.Add(time.Duration(i) * time.Hour))
	t := true
	rs.OwnerReferences = []metav1.OwnerReference{{APIVersion: "apps/v1", Kind: "Deployment", Name: bgName, UID: "wl-uid", Controller: &t}}
	n := int32(3)
	if r.Zero {
		n = 0
	}
	rs.Spec.Replicas = &n
	rs.Spec.MinReadySeconds = int32(r.Mrs)
	rs.Spec.Selector = &metav1.LabelSelector{MatchLabels: selLabels}
	rs.Spec.Template = podTemplate()
	rs.Spec.Template.Spec.Containers[0].Image = fmt.Sprintf("img:rs%d", i)
	return rs
}

func bgGVK(kind string) (string, string) {
	if kind == "deployment" {
		return "apps/v1", "Deployment"
	}
	return "apps.kruise.io/v1alpha1", "CloneSet"
}

func bgHPAName(ver string, i int) string { return fmt.Sprintf("hpa-%s-%02d", ver, i) }

func bgBuildHPA(kind, ver string, i int, h bgHPA) *unstructured.Unstructured {
	u := &unstructured.Unstructured{}
	u.SetGroupVersionKind(schema.GroupVersionKind{Group: "autoscaling", Version: ver, Kind: "HorizontalPodAutoscaler"})
	u.SetNamespace(bgNS)
	u.SetName(bgHPAName(ver, i))
	av, k := bgGVK(kind)
	ref := map[string]interface{}{}
	switch h.AV {
	case "same":
		ref["apiVersion"] = av
	case "other":
		ref["apiVersion"] = "extensions/v1beta1"
	}
	if h.Kind == "same" {
		ref["kind"] = k
	} else {
		ref["kind"] = "StatefulSet"
	}
	if h.Name < 0 {
		ref["name"] = "zz"
	} else {
		ref["name"] = bgName + strings.Repeat(hpa.HPADisableSuffix, h.Name)
	}
	_ = unstructured.SetNestedField(u.Object, ref, "spec", "scaleTargetRef")
	_ = unstructured.SetNestedField(u.Object, int64(5), "spec", "maxReplicas")
	return u
}

func bgObjects(kind string, w bgWorld) []client.Object {
	var objs []client.Object
	if w.WL != nil {
		if kind == "deployment" {
			objs = append(objs, bgBuildDeployment(w.WL))
		} else {
			objs = append(objs, bgBuildCloneSet(w.WL))
		}
	}
	for i, r := range w.RSS {
		objs = append(objs, bgBuildRS(i, r))
	}
	for i, h := range w.HpaV2 {
		objs = append(objs, bgBuildHPA(kind, "v2", i, h))
	}
	for i, h := range w.HpaV1 {
		objs = append(objs, bgBuildHPA(kind, "v1", i, h))
	}
	return objs
}

// ---- fault-injecting reads (writes are failed by LogClient.FailAt) ----

type bgFaultClient struct {
	client.Client
	f bgFault
}

func (c *bgFaultClient) Get(ctx context.Context, key client.ObjectKey, obj client.Object, opts ...client.GetOption) error {
	if c.f.Get && key.Name == bgName {
		return fmt.Errorf("injected get fault")
	}
	return c.Client.Get(ctx, key, obj, opts...)
}

func (c *bgFaultClient) List(ctx context.Context, list client.ObjectList, opts ...client.ListOption) error {
	if u, ok := list.(*unstructured.UnstructuredList); ok && u.GroupVersionKind().Group == "autoscaling" {
		if v := u.GroupVersionKind().Version; v == "v2" && c.f.ListV2 || v == "v1" && c.f.ListV1 {
			return fmt.Errorf("injected list fault")
		}
	}
	return c.Client.List(ctx, list, opts...)
}

// ---- abstraction of the object store ----

func bgAbsIOS(v *intstr.IntOrString) interface{} {
	if v == nil {
		return nil
	}
	return iosOut(*v)
}

func bgAbsAnno(ann map[string]string, w *bgWL) {
	w.Saved = nil
	if a := ann[v1beta1.OriginalDeploymentStrategyAnnotation]; a != "" {
		var st control.OriginalDeploymentStrategy
		if err := json.Unmarshal([]byte(a), &st); err != nil {
			w.Saved = "bad"
		} else {
			s := bgSetting{MaxUnavailable: bgAbsIOS(st.MaxUnavailable), MaxSurge: bgAbsIOS(st.MaxSurge), MinReadySeconds: int(st.MinReadySeconds)}
			if st.ProgressDeadlineSeconds != nil {
				n := int(*st.ProgressDeadlineSeconds)
				s.ProgressDeadlineSeconds = &n
			}
			w.Saved = s
		}
	}
	w.Ctl = -1
	if a := ann[util.BatchReleaseControlAnnotation]; a != "" {
		w.Ctl = -2
		ref := &metav1.OwnerReference{}
		if json.Unmarshal([]byte(a), ref) == nil {
			var u int
			if n, _ := fmt.Sscanf(string(ref.UID), "br-uid-%d", &u); n == 1 {
				w.Ctl = u
			}
		}
	}
}

func bgAbstract(kind string, cli client.Client, in bgWorld) bgWorld {
	ctx := context.TODO()
	out := bgWorld{RSS: []bgRS{}, HpaV2: []bgHPA{}, HpaV1: []bgHPA{}}
	key := types.NamespacedName{Namespace: bgNS, Name: bgName}
	if kind == "deployment" {
		d := &apps.Deployment{}
		if err := cli.Get(ctx, key, d); err == nil {
			w := &bgWL{Deleting: d.DeletionTimestamp != nil, Paused: d.Spec.Paused, MinReadySeconds: int(d.Spec.MinReadySeconds)}
			if d.Spec.Replicas != nil {
				n := int(*d.Spec.Replicas)
				w.Replicas = &n
			}
			if d.Spec.ProgressDeadlineSeconds != nil {
				n := int(*d.Spec.ProgressDeadlineSeconds)
				w.ProgressDeadlineSeconds = &n
			}
			switch d.Spec.Strategy.Type {
			case "":
				w.SType = "empty"
			case apps.RollingUpdateDeploymentStrategyType:
				w.SType = "expected"
			default:
				w.SType = "other"
			}
			if ru := d.Spec.Strategy.RollingUpdate; ru != nil {
				w.RU = &bgRU{MaxSurge: bgAbsIOS(ru.MaxSurge), MaxUnavailable: bgAbsIOS(ru.MaxUnavailable)}
			}
			bgAbsAnno(d.Annotations, w)
			_, w.StableLabel = d.Labels[v1alpha1.DeploymentStableRevisionLabel]
			w.Status = bgStatus{Replicas: int(d.Status.Replicas), Ready: int(d.Status.ReadyReplicas), Updated: int(d.Status.UpdatedReplicas), Available: int(d.Status.AvailableReplicas)}
			out.WL = w
		}
	} else {
		c := &kruisev1alpha1.CloneSet{}
		if err := cli.Get(ctx, key, c); err == nil {
			w := &bgWL{Deleting: c.DeletionTimestamp != nil, Paused: c.Spec.UpdateStrategy.Paused, MinReadySeconds: int(c.Spec.MinReadySeconds)}
			if c.Spec.Replicas != nil {
				n := int(*c.Spec.Replicas)
				w.Replicas = &n
			}
			switch c.Spec.UpdateStrategy.Type {
			case "":
				w.SType = "empty"
			case kruisev1alpha1.RecreateCloneSetUpdateStrategyType:
				w.SType = "expected"
			default:
				w.SType = "other"
			}
			w.RU = &bgRU{MaxSurge: bgAbsIOS(c.Spec.UpdateStrategy.MaxSurge), MaxUnavailable: bgAbsIOS(c.Spec.UpdateStrategy.MaxUnavailable)}
			w.Partition = bgAbsIOS(c.Spec.UpdateStrategy.Partition)
			bgAbsAnno(c.Annotations, w)
			w.Status = bgStatus{Replicas: int(c.Status.Replicas), Ready: int(c.Status.ReadyReplicas), Updated: int(c.Status.UpdatedReplicas),
				Available: int(c.Status.AvailableReplicas), UpdatedReady: int(c.Status.UpdatedReadyReplicas)}
			out.WL = w
		}
	}
	for i := range in.RSS {
		rs := &apps.ReplicaSet{}
		if err := cli.Get(ctx, types.NamespacedName{Namespace: bgNS, Name: fmt.Sprintf("rs-%d", i)}, rs); err == nil {
			out.RSS = append(out.RSS, bgRS{Zero: rs.Spec.Replicas != nil && *rs.Spec.Replicas == 0, Mrs: int(rs.Spec.MinReadySeconds)})
		}
	}
	av, k := bgGVK(kind)
	abs := func(ver string, n int) []bgHPA {
		res := []bgHPA{}
		for i := 0; i < n; i++ {
			u := &unstructured.Unstructured{}
			u.SetGroupVersionKind(schema.GroupVersionKind{Group: "autoscaling", Version: ver, Kind: "HorizontalPodAutoscaler"})
			if err := cli.Get(ctx, types.NamespacedName{Namespace: bgNS, Name: bgHPAName(ver, i)}, u); err != nil {
				continue
			}
			ref, _, _ := unstructured.NestedMap(u.Object, "spec", "scaleTargetRef")
			h := bgHPA{AV: "other", Kind: "other", Name: -1}
			if v, ok := ref["apiVersion"].(string); !ok || v == "" {
				h.AV = "absent"
			} else if v == av {
				h.AV = "same"
			}
			if v, _ := ref["kind"].(string); v == k {
				h.Kind = "same"
			}
			name, _ := ref["name"].(string)
			cnt := 0
			for strings.HasSuffix(name, hpa.HPADisableSuffix) {
				name = strings.TrimSuffix(name, hpa.HPADisableSuffix)
				cnt++
			}
			if name == bgName {
				h.Name = cnt
			}
			res = append(res, h)
		}
		return res
	}
	out.HpaV2 = abs("v2", len(in.HpaV2))
	out.HpaV1 = abs("v1", len(in.HpaV1))
	return out
}

// ---- running one control-plane call ----

func bgRelease(kind string, b bgBR) *v1beta1.BatchRelease {
	r := &v1beta1.BatchRelease{TypeMeta: metav1.TypeMeta{APIVersion: "rollouts.kruise.io/v1beta1", Kind: "BatchRelease"}}
	r.Namespace, r.Name, r.UID = bgNS, "br", types.UID(bgBRUID(b.UID))
	av, k := bgGVK(kind)
	r.Spec.WorkloadRef = v1beta1.ObjectRef{APIVersion: av, Kind: k, Name: bgName}
	r.Spec.ReleasePlan.RollingStyle = v1beta1.BlueGreenRollingStyle
	for _, e := range b.Batches {
		r.Spec.ReleasePlan.Batches = append(r.Spec.ReleasePlan.Batches, v1beta1.ReleaseBatch{CanaryReplicas: *bgIOS(e)})
	}
	if b.Partitioned {
		r.Spec.ReleasePlan.BatchPartition = i32p(int32(b.CurrentBatch))
	}
	r.Status.CanaryStatus.CurrentBatch = int32(b.CurrentBatch)
	r.Status.ObservedWorkloadReplicas = -1
	return r
}

func bgErrKind(err error) string {
	switch {
	case err == nil:
		return "ok"
	case rerrors.IsRetryError(err):
		return "retry"
	case rerrors.IsBadRequest(err):
		return "badRequest"
	case apierrors.IsNotFound(err):
		return "notFound"
	}
	return "err"
}

type bgCallOut struct {
	World    bgWorld `json:"world"`
	Res      string  `json:"res"`
	Writes   int     `json:"writes"`
	Observed *int    `json:"observed"` // status.observedWorkloadReplicas recorded by Initialize (null = not recorded)
}

func bgCall(kind string, w bgWorld, b bgBR, op string, f bgFault) bgCallOut {
	base := fakeClient(bgObjects(kind, w)...)
	lc := NewLogClient(base)
	if f.Write != nil {
		lc.FailAt = *f.Write
	}
	cli := &bgFaultClient{Client: lc, f: f}
	rel := bgRelease(kind, b)
	ns := rel.Status.DeepCopy()
	av, k := bgGVK(kind)
	gvk := schema.FromAPIVersionAndKind(av, k)
	key := types.NamespacedName{Namespace: bgNS, Name: bgName}
	var nf bluegreenstyle.NewInterfaceFunc = bgdeployment.NewController
	if kind != "deployment" {
		nf = bgcloneset.NewController
	}
	cp := bluegreenstyle.NewControlPlane(nf, cli, record.NewFakeRecorder(100), rel, ns, key, gvk)
	var err error
	switch op {
	case "initialize":
		err = cp.Initialize()
	case "upgradeBatch":
		err = cp.UpgradeBatch()
	case "finalize":
		err = cp.Finalize()
	default:
		panic("bg: unknown op " + op)
	}
	out := bgCallOut{World: bgAbstract(kind, base, w), Res: bgErrKind(err), Writes: lc.Writes()}
	if ns.ObservedWorkloadReplicas != -1 {
		n := int(ns.ObservedWorkloadReplicas)
		out.Observed = &n
	}
	return out
}

func bgStep(c *Ctx, in bgIn) interface{} {
	impl := guard(func() interface{} { return bgCall(in.Kind, in.World, in.BR, in.Op, in.Fault) })
	c.Emit("step", in, impl)
	return impl
}

func bgRetry(c *Ctx, in bgIn) {
	impl := guard(func() interface{} {
		first := bgCall(in.Kind, in.World, in.BR, in.Op, in.Fault)
		second := bgCall(in.Kind, first.World, in.BR, in.Op, bgFault{})
		direct := bgCall(in.Kind, in.World, in.BR, in.Op, bgFault{})
		again := bgCall(in.Kind, direct.World, in.BR, in.Op, bgFault{})
		return J{"first": first, "second": second, "direct": direct, "again": again}
	})
	c.Emit("retry", in, impl)
}

// ---- generators ----

const (
	bgMaxReady    = v1beta1.MaxReadySeconds
	bgMaxProgress = v1beta1.MaxProgressSeconds
)

func bgGenIOS(c *Ctx, R int, allowNil bool) interface{} {
	switch c.Rng.Intn(12) {
	case 0:
		if allowNil {
			return nil
		}
		return J{"i": 1}
	case 1:
		return J{"i": 0}
	case 2:
		return J{"i": 1}
	case 3, 4:
		return J{"i": c.Rng.Intn(R + 2)}
	case 5:
		return J{"p": 100}
	case 6:
		return J{"p": 0}
	case 7:
		if c.Rng.Intn(3) == 0 {
			return J{"s": "bad"}
		}
		return J{"p": 25}
	default:
		return J{"p": c.Rng.Intn(101)}
	}
}

func bgMin(a, b int) int {
	if a < b {
		return a
	}
	return b
}

func bgGenStatus(c *Ctx, kind string, R int, healthy bool) bgStatus {
	s := bgGenStatus0(c, R, healthy)
	if kind == "deployment" {
		s.UpdatedReady = 0 // a Deployment's status has no such field
	}
	return s
}

func bgGenStatus0(c *Ctx, R int, healthy bool) bgStatus {
	if healthy {
		return bgStatus{Replicas: R, Ready: R, Updated: R, Available: R, UpdatedReady: R}
	}
	s := bgStatus{Replicas: R + c.Rng.Intn(3)}
	s.Updated = c.Rng.Intn(s.Replicas + 1)
	s.Ready = c.Rng.Intn(s.Replicas + 1)
	if c.Rng.Intn(2) == 0 {
		s.Ready = s.Updated
	}
	s.Available = c.Rng.Intn(s.Ready + 1)
	if c.Rng.Intn(2) == 0 {
		s.Available = s.Ready
	}
	s.UpdatedReady = c.Rng.Intn(bgMin(s.Updated, s.Ready) + 1)
	if c.Rng.Intn(2) == 0 {
		s.UpdatedReady = s.Ready
	}
	return s
}

// a workload as the user configured it and the admission webhook prepared it for a release
func bgGenFreshWL(c *Ctx, kind string) *bgWL {
	R := 1 + c.Rng.Intn(12)
	if c.Rng.Intn(10) == 0 {
		R = 0
	}
	if c.Rng.Intn(12) == 0 {
		R = 50 + c.Rng.Intn(200)
	}
	w := &bgWL{Replicas: &R, Ctl: -1, SType: "expected"}
	w.MinReadySeconds = pickInt(c, 0, 0, 0, 5, 30, c.Rng.Intn(100))
	w.RU = &bgRU{MaxSurge: bgGenIOS(c, R, kind != "deployment" || c.Rng.Intn(8) == 0), MaxUnavailable: bgGenIOS(c, R, c.Rng.Intn(8) == 0)}
	if kind == "deployment" {
		w.Paused = c.Rng.Intn(8) != 0
		if c.Rng.Intn(6) != 0 {
			n := pickInt(c, 600, 600, 30, 1200)
			w.ProgressDeadlineSeconds = &n
		}
		w.StableLabel = c.Rng.Intn(4) != 0
		switch c.Rng.Intn(14) {
		case 0:
			w.SType = "other"
			w.RU = nil
		case 1:
			w.SType = "empty"
		case 2:
			w.RU = nil
		}
	} else {
		w.Paused = c.Rng.Intn(8) == 0
		w.Partition = J{"p": 100}
		switch c.Rng.Intn(10) {
		case 0:
			w.Partition = nil
		case 1:
			w.Partition = bgGenIOS(c, R, true)
		}
		switch c.Rng.Intn(14) {
		case 0:
			w.SType = "other"
		case 1:
			w.SType = "empty"
		}
	}
	w.Status = bgGenStatus(c, kind, R, c.Rng.Intn(3) != 0)
	if w.Status.Updated == R && c.Rng.Intn(2) == 0 {
		// a release starts with no pod of the new revision
		w.Status.Updated, w.Status.UpdatedReady = 0, 0
	}
	return w
}

func bgGenHPAs(c *Ctx) ([]bgHPA, []bgHPA) {
	distractor := func() bgHPA {
		switch c.Rng.Intn(4) {
		case 0:
			return bgHPA{AV: "same", Kind: "same", Name: -1}
		case 1:
			return bgHPA{AV: "other", Kind: "same", Name: c.Rng.Intn(2)}
		case 2:
			return bgHPA{AV: "same", Kind: "other", Name: c.Rng.Intn(2)}
		}
		return bgHPA{AV: "other", Kind: "other", Name: -1}
	}
	mk := func(match, absent bool) []bgHPA {
		l := []bgHPA{}
		for i, n := 0, c.Rng.Intn(3); i < n; i++ {
			l = append(l, distractor())
		}
		if absent {
			// a scaleTargetRef without apiVersion (legal for the API server; read as "" it matches no workload)
			l = append(l, bgHPA{AV: "absent", Kind: pickS(c, "same", "other"), Name: pickInt(c, -1, 0)})
		}
		if match {
			k := 0
			if c.Rng.Intn(6) == 0 {
				k = 1 + c.Rng.Intn(2)
			}
			l = append(l, bgHPA{AV: "same", Kind: "same", Name: k})
		}
		c.Rng.Shuffle(len(l), func(i, j int) { l[i], l[j] = l[j], l[i] })
		return l
	}
	switch c.Rng.Intn(10) {
	case 0, 1:
		return mk(false, false), mk(false, false)
	case 2, 3, 4:
		return mk(true, false), mk(false, false)
	case 5, 6, 7:
		return mk(false, false), mk(true, false)
	case 8:
		return mk(true, false), mk(true, false)
	}
	if c.Rng.Intn(3) == 0 {
		return mk(false, c.Rng.Intn(2) == 0), mk(c.Rng.Intn(2) == 0, true)
	}
	return mk(false, true), mk(c.Rng.Intn(2) == 0, false)
}

func bgGenRSS(c *Ctx, kind string) []bgRS {
	l := []bgRS{}
	if kind != "deployment" {
		return l
	}
	for i, n := 0, c.Rng.Intn(4); i < n; i++ {
		l = append(l, bgRS{Zero: c.Rng.Intn(4) == 0, Mrs: pickInt(c, 0, 0, 5, bgMaxReady)})
	}
	return l
}

func bgGenBatches(c *Ctx, R int) []J {
	nb := 1 + c.Rng.Intn(4)
	var bs []J
	acc := 0
	pcts := c.Rng.Intn(2) == 0
	for i := 0; i < nb; i++ {
		if c.Rng.Intn(8) == 0 {
			pcts = !pcts // mixed plans
		}
		if pcts {
			acc += 1 + c.Rng.Intn(50)
			if acc > 100 || i == nb-1 && c.Rng.Intn(2) == 0 {
				acc = 100
			}
			bs = append(bs, J{"p": acc})
		} else {
			bs = append(bs, J{"i": c.Rng.Intn(R + 2)})
		}
	}
	if c.Rng.Intn(40) == 0 {
		bs[c.Rng.Intn(len(bs))] = J{"s": "bad"}
	}
	return bs
}

func bgGenFault(c *Ctx) bgFault {
	f := bgFault{}
	switch c.Rng.Intn(10) {
	case 0, 1, 2:
		k := c.Rng.Intn(3)
		f.Write = &k
	case 3:
		f.ListV2, f.ListV1 = c.Rng.Intn(2) == 0, c.Rng.Intn(2) == 0
		if !f.ListV2 && !f.ListV1 {
			f.ListV1, f.ListV2 = true, true
		}
	case 4:
		if c.Rng.Intn(3) == 0 {
			f.Get = true
		}
	}
	return f
}

// effective user settings of a workload that carries no saved annotation (mirror of RV.CtlBlueGreen.effSetting)
func bgEffSetting(kind string, w *bgWL) bgSetting {
	defS, defU := interface{}(J{"p": 25}), interface{}(J{"p": 25})
	if kind != "deployment" {
		defS, defU = J{"p": 0}, J{"p": 20}
	}
	s := bgSetting{MaxSurge: defS, MaxUnavailable: defU, MinReadySeconds: w.MinReadySeconds}
	if w.RU != nil {
		if w.RU.MaxSurge != nil {
			s.MaxSurge = w.RU.MaxSurge
		}
		if w.RU.MaxUnavailable != nil {
			s.MaxUnavailable = w.RU.MaxUnavailable
		}
	}
	if kind == "deployment" {
		n := 600
		if w.ProgressDeadlineSeconds != nil {
			n = *w.ProgressDeadlineSeconds
		}
		s.ProgressDeadlineSeconds = &n
	}
	return s
}

func bgWorldOf(v interface{}) (bgWorld, bool) {
	o, ok := v.(bgCallOut)
	if !ok {
		return bgWorld{}, false
	}
	// deep copy through JSON so that the next step's mutations do not alias emitted data
	b, _ := json.Marshal(o.World)
	var w bgWorld
	_ = json.Unmarshal(b, &w)
	return w, true
}

// one release as the executor drives it: initialize ; (upgradeBatch | initialize)* ; finalize+,
// with faults in any attempt and the workload controller changing the status in between
func bgWalk(c *Ctx, kind string) {
	wl := bgGenFreshWL(c, kind)
	v2, v1 := bgGenHPAs(c)
	world := bgWorld{WL: wl, RSS: bgGenRSS(c, kind), HpaV2: v2, HpaV1: v1}
	orig := &bgOrig{Setting: bgEffSetting(kind, wl), SType: wl.SType}
	R := 0
	if wl.Replicas != nil {
		R = *wl.Replicas
	}
	br := bgBR{UID: 0, Batches: bgGenBatches(c, R), Partitioned: true}
	takeover := c.Rng.Intn(12) == 0 // a second BatchRelease (other UID) takes the workload over mid-way
	step := func(op string, f bgFault) (string, bool) {
		in := bgIn{Kind: kind, World: world, BR: br, Op: op, Fault: f, Orig: orig}
		if c.Rng.Intn(6) == 0 {
			// the same call from the same mid-release world: cut short by a write fault, then repeated
			rin := in
			k := c.Rng.Intn(3)
			rin.Fault = bgFault{Write: &k}
			rin.Orig = nil
			bgRetry(c, rin)
		}
		impl := bgStep(c, in)
		w, ok := bgWorldOf(impl)
		if !ok {
			return "panic", false
		}
		world = w
		return impl.(bgCallOut).Res, true
	}
	env := func(final bool) {
		if world.WL == nil {
			return
		}
		R := 0
		if world.WL.Replicas != nil {
			R = *world.WL.Replicas
		}
		if final && c.Rng.Intn(3) != 0 {
			world.WL.Status = bgGenStatus(c, kind, R, true)
		} else if c.Rng.Intn(2) == 0 {
			world.WL.Status = bgGenStatus(c, kind, R, c.Rng.Intn(3) == 0)
		}
	}
	// initialize until it succeeds (bounded)
	for i := 0; i < 4; i++ {
		f := bgFault{}
		if i < 2 && c.Rng.Intn(3) == 0 {
			f = bgGenFault(c)
		}
		res, ok := step("initialize", f)
		if !ok {
			return
		}
		if res == "ok" && c.Rng.Intn(4) != 0 {
			break
		}
	}
	nUp := c.Rng.Intn(2*len(br.Batches) + 1)
	for i := 0; i < nUp; i++ {
		env(false)
		if takeover && c.Rng.Intn(3) == 0 {
			br.UID = 1
			takeover = false
		}
		op := "upgradeBatch"
		if c.Rng.Intn(5) == 0 {
			op = "initialize"
		}
		f := bgFault{}
		if c.Rng.Intn(4) == 0 {
			f = bgGenFault(c)
		}
		res, ok := step(op, f)
		if !ok {
			return
		}
		if op == "upgradeBatch" && res == "ok" && br.CurrentBatch+1 < len(br.Batches) && c.Rng.Intn(2) == 0 {
			br.CurrentBatch++
		}
	}
	// finalize: the Rollout clears batchPartition (rarely the BatchRelease is deleted with it still set)
	br.Partitioned = c.Rng.Intn(15) == 0
	for i := 0; i < 5; i++ {
		env(i >= 1)
		f := bgFault{}
		if i < 3 && c.Rng.Intn(3) == 0 {
			f = bgGenFault(c)
		}
		res, ok := step("finalize", f)
		if !ok {
			return
		}
		if res == "ok" && c.Rng.Intn(3) != 0 {
			break
		}
	}
}

// an arbitrary single world (also malformed: unparsable annotations, nil replicas, foreign control-info)
func bgGenAny(c *Ctx, kind string) bgIn {
	wl := bgGenFreshWL(c, kind)
	R := 0
	if wl.Replicas != nil {
		R = *wl.Replicas
	}
	switch c.Rng.Intn(4) {
	case 0: // as left by Initialize
		s := bgEffSetting(kind, wl)
		wl.Saved = s
		wl.Ctl = pickInt(c, 0, 0, 0, 1)
		wl.MinReadySeconds = bgMaxReady
		wl.RU = &bgRU{MaxSurge: J{"i": 1}, MaxUnavailable: J{"i": 0}}
		if c.Rng.Intn(2) == 0 {
			wl.RU.MaxSurge = bgGenIOS(c, R, false)
			wl.Partition = nil
			if kind == "deployment" {
				wl.Paused = false
			}
		}
		if kind == "deployment" {
			n := bgMaxProgress
			wl.ProgressDeadlineSeconds = &n
			wl.SType = "expected"
		}
		// someone edited one of the fields UpgradeBatch insists on
		switch c.Rng.Intn(14) {
		case 0:
			wl.MinReadySeconds = pickInt(c, 0, 5)
		case 1:
			if kind == "deployment" {
				n := 600
				wl.ProgressDeadlineSeconds = &n
				if c.Rng.Intn(2) == 0 {
					wl.ProgressDeadlineSeconds = nil
				}
			} else {
				wl.RU.MaxUnavailable = J{"i": 1}
			}
		case 2:
			wl.SType = pickS(c, "other", "empty")
		case 3:
			if kind == "deployment" {
				wl.RU = nil
			}
		case 4:
			wl.Ctl = -1
		case 5:
			wl.RU.MaxUnavailable = bgGenIOS(c, R, true)
		}
	case 1: // arbitrary annotations
		switch c.Rng.Intn(5) {
		case 0:
			wl.Saved = "bad"
		case 1:
			wl.Saved = bgSetting{}
		case 2:
			s := bgEffSetting(kind, wl)
			if c.Rng.Intn(2) == 0 {
				s.MaxSurge = nil
			}
			if c.Rng.Intn(2) == 0 {
				s.MaxUnavailable = nil
			}
			if c.Rng.Intn(2) == 0 {
				s.ProgressDeadlineSeconds = nil
			}
			s.MinReadySeconds = pickInt(c, 0, 7)
			wl.Saved = s
		}
		wl.Ctl = pickInt(c, -1, -2, 0, 1)
		if c.Rng.Intn(3) == 0 {
			wl.MinReadySeconds = bgMaxReady
			if kind == "deployment" {
				n := bgMaxProgress
				wl.ProgressDeadlineSeconds = &n
			}
		}
	}
	if c.Rng.Intn(30) == 0 {
		wl.Replicas = nil
	}
	if c.Rng.Intn(25) == 0 {
		wl.Deleting = true
	}
	v2, v1 := bgGenHPAs(c)
	world := bgWorld{WL: wl, RSS: bgGenRSS(c, kind), HpaV2: v2, HpaV1: v1}
	if c.Rng.Intn(25) == 0 {
		world.WL = nil
	}
	br := bgBR{UID: 0, Batches: bgGenBatches(c, R), Partitioned: c.Rng.Intn(3) == 0}
	br.CurrentBatch = c.Rng.Intn(len(br.Batches))
	if c.Rng.Intn(40) == 0 {
		br.CurrentBatch = pickInt(c, -1, len(br.Batches))
	}
	return bgIn{Kind: kind, World: world, BR: br, Op: pickS(c, "initialize", "upgradeBatch", "upgradeBatch", "finalize"), Fault: bgGenFault(c)}
}

func runCtlBlueGreen(c *Ctx) {
	for c.Count < c.N {
		kind := pickS(c, "deployment", "cloneSet")
		switch c.Rng.Intn(10) {
		case 0, 1, 2:
			bgWalk(c, kind)
		case 3, 4, 5, 6:
			in := bgGenAny(c, kind)
			if in.Fault.Write == nil && !in.Fault.Get && !in.Fault.ListV1 && !in.Fault.ListV2 {
				k := c.Rng.Intn(3)
				in.Fault.Write = &k
			}
			bgRetry(c, in)
		default:
			bgStep(c, bgGenAny(c, kind))
		}
	}
}

func replayCtlBlueGreen(c *Ctx, op string, raw json.RawMessage) {
	var in bgIn
	if err := json.Unmarshal(raw, &in); err != nil {
		panic(err)
	}
	switch op {
	case "retry":
		bgRetry(c, in)
	default:
		bgStep(c, in)
	}
}
