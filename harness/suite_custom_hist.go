package main

// suite "custom", op "hist" — C15 on histories that contain events by others and API faults.
//
// One case = one history on a fresh fake API server:
//
//	add      a ref (VirtualService / DestinationRule / generated kind + script) to a new pristine object is
//	         appended to customNetworkRefs
//	step     the real EnsureRoutes (a fresh provider built from the *current* ref list, as the rollout
//	         controller does on every reconcile); "fail": k = the API server refuses the k-th (0-based)
//	         write of this call and every later one (LogClient.FailAt).  After a successful call the same
//	         call is repeated on a client that refuses every write (idempotence: same objects, done, and not
//	         a single Update issued) and every script is run once more on the
//	         configuration the user last wrote for that ref (statelessness reference)
//	fin      the real Finalise, same fault model
//	write    the user deletes and re-creates / replaces the object of ref i from a manifest (no provider annotation)
//	delete   the object of ref i is deleted
//	remove   ref i is taken out of customNetworkRefs (its object stays as the provider left it)
//	readd    the j-th removed ref is appended again
//
// Output per event: {"res": result|null, "objs": [active objects], "parked": [removed refs' objects]}
// (+ "res2","same2","fresh" after a successful step).  Canonical forms as in suite_custom.go.

import (
	"context"
	"encoding/json"
	"fmt"

	"github.com/openkruise/rollouts/api/v1beta1"
	custom "github.com/openkruise/rollouts/pkg/trafficrouting/network/customNetworkProvider"
	"github.com/openkruise/rollouts/pkg/util"
	"github.com/openkruise/rollouts/pkg/util/configuration"
	corev1 "k8s.io/api/core/v1"
	"k8s.io/apimachinery/pkg/api/errors"
	metav1 "k8s.io/apimachinery/pkg/apis/meta/v1"
	"k8s.io/apimachinery/pkg/apis/meta/v1/unstructured"
	"k8s.io/apimachinery/pkg/runtime/schema"
	"k8s.io/apimachinery/pkg/types"
	"sigs.k8s.io/controller-runtime/pkg/client"
	"sigs.k8s.io/controller-runtime/pkg/client/fake"
)

type cuHistEvent struct {
	Ev       string        `json:"ev"`
	Ref      *cuRefIn      `json:"ref"`
	Strategy *cuStrategyIn `json:"strategy"`
	Fail     *int          `json:"fail"`
	// the refused writes are refused with a 409 Conflict (a concurrent writer) instead of a generic error; the provider
	// does not retry conflicts, so the model treats both alike
	Conflict bool          `json:"conflict"`
	I        int           `json:"i"`
	Jx       int           `json:"j"`
	Obj      *cuObjIn      `json:"obj"`
	// race: EnsureRoutes whose fail-th write (0-based) meets a 409 Conflict BECAUSE the user replaced that very object
	// between the provider's read and this write: objs[i] is the manifest the user writes if the object is ref i
	Objs []*cuObjIn `json:"objs"`
}

type cuHistIn struct {
	Stable string        `json:"stable"`
	Canary string        `json:"canary"`
	Events []cuHistEvent `json:"events"`
}

type cuHistSlot struct {
	apiVersion, kind, name string
	script                 string
	hasScript              bool
	user                   custom.Data // what the user last wrote (after the JSON round trip)
}

func cuRunHist(raw json.RawMessage) interface{} {
	var in cuHistIn
	if err := json.Unmarshal(raw, &in); err != nil {
		panic(err)
	}
	var cli client.Client = fake.NewClientBuilder().WithScheme(cuScheme).Build()
	ctx := context.TODO()
	cm := &corev1.ConfigMap{ObjectMeta: metav1.ObjectMeta{Name: custom.LuaConfigMap, Namespace: util.GetRolloutNamespace()}, Data: map[string]string{}}
	if err := cli.Create(ctx, cm); err != nil {
		panic(err)
	}
	var active, parked []*cuHistSlot
	nextID := 0
	conf := func() custom.Config {
		c := custom.Config{Key: "rollout-demo", RolloutNs: cuNs, StableService: in.Stable, CanaryService: in.Canary}
		for _, s := range active {
			c.TrafficConf = append(c.TrafficConf, v1beta1.ObjectRef{APIVersion: s.apiVersion, Kind: s.kind, Name: s.name})
		}
		return c
	}
	handle := func(s *cuHistSlot) *unstructured.Unstructured {
		u := &unstructured.Unstructured{}
		u.SetAPIVersion(s.apiVersion)
		u.SetKind(s.kind)
		u.SetNamespace(cuNs)
		u.SetName(s.name)
		return u
	}
	snapshot := func(slots []*cuHistSlot) []interface{} {
		out := make([]interface{}, len(slots))
		for i, s := range slots {
			u := handle(s)
			err := cli.Get(ctx, types.NamespacedName{Namespace: cuNs, Name: s.name}, u)
			if errors.IsNotFound(err) {
				out[i] = nil
				continue
			}
			if err != nil {
				panic(err)
			}
			out[i] = cuObj(u)
		}
		return out
	}
	same := func(a, b []interface{}) bool {
		x, _ := json.Marshal(a)
		y, _ := json.Marshal(b)
		return string(x) == string(y)
	}
	remove := func(s *cuHistSlot) {
		if err := cli.Delete(ctx, handle(s)); err != nil && !errors.IsNotFound(err) {
			panic(err)
		}
	}
	create := func(s *cuHistSlot, o *cuObjIn) {
		u := o.build(s.apiVersion, s.kind, s.name)
		s.user = cuDataOf(u.DeepCopy())
		if err := cli.Create(ctx, u); err != nil {
			panic(fmt.Sprintf("create %s: %v", s.name, err))
		}
	}
	faulty := func(fail *int, conflict bool) client.Client {
		lc := NewLogClient(cli)
		if fail != nil {
			lc.FailAt = *fail
			if conflict {
				lc.FailErr = errors.NewConflict(schema.GroupResource{Resource: "injected"}, "x", fmt.Errorf("injected conflict"))
			}
		}
		return lc
	}
	events := []interface{}{}
	for ei := range in.Events {
		ev := &in.Events[ei]
		rec := J{"res": nil}
		switch ev.Ev {
		case "add":
			av, kind := ev.Ref.gvk(nextID)
			s := &cuHistSlot{apiVersion: av, kind: kind, name: fmt.Sprintf("r%d", nextID)}
			nextID++
			s.script, s.hasScript = ev.Ref.scriptText()
			if ev.Ref.Kind == "gen" && s.hasScript {
				cur := &corev1.ConfigMap{}
				if err := cli.Get(ctx, types.NamespacedName{Namespace: cm.Namespace, Name: cm.Name}, cur); err != nil {
					panic(err)
				}
				if cur.Data == nil {
					cur.Data = map[string]string{}
				}
				cur.Data[fmt.Sprintf("%s.%s.%s", configuration.LuaTrafficRoutingCustomTypePrefix, kind, cuGenGroup)] = s.script
				if err := cli.Update(ctx, cur); err != nil {
					panic(err)
				}
			}
			create(s, ev.Ref.Obj)
			active = append(active, s)
		case "write":
			if ev.I < len(active) {
				remove(active[ev.I])
				create(active[ev.I], ev.Obj)
			}
		case "delete":
			if ev.I < len(active) {
				remove(active[ev.I])
			}
		case "remove":
			if ev.I < len(active) {
				parked = append(parked, active[ev.I])
				active = append(append([]*cuHistSlot{}, active[:ev.I]...), active[ev.I+1:]...)
			}
		case "readd":
			if ev.Jx < len(parked) {
				active = append(active, parked[ev.Jx])
				parked = append(append([]*cuHistSlot{}, parked[:ev.Jx]...), parked[ev.Jx+1:]...)
			}
		case "step", "race":
			strategy := ev.Strategy.build()
			c := conf()
			fcli := faulty(ev.Fail, ev.Conflict)
			if ev.Ev == "race" {
				lc := NewLogClient(cli)
				lc.ConflictAtWrite = *ev.Fail + 1
				lc.OnConflict = func(rec WriteRec) {
					for i, s := range active {
						if rec.Key == cuNs+"/"+s.name && rec.Kind == s.kind && i < len(ev.Objs) {
							remove(s)
							create(s, ev.Objs[i])
							return
						}
					}
					panic("race: conflicting write to an object that is no active ref: " + rec.Kind + " " + rec.Key)
				}
				fcli = lc
			}
			ctrl, _ := custom.NewCustomController(fcli, c)
			done, err := ctrl.EnsureRoutes(ctx, strategy)
			rec["res"] = cuRes(done, err)
			objs := snapshot(active)
			rec["objs"] = objs
			if err == nil {
				lc2 := NewLogClient(cli)
				lc2.FailAt = 0 // the repeated call must not attempt a single write: every write would fail
				ctrl2, _ := custom.NewCustomController(lc2, c)
				done2, err2 := ctrl2.EnsureRoutes(ctx, strategy)
				rec["res2"] = cuRes(done2, err2)
				rec["same2"] = same(objs, snapshot(active)) && len(lc2.Log) == 0
				fresh := make([]interface{}, len(active))
				for i, s := range active {
					if !s.hasScript {
						fresh[i] = nil
						continue
					}
					d, ferr := custom.VerifExecuteLuaForCanary(c, s.user, strategy, s.script)
					if ferr != nil {
						fresh[i] = "err"
					} else {
						fresh[i] = cuData(d)
					}
				}
				rec["fresh"] = fresh
			}
		case "init":
			// Initialize (Rollout entering its first step / TrafficRouting CR creation): checks objects and scripts, writes nothing
			ctrl, _ := custom.NewCustomController(cli, conf())
			rec["res"] = cuRes(true, ctrl.Initialize(ctx))
		case "fin":
			ctrl, _ := custom.NewCustomController(faulty(ev.Fail, ev.Conflict), conf())
			mod, err := ctrl.Finalise(ctx)
			rec["res"] = cuRes(mod, err)
		default:
			panic("hist: unknown event " + ev.Ev)
		}
		if _, ok := rec["objs"]; !ok {
			rec["objs"] = snapshot(active)
		}
		rec["parked"] = snapshot(parked)
		events = append(events, rec)
	}
	return J{"events": events}
}

// ------------------------------------------------------------------ generator

// pristine manifest of the given kind (never carries the provider's annotation).
func (g cuGen) manifest(kind, stable, canary string) J {
	o := g.obj(kind, stable, canary).(J)
	o["orig"] = nil
	return o
}

// scriptAccepts: does the ref's script succeed on this manifest for a plain 20 % weight step?  Used by the
// generator only, to keep most histories free of script errors (a failing script makes every EnsureRoutes
// of the history fail before its first interesting write).
func cuScriptAccepts(ref J, manifest J, stable, canary string) bool {
	rb, _ := json.Marshal(ref)
	var r cuRefIn
	if err := json.Unmarshal(rb, &r); err != nil {
		panic(err)
	}
	script, ok := r.scriptText()
	if !ok {
		return false
	}
	mb, _ := json.Marshal(manifest)
	var o cuObjIn
	if err := json.Unmarshal(mb, &o); err != nil {
		panic(err)
	}
	d := cuDataOf(o.build("verif.example.io/v1", "Probe", "probe"))
	w := "20%"
	accepted := false
	_ = guard(func() interface{} {
		_, err := custom.VerifExecuteLuaForCanary(custom.Config{RolloutNs: cuNs, StableService: stable, CanaryService: canary},
			d, &v1beta1.TrafficRoutingStrategy{Traffic: &w}, script)
		accepted = err == nil
		return nil
	})
	return accepted // a script on which the provider panics is simply "not accepted" for the generator; the cases judge it
}

// goodManifest: a manifest of the ref's kind; nine times in ten one the script accepts.
func (g cuGen) goodManifest(ref J, stable, canary string) J {
	kind := ref["kind"].(string)
	m := g.manifest(kind, stable, canary)
	if g.p(10) {
		return m
	}
	for try := 0; try < 6 && !cuScriptAccepts(ref, m, stable, canary); try++ {
		m = g.manifest(kind, stable, canary)
	}
	return m
}

func (g cuGen) histRef(stable, canary string) (J, string) {
	kind := []string{"vs", "vs", "vs", "dr", "dr", "gen", "gen"}[g.n(7)]
	r := J{"kind": kind, "gen": nil, "noScript": false, "obj": nil}
	if kind == "gen" {
		if g.p(2) {
			r["noScript"] = true
		} else {
			r["gen"] = g.genScript()
		}
	}
	r["obj"] = g.goodManifest(r, stable, canary)
	for try := 0; try < 3 && kind == "gen" && r["gen"] != nil && g.p(90) && !cuScriptAccepts(r, r["obj"].(J), stable, canary); try++ {
		r["gen"] = g.genScript() // a script that fails on everything: draw another one
		r["obj"] = g.goodManifest(r, stable, canary)
	}
	return r, kind
}

func (g cuGen) budget(nrefs int) interface{} {
	return g.n(2*nrefs + 1)
}

// hist: mostly valid histories on 2-3 refs.  The generator keeps the shape of the world (kinds and the
// manifests last written) so that indices are valid and a re-created object can come from the same manifest.
func (g cuGen) hist() interface{} {
	stable, canary := g.services()
	type slot struct {
		ref      J
		manifest J
	}
	var active, parked []slot
	events := []interface{}{}
	add := func() {
		r, kind := g.histRef(stable, canary)
		_ = kind
		active = append(active, slot{r, r["obj"].(J)})
		events = append(events, J{"ev": "add", "ref": r})
	}
	for i, k := 0, []int{1, 2, 2, 2, 2, 3, 3, 3}[g.n(8)]; i < k; i++ {
		add()
	}
	if g.p(50) {
		// Initialize, then (often) the user edits an object before the first step
		events = append(events, J{"ev": "init"})
		if g.p(60) && len(active) > 0 {
			i := g.n(len(active))
			m := g.goodManifest(active[i].ref, stable, canary)
			active[i].manifest = m
			events = append(events, J{"ev": "write", "i": i, "obj": m})
		}
	}
	step := func(fail interface{}) J {
		return J{"ev": "step", "fail": fail, "conflict": fail != nil && g.p(50), "strategy": g.strategy()}
	}
	var lastStep J
	for i, k := 0, 2+g.n(8); i < k; i++ {
		switch r := g.n(100); {
		case r < 50: // EnsureRoutes, one in four with a fault; a failing call is usually retried
			var fail interface{}
			if g.p(25) {
				fail = g.budget(len(active))
			}
			var e J
			if lastStep != nil && g.p(20) {
				e = J{"ev": "step", "fail": fail, "conflict": fail != nil && g.p(50), "strategy": lastStep["strategy"]}
			} else {
				e = step(fail)
			}
			events = append(events, e)
			lastStep = e
			if fail != nil && g.p(60) {
				events = append(events, J{"ev": "step", "fail": nil, "strategy": e["strategy"]})
			}
		case r < 55 && len(active) > 0: // EnsureRoutes racing with the user: one write meets a conflict because the user replaced that object
			objs := []interface{}{}
			for i := range active {
				m := active[i].manifest
				if g.p(70) {
					m = g.goodManifest(active[i].ref, stable, canary)
				}
				objs = append(objs, m)
			}
			st := lastStep
			if st == nil || g.p(70) {
				st = step(nil)
			}
			e := J{"ev": "race", "fail": g.n(len(active) + 1), "objs": objs, "strategy": st["strategy"]}
			events = append(events, e)
			if g.p(70) { // the retry after the conflict
				events = append(events, J{"ev": "step", "fail": nil, "strategy": e["strategy"]})
			}
		case r < 65: // Finalise, often dying part-way; then a retry or another EnsureRoutes
			var fail interface{}
			if g.p(50) && len(active) > 0 {
				fail = g.n(len(active))
			}
			events = append(events, J{"ev": "fin", "fail": fail, "conflict": fail != nil && g.p(50)})
			if fail != nil {
				switch g.n(5) {
				case 0, 1:
					events = append(events, J{"ev": "fin", "fail": nil})
				case 2, 3:
					events = append(events, step(nil))
				}
			}
		case r < 80 && len(active) > 0: // the user re-creates / replaces one object
			i := g.n(len(active))
			m := active[i].manifest
			if g.p(60) {
				m = g.goodManifest(active[i].ref, stable, canary)
				active[i].manifest = m
			}
			events = append(events, J{"ev": "write", "i": i, "obj": m})
		case r < 83 && len(active) > 0:
			i := g.n(len(active))
			events = append(events, J{"ev": "delete", "i": i})
			if g.p(70) { // … and re-created right away or after the next call
				if g.p(40) {
					events = append(events, step(nil))
				}
				events = append(events, J{"ev": "write", "i": i, "obj": active[i].manifest})
			}
		case r < 89 && len(active) > 1:
			i := g.n(len(active))
			parked = append(parked, active[i])
			active = append(append([]slot{}, active[:i]...), active[i+1:]...)
			events = append(events, J{"ev": "remove", "i": i})
		case r < 94 && len(parked) > 0:
			j := g.n(len(parked))
			active = append(active, parked[j])
			parked = append(append([]slot{}, parked[:j]...), parked[j+1:]...)
			events = append(events, J{"ev": "readd", "j": j})
		case r < 98 && len(active)+len(parked) < 4:
			add()
		case r < 99: // malformed stream: an index outside the list (nothing may happen)
			events = append(events, J{"ev": g.pick("remove", "delete"), "i": len(active) + g.n(2)})
		default:
			events = append(events, step(nil))
		}
	}
	if g.p(80) {
		events = append(events, J{"ev": "fin", "fail": nil})
		if g.p(15) {
			events = append(events, J{"ev": "fin", "fail": nil})
		}
	}
	return J{"stable": stable, "canary": canary, "events": events}
}
