// raceiso — concurrent driver for the -race runner of property C19 (tools/race_isolation.sh).
//
// Supporting evidence only: it hammers the process-wide helpers that all rollouts share
// (pkg/util/grace, pkg/util/expectation, the Lua runtime, the dynamic watch registry) and two real
// reconcilers (Rollout, BatchRelease) for several rollouts from several goroutines. Built with
// `go build -race`; the race detector's reports are counted by the script. It must run with cwd=/repo.
package main

import (
	"context"
	"encoding/json"
	"flag"
	"fmt"
	"math/rand"
	"os"
	"sync"
	"sync/atomic"
	"time"

	"github.com/go-logr/logr"
	kruisev1alpha1 "github.com/openkruise/kruise-api/apps/v1alpha1"
	kruisev1beta1 "github.com/openkruise/kruise-api/apps/v1beta1"
	rolloutapi "github.com/openkruise/rollouts/api"
	"github.com/openkruise/rollouts/api/v1beta1"
	"github.com/openkruise/rollouts/pkg/controller/batchrelease"
	rolloutctl "github.com/openkruise/rollouts/pkg/controller/rollout"
	"github.com/openkruise/rollouts/pkg/trafficrouting"
	"github.com/openkruise/rollouts/pkg/util"
	expectations "github.com/openkruise/rollouts/pkg/util/expectation"
	"github.com/openkruise/rollouts/pkg/util/grace"
	"github.com/openkruise/rollouts/pkg/util/luamanager"
	lua "github.com/yuin/gopher-lua"
	corev1 "k8s.io/api/core/v1"
	netv1 "k8s.io/api/networking/v1"
	metav1 "k8s.io/apimachinery/pkg/apis/meta/v1"
	"k8s.io/apimachinery/pkg/apis/meta/v1/unstructured"
	"k8s.io/apimachinery/pkg/runtime"
	"k8s.io/apimachinery/pkg/types"
	"k8s.io/apimachinery/pkg/util/intstr"
	utilruntime "k8s.io/apimachinery/pkg/util/runtime"
	clientgoscheme "k8s.io/client-go/kubernetes/scheme"
	"k8s.io/klog/v2"
	ctrl "sigs.k8s.io/controller-runtime"
	"sigs.k8s.io/controller-runtime/pkg/client"
	"sigs.k8s.io/controller-runtime/pkg/client/fake"
	"sigs.k8s.io/controller-runtime/pkg/handler"
	"sigs.k8s.io/controller-runtime/pkg/predicate"
	"sigs.k8s.io/controller-runtime/pkg/reconcile"
	"sigs.k8s.io/controller-runtime/pkg/source"
	gatewayv1beta1 "sigs.k8s.io/gateway-api/apis/v1beta1"
)

var scheme = func() *runtime.Scheme {
	s := runtime.NewScheme()
	utilruntime.Must(clientgoscheme.AddToScheme(s))
	utilruntime.Must(kruisev1alpha1.AddToScheme(s))
	utilruntime.Must(kruisev1beta1.AddToScheme(s))
	utilruntime.Must(rolloutapi.AddToScheme(s))
	utilruntime.Must(gatewayv1beta1.AddToScheme(s))
	return s
}()

const revKey = "pod-template-hash"

type fakeController struct {
	mu      sync.Mutex
	watched []string
}

func (f *fakeController) Reconcile(context.Context, reconcile.Request) (reconcile.Result, error) {
	return reconcile.Result{}, nil
}
func (f *fakeController) Watch(src source.Source, _ handler.EventHandler, _ ...predicate.Predicate) error {
	f.mu.Lock()
	defer f.mu.Unlock()
	if k, ok := src.(*source.Kind); ok {
		f.watched = append(f.watched, k.Type.GetObjectKind().GroupVersionKind().String())
	}
	return nil
}
func (f *fakeController) Start(context.Context) error { return nil }
func (f *fakeController) GetLogger() logr.Logger      { return logr.Discard() }

type ro struct {
	ns, name, svc, ing, kindAPI, kind string
	grace                             int32
}

func objects(r ro, i int) []client.Object {
	sel := map[string]string{"app": r.svc}
	svc := &corev1.Service{ObjectMeta: metav1.ObjectMeta{Namespace: r.ns, Name: r.svc, UID: types.UID(fmt.Sprintf("svc-uid-%d", i))}}
	svc.Spec.Selector = map[string]string{"app": r.svc}
	svc.Spec.Ports = []corev1.ServicePort{{Port: 80, TargetPort: intstr.FromInt(8080)}}
	pt := netv1.PathTypePrefix
	class := "nginx"
	ing := &netv1.Ingress{ObjectMeta: metav1.ObjectMeta{Namespace: r.ns, Name: r.ing, Annotations: map[string]string{"kubernetes.io/ingress.class": "nginx"}},
		Spec: netv1.IngressSpec{IngressClassName: &class, Rules: []netv1.IngressRule{{Host: "a.example.com",
			IngressRuleValue: netv1.IngressRuleValue{HTTP: &netv1.HTTPIngressRuleValue{Paths: []netv1.HTTPIngressPath{{Path: "/", PathType: &pt,
				Backend: netv1.IngressBackend{Service: &netv1.IngressServiceBackend{Name: r.svc, Port: netv1.ServiceBackendPort{Number: 80}}}}}}}}}}}
	rollout := &v1beta1.Rollout{}
	rollout.Namespace, rollout.Name, rollout.UID, rollout.Generation = r.ns, r.name, types.UID(fmt.Sprintf("ro-uid-%d", i)), 1
	rollout.Spec.WorkloadRef = v1beta1.ObjectRef{APIVersion: r.kindAPI, Kind: r.kind, Name: "wl-" + r.name}
	one, all := intstr.FromInt(1), intstr.FromString("100%")
	w20, w100 := "20%", "100%"
	d := int32(1)
	rollout.Spec.Strategy.Canary = &v1beta1.CanaryStrategy{
		Steps: []v1beta1.CanaryStep{
			{Replicas: &one, TrafficRoutingStrategy: v1beta1.TrafficRoutingStrategy{Traffic: &w20}, Pause: v1beta1.RolloutPause{Duration: &d}},
			{Replicas: &all, TrafficRoutingStrategy: v1beta1.TrafficRoutingStrategy{Traffic: &w100}, Pause: v1beta1.RolloutPause{Duration: &d}}},
		TrafficRoutings: []v1beta1.TrafficRoutingRef{{Service: r.svc, GracePeriodSeconds: r.grace, Ingress: &v1beta1.IngressTrafficRouting{Name: r.ing, ClassType: "nginx"}}}}
	out := []client.Object{svc, ing, rollout}
	if r.kind == "CloneSet" {
		cs := &kruisev1alpha1.CloneSet{}
		cs.Namespace, cs.Name, cs.UID, cs.Generation = r.ns, "wl-"+r.name, types.UID(fmt.Sprintf("wl-uid-%d", i)), 1
		R := int32(4)
		cs.Spec.Replicas = &R
		cs.Spec.Selector = &metav1.LabelSelector{MatchLabels: sel}
		cs.Spec.Template.Labels = sel
		cs.Spec.Template.Spec.Containers = []corev1.Container{{Name: "main", Image: "img:v1"}}
		cs.Annotations = map[string]string{util.WorkloadTypeLabel: "cloneset"}
		cs.Status = kruisev1alpha1.CloneSetStatus{ObservedGeneration: 1, Replicas: R, ReadyReplicas: R, UpdatedReplicas: R, UpdatedReadyReplicas: R,
			CurrentRevision: "wl-v1", UpdateRevision: "wl-v1"}
		out = append(out, cs)
	}
	return out
}

// env plays the CloneSet controller and the user: it releases a new revision once and lets updated pods follow the partition.
func env(cli client.Client, r ro, released *bool) {
	if r.kind != "CloneSet" {
		return
	}
	ctx := context.TODO()
	cs := &kruisev1alpha1.CloneSet{}
	if err := cli.Get(ctx, types.NamespacedName{Namespace: r.ns, Name: "wl-" + r.name}, cs); err != nil {
		return
	}
	if !*released {
		*released = true
		cs.Spec.Template.Spec.Containers[0].Image = "img:v2"
		cs.Generation++
		cs.Spec.UpdateStrategy.Paused = true
		cs.Status.UpdateRevision = "wl-v2"
		cs.Status.UpdatedReplicas, cs.Status.UpdatedReadyReplicas = 0, 0
		_ = cli.Update(ctx, cs)
		_ = cli.Status().Update(ctx, cs)
		return
	}
	R := int(*cs.Spec.Replicas)
	cs.Status.ObservedGeneration = cs.Generation
	if cs.Status.UpdateRevision != cs.Status.CurrentRevision && !cs.Spec.UpdateStrategy.Paused {
		allowed := R
		if p := cs.Spec.UpdateStrategy.Partition; p != nil {
			kept, _ := intstr.GetScaledValueFromIntOrPercent(p, R, true)
			if kept > R {
				kept = R
			}
			allowed = R - kept
		}
		if int(cs.Status.UpdatedReplicas) < allowed {
			cs.Status.UpdatedReplicas = int32(allowed)
		}
		cs.Status.UpdatedReadyReplicas = cs.Status.UpdatedReplicas
		if int(cs.Status.UpdatedReplicas) >= R {
			cs.Status.CurrentRevision = cs.Status.UpdateRevision
		}
	}
	_ = cli.Status().Update(ctx, cs)
}

const luaScript = `
local n = 0
for k, v in pairs(obj.annotations) do n = n + 1 end
annotations = obj.annotations
annotations["count"] = tostring(n) .. "/" .. obj.weight
return annotations
`

func main() {
	klog.LogToStderr(false)
	klog.SetOutput(devNull{})
	seconds := flag.Int("seconds", 20, "how long to run")
	workers := flag.Int("workers", 8, "goroutines per group")
	seed := flag.Int64("seed", 1, "seed")
	out := flag.String("out", "", "result file")
	flag.Parse()

	ros := []ro{
		{"prod", "demo", "web", "web", "apps.kruise.io/v1alpha1", "CloneSet", 1},
		{"stage", "demo", "web", "web", "apps.kruise.io/v1alpha1", "CloneSet", 2},
		{"prod", "demo-2", "web2", "web2", "apps.kruise.io/v1alpha1", "CloneSet", 0},
		{"prod", "dyn-1", "web3", "web3", "example.com/v1", "Foo", 1},
		{"stage", "dyn-2", "web3", "web3", "example.com/v1", "Foo", 1},
		{"stage", "dyn-3", "web4", "web4", "example.com/v1", "Bar", 1},
	}
	objs := []client.Object{}
	for i, r := range ros {
		objs = append(objs, objects(r, i)...)
	}
	cli := fake.NewClientBuilder().WithScheme(scheme).WithObjects(objs...).Build()
	fc := &fakeController{}
	rolloutctl.VerifResetWatched()
	rolloutctl.VerifSetRuntimeController(fc, nil)
	rolloutctl.VerifSetGracePeriodSeconds(1)
	trafficrouting.VerifSetGracePeriodSeconds(1)
	roRec := rolloutctl.VerifNewReconciler(cli, scheme)
	brRec := batchrelease.VerifNewReconciler(cli, scheme)

	deadline := time.Now().Add(time.Duration(*seconds) * time.Second)
	var wg sync.WaitGroup
	var iters, panics int64
	guarded := func(f func()) {
		defer func() {
			if r := recover(); r != nil {
				atomic.AddInt64(&panics, 1)
			}
		}()
		f()
		atomic.AddInt64(&iters, 1)
	}
	spawn := func(f func(rng *rand.Rand)) {
		wg.Add(1)
		s := atomic.AddInt64(seed, 1)
		go func() {
			defer wg.Done()
			rng := rand.New(rand.NewSource(s))
			for time.Now().Before(deadline) {
				guarded(func() { f(rng) })
			}
		}()
	}

	// 1. the two reconcilers: one worker per rollout (the work queue never runs one key on two workers),
	//    all workers share the reconciler objects, the client and every process-wide helper
	for i := range ros {
		r := ros[i]
		key := types.NamespacedName{Namespace: r.ns, Name: r.name}
		spawn(func(*rand.Rand) { _, _ = roRec.Reconcile(context.TODO(), ctrl.Request{NamespacedName: key}) })
		spawn(func(*rand.Rand) { _, _ = brRec.Reconcile(context.TODO(), ctrl.Request{NamespacedName: key}) })
		released := false
		spawn(func(*rand.Rand) { env(cli, r, &released); time.Sleep(2 * time.Millisecond) })
	}
	// 2. grace helpers directly: own keys, shared keys, the cleaner, readers
	keys := []string{"uid-1", "uid-2", "prod/web-canary", "stage/web-canary", "uid-10"}
	actions := []string{"patchService", "restoreService", "restoreGateway", "removeCanaryService", "updateRoute"}
	for w := 0; w < *workers; w++ {
		spawn(func(rng *rand.Rand) {
			k, a := keys[rng.Intn(len(keys))], actions[rng.Intn(len(actions))]
			_, _, _ = grace.RunWithGraceSeconds(k, a, int32(rng.Intn(3)), func() (bool, error) { return rng.Intn(2) == 0, nil })
			if rng.Intn(8) == 0 {
				grace.VerifDeleteExpectations(k)
			}
			if rng.Intn(8) == 0 {
				_, _ = grace.VerifGetExpectations(k)
			}
		})
	}
	spawn(func(*rand.Rand) {
		grace.VerifCleanOutdated(time.Millisecond)
		_ = grace.VerifDump()
		time.Sleep(time.Millisecond)
	})
	// 3. resource expectations directly
	cks := []string{"prod/demo", "stage/demo", "prod/demo-2"}
	for w := 0; w < *workers; w++ {
		spawn(func(rng *rand.Rand) {
			e := expectations.ResourceExpectations
			ck, name := cks[rng.Intn(len(cks))], fmt.Sprintf("uid-%d", rng.Intn(4))
			switch rng.Intn(5) {
			case 0:
				e.Expect(ck, expectations.Create, name)
			case 1:
				e.Observe(ck, expectations.Create, name)
			case 2:
				_, _, _ = e.SatisfiedExpectations(ck)
			case 3:
				_ = e.GetExpectations(ck)
			default:
				if rng.Intn(6) == 0 {
					e.DeleteExpectations(ck)
				}
			}
		})
	}
	// 4. the Lua runtime: every call must compute what it computes alone
	var luaWrong int64
	for w := 0; w < *workers/2+1; w++ {
		spawn(func(rng *rand.Rand) {
			n := 1 + rng.Intn(5)
			ann := map[string]interface{}{}
			for i := 0; i < n; i++ {
				ann[fmt.Sprintf("k%d", i)] = "v"
			}
			weight := fmt.Sprint(rng.Intn(100))
			u := &unstructured.Unstructured{Object: map[string]interface{}{"annotations": ann, "weight": weight}}
			l, err := (&luamanager.LuaManager{}).RunLuaScript(u, luaScript)
			if err != nil {
				atomic.AddInt64(&luaWrong, 1)
				return
			}
			tbl, ok := l.Get(-1).(*lua.LTable)
			if !ok || tbl.RawGetString("count").String() != fmt.Sprintf("%d/%s", n+0, weight) {
				atomic.AddInt64(&luaWrong, 1)
			}
		})
	}
	wg.Wait()
	phases := map[string]string{}
	for _, r := range ros {
		x := &v1beta1.Rollout{}
		if err := cli.Get(context.TODO(), types.NamespacedName{Namespace: r.ns, Name: r.name}, x); err == nil {
			step := int32(-1)
			if x.Status.CanaryStatus != nil {
				step = x.Status.CanaryStatus.CurrentStepIndex
			}
			phases[r.ns+"/"+r.name] = fmt.Sprintf("%s step=%d", x.Status.Phase, step)
		}
	}
	res := map[string]interface{}{"phases": phases, "iterations": iters, "panics": panics, "luaErrors": luaWrong, "goroutines": 3*len(ros) + 2**workers + *workers/2 + 2,
		"seconds": *seconds, "watchCalls": len(fc.watched), "watchedKinds": rolloutctl.VerifWatchedKinds()}
	b, _ := json.Marshal(res)
	if *out != "" {
		_ = os.WriteFile(*out, b, 0o644)
	}
	fmt.Println(string(b))
}

type devNull struct{}

func (devNull) Write(p []byte) (int, error) { return len(p), nil }
