package main

// Suite ctlpdeploy — the partition-style **Deployment** control plane of the BatchRelease controller.
//
// Every case is a *walk*: an abstract Deployment (or none) is concretised into a real apps/v1
// Deployment inside the controller-runtime fake client, then a list of steps runs the REAL code
//
//	initialize    partitionstyle.realBatchControlPlane.Initialize   → deployment.realController.Initialize
//	upgradeBatch  partitionstyle.realBatchControlPlane.UpgradeBatch → deployment.realController.UpgradeBatch
//	finalize      partitionstyle.realBatchControlPlane.Finalize     → deployment.realController.Finalize
//	submit         mutating.WorkloadHandler.handleDeployment (a user's / API update passing the workload webhook)
//
// each with an optional API fault (the Get of the Deployment fails / the write fails).  After every
// step the Deployment is abstracted back; the Lean model (RV.CtlPDeploy) replays the same walk and
// the per-step snapshots are compared; the shared oracles are evaluated on the implementation's snapshots.

import (
	"context"
	"encoding/json"
	"errors"
	"fmt"
	"reflect"

	"github.com/openkruise/rollouts/api/v1alpha1"
	"github.com/openkruise/rollouts/api/v1beta1"
	"github.com/openkruise/rollouts/pkg/controller/batchrelease/control/partitionstyle"
	pdeployment "github.com/openkruise/rollouts/pkg/controller/batchrelease/control/partitionstyle/deployment"
	"github.com/openkruise/rollouts/pkg/util"
	"github.com/openkruise/rollouts/pkg/webhook/workload/mutating"
	apps "k8s.io/api/apps/v1"
	corev1 "k8s.io/api/core/v1"
	metav1 "k8s.io/apimachinery/pkg/apis/meta/v1"
	"k8s.io/apimachinery/pkg/types"
	"k8s.io/apimachinery/pkg/util/intstr"
	"k8s.io/client-go/tools/record"
	"sigs.k8s.io/controller-runtime/pkg/client"
)

func init() { register("ctlpdeploy", runCtlPDeploy, replayCtlPDeploy) }

// ---- abstract state (mirrors RV.CtlPDeploy) ----

type pdRU struct {
	MU interface{} `json:"mu"` // ios J or nil
	MS interface{} `json:"ms"`
}

type pdStrategy struct {
	RollingStyle string      `json:"rollingStyle"`
	RU           *pdRU       `json:"ru"`
	Paused       bool        `json:"paused"`
	Partition    interface{} `json:"partition"`
}

type pdAnno struct {
	Kind string      `json:"kind"` // absent | invalid | valid
	S    *pdStrategy `json:"s"`
}

type pdDep struct {
	Replicas    *int   `json:"replicas"`
	Paused      bool   `json:"paused"`
	StratType   string `json:"stratType"`
	StratRU     *pdRU  `json:"stratRU"`
	Anno        pdAnno `json:"anno"`
	Control     string `json:"control"` // none | this | other
	CtrlLabel   bool   `json:"ctrlLabel"`
	StableRev   string `json:"stableRev"`
	ExtraStatus bool   `json:"extraStatus"`
	InProgress  bool   `json:"inProgress"`
	Tmpl        int    `json:"tmpl"`
	Rest        int    `json:"rest"`
}

type pdEdit struct {
	Tmpl      *int   `json:"tmpl"`      // new pod template (image tag)
	SetStrat  bool   `json:"setStrat"`  // the user (re-)submits spec.strategy
	StratType string `json:"stratType"` //   … with this type
	RU        *pdRU  `json:"ru"`        //   … and this rollingUpdate block
	Paused    *bool  `json:"paused"`
	Replicas  *int   `json:"replicas"`
}

type pdStep struct {
	Call  string  `json:"call"`  // initialize | upgradeBatch | finalize | submit
	Fault string  `json:"fault"` // none | get | write
	Batch int     `json:"batch"` // status.canaryStatus.currentBatch seen by upgradeBatch
	BpNil bool    `json:"bpNil"` // spec.releasePlan.batchPartition == nil (finalize)
	Edit  *pdEdit `json:"edit"`
}

type pdIn struct {
	Dep          *pdDep        `json:"dep"`
	Batches      []interface{} `json:"batches"`
	RollbackAnno bool          `json:"rollbackAnno"`
	Updated      int           `json:"updated"` // status.canaryStatus.updatedReplicas of the release
	Matched      bool          `json:"matched"` // a Rollout references the Deployment
	RsTmpl       *int          `json:"rsTmpl"`  // template of the one active ReplicaSet (nil: none)
	Steps        []pdStep      `json:"steps"`
}

// ---- concretisation ----

const pdThisRef = `{"apiVersion":"rollouts.kruise.io/v1beta1","kind":"BatchRelease","name":"br","uid":"br-uid","controller":true,"blockOwnerDeletion":true}`
const pdOtherRef = `{"apiVersion":"rollouts.kruise.io/v1beta1","kind":"BatchRelease","name":"br","uid":"older-uid","controller":true,"blockOwnerDeletion":true}`

func pdTemplate(n int) corev1.PodTemplateSpec {
	return corev1.PodTemplateSpec{ObjectMeta: metav1.ObjectMeta{Labels: map[string]string{"app": "demo"}},
		Spec: corev1.PodSpec{Containers: []corev1.Container{{Name: "main", Image: fmt.Sprintf("img:v%d", n)}}}}
}

func pdTemplateNo(t corev1.PodTemplateSpec) int {
	n := -1
	if len(t.Spec.Containers) == 1 {
		fmt.Sscanf(t.Spec.Containers[0].Image, "img:v%d", &n)
	}
	return n
}

func pdRUOf(r *pdRU) *apps.RollingUpdateDeployment {
	if r == nil {
		return nil
	}
	return &apps.RollingUpdateDeployment{MaxUnavailable: iosFromAny(r.MU), MaxSurge: iosFromAny(r.MS)}
}

func pdAbsRU(r *apps.RollingUpdateDeployment) *pdRU {
	if r == nil {
		return nil
	}
	return &pdRU{MU: iosOutPtr(r.MaxUnavailable), MS: iosOutPtr(r.MaxSurge)}
}

func pdStrategyJSON(s *pdStrategy) string {
	st := v1alpha1.DeploymentStrategy{RollingStyle: v1alpha1.RollingStyleType(s.RollingStyle), RollingUpdate: pdRUOf(s.RU), Paused: s.Paused}
	if p := iosFromAny(s.Partition); p != nil {
		st.Partition = *p
	}
	b, err := json.Marshal(&st)
	must(err)
	return string(b)
}

func pdBuild(d *pdDep) *apps.Deployment {
	o := &apps.Deployment{TypeMeta: metav1.TypeMeta{APIVersion: "apps/v1", Kind: "Deployment"}}
	o.Namespace, o.Name, o.UID, o.Generation = "ns", "wl", "wl-uid", 1
	o.Labels = map[string]string{"team": "a"}
	o.Annotations = map[string]string{"owner/note": "keep"}
	if d.Replicas != nil {
		o.Spec.Replicas = i32p(int32(*d.Replicas))
	}
	o.Spec.Selector = &metav1.LabelSelector{MatchLabels: map[string]string{"app": "demo"}}
	o.Spec.Template = pdTemplate(d.Tmpl)
	o.Spec.Paused = d.Paused
	o.Spec.MinReadySeconds = 7
	o.Spec.Strategy.Type = apps.DeploymentStrategyType(d.StratType)
	o.Spec.Strategy.RollingUpdate = pdRUOf(d.StratRU)
	switch d.Anno.Kind {
	case "invalid":
		o.Annotations[v1alpha1.DeploymentStrategyAnnotation] = "{not json"
	case "valid":
		o.Annotations[v1alpha1.DeploymentStrategyAnnotation] = pdStrategyJSON(d.Anno.S)
	}
	switch d.Control {
	case "this":
		o.Annotations[util.BatchReleaseControlAnnotation] = pdThisRef
	case "other":
		o.Annotations[util.BatchReleaseControlAnnotation] = pdOtherRef
	}
	if d.CtrlLabel {
		o.Labels[v1alpha1.AdvancedDeploymentControlLabel] = "true"
	}
	if d.StableRev != "" {
		o.Labels[v1alpha1.DeploymentStableRevisionLabel] = d.StableRev
	}
	if d.ExtraStatus {
		o.Annotations[v1alpha1.DeploymentExtraStatusAnnotation] = `{"updatedReadyReplicas":1,"expectedUpdatedReplicas":1}`
	}
	if d.InProgress {
		o.Annotations[util.InRolloutProgressingAnnotation] = `{"rolloutName":"ro"}`
	}
	return o
}

// pdStripped is the Deployment with every modelled field (and API-server bookkeeping) erased:
// what is left must never change.
func pdStripped(o *apps.Deployment) interface{} {
	c := o.DeepCopy()
	c.ResourceVersion, c.Generation, c.ManagedFields = "", 0, nil
	for _, k := range []string{v1alpha1.AdvancedDeploymentControlLabel, v1alpha1.DeploymentStableRevisionLabel} {
		delete(c.Labels, k)
	}
	for _, k := range []string{v1alpha1.DeploymentStrategyAnnotation, util.BatchReleaseControlAnnotation,
		v1alpha1.DeploymentExtraStatusAnnotation, util.InRolloutProgressingAnnotation} {
		delete(c.Annotations, k)
	}
	c.Spec.Replicas, c.Spec.Paused = nil, false
	c.Spec.Strategy = apps.DeploymentStrategy{}
	c.Spec.Template = corev1.PodTemplateSpec{}
	b, err := json.Marshal(c)
	must(err)
	var v interface{}
	must(json.Unmarshal(b, &v))
	return v
}

func pdAbstract(o *apps.Deployment, orig interface{}) *pdDep {
	d := &pdDep{Paused: o.Spec.Paused, StratType: string(o.Spec.Strategy.Type), StratRU: pdAbsRU(o.Spec.Strategy.RollingUpdate),
		CtrlLabel: o.Labels[v1alpha1.AdvancedDeploymentControlLabel] != "", StableRev: o.Labels[v1alpha1.DeploymentStableRevisionLabel],
		ExtraStatus: o.Annotations[v1alpha1.DeploymentExtraStatusAnnotation] != "",
		InProgress:  o.Annotations[util.InRolloutProgressingAnnotation] != "", Tmpl: pdTemplateNo(o.Spec.Template)}
	if o.Spec.Replicas != nil {
		r := int(*o.Spec.Replicas)
		d.Replicas = &r
	}
	switch a := o.Annotations[v1alpha1.DeploymentStrategyAnnotation]; {
	case a == "":
		d.Anno.Kind = "absent"
	default:
		st := v1alpha1.DeploymentStrategy{}
		if json.Unmarshal([]byte(a), &st) != nil {
			d.Anno.Kind = "invalid"
		} else {
			d.Anno.Kind = "valid"
			d.Anno.S = &pdStrategy{RollingStyle: string(st.RollingStyle), RU: pdAbsRU(st.RollingUpdate), Paused: st.Paused, Partition: iosOut(st.Partition)}
		}
	}
	d.Control = "none"
	if a := o.Annotations[util.BatchReleaseControlAnnotation]; a != "" {
		ref := &metav1.OwnerReference{}
		if json.Unmarshal([]byte(a), ref) == nil && string(ref.UID) == "br-uid" {
			d.Control = "this"
		} else {
			d.Control = "other"
		}
	}
	if orig != nil && !reflect.DeepEqual(pdStripped(o), orig) {
		d.Rest = 1
	}
	return d
}

func pdRelease(in *pdIn, st pdStep) *v1beta1.BatchRelease {
	r := &v1beta1.BatchRelease{TypeMeta: metav1.TypeMeta{APIVersion: "rollouts.kruise.io/v1beta1", Kind: "BatchRelease"}}
	r.Namespace, r.Name, r.UID, r.Generation = "ns", "br", types.UID("br-uid"), 1
	r.Spec.WorkloadRef = v1beta1.ObjectRef{APIVersion: "apps/v1", Kind: "Deployment", Name: "wl"}
	for _, e := range in.Batches {
		r.Spec.ReleasePlan.Batches = append(r.Spec.ReleasePlan.Batches, v1beta1.ReleaseBatch{CanaryReplicas: *iosFromAny(e)})
	}
	r.Spec.ReleasePlan.RollingStyle = v1beta1.PartitionRollingStyle
	if !st.BpNil {
		r.Spec.ReleasePlan.BatchPartition = i32p(int32(st.Batch))
	}
	if in.RollbackAnno {
		r.Annotations = map[string]string{v1alpha1.RollbackInBatchAnnotation: "true"}
	}
	r.Status.Phase = v1beta1.RolloutPhaseProgressing
	r.Status.CanaryStatus.CurrentBatch = int32(st.Batch)
	r.Status.CanaryStatus.UpdatedReplicas = int32(in.Updated)
	return r
}

func pdRollout() *v1beta1.Rollout {
	ro := &v1beta1.Rollout{}
	ro.Namespace, ro.Name = "ns", "ro"
	ro.Spec.WorkloadRef = v1beta1.ObjectRef{APIVersion: "apps/v1", Kind: "Deployment", Name: "wl"}
	ro.Spec.Strategy.Canary = &v1beta1.CanaryStrategy{EnableExtraWorkloadForCanary: false,
		Steps: []v1beta1.CanaryStep{{Replicas: func() *intstr.IntOrString { v := pct(50); return &v }()}}}
	return ro
}

func pdRS(tmpl int) *apps.ReplicaSet {
	rs := &apps.ReplicaSet{}
	rs.Namespace, rs.Name, rs.UID = "ns", "wl-stable", "rs-uid"
	t := true
	rs.OwnerReferences = []metav1.OwnerReference{{APIVersion: "apps/v1", Kind: "Deployment", Name: "wl", UID: "wl-uid", Controller: &t}}
	rs.Labels = map[string]string{"app": "demo", apps.DefaultDeploymentUniqueLabelKey: "h-stable"}
	rs.Annotations = map[string]string{"deployment.kubernetes.io/revision": "1"}
	rs.Spec.Replicas = i32p(3)
	rs.Spec.Selector = &metav1.LabelSelector{MatchLabels: map[string]string{"app": "demo"}}
	rs.Spec.Template = pdTemplate(tmpl)
	rs.Spec.Template.Labels = map[string]string{"app": "demo", apps.DefaultDeploymentUniqueLabelKey: "h-stable"}
	return rs
}

// pdFaultClient fails reads of the Deployment on demand (writes are failed by the LogClient below it).
type pdFaultClient struct {
	client.Client
	failGet bool
}

func (f *pdFaultClient) Get(ctx context.Context, key client.ObjectKey, obj client.Object, opts ...client.GetOption) error {
	if _, ok := obj.(*apps.Deployment); ok && f.failGet {
		return errors.New("injected read fault")
	}
	return f.Client.Get(ctx, key, obj, opts...)
}

var pdKey = types.NamespacedName{Namespace: "ns", Name: "wl"}

func pdSnapshot(base client.Client, orig interface{}) *pdDep {
	got := &apps.Deployment{}
	if err := base.Get(context.TODO(), pdKey, got); err != nil {
		return nil
	}
	return pdAbstract(got, orig)
}

// pdStepRun runs one step on the real code and returns {res, dep, writes, obs}.
func pdStepRun(base client.Client, in *pdIn, st pdStep, orig interface{}) interface{} {
	lc := NewLogClient(base)
	if st.Fault == "write" {
		lc.FailAt = 0
	}
	cli := &pdFaultClient{Client: lc, failGet: st.Fault == "get"}
	out := J{"obs": nil}
	var err error
	switch st.Call {
	case "submit":
		err = pdAdmit(base, st.Edit)
	default:
		rel := pdRelease(in, st)
		newStatus := rel.Status.DeepCopy()
		plane := partitionstyle.NewControlPlane(pdeployment.NewController, cli, record.NewFakeRecorder(100), rel, newStatus,
			pdKey, apps.SchemeGroupVersion.WithKind("Deployment"))
		switch st.Call {
		case "initialize":
			err = plane.Initialize()
			if err == nil {
				obs := J{"observedReplicas": int(newStatus.ObservedWorkloadReplicas), "stableRevision": newStatus.StableRevision, "noNeedUpdate": nil}
				if p := newStatus.CanaryStatus.NoNeedUpdateReplicas; p != nil {
					obs["noNeedUpdate"] = int(*p)
				}
				out["obs"] = obs
			}
		case "upgradeBatch":
			err = plane.UpgradeBatch()
		case "finalize":
			err = plane.Finalize()
		default:
			panic("ctlpdeploy: unknown call " + st.Call)
		}
	}
	out["res"] = "ok"
	if err != nil {
		out["res"] = "err"
	}
	out["writes"] = len(lc.Log)
	out["dep"] = pdSnapshot(base, orig)
	return out
}

// pdAdmit: the current object is updated by a user (edit) and passes the workload webhook.
func pdAdmit(base client.Client, e *pdEdit) error {
	old := &apps.Deployment{}
	if err := base.Get(context.TODO(), pdKey, old); err != nil {
		return err
	}
	nw := old.DeepCopy()
	if e != nil {
		if e.Tmpl != nil {
			nw.Spec.Template = pdTemplate(*e.Tmpl)
		}
		if e.SetStrat {
			nw.Spec.Strategy = apps.DeploymentStrategy{Type: apps.DeploymentStrategyType(e.StratType), RollingUpdate: pdRUOf(e.RU)}
		}
		if e.Paused != nil {
			nw.Spec.Paused = *e.Paused
		}
		if e.Replicas != nil {
			nw.Spec.Replicas = i32p(int32(*e.Replicas))
		}
	}
	h := &mutating.WorkloadHandler{Client: base, Finder: util.NewControllerFinder(base)}
	if _, err := h.VerifPDeployHandleDeployment(nw, old); err != nil {
		return err
	}
	return base.Update(context.TODO(), nw)
}

func pdRun(in *pdIn) interface{} {
	objs := []client.Object{}
	var orig interface{}
	if in.Dep != nil {
		o := pdBuild(in.Dep)
		orig = pdStripped(o)
		objs = append(objs, o)
	}
	if in.Matched {
		objs = append(objs, pdRollout())
	}
	if in.RsTmpl != nil {
		objs = append(objs, pdRS(*in.RsTmpl))
	}
	base := fakeClient(objs...)
	outs := []interface{}{}
	for _, st := range in.Steps {
		st := st
		o := guard(func() interface{} { return pdStepRun(base, in, st, orig) })
		outs = append(outs, o)
		if m, ok := o.(J); ok {
			if _, p := m["panic"]; p {
				break // the process died; the walk ends here
			}
		}
	}
	return outs
}

func pdCase(c *Ctx, in *pdIn) {
	c.Emit("walk", in, pdRun(in))
}

func replayCtlPDeploy(c *Ctx, op string, raw json.RawMessage) {
	var in pdIn
	if err := json.Unmarshal(raw, &in); err != nil {
		panic(err)
	}
	pdCase(c, &in)
}

// ---- generators ----

func pdPick(c *Ctx, xs ...interface{}) interface{} { return xs[c.Rng.Intn(len(xs))] }

func pdIOS(c *Ctx) interface{} {
	switch c.Rng.Intn(10) {
	case 0, 1, 2, 3:
		return J{"i": c.Rng.Intn(4)}
	case 4:
		return J{"i": 0}
	case 5:
		return J{"p": 0}
	default:
		return J{"p": pdPick(c, 10, 20, 25, 30, 50, 100, 1).(int)}
	}
}

func pdZeroIOS(v interface{}) bool {
	m := v.(J)
	if x, ok := m["i"]; ok {
		return x.(int) == 0
	}
	if x, ok := m["p"]; ok {
		return x.(int) == 0
	}
	return true
}

// pdValidRU: both fields set, not both zero (what defaulting + validation of the API server guarantee)
func pdValidRU(c *Ctx) *pdRU {
	for {
		u := &pdRU{MU: pdIOS(c), MS: pdIOS(c)}
		if !(pdZeroIOS(u.MU) && pdZeroIOS(u.MS)) {
			return u
		}
	}
}

// pdAnyRU: possibly partial / zero / malformed
func pdAnyRU(c *Ctx) *pdRU {
	switch c.Rng.Intn(8) {
	case 0:
		return nil
	case 1:
		return &pdRU{}
	case 2:
		return &pdRU{MU: pdIOS(c)}
	case 3:
		return &pdRU{MS: pdIOS(c)}
	case 4:
		return &pdRU{MU: J{"i": 0}, MS: pdPick(c, J{"i": 0}, J{"p": 0}, J{"s": "bad"})}
	default:
		return pdValidRU(c)
	}
}

func pdBatches(c *Ctx, R int) []interface{} {
	nb := 1 + c.Rng.Intn(4)
	var bs []interface{}
	mode := c.Rng.Intn(10)
	acc := 0
	for i := 0; i < nb; i++ {
		switch {
		case mode < 5:
			acc += 1 + c.Rng.Intn(45)
			if acc > 100 || (i == nb-1 && c.Rng.Intn(2) == 0) {
				acc = 100
			}
			bs = append(bs, J{"p": acc})
		case mode < 9:
			acc += 1 + c.Rng.Intn(R/2+2)
			bs = append(bs, J{"i": acc})
		default: // mixed / non-monotone / malformed
			bs = append(bs, pdPick(c, J{"p": c.Rng.Intn(120)}, J{"i": c.Rng.Intn(R + 3)}, J{"i": c.Rng.Intn(R + 3)}, J{"p": 1}, J{"s": "bad"}, J{"i": -1}))
		}
	}
	return bs
}

func pdIntP(v int) *int { return &v }

func pdFault(c *Ctx, p int) string {
	if c.Rng.Intn(100) < p {
		if c.Rng.Intn(3) == 0 {
			return "get"
		}
		return "write"
	}
	return "none"
}

// pdLifeCycle: a Deployment as its user configured it goes through submit ; initialize ; … ; finalize
func pdLifeCycle(c *Ctx) *pdIn {
	R := 1 + c.Rng.Intn(12)
	if c.Rng.Intn(12) == 0 {
		R = 0
	}
	if c.Rng.Intn(15) == 0 {
		R = 50 + c.Rng.Intn(300)
	}
	d := &pdDep{Replicas: &R, StratType: "RollingUpdate", StratRU: pdValidRU(c), Anno: pdAnno{Kind: "absent"}, Control: "none", Tmpl: 1}
	if c.Rng.Intn(10) == 0 {
		d.StratType, d.StratRU = "Recreate", nil
	}
	in := &pdIn{Dep: d, Batches: pdBatches(c, R), RollbackAnno: c.Rng.Intn(10) == 0, Updated: c.Rng.Intn(R + 1),
		Matched: c.Rng.Intn(8) != 0}
	if c.Rng.Intn(12) != 0 {
		in.RsTmpl = pdIntP(1)
	}
	nb := len(in.Batches)
	tm := 1
	batch := 0
	fp := 0
	if c.Rng.Intn(3) == 0 {
		fp = 25
	}
	add := func(s pdStep) {
		in.Steps = append(in.Steps, s)
		if c.Rng.Intn(5) == 0 && s.Call != "submit" { // repeat the call (idempotence)
			s.Fault = "none"
			in.Steps = append(in.Steps, s)
		}
	}
	newTmpl := func() pdStep { tm++; return pdStep{Call: "submit", Fault: "none", Edit: &pdEdit{Tmpl: pdIntP(tm)}} }
	if c.Rng.Intn(10) != 0 {
		add(newTmpl())
	}
	if c.Rng.Intn(12) != 0 {
		add(pdStep{Call: "initialize", Fault: pdFault(c, fp)})
		if c.Rng.Intn(3) == 0 {
			add(pdStep{Call: "submit", Fault: "none"}) // the controller's write passes the webhook
		}
	}
	n := c.Rng.Intn(9)
	for i := 0; i < n; i++ {
		switch c.Rng.Intn(14) {
		case 0, 1, 2, 3, 4:
			add(pdStep{Call: "upgradeBatch", Fault: pdFault(c, fp), Batch: batch})
			if c.Rng.Intn(2) == 0 && batch < nb-1 {
				batch++
			}
		case 5:
			add(pdStep{Call: "initialize", Fault: pdFault(c, fp)})
		case 6:
			add(pdStep{Call: "submit", Fault: "none"})
		case 7:
			add(newTmpl())
		case 8, 9: // kubectl apply of the manifest: strategy re-submitted
			e := &pdEdit{SetStrat: true, StratType: "RollingUpdate", RU: pdValidRU(c)}
			if c.Rng.Intn(2) == 0 {
				tm++
				e.Tmpl = pdIntP(tm)
			}
			add(pdStep{Call: "submit", Fault: "none", Edit: e})
		case 10: // scale
			add(pdStep{Call: "submit", Fault: "none", Edit: &pdEdit{Replicas: pdIntP(c.Rng.Intn(14))}})
		case 11, 12: // continuous release: the BatchRelease is deleted mid-way, a new one claims
			add(pdStep{Call: "finalize", Fault: pdFault(c, fp), Batch: batch, BpNil: false})
			if c.Rng.Intn(6) != 0 {
				add(newTmpl())
				batch = 0
				if c.Rng.Intn(6) != 0 {
					add(pdStep{Call: "initialize", Fault: pdFault(c, fp)})
				}
			}
		case 13:
			add(pdStep{Call: "upgradeBatch", Fault: pdFault(c, fp), Batch: c.Rng.Intn(nb)})
		}
	}
	if c.Rng.Intn(8) != 0 {
		if c.Rng.Intn(6) == 0 {
			add(pdStep{Call: "finalize", Fault: "write", Batch: batch, BpNil: true}) // a failed attempt first
		}
		in.Steps = append(in.Steps, pdStep{Call: "finalize", Fault: "none", Batch: batch, BpNil: true})
		switch c.Rng.Intn(8) {
		case 0:
			in.Steps = append(in.Steps, pdStep{Call: "finalize", Fault: "none", Batch: batch, BpNil: true})
		case 1:
			in.Steps = append(in.Steps, pdStep{Call: "submit", Fault: "none"})
		}
	}
	return in
}

func pdAnyStrategy(c *Ctx, R int) *pdStrategy {
	s := &pdStrategy{RollingStyle: pdPick(c, "Partition", "Partition", "Partition", "Partition", "partition", "Canary", "BlueGreen", "").(string),
		RU: pdAnyRU(c), Paused: c.Rng.Intn(4) == 0}
	switch c.Rng.Intn(8) {
	case 0:
		s.Partition = J{"i": 0}
	case 1, 2:
		s.Partition = J{"i": c.Rng.Intn(R + 3)}
	case 3:
		s.Partition = J{"s": "bad"}
	case 4:
		s.Partition = J{"p": 100}
	default:
		s.Partition = J{"p": c.Rng.Intn(110)}
	}
	return s
}

// pdAnyDep: every API-reachable shape, including leftovers of earlier releases and hand edits
func pdAnyDep(c *Ctx) *pdDep {
	R := c.Rng.Intn(13)
	if c.Rng.Intn(10) == 0 {
		R = 100 + c.Rng.Intn(200)
	}
	d := &pdDep{Replicas: &R, Paused: c.Rng.Intn(3) != 0, StratType: pdPick(c, "Recreate", "Recreate", "Recreate", "RollingUpdate", "RollingUpdate", "").(string),
		StratRU: pdAnyRU(c), Control: pdPick(c, "this", "this", "this", "none", "none", "other").(string), CtrlLabel: c.Rng.Intn(2) == 0,
		StableRev: pdPick(c, "", "h-stable", "h-old").(string), ExtraStatus: c.Rng.Intn(3) == 0, InProgress: c.Rng.Intn(3) != 0, Tmpl: 1 + c.Rng.Intn(3)}
	if c.Rng.Intn(30) == 0 {
		d.Replicas = nil
	}
	switch c.Rng.Intn(10) {
	case 0, 1:
		d.Anno.Kind = "absent"
	case 2:
		d.Anno.Kind = "invalid"
	default:
		d.Anno.Kind = "valid"
		d.Anno.S = pdAnyStrategy(c, R)
	}
	return d
}

func pdAnyEdit(c *Ctx) *pdEdit {
	if c.Rng.Intn(4) == 0 {
		return nil
	}
	e := &pdEdit{}
	if c.Rng.Intn(2) == 0 {
		e.Tmpl = pdIntP(1 + c.Rng.Intn(5))
	}
	if c.Rng.Intn(2) == 0 {
		e.SetStrat = true
		e.StratType = pdPick(c, "RollingUpdate", "RollingUpdate", "Recreate", "").(string)
		e.RU = pdAnyRU(c)
	}
	if c.Rng.Intn(4) == 0 {
		b := c.Rng.Intn(2) == 0
		e.Paused = &b
	}
	if c.Rng.Intn(5) == 0 {
		e.Replicas = pdIntP(c.Rng.Intn(14))
	}
	return e
}

// pdAnyWalk: a few arbitrary calls from an arbitrary state
func pdAnyWalk(c *Ctx) *pdIn {
	d := pdAnyDep(c)
	R := 5
	if d.Replicas != nil {
		R = *d.Replicas
	}
	in := &pdIn{Dep: d, Batches: pdBatches(c, R), RollbackAnno: c.Rng.Intn(5) == 0, Updated: c.Rng.Intn(R + 1),
		Matched: c.Rng.Intn(3) != 0}
	if c.Rng.Intn(4) != 0 {
		in.RsTmpl = pdIntP(1 + c.Rng.Intn(3))
	}
	if c.Rng.Intn(25) == 0 {
		in.Dep = nil
	}
	if c.Rng.Intn(40) == 0 {
		in.Batches = nil
	}
	nb := len(in.Batches)
	n := 1 + c.Rng.Intn(4)
	for i := 0; i < n; i++ {
		s := pdStep{Call: pdPick(c, "initialize", "initialize", "upgradeBatch", "upgradeBatch", "upgradeBatch", "finalize", "finalize", "submit", "submit").(string),
			Fault: pdFault(c, 20), BpNil: c.Rng.Intn(2) == 0}
		if nb > 0 {
			s.Batch = c.Rng.Intn(nb)
		}
		switch c.Rng.Intn(40) {
		case 0:
			s.Batch = nb
		case 1:
			s.Batch = -1
		}
		if s.Call == "submit" {
			s.Fault = "none"
			s.Edit = pdAnyEdit(c)
		}
		in.Steps = append(in.Steps, s)
		if c.Rng.Intn(4) == 0 && s.Call != "submit" {
			s.Fault = "none"
			in.Steps = append(in.Steps, s)
		}
	}
	return in
}

func runCtlPDeploy(c *Ctx) {
	for i := 0; i < c.N; i++ {
		switch r := c.Rng.Intn(10); {
		case r < 6:
			pdCase(c, pdLifeCycle(c))
		default:
			pdCase(c, pdAnyWalk(c))
		}
	}
}
