package main

// Suite "depctl" — the advanced Deployment controller *around* syncDeployment (attached to C17, C07, C08, C06).
//
// Runs the real `ReconcileDeployment.Reconcile` (pkg/controller/deployment/controller.go) through the add-only hook
// `VerifNewReconcileDeployment`: controller-runtime fake client (reads of the Deployment and of the webhook
// configuration, the protection patch) + client-go fake typed clientset (ReplicaSet writes, status, extra-status patch)
// + listers, exactly the three access paths the production reconciler uses.  One case = one Reconcile from one
// abstract world; op `twice` runs a second Reconcile on the state the first one left.  Op `upd` / `rsevt` / `hookevt`
// drive the real watch wiring of `add` (captured from a recording manager): the Deployment update predicate, the
// ReplicaSet → owner mapping and MutatingWebhookEventHandler.
//
// Abstract world (what the Lean model RV.Model.DepCtl sees): see dcIn.  Faults: the Get of the Deployment, the Get
// of the webhook configuration, the protection patch, the k-th *size-changing* ReplicaSet write and every later one,
// every Deployment status write, the extra-status patch.

import (
	"context"
	"encoding/json"
	"errors"
	"fmt"
	"reflect"
	"sort"
	"strings"
	"time"

	"github.com/go-logr/logr"
	admissionregistrationv1 "k8s.io/api/admissionregistration/v1"
	apps "k8s.io/api/apps/v1"
	apiequality "k8s.io/apimachinery/pkg/api/equality"
	"k8s.io/apimachinery/pkg/api/meta"
	metav1 "k8s.io/apimachinery/pkg/apis/meta/v1"
	"k8s.io/apimachinery/pkg/runtime"
	"k8s.io/apimachinery/pkg/runtime/schema"
	"k8s.io/apimachinery/pkg/types"
	"k8s.io/apimachinery/pkg/util/intstr"
	appslisters "k8s.io/client-go/listers/apps/v1"
	k8stesting "k8s.io/client-go/testing"
	"k8s.io/client-go/tools/record"
	"k8s.io/client-go/util/workqueue"
	"sigs.k8s.io/controller-runtime/pkg/cache"
	"sigs.k8s.io/controller-runtime/pkg/client"
	ctrlcfg "sigs.k8s.io/controller-runtime/pkg/config/v1alpha1"
	"sigs.k8s.io/controller-runtime/pkg/event"
	"sigs.k8s.io/controller-runtime/pkg/handler"
	"sigs.k8s.io/controller-runtime/pkg/manager"
	"sigs.k8s.io/controller-runtime/pkg/predicate"
	"sigs.k8s.io/controller-runtime/pkg/reconcile"
	"sigs.k8s.io/controller-runtime/pkg/runtime/inject"

	"github.com/openkruise/rollouts/api/v1alpha1"
	"github.com/openkruise/rollouts/pkg/controller/deployment"
	deploymentutil "github.com/openkruise/rollouts/pkg/controller/deployment/util"
	"github.com/openkruise/rollouts/pkg/util"
	"github.com/openkruise/rollouts/pkg/webhook/util/configuration"
)

func init() { register("depctl", runDepCtl, replayDepCtl) }

// ---------------------------------------------------------------- abstract world

type dcFault struct {
	GetD    bool `json:"getD"`    // r.Get of the Deployment fails (not NotFound)
	GetW    bool `json:"getW"`    // r.Get of the webhook configuration fails (not NotFound)
	Protect bool `json:"protect"` // r.Patch (strategy back to RollingUpdate) fails
	ScaleAt *int `json:"scaleAt"` // the k-th size-changing ReplicaSet write (create included) and all later ones fail
	Status  bool `json:"status"`  // every Deployment UpdateStatus fails
	Extra   bool `json:"extra"`   // the extra-status annotation patch fails
}

type dcIn struct {
	Exists        bool        `json:"exists"`
	Ctrl          string      `json:"ctrl"`  // batchrelease control-info annotation: absent | empty | set
	Stype         string      `json:"stype"` // spec.strategy.type: Recreate | RollingUpdate | other
	Ru            interface{} `json:"ru"` // spec.strategy.rollingUpdate: null | {"surge","unav"} (null next to Recreate: API validation)
	SpecPaused    bool        `json:"specPaused"`
	Anno          string      `json:"anno"`    // deployment-strategy annotation: absent | unparsable | ok
	AnnoRaw       string      `json:"annoRaw"` // raw text when unparsable (not read by the model)
	Style         string      `json:"style"`   // rollingStyle: Partition | Canary | BlueGreen | none | other
	Sel           string      `json:"sel"`     // spec.selector: normal | all | bad
	Hook          string      `json:"hook"`    // mutating webhook configuration: present | absent | terminating
	Gen           int         `json:"gen"`
	ObsGen        int         `json:"obsGen"`
	StatusUpdated int         `json:"statusUpdated"`
	NewReady      int         `json:"newReady"` // status.readyReplicas of the new ReplicaSet
	Extra         interface{} `json:"extra"`    // extra-status annotation: null | {"r","e"} canonical | "other"
	ExtraRaw      string      `json:"extraRaw"` // raw text when "other" (not read by the model)
	Fault         dcFault     `json:"fault"`
	S             dsState     `json:"s"`
}

const dcCtrlInfo = `{"apiVersion":"rollouts.kruise.io/v1beta1","kind":"BatchRelease","name":"br","uid":"u","controller":true}`

// dcExtraString: the exact text patchExtraStatus writes for (ready, expected).
func dcExtraString(r, e int) string {
	b, _ := json.Marshal(&v1alpha1.DeploymentExtraStatus{UpdatedReadyReplicas: int32(r), ExpectedUpdatedReplicas: int32(e)})
	return string(b)
}

// dcExtraAbs: null (absent or ""), {"r","e"} when the text is exactly the canonical encoding, "other" otherwise.
func dcExtraAbs(ann map[string]string) interface{} {
	v, ok := ann[v1alpha1.DeploymentExtraStatusAnnotation]
	if !ok || v == "" {
		return nil
	}
	es := v1alpha1.DeploymentExtraStatus{}
	if err := json.Unmarshal([]byte(v), &es); err == nil {
		if dcExtraString(int(es.UpdatedReadyReplicas), int(es.ExpectedUpdatedReplicas)) == v {
			return J{"r": int(es.UpdatedReadyReplicas), "e": int(es.ExpectedUpdatedReplicas)}
		}
	}
	return "other"
}

func dcStyleOf(s string) v1alpha1.RollingStyleType {
	switch s {
	case "none":
		return ""
	case "other":
		return "Rainbow"
	}
	return v1alpha1.RollingStyleType(s)
}

func dcStyleAbs(s v1alpha1.RollingStyleType) string {
	switch s {
	case v1alpha1.PartitionRollingStyle, v1alpha1.CanaryRollingStyle, v1alpha1.BlueGreenRollingStyle:
		return string(s)
	case "":
		return "none"
	}
	return "other"
}

func dcStypeAbs(t apps.DeploymentStrategyType) string {
	switch t {
	case apps.RecreateDeploymentStrategyType, apps.RollingUpdateDeploymentStrategyType:
		return string(t)
	}
	return "other"
}

// ---------------------------------------------------------------- concrete cluster

// dcCRClient: the controller-runtime client of the reconciler — read faults, the protection patch fault, call log.
type dcCRClient struct {
	client.Client
	w *dcWorld
}

func (c *dcCRClient) Get(ctx context.Context, key client.ObjectKey, obj client.Object, opts ...client.GetOption) error {
	switch obj.(type) {
	case *apps.Deployment:
		if c.w.in.Fault.GetD {
			c.w.fired = true
			return errors.New("verif:getD")
		}
	case *admissionregistrationv1.MutatingWebhookConfiguration:
		if c.w.in.Fault.GetW {
			c.w.fired = true
			return errors.New("verif:getW")
		}
	}
	return c.Client.Get(ctx, key, obj, opts...)
}

func (c *dcCRClient) Patch(ctx context.Context, obj client.Object, patch client.Patch, opts ...client.PatchOption) error {
	if _, ok := obj.(*apps.Deployment); !ok {
		c.w.calls = append(c.w.calls, []interface{}{"unexpected", "patch", fmt.Sprintf("%T", obj)})
		return c.Client.Patch(ctx, obj, patch, opts...)
	}
	if c.w.in.Fault.Protect {
		c.w.fired = true
		c.w.calls = append(c.w.calls, []interface{}{"protect", false})
		return errors.New("verif:protect")
	}
	err := c.Client.Patch(ctx, obj, patch, opts...)
	c.w.calls = append(c.w.calls, []interface{}{"protect", err == nil})
	return err
}

func (c *dcCRClient) unexpected(verb string, obj client.Object) {
	c.w.calls = append(c.w.calls, []interface{}{"unexpected", verb, fmt.Sprintf("%T", obj)})
}
func (c *dcCRClient) Create(ctx context.Context, obj client.Object, opts ...client.CreateOption) error {
	c.unexpected("create", obj)
	return c.Client.Create(ctx, obj, opts...)
}
func (c *dcCRClient) Update(ctx context.Context, obj client.Object, opts ...client.UpdateOption) error {
	c.unexpected("update", obj)
	return c.Client.Update(ctx, obj, opts...)
}
func (c *dcCRClient) Delete(ctx context.Context, obj client.Object, opts ...client.DeleteOption) error {
	c.unexpected("delete", obj)
	return c.Client.Delete(ctx, obj, opts...)
}

type dcWorld struct {
	in    *dcIn
	cl    *dsCluster
	cr    *dcCRClient
	calls [][]interface{} // abstract write log, in order
	other int             // attempted writes the model does not predict: Deployment status, ReplicaSet metadata-only
	fired bool            // some injected fault was hit
	nsc   int             // size-changing ReplicaSet writes so far
	idxOf map[string]int
}

var dcRSGVR = schema.GroupVersionResource{Group: "apps", Version: "v1", Resource: "replicasets"}
var dcDGVR = schema.GroupVersionResource{Group: "apps", Version: "v1", Resource: "deployments"}

func dcBuild(in *dcIn) *dcWorld {
	w := &dcWorld{in: in, idxOf: map[string]int{}}
	cl := dsBuild(&in.S)
	w.cl = cl
	d := cl.dep()
	// --- the Deployment as the abstract world describes it
	switch in.Ctrl {
	case "absent":
		delete(d.Annotations, util.BatchReleaseControlAnnotation)
	case "empty":
		d.Annotations[util.BatchReleaseControlAnnotation] = ""
	default:
		d.Annotations[util.BatchReleaseControlAnnotation] = dcCtrlInfo
	}
	switch in.Anno {
	case "absent":
		delete(d.Annotations, v1alpha1.DeploymentStrategyAnnotation)
	case "unparsable":
		d.Annotations[v1alpha1.DeploymentStrategyAnnotation] = in.AnnoRaw
	default:
		st := v1alpha1.DeploymentStrategy{}
		if err := json.Unmarshal([]byte(dsStrategyAnno(&in.S)), &st); err != nil {
			panic(err)
		}
		st.RollingStyle = dcStyleOf(in.Style)
		b, _ := json.Marshal(&st)
		d.Annotations[v1alpha1.DeploymentStrategyAnnotation] = string(b)
	}
	switch in.Stype {
	case "Recreate":
		d.Spec.Strategy = apps.DeploymentStrategy{Type: apps.RecreateDeploymentStrategyType}
	case "RollingUpdate":
		d.Spec.Strategy = apps.DeploymentStrategy{Type: apps.RollingUpdateDeploymentStrategyType}
	default:
		d.Spec.Strategy = apps.DeploymentStrategy{}
	}
	if m, ok := in.Ru.(map[string]interface{}); ok {
		ru := &apps.RollingUpdateDeployment{}
		if v, ok := m["surge"].(map[string]interface{}); ok && len(v) > 0 {
			x := iosFromJ(v)
			ru.MaxSurge = &x
		}
		if v, ok := m["unav"].(map[string]interface{}); ok && len(v) > 0 {
			x := iosFromJ(v)
			ru.MaxUnavailable = &x
		}
		d.Spec.Strategy.RollingUpdate = ru
	}
	d.Spec.Paused = in.SpecPaused
	switch in.Sel {
	case "all":
		d.Spec.Selector = &metav1.LabelSelector{}
	case "bad":
		d.Spec.Selector = &metav1.LabelSelector{MatchExpressions: []metav1.LabelSelectorRequirement{{Key: "app", Operator: "Bogus"}}}
	}
	d.Generation = int64(in.Gen)
	d.Status.ObservedGeneration = int64(in.ObsGen)
	d.Status.UpdatedReplicas = int32(in.StatusUpdated)
	switch e := in.Extra.(type) {
	case nil:
		delete(d.Annotations, v1alpha1.DeploymentExtraStatusAnnotation)
	case string:
		d.Annotations[v1alpha1.DeploymentExtraStatusAnnotation] = in.ExtraRaw
	case map[string]interface{}:
		d.Annotations[v1alpha1.DeploymentExtraStatusAnnotation] = dcExtraString(toInt(e["r"]), toInt(e["e"]))
	default:
		panic(fmt.Sprintf("extra: %T", in.Extra))
	}
	d.Labels = map[string]string{v1alpha1.AdvancedDeploymentControlLabel: "true", "user": "label"}
	if err := cl.cs.Tracker().Update(dcDGVR, d, dsNS); err != nil {
		panic(err)
	}
	if in.S.New != nil {
		rs := cl.rss()[in.S.New.Name]
		rs.Status.ReadyReplicas = int32(in.NewReady)
		if err := cl.cs.Tracker().Update(dcRSGVR, rs, dsNS); err != nil {
			panic(err)
		}
		w.idxOf[in.S.New.Name] = -1
	}
	for i, r := range in.S.Olds {
		w.idxOf[r.Name] = i
	}
	// --- controller-runtime store: the Deployment and the webhook configuration
	objs := []client.Object{}
	if in.Exists {
		objs = append(objs, d.DeepCopy())
	}
	switch in.Hook {
	case "present":
		objs = append(objs, &admissionregistrationv1.MutatingWebhookConfiguration{ObjectMeta: metav1.ObjectMeta{Name: configuration.MutatingWebhookConfigurationName}})
	case "terminating":
		t := metav1.NewTime(time.Unix(dsBase, 0))
		objs = append(objs, &admissionregistrationv1.MutatingWebhookConfiguration{ObjectMeta: metav1.ObjectMeta{
			Name: configuration.MutatingWebhookConfigurationName, DeletionTimestamp: &t, Finalizers: []string{"x/y"}}})
	}
	w.cr = &dcCRClient{Client: fakeClient(objs...), w: w}
	// --- write log + faults of the typed clientset
	cl.cs.PrependReactor("*", "*", func(a k8stesting.Action) (bool, runtime.Object, error) {
		verb, res, sub := a.GetVerb(), a.GetResource().Resource, a.GetSubresource()
		switch verb {
		case "get", "list", "watch":
			return false, nil, nil
		}
		switch {
		case res == "replicasets" && sub == "" && (verb == "create" || verb == "update"):
			var rs *apps.ReplicaSet
			idx, sizeChange := -1, true
			if verb == "create" {
				rs = a.(k8stesting.CreateAction).GetObject().(*apps.ReplicaSet)
			} else {
				rs = a.(k8stesting.UpdateAction).GetObject().(*apps.ReplicaSet)
				k, ok := w.idxOf[rs.Name]
				if !ok {
					w.calls = append(w.calls, []interface{}{"unexpected", verb, "replicasets/" + rs.Name})
					return false, nil, nil
				}
				idx = k
				cur, err := cl.cs.Tracker().Get(dcRSGVR, dsNS, rs.Name)
				if err != nil {
					panic(err)
				}
				sizeChange = *cur.(*apps.ReplicaSet).Spec.Replicas != *rs.Spec.Replicas
			}
			if !sizeChange {
				w.other++
				return false, nil, nil
			}
			k := w.nsc
			w.nsc++
			if in.Fault.ScaleAt != nil && k >= *in.Fault.ScaleAt {
				w.fired = true
				w.calls = append(w.calls, []interface{}{"scale", idx, int(*rs.Spec.Replicas), false})
				return true, nil, errors.New("verif:scale")
			}
			w.calls = append(w.calls, []interface{}{"scale", idx, int(*rs.Spec.Replicas), true})
			if verb == "create" {
				w.idxOf[rs.Name] = -1
			}
			return false, nil, nil
		case res == "deployments" && sub == "status" && verb == "update":
			w.other++
			if in.Fault.Status {
				w.fired = true
				return true, nil, errors.New("verif:status")
			}
			return false, nil, nil
		case res == "deployments" && sub == "" && verb == "patch":
			pa := a.(k8stesting.PatchAction)
			var body struct {
				Metadata struct {
					Annotations map[string]string `json:"annotations"`
				} `json:"metadata"`
			}
			var what interface{} = "other"
			if pa.GetPatchType() == types.MergePatchType && json.Unmarshal(pa.GetPatch(), &body) == nil && len(body.Metadata.Annotations) == 1 {
				what = dcExtraAbs(body.Metadata.Annotations)
			}
			if in.Fault.Extra {
				w.fired = true
				w.calls = append(w.calls, []interface{}{"extra", what, false})
				return true, nil, errors.New("verif:extra")
			}
			w.calls = append(w.calls, []interface{}{"extra", what, true})
			return false, nil, nil
		}
		w.calls = append(w.calls, []interface{}{"unexpected", verb, res + "/" + sub})
		return false, nil, nil
	})
	return w
}

func (w *dcWorld) crDep() *apps.Deployment {
	d := &apps.Deployment{}
	if err := w.cr.Client.Get(context.TODO(), types.NamespacedName{Namespace: dsNS, Name: dsName}, d); err != nil {
		return nil
	}
	return d
}

// snapshot of everything the reconciler could touch
type dcSnap struct {
	crD *apps.Deployment
	csD *apps.Deployment
	rss map[string]*apps.ReplicaSet
	mwc int
}

func (w *dcWorld) snap() *dcSnap {
	l := &admissionregistrationv1.MutatingWebhookConfigurationList{}
	if err := w.cr.Client.List(context.TODO(), l); err != nil {
		panic(err)
	}
	return &dcSnap{crD: w.crDep(), csD: w.cl.dep(), rss: w.cl.rss(), mwc: len(l.Items)}
}

func dcMetaFrame(a, b *metav1.ObjectMeta, skipAnno map[string]bool) bool {
	strip := func(m map[string]string) map[string]string {
		o := map[string]string{}
		for k, v := range m {
			if !skipAnno[k] {
				o[k] = v
			}
		}
		return o
	}
	return a.Name == b.Name && a.Namespace == b.Namespace && a.UID == b.UID && reflect.DeepEqual(a.Labels, b.Labels) &&
		reflect.DeepEqual(strip(a.Annotations), strip(b.Annotations)) && reflect.DeepEqual(a.OwnerReferences, b.OwnerReferences) &&
		reflect.DeepEqual(a.Finalizers, b.Finalizers) && a.DeletionTimestamp.IsZero() == b.DeletionTimestamp.IsZero() &&
		a.Generation == b.Generation
}

// frame: apart from spec.strategy (controller-runtime store), the extra-status / revision annotations and the status
// (clientset store), ReplicaSet sizes + their replica/revision annotations + minReadySeconds, and at most one created
// ReplicaSet owned by the Deployment, nothing differs.
func dcFrame(b, a *dcSnap) bool {
	if (b.crD == nil) != (a.crD == nil) || b.mwc != a.mwc {
		return false
	}
	if b.crD != nil {
		x, y := b.crD.DeepCopy(), a.crD.DeepCopy()
		x.Spec.Strategy, y.Spec.Strategy = apps.DeploymentStrategy{}, apps.DeploymentStrategy{}
		if !dcMetaFrame(&x.ObjectMeta, &y.ObjectMeta, nil) || !apiequality.Semantic.DeepEqual(x.Spec, y.Spec) || !apiequality.Semantic.DeepEqual(x.Status, y.Status) {
			return false
		}
	}
	skipD := map[string]bool{v1alpha1.DeploymentExtraStatusAnnotation: true, deploymentutil.RevisionAnnotation: true,
		deploymentutil.RevisionHistoryAnnotation: true}
	if !dcMetaFrame(&b.csD.ObjectMeta, &a.csD.ObjectMeta, skipD) || !apiequality.Semantic.DeepEqual(b.csD.Spec, a.csD.Spec) {
		return false
	}
	skipRS := map[string]bool{deploymentutil.RevisionAnnotation: true, deploymentutil.RevisionHistoryAnnotation: true,
		deploymentutil.ReplicasAnnotation: true, deploymentutil.MaxReplicasAnnotation: true}
	created := 0
	for n, y := range a.rss {
		x, ok := b.rss[n]
		if !ok {
			created++
			ref := metav1.GetControllerOf(y)
			if ref == nil || ref.UID != a.csD.UID || !deploymentutil.EqualIgnoreHash(&y.Spec.Template, &a.csD.Spec.Template) {
				return false
			}
			continue
		}
		// annotations copied from the Deployment by SetNewReplicaSetAnnotations are allowed on the new RS only
		x2, y2 := x.DeepCopy(), y.DeepCopy()
		x2.Spec.Replicas, y2.Spec.Replicas = nil, nil
		x2.Spec.MinReadySeconds, y2.Spec.MinReadySeconds = 0, 0
		sk := skipRS
		if deploymentutil.EqualIgnoreHash(&y.Spec.Template, &a.csD.Spec.Template) {
			sk = map[string]bool{}
			for k := range skipRS {
				sk[k] = true
			}
			for k := range a.csD.Annotations {
				sk[k] = true
			}
		}
		if !dcMetaFrame(&x2.ObjectMeta, &y2.ObjectMeta, sk) || !apiequality.Semantic.DeepEqual(x2.Spec, y2.Spec) || !apiequality.Semantic.DeepEqual(x2.Status, y2.Status) {
			return false
		}
	}
	for n := range b.rss {
		if _, ok := a.rss[n]; !ok {
			return false
		}
	}
	return created <= 1
}

func dcUntouched(b, a *dcSnap) bool {
	return reflect.DeepEqual(b.crD, a.crD) && reflect.DeepEqual(b.csD, a.csD) && reflect.DeepEqual(b.rss, a.rss) && b.mwc == a.mwc
}

func dcErrKinds(err error) []string {
	if err == nil {
		return []string{}
	}
	msg := err.Error()
	out := []string{}
	if strings.Contains(msg, "syncDeployment: ") {
		out = append(out, "sync")
	}
	if strings.Contains(msg, "patchExtraStatus: ") {
		out = append(out, "extra")
	}
	if len(out) > 0 {
		return out
	}
	switch {
	case strings.Contains(msg, "verif:getD"):
		return []string{"get"}
	case strings.Contains(msg, "verif:getW"):
		return []string{"hook"}
	case strings.Contains(msg, "verif:protect"):
		return []string{"protect"}
	}
	return []string{"unknown"}
}

// one real Reconcile on the world as it is now
func (w *dcWorld) reconcile() interface{} {
	return guard(func() interface{} {
		w.cl.refreshListers()
		w.calls, w.other, w.fired, w.nsc = nil, 0, false, 0
		before := w.snap()
		r := deployment.VerifNewReconcileDeployment(w.cr, w.cl.cs, &record.FakeRecorder{},
			appslisters.NewDeploymentLister(w.cl.dIdx), appslisters.NewReplicaSetLister(w.cl.rsIdx))
		res, err := r.Reconcile(context.TODO(), reconcile.Request{NamespacedName: types.NamespacedName{Namespace: dsNS, Name: dsName}})
		after := w.snap()
		out := J{}
		switch {
		case err != nil:
			out["res"] = "err"
		case res.Requeue:
			out["res"] = "requeueNow"
		case res.RequeueAfter == deployment.DefaultRetryDuration:
			out["res"] = "requeue"
		case res.RequeueAfter != 0:
			out["res"] = fmt.Sprintf("requeue:%v", res.RequeueAfter)
		default:
			out["res"] = "ok"
		}
		if err != nil && (res.Requeue || res.RequeueAfter != 0) {
			out["res"] = "err+requeue"
		}
		out["errs"] = dcErrKinds(err)
		calls := w.calls
		if calls == nil {
			calls = [][]interface{}{}
		}
		out["calls"] = calls
		out["other"] = w.other
		out["fired"] = w.fired
		out["frame"] = dcFrame(before, after)
		out["untouched"] = dcUntouched(before, after) && len(calls) == 0 && w.other == 0
		out["post"] = w.postAbs(after)
		return out
	})
}

// postAbs: what the model predicts about the state afterwards.
func (w *dcWorld) postAbs(a *dcSnap) J {
	p := J{}
	if a.crD != nil {
		p["stype"] = dcStypeAbs(a.crD.Spec.Strategy.Type)
		if ru := a.crD.Spec.Strategy.RollingUpdate; ru != nil {
			p["ru"] = J{"surge": iosOutPtr(ru.MaxSurge), "unav": iosOutPtr(ru.MaxUnavailable)}
		} else {
			p["ru"] = nil
		}
	} else {
		p["stype"], p["ru"] = nil, nil
	}
	p["extra"] = dcExtraAbs(a.csD.Annotations)
	p["status"] = J{"replicas": int(a.csD.Status.Replicas), "updated": int(a.csD.Status.UpdatedReplicas), "obsGen": int(a.csD.Status.ObservedGeneration)}
	olds := make([]interface{}, len(w.in.S.Olds))
	var nw interface{}
	for n, rs := range a.rss {
		k, ok := w.idxOf[n]
		if !ok {
			panic("unknown RS after reconcile: " + n)
		}
		if k == -1 {
			nw = int(*rs.Spec.Replicas)
		} else {
			olds[k] = int(*rs.Spec.Replicas)
		}
	}
	p["new"], p["olds"] = nw, olds
	return p
}

// syncStores: make both stores agree on the Deployment (what one API server would hold) before a second reconcile.
func (w *dcWorld) syncStores() {
	cr := w.crDep()
	cs := w.cl.dep()
	if cr == nil {
		return
	}
	cs.Spec.Strategy = cr.Spec.Strategy
	if err := w.cl.cs.Tracker().Update(dcDGVR, cs, dsNS); err != nil {
		panic(err)
	}
	cr.Annotations = cs.Annotations
	cr.Status = cs.Status
	if err := w.cr.Client.Update(context.TODO(), cr); err != nil {
		panic(err)
	}
	cr.Status = cs.Status
	if err := w.cr.Client.Status().Update(context.TODO(), cr); err != nil {
		panic(err)
	}
}

func (c *Ctx) dcCase(in *dcIn) {
	c.Begin("reconcile", in)
	w := dcBuild(in)
	c.Emit("reconcile", in, w.reconcile())
	c.Done(0)
}

func (c *Ctx) dcTwice(in *dcIn) {
	in.Fault = dcFault{}
	c.Begin("twice", in)
	w := dcBuild(in)
	first := w.reconcile()
	second := guard(func() interface{} {
		w.syncStores()
		return w.reconcile()
	})
	c.Emit("twice", in, J{"first": first, "second": second})
	c.Done(0)
}

// ---------------------------------------------------------------- generator

var dcGarbage = []string{"", "{", "[1]", `"x"`, `{"partition":{}}`, `{"rollingStyle":7}`, `{"paused":"yes"}`, "partition: 1"}

func dcGen(c *Ctx) *dcIn {
	rng := c.Rng
	var s *dsState
	if rng.Intn(12) == 0 {
		s = dsGenMalformed(c)
	} else {
		s = dsGenState(c)
	}
	if s.Olds == nil {
		s.Olds = []dsRS{}
	}
	if rng.Intn(3) != 0 {
		s.Paused = rng.Intn(8) == 0
		s.Deleting = rng.Intn(20) == 0
	}
	in := &dcIn{Exists: true, Ctrl: "set", Stype: "Recreate", SpecPaused: true, Anno: "ok", Style: "Partition", Sel: "normal",
		Hook: "present", S: *s}
	// --- who owns the Deployment
	switch k := rng.Intn(100); {
	case k < 3:
		in.Exists = false
	case k < 7:
		in.Ctrl = []string{"absent", "empty"}[rng.Intn(2)]
	case k < 11:
		in.Stype = []string{"RollingUpdate", "RollingUpdate", "other"}[rng.Intn(3)]
		if in.Stype == "RollingUpdate" && rng.Intn(3) != 0 {
			in.Ru = map[string]interface{}{"surge": dsRandFence(c, s.Replicas), "unav": dsRandFence(c, s.Replicas)}
		}
	case k < 14:
		in.SpecPaused = false
	case k < 18:
		in.Anno = []string{"absent", "unparsable", "unparsable"}[rng.Intn(3)]
		if in.Anno == "unparsable" {
			in.AnnoRaw = dcGarbage[rng.Intn(len(dcGarbage))]
		}
	case k < 23:
		in.Style = "Canary"
	case k < 30:
		in.Style = []string{"BlueGreen", "none", "other"}[rng.Intn(3)]
	case k < 33:
		// several reasons at once
		in.Ctrl = []string{"absent", "empty", "set"}[rng.Intn(3)]
		in.Stype = []string{"Recreate", "RollingUpdate"}[rng.Intn(2)]
		in.SpecPaused = rng.Intn(2) == 0
		in.Style = []string{"Partition", "Canary"}[rng.Intn(2)]
	}
	// --- admission protection
	switch k := rng.Intn(100); {
	case k < 8:
		in.Hook = "absent"
	case k < 14:
		in.Hook = "terminating"
	}
	switch k := rng.Intn(100); {
	case k < 3:
		in.Sel = "all"
	case k < 5:
		in.Sel = "bad"
	}
	// --- status as read
	in.Gen = 1 + rng.Intn(3)
	in.ObsGen = in.Gen
	switch rng.Intn(10) {
	case 0:
		in.ObsGen = in.Gen - 1
	case 1:
		in.ObsGen = in.Gen + 1
	}
	lim := dcLimit(in)
	if s.New != nil {
		in.StatusUpdated = s.New.Pods
		in.NewReady = s.New.Avail
		switch rng.Intn(5) {
		case 0:
			in.NewReady = rng.Intn(s.New.Pods + 1)
		case 1:
			in.NewReady = s.New.Pods
		}
	} else if rng.Intn(4) == 0 {
		in.NewReady = rng.Intn(3)
	}
	switch rng.Intn(10) {
	case 0:
		in.StatusUpdated = rng.Intn(s.Replicas + 2)
	case 1, 2, 3:
		// a status that looks satisfied (or just short of it)
		in.S.StatusReplicas = s.Replicas
		in.StatusUpdated = lim + rng.Intn(2) - rng.Intn(2)
		if in.StatusUpdated < 0 {
			in.StatusUpdated = 0
		}
	}
	// --- the annotation as it is
	ready := 0
	if s.New != nil {
		ready = in.NewReady
	}
	switch k := rng.Intn(100); {
	case k < 35:
		in.Extra = J{"r": ready, "e": lim}
	case k < 55:
		in.Extra = nil
	case k < 70:
		in.Extra = J{"r": rng.Intn(ready + 2), "e": lim}
	case k < 80:
		in.Extra = J{"r": ready, "e": rng.Intn(lim + 2)}
	case k < 90:
		in.Extra = J{"r": rng.Intn(4), "e": rng.Intn(s.Replicas + 2)}
	default:
		in.Extra = "other"
		in.ExtraRaw = []string{"garbage", `{"updatedReadyReplicas":1, "expectedUpdatedReplicas":2}`, `{"expectedUpdatedReplicas":0}`,
			`{"updatedReadyReplicas":0,"expectedUpdatedReplicas":3}`, "{ }", `{"expectedUpdatedReplicas":2,"updatedReadyReplicas":1}`}[rng.Intn(6)]
	}
	// --- faults
	if rng.Intn(100) < 35 {
		f := &in.Fault
		switch k := rng.Intn(100); {
		case k < 6:
			f.GetD = true
		case k < 12:
			f.GetW = true
		case k < 22:
			f.Protect = true
			if rng.Intn(2) == 0 {
				in.Hook = []string{"absent", "terminating"}[rng.Intn(2)]
			}
		case k < 62:
			f.ScaleAt = intp(rng.Intn(3))
			if rng.Intn(4) == 0 {
				f.Extra = true
			}
		case k < 72:
			f.Status = true
		case k < 90:
			f.Extra = true
			if rng.Intn(3) == 0 {
				in.Extra = nil
			}
		default:
			f.ScaleAt = intp(rng.Intn(2))
			f.Extra = rng.Intn(2) == 0
			f.Status = rng.Intn(2) == 0
			f.Protect = rng.Intn(2) == 0
		}
	}
	return in
}

func dcLimit(in *dcIn) int {
	return int(deploymentutil.NewRSReplicasLimit(iosFromJ(in.S.Partition), &apps.Deployment{Spec: apps.DeploymentSpec{Replicas: i32p(int32(in.S.Replicas))}}))
}

// dcRolling: a world in the middle of a rollout with old ReplicaSets above their reserve (scale-down due) —
// the region where ReplicaSet write faults hit reconcileOldReplicaSets.
func dcRolling(c *Ctx) *dcIn {
	rng := c.Rng
	R := 2 + rng.Intn(10)
	surge, unav := rng.Intn(3), rng.Intn(3)
	if surge == 0 && unav == 0 {
		unav = 1
	}
	lim := 1 + rng.Intn(R)
	nw := rng.Intn(lim + 1)
	s := dsState{Replicas: R, Partition: iosJ(intstr.FromInt(lim)), Rolling: true, Surge: iosJ(intstr.FromInt(surge)),
		Unavailable: iosJ(intstr.FromInt(unav)), Olds: []dsRS{}}
	nOld := 1 + rng.Intn(3)
	left := R - nw + rng.Intn(surge+1)
	for i := 0; i < nOld; i++ {
		sz := left
		if i < nOld-1 {
			sz = rng.Intn(left + 1)
		}
		left -= sz
		av := sz
		if rng.Intn(3) == 0 && sz > 0 {
			av = rng.Intn(sz + 1)
		}
		s.Olds = append(s.Olds, dsRS{Name: fmt.Sprintf("rs-%d", i), Created: i, Revision: i + 1, Spec: sz, Pods: sz, Avail: av,
			Desired: intp(R), Max: intp(R + surge)})
		s.StatusReplicas += sz
	}
	if rng.Intn(8) != 0 {
		av := nw
		if rng.Intn(3) == 0 {
			av = rng.Intn(nw + 1)
		}
		s.New = &dsRS{Name: "rs-n", Created: nOld, Revision: nOld + 1, Spec: nw, Pods: nw, Avail: av, Desired: intp(R), Max: intp(R + surge)}
		s.StatusReplicas += nw
	}
	s.Now = nOld + 2
	in := &dcIn{Exists: true, Ctrl: "set", Stype: "Recreate", SpecPaused: true, Anno: "ok", Style: "Partition", Sel: "normal",
		Hook: "present", S: s, Gen: 1, ObsGen: 1}
	if s.New != nil {
		in.StatusUpdated, in.NewReady = s.New.Pods, s.New.Avail
	}
	switch rng.Intn(4) {
	case 0:
		in.Extra = J{"r": in.NewReady, "e": lim}
	case 1:
		in.Extra = J{"r": 0, "e": rng.Intn(lim + 1)}
	}
	switch rng.Intn(4) {
	case 0:
	case 1:
		in.Fault.ScaleAt = intp(0)
	case 2:
		in.Fault.ScaleAt = intp(rng.Intn(3))
	case 3:
		in.Fault.ScaleAt = intp(rng.Intn(2))
		in.Fault.Extra = rng.Intn(2) == 0
	}
	return in
}

func runDepCtl(c *Ctx) {
	n := c.N
	for _, in := range dcTable() {
		c.dcCase(in)
	}
	for i := 0; i < n; i++ {
		c.dcCase(dcGen(c))
	}
	for i := 0; i < n/4+1; i++ {
		c.dcCase(dcRolling(c))
	}
	for i := 0; i < n/4+1; i++ {
		if c.Rng.Intn(3) == 0 {
			c.dcTwice(dcRolling(c))
		} else {
			c.dcTwice(dcGen(c))
		}
	}
	wt := dcNewWatch()
	for i := 0; i < n/4+1; i++ {
		c.dcUpdCase(wt, dcGenUpd(c))
	}
	for i := 0; i < n/8+1; i++ {
		c.dcRSEvtCase(wt, dcGenRSEvt(c))
		c.dcHookEvtCase(wt, dcGenHookEvt(c))
	}
}

// dcTable: hand-picked worlds (one per branch of Reconcile).
func dcTable() []*dcIn {
	base := func() *dcIn {
		s := dsState{Replicas: 10, Partition: iosJ(intstr.FromInt(4)), Rolling: true, Surge: iosJ(intstr.FromInt(2)),
			Unavailable: iosJ(pct(20)), StatusReplicas: 10, Now: 3,
			Olds: []dsRS{{Name: "rs-0", Created: 0, Revision: 1, Spec: 8, Pods: 8, Avail: 8, Desired: intp(10), Max: intp(12)}},
			New:  &dsRS{Name: "rs-1", Created: 1, Revision: 2, Spec: 2, Pods: 2, Avail: 2, Desired: intp(10), Max: intp(12)}}
		return &dcIn{Exists: true, Ctrl: "set", Stype: "Recreate", SpecPaused: true, Anno: "ok", Style: "Partition", Sel: "normal",
			Hook: "present", Gen: 2, ObsGen: 2, StatusUpdated: 2, NewReady: 1, S: s}
	}
	mod := func(f func(in *dcIn)) *dcIn { in := base(); f(in); return in }
	return []*dcIn{
		base(),
		mod(func(in *dcIn) { in.Exists = false }),
		mod(func(in *dcIn) { in.Ctrl = "absent" }),
		mod(func(in *dcIn) { in.Ctrl = "empty" }),
		mod(func(in *dcIn) { in.Stype = "RollingUpdate" }),
		mod(func(in *dcIn) { in.SpecPaused = false }),
		mod(func(in *dcIn) { in.Anno = "absent" }),
		mod(func(in *dcIn) { in.Anno, in.AnnoRaw = "unparsable", `{"partition":{}}` }),
		mod(func(in *dcIn) { in.Style = "Canary" }),
		mod(func(in *dcIn) { in.Style = "BlueGreen" }),
		mod(func(in *dcIn) { in.Hook = "absent" }),
		mod(func(in *dcIn) { in.Hook = "terminating" }),
		mod(func(in *dcIn) { in.Hook, in.Fault.Protect = "absent", true }),
		mod(func(in *dcIn) { in.Hook, in.S.Rolling, in.S.Surge, in.S.Unavailable = "absent", false, nil, nil }),
		mod(func(in *dcIn) { in.Fault.GetD = true }),
		mod(func(in *dcIn) { in.Fault.GetW = true }),
		mod(func(in *dcIn) { in.Fault.ScaleAt = intp(0) }),
		mod(func(in *dcIn) { in.Fault.Extra = true }),
		mod(func(in *dcIn) { in.Fault.ScaleAt, in.Fault.Extra = intp(0), true }),
		mod(func(in *dcIn) { in.Fault.Status = true }),
		mod(func(in *dcIn) { in.Extra = J{"r": 1, "e": 4} }),
		mod(func(in *dcIn) { in.S.Paused = true }),
		mod(func(in *dcIn) { in.S.Deleting = true }),
		mod(func(in *dcIn) { in.Sel = "all"; in.ObsGen = 1 }),
		mod(func(in *dcIn) { in.Sel = "bad" }),
		// satisfied: new RS at the limit with its pods, old ones at their reserve
		mod(func(in *dcIn) {
			in.S.Olds[0].Spec, in.S.Olds[0].Pods, in.S.Olds[0].Avail = 6, 6, 6
			in.S.New.Spec, in.S.New.Pods, in.S.New.Avail = 4, 4, 4
			in.StatusUpdated, in.NewReady, in.Extra = 4, 4, J{"r": 4, "e": 4}
		}),
		// old ReplicaSets above their reserve, new RS at the limit: the scale-down write fails
		mod(func(in *dcIn) {
			in.S.New.Spec, in.S.New.Pods, in.S.New.Avail = 4, 4, 4
			in.S.StatusReplicas, in.StatusUpdated, in.NewReady = 12, 4, 4
			in.Fault.ScaleAt = intp(0)
		}),
	}
}

// ---------------------------------------------------------------- watch wiring of `add`

// dcMgr: a manager that records what `add` registers (sources, handlers, predicates are handed to SetFields).
type dcMgr struct {
	manager.Manager
	seen   []interface{}
	reader *dcSwapReader
	mapper meta.RESTMapper
}

type dcSwapReader struct {
	cache.Cache
	r       client.Reader
	failLst bool
}

func (s *dcSwapReader) Get(ctx context.Context, key client.ObjectKey, obj client.Object, opts ...client.GetOption) error {
	return s.r.Get(ctx, key, obj, opts...)
}
func (s *dcSwapReader) List(ctx context.Context, list client.ObjectList, opts ...client.ListOption) error {
	if s.failLst {
		return errors.New("verif:list")
	}
	return s.r.List(ctx, list, opts...)
}

func (m *dcMgr) GetLogger() logr.Logger { return logr.Discard() }
func (m *dcMgr) GetControllerOptions() ctrlcfg.ControllerConfigurationSpec {
	return ctrlcfg.ControllerConfigurationSpec{}
}
func (m *dcMgr) Add(manager.Runnable) error { return nil }
func (m *dcMgr) GetCache() cache.Cache      { return m.reader }
func (m *dcMgr) SetFields(i interface{}) error {
	m.seen = append(m.seen, i)
	if _, err := inject.SchemeInto(theScheme, i); err != nil {
		return err
	}
	if _, err := inject.MapperInto(m.mapper, i); err != nil {
		return err
	}
	return nil
}

type dcWatch struct {
	mgr     *dcMgr
	depPred predicate.Predicate // predicate of the Deployment watch
	rsPred  predicate.Predicate // predicate of the ReplicaSet watch
	rsH     handler.EventHandler
	hookH   handler.EventHandler
	depH    handler.EventHandler
}

type dcNopReconciler struct{}

func (dcNopReconciler) Reconcile(context.Context, reconcile.Request) (reconcile.Result, error) {
	return reconcile.Result{}, nil
}

func dcNewWatch() *dcWatch {
	mapper := meta.NewDefaultRESTMapper([]schema.GroupVersion{apps.SchemeGroupVersion})
	mapper.Add(apps.SchemeGroupVersion.WithKind("Deployment"), meta.RESTScopeNamespace)
	mapper.Add(apps.SchemeGroupVersion.WithKind("ReplicaSet"), meta.RESTScopeNamespace)
	m := &dcMgr{reader: &dcSwapReader{r: fakeClient()}, mapper: mapper}
	if err := deployment.VerifAdd(m, dcNopReconciler{}); err != nil {
		panic(err)
	}
	w := &dcWatch{mgr: m}
	// order of registration in add: reconciler; RS source, owner handler, predicate.Funcs{}; webhook source, handler;
	// Deployment source, object handler, predicate
	preds := []predicate.Predicate{}
	for _, x := range m.seen {
		switch v := x.(type) {
		case *handler.EnqueueRequestForOwner:
			w.rsH = v
		case *deployment.MutatingWebhookEventHandler:
			w.hookH = v
		case deployment.MutatingWebhookEventHandler:
			w.hookH = v
		case *handler.EnqueueRequestForObject:
			w.depH = v
		case predicate.Predicate:
			preds = append(preds, v)
		}
	}
	if w.rsH == nil || w.hookH == nil || w.depH == nil || len(preds) != 2 {
		panic(fmt.Sprintf("depctl: watch wiring of add changed: %d objects, %d predicates", len(m.seen), len(preds)))
	}
	w.rsPred, w.depPred = preds[0], preds[1]
	return w
}

// a queue that records what is added
type dcQueue struct {
	workqueue.RateLimitingInterface
	got []string
}

func (q *dcQueue) Add(item interface{}) {
	r := item.(reconcile.Request)
	q.got = append(q.got, r.Namespace+"/"+r.Name)
}

func (q *dcQueue) sorted() []string {
	out := append([]string{}, q.got...)
	sort.Strings(out)
	if out == nil {
		out = []string{}
	}
	return out
}

// --- Deployment events

type dcUpd struct {
	Evt        string `json:"evt"` // update | create | delete | generic
	NewCtrl    string `json:"newCtrl"`
	NewStype   string `json:"newStype"`
	NewPaused  bool   `json:"newPaused"`
	OldGen     int    `json:"oldGen"`
	NewGen     int    `json:"newGen"`
	NewDel     bool   `json:"newDeleting"`
	OldDel     bool   `json:"oldDeleting"`
	AnnoChange string `json:"annoChange"` // none | value | added | removed | swap (same count, other key)
	Other      string `json:"other"`      // none | status | labels | oldControl (old object was not under control)
}

func dcGenUpd(c *Ctx) *dcUpd {
	rng := c.Rng
	u := &dcUpd{Evt: "update", NewCtrl: "set", NewStype: "Recreate", NewPaused: true, OldGen: 1 + rng.Intn(3), AnnoChange: "none", Other: "none"}
	u.NewGen = u.OldGen
	switch rng.Intn(12) {
	case 0:
		u.NewCtrl = []string{"absent", "empty"}[rng.Intn(2)]
	case 1:
		u.NewStype = []string{"RollingUpdate", "other"}[rng.Intn(2)]
	case 2:
		u.NewPaused = false
	}
	switch rng.Intn(8) {
	case 0, 1:
		u.NewGen = u.OldGen + 1
	case 2:
		u.NewGen = u.OldGen - 1
	}
	switch rng.Intn(8) {
	case 0:
		u.NewDel = true
	case 1:
		u.NewDel, u.OldDel = true, true
	}
	u.AnnoChange = []string{"none", "none", "none", "value", "added", "removed", "swap"}[rng.Intn(7)]
	u.Other = []string{"none", "status", "status", "labels", "oldControl"}[rng.Intn(5)]
	if rng.Intn(10) == 0 {
		u.Evt = []string{"create", "delete", "generic"}[rng.Intn(3)]
	}
	return u
}

func dcUpdObjects(u *dcUpd) (*apps.Deployment, *apps.Deployment) {
	mk := func() *apps.Deployment {
		return &apps.Deployment{ObjectMeta: metav1.ObjectMeta{Name: dsName, Namespace: dsNS, Annotations: map[string]string{
			util.BatchReleaseControlAnnotation: dcCtrlInfo, v1alpha1.DeploymentStrategyAnnotation: `{"rollingStyle":"Partition"}`, "k": "v"}},
			Spec: apps.DeploymentSpec{Replicas: i32p(3), Paused: true, Strategy: apps.DeploymentStrategy{Type: apps.RecreateDeploymentStrategyType}}}
	}
	o, n := mk(), mk()
	o.Generation, n.Generation = int64(u.OldGen), int64(u.NewGen)
	t := metav1.NewTime(time.Unix(dsBase, 0))
	if u.OldDel {
		o.DeletionTimestamp = &t
	}
	if u.NewDel {
		n.DeletionTimestamp = &t
	}
	switch u.NewCtrl {
	case "absent":
		delete(n.Annotations, util.BatchReleaseControlAnnotation)
		delete(o.Annotations, util.BatchReleaseControlAnnotation)
	case "empty":
		n.Annotations[util.BatchReleaseControlAnnotation] = ""
		o.Annotations[util.BatchReleaseControlAnnotation] = ""
	}
	switch u.NewStype {
	case "RollingUpdate":
		n.Spec.Strategy.Type = apps.RollingUpdateDeploymentStrategyType
	case "other":
		n.Spec.Strategy.Type = ""
	}
	n.Spec.Paused = u.NewPaused
	switch u.AnnoChange {
	case "value":
		n.Annotations["k"] = "w"
	case "added":
		n.Annotations["k2"] = "v"
	case "removed":
		delete(n.Annotations, "k")
	case "swap":
		delete(n.Annotations, "k")
		n.Annotations["k3"] = "v"
	}
	switch u.Other {
	case "status":
		n.Status.Replicas = 3
		n.Status.AvailableReplicas = 2
		n.ResourceVersion = "7"
	case "labels":
		n.Labels = map[string]string{"a": "b"}
	case "oldControl":
		o.Spec.Paused = false
		o.Spec.Strategy.Type = apps.RollingUpdateDeploymentStrategyType
	}
	return o, n
}

func (c *Ctx) dcUpdCase(wt *dcWatch, u *dcUpd) {
	impl := guard(func() interface{} {
		o, n := dcUpdObjects(u)
		q := &dcQueue{}
		pass := false
		switch u.Evt {
		case "update":
			e := event.UpdateEvent{ObjectOld: o, ObjectNew: n}
			if pass = wt.depPred.Update(e); pass {
				wt.depH.Update(e, q)
			}
		case "create":
			e := event.CreateEvent{Object: n}
			if pass = wt.depPred.Create(e); pass {
				wt.depH.Create(e, q)
			}
		case "delete":
			e := event.DeleteEvent{Object: n}
			if pass = wt.depPred.Delete(e); pass {
				wt.depH.Delete(e, q)
			}
		case "generic":
			e := event.GenericEvent{Object: n}
			if pass = wt.depPred.Generic(e); pass {
				wt.depH.Generic(e, q)
			}
		}
		return J{"pass": pass, "queued": q.sorted()}
	})
	c.Emit("upd", u, impl)
}

// --- ReplicaSet events

type dcOwner struct {
	Kind       string `json:"kind"`  // Deployment | StatefulSet
	Group      string `json:"group"` // apps | extensions | apps.kruise.io
	Name       string `json:"name"`
	Controller string `json:"controller"` // true | false | nil
}

type dcRSEvt struct {
	Evt    string    `json:"evt"`
	Owners []dcOwner `json:"owners"`
	OldOwn []dcOwner `json:"oldOwners"` // update only
}

func dcGenOwners(c *Ctx) []dcOwner {
	rng := c.Rng
	out := []dcOwner{}
	for i, n := 0, []int{0, 1, 1, 1, 1, 2, 2, 3}[rng.Intn(8)]; i < n; i++ {
		o := dcOwner{Kind: "Deployment", Group: "apps", Name: []string{"d", "d", "e"}[rng.Intn(3)], Controller: "true"}
		switch rng.Intn(8) {
		case 0:
			o.Kind = "StatefulSet"
		case 1:
			o.Group = []string{"extensions", "apps.kruise.io"}[rng.Intn(2)]
		case 2, 3:
			o.Controller = []string{"false", "nil"}[rng.Intn(2)]
		}
		out = append(out, o)
	}
	return out
}

func dcGenRSEvt(c *Ctx) *dcRSEvt {
	e := &dcRSEvt{Evt: []string{"create", "update", "update", "delete", "generic"}[c.Rng.Intn(5)], Owners: dcGenOwners(c), OldOwn: []dcOwner{}}
	if e.Evt == "update" {
		if c.Rng.Intn(3) == 0 {
			e.OldOwn = dcGenOwners(c)
		} else {
			e.OldOwn = e.Owners
		}
	}
	return e
}

func dcRSWith(owners []dcOwner) *apps.ReplicaSet {
	rs := &apps.ReplicaSet{ObjectMeta: metav1.ObjectMeta{Name: "rs", Namespace: dsNS}}
	for _, o := range owners {
		ref := metav1.OwnerReference{APIVersion: o.Group + "/v1", Kind: o.Kind, Name: o.Name, UID: types.UID("u-" + o.Name)}
		switch o.Controller {
		case "true":
			t := true
			ref.Controller = &t
		case "false":
			f := false
			ref.Controller = &f
		}
		rs.OwnerReferences = append(rs.OwnerReferences, ref)
	}
	return rs
}

func (c *Ctx) dcRSEvtCase(wt *dcWatch, e *dcRSEvt) {
	impl := guard(func() interface{} {
		q := &dcQueue{}
		n := dcRSWith(e.Owners)
		pass := false
		switch e.Evt {
		case "create":
			ev := event.CreateEvent{Object: n}
			if pass = wt.rsPred.Create(ev); pass {
				wt.rsH.Create(ev, q)
			}
		case "update":
			ev := event.UpdateEvent{ObjectOld: dcRSWith(e.OldOwn), ObjectNew: n}
			if pass = wt.rsPred.Update(ev); pass {
				wt.rsH.Update(ev, q)
			}
		case "delete":
			ev := event.DeleteEvent{Object: n}
			if pass = wt.rsPred.Delete(ev); pass {
				wt.rsH.Delete(ev, q)
			}
		case "generic":
			ev := event.GenericEvent{Object: n}
			if pass = wt.rsPred.Generic(ev); pass {
				wt.rsH.Generic(ev, q)
			}
		}
		return J{"pass": pass, "queued": q.sorted()}
	})
	c.Emit("rsevt", e, impl)
}

// --- webhook-configuration events

type dcHookDep struct {
	Name  string `json:"name"`
	Label string `json:"label"` // true | false | absent
	Stype string `json:"stype"`
}

type dcHookEvt struct {
	Evt      string      `json:"evt"`
	Ours     bool        `json:"ours"`     // the object carries the kruise-rollout configuration's name
	Deleting bool        `json:"deleting"` // deletionTimestamp set
	ListFail bool        `json:"listFail"`
	Deps     []dcHookDep `json:"deps"`
}

func dcGenHookEvt(c *Ctx) *dcHookEvt {
	rng := c.Rng
	e := &dcHookEvt{Evt: []string{"create", "update", "update", "delete", "delete", "generic"}[rng.Intn(6)], Ours: rng.Intn(5) != 0,
		Deleting: rng.Intn(2) == 0, ListFail: rng.Intn(15) == 0, Deps: []dcHookDep{}}
	for i, n := 0, rng.Intn(5); i < n; i++ {
		d := dcHookDep{Name: fmt.Sprintf("d%d", i), Label: "true", Stype: "Recreate"}
		switch rng.Intn(6) {
		case 0:
			d.Label = "false"
		case 1:
			d.Label = "absent"
		}
		switch rng.Intn(5) {
		case 0:
			d.Stype = "RollingUpdate"
		case 1:
			d.Stype = "other"
		}
		e.Deps = append(e.Deps, d)
	}
	return e
}

func (c *Ctx) dcHookEvtCase(wt *dcWatch, e *dcHookEvt) {
	impl := guard(func() interface{} {
		objs := []client.Object{}
		for _, d := range e.Deps {
			o := &apps.Deployment{ObjectMeta: metav1.ObjectMeta{Name: d.Name, Namespace: dsNS, Labels: map[string]string{}}}
			if d.Label != "absent" {
				o.Labels[v1alpha1.AdvancedDeploymentControlLabel] = d.Label
			}
			switch d.Stype {
			case "Recreate":
				o.Spec.Strategy.Type = apps.RecreateDeploymentStrategyType
			case "RollingUpdate":
				o.Spec.Strategy.Type = apps.RollingUpdateDeploymentStrategyType
			}
			objs = append(objs, o)
		}
		wt.mgr.reader.r = fakeClient(objs...)
		wt.mgr.reader.failLst = e.ListFail
		cfg := &admissionregistrationv1.MutatingWebhookConfiguration{ObjectMeta: metav1.ObjectMeta{Name: "some-other-configuration"}}
		if e.Ours {
			cfg.Name = configuration.MutatingWebhookConfigurationName
		}
		if e.Deleting {
			t := metav1.NewTime(time.Unix(dsBase, 0))
			cfg.DeletionTimestamp = &t
		}
		q := &dcQueue{}
		switch e.Evt {
		case "create":
			wt.hookH.Create(event.CreateEvent{Object: cfg}, q)
		case "update":
			wt.hookH.Update(event.UpdateEvent{ObjectOld: cfg, ObjectNew: cfg}, q)
		case "delete":
			wt.hookH.Delete(event.DeleteEvent{Object: cfg}, q)
		case "generic":
			wt.hookH.Generic(event.GenericEvent{Object: cfg}, q)
		}
		return J{"queued": q.sorted()}
	})
	c.Emit("hookevt", e, impl)
}

// ---------------------------------------------------------------- replay

func replayDepCtl(c *Ctx, op string, raw json.RawMessage) {
	switch op {
	case "reconcile", "twice":
		var in dcIn
		if err := json.Unmarshal(raw, &in); err != nil {
			panic(err)
		}
		if in.S.Olds == nil {
			in.S.Olds = []dsRS{}
		}
		if op == "reconcile" {
			c.dcCase(&in)
		} else {
			c.dcTwice(&in)
		}
	case "upd":
		var u dcUpd
		if err := json.Unmarshal(raw, &u); err != nil {
			panic(err)
		}
		c.dcUpdCase(dcNewWatch(), &u)
	case "rsevt":
		var e dcRSEvt
		if err := json.Unmarshal(raw, &e); err != nil {
			panic(err)
		}
		c.dcRSEvtCase(dcNewWatch(), &e)
	case "hookevt":
		var e dcHookEvt
		if err := json.Unmarshal(raw, &e); err != nil {
			panic(err)
		}
		c.dcHookEvtCase(dcNewWatch(), &e)
	}
}
