package main

// Suite ctlsts — the partition-style **StatefulSet-like** and **Advanced DaemonSet** control planes of the
// BatchRelease controller.
//
// Every case is a *walk*: an abstract workload (or none) of one of four Go representations
//
//	native        apps/v1 StatefulSet                     (typed)
//	advanced      apps.kruise.io/v1beta1 StatefulSet      (typed)
//	unstructured  apps.example.io/v1 GameStatefulSet      (unstructured.Unstructured; --filter-workload-type=false)
//	daemonSet     apps.kruise.io/v1alpha1 DaemonSet       (typed)
//
// is concretised inside the controller-runtime fake client, then a list of steps runs the REAL code
//
//	initialize    partitionstyle.realBatchControlPlane.Initialize   → statefulset|daemonset.realController.Initialize
//	upgradeBatch  partitionstyle.realBatchControlPlane.UpgradeBatch → …CalculateBatchContext, …UpgradeBatch
//	finalize      partitionstyle.realBatchControlPlane.Finalize     → …Finalize
//	submit        mutating.UnifiedWorkloadHandler.handleStatefulSetLikeWorkload / WorkloadHandler.handleDaemonSet
//	              (a user's / API update passing the workload webhook)
//
// each controller call with an optional API fault (the Get of the workload fails / the List of its pods fails /
// the write fails).  After every step the stored object is abstracted back; the Lean model (RV.CtlSts) replays
// the same walk and the per-step snapshots are compared; the shared oracles are evaluated on the
// implementation's snapshots.

import (
	"context"
	"encoding/json"
	"errors"
	"flag"
	"fmt"
	"os"
	"reflect"
	"runtime/debug"
	"strings"
	"time"

	kruisev1alpha1 "github.com/openkruise/kruise-api/apps/v1alpha1"
	kruisev1beta1 "github.com/openkruise/kruise-api/apps/v1beta1"
	"github.com/openkruise/rollouts/api/v1alpha1"
	"github.com/openkruise/rollouts/api/v1beta1"
	"github.com/openkruise/rollouts/pkg/controller/batchrelease/control/partitionstyle"
	pdaemonset "github.com/openkruise/rollouts/pkg/controller/batchrelease/control/partitionstyle/daemonset"
	pstatefulset "github.com/openkruise/rollouts/pkg/controller/batchrelease/control/partitionstyle/statefulset"
	"github.com/openkruise/rollouts/pkg/util"
	"github.com/openkruise/rollouts/pkg/webhook/workload/mutating"
	apps "k8s.io/api/apps/v1"
	corev1 "k8s.io/api/core/v1"
	metav1 "k8s.io/apimachinery/pkg/apis/meta/v1"
	"k8s.io/apimachinery/pkg/apis/meta/v1/unstructured"
	"k8s.io/apimachinery/pkg/runtime"
	"k8s.io/apimachinery/pkg/runtime/schema"
	"k8s.io/apimachinery/pkg/types"
	"k8s.io/apimachinery/pkg/util/intstr"
	"k8s.io/client-go/tools/record"
	"sigs.k8s.io/controller-runtime/pkg/client"
)

func init() { register("ctlsts", runCtlSts, replayCtlSts) }

// ---- abstract state (mirrors RV.CtlSts) ----

// ssPart is spec.updateStrategy.rollingUpdate.partition: K = "" (absent) | "int" | "malformed" | "null" | "float"
// ("null" and "float" are input-only spellings of "malformed").
type ssPart struct {
	K string
	N int
}

func (p ssPart) MarshalJSON() ([]byte, error) {
	switch p.K {
	case "":
		return []byte("null"), nil
	case "int":
		return json.Marshal(J{"i": p.N})
	}
	return json.Marshal(p.K)
}

func (p *ssPart) UnmarshalJSON(b []byte) error {
	*p = ssPart{}
	if string(b) == "null" {
		return nil
	}
	if b[0] == '"' {
		return json.Unmarshal(b, &p.K)
	}
	var m struct {
		I int `json:"i"`
	}
	if err := json.Unmarshal(b, &m); err != nil {
		return err
	}
	p.K, p.N = "int", m.I
	return nil
}

// ssRUB is spec.updateStrategy.rollingUpdate: K = "" (absent) | "present" | "malformed" | "null" (input-only: a stored JSON null, abstracted as absent)
type ssRUB struct {
	K         string
	Partition ssPart
	Paused    *bool
	Unordered bool
}

type ssRUBJ struct {
	Partition ssPart `json:"partition"`
	Paused    *bool  `json:"paused"`
	Unordered bool   `json:"unordered"`
}

func (r ssRUB) MarshalJSON() ([]byte, error) {
	switch r.K {
	case "":
		return []byte("null"), nil
	case "present":
		return json.Marshal(ssRUBJ{r.Partition, r.Paused, r.Unordered})
	}
	return json.Marshal(r.K)
}

func (r *ssRUB) UnmarshalJSON(b []byte) error {
	*r = ssRUB{}
	if string(b) == "null" {
		return nil
	}
	if b[0] == '"' {
		return json.Unmarshal(b, &r.K)
	}
	var j ssRUBJ
	if err := json.Unmarshal(b, &j); err != nil {
		return err
	}
	*r = ssRUB{K: "present", Partition: j.Partition, Paused: j.Paused, Unordered: j.Unordered}
	return nil
}

// ssUS is spec.updateStrategy: K = "" (absent) | "present" | "malformed" | "null" (input-only: a stored JSON null, abstracted as absent)
type ssUS struct {
	K    string
	Type string
	RU   ssRUB
}

type ssUSJ struct {
	Type string `json:"type"`
	RU   ssRUB  `json:"ru"`
}

func (u ssUS) MarshalJSON() ([]byte, error) {
	switch u.K {
	case "":
		return []byte("null"), nil
	case "present":
		return json.Marshal(ssUSJ{u.Type, u.RU})
	}
	return json.Marshal(u.K)
}

func (u *ssUS) UnmarshalJSON(b []byte) error {
	*u = ssUS{}
	if string(b) == "null" {
		return nil
	}
	if b[0] == '"' {
		return json.Unmarshal(b, &u.K)
	}
	var j ssUSJ
	if err := json.Unmarshal(b, &j); err != nil {
		return err
	}
	*u = ssUS{K: "present", Type: j.Type, RU: j.RU}
	return nil
}

type ssWl struct {
	Kind         string `json:"kind"` // native | advanced | unstructured | daemonSet
	Replicas     *int   `json:"replicas"`
	US           ssUS   `json:"us"`
	Control      string `json:"control"` // none | this | other
	InProgress   bool   `json:"inProgress"`
	Tmpl         int    `json:"tmpl"`
	TmplPresent  bool   `json:"tmplPresent"`
	UpdatedReady int    `json:"updatedReady"`
	Rest         int    `json:"rest"`
}

type ssEdit struct {
	Tmpl     *int  `json:"tmpl"`
	Replicas *int  `json:"replicas"`
	SetUS    bool  `json:"setUS"` // the user (re-)submits spec.updateStrategy
	US       ssUS  `json:"us"`
}

type ssStep struct {
	Call  string  `json:"call"`  // initialize | upgradeBatch | finalize | submit
	Fault string  `json:"fault"` // none | get | list | write
	Batch int     `json:"batch"` // status.canaryStatus.currentBatch seen by upgradeBatch
	BpNil bool    `json:"bpNil"` // spec.releasePlan.batchPartition == nil (finalize)
	Edit  *ssEdit `json:"edit"`
}

type ssIn struct {
	Wl           *ssWl         `json:"wl"`
	Batches      []interface{} `json:"batches"`
	RollbackAnno bool          `json:"rollbackAnno"`
	Updated      int           `json:"updated"`      // status.canaryStatus.updatedReplicas of the release
	NoNeedUpdate *int          `json:"noNeedUpdate"` // status.canaryStatus.noNeedUpdateReplicas
	Matched      bool          `json:"matched"`      // a Rollout references the workload
	Stray        bool          `json:"stray,omitempty"` // a selected pod whose controller owner does not exist any more is in the cluster
	Pods         int           `json:"pods"`         // ready pods of the update revision owned by the workload (never touched: rollout-id is empty)
	Steps        []ssStep      `json:"steps"`
}

// ---- concretisation ----

const ssThisRef = `{"apiVersion":"rollouts.kruise.io/v1beta1","kind":"BatchRelease","name":"br","uid":"br-uid","controller":true,"blockOwnerDeletion":true}`
const ssOtherRef = `{"apiVersion":"rollouts.kruise.io/v1beta1","kind":"BatchRelease","name":"br","uid":"older-uid","controller":true,"blockOwnerDeletion":true}`

var ssKey = types.NamespacedName{Namespace: "ns", Name: "wl"}

func ssGVK(kind string) schema.GroupVersionKind {
	switch kind {
	case "native":
		return apps.SchemeGroupVersion.WithKind("StatefulSet")
	case "advanced":
		return kruisev1beta1.SchemeGroupVersion.WithKind("StatefulSet")
	case "daemonSet":
		return kruisev1alpha1.SchemeGroupVersion.WithKind("DaemonSet")
	}
	return schema.GroupVersionKind{Group: "apps.example.io", Version: "v1", Kind: "GameStatefulSet"}
}

func ssTemplate(n int) corev1.PodTemplateSpec {
	return corev1.PodTemplateSpec{ObjectMeta: metav1.ObjectMeta{Labels: map[string]string{"app": "demo"}},
		Spec: corev1.PodSpec{Containers: []corev1.Container{{Name: "main", Image: fmt.Sprintf("img:v%d", n)}}}}
}

func ssTemplateNo(t corev1.PodTemplateSpec) int {
	n := -1
	if len(t.Spec.Containers) == 1 {
		fmt.Sscanf(t.Spec.Containers[0].Image, "img:v%d", &n)
	}
	return n
}

func ssMeta(w *ssWl) metav1.ObjectMeta {
	m := metav1.ObjectMeta{Namespace: "ns", Name: "wl", UID: "wl-uid", Generation: 1,
		Labels:      map[string]string{"team": "a", util.WorkloadTypeLabel: "statefulset"},
		Annotations: map[string]string{"owner/note": "keep"}}
	switch w.Control {
	case "this":
		m.Annotations[util.BatchReleaseControlAnnotation] = ssThisRef
	case "other":
		m.Annotations[util.BatchReleaseControlAnnotation] = ssOtherRef
	}
	if w.InProgress {
		m.Annotations[util.InRolloutProgressingAnnotation] = `{"rolloutName":"ro"}`
	}
	return m
}

// ssUSMap renders spec.updateStrategy as the JSON value a user would submit (present = false: key absent).
// Unmodelled keys (`maxUnavailable`) ride along in every present block: they must survive every patch.
func ssUSMap(u ssUS) (interface{}, bool) {
	switch u.K {
	case "":
		return nil, false
	case "null":
		return nil, true
	case "malformed":
		return "bogus", true
	}
	m := map[string]interface{}{}
	if u.Type != "" {
		m["type"] = u.Type
	}
	switch u.RU.K {
	case "":
	case "null":
		m["rollingUpdate"] = nil
	case "malformed":
		m["rollingUpdate"] = "bogus"
	default:
		r := map[string]interface{}{"maxUnavailable": int64(2)}
		switch u.RU.Partition.K {
		case "":
		case "int":
			r["partition"] = int64(u.RU.Partition.N)
		case "null":
			r["partition"] = nil
		case "float":
			r["partition"] = 2.5
		default:
			r["partition"] = "7"
		}
		if u.RU.Paused != nil {
			r["paused"] = *u.RU.Paused
		}
		if u.RU.Unordered {
			r["unorderedUpdate"] = map[string]interface{}{}
		}
		m["rollingUpdate"] = r
	}
	return m, true
}

func ssSelector() *metav1.LabelSelector {
	return &metav1.LabelSelector{MatchLabels: map[string]string{"app": "demo"}}
}

func ssJSONMap(v interface{}) map[string]interface{} {
	b, err := json.Marshal(v)
	must(err)
	m := map[string]interface{}{}
	must(json.Unmarshal(b, &m))
	return m
}

// ssApplyUS decodes the user's JSON updateStrategy into the typed field (what the API server does).
func ssApplyUS(u ssUS, into interface{}) {
	v, present := ssUSMap(u)
	if !present || v == nil {
		v = map[string]interface{}{}
	}
	b, err := json.Marshal(v)
	must(err)
	must(json.Unmarshal(b, into))
}

func ssBuild(w *ssWl) client.Object { return ssBuildS(w, nil) }

// ssBuildS: st = the status fields read on the way to the readiness verdict (nil: update revision "rev-new", counters 0)
func ssBuildS(w *ssWl, st *ssStatus) client.Object {
	if st == nil {
		st = &ssStatus{UpdateRevision: "rev-new"}
	}
	gvk := ssGVK(w.Kind)
	av, kd := gvk.ToAPIVersionAndKind()
	tm := metav1.TypeMeta{APIVersion: av, Kind: kd}
	switch w.Kind {
	case "native":
		o := &apps.StatefulSet{TypeMeta: tm, ObjectMeta: ssMeta(w)}
		if w.Replicas != nil {
			o.Spec.Replicas = i32p(int32(*w.Replicas))
		}
		o.Spec.Selector, o.Spec.ServiceName, o.Spec.Template, o.Spec.MinReadySeconds = ssSelector(), "svc", ssTemplate(w.Tmpl), 7
		ssApplyUS(w.US, &o.Spec.UpdateStrategy)
		o.Status.UpdateRevision, o.Status.CurrentRevision = st.UpdateRevision, "rev-old"
		o.Status.UpdatedReplicas, o.Status.ReadyReplicas = int32(st.Updated), int32(st.Ready)
		return o
	case "advanced":
		o := &kruisev1beta1.StatefulSet{TypeMeta: tm, ObjectMeta: ssMeta(w)}
		if w.Replicas != nil {
			o.Spec.Replicas = i32p(int32(*w.Replicas))
		}
		o.Spec.Selector, o.Spec.ServiceName, o.Spec.Template = ssSelector(), "svc", ssTemplate(w.Tmpl)
		ssApplyUS(w.US, &o.Spec.UpdateStrategy)
		o.Status.UpdateRevision, o.Status.CurrentRevision = st.UpdateRevision, "rev-old"
		o.Status.UpdatedReplicas, o.Status.ReadyReplicas = int32(st.Updated), int32(st.Ready)
		return o
	case "daemonSet":
		o := &kruisev1alpha1.DaemonSet{TypeMeta: tm, ObjectMeta: ssMeta(w)}
		o.Spec.Selector, o.Spec.Template, o.Spec.MinReadySeconds = ssSelector(), ssTemplate(w.Tmpl), 7
		ssApplyUS(w.US, &o.Spec.UpdateStrategy)
		if w.Replicas != nil {
			o.Status.DesiredNumberScheduled = int32(*w.Replicas)
		}
		o.Status.DaemonSetHash = st.UpdateRevision
		o.Status.UpdatedNumberScheduled, o.Status.NumberReady = int32(st.Updated), int32(st.Ready)
		return o
	}
	spec := map[string]interface{}{"selector": ssJSONMap(ssSelector()), "serviceName": "svc", "minReadySeconds": 7}
	if w.Replicas != nil {
		spec["replicas"] = *w.Replicas
	}
	if w.TmplPresent {
		spec["template"] = ssJSONMap(ssTemplate(w.Tmpl))
	}
	if v, present := ssUSMap(w.US); present {
		spec["updateStrategy"] = v
	}
	obj := map[string]interface{}{"apiVersion": av, "kind": kd, "metadata": ssJSONMap(ssMeta(w)), "spec": spec,
		"status": map[string]interface{}{"replicas": 3, "updatedReadyReplicas": w.UpdatedReady, "updateRevision": st.UpdateRevision, "currentRevision": "rev-old",
			"updatedReplicas": st.Updated, "readyReplicas": st.Ready}}
	b, err := json.Marshal(obj)
	must(err)
	u := &unstructured.Unstructured{}
	must(u.UnmarshalJSON(b))
	return u
}

// ---- abstraction ----

func ssAbsUSMap(spec map[string]interface{}) ssUS {
	v, ok := spec["updateStrategy"]
	if !ok || v == nil { // a JSON null behaves exactly like an absent block (see RV/Drv/CtlSts.lean)
		return ssUS{}
	}
	us, ok := v.(map[string]interface{})
	if !ok {
		return ssUS{K: "malformed"}
	}
	out := ssUS{K: "present"}
	out.Type, _ = us["type"].(string)
	rv, ok := us["rollingUpdate"]
	if !ok || rv == nil {
		return out
	}
	rm, ok := rv.(map[string]interface{})
	if !ok {
		out.RU = ssRUB{K: "malformed"}
		return out
	}
	out.RU = ssRUB{K: "present"}
	if pv, ok := rm["partition"]; ok {
		switch t := pv.(type) {
		case int64:
			out.RU.Partition = ssPart{K: "int", N: int(t)}
		case float64:
			if t == float64(int64(t)) {
				out.RU.Partition = ssPart{K: "int", N: int(t)}
			} else {
				out.RU.Partition = ssPart{K: "malformed"}
			}
		default:
			out.RU.Partition = ssPart{K: "malformed"}
		}
	}
	if b, ok := rm["paused"].(bool); ok {
		out.RU.Paused = &b
	}
	if uv, ok := rm["unorderedUpdate"]; ok && uv != nil {
		out.RU.Unordered = true
	}
	return out
}

// ssStripped is the object with every modelled field (and API-server bookkeeping) erased: what is left must never change.
func ssStripped(o client.Object) interface{} {
	m := ssJSONMap(o)
	if md, ok := m["metadata"].(map[string]interface{}); ok {
		delete(md, "resourceVersion")
		delete(md, "generation")
		delete(md, "managedFields")
		delete(md, "creationTimestamp")
		if an, ok := md["annotations"].(map[string]interface{}); ok {
			delete(an, util.BatchReleaseControlAnnotation)
			delete(an, util.InRolloutProgressingAnnotation)
		}
	}
	if sp, ok := m["spec"].(map[string]interface{}); ok {
		delete(sp, "replicas")
		delete(sp, "template")
		if us, ok := sp["updateStrategy"].(map[string]interface{}); ok {
			delete(us, "type")
			if ru, ok := us["rollingUpdate"].(map[string]interface{}); ok {
				delete(ru, "partition")
				delete(ru, "paused")
				delete(ru, "unorderedUpdate")
				if len(ru) == 0 {
					delete(us, "rollingUpdate")
				}
			} else {
				delete(us, "rollingUpdate")
			}
			if len(us) == 0 {
				delete(sp, "updateStrategy")
			}
		} else {
			delete(sp, "updateStrategy")
		}
	}
	if st, ok := m["status"].(map[string]interface{}); ok {
		delete(st, "desiredNumberScheduled")
		delete(st, "updatedReadyReplicas")
	}
	return m
}

func ssAbstract(kind string, o client.Object, orig interface{}) *ssWl {
	w := &ssWl{Kind: kind, Control: "none", TmplPresent: true}
	an := o.GetAnnotations()
	if a := an[util.BatchReleaseControlAnnotation]; a != "" {
		ref := &metav1.OwnerReference{}
		if json.Unmarshal([]byte(a), ref) == nil && string(ref.UID) == "br-uid" {
			w.Control = "this"
		} else {
			w.Control = "other"
		}
	}
	w.InProgress = an[util.InRolloutProgressingAnnotation] != ""
	intp := func(p *int32) *int {
		if p == nil {
			return nil
		}
		v := int(*p)
		return &v
	}
	switch t := o.(type) {
	case *apps.StatefulSet:
		w.Replicas, w.Tmpl = intp(t.Spec.Replicas), ssTemplateNo(t.Spec.Template)
		w.US = ssUS{K: "present", Type: string(t.Spec.UpdateStrategy.Type)}
		if ru := t.Spec.UpdateStrategy.RollingUpdate; ru != nil {
			w.US.RU = ssRUB{K: "present"}
			if ru.Partition != nil {
				w.US.RU.Partition = ssPart{K: "int", N: int(*ru.Partition)}
			}
		}
	case *kruisev1beta1.StatefulSet:
		w.Replicas, w.Tmpl = intp(t.Spec.Replicas), ssTemplateNo(t.Spec.Template)
		w.US = ssUS{K: "present", Type: string(t.Spec.UpdateStrategy.Type)}
		if ru := t.Spec.UpdateStrategy.RollingUpdate; ru != nil {
			w.US.RU = ssRUB{K: "present", Unordered: ru.UnorderedUpdate != nil}
			if ru.Partition != nil {
				w.US.RU.Partition = ssPart{K: "int", N: int(*ru.Partition)}
			}
			if ru.Paused {
				b := true
				w.US.RU.Paused = &b
			}
		}
	case *kruisev1alpha1.DaemonSet:
		r := int(t.Status.DesiredNumberScheduled)
		w.Replicas, w.Tmpl = &r, ssTemplateNo(t.Spec.Template)
		w.US = ssUS{K: "present", Type: string(t.Spec.UpdateStrategy.Type)}
		if ru := t.Spec.UpdateStrategy.RollingUpdate; ru != nil {
			w.US.RU = ssRUB{K: "present"}
			if ru.Partition != nil {
				w.US.RU.Partition = ssPart{K: "int", N: int(*ru.Partition)}
			}
			if ru.Paused != nil {
				b := *ru.Paused
				w.US.RU.Paused = &b
			}
		}
	case *unstructured.Unstructured:
		spec, _ := t.Object["spec"].(map[string]interface{})
		if spec == nil {
			spec = map[string]interface{}{}
		}
		if v, found, err := unstructured.NestedInt64(t.Object, "spec", "replicas"); err == nil && found {
			r := int(v)
			w.Replicas = &r
		}
		w.US = ssAbsUSMap(spec)
		if tv, ok := spec["template"].(map[string]interface{}); ok {
			pt := corev1.PodTemplateSpec{}
			b, _ := json.Marshal(tv)
			_ = json.Unmarshal(b, &pt)
			w.Tmpl = ssTemplateNo(pt)
		} else {
			w.TmplPresent = false
		}
		if v, found, err := unstructured.NestedInt64(t.Object, "status", "updatedReadyReplicas"); err == nil && found {
			w.UpdatedReady = int(v)
		}
	default:
		panic(fmt.Sprintf("ctlsts: unexpected object %T", o))
	}
	if orig != nil && !reflect.DeepEqual(ssStripped(o), orig) {
		w.Rest = 1
	}
	return w
}

func ssEmpty(kind string) client.Object {
	switch kind {
	case "native":
		return &apps.StatefulSet{}
	case "advanced":
		return &kruisev1beta1.StatefulSet{}
	case "daemonSet":
		return &kruisev1alpha1.DaemonSet{}
	}
	u := &unstructured.Unstructured{}
	u.SetGroupVersionKind(ssGVK(kind))
	return u
}

func ssSnapshot(base client.Client, kind string, orig interface{}) *ssWl {
	got := ssEmpty(kind)
	if err := base.Get(context.TODO(), ssKey, got); err != nil {
		return nil
	}
	return ssAbstract(kind, got, orig)
}

// ---- the release, the world ----

func ssRelease(in *ssIn, kind string, st ssStep) *v1beta1.BatchRelease {
	r := &v1beta1.BatchRelease{TypeMeta: metav1.TypeMeta{APIVersion: "rollouts.kruise.io/v1beta1", Kind: "BatchRelease"}}
	r.Namespace, r.Name, r.UID, r.Generation = "ns", "br", types.UID("br-uid"), 1
	gvk := ssGVK(kind)
	av, kd := gvk.ToAPIVersionAndKind()
	r.Spec.WorkloadRef = v1beta1.ObjectRef{APIVersion: av, Kind: kd, Name: "wl"}
	for _, e := range in.Batches {
		r.Spec.ReleasePlan.Batches = append(r.Spec.ReleasePlan.Batches, v1beta1.ReleaseBatch{CanaryReplicas: *iosFromAny(e)})
	}
	r.Spec.ReleasePlan.RollingStyle = v1beta1.PartitionRollingStyle
	if !st.BpNil {
		r.Spec.ReleasePlan.BatchPartition = i32p(int32(st.Batch))
	}
	if in.RollbackAnno {
		r.Annotations = map[string]string{v1alpha1.RollbackInBatchAnnotation: "true"}
	}
	r.Status.Phase = v1beta1.RolloutPhaseProgressing
	r.Status.CanaryStatus.CurrentBatch = int32(st.Batch)
	r.Status.CanaryStatus.UpdatedReplicas = int32(in.Updated)
	if in.NoNeedUpdate != nil {
		r.Status.CanaryStatus.NoNeedUpdateReplicas = i32p(int32(*in.NoNeedUpdate))
	}
	return r
}

func ssRollout(kind string) *v1beta1.Rollout {
	ro := &v1beta1.Rollout{}
	ro.Namespace, ro.Name = "ns", "ro"
	gvk := ssGVK(kind)
	av, kd := gvk.ToAPIVersionAndKind()
	ro.Spec.WorkloadRef = v1beta1.ObjectRef{APIVersion: av, Kind: kd, Name: "wl"}
	ro.Spec.Strategy.Canary = &v1beta1.CanaryStrategy{
		Steps: []v1beta1.CanaryStep{{Replicas: func() *intstr.IntOrString { v := pct(50); return &v }()}}}
	return ro
}

// ssStrayPod: a pod the workload's selector matches but that belongs to somebody else — its controller owner is a
// ReplicaSet that no longer exists (deleted, the pod is waiting for the garbage collector).  `util.IsOwnedBy` ignores the
// NotFound of the owner lookup: the pod is simply not the workload's.  It changes nothing the control plane does.
func ssStrayPod() *corev1.Pod {
	p := ssPod(0)
	p.Name = "stray-0"
	t := true
	p.OwnerReferences = []metav1.OwnerReference{{APIVersion: "apps/v1", Kind: "ReplicaSet", Name: "ghost", UID: "ghost-uid", Controller: &t}}
	return p
}

func ssPod(i int) *corev1.Pod {
	p := &corev1.Pod{}
	p.Namespace, p.Name = "ns", fmt.Sprintf("wl-%d", i)
	t := true
	p.OwnerReferences = []metav1.OwnerReference{{APIVersion: "v1", Kind: "X", Name: "wl", UID: "wl-uid", Controller: &t}}
	p.Labels = map[string]string{"app": "demo", apps.ControllerRevisionHashLabelKey: "rev-new"}
	p.Spec.Containers = []corev1.Container{{Name: "main", Image: "img:v2"}}
	p.Status.Phase = corev1.PodRunning
	p.Status.Conditions = []corev1.PodCondition{{Type: corev1.PodReady, Status: corev1.ConditionTrue}}
	return p
}

// ssPodsUntouched: the pods are as they were created
func ssPodsUntouched(base client.Client, n int) bool {
	l := &corev1.PodList{}
	if err := base.List(context.TODO(), l, client.InNamespace("ns")); err != nil {
		return false
	}
	kept := l.Items[:0]
	for _, it := range l.Items {
		if !strings.HasPrefix(it.Name, "stray-") {
			kept = append(kept, it)
		}
	}
	l.Items = kept
	if len(l.Items) != n {
		return false
	}
	for i := range l.Items {
		want := ssPod(i)
		got := l.Items[i]
		if got.Name != want.Name || !reflect.DeepEqual(got.Labels, want.Labels) || !reflect.DeepEqual(got.Annotations, want.Annotations) ||
			got.ResourceVersion != "999" {
			return false
		}
	}
	return true
}

// ssFaultClient fails the Get of the workload / the List of its pods on demand (writes are failed by the LogClient below it).
type ssFaultClient struct {
	client.Client
	failGet  bool
	failList bool
}

func (f *ssFaultClient) Get(ctx context.Context, key client.ObjectKey, obj client.Object, opts ...client.GetOption) error {
	if f.failGet && key == ssKey {
		return errors.New("injected read fault")
	}
	return f.Client.Get(ctx, key, obj, opts...)
}

func (f *ssFaultClient) List(ctx context.Context, list client.ObjectList, opts ...client.ListOption) error {
	if _, ok := list.(*corev1.PodList); ok && f.failList {
		return errors.New("injected list fault")
	}
	return f.Client.List(ctx, list, opts...)
}

// ---- one step on the real code ----

// orig is the baseline of the unmodelled part of the object; a user update that is admitted re-baselines it
// (the baseline becomes the object as the user submitted it).
func ssStepRun(base client.Client, in *ssIn, kind string, st ssStep, orig *interface{}) interface{} {
	lc := NewLogClient(base)
	if st.Fault == "write" {
		lc.FailAt = 0
	}
	cli := &ssFaultClient{Client: lc, failGet: st.Fault == "get", failList: st.Fault == "list"}
	out := J{"obs": nil, "res": "ok"}
	var err error
	switch st.Call {
	case "submit":
		var rejected bool
		var baseline interface{}
		rejected, baseline, err = ssSubmit(base, kind, st.Edit)
		if rejected {
			out["res"] = "rejected"
		} else if err == nil {
			*orig = baseline
		}
	default:
		rel := ssRelease(in, kind, st)
		newStatus := rel.Status.DeepCopy()
		f := pstatefulset.NewController
		if kind == "daemonSet" {
			f = pdaemonset.NewController
		}
		plane := partitionstyle.NewControlPlane(f, cli, record.NewFakeRecorder(100), rel, newStatus, ssKey, ssGVK(kind))
		switch st.Call {
		case "initialize":
			err = plane.Initialize()
			if err == nil {
				obs := J{"observedReplicas": int(newStatus.ObservedWorkloadReplicas), "noNeedUpdate": nil}
				if p := newStatus.CanaryStatus.NoNeedUpdateReplicas; p != nil {
					obs["noNeedUpdate"] = int(*p)
				}
				out["obs"] = obs
			}
		case "upgradeBatch":
			err = plane.UpgradeBatch()
		case "finalize":
			err = plane.Finalize()
		default:
			panic("ctlsts: unknown call " + st.Call)
		}
	}
	if err != nil {
		out["res"] = "err"
	}
	out["writes"] = len(lc.Log)
	snap := ssSnapshot(base, kind, *orig)
	if snap != nil && !ssPodsUntouched(base, in.Pods) {
		snap.Rest = 1
	}
	out["wl"] = snap
	return out
}

// ssSubmit: the stored object is updated by a user (edit) and passes the workload webhook.
// rejected = the handler panicked (failurePolicy Fail: the API server rejects the update).
func ssSubmit(base client.Client, kind string, e *ssEdit) (rejected bool, baseline interface{}, err error) {
	cur := ssEmpty(kind)
	if err := base.Get(context.TODO(), ssKey, cur); err != nil {
		return false, nil, err
	}
	if kind == "daemonSet" {
		old := cur.(*kruisev1alpha1.DaemonSet)
		nw := old.DeepCopy()
		if e != nil {
			if e.Tmpl != nil {
				nw.Spec.Template = ssTemplate(*e.Tmpl)
			}
			if e.SetUS {
				nw.Spec.UpdateStrategy = kruisev1alpha1.DaemonSetUpdateStrategy{}
				ssApplyUS(e.US, &nw.Spec.UpdateStrategy)
			}
		}
		baseline = ssStripped(nw)
		h := &mutating.WorkloadHandler{Client: base, Finder: util.NewControllerFinder(base)}
		panicked := false
		func() {
			defer func() {
				if r := recover(); r != nil {
					panicked = true
				}
			}()
			_, err = h.VerifCtlStsHandleDaemonSet(nw, old)
		}()
		if panicked {
			return true, nil, nil
		}
		if err != nil {
			return false, nil, err
		}
		return false, baseline, base.Update(context.TODO(), nw)
	}
	// StatefulSet-like: the handler always works on the unstructured form of the request
	oldU := &unstructured.Unstructured{Object: ssJSONMapInt64(cur)}
	newU := oldU.DeepCopy()
	if e != nil {
		spec, _ := newU.Object["spec"].(map[string]interface{})
		if spec == nil {
			spec = map[string]interface{}{}
			newU.Object["spec"] = spec
		}
		if e.Tmpl != nil {
			spec["template"] = ssJSONMap(ssTemplate(*e.Tmpl))
		}
		if e.Replicas != nil {
			spec["replicas"] = int64(*e.Replicas)
		}
		if e.SetUS {
			if v, present := ssUSMap(e.US); present {
				spec["updateStrategy"] = v
			} else {
				delete(spec, "updateStrategy")
			}
		}
	}
	// the submitted object as the API server decodes it (typed kinds: unknown fields dropped)
	if kind == "unstructured" {
		baseline = ssStripped(newU)
	} else {
		t := ssEmpty(kind)
		must(runtime.DefaultUnstructuredConverter.FromUnstructured(newU.DeepCopy().Object, t))
		baseline = ssStripped(t)
	}
	h := &mutating.UnifiedWorkloadHandler{Client: base, Finder: util.NewControllerFinder(base)}
	panicked := false
	func() {
		defer func() {
			if r := recover(); r != nil {
				panicked = true
			}
		}()
		_, err = h.VerifCtlStsHandleStatefulSetLike(newU, oldU)
	}()
	if panicked {
		return true, nil, nil
	}
	if err != nil {
		return false, nil, err
	}
	// what Handle does next: json.Marshal(newObj.Object) → JSON patch → the API server stores the patched JSON
	// (the handler may leave non-JSON Go types such as apps.StatefulSetUpdateStrategyType in the map)
	newU = &unstructured.Unstructured{Object: ssJSONMapInt64(newU)}
	if kind == "unstructured" {
		return false, baseline, base.Update(context.TODO(), newU)
	}
	typed := ssEmpty(kind)
	must(runtime.DefaultUnstructuredConverter.FromUnstructured(newU.Object, typed))
	return false, baseline, base.Update(context.TODO(), typed)
}

// ssJSONMapInt64 is the object's JSON as an unstructured map (integers as int64, as the decoder of the API machinery yields).
func ssJSONMapInt64(o client.Object) map[string]interface{} {
	b, err := json.Marshal(o)
	must(err)
	u := &unstructured.Unstructured{}
	must(u.UnmarshalJSON(b))
	return u.Object
}

func ssRun(in *ssIn) interface{} {
	// the unstructured branch of util.GetEmptyWorkloadObject is reachable only with --filter-workload-type=false
	must(flag.Set("filter-workload-type", "false"))
	objs := []client.Object{}
	var orig interface{}
	kind := "native"
	if in.Wl != nil {
		kind = in.Wl.Kind
		o := ssBuild(in.Wl)
		orig = ssStripped(o)
		objs = append(objs, o)
	}
	if in.Matched {
		objs = append(objs, ssRollout(kind))
	}
	for i := 0; i < in.Pods; i++ {
		objs = append(objs, ssPod(i))
	}
	if in.Stray {
		objs = append(objs, ssStrayPod())
	}
	base := fakeClient(objs...)
	outs := []interface{}{}
	for _, st := range in.Steps {
		st := st
		o := guard(func() interface{} {
			if os.Getenv("RV_CTLSTS_DEBUG") != "" { // show where a panic comes from
				defer func() {
					if r := recover(); r != nil {
						fmt.Fprintf(os.Stderr, "ctlsts panic: %v\n%s\n", r, debug.Stack())
						panic(r)
					}
				}()
			}
			return ssStepRun(base, in, kind, st, &orig)
		})
		outs = append(outs, o)
		if m, ok := o.(J); ok {
			if _, p := m["panic"]; p {
				break // the process died; the walk ends here
			}
		}
	}
	return outs
}

func ssCase(c *Ctx, in *ssIn) {
	c.Emit("walk", in, ssRun(in))
}

func replayCtlSts(c *Ctx, op string, raw json.RawMessage) {
	if op == "verdict" {
		var in ssVIn
		if err := json.Unmarshal(raw, &in); err != nil {
			panic(err)
		}
		ssVCase(c, &in)
		return
	}
	var in ssIn
	if err := json.Unmarshal(raw, &in); err != nil {
		panic(err)
	}
	ssCase(c, &in)
}

// ---- generators ----

func ssIntP(v int) *int    { return &v }
func ssBoolP(v bool) *bool { return &v }

func ssPickS(c *Ctx, xs ...string) string { return xs[c.Rng.Intn(len(xs))] }

func ssKindGen(c *Ctx) string {
	return ssPickS(c, "native", "native", "advanced", "advanced", "unstructured", "unstructured", "unstructured", "daemonSet", "daemonSet")
}

// ssGenPart: a partition as a user / an earlier release may have left it
func ssGenPart(c *Ctx, kind string, R int) ssPart {
	switch c.Rng.Intn(10) {
	case 0, 1, 2:
		return ssPart{}
	case 3:
		return ssPart{K: "int", N: 0}
	case 4:
		return ssPart{K: "int", N: 32767}
	case 5:
		if kind == "unstructured" {
			return ssPart{K: ssPickS(c, "malformed", "null", "float")}
		}
		return ssPart{K: "int", N: R}
	default:
		return ssPart{K: "int", N: c.Rng.Intn(R + 3)}
	}
}

func ssGenPaused(c *Ctx, kind string) *bool {
	switch kind {
	case "native":
		return nil
	case "advanced":
		if c.Rng.Intn(6) == 0 {
			return ssBoolP(true)
		}
		return nil
	}
	switch c.Rng.Intn(8) {
	case 0:
		return ssBoolP(true)
	case 1, 2:
		return ssBoolP(false)
	}
	return nil
}

// ssGenUS: every representation of spec.updateStrategy the kind can carry.
// rolling: bias towards a RollingUpdate strategy (the only one the webhook reacts to).
func ssGenUS(c *Ctx, kind string, R int, rolling bool) ssUS {
	if kind == "unstructured" {
		switch c.Rng.Intn(12) {
		case 0, 1:
			return ssUS{}
		case 2:
			return ssUS{K: ssPickS(c, "malformed", "null")}
		}
	}
	u := ssUS{K: "present", Type: ssPickS(c, "", "RollingUpdate", "RollingUpdate", "RollingUpdate", "OnDelete")}
	if rolling && u.Type == "OnDelete" {
		u.Type = "RollingUpdate"
	}
	if kind == "unstructured" && c.Rng.Intn(40) == 0 {
		u.Type = "InPlaceOnly"
	}
	switch r := c.Rng.Intn(10); {
	case r < 3:
		// no rollingUpdate block
	case r == 3 && kind == "unstructured":
		u.RU = ssRUB{K: ssPickS(c, "malformed", "null")}
	default:
		u.RU = ssRUB{K: "present", Partition: ssGenPart(c, kind, R), Paused: ssGenPaused(c, kind)}
		if (kind == "advanced" || kind == "unstructured") && c.Rng.Intn(3) == 0 {
			u.RU.Unordered = true
		}
	}
	return u
}

func ssBatches(c *Ctx, R int) []interface{} {
	nb := 1 + c.Rng.Intn(4)
	var bs []interface{}
	mode := c.Rng.Intn(10)
	acc := 0
	for i := 0; i < nb; i++ {
		switch {
		case mode < 5:
			acc += 1 + c.Rng.Intn(45)
			if acc > 100 || (i == nb-1 && c.Rng.Intn(2) == 0) {
				acc = 100
			}
			bs = append(bs, J{"p": acc})
		case mode < 9:
			acc += 1 + c.Rng.Intn(R/2+2)
			bs = append(bs, J{"i": acc})
		default: // mixed / non-monotone / malformed
			bs = append(bs, []interface{}{J{"p": c.Rng.Intn(120)}, J{"i": c.Rng.Intn(R + 3)}, J{"i": c.Rng.Intn(R + 3)}, J{"p": 1}, J{"s": "bad"}, J{"i": -1}}[c.Rng.Intn(6)])
		}
	}
	return bs
}

func ssFault(c *Ctx, p int) string {
	if c.Rng.Intn(100) < p {
		return ssPickS(c, "get", "list", "write", "write")
	}
	return "none"
}

func ssSize(c *Ctx) int {
	R := 1 + c.Rng.Intn(12)
	switch c.Rng.Intn(40) {
	case 0, 1, 2:
		R = 0
	case 3, 4, 5:
		R = 50 + c.Rng.Intn(300)
	case 6:
		R = 32767 + c.Rng.Intn(3) - 1
	case 7:
		R = 40000
	}
	return R
}

func ssNoNeed(c *Ctx, R int, p int) *int {
	if c.Rng.Intn(100) >= p {
		return nil
	}
	switch c.Rng.Intn(12) {
	case 0:
		return ssIntP(0)
	case 1:
		return ssIntP(R + 1 + c.Rng.Intn(3)) // corrupt: more than the workload
	case 2:
		return ssIntP(-1 - c.Rng.Intn(2)) // corrupt
	}
	return ssIntP(c.Rng.Intn(R + 1))
}

// ssLifeCycle: a workload as its user configured it goes through submit ; initialize ; … ; finalize
func ssLifeCycle(c *Ctx) *ssIn {
	kind := ssKindGen(c)
	R := ssSize(c)
	w := &ssWl{Kind: kind, Replicas: &R, US: ssGenUS(c, kind, R, true), Control: "none", Tmpl: 1, TmplPresent: true}
	if kind == "unstructured" {
		w.UpdatedReady = []int{0, 0, 1, 3}[c.Rng.Intn(4)]
		if c.Rng.Intn(25) == 0 {
			w.Replicas = nil
		}
	}
	in := &ssIn{Wl: w, Batches: ssBatches(c, R), RollbackAnno: c.Rng.Intn(10) == 0, Updated: c.Rng.Intn(R + 1),
		NoNeedUpdate: ssNoNeed(c, R, 12), Matched: c.Rng.Intn(8) != 0, Pods: []int{0, 0, 1, 3}[c.Rng.Intn(4)], Stray: c.Rng.Intn(4) == 0}
	nb := len(in.Batches)
	tm := 1
	batch := 0
	fp := 0
	if c.Rng.Intn(3) == 0 {
		fp = 25
	}
	add := func(s ssStep) {
		in.Steps = append(in.Steps, s)
		if c.Rng.Intn(5) == 0 && s.Call != "submit" { // repeat the call (idempotence)
			s.Fault = "none"
			in.Steps = append(in.Steps, s)
		}
	}
	newTmpl := func() ssStep { tm++; return ssStep{Call: "submit", Fault: "none", Edit: &ssEdit{Tmpl: ssIntP(tm)}} }
	if c.Rng.Intn(10) != 0 {
		add(newTmpl())
	}
	if c.Rng.Intn(12) != 0 {
		add(ssStep{Call: "initialize", Fault: ssFault(c, fp)})
		if c.Rng.Intn(3) == 0 {
			add(ssStep{Call: "submit", Fault: "none"}) // the controller's write passes the webhook
		}
	}
	n := c.Rng.Intn(9)
	for i := 0; i < n; i++ {
		switch c.Rng.Intn(15) {
		case 0, 1, 2, 3, 4, 5:
			add(ssStep{Call: "upgradeBatch", Fault: ssFault(c, fp), Batch: batch})
			if c.Rng.Intn(2) == 0 && batch < nb-1 {
				batch++
			}
		case 6:
			add(ssStep{Call: "initialize", Fault: ssFault(c, fp)})
		case 7:
			add(ssStep{Call: "submit", Fault: "none"})
		case 8:
			add(newTmpl())
		case 9: // kubectl apply of the manifest: updateStrategy re-submitted (possibly without the partition)
			e := &ssEdit{SetUS: true, US: ssGenUS(c, kind, R, true)}
			if c.Rng.Intn(2) == 0 {
				tm++
				e.Tmpl = ssIntP(tm)
			}
			add(ssStep{Call: "submit", Fault: "none", Edit: e})
		case 10: // scale
			if kind != "daemonSet" {
				add(ssStep{Call: "submit", Fault: "none", Edit: &ssEdit{Replicas: ssIntP(c.Rng.Intn(14))}})
			}
		case 11, 12: // continuous release: the BatchRelease is deleted mid-way, a new one claims
			add(ssStep{Call: "finalize", Fault: ssFault(c, fp), Batch: batch, BpNil: false})
			if c.Rng.Intn(6) != 0 {
				add(newTmpl())
				batch = 0
				if c.Rng.Intn(6) != 0 {
					add(ssStep{Call: "initialize", Fault: ssFault(c, fp)})
				}
			}
		case 13, 14:
			add(ssStep{Call: "upgradeBatch", Fault: ssFault(c, fp), Batch: c.Rng.Intn(nb)})
		}
	}
	if c.Rng.Intn(8) != 0 {
		if c.Rng.Intn(6) == 0 {
			add(ssStep{Call: "finalize", Fault: ssPickS(c, "write", "list", "get"), Batch: batch, BpNil: true}) // a failed attempt first
		}
		in.Steps = append(in.Steps, ssStep{Call: "finalize", Fault: "none", Batch: batch, BpNil: true})
		switch c.Rng.Intn(8) {
		case 0:
			in.Steps = append(in.Steps, ssStep{Call: "finalize", Fault: "none", Batch: batch, BpNil: true})
		case 1:
			in.Steps = append(in.Steps, ssStep{Call: "submit", Fault: "none"})
		}
	}
	return in
}

// ssAnyWl: every API-reachable shape, including leftovers of earlier releases and hand edits
func ssAnyWl(c *Ctx) *ssWl {
	kind := ssKindGen(c)
	R := c.Rng.Intn(13)
	if c.Rng.Intn(10) == 0 {
		R = 100 + c.Rng.Intn(200)
	}
	w := &ssWl{Kind: kind, Replicas: &R, US: ssGenUS(c, kind, R, false), Control: ssPickS(c, "this", "this", "this", "none", "none", "other"),
		InProgress: c.Rng.Intn(3) != 0, Tmpl: 1 + c.Rng.Intn(3), TmplPresent: true}
	if kind != "daemonSet" && c.Rng.Intn(25) == 0 {
		w.Replicas = nil
	}
	if kind == "unstructured" {
		w.UpdatedReady = []int{0, 0, 1, 3, -1}[c.Rng.Intn(5)]
		if c.Rng.Intn(20) == 0 {
			w.TmplPresent = false
			w.Tmpl = 0
		}
	}
	return w
}

func ssAnyEdit(c *Ctx, kind string, R int) *ssEdit {
	if c.Rng.Intn(4) == 0 {
		return nil
	}
	e := &ssEdit{}
	if c.Rng.Intn(3) != 0 {
		e.Tmpl = ssIntP(1 + c.Rng.Intn(5))
	}
	if c.Rng.Intn(3) == 0 {
		e.SetUS = true
		e.US = ssGenUS(c, kind, R, false)
	}
	if c.Rng.Intn(5) == 0 && kind != "daemonSet" {
		e.Replicas = ssIntP(c.Rng.Intn(14))
	}
	return e
}

// ssAnyWalk: a few arbitrary calls from an arbitrary state
func ssAnyWalk(c *Ctx) *ssIn {
	w := ssAnyWl(c)
	R := 1
	if w.Replicas != nil {
		R = *w.Replicas
	}
	in := &ssIn{Wl: w, Batches: ssBatches(c, R), RollbackAnno: c.Rng.Intn(5) == 0, Updated: c.Rng.Intn(R + 1),
		NoNeedUpdate: ssNoNeed(c, R, 25), Matched: c.Rng.Intn(4) != 0, Pods: []int{0, 0, 2}[c.Rng.Intn(3)], Stray: c.Rng.Intn(4) == 0}
	if c.Rng.Intn(25) == 0 {
		in.Wl = nil
	}
	if c.Rng.Intn(40) == 0 {
		in.Batches = nil
	}
	nb := len(in.Batches)
	n := 1 + c.Rng.Intn(4)
	for i := 0; i < n; i++ {
		s := ssStep{Call: ssPickS(c, "initialize", "initialize", "upgradeBatch", "upgradeBatch", "upgradeBatch", "finalize", "finalize", "submit", "submit", "submit"),
			Fault: ssFault(c, 20), BpNil: c.Rng.Intn(2) == 0}
		if nb > 0 {
			s.Batch = c.Rng.Intn(nb)
		}
		switch c.Rng.Intn(40) {
		case 0:
			s.Batch = nb
		case 1:
			s.Batch = -1
		}
		if s.Call == "submit" {
			s.Fault = "none"
			s.Edit = ssAnyEdit(c, w.Kind, R)
		}
		in.Steps = append(in.Steps, s)
		if c.Rng.Intn(4) == 0 && s.Call != "submit" {
			s.Fault = "none"
			in.Steps = append(in.Steps, s)
		}
	}
	return in
}

func runCtlSts(c *Ctx) {
	for i := 0; i < c.N; i++ {
		switch r := c.Rng.Intn(20); {
		case r < 7:
			ssCase(c, ssLifeCycle(c))
		case r < 12:
			ssCase(c, ssAnyWalk(c))
		default:
			ssVCase(c, ssVGen(c))
		}
	}
}

// =====================================================================================================================
// op "verdict" — the pods behind `updatedReadyReplicas` and the readiness verdict.
//
// A workload (any of the four representations), its status counters and a list of abstract pods are concretised in the
// fake client; then the REAL code runs twice on fresh planes:
//
//	partitionstyle.realBatchControlPlane.EnsureBatchPodsReadyAndLabeled      → the verdict (IsBatchReady's answer)
//	statefulset|daemonset.realController.BuildController + CalculateBatchContext → the counters and the context fields
//
// and — when the input names a pod that degrades (turns not ready / terminating / another revision / is deleted /
// fails / loses its owner) — once more on the cluster after the degradation.  The Lean model (RV.CtlSts.planeVerdict)
// computes the same from the abstract pods; the oracles C11.sts_* / C07.sts_* are evaluated on what the code answered.
// =====================================================================================================================

// ssStatus: the status fields of the workload read on the way to the verdict
type ssStatus struct {
	UpdateRevision string `json:"updateRevision"` // status.updateRevision / daemonSetHash
	Updated        int    `json:"updated"`        // status.updatedReplicas / updatedNumberScheduled
	Ready          int    `json:"ready"`          // status.readyReplicas / numberReady (must not matter)
}

// ssPodA: one abstract pod (mirrors RV.CtlSts.Pod; ownerVariant only picks the concrete shape of the owner class)
type ssPodA struct {
	InNamespace  bool        `json:"inNamespace"`
	SelMatch     bool        `json:"selMatch"`
	Phase        string      `json:"phase"`
	Owner        string      `json:"owner"` // none | this | other | via
	OwnerVariant int         `json:"ownerVariant"`
	Terminating  bool        `json:"terminating"`
	HashLabel    string      `json:"hashLabel"` // pod-template-hash
	RevLabel     string      `json:"revLabel"`  // controller-revision-hash
	Conds        [][2]string `json:"conds"`     // status.conditions (type, status)
}

type ssDegrade struct {
	Index int    `json:"index"`
	How   string `json:"how"` // notReady | terminating | otherRevision | deleted | failed | disowned
}

type ssVIn struct {
	Wl               *ssWl       `json:"wl"`
	Status           ssStatus    `json:"status"`
	Pods             []ssPodA    `json:"pods"`
	Batches          []interface{} `json:"batches"`
	NoNeedUpdate     *int        `json:"noNeedUpdate"`
	FailureThreshold interface{} `json:"failureThreshold"`
	Batch            int         `json:"batch"`
	Fault            string      `json:"fault"` // none | get | list | write
	Degrade          *ssDegrade  `json:"degrade"`
}

func ssPodConcrete(i int, a ssPodA, kind string) *corev1.Pod {
	p := &corev1.Pod{}
	p.Namespace, p.Name = "ns", fmt.Sprintf("wl-%d", i)
	if !a.InNamespace {
		p.Namespace = "elsewhere"
	}
	p.Labels = map[string]string{"tier": "x"}
	if a.SelMatch {
		p.Labels["app"] = "demo"
	} else if i%2 == 0 {
		p.Labels["app"] = "other"
	}
	if a.HashLabel != "" {
		p.Labels[apps.DefaultDeploymentUniqueLabelKey] = a.HashLabel
	}
	if a.RevLabel != "" {
		p.Labels[apps.ControllerRevisionHashLabelKey] = a.RevLabel
	}
	t, f := true, false
	gvk := ssGVK(kind)
	av, kd := gvk.ToAPIVersionAndKind()
	switch a.Owner {
	case "none":
		switch a.OwnerVariant % 3 {
		case 1: // a plain (non-controller) reference to the workload
			p.OwnerReferences = []metav1.OwnerReference{{APIVersion: av, Kind: kd, Name: "wl", UID: "wl-uid"}}
		case 2:
			p.OwnerReferences = []metav1.OwnerReference{{APIVersion: av, Kind: kd, Name: "wl", UID: "wl-uid", Controller: &f}}
		}
	case "this":
		p.OwnerReferences = []metav1.OwnerReference{{APIVersion: av, Kind: kd, Name: "wl", UID: "wl-uid", Controller: &t}}
		if a.OwnerVariant%2 == 1 { // behind a plain reference to something else
			p.OwnerReferences = append([]metav1.OwnerReference{{APIVersion: "v1", Kind: "ConfigMap", Name: "cm", UID: "cm-uid"}}, p.OwnerReferences...)
		}
	case "other":
		switch a.OwnerVariant % 3 {
		case 0: // an earlier incarnation of the workload: same name, stale UID
			p.OwnerReferences = []metav1.OwnerReference{{APIVersion: av, Kind: kd, Name: "wl", UID: "wl-uid-old", Controller: &t}}
		case 1: // an owner that does not exist
			p.OwnerReferences = []metav1.OwnerReference{{APIVersion: "apps/v1", Kind: "ReplicaSet", Name: "ghost", UID: "ghost-uid", Controller: &t}}
		case 2: // an existing owner that somebody else controls
			p.OwnerReferences = []metav1.OwnerReference{{APIVersion: "apps/v1", Kind: "ReplicaSet", Name: "mid-foreign", UID: "mid-foreign-uid", Controller: &t}}
		}
	case "via": // pod -> ReplicaSet "mid" -> workload
		p.OwnerReferences = []metav1.OwnerReference{{APIVersion: "apps/v1", Kind: "ReplicaSet", Name: "mid", UID: "mid-uid", Controller: &t}}
	default:
		panic("ctlsts: pod owner " + a.Owner)
	}
	if a.Terminating {
		ts := metav1.NewTime(time.Unix(1700000000, 0))
		p.DeletionTimestamp = &ts
		p.Finalizers = []string{"verif.example.io/hold"}
	}
	p.Spec.Containers = []corev1.Container{{Name: "main", Image: "img:v2"}}
	p.Status.Phase = corev1.PodPhase(a.Phase)
	for _, cnd := range a.Conds {
		p.Status.Conditions = append(p.Status.Conditions, corev1.PodCondition{Type: corev1.PodConditionType(cnd[0]), Status: corev1.ConditionStatus(cnd[1])})
	}
	return p
}

// ssMidObjects: the intermediate owners the pods may name
func ssMidObjects() []client.Object {
	t := true
	mk := func(name, uid, ownerUID string) *apps.ReplicaSet {
		rs := &apps.ReplicaSet{}
		rs.Namespace, rs.Name, rs.UID = "ns", name, types.UID(uid)
		rs.OwnerReferences = []metav1.OwnerReference{{APIVersion: "v1", Kind: "X", Name: "wl", UID: types.UID(ownerUID), Controller: &t}}
		rs.Spec.Selector = ssSelector()
		return rs
	}
	return []client.Object{mk("mid", "mid-uid", "wl-uid"), mk("mid-foreign", "mid-foreign-uid", "someone-else")}
}

func ssDegradePod(a ssPodA, how string) (ssPodA, bool) {
	switch how {
	case "notReady":
		a.Conds = [][2]string{{"Ready", "False"}}
	case "terminating":
		a.Terminating = true
	case "otherRevision":
		a.HashLabel, a.RevLabel = "", ""
	case "deleted":
		return a, false
	case "failed":
		a.Phase = "Failed"
	case "disowned":
		a.Owner = "none"
	default:
		panic("ctlsts: degrade " + how)
	}
	return a, true
}

func ssDegradeAt(pods []ssPodA, d *ssDegrade) []ssPodA {
	out := []ssPodA{}
	for i, a := range pods {
		if i == d.Index {
			if b, keep := ssDegradePod(a, d.How); keep {
				out = append(out, b)
			}
			continue
		}
		out = append(out, a)
	}
	return out
}

func ssReadyClass(err error) string {
	if err == nil {
		return "ok"
	}
	m := err.Error()
	switch {
	case strings.Contains(m, "updated replicas not satisfied"):
		return "notUpdated"
	case strings.Contains(m, "updated ready replicas not satisfied"):
		return "notReady"
	case strings.Contains(m, "no updated ready replicas"):
		return "noneReady"
	case strings.Contains(m, "pods with batch label not satisfied"):
		return "notLabelled"
	}
	return "err"
}

// ssVerdictOnce: one readiness check of the real code on a fresh cluster holding the workload and the pods
func ssVerdictOnce(in *ssVIn, pods []ssPodA) interface{} {
	must(flag.Set("filter-workload-type", "false"))
	kind := "native"
	objs := []client.Object{}
	if in.Wl != nil {
		kind = in.Wl.Kind
		objs = append(objs, ssBuildS(in.Wl, &in.Status))
	}
	objs = append(objs, ssMidObjects()...)
	for i, a := range pods {
		objs = append(objs, ssPodConcrete(i, a, kind))
	}
	base := fakeClient(objs...)
	world := func() interface{} {
		out := []interface{}{}
		if in.Wl != nil {
			got := ssEmpty(kind)
			if err := base.Get(context.TODO(), ssKey, got); err != nil {
				return "gone"
			}
			out = append(out, ssJSONMap(got))
		}
		l := &corev1.PodList{}
		must(base.List(context.TODO(), l))
		for i := range l.Items {
			out = append(out, ssJSONMap(&l.Items[i]))
		}
		return out
	}
	before := world()
	lc := NewLogClient(base)
	if in.Fault == "write" {
		lc.FailAt = 0
	}
	cli := &ssFaultClient{Client: lc, failGet: in.Fault == "get", failList: in.Fault == "list"}
	win := &ssIn{Batches: in.Batches, NoNeedUpdate: in.NoNeedUpdate}
	rel := ssRelease(win, kind, ssStep{Batch: in.Batch})
	rel.Spec.ReleasePlan.FailureThreshold = iosFromAny(in.FailureThreshold)
	f := pstatefulset.NewController
	if kind == "daemonSet" {
		f = pdaemonset.NewController
	}
	out := J{"counters": nil, "ctx": nil}
	// the verdict: the control plane's own entry point
	plane := partitionstyle.NewControlPlane(f, cli, record.NewFakeRecorder(100), rel, rel.Status.DeepCopy(), ssKey, ssGVK(kind))
	out["verdict"] = ssReadyClass(plane.EnsureBatchPodsReadyAndLabeled())
	// the numbers behind it: a fresh controller of the same kind
	ctrl, err := f(cli, ssKey, ssGVK(kind)).BuildController()
	if err == nil {
		info := ctrl.GetWorkloadInfo()
		out["counters"] = J{"replicas": int(info.Replicas), "updated": int(info.Status.UpdatedReplicas), "updatedReady": int(info.Status.UpdatedReadyReplicas)}
		if info.Replicas != 0 {
			bc, err := ctrl.CalculateBatchContext(rel.DeepCopy())
			if err == nil {
				out["ctx"] = J{"updated": int(bc.UpdatedReplicas), "updatedReady": int(bc.UpdatedReadyReplicas), "desired": int(bc.DesiredUpdatedReplicas),
					"planned": int(bc.PlannedUpdatedReplicas), "currentPartition": int(bc.CurrentPartition.IntVal), "desiredPartition": int(bc.DesiredPartition.IntVal)}
			}
		}
	}
	out["writes"] = len(lc.Log)
	out["untouched"] = reflect.DeepEqual(before, world())
	return out
}

func ssVRun(in *ssVIn) interface{} {
	res := J{"second": nil}
	res["first"] = guard(func() interface{} { return ssVerdictOnce(in, in.Pods) })
	if in.Degrade != nil {
		res["second"] = guard(func() interface{} { return ssVerdictOnce(in, ssDegradeAt(in.Pods, in.Degrade)) })
	}
	return res
}

func ssVCase(c *Ctx, in *ssVIn) { c.Emit("verdict", in, ssVRun(in)) }

// ---- generator of verdict cases ----

func ssVRevision(c *Ctx) string {
	switch c.Rng.Intn(12) {
	case 0:
		return ""
	case 1, 2, 3:
		return "wl-6d8f9c7b5"
	case 4:
		return "6d8f9c7b5"
	}
	return "rev-new"
}

// a label value the revision ends with (true) or does not (false)
func ssVLabel(c *Ctx, rev string, consistent bool) string {
	if consistent {
		if rev == "" {
			return "" // nothing is consistent with an empty revision: the caller falls back
		}
		switch c.Rng.Intn(4) {
		case 0:
			return rev[len(rev)/2:]
		case 1:
			return rev[len(rev)-1:]
		}
		return rev
	}
	switch c.Rng.Intn(6) {
	case 0:
		return ""
	case 1:
		return "x" + rev // longer than the revision
	case 2:
		if len(rev) > 1 {
			return rev[:len(rev)-1] // a prefix
		}
		return "zzz"
	case 3:
		return "rev-old"
	case 4:
		return strings.ToUpper(rev) + "!"
	}
	return "5c9d7f6b8"
}

func ssVConds(c *Ctx, ready bool) [][2]string {
	if ready {
		switch c.Rng.Intn(5) {
		case 0:
			return [][2]string{{"PodScheduled", "True"}, {"Ready", "True"}, {"ContainersReady", "True"}}
		case 1:
			return [][2]string{{"Ready", "True"}, {"Ready", "False"}} // the first one wins
		}
		return [][2]string{{"Ready", "True"}}
	}
	switch c.Rng.Intn(8) {
	case 0:
		return nil
	case 1:
		return [][2]string{{"Ready", "Unknown"}}
	case 2:
		return [][2]string{{"ContainersReady", "True"}, {"PodScheduled", "True"}}
	case 3:
		return [][2]string{{"Ready", "False"}, {"Ready", "True"}} // the first one wins
	case 4:
		return [][2]string{{"Ready", "true"}}
	case 5:
		return [][2]string{{"ready", "True"}}
	}
	return [][2]string{{"Initialized", "True"}, {"Ready", "False"}}
}

// ssVPod: a pod with the given (terminating, revision-consistent, ready) attributes, otherwise one of the workload's own
func ssVPod(c *Ctx, rev string, term, cons, ready bool) ssPodA {
	a := ssPodA{InNamespace: true, SelMatch: true, Phase: "Running", Owner: "this", OwnerVariant: c.Rng.Intn(6), Terminating: term, Conds: ssVConds(c, ready)}
	if cons {
		switch c.Rng.Intn(4) {
		case 0: // Deployment-style label only
			a.HashLabel = ssVLabel(c, rev, true)
		case 1: // a stale pod-template-hash next to the right controller-revision-hash
			a.HashLabel, a.RevLabel = ssVLabel(c, rev, false), ssVLabel(c, rev, true)
		default:
			a.RevLabel = ssVLabel(c, rev, true)
		}
	} else {
		a.RevLabel = ssVLabel(c, rev, false)
		if c.Rng.Intn(4) == 0 {
			a.HashLabel = ssVLabel(c, rev, false)
		}
	}
	if c.Rng.Intn(12) == 0 {
		a.Phase = ssPickS(c, "Pending", "", "Unknown")
	}
	return a
}

func ssVFT(c *Ctx, R int) interface{} {
	switch c.Rng.Intn(12) {
	case 0, 1, 2, 3, 4:
		return nil
	case 5, 6:
		return J{"i": c.Rng.Intn(3)}
	case 7, 8:
		return J{"p": []int{0, 10, 20, 34, 50, 100}[c.Rng.Intn(6)]}
	case 9:
		return J{"i": -1}
	case 10:
		return J{"s": "bad"}
	}
	return J{"i": R}
}

// (terminating, revision-consistent, ready): the seven combinations that must not count
var ssVCombos = [][3]bool{{true, true, true}, {true, true, false}, {true, false, true}, {true, false, false},
	{false, true, false}, {false, false, true}, {false, false, false}}

func ssVGen(c *Ctx) *ssVIn {
	kind := ssKindGen(c)
	R := 1 + c.Rng.Intn(10)
	switch c.Rng.Intn(30) {
	case 0, 1:
		R = 0
	case 2:
		R = 20 + c.Rng.Intn(30)
	}
	w := &ssWl{Kind: kind, Replicas: &R, US: ssGenUS(c, kind, R, false), Control: ssPickS(c, "this", "this", "this", "none", "other"),
		InProgress: c.Rng.Intn(4) != 0, Tmpl: 2, TmplPresent: true}
	if kind != "daemonSet" && c.Rng.Intn(40) == 0 {
		w.Replicas = nil
	}
	if kind == "unstructured" {
		w.UpdatedReady = []int{0, 0, 0, 0, -1, 1, 2, R, R / 2}[c.Rng.Intn(9)]
	}
	in := &ssVIn{Wl: w, Batches: ssBatches(c, R), NoNeedUpdate: ssNoNeed(c, R, 15), FailureThreshold: ssVFT(c, R), Fault: "none"}
	if c.Rng.Intn(12) == 0 {
		in.Fault = ssPickS(c, "get", "list", "list", "write")
	}
	if c.Rng.Intn(40) == 0 {
		in.Wl = nil
	}
	if nb := len(in.Batches); nb > 0 {
		in.Batch = c.Rng.Intn(nb)
	}
	switch c.Rng.Intn(60) {
	case 0:
		in.Batch = len(in.Batches)
	case 1:
		in.Batch = -1
	}
	rev := ssVRevision(c)
	in.Status = ssStatus{UpdateRevision: rev, Ready: c.Rng.Intn(R + 3)}
	// how far the rollout of this batch got: the workload controller's own counter and the pods
	switch c.Rng.Intn(5) {
	case 0:
		in.Status.Updated = c.Rng.Intn(R + 1)
	case 1:
		in.Status.Updated = R + c.Rng.Intn(2)
	default:
		in.Status.Updated = R - c.Rng.Intn(R/3+1)
	}
	good := c.Rng.Intn(R + 2)
	if c.Rng.Intn(3) != 0 {
		good = R - c.Rng.Intn(R/2+1)
	}
	// a batch that is ready with nothing to spare: one pod less and it is not
	tight := R > 0 && rev != "" && in.Wl != nil && in.Wl.Replicas != nil && c.Rng.Intn(4) == 0
	if tight {
		k := 1 + c.Rng.Intn(R)
		in.Batches, in.Batch, in.NoNeedUpdate, in.Fault = []interface{}{J{"i": k}}, 0, nil, "none"
		in.FailureThreshold = []interface{}{nil, nil, J{"i": 0}, J{"i": 1}, J{"p": 10}}[c.Rng.Intn(5)]
		in.Status.Updated = k + c.Rng.Intn(R-k+1)
		good = k + c.Rng.Intn(2)
		if in.Wl.Kind == "unstructured" && in.Wl.UpdatedReady > 0 && c.Rng.Intn(3) != 0 {
			in.Wl.UpdatedReady = 0
		}
	}
	for i := 0; i < good; i++ {
		in.Pods = append(in.Pods, ssVPod(c, rev, false, true, true))
	}
	// every other combination of (terminating, consistent, ready)
	extra := c.Rng.Intn(5)
	for i := 0; i < extra; i++ {
		m := ssVCombos[c.Rng.Intn(len(ssVCombos))] // at least one attribute off
		in.Pods = append(in.Pods, ssVPod(c, rev, m[0], m[1], m[2]))
	}
	// pods that ListOwnedPods never hands over, however ready they are
	n := c.Rng.Intn(4)
	if c.Rng.Intn(3) == 0 {
		n = 0
	}
	for i := 0; i < n; i++ {
		a := ssVPod(c, rev, false, true, true)
		switch c.Rng.Intn(7) {
		case 0:
			a.InNamespace = false
		case 1:
			a.SelMatch = false
		case 2:
			a.Phase = ssPickS(c, "Failed", "Succeeded")
		case 3:
			a.Owner = "none"
		case 4, 5:
			a.Owner = "other"
		case 6:
			a.Owner = "via" // … and one that it does, through an intermediate owner
		}
		in.Pods = append(in.Pods, a)
	}
	c.Rng.Shuffle(len(in.Pods), func(i, j int) { in.Pods[i], in.Pods[j] = in.Pods[j], in.Pods[i] })
	if len(in.Pods) > 0 && c.Rng.Intn(4) != 0 {
		in.Degrade = &ssDegrade{Index: c.Rng.Intn(len(in.Pods)), How: ssPickS(c, "notReady", "notReady", "terminating", "terminating", "otherRevision", "deleted", "failed", "disowned")}
		if tight || c.Rng.Intn(2) == 0 { // prefer a pod that counts
			for k := 0; k < len(in.Pods); k++ {
				a := in.Pods[(in.Degrade.Index+k)%len(in.Pods)]
				if !a.Terminating && a.Owner == "this" && a.SelMatch && a.InNamespace && len(a.Conds) > 0 && a.Conds[0] == [2]string{"Ready", "True"} {
					in.Degrade.Index = (in.Degrade.Index + k) % len(in.Pods)
					break
				}
			}
		}
	}
	return in
}
