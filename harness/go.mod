module rvh

go 1.19

require (
	github.com/openkruise/rollouts v0.0.0
	github.com/yuin/gopher-lua v0.0.0-20220504180219-658193537a64
	k8s.io/api v0.26.3
	k8s.io/apimachinery v0.26.3
	k8s.io/klog/v2 v2.100.1
)

require (
	github.com/beorn7/perks v1.0.1 // indirect
	github.com/blang/semver/v4 v4.0.0 // indirect
	github.com/cespare/xxhash/v2 v2.1.2 // indirect
	github.com/davecgh/go-spew v1.1.1 // indirect
	github.com/emicklei/go-restful/v3 v3.9.0 // indirect
	github.com/evanphx/json-patch/v5 v5.6.0 // indirect
	github.com/fsnotify/fsnotify v1.6.0 // indirect
	github.com/go-logr/logr v1.2.3 // indirect
	github.com/go-openapi/jsonpointer v0.19.5 // indirect
	github.com/go-openapi/jsonreference v0.20.0 // indirect
	github.com/go-openapi/swag v0.19.14 // indirect
	github.com/gogo/protobuf v1.3.2 // indirect
	github.com/golang/groupcache v0.0.0-20210331224755-41bb18bfe9da // indirect
	github.com/golang/protobuf v1.5.2 // indirect
	github.com/google/gnostic v0.5.7-v3refs // indirect
	github.com/google/go-cmp v0.5.9 // indirect
	github.com/google/gofuzz v1.1.0 // indirect
	github.com/google/uuid v1.1.2 // indirect
	github.com/josharian/intern v1.0.0 // indirect
	github.com/json-iterator/go v1.1.12 // indirect
	github.com/mailru/easyjson v0.7.6 // indirect
	github.com/matttproud/golang_protobuf_extensions v1.0.2 // indirect
	github.com/modern-go/concurrent v0.0.0-20180306012644-bacd9c7ef1dd // indirect
	github.com/modern-go/reflect2 v1.0.2 // indirect
	github.com/munnerz/goautoneg v0.0.0-20191010083416-a7dc8b61c822 // indirect
	github.com/openkruise/kruise-api v1.3.0 // indirect
	github.com/pkg/errors v0.9.1 // indirect
	github.com/prometheus/client_golang v1.14.0 // indirect
	github.com/prometheus/client_model v0.3.0 // indirect
	github.com/prometheus/common v0.37.0 // indirect
	github.com/prometheus/procfs v0.8.0 // indirect
	github.com/spf13/pflag v1.0.5 // indirect
	golang.org/x/net v0.7.0 // indirect
	golang.org/x/oauth2 v0.0.0-20220223155221-ee480838109b // indirect
	golang.org/x/sys v0.5.0 // indirect
	golang.org/x/term v0.5.0 // indirect
	golang.org/x/text v0.7.0 // indirect
	golang.org/x/time v0.3.0 // indirect
	gomodules.xyz/jsonpatch/v2 v2.2.0 // indirect
	google.golang.org/protobuf v1.28.1 // indirect
	gopkg.in/inf.v0 v0.9.1 // indirect
	gopkg.in/yaml.v2 v2.4.0 // indirect
	gopkg.in/yaml.v3 v3.0.1 // indirect
	k8s.io/client-go v0.26.3 // indirect
	k8s.io/component-base v0.26.3 // indirect
	k8s.io/kube-openapi v0.0.0-20221012153701-172d655c2280 // indirect
	k8s.io/utils v0.0.0-20221128185143-99ec85e7a448 // indirect
	sigs.k8s.io/controller-runtime v0.14.6 // indirect
	sigs.k8s.io/gateway-api v0.7.1 // indirect
	sigs.k8s.io/json v0.0.0-20220713155537-f223a00ba0e2 // indirect
	sigs.k8s.io/structured-merge-diff/v4 v4.2.3 // indirect
	sigs.k8s.io/yaml v1.3.0 // indirect
)

replace github.com/openkruise/rollouts => /repo
