package main

// Suite "validate": the Rollout validating webhook.
//
// Every case builds real v1beta1 / v1alpha1 Rollout objects from an abstract
// spec (the `in` of the line), marshals them into an admission request and calls
// the real RolloutCreateUpdateHandler.Handle with a real admission decoder and a
// controller-runtime fake client that holds the other Rollouts (conflict check)
// and the stored copy of the object (its status phase, for updates).

import (
	"context"
	"encoding/json"
	"fmt"
	"sort"
	"strconv"
	"strings"

	rolloutapi "github.com/openkruise/rollouts/api"
	"github.com/openkruise/rollouts/api/v1alpha1"
	"github.com/openkruise/rollouts/api/v1beta1"
	"github.com/openkruise/rollouts/pkg/webhook/rollout/validating"
	admissionv1 "k8s.io/api/admission/v1"
	metav1 "k8s.io/apimachinery/pkg/apis/meta/v1"
	"k8s.io/apimachinery/pkg/runtime"
	"k8s.io/apimachinery/pkg/util/intstr"
	"sigs.k8s.io/controller-runtime/pkg/client"
	"sigs.k8s.io/controller-runtime/pkg/client/fake"
	"sigs.k8s.io/controller-runtime/pkg/webhook/admission"
	gatewayv1beta1 "sigs.k8s.io/gateway-api/apis/v1beta1"
)

func init() { register("validate", runValidate, replayValidate) }

// ---------------------------------------------------------------- abstract input

type vRef struct {
	APIVersion string `json:"apiVersion"`
	Kind       string `json:"kind"`
	Name       string `json:"name"`
}

// vVal: {"i":n} integer | {"p":n} a string Go reads as n percent | {"s":raw} any other string.
// Raw keeps the original spelling of a percent ("+5%", "007%") for replay; the model ignores it.
type vVal struct {
	I   *int    `json:"i,omitempty"`
	P   *int    `json:"p,omitempty"`
	S   *string `json:"s,omitempty"`
	Raw string  `json:"raw,omitempty"`
}

type vStep struct {
	Replicas *vVal `json:"replicas"`
	Traffic  *vVal `json:"traffic"`
	Weight   *int  `json:"weight"`
	Mts      *int  `json:"mts"` // nil: no matches field; 0: explicit empty list
}

type vIngress struct {
	ClassType string `json:"classType"`
	Name      string `json:"name"`
}

type vGateway struct {
	Route *string `json:"route"`
}

type vTR struct {
	Service    string    `json:"service"`
	Grace      int       `json:"grace"`
	Ingress    *vIngress `json:"ingress"`
	Gateway    *vGateway `json:"gateway"`
	CustomRefs *[]vRef   `json:"customRefs"` // nil: absent; empty: explicit []
}

type vStrat struct {
	Steps []vStep `json:"steps"`
	TRs   *[]vTR  `json:"trs"` // nil: absent; empty: explicit []
	Extra bool    `json:"extra"`
}

type vObj struct {
	NS        string  `json:"ns"`
	Name      string  `json:"name"`
	Anno      string  `json:"anno"`
	// spec.disabled / spec.strategy.paused of the submitted object: no validation rule reads them (the model ignores them);
	// they are generated because "the user gives up / pauses while a release is progressing" is when edits get sloppy
	Disabled bool  `json:"disabled,omitempty"`
	Paused   bool  `json:"paused,omitempty"`
	Ref       *vRef   `json:"ref"`
	Canary    *vStrat `json:"canary"`
	BlueGreen *vStrat `json:"blueGreen"`
}

type vStored struct {
	NS    string `json:"ns"`
	Name  string `json:"name"`
	Ref   *vRef  `json:"ref"`
	Phase string `json:"phase"`
	// the stored Rollout is being deleted (its finalizer is still pending: the controller is finalising it) - it still
	// drives its workload, so it still conflicts; invisible to the model, which never looks at it
	Deleting bool `json:"deleting,omitempty"`
}

type vIn struct {
	Version string    `json:"version"`
	Op      string    `json:"op"`
	Limit   int       `json:"limit"`
	Obj     vObj      `json:"obj"`
	Old     *vObj     `json:"old"`
	Store   []vStored `json:"store"`
}

type vRaw struct {
	Version string `json:"version"`
	Op      string `json:"op"`
	Body    string `json:"body"`
	OldBody string `json:"oldBody"`
}

// ---------------------------------------------------------------- values

// goPercent mirrors how intstr reads a string value: "<strconv.Atoi>%".
func goPercent(s string) (int, bool) {
	if !strings.HasSuffix(s, "%") {
		return 0, false
	}
	n, err := strconv.Atoi(strings.TrimSuffix(s, "%"))
	if err != nil {
		return 0, false
	}
	return n, true
}

func vInt(n int) *vVal { return &vVal{I: &n} }
func vPct(n int) *vVal { return &vVal{P: &n} }

// vStr canonicalises a string value.
func vStr(s string) *vVal {
	if n, ok := goPercent(s); ok {
		v := &vVal{P: &n}
		if s != fmt.Sprintf("%d%%", n) {
			v.Raw = s
		}
		return v
	}
	return &vVal{S: &s}
}

func (v *vVal) str() string {
	switch {
	case v.P != nil:
		if v.Raw != "" {
			return v.Raw
		}
		return fmt.Sprintf("%d%%", *v.P)
	case v.S != nil:
		return *v.S
	default:
		return strconv.Itoa(*v.I)
	}
}

func (v *vVal) ios() *intstr.IntOrString {
	if v == nil {
		return nil
	}
	if v.I != nil {
		x := intstr.FromInt(*v.I)
		return &x
	}
	x := intstr.FromString(v.str())
	return &x
}

// ---------------------------------------------------------------- concretisation

const rolloutStyleAnno = v1alpha1.RolloutStyleAnnotation

func mkMatches(n int) []gatewayv1beta1.HTTPHeaderMatch {
	hs := []gatewayv1beta1.HTTPHeaderMatch{}
	for i := 0; i < n; i++ {
		hs = append(hs, gatewayv1beta1.HTTPHeaderMatch{Name: gatewayv1beta1.HTTPHeaderName(fmt.Sprintf("h%d", i)), Value: "v"})
	}
	return hs
}

func betaSteps(steps []vStep) []v1beta1.CanaryStep {
	var out []v1beta1.CanaryStep
	for _, s := range steps {
		cs := v1beta1.CanaryStep{Replicas: s.Replicas.ios()}
		if s.Traffic != nil {
			t := s.Traffic.str()
			cs.Traffic = &t
		}
		if s.Mts != nil && *s.Mts > 0 {
			for i := 0; i < *s.Mts; i++ {
				cs.Matches = append(cs.Matches, v1beta1.HttpRouteMatch{Headers: mkMatches(1)})
			}
		}
		out = append(out, cs)
	}
	return out
}

func betaTRs(trs *[]vTR) []v1beta1.TrafficRoutingRef {
	if trs == nil {
		return nil
	}
	var out []v1beta1.TrafficRoutingRef
	for _, t := range *trs {
		r := v1beta1.TrafficRoutingRef{Service: t.Service, GracePeriodSeconds: int32(t.Grace)}
		if t.Ingress != nil {
			r.Ingress = &v1beta1.IngressTrafficRouting{ClassType: t.Ingress.ClassType, Name: t.Ingress.Name}
		}
		if t.Gateway != nil {
			r.Gateway = &v1beta1.GatewayTrafficRouting{HTTPRouteName: t.Gateway.Route}
		}
		if t.CustomRefs != nil {
			for _, c := range *t.CustomRefs {
				r.CustomNetworkRefs = append(r.CustomNetworkRefs, v1beta1.ObjectRef{APIVersion: c.APIVersion, Kind: c.Kind, Name: c.Name})
			}
		}
		out = append(out, r)
	}
	return out
}

func alphaSteps(steps []vStep) []v1alpha1.CanaryStep {
	var out []v1alpha1.CanaryStep
	for _, s := range steps {
		cs := v1alpha1.CanaryStep{Replicas: s.Replicas.ios()}
		if s.Weight != nil {
			w := int32(*s.Weight)
			cs.Weight = &w
		}
		if s.Mts != nil && *s.Mts > 0 {
			for i := 0; i < *s.Mts; i++ {
				cs.Matches = append(cs.Matches, v1alpha1.HttpRouteMatch{Headers: mkMatches(1)})
			}
		}
		out = append(out, cs)
	}
	return out
}

func alphaTRs(trs *[]vTR) []v1alpha1.TrafficRoutingRef {
	if trs == nil {
		return nil
	}
	var out []v1alpha1.TrafficRoutingRef
	for _, t := range *trs {
		r := v1alpha1.TrafficRoutingRef{Service: t.Service, GracePeriodSeconds: int32(t.Grace)}
		if t.Ingress != nil {
			r.Ingress = &v1alpha1.IngressTrafficRouting{ClassType: t.Ingress.ClassType, Name: t.Ingress.Name}
		}
		if t.Gateway != nil {
			r.Gateway = &v1alpha1.GatewayTrafficRouting{HTTPRouteName: t.Gateway.Route}
		}
		if t.CustomRefs != nil {
			for _, c := range *t.CustomRefs {
				r.CustomNetworkRefs = append(r.CustomNetworkRefs, v1alpha1.CustomNetworkRef{APIVersion: c.APIVersion, Kind: c.Kind, Name: c.Name})
			}
		}
		out = append(out, r)
	}
	return out
}

func annos(a string) map[string]string {
	if a == "" {
		return nil
	}
	return map[string]string{rolloutStyleAnno: a}
}

func betaObj(o *vObj) *v1beta1.Rollout {
	r := &v1beta1.Rollout{
		TypeMeta:   metav1.TypeMeta{APIVersion: v1beta1.GroupVersion.String(), Kind: "Rollout"},
		ObjectMeta: metav1.ObjectMeta{Namespace: o.NS, Name: o.Name, Annotations: annos(o.Anno)},
	}
	if o.Ref != nil {
		r.Spec.WorkloadRef = v1beta1.ObjectRef{APIVersion: o.Ref.APIVersion, Kind: o.Ref.Kind, Name: o.Ref.Name}
	}
	if o.Canary != nil {
		r.Spec.Strategy.Canary = &v1beta1.CanaryStrategy{Steps: betaSteps(o.Canary.Steps),
			TrafficRoutings: betaTRs(o.Canary.TRs), EnableExtraWorkloadForCanary: o.Canary.Extra}
	}
	if o.BlueGreen != nil {
		r.Spec.Strategy.BlueGreen = &v1beta1.BlueGreenStrategy{Steps: betaSteps(o.BlueGreen.Steps),
			TrafficRoutings: betaTRs(o.BlueGreen.TRs)}
	}
	r.Spec.Disabled, r.Spec.Strategy.Paused = o.Disabled, o.Paused
	return r
}

func alphaObj(o *vObj) *v1alpha1.Rollout {
	r := &v1alpha1.Rollout{
		TypeMeta:   metav1.TypeMeta{APIVersion: v1alpha1.GroupVersion.String(), Kind: "Rollout"},
		ObjectMeta: metav1.ObjectMeta{Namespace: o.NS, Name: o.Name, Annotations: annos(o.Anno)},
	}
	if o.Ref != nil {
		r.Spec.ObjectRef.WorkloadRef = &v1alpha1.WorkloadRef{APIVersion: o.Ref.APIVersion, Kind: o.Ref.Kind, Name: o.Ref.Name}
	}
	if o.Canary != nil {
		r.Spec.Strategy.Canary = &v1alpha1.CanaryStrategy{Steps: alphaSteps(o.Canary.Steps), TrafficRoutings: alphaTRs(o.Canary.TRs)}
	}
	r.Spec.Disabled, r.Spec.Strategy.Paused = o.Disabled, o.Paused
	return r
}

// patchEmpties re-inserts the explicit empty lists (`[]`) that `omitempty` drops:
// JSON `[]` decodes to an empty non-nil slice, which the handler distinguishes from nil.
func patchEmpties(m map[string]interface{}, o *vObj) {
	spec, _ := m["spec"].(map[string]interface{})
	if spec == nil {
		return
	}
	strat, _ := spec["strategy"].(map[string]interface{})
	if strat == nil {
		return
	}
	one := func(key string, s *vStrat) {
		if s == nil {
			return
		}
		blk, _ := strat[key].(map[string]interface{})
		if blk == nil {
			return
		}
		if s.TRs != nil && len(*s.TRs) == 0 {
			blk["trafficRoutings"] = []interface{}{}
		}
		if s.TRs != nil {
			if arr, ok := blk["trafficRoutings"].([]interface{}); ok {
				for i, t := range *s.TRs {
					if t.CustomRefs != nil && len(*t.CustomRefs) == 0 && i < len(arr) {
						arr[i].(map[string]interface{})["customNetworkRefs"] = []interface{}{}
					}
				}
			}
		}
		if arr, ok := blk["steps"].([]interface{}); ok {
			for i, st := range s.Steps {
				if st.Mts != nil && *st.Mts == 0 && i < len(arr) {
					arr[i].(map[string]interface{})["matches"] = []interface{}{}
				}
			}
		}
	}
	one("canary", o.Canary)
	one("blueGreen", o.BlueGreen)
}

func rawOf(version string, o *vObj) []byte {
	var typed interface{}
	if version == "v1alpha1" {
		typed = alphaObj(o)
	} else {
		typed = betaObj(o)
	}
	b, err := json.Marshal(typed)
	if err != nil {
		panic(err)
	}
	var m map[string]interface{}
	if err := json.Unmarshal(b, &m); err != nil {
		panic(err)
	}
	patchEmpties(m, o)
	b, err = json.Marshal(m)
	if err != nil {
		panic(err)
	}
	return b
}

// ---------------------------------------------------------------- calling the real handler

var (
	vScheme  *runtime.Scheme
	vDecoder *admission.Decoder
)

func vSetup() {
	if vScheme != nil {
		return
	}
	vScheme = runtime.NewScheme()
	if err := rolloutapi.AddToScheme(vScheme); err != nil {
		panic(err)
	}
	d, err := admission.NewDecoder(vScheme)
	if err != nil {
		panic(err)
	}
	vDecoder = d
}

func storeObjects(version string, store []vStored) []client.Object {
	var objs []client.Object
	for _, s := range store {
		if version == "v1alpha1" {
			r := &v1alpha1.Rollout{ObjectMeta: metav1.ObjectMeta{Namespace: s.NS, Name: s.Name}}
			if s.Ref != nil {
				r.Spec.ObjectRef.WorkloadRef = &v1alpha1.WorkloadRef{APIVersion: s.Ref.APIVersion, Kind: s.Ref.Kind, Name: s.Ref.Name}
			}
			r.Status.Phase = v1alpha1.RolloutPhase(s.Phase)
			if s.Deleting {
				now := metav1.Now()
				r.DeletionTimestamp, r.Finalizers = &now, []string{"rollouts.kruise.io/rollout"}
			}
			objs = append(objs, r)
		} else {
			r := &v1beta1.Rollout{ObjectMeta: metav1.ObjectMeta{Namespace: s.NS, Name: s.Name}}
			if s.Ref != nil {
				r.Spec.WorkloadRef = v1beta1.ObjectRef{APIVersion: s.Ref.APIVersion, Kind: s.Ref.Kind, Name: s.Ref.Name}
			}
			r.Status.Phase = v1beta1.RolloutPhase(s.Phase)
			if s.Deleting {
				now := metav1.Now()
				r.DeletionTimestamp, r.Finalizers = &now, []string{"rollouts.kruise.io/rollout"}
			}
			objs = append(objs, r)
		}
	}
	return objs
}

var vClasses = []struct{ sub, class string }{
	// longer phrases first: a matched phrase is blanked before the shorter ones are tried
	{"WorkloadRef kind is not supported for bluegreen style", "refKindBG"},
	{"WorkloadRef kind is not supported", "refKind"},
	{"WorkloadRef is required", "refRequired"},
	{"Canary and BlueGreen cannot both be empty", "stratEmpty"},
	{"Canary and BlueGreen cannot both be set", "stratBoth"},
	{"Canary cannot be empty", "canaryNil"},
	{"Rolling style must be", "styleAnno"},
	{"The number of Canary.Steps cannot be empty", "stepsEmpty"},
	{"weight and replicas cannot be empty at the same time", "stepBothNil"},
	{"replicas cannot be empty", "replicasNil"},
	{"replicas must be positive number", "replicasBad"},
	{"step[x].replicas must not greater than", "partLimit"},
	{"step[x].weight must not greater than", "partLimitWeight"},
	{"weight must be positive number", "weightBad"},
	{"in blueGreen strategy", "trafficBG"},
	{"in canary strategy", "trafficCanary"},
	{"Steps.CanaryReplicas must be a non decreasing sequence", "nonDecr"},
	{"Steps.Weight must be a non decreasing sequence", "weightDecr"},
	{"only support single TrafficRouting", "trMany"},
	{"GracePeriodSeconds cannot be negative", "trGrace"},
	{"TrafficRouting.Service cannot be empty", "trService"},
	{"TrafficRoutings are not set", "trUnset"},
	{"TrafficRouting.Ingress.Ingress cannot be empty", "trIngress"},
	{"must set the name of HTTPRoute", "trGateway"},
	{"conflict with Rollout(", "conflict"},
	{"Internal error", "internal"},
	{"'ObjectRef' field is immutable", "immutRef"},
	{"TrafficRoutings' field is immutable", "immutTR"},
	{"Rollout style and enableExtraWorkloadForCanary are immutable", "immutStyle"},
	{"'Rolling-Style' annotation is immutable", "immutStyle"},
	{"Rollout strategy type (Canary|BlueGreen) is immutable", "immutStyle"},
	{"Amount of Rollout steps are immutable", "immutSteps"},
}

// classify maps the response message to the sorted set of error classes.
func classify(code int32, msg string) []string {
	set := map[string]bool{}
	if code == 400 {
		set["decode"] = true
	} else {
		for _, c := range vClasses {
			if strings.Contains(msg, c.sub) {
				set[c.class] = true
				msg = strings.ReplaceAll(msg, c.sub, "#")
			}
		}
		if len(set) == 0 {
			set["unknown:"+msg] = true
		}
	}
	out := []string{}
	for k := range set {
		out = append(out, k)
	}
	sort.Strings(out)
	return out
}

func vGuard(f func() interface{}) (res interface{}) {
	defer func() {
		if r := recover(); r != nil {
			res = J{"panic": true}
		}
	}()
	return f()
}

func vOperation(op string) admissionv1.Operation {
	switch op {
	case "create":
		return admissionv1.Create
	case "update":
		return admissionv1.Update
	default:
		return admissionv1.Delete
	}
}

func vCall(version, op string, limit int, store []vStored, ns, name string, body, oldBody []byte) interface{} {
	vSetup()
	return vGuard(func() interface{} {
		saved := validating.PartitionReplicasLimitWithTraffic
		validating.PartitionReplicasLimitWithTraffic = limit
		defer func() { validating.PartitionReplicasLimitWithTraffic = saved }()
		cli := fake.NewClientBuilder().WithScheme(vScheme).WithObjects(storeObjects(version, store)...).Build()
		h := &validating.RolloutCreateUpdateHandler{Client: cli, Decoder: vDecoder}
		req := admission.Request{AdmissionRequest: admissionv1.AdmissionRequest{
			Operation: vOperation(op),
			Kind:      metav1.GroupVersionKind{Group: v1beta1.GroupVersion.Group, Version: version, Kind: "Rollout"},
			Namespace: ns, Name: name,
			Object: runtime.RawExtension{Raw: body},
		}}
		if oldBody != nil {
			req.OldObject = runtime.RawExtension{Raw: oldBody}
		}
		resp := h.Handle(context.TODO(), req)
		if resp.Allowed {
			return J{"allowed": true, "code": 200, "errs": []string{}}
		}
		code := int32(0)
		msg := ""
		if resp.Result != nil {
			code = resp.Result.Code
			msg = resp.Result.Message
		}
		return J{"allowed": false, "code": int(code), "errs": classify(code, msg)}
	})
}

func validateCase(c *Ctx, in *vIn) {
	body := rawOf(in.Version, &in.Obj)
	var oldBody []byte
	if in.Old != nil {
		oldBody = rawOf(in.Version, in.Old)
	}
	impl := vCall(in.Version, in.Op, in.Limit, in.Store, in.Obj.NS, in.Obj.Name, body, oldBody)
	c.Emit("handle", in, impl)
}

func validateRaw(c *Ctx, in *vRaw) {
	var old []byte
	if in.OldBody != "" {
		old = []byte(in.OldBody)
	}
	impl := vCall(in.Version, in.Op, 50, nil, "ns1", "r1", []byte(in.Body), old)
	c.Emit("raw", in, impl)
}

// ---------------------------------------------------------------- generator

var vRefPool = []vRef{
	{"apps/v1", "Deployment", "w1"},
	{"apps/v1", "Deployment", "w2"},
	{"apps/v1beta1", "Deployment", "w1"}, // same workload as the first, other version string
	{"apps/v1", "StatefulSet", "w1"},
	{"apps/v1", "ReplicaSet", "w1"},
	{"apps.kruise.io/v1alpha1", "CloneSet", "w1"},
	{"apps.kruise.io/v1alpha1", "CloneSet", "w2"},
	{"apps.kruise.io/v1beta1", "StatefulSet", "w1"},
	{"apps.kruise.io/v1alpha1", "StatefulSet", "w1"},
	{"apps.kruise.io/v1alpha1", "DaemonSet", "w1"},
}

var vBadRefs = []vRef{
	{"batch/v1", "Job", "w1"},
	{"v1", "Pod", "w1"},
	{"apps", "Deployment", "w1"},
	{"apps/v1/x", "Deployment", "w1"},
	{"", "Deployment", "w1"},
	{"/", "Deployment", "w1"},
	{"apps/v1", "deployment", "w1"},
	{"apps/v1", "", ""},
	{"apps.kruise.io/v1alpha1", "Deployment", "w1"},
	{"extensions/v1beta1", "Deployment", "w1"},
}

var vBadStrings = []string{"", "%", "abc", "50", "1.5%", " 5%", "5 %", "5%%", "99999999999999999999%", "%5", "five%"}
var vOddPercents = []string{"+5%", "007%", "-5%", "0%", "101%", "100%", "1%", "-0%", "+100%", "0100%", "200%"}
var vPhases = []string{"", "Initial", "Healthy", "Progressing", "Progressing", "Terminating", "Disabled", "Disabling"}
var vAnnos = []string{"", "", "canary", "Canary", "partition", "Partition", "PARTITION", "CANARY", "bluegreen", "foo"}

func pick[T any](c *Ctx, xs []T) T { return xs[c.Rng.Intn(len(xs))] }
func ip(n int) *int                { return &n }
func validateSp(s string) *string          { return &s }

// genSteps builds a plan that passes validation in most cases.
func genSteps(c *Ctx, version string, blueGreen bool, limit int) []vStep {
	n := 1 + c.Rng.Intn(6)
	mode := c.Rng.Intn(4) // 0 percent, 1 int, 2/3 mixed
	lastP, lastI := 0, 0
	var steps []vStep
	for i := 0; i < n; i++ {
		pctType := mode == 0 || (mode >= 2 && c.Rng.Intn(2) == 0)
		s := vStep{}
		withTraffic := c.Rng.Intn(3) == 0
		if pctType {
			lo := lastP
			if lo < 1 {
				lo = 1
			}
			hi := 100
			if withTraffic && c.Rng.Intn(4) > 0 && limit >= lo {
				hi = limit
			}
			if hi > 100 {
				hi = 100
			}
			if hi < lo {
				hi = lo
			}
			v := lo + c.Rng.Intn(hi-lo+1)
			if c.Rng.Intn(3) == 0 {
				v = lo // plateaus
			}
			lastP = v
			s.Replicas = vPct(v)
		} else {
			lo := lastI
			if lo < 1 {
				lo = 1
			}
			v := lo + c.Rng.Intn(8)
			lastI = v
			s.Replicas = vInt(v)
		}
		if version == "v1alpha1" {
			if c.Rng.Intn(5) == 0 {
				// weight only
				s.Replicas = nil
				w := lastP
				if w < 1 {
					w = 1
				}
				w += c.Rng.Intn(100 - w + 1)
				if c.Rng.Intn(2) == 0 && limit >= 1 && w > limit {
					w = limit
				}
				lastP = w
				s.Weight = ip(w)
			} else if withTraffic {
				s.Weight = ip(1 + c.Rng.Intn(100))
			}
		} else if withTraffic {
			lo := 1
			if blueGreen {
				lo = 0
			}
			s.Traffic = vPct(lo + c.Rng.Intn(101-lo))
		}
		if c.Rng.Intn(8) == 0 {
			s.Mts = ip(1 + c.Rng.Intn(2))
		}
		steps = append(steps, s)
	}
	return steps
}

func genTR(c *Ctx) vTR {
	t := vTR{Service: pick(c, []string{"svc-a", "svc-b"})}
	if c.Rng.Intn(4) == 0 {
		t.Grace = c.Rng.Intn(10)
	}
	switch c.Rng.Intn(4) {
	case 0, 1:
		t.Ingress = &vIngress{ClassType: pick(c, []string{"", "nginx", "alb"}), Name: pick(c, []string{"ing-a", "ing-b"})}
	case 2:
		t.Gateway = &vGateway{Route: validateSp(pick(c, []string{"route-a", "route-b"}))}
	default:
		t.CustomRefs = &[]vRef{{"networking.istio.io/v1alpha3", "VirtualService", pick(c, []string{"vs-a", "vs-b"})}}
	}
	return t
}

func genStrat(c *Ctx, version string, blueGreen bool, limit int) *vStrat {
	s := &vStrat{Steps: genSteps(c, version, blueGreen, limit)}
	if c.Rng.Intn(3) > 0 {
		s.TRs = &[]vTR{genTR(c)}
	}
	if !blueGreen && version != "v1alpha1" {
		s.Extra = c.Rng.Intn(2) == 0
	}
	return s
}

func genObj(c *Ctx, version string, limit int) vObj {
	ref := pick(c, vRefPool)
	o := vObj{NS: pick(c, []string{"ns1", "ns1", "ns2"}), Name: pick(c, []string{"r1", "r2", "r3"}), Ref: &ref}
	o.Disabled, o.Paused = c.Rng.Intn(5) == 0, c.Rng.Intn(6) == 0
	if version == "v1alpha1" {
		o.Anno = pick(c, vAnnos[:8])
		o.Canary = genStrat(c, version, false, limit)
		return o
	}
	if c.Rng.Intn(10) < 3 {
		if c.Rng.Intn(4) > 0 {
			r := pick(c, []vRef{vRefPool[0], vRefPool[1], vRefPool[5], vRefPool[6]})
			o.Ref = &r
		}
		o.BlueGreen = genStrat(c, version, true, limit)
	} else {
		o.Canary = genStrat(c, version, false, limit)
	}
	return o
}

func cloneObj(o *vObj) *vObj {
	b, _ := json.Marshal(o)
	var n vObj
	json.Unmarshal(b, &n)
	return &n
}

func activeStrat(o *vObj) *vStrat {
	if o.BlueGreen != nil {
		return o.BlueGreen
	}
	return o.Canary
}

// mutate applies one malformation / edit to an object.
func mutate(c *Ctx, version string, o *vObj) string {
	s := activeStrat(o)
	stepIdx := func() int {
		if s == nil || len(s.Steps) == 0 {
			return -1
		}
		return c.Rng.Intn(len(s.Steps))
	}
	switch k := c.Rng.Intn(26); k {
	case 0:
		if s != nil {
			s.Steps = nil
		}
		return "steps-empty"
	case 1:
		if i := stepIdx(); i >= 0 {
			s.Steps[i].Replicas = nil
		}
		return "replicas-nil"
	case 2:
		if i := stepIdx(); i >= 0 {
			s.Steps[i].Replicas = vStr(pick(c, vBadStrings))
		}
		return "replicas-badstring"
	case 3:
		if i := stepIdx(); i >= 0 {
			s.Steps[i].Replicas = vStr(pick(c, vOddPercents))
		}
		return "replicas-oddpercent"
	case 4:
		if i := stepIdx(); i >= 0 {
			s.Steps[i].Replicas = vInt(pick(c, []int{0, -1, -100, 1, 1000, 2147483647}))
		}
		return "replicas-oddint"
	case 5:
		if s != nil && len(s.Steps) >= 2 {
			i, j := c.Rng.Intn(len(s.Steps)), c.Rng.Intn(len(s.Steps))
			s.Steps[i], s.Steps[j] = s.Steps[j], s.Steps[i]
		}
		return "steps-swap"
	case 6:
		// put a step of the other type between two steps (non-adjacent decrease candidates)
		if s != nil && len(s.Steps) >= 1 {
			i := c.Rng.Intn(len(s.Steps))
			var ins vStep
			if c.Rng.Intn(2) == 0 {
				ins.Replicas = vPct(1 + c.Rng.Intn(100))
			} else {
				ins.Replicas = vInt(1 + c.Rng.Intn(10))
			}
			rest := append([]vStep{ins}, s.Steps[i:]...)
			s.Steps = append(s.Steps[:i:i], rest...)
			if c.Rng.Intn(2) == 0 {
				j := c.Rng.Intn(len(s.Steps))
				s.Steps[j].Replicas = vInt(1 + c.Rng.Intn(3))
			}
		}
		return "steps-insert-other-type"
	case 7:
		if i := stepIdx(); i >= 0 {
			if version == "v1alpha1" {
				s.Steps[i].Weight = ip(pick(c, []int{0, -1, 101, 500, 100, 1, -2147483648}))
			} else {
				s.Steps[i].Traffic = vStr(pick(c, append(append([]string{}, vOddPercents...), vBadStrings...)))
			}
		}
		return "traffic-odd"
	case 8:
		if i := stepIdx(); i >= 0 && version == "v1alpha1" {
			s.Steps[i].Weight = nil
			if c.Rng.Intn(2) == 0 {
				s.Steps[i].Replicas = nil
			}
		}
		return "weight-nil"
	case 9:
		if version != "v1alpha1" {
			if c.Rng.Intn(2) == 0 {
				o.Canary, o.BlueGreen = nil, nil
			} else {
				if o.Canary == nil {
					o.Canary = genStrat(c, version, false, 50)
				}
				if o.BlueGreen == nil {
					o.BlueGreen = genStrat(c, version, true, 50)
				}
			}
		} else {
			o.Canary = nil
		}
		return "strategy-blocks"
	case 10:
		if s != nil {
			trs := []vTR{genTR(c), genTR(c)}
			s.TRs = &trs
		}
		return "tr-two"
	case 11:
		if s != nil && s.TRs != nil && len(*s.TRs) > 0 {
			(*s.TRs)[0].Service = ""
		}
		return "tr-service-empty"
	case 12:
		if s != nil && s.TRs != nil && len(*s.TRs) > 0 {
			(*s.TRs)[0].Grace = -1 - c.Rng.Intn(5)
		}
		return "tr-grace-negative"
	case 13:
		if s != nil && s.TRs != nil && len(*s.TRs) > 0 {
			t := &(*s.TRs)[0]
			t.Ingress, t.Gateway, t.CustomRefs = nil, nil, nil
			if c.Rng.Intn(2) == 0 {
				t.CustomRefs = &[]vRef{}
			}
		}
		return "tr-no-provider"
	case 14:
		if s != nil && s.TRs != nil && len(*s.TRs) > 0 {
			t := &(*s.TRs)[0]
			switch c.Rng.Intn(3) {
			case 0:
				t.Ingress = &vIngress{Name: ""}
			case 1:
				t.Gateway = &vGateway{}
			default:
				t.Gateway = &vGateway{Route: validateSp("")}
			}
		}
		return "tr-provider-unnamed"
	case 15:
		if s != nil {
			s.TRs = &[]vTR{}
		}
		return "tr-explicit-empty"
	case 16:
		r := pick(c, vBadRefs)
		o.Ref = &r
		return "ref-unsupported"
	case 17:
		if version == "v1alpha1" {
			o.Ref = nil
		} else {
			o.Ref = &vRef{}
		}
		return "ref-absent"
	case 18:
		if version == "v1alpha1" {
			o.Anno = pick(c, vAnnos)
		} else if o.BlueGreen != nil {
			r := pick(c, vRefPool)
			o.Ref = &r
		}
		return "style"
	case 19:
		if i := stepIdx(); i >= 0 {
			s.Steps[i].Mts = ip(c.Rng.Intn(3))
			if c.Rng.Intn(2) == 0 {
				s.Steps[i].Replicas = vPct(40 + c.Rng.Intn(61))
			}
		}
		return "matches"
	case 20:
		if s != nil {
			s.Extra = !s.Extra && version != "v1alpha1" && o.BlueGreen == nil
		}
		return "extra-flag"
	case 21:
		if s != nil {
			s.Steps = append(s.Steps, vStep{Replicas: vPct(100)})
		}
		return "step-append"
	case 22:
		if s != nil && len(s.Steps) > 1 {
			s.Steps = s.Steps[:len(s.Steps)-1]
		}
		return "step-drop"
	case 23:
		if s != nil {
			if s.TRs == nil {
				s.TRs = &[]vTR{genTR(c)}
			} else if c.Rng.Intn(2) == 0 || len(*s.TRs) == 0 {
				s.TRs = nil
			} else {
				(*s.TRs)[0] = genTR(c)
			}
		}
		return "tr-change"
	case 24:
		r := pick(c, vRefPool)
		o.Ref = &r
		return "ref-change"
	default:
		if version != "v1alpha1" && s != nil {
			// switch the strategy kind, keeping the block
			if o.BlueGreen != nil {
				o.Canary, o.BlueGreen = o.BlueGreen, nil
			} else {
				o.BlueGreen, o.Canary = o.Canary, nil
				o.BlueGreen.Extra = false
			}
		}
		return "strategy-switch"
	}
}

func genStore(c *Ctx, in *vIn) {
	seen := map[string]bool{}
	key := in.Obj.NS + "/" + in.Obj.Name
	if in.Op == "update" && c.Rng.Intn(12) > 0 {
		ref := in.Obj.Ref
		if in.Old != nil && in.Old.Ref != nil {
			ref = in.Old.Ref
		}
		if ref == nil && in.Version != "v1alpha1" {
			ref = &vRef{}
		}
		in.Store = append(in.Store, vStored{NS: in.Obj.NS, Name: in.Obj.Name, Ref: ref, Phase: pick(c, vPhases)})
		seen[key] = true
	} else if in.Op == "create" && c.Rng.Intn(10) == 0 {
		// the object itself already stored (same name is skipped by the conflict check)
		in.Store = append(in.Store, vStored{NS: in.Obj.NS, Name: in.Obj.Name, Ref: in.Obj.Ref, Phase: pick(c, vPhases)})
		if in.Store[0].Ref == nil && in.Version != "v1alpha1" {
			in.Store[0].Ref = &vRef{}
		}
		seen[key] = true
	}
	n := c.Rng.Intn(4)
	for i := 0; i < n; i++ {
		s := vStored{NS: pick(c, []string{"ns1", "ns1", "ns2"}), Name: pick(c, []string{"r1", "r2", "r3", "r4", "r5"}), Phase: pick(c, vPhases), Deleting: c.Rng.Intn(3) == 0}
		if seen[s.NS+"/"+s.Name] {
			continue
		}
		seen[s.NS+"/"+s.Name] = true
		r := pick(c, vRefPool)
		if c.Rng.Intn(6) == 0 && in.Obj.Ref != nil {
			r = *in.Obj.Ref
		}
		s.Ref = &r
		if in.Version == "v1alpha1" && c.Rng.Intn(10) == 0 {
			s.Ref = nil
		}
		in.Store = append(in.Store, s)
	}
	if in.Store == nil {
		in.Store = []vStored{}
	}
}

func genCase(c *Ctx) *vIn {
	in := &vIn{Version: pick(c, []string{"v1beta1", "v1beta1", "v1alpha1"}), Limit: 50}
	if c.Rng.Intn(6) == 0 {
		in.Limit = pick(c, []int{0, 30, 31, 100, 120})
	}
	in.Op = pick(c, []string{"create", "create", "update", "update", "update"})
	if c.Rng.Intn(60) == 0 {
		in.Op = "other"
	}
	in.Obj = genObj(c, in.Version, in.Limit)
	// malformed / edited stream: roughly half the cases carry 1-2 mutations
	if c.Rng.Intn(2) == 0 {
		for k := 1 + c.Rng.Intn(2); k > 0; k-- {
			mutate(c, in.Version, &in.Obj)
		}
	}
	if in.Op == "update" {
		switch r := c.Rng.Intn(20); {
		case r < 6:
			in.Old = cloneObj(&in.Obj)
		case r < 16:
			in.Old = cloneObj(&in.Obj)
			for k := 1 + c.Rng.Intn(2); k > 0; k-- {
				mutate(c, in.Version, in.Old)
			}
		case r < 19:
			o := genObj(c, in.Version, in.Limit)
			o.NS, o.Name = in.Obj.NS, in.Obj.Name
			in.Old = &o
		default:
			in.Old = nil // empty OldObject
		}
		if in.Old != nil {
			in.Old.NS, in.Old.Name = in.Obj.NS, in.Obj.Name
			if in.Old.Ref == nil && in.Version != "v1alpha1" {
				in.Old.Ref = &vRef{}
			}
		}
	}
	if in.Obj.Ref == nil && in.Version != "v1alpha1" {
		in.Obj.Ref = &vRef{}
	}
	genStore(c, in)
	return in
}

// exhaustive small scope: every plan of length ≤ 3 over a small alphabet of step shapes
func smallScope(c *Ctx) {
	betaAlpha := []vStep{
		{Replicas: vInt(1)}, {Replicas: vInt(3)}, {Replicas: vPct(10)}, {Replicas: vPct(60)},
		{Replicas: vPct(20), Traffic: vPct(20)}, {Replicas: nil}, {Replicas: vStr("abc")},
	}
	alphaAlpha := []vStep{
		{Replicas: vInt(1)}, {Replicas: vInt(3)}, {Replicas: vPct(10)}, {Replicas: vPct(60), Weight: ip(60)},
		{Weight: ip(20)}, {Weight: ip(5)}, {Replicas: vPct(20), Weight: ip(500)}, {},
	}
	ref := vRefPool[5]
	dep := vRefPool[0]
	var rec func(version string, alphabet []vStep, prefix []vStep, depth int)
	rec = func(version string, alphabet []vStep, prefix []vStep, depth int) {
		if len(prefix) > 0 {
			for _, r := range []vRef{ref, dep} {
				r := r
				for _, withTR := range []bool{false, true} {
					st := &vStrat{Steps: append([]vStep{}, prefix...)}
					if withTR {
						st.TRs = &[]vTR{{Service: "svc-a", Ingress: &vIngress{Name: "ing-a"}}}
					}
					in := &vIn{Version: version, Op: "create", Limit: 50, Store: []vStored{},
						Obj: vObj{NS: "ns1", Name: "r1", Ref: &r, Canary: st}}
					validateCase(c, in)
				}
			}
		}
		if depth == 0 {
			return
		}
		for _, s := range alphabet {
			rec(version, alphabet, append(append([]vStep{}, prefix...), s), depth-1)
		}
	}
	depth := 3
	if c.Thorough() {
		depth = 4
	}
	rec("v1beta1", betaAlpha, nil, depth)
	rec("v1alpha1", alphaAlpha, nil, depth)
}

var vRawBodies = []string{
	``, `not json`, `[]`, `null`, `{}`, `{"spec":null}`, `{"spec":[]}`,
	`{"spec":{"workloadRef":[]}}`, `{"spec":{"workloadRef":"x"}}`,
	`{"spec":{"strategy":{"canary":{"steps":"x"}}}}`,
	`{"spec":{"strategy":{"canary":{"steps":[null]}}}}`,
	`{"spec":{"strategy":{"canary":{"steps":[{"replicas":{"a":1}}]}}}}`,
	`{"spec":{"strategy":{"canary":{"steps":[{"replicas":1.5}]}}}}`,
	`{"spec":{"strategy":{"canary":{"steps":[{"replicas":true}]}}}}`,
	`{"spec":{"strategy":{"canary":{"steps":[{"replicas":"10%","traffic":5}]}}}}`,
	`{"spec":{"strategy":{"canary":{"steps":[{"replicas":"10%","weight":"5"}]}}}}`,
	`{"spec":{"strategy":{"canary":{"trafficRoutings":{}}}}}`,
	`{"spec":{"strategy":{"canary":{"trafficRoutings":[null]}}}}`,
	`{"spec":{"strategy":{"canary":null,"blueGreen":null}}}`,
	`{"spec":{"objectRef":{"workloadRef":null},"strategy":{"canary":{}}}}`,
	`{"spec":{"objectRef":null,"strategy":{"canary":{"steps":[]}}}}`,
	`{"metadata":{"annotations":{"rollouts.kruise.io/rolling-style":5}}}`,
	`{"apiVersion":"v1","kind":"Pod"}`,
	`{"apiVersion":"rollouts.kruise.io/v1beta1","kind":"Rollout","spec":{"strategy":{"blueGreen":{"steps":[{}]}}}}`,
}

func runValidate(c *Ctx) {
	smallScope(c)
	for i := 0; i < c.N; i++ {
		validateCase(c, genCase(c))
	}
	for _, v := range []string{"v1beta1", "v1alpha1"} {
		for _, op := range []string{"create", "update"} {
			for _, b := range vRawBodies {
				validateRaw(c, &vRaw{Version: v, Op: op, Body: b})
				if op == "update" {
					ok := string(rawOf(v, &vObj{NS: "ns1", Name: "r1", Ref: &vRefPool[0],
						Canary: &vStrat{Steps: []vStep{{Replicas: vPct(10)}}}}))
					validateRaw(c, &vRaw{Version: v, Op: op, Body: ok, OldBody: b})
				}
			}
		}
	}
}

func replayValidate(c *Ctx, op string, raw json.RawMessage) {
	switch op {
	case "handle":
		var in vIn
		if err := json.Unmarshal(raw, &in); err != nil {
			panic(err)
		}
		if in.Store == nil {
			in.Store = []vStored{}
		}
		validateCase(c, &in)
	case "raw":
		var in vRaw
		if err := json.Unmarshal(raw, &in); err != nil {
			panic(err)
		}
		validateRaw(c, &in)
	}
}
