package main

// Suite "conversion" (property C20): the real (*v1alpha1.Rollout).ConvertTo/ConvertFrom and
// (*v1alpha1.BatchRelease).ConvertTo/ConvertFrom on generated objects of both API versions.
//
// Canonical JSON of an object (the shape RV/Drv/Conversion.lean parses): every Go pointer /
// optional block is `null` or present, every other field always present; sub-trees the
// conversion copies wholesale are the JSON text of the Go value (ObjectMeta minus annotations,
// the annotations other than the two keys the conversion reads/writes, header/path/query
// matches, RequestHeaderModifier, BlueGreenStrategy, BlueGreenStatus); nil and empty
// slices/maps are identified (they are under omitempty JSON too).
//
// Cases are generated as canonical JSON, decoded into the repo's own Go types (dec*), and
// canonicalised back (can*); `can(dec(j)) == j` is asserted on every case, and the op `fields`
// lists the leaf fields of the four Go types by reflection so that a field the canonicalisers
// do not know about is reported by the Lean side.

import (
	"bytes"
	"encoding/json"
	"fmt"
	"reflect"
	"sort"
	"strings"
	"time"

	"github.com/openkruise/rollouts/api/v1alpha1"
	"github.com/openkruise/rollouts/api/v1beta1"
	corev1 "k8s.io/api/core/v1"
	metav1 "k8s.io/apimachinery/pkg/apis/meta/v1"
	"k8s.io/apimachinery/pkg/types"
	"k8s.io/apimachinery/pkg/util/intstr"
	gatewayv1beta1 "sigs.k8s.io/gateway-api/apis/v1beta1"
)

func init() { register("conversion", runConversion, replayConversion) }

type A = []interface{}

// ---------------------------------------------------------------- small helpers

func mustJSON(v interface{}) string {
	b, err := json.Marshal(v)
	if err != nil {
		panic(err)
	}
	return string(b)
}

func fromJSON(s string, v interface{}) {
	if err := json.Unmarshal([]byte(s), v); err != nil {
		panic(fmt.Sprintf("harness: bad opaque json %q: %v", s, err))
	}
}

// normJ round-trips through encoding/json so that every value has the generic JSON types.
func normJ(v interface{}) J {
	var out J
	fromJSON(mustJSON(v), &out)
	return out
}

func gs(j J, k string) string {
	v, ok := j[k]
	if !ok {
		panic("harness: missing key " + k)
	}
	return v.(string)
}
func gb(j J, k string) bool { return j[k].(bool) }
func gi(j J, k string) int64 {
	v, ok := j[k]
	if !ok {
		panic("harness: missing key " + k)
	}
	return int64(v.(float64))
}
func gnil(j J, k string) bool { v, ok := j[k]; return !ok || v == nil }
func gobj(j J, k string) J    { return j[k].(map[string]interface{}) }
func garr(j J, k string) []interface{} {
	if gnil(j, k) {
		return nil
	}
	return j[k].([]interface{})
}
func gstrp(j J, k string) *string {
	if gnil(j, k) {
		return nil
	}
	s := gs(j, k)
	return &s
}
func gi32p(j J, k string) *int32 {
	if gnil(j, k) {
		return nil
	}
	v := int32(gi(j, k))
	return &v
}

func strpJ(p *string) interface{} {
	if p == nil {
		return nil
	}
	return *p
}
func i32pJ(p *int32) interface{} {
	if p == nil {
		return nil
	}
	return int64(*p)
}

func timeStr(t metav1.Time) string {
	if t.IsZero() {
		return ""
	}
	return t.UTC().Format(time.RFC3339)
}
func timeOf(s string) metav1.Time {
	if s == "" {
		return metav1.Time{}
	}
	t, err := time.Parse(time.RFC3339, s)
	if err != nil {
		panic(err)
	}
	return metav1.NewTime(t.UTC())
}
func timePJ(t *metav1.Time) interface{} {
	if t == nil {
		return nil
	}
	return timeStr(*t)
}
func timePOf(j J, k string) *metav1.Time {
	if gnil(j, k) {
		return nil
	}
	t := timeOf(gs(j, k))
	return &t
}

// IntOrString: {"i":n} | {"s":raw}
func iosC(v intstr.IntOrString) J {
	if v.Type == intstr.Int {
		return J{"i": int64(v.IntVal)}
	}
	return J{"s": v.StrVal}
}
func iosPC(v *intstr.IntOrString) interface{} {
	if v == nil {
		return nil
	}
	return iosC(*v)
}
func iosOfJ(j J) intstr.IntOrString {
	if !gnil(j, "i") {
		return intstr.FromInt(int(gi(j, "i")))
	}
	return intstr.FromString(gs(j, "s"))
}
func iosPOf(j J, k string) *intstr.IntOrString {
	if gnil(j, k) {
		return nil
	}
	v := iosOfJ(gobj(j, k))
	return &v
}

// ---------------------------------------------------------------- ObjectMeta

const (
	styleKey = v1alpha1.RolloutStyleAnnotation
	trKey    = v1alpha1.TrafficRoutingAnnotation
)

func canMeta(m metav1.ObjectMeta) J {
	rest := *m.DeepCopy()
	rest.Annotations = nil
	others := map[string]string{}
	var style, tr interface{}
	for k, v := range m.Annotations {
		switch k {
		case styleKey:
			style = v
		case trKey:
			tr = v
		default:
			others[k] = v
		}
	}
	return J{"rest": mustJSON(rest), "style": style, "tr": tr, "others": mustJSON(others)}
}

func decMeta(j J) metav1.ObjectMeta {
	var m metav1.ObjectMeta
	fromJSON(gs(j, "rest"), &m)
	others := map[string]string{}
	fromJSON(gs(j, "others"), &others)
	if len(others) > 0 || !gnil(j, "style") || !gnil(j, "tr") {
		m.Annotations = others
		if !gnil(j, "style") {
			m.Annotations[styleKey] = gs(j, "style")
		}
		if !gnil(j, "tr") {
			m.Annotations[trKey] = gs(j, "tr")
		}
	}
	return m
}

// ---------------------------------------------------------------- shared leaves

func canKV(m map[string]string) A {
	keys := make([]string, 0, len(m))
	for k := range m {
		keys = append(keys, k)
	}
	sort.Strings(keys)
	out := A{}
	for _, k := range keys {
		out = append(out, A{k, m[k]})
	}
	return out
}
func decKV(a []interface{}) map[string]string {
	if len(a) == 0 {
		return nil
	}
	m := map[string]string{}
	for _, kv := range a {
		p := kv.([]interface{})
		m[p[0].(string)] = p[1].(string)
	}
	return m
}

func canRef(api, kind, name string) J { return J{"apiVersion": api, "kind": kind, "name": name} }

func canConds(n int, at func(i int) (string, string, metav1.Time, metav1.Time, string, string)) A {
	out := A{}
	for i := 0; i < n; i++ {
		t, s, lut, ltt, r, m := at(i)
		out = append(out, J{"type": t, "status": s, "lut": timeStr(lut), "ltt": timeStr(ltt), "reason": r, "message": m})
	}
	return out
}

func canHeaders(hs []gatewayv1beta1.HTTPHeaderMatch) A {
	out := A{}
	for _, h := range hs {
		out = append(out, mustJSON(h))
	}
	return out
}
func decHeaders(a []interface{}) []gatewayv1beta1.HTTPHeaderMatch {
	var out []gatewayv1beta1.HTTPHeaderMatch
	for _, s := range a {
		var h gatewayv1beta1.HTTPHeaderMatch
		fromJSON(s.(string), &h)
		out = append(out, h)
	}
	return out
}
func canRHM(p *gatewayv1beta1.HTTPHeaderFilter) interface{} {
	if p == nil {
		return nil
	}
	return mustJSON(p)
}
func decRHM(j J, k string) *gatewayv1beta1.HTTPHeaderFilter {
	if gnil(j, k) {
		return nil
	}
	var f gatewayv1beta1.HTTPHeaderFilter
	fromJSON(gs(j, k), &f)
	return &f
}

// ---------------------------------------------------------------- v1alpha1.Rollout

func canATR(t v1alpha1.TrafficRoutingRef) J {
	var ing, gw interface{}
	if t.Ingress != nil {
		ing = J{"classType": t.Ingress.ClassType, "name": t.Ingress.Name}
	}
	if t.Gateway != nil {
		gw = J{"route": strpJ(t.Gateway.HTTPRouteName)}
	}
	custom := A{}
	for _, r := range t.CustomNetworkRefs {
		custom = append(custom, canRef(r.APIVersion, r.Kind, r.Name))
	}
	return J{"service": t.Service, "grace": int64(t.GracePeriodSeconds), "ingress": ing, "gateway": gw, "custom": custom}
}
func decATR(j J) v1alpha1.TrafficRoutingRef {
	t := v1alpha1.TrafficRoutingRef{Service: gs(j, "service"), GracePeriodSeconds: int32(gi(j, "grace"))}
	if !gnil(j, "ingress") {
		i := gobj(j, "ingress")
		t.Ingress = &v1alpha1.IngressTrafficRouting{ClassType: gs(i, "classType"), Name: gs(i, "name")}
	}
	if !gnil(j, "gateway") {
		t.Gateway = &v1alpha1.GatewayTrafficRouting{HTTPRouteName: gstrp(gobj(j, "gateway"), "route")}
	}
	for _, r := range garr(j, "custom") {
		m := r.(map[string]interface{})
		t.CustomNetworkRefs = append(t.CustomNetworkRefs, v1alpha1.CustomNetworkRef{APIVersion: gs(m, "apiVersion"), Kind: gs(m, "kind"), Name: gs(m, "name")})
	}
	return t
}

func canPatchA(p *v1alpha1.PatchPodTemplateMetadata) interface{} {
	if p == nil {
		return nil
	}
	return J{"annotations": canKV(p.Annotations), "labels": canKV(p.Labels)}
}
func decPatchA(j J, k string) *v1alpha1.PatchPodTemplateMetadata {
	if gnil(j, k) {
		return nil
	}
	p := gobj(j, k)
	return &v1alpha1.PatchPodTemplateMetadata{Annotations: decKV(garr(p, "annotations")), Labels: decKV(garr(p, "labels"))}
}

func canCondsA(cs []v1alpha1.RolloutCondition) A {
	return canConds(len(cs), func(i int) (string, string, metav1.Time, metav1.Time, string, string) {
		c := cs[i]
		return string(c.Type), string(c.Status), c.LastUpdateTime, c.LastTransitionTime, c.Reason, c.Message
	})
}
func decCondsA(a []interface{}) []v1alpha1.RolloutCondition {
	var out []v1alpha1.RolloutCondition
	for _, x := range a {
		j := x.(map[string]interface{})
		out = append(out, v1alpha1.RolloutCondition{Type: v1alpha1.RolloutConditionType(gs(j, "type")), Status: condStatus(gs(j, "status")), Reason: gs(j, "reason"),
			Message: gs(j, "message"), LastUpdateTime: timeOf(gs(j, "lut")), LastTransitionTime: timeOf(gs(j, "ltt"))})
	}
	return out
}

func canARollout(r *v1alpha1.Rollout) J {
	spec := J{"wref": nil, "paused": r.Spec.Strategy.Paused, "canary": nil, "rolloutID": r.Spec.DeprecatedRolloutID, "disabled": r.Spec.Disabled}
	if w := r.Spec.ObjectRef.WorkloadRef; w != nil {
		spec["wref"] = canRef(w.APIVersion, w.Kind, w.Name)
	}
	if c := r.Spec.Strategy.Canary; c != nil {
		steps := A{}
		for _, s := range c.Steps {
			mts := A{}
			for _, m := range s.Matches {
				mts = append(mts, J{"headers": canHeaders(m.Headers)})
			}
			steps = append(steps, J{"weight": i32pJ(s.Weight), "rhm": canRHM(s.RequestHeaderModifier), "mts": mts,
				"replicas": iosPC(s.Replicas), "pause": i32pJ(s.Pause.Duration)})
		}
		trs := A{}
		for _, t := range c.TrafficRoutings {
			trs = append(trs, canATR(t))
		}
		spec["canary"] = J{"steps": steps, "trs": trs, "ft": iosPC(c.FailureThreshold), "patch": canPatchA(c.PatchPodTemplateMetadata),
			"noSvc": c.DisableGenerateCanaryService}
	}
	st := J{"og": r.Status.ObservedGeneration, "cs": nil, "conds": canCondsA(r.Status.Conditions), "phase": string(r.Status.Phase), "message": r.Status.Message}
	if s := r.Status.CanaryStatus; s != nil {
		st["cs"] = J{"owg": s.ObservedWorkloadGeneration, "orid": s.ObservedRolloutID, "hash": s.RolloutHash, "stable": s.StableRevision,
			"canaryRev": s.CanaryRevision, "pth": s.PodTemplateHash, "replicas": int64(s.CanaryReplicas), "ready": int64(s.CanaryReadyReplicas),
			"next": int64(s.NextStepIndex), "cur": int64(s.CurrentStepIndex), "state": string(s.CurrentStepState), "message": s.Message,
			"lut": timePJ(s.LastUpdateTime), "fin": string(s.FinalisingStep)}
	}
	return normJ(J{"md": canMeta(r.ObjectMeta), "spec": spec, "status": st})
}

func decARollout(j J) *v1alpha1.Rollout {
	r := &v1alpha1.Rollout{ObjectMeta: decMeta(gobj(j, "md"))}
	spec := gobj(j, "spec")
	if !gnil(spec, "wref") {
		w := gobj(spec, "wref")
		r.Spec.ObjectRef.WorkloadRef = &v1alpha1.WorkloadRef{APIVersion: gs(w, "apiVersion"), Kind: gs(w, "kind"), Name: gs(w, "name")}
	}
	r.Spec.Strategy.Paused = gb(spec, "paused")
	r.Spec.DeprecatedRolloutID = gs(spec, "rolloutID")
	r.Spec.Disabled = gb(spec, "disabled")
	if !gnil(spec, "canary") {
		cj := gobj(spec, "canary")
		c := &v1alpha1.CanaryStrategy{FailureThreshold: iosPOf(cj, "ft"), PatchPodTemplateMetadata: decPatchA(cj, "patch"),
			DisableGenerateCanaryService: gb(cj, "noSvc")}
		for _, x := range garr(cj, "steps") {
			sj := x.(map[string]interface{})
			s := v1alpha1.CanaryStep{Replicas: iosPOf(sj, "replicas"), Pause: v1alpha1.RolloutPause{Duration: gi32p(sj, "pause")}}
			s.Weight = gi32p(sj, "weight")
			s.RequestHeaderModifier = decRHM(sj, "rhm")
			for _, m := range garr(sj, "mts") {
				s.Matches = append(s.Matches, v1alpha1.HttpRouteMatch{Headers: decHeaders(garr(m.(map[string]interface{}), "headers"))})
			}
			c.Steps = append(c.Steps, s)
		}
		for _, x := range garr(cj, "trs") {
			c.TrafficRoutings = append(c.TrafficRoutings, decATR(x.(map[string]interface{})))
		}
		r.Spec.Strategy.Canary = c
	}
	st := gobj(j, "status")
	r.Status.ObservedGeneration = gi(st, "og")
	r.Status.Conditions = decCondsA(garr(st, "conds"))
	r.Status.Phase = v1alpha1.RolloutPhase(gs(st, "phase"))
	r.Status.Message = gs(st, "message")
	if !gnil(st, "cs") {
		s := gobj(st, "cs")
		r.Status.CanaryStatus = &v1alpha1.CanaryStatus{ObservedWorkloadGeneration: gi(s, "owg"), ObservedRolloutID: gs(s, "orid"), RolloutHash: gs(s, "hash"),
			StableRevision: gs(s, "stable"), CanaryRevision: gs(s, "canaryRev"), PodTemplateHash: gs(s, "pth"), CanaryReplicas: int32(gi(s, "replicas")),
			CanaryReadyReplicas: int32(gi(s, "ready")), NextStepIndex: int32(gi(s, "next")), CurrentStepIndex: int32(gi(s, "cur")),
			CurrentStepState: v1alpha1.CanaryStepState(gs(s, "state")), Message: gs(s, "message"), LastUpdateTime: timePOf(s, "lut"),
			FinalisingStep: v1alpha1.FinalizeStateType(gs(s, "fin"))}
	}
	return r
}

// ---------------------------------------------------------------- v1beta1.Rollout

func canBTR(t v1beta1.TrafficRoutingRef) J {
	var ing, gw interface{}
	if t.Ingress != nil {
		ing = J{"classType": t.Ingress.ClassType, "name": t.Ingress.Name}
	}
	if t.Gateway != nil {
		gw = J{"route": strpJ(t.Gateway.HTTPRouteName)}
	}
	custom := A{}
	for _, r := range t.CustomNetworkRefs {
		custom = append(custom, canRef(r.APIVersion, r.Kind, r.Name))
	}
	return J{"service": t.Service, "grace": int64(t.GracePeriodSeconds), "ingress": ing, "gateway": gw, "custom": custom}
}
func decBTR(j J) v1beta1.TrafficRoutingRef {
	t := v1beta1.TrafficRoutingRef{Service: gs(j, "service"), GracePeriodSeconds: int32(gi(j, "grace"))}
	if !gnil(j, "ingress") {
		i := gobj(j, "ingress")
		t.Ingress = &v1beta1.IngressTrafficRouting{ClassType: gs(i, "classType"), Name: gs(i, "name")}
	}
	if !gnil(j, "gateway") {
		t.Gateway = &v1beta1.GatewayTrafficRouting{HTTPRouteName: gstrp(gobj(j, "gateway"), "route")}
	}
	for _, r := range garr(j, "custom") {
		m := r.(map[string]interface{})
		t.CustomNetworkRefs = append(t.CustomNetworkRefs, v1beta1.ObjectRef{APIVersion: gs(m, "apiVersion"), Kind: gs(m, "kind"), Name: gs(m, "name")})
	}
	return t
}

func canPatchB(p *v1beta1.PatchPodTemplateMetadata) interface{} {
	if p == nil {
		return nil
	}
	return J{"annotations": canKV(p.Annotations), "labels": canKV(p.Labels)}
}
func decPatchB(j J, k string) *v1beta1.PatchPodTemplateMetadata {
	if gnil(j, k) {
		return nil
	}
	p := gobj(j, k)
	return &v1beta1.PatchPodTemplateMetadata{Annotations: decKV(garr(p, "annotations")), Labels: decKV(garr(p, "labels"))}
}

func canCondsB(cs []v1beta1.RolloutCondition) A {
	return canConds(len(cs), func(i int) (string, string, metav1.Time, metav1.Time, string, string) {
		c := cs[i]
		return string(c.Type), string(c.Status), c.LastUpdateTime, c.LastTransitionTime, c.Reason, c.Message
	})
}
func decCondsB(a []interface{}) []v1beta1.RolloutCondition {
	var out []v1beta1.RolloutCondition
	for _, x := range a {
		j := x.(map[string]interface{})
		out = append(out, v1beta1.RolloutCondition{Type: v1beta1.RolloutConditionType(gs(j, "type")), Status: condStatus(gs(j, "status")), Reason: gs(j, "reason"),
			Message: gs(j, "message"), LastUpdateTime: timeOf(gs(j, "lut")), LastTransitionTime: timeOf(gs(j, "ltt"))})
	}
	return out
}

func canBRollout(r *v1beta1.Rollout) J {
	w := r.Spec.WorkloadRef
	spec := J{"wref": canRef(w.APIVersion, w.Kind, w.Name), "paused": r.Spec.Strategy.Paused, "canary": nil, "blueGreen": nil, "disabled": r.Spec.Disabled}
	if r.Spec.Strategy.BlueGreen != nil {
		spec["blueGreen"] = mustJSON(r.Spec.Strategy.BlueGreen)
	}
	if c := r.Spec.Strategy.Canary; c != nil {
		steps := A{}
		for _, s := range c.Steps {
			mts := A{}
			for _, m := range s.Matches {
				var path interface{}
				if m.Path != nil {
					path = mustJSON(m.Path)
				}
				q := A{}
				for _, x := range m.QueryParams {
					q = append(q, mustJSON(x))
				}
				mts = append(mts, J{"path": path, "headers": canHeaders(m.Headers), "query": q})
			}
			steps = append(steps, J{"traffic": strpJ(s.Traffic), "rhm": canRHM(s.RequestHeaderModifier), "mts": mts,
				"replicas": iosPC(s.Replicas), "pause": i32pJ(s.Pause.Duration)})
		}
		trs := A{}
		for _, t := range c.TrafficRoutings {
			trs = append(trs, canBTR(t))
		}
		spec["canary"] = J{"steps": steps, "trs": trs, "ft": iosPC(c.FailureThreshold), "patch": canPatchB(c.PatchPodTemplateMetadata),
			"extra": c.EnableExtraWorkloadForCanary, "trRef": c.TrafficRoutingRef, "noSvc": c.DisableGenerateCanaryService}
	}
	st := J{"og": r.Status.ObservedGeneration, "cs": nil, "bgs": nil, "conds": canCondsB(r.Status.Conditions), "phase": string(r.Status.Phase),
		"message": r.Status.Message, "cur": int64(r.Status.CurrentStepIndex), "state": string(r.Status.CurrentStepState)}
	if r.Status.BlueGreenStatus != nil {
		st["bgs"] = mustJSON(r.Status.BlueGreenStatus)
	}
	if s := r.Status.CanaryStatus; s != nil {
		st["cs"] = J{"owg": s.ObservedWorkloadGeneration, "orid": s.ObservedRolloutID, "hash": s.RolloutHash, "stable": s.StableRevision,
			"canaryRev": s.CanaryRevision, "pth": s.PodTemplateHash, "replicas": int64(s.CanaryReplicas), "ready": int64(s.CanaryReadyReplicas),
			"next": int64(s.NextStepIndex), "cur": int64(s.CurrentStepIndex), "state": string(s.CurrentStepState), "message": s.Message,
			"lut": timePJ(s.LastUpdateTime), "fin": string(s.FinalisingStep)}
	}
	return normJ(J{"md": canMeta(r.ObjectMeta), "spec": spec, "status": st})
}

func decBRollout(j J) *v1beta1.Rollout {
	r := &v1beta1.Rollout{ObjectMeta: decMeta(gobj(j, "md"))}
	spec := gobj(j, "spec")
	w := gobj(spec, "wref")
	r.Spec.WorkloadRef = v1beta1.ObjectRef{APIVersion: gs(w, "apiVersion"), Kind: gs(w, "kind"), Name: gs(w, "name")}
	r.Spec.Strategy.Paused = gb(spec, "paused")
	r.Spec.Disabled = gb(spec, "disabled")
	if !gnil(spec, "blueGreen") {
		r.Spec.Strategy.BlueGreen = &v1beta1.BlueGreenStrategy{}
		fromJSON(gs(spec, "blueGreen"), r.Spec.Strategy.BlueGreen)
	}
	if !gnil(spec, "canary") {
		cj := gobj(spec, "canary")
		c := &v1beta1.CanaryStrategy{FailureThreshold: iosPOf(cj, "ft"), PatchPodTemplateMetadata: decPatchB(cj, "patch"),
			EnableExtraWorkloadForCanary: gb(cj, "extra"), TrafficRoutingRef: gs(cj, "trRef"), DisableGenerateCanaryService: gb(cj, "noSvc")}
		for _, x := range garr(cj, "steps") {
			sj := x.(map[string]interface{})
			s := v1beta1.CanaryStep{Replicas: iosPOf(sj, "replicas"), Pause: v1beta1.RolloutPause{Duration: gi32p(sj, "pause")}}
			s.Traffic = gstrp(sj, "traffic")
			s.RequestHeaderModifier = decRHM(sj, "rhm")
			for _, mx := range garr(sj, "mts") {
				mj := mx.(map[string]interface{})
				m := v1beta1.HttpRouteMatch{Headers: decHeaders(garr(mj, "headers"))}
				if !gnil(mj, "path") {
					m.Path = &gatewayv1beta1.HTTPPathMatch{}
					fromJSON(gs(mj, "path"), m.Path)
				}
				for _, q := range garr(mj, "query") {
					var qp gatewayv1beta1.HTTPQueryParamMatch
					fromJSON(q.(string), &qp)
					m.QueryParams = append(m.QueryParams, qp)
				}
				s.Matches = append(s.Matches, m)
			}
			c.Steps = append(c.Steps, s)
		}
		for _, x := range garr(cj, "trs") {
			c.TrafficRoutings = append(c.TrafficRoutings, decBTR(x.(map[string]interface{})))
		}
		r.Spec.Strategy.Canary = c
	}
	st := gobj(j, "status")
	r.Status.ObservedGeneration = gi(st, "og")
	r.Status.Conditions = decCondsB(garr(st, "conds"))
	r.Status.Phase = v1beta1.RolloutPhase(gs(st, "phase"))
	r.Status.Message = gs(st, "message")
	r.Status.CurrentStepIndex = int32(gi(st, "cur"))
	r.Status.CurrentStepState = v1beta1.CanaryStepState(gs(st, "state"))
	if !gnil(st, "bgs") {
		r.Status.BlueGreenStatus = &v1beta1.BlueGreenStatus{}
		fromJSON(gs(st, "bgs"), r.Status.BlueGreenStatus)
	}
	if !gnil(st, "cs") {
		s := gobj(st, "cs")
		r.Status.CanaryStatus = &v1beta1.CanaryStatus{
			CommonStatus: v1beta1.CommonStatus{ObservedWorkloadGeneration: gi(s, "owg"), ObservedRolloutID: gs(s, "orid"), RolloutHash: gs(s, "hash"),
				StableRevision: gs(s, "stable"), PodTemplateHash: gs(s, "pth"), NextStepIndex: int32(gi(s, "next")), CurrentStepIndex: int32(gi(s, "cur")),
				CurrentStepState: v1beta1.CanaryStepState(gs(s, "state")), Message: gs(s, "message"), LastUpdateTime: timePOf(s, "lut"),
				FinalisingStep: v1beta1.FinalisingStepType(gs(s, "fin"))},
			CanaryRevision: gs(s, "canaryRev"), CanaryReplicas: int32(gi(s, "replicas")), CanaryReadyReplicas: int32(gi(s, "ready"))}
	}
	return r
}

// ---------------------------------------------------------------- BatchRelease (both versions)

type planView struct {
	batches []intstr.IntOrString
	part    *int32
	id      string
	ft      *intstr.IntOrString
	policy  string
	patch   interface{}
	style   string
	extra   bool
}

func canPlan(p planView) J {
	bs := A{}
	for _, b := range p.batches {
		bs = append(bs, iosC(b))
	}
	return J{"batches": bs, "partition": i32pJ(p.part), "rolloutID": p.id, "ft": iosPC(p.ft), "policy": p.policy, "patch": p.patch,
		"style": p.style, "extra": p.extra}
}

type brStatusView struct {
	conds                 A
	state                 string
	batch                 int32
	ready                 *metav1.Time
	updated, updatedReady int32
	noNeed                *int32
	stable, update        string
	og                    int64
	orid                  string
	replicas              int32
	collision             *int32
	hash, phase           string
}

func canBRStatus(s brStatusView) J {
	return J{"conds": s.conds,
		"cs":     J{"state": s.state, "batch": int64(s.batch), "readyTime": timePJ(s.ready), "updated": int64(s.updated), "updatedReady": int64(s.updatedReady), "noNeed": i32pJ(s.noNeed)},
		"stable": s.stable, "update": s.update, "og": s.og, "orid": s.orid, "replicas": int64(s.replicas), "collision": i32pJ(s.collision), "hash": s.hash, "phase": s.phase}
}

func canABR(r *v1alpha1.BatchRelease) J {
	spec := J{"wref": nil}
	if w := r.Spec.TargetRef.WorkloadRef; w != nil {
		spec["wref"] = canRef(w.APIVersion, w.Kind, w.Name)
	}
	p := r.Spec.ReleasePlan
	pv := planView{part: p.BatchPartition, id: p.RolloutID, ft: p.FailureThreshold, policy: string(p.FinalizingPolicy),
		patch: canPatchA(p.PatchPodTemplateMetadata), style: string(p.RollingStyle), extra: p.EnableExtraWorkloadForCanary}
	for _, b := range p.Batches {
		pv.batches = append(pv.batches, b.CanaryReplicas)
	}
	spec["plan"] = canPlan(pv)
	s := r.Status
	st := canBRStatus(brStatusView{conds: canCondsA(s.Conditions), state: string(s.CanaryStatus.CurrentBatchState), batch: s.CanaryStatus.CurrentBatch,
		ready: s.CanaryStatus.BatchReadyTime, updated: s.CanaryStatus.UpdatedReplicas, updatedReady: s.CanaryStatus.UpdatedReadyReplicas,
		noNeed: s.CanaryStatus.NoNeedUpdateReplicas, stable: s.StableRevision, update: s.UpdateRevision, og: s.ObservedGeneration,
		orid: s.ObservedRolloutID, replicas: s.ObservedWorkloadReplicas, collision: s.CollisionCount, hash: s.ObservedReleasePlanHash, phase: string(s.Phase)})
	return normJ(J{"md": canMeta(r.ObjectMeta), "spec": spec, "status": st})
}

func canBBR(r *v1beta1.BatchRelease) J {
	w := r.Spec.WorkloadRef
	spec := J{"wref": canRef(w.APIVersion, w.Kind, w.Name)}
	p := r.Spec.ReleasePlan
	pv := planView{part: p.BatchPartition, id: p.RolloutID, ft: p.FailureThreshold, policy: string(p.FinalizingPolicy),
		patch: canPatchB(p.PatchPodTemplateMetadata), style: string(p.RollingStyle), extra: p.EnableExtraWorkloadForCanary}
	for _, b := range p.Batches {
		pv.batches = append(pv.batches, b.CanaryReplicas)
	}
	spec["plan"] = canPlan(pv)
	s := r.Status
	st := canBRStatus(brStatusView{conds: canCondsB(s.Conditions), state: string(s.CanaryStatus.CurrentBatchState), batch: s.CanaryStatus.CurrentBatch,
		ready: s.CanaryStatus.BatchReadyTime, updated: s.CanaryStatus.UpdatedReplicas, updatedReady: s.CanaryStatus.UpdatedReadyReplicas,
		noNeed: s.CanaryStatus.NoNeedUpdateReplicas, stable: s.StableRevision, update: s.UpdateRevision, og: s.ObservedGeneration,
		orid: s.ObservedRolloutID, replicas: s.ObservedWorkloadReplicas, collision: s.CollisionCount, hash: s.ObservedReleasePlanHash, phase: string(s.Phase)})
	st["message"] = s.Message
	return normJ(J{"md": canMeta(r.ObjectMeta), "spec": spec, "status": st})
}

func decABR(j J) *v1alpha1.BatchRelease {
	r := &v1alpha1.BatchRelease{ObjectMeta: decMeta(gobj(j, "md"))}
	spec := gobj(j, "spec")
	if !gnil(spec, "wref") {
		w := gobj(spec, "wref")
		r.Spec.TargetRef.WorkloadRef = &v1alpha1.WorkloadRef{APIVersion: gs(w, "apiVersion"), Kind: gs(w, "kind"), Name: gs(w, "name")}
	}
	p := gobj(spec, "plan")
	r.Spec.ReleasePlan = v1alpha1.ReleasePlan{BatchPartition: gi32p(p, "partition"), RolloutID: gs(p, "rolloutID"), FailureThreshold: iosPOf(p, "ft"),
		FinalizingPolicy: v1alpha1.FinalizingPolicyType(gs(p, "policy")), PatchPodTemplateMetadata: decPatchA(p, "patch"),
		RollingStyle: v1alpha1.RollingStyleType(gs(p, "style")), EnableExtraWorkloadForCanary: gb(p, "extra")}
	for _, b := range garr(p, "batches") {
		r.Spec.ReleasePlan.Batches = append(r.Spec.ReleasePlan.Batches, v1alpha1.ReleaseBatch{CanaryReplicas: iosOfJ(b.(map[string]interface{}))})
	}
	s := gobj(j, "status")
	cs := gobj(s, "cs")
	r.Status = v1alpha1.BatchReleaseStatus{Conditions: decCondsA(garr(s, "conds")), StableRevision: gs(s, "stable"), UpdateRevision: gs(s, "update"),
		ObservedGeneration: gi(s, "og"), ObservedRolloutID: gs(s, "orid"), ObservedWorkloadReplicas: int32(gi(s, "replicas")), CollisionCount: gi32p(s, "collision"),
		ObservedReleasePlanHash: gs(s, "hash"), Phase: v1alpha1.RolloutPhase(gs(s, "phase")),
		CanaryStatus: v1alpha1.BatchReleaseCanaryStatus{CurrentBatchState: v1alpha1.BatchReleaseBatchStateType(gs(cs, "state")), CurrentBatch: int32(gi(cs, "batch")),
			BatchReadyTime: timePOf(cs, "readyTime"), UpdatedReplicas: int32(gi(cs, "updated")), UpdatedReadyReplicas: int32(gi(cs, "updatedReady")),
			NoNeedUpdateReplicas: gi32p(cs, "noNeed")}}
	return r
}

func decBBR(j J) *v1beta1.BatchRelease {
	r := &v1beta1.BatchRelease{ObjectMeta: decMeta(gobj(j, "md"))}
	spec := gobj(j, "spec")
	w := gobj(spec, "wref")
	r.Spec.WorkloadRef = v1beta1.ObjectRef{APIVersion: gs(w, "apiVersion"), Kind: gs(w, "kind"), Name: gs(w, "name")}
	p := gobj(spec, "plan")
	r.Spec.ReleasePlan = v1beta1.ReleasePlan{BatchPartition: gi32p(p, "partition"), RolloutID: gs(p, "rolloutID"), FailureThreshold: iosPOf(p, "ft"),
		FinalizingPolicy: v1beta1.FinalizingPolicyType(gs(p, "policy")), PatchPodTemplateMetadata: decPatchB(p, "patch"),
		RollingStyle: v1beta1.RollingStyleType(gs(p, "style")), EnableExtraWorkloadForCanary: gb(p, "extra")}
	for _, b := range garr(p, "batches") {
		r.Spec.ReleasePlan.Batches = append(r.Spec.ReleasePlan.Batches, v1beta1.ReleaseBatch{CanaryReplicas: iosOfJ(b.(map[string]interface{}))})
	}
	s := gobj(j, "status")
	cs := gobj(s, "cs")
	r.Status = v1beta1.BatchReleaseStatus{Conditions: decCondsB(garr(s, "conds")), StableRevision: gs(s, "stable"), UpdateRevision: gs(s, "update"),
		ObservedGeneration: gi(s, "og"), ObservedRolloutID: gs(s, "orid"), ObservedWorkloadReplicas: int32(gi(s, "replicas")), CollisionCount: gi32p(s, "collision"),
		ObservedReleasePlanHash: gs(s, "hash"), Phase: v1beta1.RolloutPhase(gs(s, "phase")), Message: gs(s, "message"),
		CanaryStatus: v1beta1.BatchReleaseCanaryStatus{CurrentBatchState: v1beta1.BatchReleaseBatchStateType(gs(cs, "state")), CurrentBatch: int32(gi(cs, "batch")),
			BatchReadyTime: timePOf(cs, "readyTime"), UpdatedReplicas: int32(gi(cs, "updated")), UpdatedReadyReplicas: int32(gi(cs, "updatedReady")),
			NoNeedUpdateReplicas: gi32p(cs, "noNeed")}}
	return r
}

// ---------------------------------------------------------------- running the real code

// try runs f; a panic or a non-nil error is an output, never a harness crash.
func try(f func() error) (res string) {
	defer func() {
		if r := recover(); r != nil {
			res = "panic"
		}
	}()
	if err := f(); err != nil {
		return "err"
	}
	return "ok"
}

func outcome(res string, obj func() J) J {
	if res == "ok" {
		return J{"ok": obj()}
	}
	return J{res: true}
}

func selfCheck(what string, in, again J) {
	if !bytes.Equal([]byte(mustJSON(in)), []byte(mustJSON(again))) {
		panic(fmt.Sprintf("harness self-check failed for %s:\n in    %s\n again %s", what, mustJSON(in), mustJSON(again)))
	}
}

func convRolloutAB(c *Ctx, in J) {
	in = normJ(in)
	a := decARollout(in)
	selfCheck("v1alpha1.Rollout", in, canARollout(a))
	b := &v1beta1.Rollout{}
	r1 := try(func() error { return a.ConvertTo(b) })
	impl := J{"mid": outcome(r1, func() J { return canBRollout(b) }), "back": nil}
	if r1 == "ok" {
		a2 := &v1alpha1.Rollout{}
		r2 := try(func() error { return a2.ConvertFrom(b) })
		impl["back"] = outcome(r2, func() J { return canARollout(a2) })
	}
	c.Emit("rolloutAB", in, impl)
}

func convRolloutBA(c *Ctx, in J) {
	in = normJ(in)
	b := decBRollout(in)
	selfCheck("v1beta1.Rollout", in, canBRollout(b))
	a := &v1alpha1.Rollout{}
	r1 := try(func() error { return a.ConvertFrom(b) })
	impl := J{"mid": outcome(r1, func() J { return canARollout(a) }), "back": nil}
	if r1 == "ok" {
		b2 := &v1beta1.Rollout{}
		r2 := try(func() error { return a.ConvertTo(b2) })
		impl["back"] = outcome(r2, func() J { return canBRollout(b2) })
	}
	c.Emit("rolloutBA", in, impl)
}

func convBRAB(c *Ctx, in J) {
	in = normJ(in)
	a := decABR(in)
	selfCheck("v1alpha1.BatchRelease", in, canABR(a))
	b := &v1beta1.BatchRelease{}
	r1 := try(func() error { return a.ConvertTo(b) })
	impl := J{"mid": outcome(r1, func() J { return canBBR(b) }), "back": nil}
	if r1 == "ok" {
		a2 := &v1alpha1.BatchRelease{}
		r2 := try(func() error { return a2.ConvertFrom(b) })
		impl["back"] = outcome(r2, func() J { return canABR(a2) })
	}
	c.Emit("brAB", in, impl)
}

func convBRBA(c *Ctx, in J) {
	in = normJ(in)
	b := decBBR(in)
	selfCheck("v1beta1.BatchRelease", in, canBBR(b))
	a := &v1alpha1.BatchRelease{}
	r1 := try(func() error { return a.ConvertFrom(b) })
	impl := J{"mid": outcome(r1, func() J { return canABR(a) }), "back": nil}
	if r1 == "ok" {
		b2 := &v1beta1.BatchRelease{}
		r2 := try(func() error { return a.ConvertTo(b2) })
		impl["back"] = outcome(r2, func() J { return canBBR(b2) })
	}
	c.Emit("brBA", in, impl)
}

// ---------------------------------------------------------------- source facts (reflection)

var opaqueTypes = map[reflect.Type]bool{
	reflect.TypeOf(metav1.ObjectMeta{}):                  true,
	reflect.TypeOf(metav1.Time{}):                        true,
	reflect.TypeOf(intstr.IntOrString{}):                 true,
	reflect.TypeOf(gatewayv1beta1.HTTPHeaderMatch{}):     true,
	reflect.TypeOf(gatewayv1beta1.HTTPHeaderFilter{}):    true,
	reflect.TypeOf(gatewayv1beta1.HTTPPathMatch{}):       true,
	reflect.TypeOf(gatewayv1beta1.HTTPQueryParamMatch{}): true,
	reflect.TypeOf(v1beta1.BlueGreenStrategy{}):          true,
	reflect.TypeOf(v1beta1.BlueGreenStatus{}):            true,
}

func leafFields(t reflect.Type, prefix string, out *[]string) {
	for t.Kind() == reflect.Ptr {
		t = t.Elem()
	}
	if opaqueTypes[t] || t.Kind() == reflect.Map {
		*out = append(*out, prefix)
		return
	}
	switch t.Kind() {
	case reflect.Struct:
		for i := 0; i < t.NumField(); i++ {
			f := t.Field(i)
			if f.Type == reflect.TypeOf(metav1.TypeMeta{}) {
				continue
			}
			name := strings.Split(f.Tag.Get("json"), ",")[0]
			p := prefix
			if !(f.Anonymous && name == "") {
				if p != "" {
					p += "."
				}
				p += name
			}
			leafFields(f.Type, p, out)
		}
	case reflect.Slice:
		leafFields(t.Elem(), prefix+"[]", out)
	default:
		*out = append(*out, prefix)
	}
}

func convFields(c *Ctx, only string) {
	for _, x := range []struct {
		name string
		t    reflect.Type
	}{
		{"v1alpha1.Rollout", reflect.TypeOf(v1alpha1.Rollout{})},
		{"v1beta1.Rollout", reflect.TypeOf(v1beta1.Rollout{})},
		{"v1alpha1.BatchRelease", reflect.TypeOf(v1alpha1.BatchRelease{})},
		{"v1beta1.BatchRelease", reflect.TypeOf(v1beta1.BatchRelease{})},
	} {
		if only != "" && only != x.name {
			continue
		}
		var out []string
		leafFields(x.t, "", &out)
		sort.Strings(out)
		c.Emit("fields", J{"type": x.name}, out)
	}
}

// ---------------------------------------------------------------- generators (canonical JSON)

type cgen struct{ c *Ctx }

func (g cgen) n(k int) int              { return g.c.Rng.Intn(k) }
func (g cgen) oneIn(k int) bool         { return g.c.Rng.Intn(k) == 0 }
func (g cgen) pick(xs ...string) string { return xs[g.n(len(xs))] }

func (g cgen) str() string {
	return g.pick("", "a", "demo", "apps/v1", "Deployment", "CloneSet", "x-y.z", "web-1", "üñí", "with space", "\"q\"")
}
func (g cgen) i32() int64 {
	switch g.n(8) {
	case 0:
		return 0
	case 1:
		return int64(g.n(101))
	case 2:
		return -int64(g.n(10)) - 1
	case 3:
		return 2147483647
	case 4:
		return -2147483648
	case 5:
		return int64(g.c.Rng.Int31())
	default:
		return int64(g.n(12))
	}
}
func (g cgen) i64() int64 {
	if g.oneIn(6) {
		return (g.c.Rng.Int63() >> 11) - (1 << 51)
	}
	return int64(g.n(50))
}
func (g cgen) optI32() interface{} {
	if g.oneIn(3) {
		return nil
	}
	return g.i32()
}
func (g cgen) optStr() interface{} {
	if g.oneIn(3) {
		return nil
	}
	return g.str()
}
func (g cgen) ios() J {
	switch g.n(5) {
	case 0:
		return J{"i": g.i32()}
	case 1:
		return J{"s": fmt.Sprintf("%d%%", g.n(121))}
	case 2:
		return J{"s": g.pick("", "%", "abc", "10", "1.5%", "+5%", "005%", "-3%")}
	default:
		return J{"i": int64(g.n(20))}
	}
}
func (g cgen) optIOS() interface{} {
	if g.oneIn(3) {
		return nil
	}
	return g.ios()
}
func (g cgen) timeS() string {
	if g.oneIn(5) {
		return ""
	}
	return time.Unix(1700000000+int64(g.n(100000000)), 0).UTC().Format(time.RFC3339)
}
func (g cgen) optTime() interface{} {
	if g.oneIn(3) {
		return nil
	}
	return g.timeS()
}

var styleAnnValues = []string{"partition", "canary", "Partition", "PARTITION", "pArTiTiOn", "Canary", "CANARY", "bluegreen", "BlueGreen", "BLUEGREEN",
	"", "foo", "partition ", "partitions", "canar", "PART\u0130T\u0130ON", "\u212Aanary", "blue-green"}

// ASCII only: strings.ToLower is modelled on ASCII (see props/C20.json trusted_base)
var styleFieldValues = []string{"", "Partition", "Canary", "BlueGreen", "partition", "canary", "bluegreen", "PARTITION", "cAnArY", "BLUEgreen", "Foo", "foo", "Rolling", "partition "}

func (g cgen) meta(trVals []string) J {
	m := metav1.ObjectMeta{Name: g.pick("r1", "demo", "rollout-x"), Namespace: g.pick("", "default", "ns1")}
	if g.oneIn(2) {
		m.Labels = map[string]string{"app": g.str()}
	}
	if g.oneIn(3) {
		m.Generation = int64(g.n(9))
		m.Finalizers = []string{"rollouts.kruise.io/rollout"}
	}
	if g.oneIn(4) {
		m.UID = types.UID(g.pick("u-1", "u-2"))
		m.ResourceVersion = fmt.Sprint(g.n(1000))
		m.OwnerReferences = []metav1.OwnerReference{{APIVersion: "rollouts.kruise.io/v1beta1", Kind: "Rollout", Name: "o", UID: "u-0"}}
	}
	if g.oneIn(8) {
		t := metav1.NewTime(time.Unix(1700000000, 0).UTC())
		m.DeletionTimestamp = &t
	}
	others := map[string]string{}
	if g.oneIn(2) {
		others["example.com/note"] = g.str()
	}
	if g.oneIn(4) {
		others["rollouts.kruise.io/hash"] = "h" + fmt.Sprint(g.n(9))
	}
	var style, tr interface{}
	if !g.oneIn(3) {
		style = styleAnnValues[g.n(len(styleAnnValues))]
		if g.oneIn(2) {
			style = g.pick("partition", "canary")
		}
	}
	if !g.oneIn(2) {
		tr = trVals[g.n(len(trVals))]
	}
	return J{"rest": mustJSON(m), "style": style, "tr": tr, "others": mustJSON(others)}
}

func (g cgen) ref() J {
	return canRef(g.pick("apps/v1", "apps.kruise.io/v1alpha1", ""), g.pick("Deployment", "CloneSet", "StatefulSet", ""), g.pick("web", "demo", ""))
}

func (g cgen) headers() A {
	out := A{}
	for i := g.n(3); i > 0; i-- {
		h := gatewayv1beta1.HTTPHeaderMatch{Name: gatewayv1beta1.HTTPHeaderName(g.pick("user-agent", "x-canary", "cookie")), Value: g.pick("pc", "true", ".*demo.*", "")}
		if g.oneIn(2) {
			t := gatewayv1beta1.HeaderMatchType(g.pick("Exact", "RegularExpression"))
			h.Type = &t
		}
		out = append(out, mustJSON(h))
	}
	return out
}
func (g cgen) rhm() interface{} {
	if !g.oneIn(4) {
		return nil
	}
	f := gatewayv1beta1.HTTPHeaderFilter{Set: []gatewayv1beta1.HTTPHeader{{Name: "x-env", Value: g.pick("canary", "gray")}}}
	if g.oneIn(2) {
		f.Remove = []string{"x-old"}
	}
	return mustJSON(f)
}

func (g cgen) patch() interface{} {
	if !g.oneIn(3) {
		return nil
	}
	p := J{"annotations": A{}, "labels": A{}}
	if g.oneIn(2) {
		p["annotations"] = A{A{"a/b", g.str()}, A{"c", "d"}}
	}
	if g.oneIn(2) {
		p["labels"] = A{A{"version", g.pick("canary", "v2")}}
	}
	return p
}

func (g cgen) trRef() J {
	t := J{"service": g.pick("svc", "echoserver", ""), "grace": int64(g.n(4)) * int64(g.n(30)), "ingress": nil, "gateway": nil, "custom": A{}}
	if g.oneIn(2) {
		t["ingress"] = J{"classType": g.pick("", "nginx", "aliyun-alb"), "name": g.pick("ing", "")}
	}
	if g.oneIn(3) {
		t["gateway"] = J{"route": g.optStr()}
	}
	for i := g.n(4) / 2; i > 0; i-- {
		t["custom"] = append(t["custom"].(A), g.ref())
	}
	return t
}
func (g cgen) trRefs() A {
	out := A{}
	for i := g.n(6) / 2; i > 0; i-- {
		out = append(out, g.trRef())
	}
	return out
}

func (g cgen) conds() A {
	out := A{}
	for i := g.n(3); i > 0; i-- {
		out = append(out, J{"type": g.pick("Progressing", "Succeeded", "Terminating", "Other"), "status": g.pick("True", "False", "Unknown"),
			"lut": g.timeS(), "ltt": g.timeS(), "reason": g.pick("InRolling", "Paused", "Completed", ""), "message": g.str()})
	}
	return out
}

func condStatus(s string) corev1.ConditionStatus { return corev1.ConditionStatus(s) }

func (g cgen) canaryStatus() interface{} {
	if g.oneIn(3) {
		return nil
	}
	return J{"owg": g.i64(), "orid": g.pick("", "1", "id-2"), "hash": g.pick("", "h1"), "stable": g.pick("", "s-abc"), "canaryRev": g.pick("", "c-def"),
		"pth": g.pick("", "pth1"), "replicas": g.i32(), "ready": g.i32(), "next": g.i32(), "cur": g.i32(),
		"state": g.pick("", "StepUpgrade", "StepTrafficRouting", "StepPaused", "StepReady", "Completed", "BeforeStepUpgrade"), "message": g.str(),
		"lut": g.optTime(), "fin": g.pick("", "END", "ResumeWorkload", "RestoreStableService")}
}

func (g cgen) phase() string {
	return g.pick("", "Initial", "Healthy", "Progressing", "Terminating", "Disabled", "Disabling", "Preparing", "Finalizing", "Completed")
}

var trAnnValues = []string{"", "tr-demo", "tr-2"}

func (g cgen) aRollout() J {
	spec := J{"wref": nil, "paused": g.oneIn(3), "canary": nil, "rolloutID": g.pick("", "", "id-7"), "disabled": g.oneIn(4)}
	if !g.oneIn(6) {
		spec["wref"] = g.ref()
	}
	if !g.oneIn(6) {
		steps := A{}
		for i := g.n(5); i > 0; i-- {
			mts := A{}
			for k := g.n(4) / 2; k > 0; k-- {
				mts = append(mts, J{"headers": g.headers()})
			}
			steps = append(steps, J{"weight": g.optI32(), "rhm": g.rhm(), "mts": mts, "replicas": g.optIOS(), "pause": g.optI32()})
		}
		spec["canary"] = J{"steps": steps, "trs": g.trRefs(), "ft": g.optIOS(), "patch": g.patch(), "noSvc": g.oneIn(3)}
	}
	return J{"md": g.meta(trAnnValues), "spec": spec,
		"status": J{"og": g.i64(), "cs": g.canaryStatus(), "conds": g.conds(), "phase": g.phase(), "message": g.str()}}
}

var trafficMalformed = []string{"", "%", "5", "05%", "+5%", "-0%", "5%%", " 5%", "5 %", "abc%", "1e3%", "99999999999%", "-99999999999%", "4294967297%",
	// |v| in [2^53/100, 2^63) is left out: there Go goes through float64 (ceil(v*100/100)) and an
	// implementation-defined float->int conversion; the model is exact integer arithmetic.
	"9223372036854775808%", "-9223372036854775809%", "99999999999999999999999%", "90071992547409%", "-90071992547409%",
	"\uff12\uff10%", "\u22125%", "5\u0025\u0025", "0x10%", "1_0%", "--5%", "+%", "-%"}

func (g cgen) traffic(restricted bool) interface{} {
	if g.oneIn(3) {
		return nil
	}
	if restricted || !g.oneIn(3) {
		return fmt.Sprintf("%d%%", g.i32())
	}
	return trafficMalformed[g.n(len(trafficMalformed))]
}

// bRollout generates a v1beta1 Rollout; `restricted` keeps it inside (mostly) the
// v1alpha1-expressible canary-strategy fragment the property's second clause quantifies over.
func (g cgen) bRollout(restricted bool) J {
	spec := J{"wref": g.ref(), "paused": g.oneIn(3), "canary": nil, "blueGreen": nil, "disabled": g.oneIn(4)}
	md := g.meta(trAnnValues)
	hasCanary := restricted || !g.oneIn(6)
	if !restricted && g.oneIn(6) {
		bg := v1beta1.BlueGreenStrategy{TrafficRoutingRef: g.pick("", "tr")}
		if g.oneIn(2) {
			bg.Steps = []v1beta1.CanaryStep{{Replicas: &intstr.IntOrString{Type: intstr.String, StrVal: "100%"}}}
		}
		spec["blueGreen"] = mustJSON(bg)
	}
	if hasCanary {
		steps := A{}
		for i := g.n(5); i > 0; i-- {
			mts := A{}
			for k := g.n(4) / 2; k > 0; k-- {
				m := J{"path": nil, "headers": g.headers(), "query": A{}}
				if !restricted && g.oneIn(3) {
					v := "/v2"
					m["path"] = mustJSON(gatewayv1beta1.HTTPPathMatch{Value: &v})
				}
				if !restricted && g.oneIn(3) {
					m["query"] = A{mustJSON(gatewayv1beta1.HTTPQueryParamMatch{Name: "user", Value: "demo"})}
				}
				mts = append(mts, m)
			}
			tr := g.traffic(restricted)
			rep := g.optIOS()
			if restricted && tr != nil && rep == nil {
				rep = g.ios()
			}
			steps = append(steps, J{"traffic": tr, "rhm": g.rhm(), "mts": mts, "replicas": rep, "pause": g.optI32()})
		}
		trRef := g.pick("", "", "tr-demo", "tr-9")
		if restricted && trRef == "" && md["tr"] != nil && md["tr"] != "" {
			trRef = md["tr"].(string)
		}
		spec["canary"] = J{"steps": steps, "trs": g.trRefs(), "ft": g.optIOS(), "patch": g.patch(), "extra": g.oneIn(2), "trRef": trRef, "noSvc": g.oneIn(3)}
	}
	st := J{"og": g.i64(), "cs": g.canaryStatus(), "bgs": nil, "conds": g.conds(), "phase": g.phase(), "message": g.str(), "cur": int64(0), "state": ""}
	if !restricted && g.oneIn(4) {
		st["cur"] = g.i32()
		st["state"] = g.pick("StepUpgrade", "StepReady", "")
	}
	if !restricted && g.oneIn(6) {
		st["bgs"] = mustJSON(v1beta1.BlueGreenStatus{UpdatedRevision: "r1", UpdatedReplicas: int32(g.n(9))})
	}
	return J{"md": md, "spec": spec, "status": st}
}

func (g cgen) plan(styles []string) J {
	bs := A{}
	for i := g.n(5); i > 0; i-- {
		bs = append(bs, g.ios())
	}
	return J{"batches": bs, "partition": g.optI32(), "rolloutID": g.pick("", "1", "id-2"), "ft": g.optIOS(), "policy": g.pick("", "WaitResume", "Immediate", "Other"),
		"patch": g.patch(), "style": styles[g.n(len(styles))], "extra": g.oneIn(2)}
}

func (g cgen) brStatus() J {
	return J{"conds": g.conds(),
		"cs":     J{"state": g.pick("", "Upgrading", "Verifying", "Ready"), "batch": g.i32(), "readyTime": g.optTime(), "updated": g.i32(), "updatedReady": g.i32(), "noNeed": g.optI32()},
		"stable": g.pick("", "s-1"), "update": g.pick("", "u-2"), "og": g.i64(), "orid": g.pick("", "1"), "replicas": g.i32(), "collision": g.optI32(),
		"hash": g.pick("", "ph"), "phase": g.phase()}
}

func (g cgen) aBR() J {
	spec := J{"wref": nil, "plan": g.plan(styleFieldValues)}
	if !g.oneIn(5) {
		spec["wref"] = g.ref()
	}
	return J{"md": g.meta(trAnnValues), "spec": spec, "status": g.brStatus()}
}

func (g cgen) bBR(restricted bool) J {
	styles := styleFieldValues
	if restricted {
		styles = []string{"", "Partition", "Canary", "BlueGreen", "Foo", "Rolling"}
	}
	st := g.brStatus()
	st["message"] = ""
	if !restricted && g.oneIn(3) {
		st["message"] = g.str()
	}
	return J{"md": g.meta(trAnnValues), "spec": J{"wref": g.ref(), "plan": g.plan(styles)}, "status": st}
}

// ---------------------------------------------------------------- suite

func runConversion(c *Ctx) {
	g := cgen{c}
	convFields(c, "")
	// small-scope sweep: every combination of the optional blocks of a v1alpha1 Rollout
	for mask := 0; mask < 64; mask++ {
		a := g.aRollout()
		spec := a["spec"].(J)
		if mask&1 != 0 {
			spec["wref"] = nil
		} else {
			spec["wref"] = g.ref()
		}
		if mask&2 != 0 {
			spec["canary"] = nil
		} else if spec["canary"] == nil {
			spec["canary"] = J{"steps": A{}, "trs": A{}, "ft": nil, "patch": nil, "noSvc": false}
		}
		if mask&4 != 0 {
			a["status"].(J)["cs"] = nil
		}
		md := a["md"].(J)
		if mask&8 != 0 {
			md["style"] = nil
		}
		if mask&16 != 0 {
			md["tr"] = nil
		}
		if mask&32 != 0 {
			md["others"] = "{}"
		}
		convRolloutAB(c, a)
	}
	n := c.N
	for i := 0; i < n; i++ {
		convRolloutAB(c, g.aRollout())
		convRolloutBA(c, g.bRollout(i%2 == 0))
		convBRAB(c, g.aBR())
		convBRBA(c, g.bBR(i%2 == 0))
	}
}

func replayConversion(c *Ctx, op string, raw json.RawMessage) {
	var in J
	if err := json.Unmarshal(raw, &in); err != nil {
		panic(err)
	}
	switch op {
	case "rolloutAB":
		convRolloutAB(c, in)
	case "rolloutBA":
		convRolloutBA(c, in)
	case "brAB":
		convBRAB(c, in)
	case "brBA":
		convBRBA(c, in)
	case "fields":
		convFields(c, gs(in, "type"))
	}
}
